package c11

// C11(h): an operator logs in WHILE a record-and-distribute call of the teamserver is in the
// middle of its fan-out.  Every site that produces a retained event is one call that records
// the event and hands it to the operators that are online (EventListenerError, EventAgentMark,
// AgentConsole, AgentCallbackSize, ListenerStart's announcement, an operator's chat through
// handleRequest + DispatchEvent).  The fan-out is held open at a generated point: one of the
// operators online stops accepting data, so the call blocks inside the write to it.  While it
// is provably blocked a newcomer - already connected but not authenticated, or dialling only
// now - logs in.  Shortly after the newcomer's auth reply the stalled connection accepts data
// again, and the blocked calls and the newcomer's handler run through the rest of the client
// table concurrently (a large event keeps the calls busy encoding it for every operator, so
// that the newcomer's handler overtakes them).  Whatever the interleaving, the event exists (it
// is retained, and everybody else has it), so the newcomer must have it: replayed or live.
//
// (Ending the stall by the stalled operator's side going away does not open the window on HEAD:
// its handler's farewell broadcast waits for the per-client lock the blocked write holds, so the
// record stays until the write deadline has expired - 10 s per case for nothing.)

import (
	"encoding/json"
	"errors"
	"fmt"
	"strings"
	"sync"
	"testing"
	"time"

	"pgregory.net/rapid"

	"Havoc/pkg/agent"
	"Havoc/pkg/events"
	"Havoc/pkg/handlers"

	"verifharness/internal/core"
	"verifharness/internal/wsx"
)

type EmitH struct {
	Kind string `json:"kind"` // lerr (EventListenerError of the listener of the history / of an unknown name) | mark (EventAgentMark) | console (AgentConsole) | cbsize (AgentCallbackSize) | lstart (ListenerStart SMB) | tslog (EventAppend+EventBroadcast) | chat (another bystander's websocket)
	Pad  int    `json:"pad"`  // bytes of padding in the event (lerr, console, tslog, chat)
}

type CaseH struct {
	Bystand   int     `json:"bystanders"` // operators online (1-4)
	Stalled   int     `json:"stalled"`    // which of them stops accepting data
	History   int     `json:"history"`    // retained events before
	Listener  bool    `json:"listener"`   // the history holds an SMB listener (the one a lerr emitter reports)
	Emit      []EmitH `json:"emit"`       // 1-3 concurrent record-and-distribute calls
	Connected bool    `json:"connected"`  // the newcomer is connected (unauthenticated) before the calls start; otherwise it dials while they are blocked
	DelayUs   int     `json:"delay_us"`   // time between the newcomer's auth reply and the end of the stall
	After     int     `json:"after"`      // events recorded after everything (0-2)
}

func genH(t *rapid.T) CaseH {
	var c CaseH
	c.Bystand = rapid.SampledFrom([]int{1, 2, 3, 3, 4, 4}).Draw(t, "bystanders")
	c.Stalled = rapid.IntRange(0, c.Bystand-1).Draw(t, "stalled")
	c.History = rapid.IntRange(0, 12).Draw(t, "history")
	c.Listener = rapid.Bool().Draw(t, "listener")
	ne := rapid.SampledFrom([]int{1, 1, 2, 3}).Draw(t, "emitters")
	kinds := []string{"lerr", "lerr", "mark", "console", "console", "cbsize", "lstart", "tslog"}
	if c.Bystand > 1 {
		kinds = append(kinds, "chat")
	}
	for i := 0; i < ne; i++ {
		c.Emit = append(c.Emit, EmitH{
			Kind: rapid.SampledFrom(kinds).Draw(t, "kind"),
			Pad:  rapid.SampledFrom([]int{0, 3000, 300000, 1000000, 1000000, 3000000}).Draw(t, "pad"),
		})
	}
	c.Connected = rapid.Bool().Draw(t, "connected")
	c.DelayUs = rapid.SampledFrom([]int{0, 50, 300, 2000}).Draw(t, "delay-us")
	c.After = rapid.IntRange(0, 2).Draw(t, "after")
	return c
}

func checkH(c CaseH) *core.Violation { return wsx.Exec("h", c) }

func runH(raw json.RawMessage) *core.Violation {
	var c CaseH
	if err := json.Unmarshal(raw, &c); err != nil {
		return core.V("harness|decode", "%v", err)
	}
	if c.Bystand < 1 || c.Bystand > 4 || len(c.Emit) == 0 {
		return nil
	}
	fx, err := wsx.Acquire(pool, "service-password")
	if err != nil {
		return core.V("harness|fixture", "%v", err)
	}
	dirty := false
	defer func() { fx.Release(dirty) }()
	ts := fx.TS
	w := &world{fx: fx, retained: []ent{{p: "init/profile"}}, removedViaRequest: map[string]bool{}}
	for _, u := range pool {
		w.free = append(w.free, u.Name)
	}
	for i := 0; i < c.Bystand; i++ {
		if v := w.connect("replay"); v != nil {
			return v
		}
	}
	bystanders := append([]*mclient(nil), w.clients...)
	B := bystanders[c.Stalled%len(bystanders)]
	user, user2 := w.free[0], w.free[1]
	short := func(p string) string {
		if len(p) > 70 {
			return p[:70] + "..."
		}
		return p
	}

	bufs := map[*mclient][]string{}
	pull := func(b *mclient, until string) *core.Violation {
		for {
			fr, ok, _ := b.c.Next(wsx.Watchdog)
			if !ok {
				return core.V("live|not-delivered|bystander", "operator %s: %q did not arrive; got %d frames", b.user, until, len(bufs[b]))
			}
			pk, err := wsx.Decode(fr)
			if err != nil {
				return core.V("frame|not-one-package", "%v", err)
			}
			p := wsx.Proj(pk)
			if p == until {
				return nil
			}
			bufs[b] = append(bufs[b], p)
		}
	}
	nflush := 0
	// flush: every operator of `who` sends a one-shot chat; when each of them has all the echoes,
	// every handler has finished what it was asked before and everything broadcast before has arrived
	flush := func(who []*mclient) *core.Violation {
		nflush++
		for _, b := range who {
			b.c.SendJSON(wsx.BarrierPkg(b.user, fmt.Sprintf("flush-%d", nflush)))
		}
		for _, b := range who {
			for _, s := range who {
				want := "!chat/" + s.user + "/" + fmt.Sprintf("flush-%d", nflush)
				found := false
				for _, p := range bufs[b] {
					if p == want {
						found = true
					}
				}
				if !found {
					if v := pull(b, want); v != nil {
						return v
					}
				}
			}
		}
		return nil
	}

	// ---- history
	var history []string
	if c.Listener {
		if err := ts.ListenerStart(handlers.LISTENER_PIVOT_SMB, handlers.SMBConfig{Name: "HL", PipeName: "pipe-HL"}); err != nil {
			return core.V("harness|listener-start", "%v", err)
		}
	}
	for i := 0; i < c.History; i++ {
		tk := fmt.Sprintf("pre-%dq", i)
		pk := events.Teamserver.Logger(tk)
		ts.EventAppend(pk)
		ts.EventBroadcast("", pk)
		history = append(history, "tslog/"+tk)
	}
	if v := flush(bystanders); v != nil {
		return v
	}
	for _, b := range bystanders {
		bufs[b] = nil
	}

	// ---- the emitters
	type emitter struct {
		EmitH
		match string // identifies its event in a projection
		run   func()
	}
	var ems []*emitter
	for i, e := range c.Emit {
		i, e := i, e
		pad := strings.Repeat("P", e.Pad)
		em := &emitter{EmitH: e}
		switch e.Kind {
		case "chat":
			var S *mclient
			for k := range bystanders {
				if s := bystanders[(i+k)%len(bystanders)]; s != B {
					S = s
					break
				}
			}
			if S != nil {
				em.match = fmt.Sprintf("chat/%s/EMIT%dq", S.user, i)
				em.run = func() { S.c.SendJSON(wsx.ChatPkg(S.user, fmt.Sprintf("EMIT%dq", i)+pad)) }
				break
			}
			em.Kind = "console"
			fallthrough
		case "console":
			em.match = fmt.Sprintf("out/0badc0de/EMIT%dq", i)
			em.run = func() {
				ts.AgentConsole("0badc0de", agent.HAVOC_CONSOLE_MESSAGE, map[string]string{"Type": "Info", "Message": fmt.Sprintf("EMIT%dq", i) + pad})
			}
		case "lerr":
			name := fmt.Sprintf("ghost-%d", i)
			if c.Listener {
				name = "HL"
			}
			em.match = fmt.Sprintf("lerr/%s/EMIT%dq", name, i)
			em.run = func() {
				ts.EventListenerError(name, errors.New("listen tcp 0.0.0.0:443: "+fmt.Sprintf("EMIT%dq", i)+" bind failed "+pad))
			}
		case "mark":
			em.match = fmt.Sprintf("/EMIT%dq/Dead", i)
			em.run = func() { ts.EventAgentMark(fmt.Sprintf("EMIT%dq", i), "Dead") }
		case "cbsize":
			em.match = fmt.Sprintf("[%d bytes]", 7700000+i)
			a := wsx.NewAgent(0x0badc0d0 + uint32(i))
			em.run = func() { ts.AgentCallbackSize(a, 7700000+i) }
		case "lstart":
			name := fmt.Sprintf("EMIT%dq", i)
			em.match = "ladd//" + name + "/"
			em.run = func() {
				ts.ListenerStart(handlers.LISTENER_PIVOT_SMB, handlers.SMBConfig{Name: name, PipeName: "pipe-" + name})
			}
		default:
			em.Kind = "tslog"
			em.match = fmt.Sprintf("tslog/EMIT%dq", i)
			em.run = func() {
				pk := events.Teamserver.Logger(fmt.Sprintf("EMIT%dq", i) + pad)
				ts.EventAppend(pk)
				ts.EventBroadcast("", pk)
			}
		}
		ems = append(ems, em)
	}
	which := func(p string) int {
		for i, em := range ems {
			if strings.Contains(p, em.match) {
				return i
			}
		}
		return -1
	}

	// ---- the newcomer: connected and known to the teamserver, not authenticated
	var nc *wsx.Client
	dialN := func() *core.Violation {
		var err error
		nc, err = fx.Dial("/havoc/")
		if err != nil {
			return core.V("harness|dial", "%v", err)
		}
		deadline := time.Now().Add(wsx.Watchdog)
		for {
			if id, _ := fx.ClientByAddr(nc.Local); id != "" {
				return nil
			}
			if time.Now().After(deadline) {
				return core.V("harness|no-client-record", "the newcomer's connection was never registered")
			}
			time.Sleep(50 * time.Microsecond)
		}
	}
	if c.Connected {
		if v := dialN(); v != nil {
			return v
		}
	}

	// ---- the stall, and the calls that run into it
	B.c.Peer.PauseAfterWrites(0)
	var wg sync.WaitGroup
	for _, em := range ems {
		em := em
		wg.Add(1)
		go func() { defer wg.Done(); em.run() }()
	}
	emitted := make(chan struct{})
	go func() { wg.Wait(); close(emitted) }()
	release := func() { B.c.Peer.Resume() }
	deadline := time.Now().Add(wsx.Watchdog)
	for !B.c.Peer.Paused() {
		if time.Now().After(deadline) {
			release()
			dirty = true
			return core.V("hang|fan-out-never-reached-the-stalled-operator|"+core.HavocFrame(dump()), "no write to operator %s was attempted within %v after %d record-and-distribute calls were started", B.user, wsx.Watchdog, len(ems))
		}
		time.Sleep(20 * time.Microsecond)
	}
	if !c.Connected {
		if v := dialN(); v != nil {
			release()
			return v
		}
	}
	alive := bystanders
	var early []wsx.Frame
	held := false
	nc.SendJSON(wsx.LoginPkg(user, "pw-"+user))
	for {
		fr, ok, closed := nc.Next(wsx.Watchdog)
		if !ok {
			release()
			dirty = true
			return core.V("hang|auth-reply-while-fan-out-is-stalled|"+core.HavocFrame(handlerStack(dump())), "the newcomer got no auth reply within %v (closed=%v, %v)", wsx.Watchdog, closed, nc.ReadErr)
		}
		early = append(early, fr)
		if pk, err := wsx.Decode(fr); err == nil && wsx.Proj(pk) == "init/success" {
			break
		}
	}
	if c.DelayUs > 0 {
		time.Sleep(time.Duration(c.DelayUs) * time.Microsecond)
	}
	select {
	case <-emitted:
	default:
		held = B.c.Peer.Paused()
	}
	if held {
		wsx.Obs("h:login-inside-a-blocked-fan-out")
	} else {
		wsx.Obs("h:fan-out-was-over-before-the-login")
	}
	release()
	select {
	case <-emitted:
	case <-time.After(2 * wsx.Watchdog):
		dirty = true
		return core.V("hang|record-and-distribute-after-stall|"+core.HavocFrame(dump()), "the record-and-distribute calls did not return within %v after the stalled connection accepted data again", 2*wsx.Watchdog)
	}
	{
		// the newcomer's login is over when the echo of a one-shot chat of its own is back
		nc.SendJSON(wsx.BarrierPkg(user, "in"))
		for {
			fr, ok, closed := nc.Next(wsx.Watchdog)
			if !ok {
				dirty = true
				return core.V("hang|login-overlapping-a-stalled-fan-out|"+core.HavocFrame(handlerStack(dump())), "the newcomer's login did not complete within %v after the stalled connection accepted data again (closed=%v, %v); %d frames", wsx.Watchdog, closed, nc.ReadErr, len(early))
			}
			early = append(early, fr)
			if pk, err := wsx.Decode(fr); err == nil && wsx.Proj(pk) == "!chat/"+user+"/in" {
				break
			}
		}
	}
	if B.c.Peer.WriteFailed() {
		// the stall outlasted the teamserver's write deadline (machine overloaded): no verdict
		wsx.Obs("h:stall-exceeded-write-deadline")
		return nil
	}
	var after []string
	for i := 0; i < c.After; i++ {
		tk := fmt.Sprintf("post-%dq", i)
		pk := events.Teamserver.Logger(tk)
		ts.EventAppend(pk)
		ts.EventBroadcast("", pk)
		after = append(after, "tslog/"+tk)
	}
	if v := flush(alive); v != nil {
		return v
	}

	// ---- the newcomer's stream up to the echo of its final one-shot chat
	ctx := fmt.Sprintf("(%d operators online, operator %d stalled, stall ended %d us after the newcomer's auth reply, newcomer connected before the calls: %v, calls: %+v)", c.Bystand, c.Stalled, c.DelayUs, c.Connected, c.Emit)
	nc.SendJSON(wsx.BarrierPkg(user, "end"))
	var seq []string
	for {
		var fr wsx.Frame
		ok, closed := true, false
		if len(early) > 0 {
			fr, early = early[0], early[1:]
		} else {
			fr, ok, closed = nc.Next(wsx.Watchdog)
		}
		if !ok {
			return core.V("overlap|newcomer-stream-incomplete", "the newcomer's stream ended before its final barrier came back (closed=%v, %v); %d frames %s", closed, nc.ReadErr, len(seq), ctx)
		}
		pk, err := wsx.Decode(fr)
		if err != nil {
			return core.V("frame|not-one-package", "newcomer: %v: %.200q", err, fr.Data)
		}
		p := wsx.Proj(pk)
		if p == "!chat/"+user+"/end" {
			break
		}
		if strings.HasPrefix(p, "!chat/") {
			continue
		}
		seq = append(seq, p)
	}
	if len(seq) == 0 || seq[0] != "init/success" {
		return core.V("overlap|no-success-first", "newcomer's first frame: %v", clipL(seq))
	}
	judge := func(who string, seq []string, exactlyOnce bool, sig string) *core.Violation {
		hi, ai := 0, 0
		got := make([]int, len(ems))
		seen := map[string]int{}
		for _, p := range seq {
			if strings.HasPrefix(p, "tslog/pre-") || strings.HasPrefix(p, "tslog/post-") {
				seen[p]++
				if seen[p] > 1 {
					return core.V(sig+"|event-twice|recorded-outside-the-overlap", "%s received %q twice %s", who, p, ctx)
				}
			}
			if hi < len(history) && p == history[hi] {
				hi++
			}
			if ai < len(after) && p == after[ai] {
				ai++
			}
			if i := which(p); i >= 0 {
				got[i]++
			}
		}
		if hi != len(history) {
			return core.V(sig+"|retained-event-missing-or-out-of-order", "%s: retained event %q (recorded before the overlap) is missing or out of order %s", who, history[hi], ctx)
		}
		if ai != len(after) {
			return core.V(sig+"|later-event-missing-or-out-of-order", "%s: event %q (recorded after the overlap) is missing or out of order %s", who, after[ai], ctx)
		}
		for i, em := range ems {
			if got[i] == 0 {
				return core.V(sig+"|event-never-arrives|"+em.Kind, "%s never received the %s event %q, neither replayed nor live, although the call that recorded and distributed it has returned %s", who, em.Kind, short(em.match), ctx)
			}
			if exactlyOnce && got[i] > 1 {
				return core.V(sig+"|event-twice|"+em.Kind, "%s received the %s event %q %d times %s", who, em.Kind, short(em.match), got[i], ctx)
			}
		}
		return nil
	}
	// (an event whose fan-out overlaps the login may arrive replayed AND live on HEAD: at least once)
	if v := judge("the operator that logged in while the calls were inside their fan-out", seq, false, "overlap|newcomer"); v != nil {
		return v
	}
	// ---- the operators that were online all along: exactly once
	for _, b := range alive {
		if v := pull(b, "!chat/"+user+"/end"); v != nil {
			return v
		}
		var own []string
		for _, p := range bufs[b] {
			if !strings.HasPrefix(p, "tslog/pre-") {
				own = append(own, p)
			}
		}
		sv := history
		history = nil
		v := judge("operator "+b.user+" (online all along)", own, true, "overlap|bystander")
		history = sv
		if v != nil {
			return v
		}
	}
	// ---- a later newcomer: everything is retained, once
	n2, err := fx.Dial("/havoc/")
	if err != nil {
		return core.V("harness|dial", "%v", err)
	}
	n2.SendJSON(wsx.LoginPkg(user2, "pw-"+user2))
	n2.SendJSON(wsx.BarrierPkg(user2, "end2"))
	var replay []string
	for {
		fr, ok, closed := n2.Next(wsx.Watchdog)
		if !ok {
			return core.V("overlap|later-newcomer-stream-incomplete", "a later newcomer's login did not complete (closed=%v, %v); %d frames %s", closed, n2.ReadErr, len(replay), ctx)
		}
		pk, err := wsx.Decode(fr)
		if err != nil {
			return core.V("frame|not-one-package", "later newcomer: %v: %.200q", err, fr.Data)
		}
		p := wsx.Proj(pk)
		if p == "!chat/"+user2+"/end2" {
			break
		}
		replay = append(replay, p)
	}
	if v := judge("a later newcomer's replay", replay, true, "overlap|later-replay"); v != nil {
		return v
	}
	return nil
}

func classifyH(c CaseH) core.Class {
	var cl core.Class
	kinds := map[string]bool{}
	maxPad := 0
	for _, e := range c.Emit {
		k := e.Kind
		if k == "chat" && c.Bystand < 2 {
			k = "console"
		}
		kinds[k] = true
		cl.Labels = append(cl.Labels, "overlap-call:"+k)
		if e.Pad > maxPad {
			maxPad = e.Pad
		}
	}
	conn := "newcomer-dials-while-fan-out-is-blocked"
	if c.Connected {
		conn = "newcomer-connected-unauthenticated-before-the-fan-out"
	}
	cl.Labels = append(cl.Labels, "login-overlaps-fan-out", conn,
		fmt.Sprintf("overlap-calls:%d", len(c.Emit)), fmt.Sprintf("overlap-pad:%d", maxPad), fmt.Sprintf("overlap-operators-online:%d", c.Bystand))
	if kinds["lerr"] && c.Listener {
		cl.Labels = append(cl.Labels, "overlap-call:lerr-of-a-retained-listener")
	}
	cl.NonTrivial = true
	ks := ""
	for _, k := range []string{"lerr", "mark", "console", "cbsize", "lstart", "tslog", "chat"} {
		if kinds[k] {
			ks += k[:2]
		}
	}
	cl.Fingerprint = fmt.Sprintf("by=%d|conn=%v|n=%d|kinds=%s|big=%v", c.Bystand, c.Connected, len(c.Emit), ks, maxPad >= 100000)
	return cl
}

func TestC11h(t *testing.T) {
	core.Run(t, core.Spec[CaseH]{
		Property: "C11", Sub: "h",
		Rule: "1-4 operators online, 0-12 retained events and optionally an SMB listener; one of the operators stops accepting data (the next write to its server-side connection blocks). 1-3 concurrent record-and-distribute calls are started - EventListenerError (of the retained listener or of an unknown name), EventAgentMark, AgentConsole, AgentCallbackSize, ListenerStart, EventAppend+EventBroadcast, a chat through another operator's websocket - with 0-3000000 bytes of padding in the event; each of them blocks inside its fan-out at the stalled operator. While a write is provably blocked there, a newcomer - connected and registered but unauthenticated before the calls started, or dialling only now - logs in. The stalled connection accepts data again 0-2000 us after the newcomer's auth reply; the calls and the newcomer's handler then run through the rest of the client table concurrently (the calls encode the large event once per operator, the newcomer's own announcement is small, so its handler overtakes them and takes its replay snapshot while they are still distributing). Then 0-2 more events are recorded. Oracle: every call returns (watchdog); the newcomer (everything before the echo of its final one-shot chat) got Success first, the retained history once and in order, every event of the overlapping calls at least once (replayed or live - on HEAD an overlapping event may arrive both ways), the later events once and in order; every operator online all along got every event of the calls and the later events exactly once; a later newcomer's replay holds the history, every event of the calls and the later events exactly once. All cases non-trivial",
		Gen:   genH, Check: checkH, Classify: classifyH,
		Assumptions: []string{
			"an event whose fan-out overlaps the login may reach the newcomer twice on HEAD (recorded before the login's snapshot, and distributed to the newcomer after it was marked authenticated): only 'at least once' is demanded of the newcomer for those events",
			"whether the fan-out visits the newcomer's record before or after the stalled operator's is not controlled (sync.Map order): both occur; if the stall outlasts the teamserver's own write deadline (overloaded machine) the case gives no verdict",
		},
	})
}

package c11

// C11(g): operator requests that take SECONDS while the other operators go on being served.
// Removing an HTTP listener blocks the remover's handler for five seconds inside
// (*HTTP).Stop(); the retained Add events of the listener are pruned only after that.  The
// histories here put generated requests of the OTHER operators at generated offsets inside
// that window - a listener of the same name (HTTP / SMB / External), listeners of other names,
// chats, removals of other listeners (instant ones, a second slow one, a second removal of
// the same listener), edits, a login - and end with a newcomer.
//
// Everything goes through the operators' websockets (the listeners are real HTTP servers on
// free loopback ports, started by Listener/Add requests or by ListenerStart as the profile
// does).  Requests are issued one after the other; each is followed by a one-shot chat of its
// sender whose echo proves that the sender's handler has finished dispatching it, and a
// request counts as "inside the window" only if that echo is back at least 400 ms before the
// earliest moment at which the blocked removal can wake up - otherwise the case gives no
// verdict.  So the outcome on HEAD is determined by the order of the requests alone.

import (
	"encoding/json"
	"fmt"
	"net"
	"sort"
	"strconv"
	"strings"
	"testing"
	"time"

	"pgregory.net/rapid"

	"Havoc/pkg/handlers"
	"Havoc/pkg/packager"

	"verifharness/internal/core"
	"verifharness/internal/wsx"
)

type WReq struct {
	K    string `json:"k"`     // add-same-name | add-other-name | chat | remove-other | remove-other-http | remove-same | edit-same | edit-other | edit-unknown | login
	Kind string `json:"kind"`  // add-*: http | smb | ext
	By   int    `json:"by"`    // which of the other operators sends it
	AtMs int    `json:"at_ms"` // offset inside the window, counted from the moment the slow removal is sent
	S    int    `json:"s"`     // edits: settings variant
}

type CaseG struct {
	Others  int    `json:"others"`   // operators besides the remover (1-2)
	Name    int    `json:"name"`     // representation class of the name of the listener that is removed
	XVia    int    `json:"x_via"`    // it was started by: 0 ListenerStart (profile / restored) | 1 the remover's request | 2 another operator's request
	PreSMB  bool   `json:"pre_smb"`  // listeners that exist beside it
	PreExt  bool   `json:"pre_ext"`
	PreHTTP bool   `json:"pre_http"`
	Window  []WReq `json:"window"` // requests of the other operators while the remover is blocked
	Post    []WReq `json:"post"`   // requests after every removal has returned (add-same-name = the name is taken again)
}

var gNames = []string{"edge", "edge 1", "Édge-日本", " edge"}

func genG(t *rapid.T) CaseG {
	var c CaseG
	c.Others = rapid.IntRange(1, 2).Draw(t, "others")
	c.Name = rapid.IntRange(0, len(gNames)-1).Draw(t, "name")
	c.XVia = rapid.IntRange(0, 2).Draw(t, "x-via")
	c.PreSMB = rapid.Bool().Draw(t, "pre-smb")
	c.PreExt = rapid.Bool().Draw(t, "pre-ext")
	c.PreHTTP = rapid.Bool().Draw(t, "pre-http")
	kinds := []string{"add-same-name", "add-same-name", "add-same-name", "add-other-name", "add-other-name", "chat", "chat", "remove-other", "remove-other-http", "remove-same", "edit-same", "edit-other", "edit-unknown", "login"}
	n := rapid.IntRange(1, 4).Draw(t, "window")
	at := 300
	for i := 0; i < n; i++ {
		at += rapid.IntRange(0, 900).Draw(t, "gap")
		if at > 3900 {
			break
		}
		c.Window = append(c.Window, WReq{
			K:    rapid.SampledFrom(kinds).Draw(t, "k"),
			Kind: rapid.SampledFrom([]string{"smb", "http", "ext"}).Draw(t, "kind"),
			By:   rapid.IntRange(0, 1).Draw(t, "by"),
			AtMs: at,
			S:    rapid.IntRange(1, 3).Draw(t, "s"),
		})
		at += 300
	}
	for i, n := 0, rapid.IntRange(0, 2).Draw(t, "post"); i < n; i++ {
		c.Post = append(c.Post, WReq{
			K:    rapid.SampledFrom([]string{"add-same-name", "add-same-name", "chat", "edit-other", "add-other-name"}).Draw(t, "pk"),
			Kind: rapid.SampledFrom([]string{"smb", "http", "ext"}).Draw(t, "pkind"),
			By:   rapid.IntRange(0, 2).Draw(t, "pby"),
			S:    rapid.IntRange(1, 3).Draw(t, "ps"),
		})
	}
	return c
}

func checkG(c CaseG) *core.Violation { return wsx.Exec("g", c) }

// ---- projection that also knows Listener/Edit

func infoStr(m map[string]any, k string) string {
	if v, ok := m[k]; ok {
		if s, ok := v.(string); ok {
			return s
		}
		return fmt.Sprint(v)
	}
	return ""
}

func projL(pk packager.Package) string {
	if pk.Head.Event == packager.Type.Listener.Type && pk.Body.SubEvent == packager.Type.Listener.Edit {
		in := pk.Body.Info
		return "ledit/" + pk.Head.User + "/" + infoStr(in, "Name") + "/" + infoStr(in, "UserAgent") + "|" + infoStr(in, "Headers") + "|" + infoStr(in, "Uris")
	}
	return wsx.Proj(pk)
}

// ---- the listener table, as the client keeps it and as the teamserver has it

type lrow struct {
	Proto   string
	Port    string
	UA      string
	Headers string
	Uris    string
}

func (r lrow) String() string {
	if r.Proto == handlers.AGENT_HTTP {
		return fmt.Sprintf("%s port=%s ua=%q headers=%q uris=%q", r.Proto, r.Port, r.UA, r.Headers, r.Uris)
	}
	return r.Proto
}

// foldL folds a stream the way the client does (Packager.cc DispatchListener, ListenersTable.cc):
// an Add from the teamserver adds the listener, an Add recorded from an operator is ignored,
// a Remove removes by exact name, an Edit replaces the settings of the listener of that name.
func foldL(tab map[string]lrow, pks []packager.Package) {
	T := packager.Type.Listener
	for _, pk := range pks {
		if pk.Head.Event != T.Type {
			continue
		}
		in := pk.Body.Info
		name := infoStr(in, "Name")
		switch pk.Body.SubEvent {
		case T.Add:
			if pk.Head.User != "" {
				continue
			}
			r := lrow{Proto: infoStr(in, "Protocol")}
			if r.Proto == handlers.AGENT_HTTP {
				r.Port, r.UA, r.Headers, r.Uris = infoStr(in, "PortBind"), infoStr(in, "UserAgent"), infoStr(in, "Headers"), infoStr(in, "Uris")
			}
			tab[name] = r
		case T.Remove:
			if pk.Head.User != "" {
				continue // (the recorded request; the client acts on it just the same, and the announcement follows)
			}
			delete(tab, name)
		case T.Edit:
			if r, ok := tab[name]; ok && pk.Head.User == "" {
				if r.Proto == handlers.AGENT_HTTP {
					r.UA, r.Headers, r.Uris = infoStr(in, "UserAgent"), infoStr(in, "Headers"), infoStr(in, "Uris")
				}
				tab[name] = r
			}
		}
	}
}

func (w *world) actualL() map[string]lrow {
	out := map[string]lrow{}
	for _, l := range w.fx.TS.Listeners {
		switch cfg := l.Config.(type) {
		case *handlers.HTTP:
			out[l.Name] = lrow{Proto: handlers.AGENT_HTTP, Port: cfg.Config.PortBind, UA: cfg.Config.UserAgent, Headers: strings.Join(cfg.Config.Headers, ", "), Uris: strings.Join(cfg.Config.Uris, ", ")}
		case *handlers.SMB:
			out[l.Name] = lrow{Proto: handlers.AGENT_PIVOT_SMB}
		case *handlers.External:
			out[l.Name] = lrow{Proto: handlers.AGENT_EXTERNAL}
		default:
			out[l.Name] = lrow{Proto: fmt.Sprintf("%T", l.Config)}
		}
	}
	return out
}

func diffL(shown, actual map[string]lrow) (string, string) {
	var names []string
	for n := range shown {
		names = append(names, n)
	}
	for n := range actual {
		if _, ok := shown[n]; !ok {
			names = append(names, n)
		}
	}
	sort.Strings(names)
	for _, n := range names {
		s, okS := shown[n]
		a, okA := actual[n]
		switch {
		case !okS:
			return "lacks-an-existing-listener", fmt.Sprintf("the teamserver has listener %q (%v), which the stream does not leave in the client's table", n, a)
		case !okA:
			return "shows-a-listener-that-does-not-exist", fmt.Sprintf("the client's table shows listener %q (%v), which the teamserver does not have", n, s)
		case s.Proto != a.Proto:
			return "shows-a-listener-of-another-kind", fmt.Sprintf("listener %q: the client's table says %v, the teamserver has %v", n, s, a)
		case s != a:
			return "shows-other-settings", fmt.Sprintf("listener %q: the client's table says %v, the teamserver has %v", n, s, a)
		}
	}
	return "", ""
}

// ---- the interpreter

type gworld struct {
	*world
	rec    map[*mclient][]packager.Package // everything an operator received, in order
	parked map[*mclient]bool               // its handler is blocked inside a slow removal
	kinds  map[string]string               // model: listener name -> http | smb | ext
	ports  map[string]string
	reborn map[string]bool // the name went to a new listener while its old holder was being removed
}

func (g *gworld) expectRec(m *mclient, want []string, sig string) *core.Violation {
	for i, p := range want {
		fr, ok, closed := m.c.Next(wsx.Watchdog)
		if !ok {
			how := "not-delivered"
			if closed {
				how = "connection-ended"
			}
			return core.V(sig+"|"+how+"|"+wsx.KindOf(strings.TrimPrefix(p, "!")), "operator %s: message %d of %d (%q) did not arrive (closed=%v, %v)", m.user, i+1, len(want), p, closed, m.c.ReadErr)
		}
		pk, err := wsx.Decode(fr)
		if err != nil {
			return core.V("frame|not-one-package", "operator %s received a websocket message that is not exactly one JSON package: %v: %.200q", m.user, err, fr.Data)
		}
		g.rec[m] = append(g.rec[m], pk)
		if got := projL(pk); got != p {
			time.Sleep(2 * time.Millisecond)
			var next []string
			for _, f := range m.c.Pending() {
				if q, err := wsx.Decode(f); err == nil {
					next = append(next, projL(q))
				}
			}
			return core.V(sig+"|want="+wsx.KindOf(strings.TrimPrefix(p, "!"))+"|got="+wsx.KindOf(strings.TrimPrefix(got, "!")), "operator %s: message %d of %d: got %q, want %q\nexpected: %v\nqueued behind it: %v", m.user, i+1, len(want), got, p, want, next)
		}
	}
	return nil
}

func (g *gworld) allRec(p string, except *mclient, sig string) *core.Violation {
	for _, m := range g.alive() {
		if m == except {
			continue
		}
		if v := g.expectRec(m, []string{p}, sig); v != nil {
			return v
		}
	}
	return nil
}

// barrier: a one-shot chat of m; its echo at everybody proves that m's handler has finished
// dispatching what m sent before.
func (g *gworld) barrier(m *mclient, sig string) *core.Violation {
	b := g.token("b")
	m.c.SendJSON(wsx.BarrierPkg(m.user, b))
	return g.allRec("!chat/"+m.user+"/"+b, nil, sig)
}

// tableCheck: what the operator received so far, folded, is what the teamserver has.
func (g *gworld) tableCheck(m *mclient, sig, when string) *core.Violation {
	tab := map[string]lrow{}
	foldL(tab, g.rec[m])
	if what, msg := diffL(tab, g.actualL()); what != "" {
		return core.V(sig+"|"+what, "operator %s, %s: %s", m.user, when, msg)
	}
	return nil
}

// login: a new operator; its replay is compared with the model of the retained list, and,
// folded, with the listeners the teamserver has (names, kinds, settings).
func (g *gworld) login(sig, when string) (*mclient, *core.Violation) {
	if len(g.free) == 0 {
		return nil, nil
	}
	user := g.free[0]
	g.free = g.free[1:]
	c, err := g.fx.Dial("/havoc/")
	if err != nil {
		return nil, core.V("harness|dial", "%v", err)
	}
	m := &mclient{user: user, c: c}
	c.SendJSON(wsx.LoginPkg(user, "pw-"+user))
	g.retained = append(g.retained, ent{p: "newuser/" + user})
	want := append([]string{"init/success"}, g.replay()...)
	if v := g.expectRec(m, want, sig); v != nil {
		// name the consequence if there is one: fold everything that did arrive
		time.Sleep(200 * time.Millisecond)
		for _, f := range m.c.Pending() {
			if q, err := wsx.Decode(f); err == nil {
				g.rec[m] = append(g.rec[m], q)
			}
		}
		if v2 := g.tableCheck(m, sig+"|folded-replay", when); v2 != nil {
			v2.Msg += "\n(the replay differs from the model of the retained list: " + v.Msg + ")"
			return nil, v2
		}
		return nil, v
	}
	if v := g.allRec("newuser/"+user, nil, "live"); v != nil {
		return nil, v
	}
	g.clients = append(g.clients, m)
	if m.id, _ = g.fx.ClientByAddr(c.Local); m.id == "" {
		return nil, core.V("harness|no-client-record", "no record for %s", user)
	}
	if v := g.barrier(m, "live-oneshot"); v != nil {
		return nil, v
	}
	return m, g.tableCheck(m, sig+"|folded-replay", when)
}

func freePort() (string, error) {
	l, err := core.ListenLoopback("tcp4")
	if err != nil {
		return "", err
	}
	p := l.Addr().(*net.TCPAddr).Port
	l.Close()
	return strconv.Itoa(p), nil
}

func waitPort(port string) bool {
	deadline := time.Now().Add(10 * time.Second)
	for time.Now().Before(deadline) {
		c, err := net.DialTimeout("tcp4", "127.0.0.1:"+port, time.Second)
		if err == nil {
			c.Close()
			return true
		}
		time.Sleep(2 * time.Millisecond)
	}
	return false
}

type lset struct{ ua, headers, uris string }

func settings(s int) lset {
	if s == 0 {
		return lset{"UA-0", "X-Op: 0", "/index"}
	}
	return lset{fmt.Sprintf("UA-%d", s), fmt.Sprintf("X-Op: %d, X-Edit: yes", s), fmt.Sprintf("/u%d, /v%d", s, s)}
}

func (s lset) String() string { return s.ua + "|" + s.headers + "|" + s.uris }

// httpInfo: the Info map of the client's New / Edit Listener dialog.
func httpInfoG(name, port string, s lset) map[string]any {
	return map[string]any{
		"Name": name, "Protocol": handlers.AGENT_HTTP, "Secure": "false",
		"Hosts": "127.0.0.1", "HostBind": "127.0.0.1", "HostRotation": "round-robin",
		"PortBind": port, "PortConn": port, "Headers": s.headers, "Uris": s.uris,
		"UserAgent": s.ua, "HostHeader": "", "Proxy Enabled": "false",
	}
}

func listenerInfo(kind, name, port string) map[string]any {
	switch kind {
	case "http":
		return httpInfoG(name, port, settings(0))
	case "ext":
		return map[string]any{"Name": name, "Protocol": handlers.AGENT_EXTERNAL, "Endpoint": "ep-" + port}
	}
	return map[string]any{"Name": name, "Protocol": handlers.AGENT_PIVOT_SMB, "PipeName": "pipe-" + name}
}

const stopFrame = "handlers.(*HTTP).Stop("

// oldMark tags, in the model, the retained events of a listener whose name was given to a new
// listener while it was still being removed.
const oldMark = "\x00being-removed"

func runG(raw json.RawMessage) *core.Violation {
	var c CaseG
	if err := json.Unmarshal(raw, &c); err != nil {
		return core.V("harness|decode", "%v", err)
	}
	fx, err := wsx.Acquire(pool, "service-password")
	if err != nil {
		return core.V("harness|fixture", "%v", err)
	}
	dirty := false
	ts := fx.TS
	T := packager.Type
	defer func() {
		// no HTTP server of this case may outlive it
		for _, l := range ts.Listeners {
			if h, ok := l.Config.(*handlers.HTTP); ok && h.Server != nil {
				h.Server.Close()
			}
		}
		fx.Release(dirty)
	}()
	g := &gworld{world: &world{fx: fx, retained: []ent{{p: "init/profile"}}, removedViaRequest: map[string]bool{}},
		rec: map[*mclient][]packager.Package{}, parked: map[*mclient]bool{}, kinds: map[string]string{}, ports: map[string]string{}, reborn: map[string]bool{}}
	for _, u := range pool {
		g.free = append(g.free, u.Name)
	}
	fail := func(v *core.Violation) *core.Violation { dirty = true; return v }
	skip := func(why string) *core.Violation { dirty = true; wsx.Obs("g:no-verdict:" + why); return nil }

	// ---- operators
	for i := 0; i < 1+c.Others; i++ {
		if _, v := g.login("replay", "at its login"); v != nil {
			return fail(v)
		}
	}
	A := g.clients[0]
	others := append([]*mclient(nil), g.clients[1:]...)
	sender := func(i int) *mclient {
		for k := 0; k < len(others); k++ {
			if m := others[(i+k)%len(others)]; !g.parked[m] {
				return m
			}
		}
		return nil
	}

	// ---- model steps
	prune := func(name string) {
		var keep []ent
		for _, e := range g.retained {
			if e.lname != name {
				keep = append(keep, e)
			}
		}
		g.retained = keep
	}
	seq := 0
	// add: a listener asked for by m (nil: ListenerStart, as the profile / the restore path does)
	add := func(m *mclient, kind, name string, sig string) *core.Violation {
		port, err := freePort()
		if err != nil {
			return core.V("harness|port", "%v", err)
		}
		_, exists := g.kinds[name]
		if m != nil {
			m.c.SendJSON(wsx.Pkg(T.Listener.Type, m.user, T.Listener.Add, listenerInfo(kind, name, port)))
			g.retained = append(g.retained, ent{p: "ladd/" + m.user + "/" + name + "/", lname: name, raw: m.user})
		} else {
			var err error
			switch kind {
			case "http":
				s := settings(0)
				err = ts.ListenerStart(handlers.LISTENER_HTTP, handlers.HTTPConfig{Name: name, Hosts: []string{"127.0.0.1"}, HostBind: "127.0.0.1", HostRotation: "round-robin", PortBind: port, PortConn: port, UserAgent: s.ua, Headers: strings.Split(s.headers, ", "), Uris: strings.Split(s.uris, ", ")})
			case "ext":
				err = ts.ListenerStart(handlers.LISTENER_EXTERNAL, handlers.ExternalConfig{Name: name, Endpoint: "ep-" + port})
			default:
				err = ts.ListenerStart(handlers.LISTENER_PIVOT_SMB, handlers.SMBConfig{Name: name, PipeName: "pipe-" + name})
			}
			if err != nil {
				return core.V("harness|listener-start", "%v", err)
			}
		}
		if exists {
			// a name that is in use is refused and only the sender is told - that is what HEAD does,
			// also while the holder of the name is being removed.  Should the tree under test give
			// the name away instead (and announce the new listener), that alone is not this property's
			// business: the new listener's events are then retained events like any other, and what
			// the streams must add up to is judged at the end.
			fr, ok, closed := m.c.Next(wsx.Watchdog)
			if !ok {
				return core.V(sig+"|no-answer-to-the-sender", "operator %s asked for a listener named %q (a name in use): neither a refusal nor an announcement arrived (closed=%v)", m.user, name, closed)
			}
			pk, err := wsx.Decode(fr)
			if err != nil {
				return core.V("frame|not-one-package", "operator %s: %v: %.200q", m.user, err, fr.Data)
			}
			g.rec[m] = append(g.rec[m], pk)
			switch p := projL(pk); p {
			case "lerr/" + name + "/listener already exists":
				return g.barrier(m, sig)
			case "ladd//" + name + "/Online":
				wsx.Obs("g:name-in-use-given-to-a-new-listener")
				last := len(g.retained) - 1
				for i := range g.retained[:last] {
					if g.retained[i].lname == name {
						g.retained[i].lname = name + oldMark // the events of the listener that is being removed
					}
				}
				g.retained = append(g.retained, ent{p: p, lname: name})
				g.kinds[name], g.ports[name] = kind, port
				g.reborn[name] = true
				if v := g.allRec(p, m, sig); v != nil {
					return v
				}
				if v := g.barrier(m, sig); v != nil {
					return v
				}
				if kind == "http" && !waitPort(port) {
					return core.V("harness|http-listener-not-up", "port %s", port)
				}
				return nil
			default:
				return core.V(sig+"|want=lerr|got="+wsx.KindOf(p), "operator %s asked for a listener named %q (a name in use) and received %q", m.user, name, p)
			}
		}
		g.retained = append(g.retained, ent{p: "ladd//" + name + "/Online", lname: name})
		g.kinds[name], g.ports[name] = kind, port
		if v := g.allRec("ladd//"+name+"/Online", nil, sig); v != nil {
			return v
		}
		if m != nil {
			if v := g.barrier(m, sig); v != nil {
				return v
			}
		}
		if kind == "http" && !waitPort(port) {
			return core.V("harness|http-listener-not-up", "port %s", port)
		}
		return nil
	}
	edit := func(m *mclient, name string, s lset, sig string) *core.Violation {
		port := g.ports[name]
		if port == "" {
			port = "8080"
		}
		m.c.SendJSON(wsx.Pkg(T.Listener.Type, m.user, T.Listener.Edit, httpInfoG(name, port, s)))
		g.retained = append(g.retained, ent{p: "ledit/" + m.user + "/" + name + "/" + s.String()}, ent{p: "ledit//" + name + "/" + s.String()})
		if v := g.allRec("ledit//"+name+"/"+s.String(), nil, sig); v != nil {
			return v
		}
		return g.barrier(m, sig)
	}
	chat := func(m *mclient, sig string) *core.Violation {
		tk := g.token("m")
		m.c.SendJSON(wsx.ChatPkg(m.user, tk))
		g.retained = append(g.retained, ent{p: "chat/" + m.user + "/" + tk})
		if v := g.allRec("chat/"+m.user+"/"+tk, nil, sig); v != nil {
			return v
		}
		return g.barrier(m, sig)
	}
	removeFast := func(m *mclient, name string, sig string) *core.Violation {
		m.c.SendJSON(wsx.Pkg(T.Listener.Type, m.user, T.Listener.Remove, map[string]any{"Name": name}))
		g.retained = append(g.retained, ent{p: "lrem/" + m.user + "/" + name})
		prune(name)
		delete(g.kinds, name)
		delete(g.ports, name)
		g.retained = append(g.retained, ent{p: "lrem//" + name})
		if v := g.allRec("lrem//"+name, nil, sig); v != nil {
			return v
		}
		return g.barrier(m, sig)
	}
	stopsParked := func() int { return strings.Count(dump(), stopFrame) }
	nParked := 0
	// removeSlow: m asks for the removal of an HTTP listener; returns when m's handler is
	// provably blocked inside Stop() and the server's "closed" error has been announced
	removeSlow := func(m *mclient, name string, first bool, sig string) *core.Violation {
		m.c.SendJSON(wsx.Pkg(T.Listener.Type, m.user, T.Listener.Remove, map[string]any{"Name": name}))
		g.retained = append(g.retained, ent{p: "lrem/" + m.user + "/" + name})
		g.parked[m] = true
		nParked++
		deadline := time.Now().Add(wsx.Watchdog)
		for stopsParked() < nParked {
			if time.Now().After(deadline) {
				return core.V(sig+"|removal-of-http-listener-never-reached-Stop", "%s asked for the removal of HTTP listener %q; no handler is inside (*HTTP).Stop() after %v", m.user, name, wsx.Watchdog)
			}
			time.Sleep(2 * time.Millisecond)
		}
		if !first {
			return nil // (the server has been shut down already: nothing more is announced)
		}
		// ListenAndServe returns "Server closed"; HEAD reports that like any other listener error:
		// an Error event, and the retained Add events of the name are set Offline
		for i := range g.retained {
			if g.retained[i].lname == name {
				g.retained[i].p = "ladd/" + g.retained[i].raw + "/" + name + "/Offline"
			}
		}
		g.retained = append(g.retained, ent{p: "lerr/" + name + "/Server closed"})
		if v := g.allRec("lerr/"+name+"/Server closed", nil, sig); v != nil {
			return v
		}
		// (the Offline marking follows the broadcast in the same goroutine)
		deadline = time.Now().Add(5 * time.Second)
		for time.Now().Before(deadline) {
			marked := true
			ts.EventsMutex.Lock()
			for _, ev := range ts.EventsList {
				if ev.Head.Event == T.Listener.Type && ev.Body.SubEvent == T.Listener.Add && infoStr(ev.Body.Info, "Name") == name && infoStr(ev.Body.Info, "Status") != "Offline" {
					marked = false
				}
			}
			ts.EventsMutex.Unlock()
			if marked {
				break
			}
			time.Sleep(time.Millisecond)
		}
		return nil
	}

	// ---- the listeners that exist before the window
	X := gNames[c.Name%len(gNames)]
	var xStarter *mclient
	switch c.XVia {
	case 1:
		xStarter = A
	case 2:
		xStarter = others[0]
	}
	if v := add(xStarter, "http", X, "setup"); v != nil {
		return fail(v)
	}
	if c.PreSMB {
		if v := add(others[0], "smb", "pivot-1", "setup"); v != nil {
			return fail(v)
		}
	}
	if c.PreExt {
		if v := add(A, "ext", "ext-1", "setup"); v != nil {
			return fail(v)
		}
	}
	if c.PreHTTP {
		if v := add(nil, "http", "web-2", "setup"); v != nil {
			return fail(v)
		}
	}
	pick := func(kindWanted string, not string) string {
		var names []string
		for n, k := range g.kinds {
			if n != not && ((kindWanted == "http") == (k == "http")) {
				names = append(names, n)
			}
		}
		sort.Strings(names)
		if len(names) == 0 {
			return ""
		}
		return names[0]
	}

	// ---- the slow removal, and the others' requests inside its window
	type wake struct {
		m    *mclient
		name string
		sent time.Time
	}
	t0 := time.Now()
	if v := removeSlow(A, X, true, "slow-removal"); v != nil {
		return fail(v)
	}
	wakes := []wake{{A, X, t0}}
	stopping := map[string]bool{X: true}
	earliestWake := t0.Add(5 * time.Second) // Stop() waits for its five-second context whatever happens
	inWindow := func() bool { return time.Now().Before(earliestWake.Add(-400 * time.Millisecond)) }
	for _, r := range c.Window {
		if d := time.Until(t0.Add(time.Duration(r.AtMs) * time.Millisecond)); d > 0 {
			time.Sleep(d)
		}
		if time.Now().After(earliestWake.Add(-700 * time.Millisecond)) {
			wsx.Obs("g:window-request-not-issued(too-late)")
			break
		}
		m := sender(r.By)
		if m == nil {
			break // everybody is blocked in a removal of his own
		}
		sig := "request-inside-slow-removal:" + r.K
		var v *core.Violation
		switch r.K {
		case "add-same-name":
			sig += ":" + r.Kind
			v = add(m, r.Kind, X, sig)
		case "add-other-name":
			seq++
			v = add(m, r.Kind, fmt.Sprintf("new-%d", seq), sig)
		case "chat":
			v = chat(m, sig)
		case "remove-other":
			if n := pick("other", X); n != "" {
				v = removeFast(m, n, sig)
			}
		case "remove-other-http":
			if n := pick("http", X); n != "" {
				sent := time.Now()
				if v = removeSlow(m, n, !stopping[n], sig); v == nil {
					wakes = append(wakes, wake{m, n, sent})
					stopping[n] = true
				}
			}
		case "remove-same":
			sent := time.Now()
			if v = removeSlow(m, X, false, sig); v == nil {
				wakes = append(wakes, wake{m, X, sent})
			}
		case "edit-same":
			v = edit(m, X, settings(r.S), sig)
		case "edit-other":
			if n := pick("http", X); n != "" {
				v = edit(m, n, settings(r.S), sig)
			}
		case "edit-unknown":
			v = edit(m, "no-such-listener", settings(r.S), sig)
		case "login":
			_, v = g.login(sig, "logging in while "+A.user+" is blocked in the removal of "+X)
		}
		if v != nil {
			return fail(v)
		}
		if !inWindow() {
			return skip("a-request-was-not-through-400ms-before-the-removal-could-wake-up")
		}
		wsx.Obs("g:inside-window:" + r.K)
		if g.reborn[X] {
			break // (further requests about this name would be about another listener)
		}
	}

	// ---- the removals wake up in the order in which they were asked for
	for _, wk := range wakes {
		if g.reborn[wk.name] {
			// the removal takes the old listener's retained events with it; the name is in use, so
			// no Remove is announced (cmd/server/dispatch.go: "Announcing the removal then would
			// take a running listener out of every operator's table")
			prune(wk.name + oldMark)
			g.parked[wk.m] = false
			continue
		}
		if _, ok := g.kinds[wk.name]; ok {
			prune(wk.name)
			delete(g.kinds, wk.name)
			delete(g.ports, wk.name)
		}
		// announced by the removal's own request once it is through (unless the name is in use again)
		g.retained = append(g.retained, ent{p: "lrem//" + wk.name})
		if v := g.allRec("lrem//"+wk.name, nil, "slow-removal|completion"); v != nil {
			return fail(v)
		}
		g.parked[wk.m] = false
	}
	for _, wk := range wakes {
		if v := g.barrier(wk.m, "slow-removal|handler-back"); v != nil {
			return fail(v)
		}
	}
	for _, m := range g.alive() {
		if v := g.tableCheck(m, "live-stream|folded", "after every removal has returned"); v != nil {
			return fail(v)
		}
	}

	// ---- afterwards
	everybody := g.alive()
	for _, r := range c.Post {
		m := everybody[r.By%len(everybody)]
		sig := "request-after-slow-removal:" + r.K
		var v *core.Violation
		switch r.K {
		case "add-same-name":
			v = add(m, r.Kind, X, sig)
		case "add-other-name":
			seq++
			v = add(m, r.Kind, fmt.Sprintf("new-%d", seq), sig)
		case "chat":
			v = chat(m, sig)
		case "edit-other":
			if n := pick("http", ""); n != "" {
				v = edit(m, n, settings(r.S), sig)
			}
		}
		if v != nil {
			return fail(v)
		}
	}

	// ---- the newcomer, and everybody's table
	if _, v := g.login("replay-after-slow-removal", "logging in after everything has returned"); v != nil {
		return fail(v)
	}
	for _, m := range g.alive() {
		if v := g.tableCheck(m, "live-stream|folded", "at the end"); v != nil {
			return fail(v)
		}
	}
	if v := g.nothingPending("live"); v != nil {
		return fail(v)
	}
	return nil
}

func classifyG(c CaseG) core.Class {
	var cl core.Class
	seen := map[string]bool{}
	for _, r := range c.Window {
		l := "request-inside-slow-removal:" + r.K
		if strings.HasPrefix(r.K, "add-") {
			l += ":" + r.Kind
		}
		cl.Labels = append(cl.Labels, l)
		seen[r.K] = true
	}
	for _, r := range c.Post {
		cl.Labels = append(cl.Labels, "request-after-slow-removal:"+r.K)
	}
	cl.Labels = append(cl.Labels,
		fmt.Sprintf("requests-inside-window:%d", len(c.Window)),
		"removed-listener-started-by:"+[]string{"ListenerStart", "the-remover", "another-operator"}[c.XVia%3],
		fmt.Sprintf("removed-listener-name-class:%d", c.Name%len(gNames)),
		fmt.Sprintf("operators:%d", 1+c.Others))
	cl.NonTrivial = len(c.Window) > 0
	var ks []string
	for k := range seen {
		ks = append(ks, k)
	}
	sort.Strings(ks)
	cl.Fingerprint = fmt.Sprintf("window=%s|post=%d|via=%d|pre=%v/%v/%v|ops=%d", strings.Join(ks, "+"), len(c.Post), c.XVia, c.PreSMB, c.PreExt, c.PreHTTP, c.Others)
	return cl
}

func TestC11g(t *testing.T) {
	core.Run(t, core.Spec[CaseG]{
		Property: "C11", Sub: "g",
		Rule: "operator requests that take seconds while other operators are served: 2-3 operators online; a real HTTP listener (free loopback port; started by ListenerStart as the profile does, by the remover's or by another operator's Listener/Add request; name from 4 representation classes) and optionally an SMB, an External and a second HTTP listener; operator A asks for the removal of the HTTP listener, which blocks A's handler for 5 s inside (*HTTP).Stop() before the retained Add events are pruned; once A's handler is provably inside Stop(), 1-4 requests of the other operators are sent at generated offsets (0.3-3.9 s) inside that window through their websockets: add a listener of the SAME name (HTTP / SMB / External), add a listener of another name, chat, remove another listener (SMB / External: at once; a second HTTP listener: a second overlapping slow removal; the same listener a second time), edit (the listener being removed, another HTTP listener, an unknown name), a login; every request is followed by a one-shot chat of its sender whose echo proves the dispatch is finished, and counts as inside the window only if that echo is back 400 ms before the removal can wake up (otherwise no verdict); after all removals have returned 0-2 further requests (the name is taken again, chat, edit, another listener), then a newcomer logs in. Oracle: a model of HEAD's retained list (every request an operator sends is recorded, announcements follow, a name in use is refused with an error to the sender only, the server's 'closed' error sets the retained Add events Offline, a completed removal prunes every retained Add event of the name and announces the Remove) - every operator receives exactly the model's live events in order, every login (inside the window and at the end) receives Success and exactly the model's retained list in order; and every stream - each replay and each live operator's whole stream - folded as the client folds it (Add from the teamserver adds, Remove removes by exact name, Edit replaces the settings) yields exactly the listeners the teamserver has, with their kind, port and user agent / headers / URIs. Non-trivial: at least one request inside the window",
		Gen:   genG, Check: checkG, Classify: classifyG,
		Assumptions: []string{
			"requests are issued one after the other (never two goroutines inside the unsynchronised listener code at the same instant), so the outcome is determined by their order; a request that was not provably finished 400 ms before the blocked removal could wake up makes the case give no verdict",
			"what a request inside the window does is taken from HEAD: the listener being removed still holds its name until Stop() has returned, so a listener of the same name is refused ('listener already exists', to the sender only)",
		},
	})
}

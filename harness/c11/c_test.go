package c11

// C11(c), thorough tier only: a client that stops reading (its writes block).

import (
	"encoding/json"
	"fmt"
	"testing"

	"pgregory.net/rapid"

	"Havoc/pkg/agent"
	"Havoc/pkg/events"

	"verifharness/internal/core"
	"verifharness/internal/wsx"
)

type CaseC struct {
	Others int    `json:"others"` // healthy operators besides the stalled one
	First  string `json:"first"`  // what meets the stalled client first: console | notify | sendevent | connect
	Warm   int    `json:"warm"`   // events delivered normally before the stall
}

func genC(t *rapid.T) CaseC {
	return CaseC{
		Others: rapid.IntRange(0, 2).Draw(t, "others"),
		First:  rapid.SampledFrom([]string{"console", "notify", "sendevent", "connect"}).Draw(t, "first"),
		Warm:   rapid.IntRange(0, 3).Draw(t, "warm"),
	}
}

func checkC(c CaseC) *core.Violation { return wsx.Exec("c", c) }

func runC(raw json.RawMessage) *core.Violation {
	var c CaseC
	if err := json.Unmarshal(raw, &c); err != nil {
		return core.V("harness|decode", "%v", err)
	}
	fx, err := wsx.Acquire(pool, "service-password")
	if err != nil {
		return core.V("harness|fixture", "%v", err)
	}
	w := &world{fx: fx, retained: []ent{{p: "init/profile"}}, removedViaRequest: map[string]bool{}}
	for _, u := range pool {
		w.free = append(w.free, u.Name)
	}
	dirty := false
	defer func() { fx.Release(dirty) }()
	for i := 0; i < c.Others+1; i++ {
		if v := w.connect("replay"); v != nil {
			return v
		}
	}
	for i := 0; i < c.Warm; i++ {
		if v := w.step(Op{K: "console"}); v != nil {
			return v
		}
	}
	x := w.clients[0]
	x.c.Peer.Stall()
	x.dead = "stalled"
	w.anyDead = true
	ts := fx.TS
	outer := wsx.Watchdog
	if c.First == "connect" {
		outer = 3 * wsx.Watchdog // the arrival is judged by the 20 s watchdog on the newcomer's own frames
	}
	v := core.WithWatchdog(outer, "first-send-with-stalled-client:"+c.First, func() *core.Violation {
		switch c.First {
		case "console":
			return w.step(Op{K: "console"})
		case "notify":
			return w.step(Op{K: "agent"})
		case "sendevent":
			ts.SendEvent(x.id, events.Teamserver.Logger("to-the-stalled-one"))
			return nil
		default:
			return w.connect("replay")
		}
	})
	if v != nil && c.First == "connect" {
		v.Sig = "hang|first-send-with-stalled-client:connect|newcomer-never-gets-its-replay"
	}
	if v == nil {
		// and the agent-side path afterwards
		v = core.WithWatchdog(wsx.Watchdog, "agent-output-after-stall", func() *core.Violation {
			ts.AgentConsole("0badc0de", agent.HAVOC_CONSOLE_MESSAGE, map[string]string{"Type": "Info", "Message": "after"})
			return nil
		})
	}
	if v != nil {
		dirty = true
		v.Msg = fmt.Sprintf("one operator's connection stopped accepting data (stalled), %d other operator(s): %s", c.Others, v.Msg)
	}
	return v
}

func classifyC(c CaseC) core.Class {
	return core.Class{NonTrivial: true, Fingerprint: fmt.Sprintf("others=%d|first=%s|warm=%v", c.Others, c.First, c.Warm > 0), Labels: []string{"stall-first:" + c.First, fmt.Sprintf("stall-others:%d", c.Others)}}
}

func TestC11c(t *testing.T) {
	core.Run(t, core.Spec[CaseC]{
		Property: "C11", Sub: "c",
		Rule: "thorough tier: one authenticated operator's server-side connection blocks every write (a peer that stopped reading), 0-2 healthy operators, 0-3 events delivered before; then the first operation that writes to it (console output broadcast / session announcement / SendEvent to it / another operator's arrival) and a following agent console output must each return within the 20 s watchdog and reach the healthy operators. All cases non-trivial",
		Gen:   genC, Check: checkC, Classify: classifyC,
		Assumptions: []string{"a write that blocks stands for a peer whose receive window is full; a write deadline set by the teamserver is honoured by the harness connection"},
	})
}

package c11

import (
	"testing"

	"verifharness/internal/wsx"
)

func TestMain(m *testing.M) {
	wsx.Main(m, map[string]wsx.Handler{"a": runA, "b": runB, "c": runC, "d": runD, "e": runE, "f": runF, "g": runG, "h": runH})
}

package c11

// C11(e): an operator logs in WHILE events are being recorded and broadcast.  The
// newcomer's connection is made to fall behind in the middle of its replay (writes to
// it block after a generated number of bytes), so that the window "authenticated, replay
// not finished" stays open until a producer has provably recorded an event inside it.

import (
	"encoding/json"
	"fmt"
	"strings"
	"sync"
	"testing"
	"time"

	"pgregory.net/rapid"

	"Havoc/pkg/agent"
	"Havoc/pkg/events"

	"verifharness/internal/core"
	"verifharness/internal/wsx"
)

type Producer struct {
	Kind string `json:"kind"` // tslog (EventAppend + EventBroadcast, as the teamserver's own emitters do) | console (AgentConsole) | chat (a bystander operator's websocket)
	N    int    `json:"n"`
}

type CaseE struct {
	History   int        `json:"history"`    // retained events before anybody logs in
	EventSize int        `json:"event_size"` // bytes of padding per retained event
	Bystand   int        `json:"bystanders"` // operators already online (0-2)
	PauseAt   int        `json:"pause_at"`   // the newcomer's connection blocks after this many bytes of its login traffic (permille of the expected replay size)
	Producers []Producer `json:"producers"`  // producer 0 is always of kind tslog
	Before    int        `json:"before"`     // events every producer emits before the newcomer starts to log in
}

func genE(t *rapid.T) CaseE {
	var c CaseE
	c.History = rapid.IntRange(8, 120).Draw(t, "history")
	c.EventSize = rapid.SampledFrom([]int{0, 200, 2000, 20000}).Draw(t, "event-size")
	c.Bystand = rapid.IntRange(0, 2).Draw(t, "bystanders")
	c.PauseAt = rapid.SampledFrom([]int{1, 1, 50, 300, 600, 900}).Draw(t, "pause-at")
	np := rapid.IntRange(1, 3).Draw(t, "producers")
	for i := 0; i < np; i++ {
		k := "tslog"
		if i > 0 {
			ks := []string{"tslog", "console"}
			if c.Bystand > 0 {
				ks = append(ks, "chat")
			}
			k = rapid.SampledFrom(ks).Draw(t, "kind")
		}
		c.Producers = append(c.Producers, Producer{Kind: k, N: rapid.IntRange(1, 5).Draw(t, "n")})
	}
	c.Before = rapid.IntRange(0, 2).Draw(t, "before")
	return c
}

func checkE(c CaseE) *core.Violation { return wsx.Exec("e", c) }

func runE(raw json.RawMessage) *core.Violation {
	var c CaseE
	if err := json.Unmarshal(raw, &c); err != nil {
		return core.V("harness|decode", "%v", err)
	}
	fx, err := wsx.Acquire(pool, "service-password")
	if err != nil {
		return core.V("harness|fixture", "%v", err)
	}
	dirty := false
	defer func() { fx.Release(dirty) }()
	ts := fx.TS
	w := &world{fx: fx, retained: []ent{{p: "init/profile"}}, removedViaRequest: map[string]bool{}}
	for _, u := range pool {
		w.free = append(w.free, u.Name)
	}
	pad := strings.Repeat("A", c.EventSize)
	replayBytes := 0
	for i := 0; i < c.History; i++ {
		tk := fmt.Sprintf("pre-%d", i)
		pk := events.Teamserver.Logger(tk + " " + pad)
		ts.EventAppend(pk)
		w.retained = append(w.retained, ent{p: "tslog/" + tk + " " + pad})
		replayBytes += 120 + len(tk) + 1 + len(pad)
	}
	for i := 0; i < c.Bystand; i++ {
		if v := w.connect("replay"); v != nil {
			return v
		}
	}
	bystanders := append([]*mclient(nil), w.clients...)

	// ---- producers
	type prod struct {
		Producer
		toks   []string
		sender *mclient
	}
	var prods []*prod
	for i, p := range c.Producers {
		q := &prod{Producer: p}
		for j := 0; j < c.Before+p.N; j++ {
			q.toks = append(q.toks, fmt.Sprintf("ev-p%d-%d", i, j))
		}
		if p.Kind == "chat" {
			if len(bystanders) == 0 {
				q.Kind = "tslog"
			} else {
				q.sender = bystanders[i%len(bystanders)]
			}
		}
		prods = append(prods, q)
	}
	emit := func(q *prod, j int, appended func()) {
		tk := q.toks[j]
		switch q.Kind {
		case "console":
			ts.AgentConsole("0badc0de", agent.HAVOC_CONSOLE_MESSAGE, map[string]string{"Type": "Info", "Message": tk})
		case "chat":
			q.sender.c.SendJSON(wsx.ChatPkg(q.sender.user, tk))
		default:
			pk := events.Teamserver.Logger(tk)
			ts.EventAppend(pk)
			if appended != nil {
				appended()
			}
			ts.EventBroadcast("", pk)
		}
	}
	// a chat producer's events are dispatched by its operator's handler: a one-shot chat of
	// the same operator, echoed back, proves they all have been
	bufs := map[*mclient][]string{}
	pull := func(b *mclient, until string) *core.Violation {
		for {
			fr, ok, _ := b.c.Next(wsx.Watchdog)
			if !ok {
				return core.V("live|not-delivered|bystander", "operator %s: %q did not arrive; got %d frames", b.user, until, len(bufs[b]))
			}
			pk, err := wsx.Decode(fr)
			if err != nil {
				return core.V("frame|not-one-package", "%v", err)
			}
			p := wsx.Proj(pk)
			if p == until {
				return nil
			}
			bufs[b] = append(bufs[b], p)
		}
	}
	flush := func(tag string) *core.Violation {
		for i, q := range prods {
			if q.Kind == "chat" {
				fl := fmt.Sprintf("flush-%s-%d", tag, i)
				q.sender.c.SendJSON(wsx.BarrierPkg(q.sender.user, fl))
				if v := pull(q.sender, "!chat/"+q.sender.user+"/"+fl); v != nil {
					return v
				}
			}
		}
		return nil
	}
	// events before the newcomer starts (sequential: they are simply part of the history)
	for _, q := range prods {
		for j := 0; j < c.Before; j++ {
			emit(q, j, nil)
		}
	}
	if v := flush("before"); v != nil {
		return v
	}

	// ---- the newcomer, falling behind in the middle of its replay
	user := w.free[0]
	nc, err := fx.Dial("/havoc/")
	if err != nil {
		return core.V("harness|dial", "%v", err)
	}
	mark := int64(400 + replayBytes*c.PauseAt/1000) // past the Success frame, inside the replay
	nc.Peer.PauseAfter(mark)
	nc.SendJSON(wsx.LoginPkg(user, "pw-"+user))
	deadline := time.Now().Add(wsx.Watchdog)
	inWindow := false
	for {
		if nc.Peer.Paused() {
			inWindow = true
			break
		}
		if time.Now().After(deadline) {
			break // the replay ended before the mark (or never started): the rest still runs, un-paused
		}
		time.Sleep(100 * time.Microsecond)
	}
	if !inWindow {
		wsx.Obs("e:replay-ended-before-pause-mark")
		nc.Peer.Resume()
	} else {
		wsx.Obs("e:paused-inside-replay")
	}
	// the producers run now; producer 0 reports when it has recorded its first event,
	// which (the newcomer being stuck inside its replay) is certainly after the
	// newcomer's replay snapshot was taken
	recorded := make(chan struct{})
	var once sync.Once
	var wg sync.WaitGroup
	for i, q := range prods {
		i, q := i, q
		wg.Add(1)
		go func() {
			defer wg.Done()
			for j := c.Before; j < len(q.toks); j++ {
				var cb func()
				if i == 0 {
					cb = func() { once.Do(func() { close(recorded) }) }
				}
				emit(q, j, cb)
			}
		}()
	}
	select {
	case <-recorded:
	case <-time.After(wsx.Watchdog):
		dirty = true
		nc.Peer.Resume()
		return core.V("hang|record-while-newcomer-replays", "EventAppend did not return within %v while a newcomer's replay was in progress", wsx.Watchdog)
	}
	nc.Peer.Resume()
	done := make(chan struct{})
	go func() { wg.Wait(); close(done) }()
	select {
	case <-done:
	case <-time.After(2 * wsx.Watchdog):
		dirty = true
		return core.V("hang|producers-while-newcomer-replays|"+core.HavocFrame(dump()), "the producers did not finish within %v after the newcomer's connection accepted data again", 2*wsx.Watchdog)
	}
	if v := flush("after"); v != nil {
		return v
	}
	if nc.Peer.WriteFailed() {
		// the pause outlasted the teamserver's write deadline (machine overloaded): no verdict
		wsx.Obs("e:pause-exceeded-write-deadline")
		return nil
	}

	// ---- final barrier from the newcomer; everything before its echo is judged
	nc.SendJSON(wsx.BarrierPkg(user, "end"))
	var seq []string
	for {
		fr, ok, closed := nc.Next(wsx.Watchdog)
		if !ok {
			return core.V("window|newcomer-stream-incomplete", "the newcomer's stream ended before its final barrier came back (closed=%v, %v); %d frames", closed, nc.ReadErr, len(seq))
		}
		pk, err := wsx.Decode(fr)
		if err != nil {
			return core.V("frame|not-one-package", "newcomer: %v: %.200q", err, fr.Data)
		}
		p := wsx.Proj(pk)
		if p == "!chat/"+user+"/end" {
			break
		}
		seq = append(seq, p)
	}
	tokOf := func(p string) string {
		for _, pre := range []string{"pre-", "ev-p"} {
			if i := strings.Index(p, pre); i >= 0 {
				t := p[i:]
				if j := strings.IndexAny(t, "/ "); j >= 0 {
					t = t[:j]
				}
				return t
			}
		}
		return ""
	}
	if len(seq) == 0 || seq[0] != "init/success" {
		return core.V("window|no-success-first", "newcomer's first frame: %v", clipL(seq))
	}
	count := map[string]int{}
	nextPre := 0
	for _, p := range seq {
		tk := tokOf(p)
		if tk == "" {
			continue
		}
		count[tk]++
		if strings.HasPrefix(tk, "pre-") {
			if tk != fmt.Sprintf("pre-%d", nextPre) {
				return core.V("replay|history-out-of-order", "newcomer's replay: got %q where pre-%d was next", tk, nextPre)
			}
			nextPre++
		}
	}
	if nextPre != c.History {
		return core.V("replay|history-incomplete", "newcomer's replay holds %d of the %d events recorded before anybody logged in", nextPre, c.History)
	}
	for i, q := range prods {
		for j, tk := range q.toks {
			if count[tk] == 0 {
				when := "while-newcomer-was-replaying"
				if j < c.Before {
					when = "before-newcomer-logged-in"
				}
				return core.V("window|event-never-reaches-newcomer|"+when, "event %q (producer %d, %s, emitted %s; paused-inside-replay=%v) reached neither the newcomer's replay nor its live stream, although it was recorded and broadcast and the newcomer had authenticated; the newcomer got %d frames, %d of them tagged events", tk, i, q.Kind, strings.ReplaceAll(when, "-", " "), inWindow, len(seq), len(count))
			}
			if j < c.Before && count[tk] != 1 {
				return core.V("replay|duplicate", "event %q recorded before the newcomer logged in arrived %d times", tk, count[tk])
			}
		}
	}
	// ---- bystanders: newuser, every event exactly once (each producer's order kept), the barrier
	total := 0
	for _, q := range prods {
		total += len(q.toks) - c.Before
	}
	for _, b := range bystanders {
		if v := pull(b, "!chat/"+user+"/end"); v != nil {
			return v
		}
		pos := make([]int, len(prods))
		got := 0
		for _, p := range bufs[b] {
			tk := tokOf(p)
			if !strings.HasPrefix(tk, "ev-p") {
				continue
			}
			var pi, pj int
			fmt.Sscanf(tk, "ev-p%d-%d", &pi, &pj)
			if pj < c.Before || pi >= len(prods) {
				continue // emitted (and delivered) before the newcomer started
			}
			if pj != c.Before+pos[pi] {
				return core.V("live|order-or-duplicate|bystander", "operator %s: event %q of producer %d arrived where number %d was next", b.user, tk, pi, c.Before+pos[pi])
			}
			pos[pi]++
			got++
		}
		if got != total {
			return core.V("live|not-delivered|bystander", "operator %s received %d of %d events emitted while the newcomer logged in", b.user, got, total)
		}
	}
	return nil
}

func clipL(xs []string) []string {
	if len(xs) > 8 {
		return xs[:8]
	}
	return xs
}

func classifyE(c CaseE) core.Class {
	var cl core.Class
	kinds := map[string]bool{}
	for _, p := range c.Producers {
		kinds[p.Kind] = true
		cl.Labels = append(cl.Labels, "producer:"+p.Kind)
	}
	cl.Labels = append(cl.Labels, fmt.Sprintf("pause-at-permille:%d", c.PauseAt), fmt.Sprintf("event-size:%d", c.EventSize), fmt.Sprintf("bystanders:%d", c.Bystand))
	cl.NonTrivial = true
	cl.Fingerprint = fmt.Sprintf("h=%d|sz=%d|by=%d|pause=%d|np=%d|console=%v|chat=%v|before=%v", c.History/40, c.EventSize, c.Bystand, c.PauseAt, len(c.Producers), kinds["console"], kinds["chat"], c.Before > 0)
	return cl
}

func TestC11e(t *testing.T) {
	core.Run(t, core.Spec[CaseE]{
		Property: "C11", Sub: "e",
		Rule: "8-120 retained events of 0-20000 bytes, 0-2 operators online, then a newcomer logs in over a connection that stops accepting data after a generated fraction of its replay (0.1%-90%) while 1-3 producers (EventAppend+EventBroadcast, AgentConsole, a bystander's chat) emit 1-5 events each; the connection accepts data again only after producer 0 has recorded an event (so at least one event is recorded after the newcomer's replay snapshot and before the replay has finished). Oracle (judged on everything the newcomer received before the echo of its final one-shot chat): Success first; all events recorded before anybody logged in, in order; every event emitted before or while the newcomer logged in at least once (replay or live); bystanders receive every event exactly once in each producer's order. All cases non-trivial",
		Gen:   genE, Check: checkE, Classify: classifyE,
		Assumptions: []string{
			"inside the window an event may reach the newcomer twice (replayed and live) and live events may overtake replayed ones, so only at-least-once is demanded there",
			"if the pause outlasts the teamserver's own write deadline (overloaded machine) the case gives no verdict",
		},
	})
}

package c11

// C11(e): an operator logs in WHILE the retained list is being appended to and rewritten.
// The newcomer's connection is made to fall behind in the middle of its replay (writes to
// it block after a generated number of bytes), so that the window "authenticated, replay
// snapshot taken, replay not finished" stays open until the producers have provably
// recorded an event and every rewrite of the retained list (listener removal, event
// removal) has provably been carried out inside it.

import (
	"encoding/json"
	"errors"
	"fmt"
	"strings"
	"sync"
	"testing"
	"time"

	"pgregory.net/rapid"

	"Havoc/pkg/agent"
	"Havoc/pkg/events"
	"Havoc/pkg/handlers"
	"Havoc/pkg/packager"

	"verifharness/internal/core"
	"verifharness/internal/wsx"
)

type Producer struct {
	Kind string `json:"kind"` // tslog (EventAppend + EventBroadcast, as the teamserver's own emitters do) | console (AgentConsole) | chat (a bystander operator's websocket)
	N    int    `json:"n"`
}

type LsnE struct {
	Pos     int    `json:"pos"`     // where in the history its Add event(s) sit (permille of the history length)
	Via     bool   `json:"via"`     // started at a bystander's request (two retained Add events: the request and the announcement) instead of ListenerStart (one)
	Ext     bool   `json:"ext"`     // External instead of SMB
	Rewrite string `json:"rewrite"` // what happens to it while the newcomer is inside its replay: remove | error | none
	Rel     string `json:"rel,omitempty"` // scale cases: "" = at Pos; just-before-pause | just-after-pause = its Add event(s) sit right before / right after the retained event at which the newcomer's connection blocks
}

type CaseE struct {
	History   int        `json:"history"`    // retained events before the newcomer logs in
	EventSize int        `json:"event_size"` // bytes of padding per retained event
	Bystand   int        `json:"bystanders"` // operators already online (0-2)
	PauseAt   int        `json:"pause_at"`   // the newcomer's connection blocks after this many permille of its replay
	Producers []Producer `json:"producers"`  // producer 0 is always of kind tslog
	Before    int        `json:"before"`     // events every producer emits before the newcomer starts to log in
	Listeners []LsnE     `json:"listeners"`
	EvRemove  int        `json:"ev_remove"` // -1: none; otherwise EventRemove() of the retained event at this permille position, inside the window
	PauseEv   int        `json:"pause_ev,omitempty"` // scale cases (> 0): the newcomer's connection blocks after exactly this many retained events of its replay have been written (one websocket message each), instead of PauseAt
}

// The threshold-adjacent pool of the scale dimension (shared by the sub-checks of C11).
var scalePool = []int{63, 64, 65, 127, 128, 129, 255, 256, 257, 511, 512, 513, 999, 1000, 1001, 1023, 1024, 1025, 2047, 2048, 2049, 4095, 4096, 4097, 8191, 8192, 8193}

func scaleBucket(n int) string {
	switch {
	case n < 63:
		return "<63"
	case n <= 129:
		return "64-129"
	case n <= 513:
		return "255-513"
	case n <= 1025:
		return "999-1025"
	case n <= 4097:
		return "2047-4097"
	}
	return "8191+"
}

func poolFrom(lo, hi int) []int {
	var out []int
	for _, v := range scalePool {
		if v >= lo && v <= hi {
			out = append(out, v)
		}
	}
	return out
}

// drawScale draws a count from the pool values in [lo, hi]: first the bucket, then the value
// inside it (rapid prefers the first elements of a list; drawn flat, the large buckets at the
// end of the pool would hardly ever be reached).
func drawScale(t *rapid.T, lo, hi int, label string) int {
	vals := poolFrom(lo, hi)
	var buckets []string
	by := map[string][]int{}
	for _, v := range vals {
		b := scaleBucket(v)
		if _, ok := by[b]; !ok {
			buckets = append(buckets, b)
		}
		by[b] = append(by[b], v)
	}
	b := rapid.SampledFrom(buckets).Draw(t, label+"-bucket")
	return rapid.SampledFrom(by[b]).Draw(t, label)
}

// genScaleE: the scale dimension of (e).  A long retained history (999-8193 events through
// the cheapest real producer, EventAppend+EventBroadcast), the pause placed after a
// threshold-adjacent NUMBER OF EVENTS of the replay, 1-6 listeners whose Add events sit at
// generated positions or right before / right after the pause point, and producers that
// emit up to 1025 events each while the newcomer replays.
func genScaleE(t *rapid.T, c *CaseE) {
	c.History = drawScale(t, 999, 8193, "scale-history")
	c.EventSize = rapid.SampledFrom([]int{0, 0, 0, 200}).Draw(t, "scale-event-size")
	c.PauseEv = 1
	if rapid.IntRange(0, 9).Draw(t, "scale-pause-first") > 0 {
		c.PauseEv = drawScale(t, 63, c.History, "scale-pause-ev")
	}
	c.PauseAt = c.PauseEv * 1000 / c.History
	c.Listeners = nil
	nl := rapid.IntRange(1, 6).Draw(t, "scale-listeners")
	for i := 0; i < nl; i++ {
		c.Listeners = append(c.Listeners, LsnE{
			Pos:     rapid.SampledFrom([]int{0, 100, 400, 700, 1000}).Draw(t, "lpos"),
			Rel:     rapid.SampledFrom([]string{"", "", "just-before-pause", "just-after-pause"}).Draw(t, "lrel"),
			Via:     c.Bystand > 0 && rapid.Bool().Draw(t, "lvia"),
			Ext:     rapid.Bool().Draw(t, "lext"),
			Rewrite: rapid.SampledFrom([]string{"remove", "remove", "remove", "error", "none"}).Draw(t, "rewrite"),
		})
	}
	if c.PauseEv < 16 {
		for i := range c.Listeners {
			c.Listeners[i].Rel = "" // no room before the pause point
		}
	}
	if rapid.Bool().Draw(t, "scale-producers") {
		for i := range c.Producers {
			c.Producers[i].N = drawScale(t, 63, 1025, "scale-n")
		}
	}
}


func genE(t *rapid.T) CaseE {
	var c CaseE
	c.History = rapid.IntRange(8, 120).Draw(t, "history")
	c.EventSize = rapid.SampledFrom([]int{0, 200, 2000, 20000}).Draw(t, "event-size")
	c.Bystand = rapid.IntRange(0, 2).Draw(t, "bystanders")
	c.PauseAt = rapid.SampledFrom([]int{1, 1, 50, 300, 600, 900}).Draw(t, "pause-at")
	np := rapid.IntRange(1, 3).Draw(t, "producers")
	for i := 0; i < np; i++ {
		k := "tslog"
		if i > 0 {
			ks := []string{"tslog", "console"}
			if c.Bystand > 0 {
				ks = append(ks, "chat")
			}
			k = rapid.SampledFrom(ks).Draw(t, "kind")
		}
		c.Producers = append(c.Producers, Producer{Kind: k, N: rapid.IntRange(1, 5).Draw(t, "n")})
	}
	c.Before = rapid.IntRange(0, 2).Draw(t, "before")
	nl := rapid.SampledFrom([]int{0, 1, 1, 2, 2, 3}).Draw(t, "listeners")
	for i := 0; i < nl; i++ {
		c.Listeners = append(c.Listeners, LsnE{
			Pos:     rapid.SampledFrom([]int{0, 100, 400, 700, 1000}).Draw(t, "lpos"),
			Via:     c.Bystand > 0 && rapid.Bool().Draw(t, "lvia"),
			Ext:     rapid.Bool().Draw(t, "lext"),
			Rewrite: rapid.SampledFrom([]string{"remove", "remove", "remove", "error", "none"}).Draw(t, "rewrite"),
		})
	}
	c.EvRemove = rapid.SampledFrom([]int{-1, -1, 0, 200, 500, 950}).Draw(t, "ev-remove")
	if rapid.IntRange(0, 24).Draw(t, "scale") == 24 {
		genScaleE(t, &c)
	}
	return c
}

func checkE(c CaseE) *core.Violation { return wsx.Exec("e", c) }

func runE(raw json.RawMessage) *core.Violation {
	var c CaseE
	if err := json.Unmarshal(raw, &c); err != nil {
		return core.V("harness|decode", "%v", err)
	}
	fx, err := wsx.Acquire(pool, "service-password")
	if err != nil {
		return core.V("harness|fixture", "%v", err)
	}
	dirty := false
	defer func() { fx.Release(dirty) }()
	ts := fx.TS
	T := packager.Type
	w := &world{fx: fx, retained: []ent{{p: "init/profile"}}, removedViaRequest: map[string]bool{}}
	for _, u := range pool {
		w.free = append(w.free, u.Name)
	}
	// ---- bystanders first (a listener can then be started at an operator's request)
	for i := 0; i < c.Bystand; i++ {
		if v := w.connect("replay"); v != nil {
			return v
		}
	}
	bystanders := append([]*mclient(nil), w.clients...)
	bufs := map[*mclient][]string{}
	pull := func(b *mclient, until string) *core.Violation {
		for {
			fr, ok, _ := b.c.Next(wsx.Watchdog)
			if !ok {
				return core.V("live|not-delivered|bystander", "operator %s: %q did not arrive; got %d frames", b.user, until, len(bufs[b]))
			}
			pk, err := wsx.Decode(fr)
			if err != nil {
				return core.V("frame|not-one-package", "%v", err)
			}
			p := wsx.Proj(pk)
			if p == until {
				return nil
			}
			bufs[b] = append(bufs[b], p)
		}
	}
	nflush := 0
	// flushAll: every bystander sends a one-shot chat; when all have all echoes, every
	// handler has finished what it was asked before and everything broadcast before has arrived
	flushAll := func() *core.Violation {
		nflush++
		for _, b := range bystanders {
			b.c.SendJSON(wsx.BarrierPkg(b.user, fmt.Sprintf("flush-%d", nflush)))
		}
		for _, b := range bystanders {
			for _, s := range bystanders {
				// echoes of the others arrive in some order: pull until this one, keeping the rest
				want := "!chat/" + s.user + "/" + fmt.Sprintf("flush-%d", nflush)
				found := false
				for _, p := range bufs[b] {
					if p == want {
						found = true
					}
				}
				if !found {
					if v := pull(b, want); v != nil {
						return v
					}
				}
			}
		}
		return nil
	}

	// ---- history, with the listeners' Add events at their generated positions
	pad := strings.Repeat("A", c.EventSize)
	replayBytes := 0
	type lsn struct {
		LsnE
		name string
		idx  int // index of the history event before which it was started
		at   int // scale cases (Rel set): started as soon as the retained list has this many entries
		done bool
	}
	var lsns []*lsn
	for i, l := range c.Listeners {
		// names in representation classes: padded, tabbed, colliding under trimming / case folding
		name := []string{"EL", " EL ", "el", "EL\t", "EL 1", "Él-日本"}[(i+l.Pos/100)%6] + fmt.Sprint(i+1)
		if (i+l.Pos/100)%6 == 1 {
			name = " EL" + fmt.Sprint(i+1) + " "
		}
		ln := &lsn{LsnE: l, name: name, idx: l.Pos * c.History / 1000, at: -1}
		if c.PauseEv > 0 {
			// entries 0..PauseEv-1 of the retained list are written before the connection blocks.
			// The listeners placed right before the pause take at most two entries each, the last
			// of them entries PauseEv-3 and PauseEv-2 (replayed); those right after start at entry
			// PauseEv+1 (not yet replayed).
			switch l.Rel {
			case "just-before-pause":
				later := 0
				for _, m := range c.Listeners[i+1:] {
					if m.Rel == "just-before-pause" {
						later++
					}
				}
				ln.idx, ln.at = c.History, c.PauseEv-3-2*later
				if ln.at < 1 {
					ln.at = 1
				}
			case "just-after-pause":
				ln.idx, ln.at = c.History, c.PauseEv+1
			}
		}
		lsns = append(lsns, ln)
	}
	startListener := func(l *lsn) *core.Violation {
		if l.Via && len(bystanders) > 0 {
			b := bystanders[0]
			info := map[string]any{"Name": l.name, "Protocol": "Smb", "PipeName": "pipe-" + l.name}
			if l.Ext {
				info = map[string]any{"Name": l.name, "Protocol": "External", "Endpoint": "ep-" + l.name}
			}
			b.c.SendJSON(wsx.Pkg(T.Listener.Type, b.user, T.Listener.Add, info))
			if v := flushAll(); v != nil {
				return v
			}
			// the request itself is recorded right before the announcement
			w.retained = append(w.retained, ent{p: "ladd/" + b.user + "/" + l.name + "/", lname: l.name, raw: b.user})
			replayBytes += 250
		} else {
			var err error
			if l.Ext {
				err = ts.ListenerStart(handlers.LISTENER_EXTERNAL, handlers.ExternalConfig{Name: l.name, Endpoint: "ep-" + l.name})
			} else {
				err = ts.ListenerStart(handlers.LISTENER_PIVOT_SMB, handlers.SMBConfig{Name: l.name, PipeName: "pipe-" + l.name})
			}
			if err != nil {
				return core.V("harness|listener-start", "%v", err)
			}
		}
		w.retained = append(w.retained, ent{p: "ladd//" + l.name + "/Online", lname: l.name})
		replayBytes += 300
		return nil
	}
	for i := 0; i <= c.History; i++ {
		for _, l := range lsns {
			if !l.done && (l.idx == i || (l.at >= 0 && len(w.retained) >= l.at)) {
				l.done = true
				if v := startListener(l); v != nil {
					return v
				}
			}
		}
		if i == c.History {
			break
		}
		tk := fmt.Sprintf("pre-%d", i)
		pk := events.Teamserver.Logger(tk + " " + pad)
		ts.EventAppend(pk)
		ts.EventBroadcast("", pk)
		w.retained = append(w.retained, ent{p: "tslog/" + tk + " " + pad})
		replayBytes += 120 + len(tk) + 1 + len(pad)
	}

	// ---- producers
	type prod struct {
		Producer
		toks   []string
		sender *mclient
	}
	var prods []*prod
	for i, p := range c.Producers {
		q := &prod{Producer: p}
		for j := 0; j < c.Before+p.N; j++ {
			q.toks = append(q.toks, fmt.Sprintf("ev-p%d-%d", i, j))
		}
		if p.Kind == "chat" {
			if len(bystanders) == 0 {
				q.Kind = "tslog"
			} else {
				q.sender = bystanders[i%len(bystanders)]
			}
		}
		prods = append(prods, q)
	}
	projOf := func(q *prod, tk string) string {
		switch q.Kind {
		case "console":
			return "out/0badc0de/" + tk
		case "chat":
			return "chat/" + q.sender.user + "/" + tk
		}
		return "tslog/" + tk
	}
	emit := func(q *prod, j int, appended func()) {
		tk := q.toks[j]
		switch q.Kind {
		case "console":
			ts.AgentConsole("0badc0de", agent.HAVOC_CONSOLE_MESSAGE, map[string]string{"Type": "Info", "Message": tk})
		case "chat":
			q.sender.c.SendJSON(wsx.ChatPkg(q.sender.user, tk))
		default:
			pk := events.Teamserver.Logger(tk)
			ts.EventAppend(pk)
			if appended != nil {
				appended()
			}
			ts.EventBroadcast("", pk)
		}
	}
	// events before the newcomer starts: sequential, they are simply part of the history
	for _, q := range prods {
		for j := 0; j < c.Before; j++ {
			emit(q, j, nil)
			if q.Kind == "chat" {
				if v := flushAll(); v != nil {
					return v
				}
			}
			w.retained = append(w.retained, ent{p: projOf(q, q.toks[j])})
			replayBytes += 200
		}
	}
	if v := flushAll(); v != nil {
		return v
	}
	for _, b := range bystanders {
		bufs[b] = nil // everything so far belongs to the set-up
	}

	// ---- the newcomer, falling behind in the middle of its replay
	user := w.free[0]
	nc, err := fx.Dial("/havoc/")
	if err != nil {
		return core.V("harness|dial", "%v", err)
	}
	mark := int64(400 + replayBytes*c.PauseAt/1000) // past the Success frame, inside the replay
	if c.PauseEv > 0 {
		// counted in websocket messages: the Success frame, then PauseEv retained events
		nc.Peer.PauseAfterWrites(1 + c.PauseEv)
	} else {
		nc.Peer.PauseAfter(mark)
	}
	nc.SendJSON(wsx.LoginPkg(user, "pw-"+user))
	// the snapshot the newcomer is entitled to: the retained list now, ending with its own arrival
	var snapshot []string
	for _, e := range w.retained {
		snapshot = append(snapshot, e.p)
	}
	snapshot = append(snapshot, "newuser/"+user)
	deadline := time.Now().Add(wsx.Watchdog)
	inWindow := false
	var early []wsx.Frame // what the newcomer receives while we wait for the pause to take hold
	for {
		if nc.Peer.Paused() {
			inWindow = true
			break
		}
		if fr, ok, _ := nc.Next(200 * time.Microsecond); ok {
			early = append(early, fr)
			if pk, err := wsx.Decode(fr); err == nil && wsx.Proj(pk) == "newuser/"+user {
				break // the replay is through: the mark lay beyond its end
			}
			continue
		}
		if time.Now().After(deadline) {
			break
		}
	}
	if !inWindow {
		wsx.Obs("e:replay-ended-before-pause-mark")
		nc.Peer.Resume()
	} else {
		wsx.Obs("e:paused-inside-replay")
	}

	// ---- inside the window: producers, and everything that rewrites the retained list
	window := map[string]int{} // events that exist only because of the window: expected exactly once, live
	var wmu sync.Mutex
	expectLive := func(p string) { wmu.Lock(); window[p] = 0; wmu.Unlock() }
	for _, q := range prods {
		for j := c.Before; j < len(q.toks); j++ {
			expectLive(projOf(q, q.toks[j]))
		}
	}
	recorded := make(chan struct{})
	rewritten := make(chan struct{})
	var once sync.Once
	var wg sync.WaitGroup
	for i, q := range prods {
		i, q := i, q
		wg.Add(1)
		go func() {
			defer wg.Done()
			for j := c.Before; j < len(q.toks); j++ {
				var cb func()
				if i == 0 {
					cb = func() { once.Do(func() { close(recorded) }) }
				}
				emit(q, j, cb)
			}
		}()
	}
	var removed []string
	for _, l := range lsns {
		switch l.Rewrite {
		case "remove":
			removed = append(removed, l.name)
			expectLive("lrem//" + l.name)
		case "error":
			expectLive("lerr/" + l.name + "/boom-" + fmt.Sprint(l.idx))
		}
	}
	wg.Add(1)
	go func() {
		defer wg.Done()
		// exactly what DispatchEvent does for Listener/Remove, with a signal after the prune
		for _, name := range removed {
			ts.ListenerRemove(name)
		}
		if c.EvRemove >= 0 {
			// (position within the history part that certainly exists: the pre-i events)
			ts.EventRemove(1 + c.EvRemove*(c.History-1)/1000)
		}
		close(rewritten)
		for _, name := range removed {
			p := events.Listener.ListenerRemove(name)
			ts.EventAppend(p)
			ts.EventBroadcast("", p)
		}
		for _, l := range lsns {
			if l.Rewrite == "error" {
				ts.EventListenerError(l.name, errors.New("listen: boom-"+fmt.Sprint(l.idx)))
			}
		}
	}()
	for _, ch := range []chan struct{}{recorded, rewritten} {
		select {
		case <-ch:
		case <-time.After(wsx.Watchdog):
			dirty = true
			nc.Peer.Resume()
			return core.V("hang|record-or-rewrite-while-newcomer-replays|"+core.HavocFrame(dump()), "EventAppend / ListenerRemove / EventRemove did not return within %v while a newcomer's replay was in progress", wsx.Watchdog)
		}
	}
	nc.Peer.Resume()
	done := make(chan struct{})
	go func() { wg.Wait(); close(done) }()
	select {
	case <-done:
	case <-time.After(2 * wsx.Watchdog):
		dirty = true
		return core.V("hang|producers-while-newcomer-replays|"+core.HavocFrame(dump()), "the producers did not finish within %v after the newcomer's connection accepted data again", 2*wsx.Watchdog)
	}
	if v := flushAll(); v != nil {
		return v
	}
	if nc.Peer.WriteFailed() {
		// the pause outlasted the teamserver's write deadline (machine overloaded): no verdict
		wsx.Obs("e:pause-exceeded-write-deadline")
		return nil
	}

	// ---- final barrier from the newcomer; everything before its echo is judged
	nc.SendJSON(wsx.BarrierPkg(user, "end"))
	var seq []string
	for {
		var fr wsx.Frame
		ok, closed := true, false
		if len(early) > 0 {
			fr, early = early[0], early[1:]
		} else {
			fr, ok, closed = nc.Next(wsx.Watchdog)
		}
		if !ok {
			return core.V("window|newcomer-stream-incomplete", "the newcomer's stream ended before its final barrier came back (closed=%v, %v); %d frames", closed, nc.ReadErr, len(seq))
		}
		pk, err := wsx.Decode(fr)
		if err != nil {
			return core.V("frame|not-one-package", "newcomer: %v: %.200q", err, fr.Data)
		}
		p := wsx.Proj(pk)
		if p == "!chat/"+user+"/end" {
			break
		}
		if strings.HasPrefix(p, "!chat/") {
			continue // the bystanders' flush chats
		}
		seq = append(seq, p)
	}
	short := func(p string) string {
		if len(p) > 60 {
			return p[:60] + "..."
		}
		return p
	}
	if len(seq) == 0 || seq[0] != "init/success" {
		return core.V("window|no-success-first", "newcomer's first frame: %v", clipL(seq))
	}
	ctx := fmt.Sprintf("(history %d events of %d bytes, paused at %d permille, listeners %+v, EventRemove at %d)", c.History, c.EventSize, c.PauseAt, c.Listeners, c.EvRemove)
	if inWindow {
		// The snapshot was taken before anything of the window happened: it arrives exactly
		// once and in order (including the Add events of listeners removed meanwhile - the
		// removal itself follows live).  Everything of the window arrives exactly once, live.
		pos := map[string]int{}
		for i, p := range snapshot {
			pos[p] = i
		}
		idx := 0
		for n, p := range seq[1:] {
			if idx < len(snapshot) && p == snapshot[idx] {
				idx++
				continue
			}
			if cnt, ok := window[p]; ok {
				if cnt > 0 {
					return core.V("window|event-twice|recorded-inside-the-window", "the newcomer received %q twice (frame %d) %s", short(p), n+1, ctx)
				}
				window[p]++
				continue
			}
			if i, ok := pos[p]; ok {
				if i < idx {
					return core.V("window|event-twice|retained-before-login", "the newcomer received retained event %d %q a second time (frame %d; %d of %d retained events delivered so far) %s", i, short(p), n+1, idx, len(snapshot), ctx)
				}
				return core.V("window|retained-event-skipped", "the newcomer's replay jumped from retained event %d to %d: %q never arrived (frame %d) %s", idx, i, short(snapshot[idx]), n+1, ctx)
			}
			return core.V("window|unexpected-event", "the newcomer received %q (frame %d), which is neither in its replay snapshot nor an event of the window %s", short(p), n+1, ctx)
		}
		if idx != len(snapshot) {
			return core.V("window|retained-event-missing", "the newcomer's replay ended after %d of %d retained events; next would have been %q %s", idx, len(snapshot), short(snapshot[idx]), ctx)
		}
		for p, cnt := range window {
			if cnt == 0 {
				return core.V("window|event-never-reaches-newcomer|while-newcomer-was-replaying", "%q was recorded and broadcast while the authenticated newcomer was inside its replay and reached it neither way %s", short(p), ctx)
			}
		}
	} else {
		// not provably inside the window: only completeness
		have := map[string]bool{}
		for _, p := range seq {
			have[p] = true
		}
		for _, p := range snapshot {
			if !have[p] && !strings.HasPrefix(p, "ladd//") {
				return core.V("window|retained-event-missing", "retained event %q never reached the newcomer %s", short(p), ctx)
			}
		}
		for p := range window {
			if !have[p] {
				return core.V("window|event-never-reaches-newcomer|while-newcomer-was-replaying", "%q never reached the newcomer %s", short(p), ctx)
			}
		}
	}
	// ---- bystanders: every event of the window exactly once, each producer's order kept
	for _, b := range bystanders {
		if v := pull(b, "!chat/"+user+"/end"); v != nil {
			return v
		}
		pos := make([]int, len(prods))
		seen := map[string]int{}
		for _, p := range bufs[b] {
			if _, ok := window[p]; ok {
				seen[p]++
				if seen[p] > 1 {
					return core.V("live|duplicate|bystander", "operator %s received %q twice", b.user, short(p))
				}
			}
			for pi, q := range prods {
				nx := c.Before + pos[pi]
				if nx < len(q.toks) && p == projOf(q, q.toks[nx]) {
					pos[pi]++
				}
			}
		}
		for p := range window {
			if seen[p] == 0 {
				return core.V("live|not-delivered|bystander", "operator %s never received %q %s", b.user, short(p), ctx)
			}
		}
		for pi, q := range prods {
			if c.Before+pos[pi] != len(q.toks) {
				return core.V("live|order|bystander", "operator %s: the events of producer %d did not arrive in the order they were emitted", b.user, pi)
			}
		}
	}
	return nil
}

func clipL(xs []string) []string {
	if len(xs) > 8 {
		return xs[:8]
	}
	return xs
}

func classifyE(c CaseE) core.Class {
	var cl core.Class
	kinds := map[string]bool{}
	for _, p := range c.Producers {
		kinds[p.Kind] = true
		cl.Labels = append(cl.Labels, "producer:"+p.Kind)
	}
	rem, before, after, two := false, false, false, false
	for _, l := range c.Listeners {
		cl.Labels = append(cl.Labels, "listener-rewrite:"+l.Rewrite)
		if l.Rewrite == "remove" {
			rem = true
			// the Add event has been replayed already when it sits before the pause point
			if l.Rel != "" {
				cl.Labels = append(cl.Labels, "scale:removal-of-listener-added-"+l.Rel)
			}
			if l.Rel == "just-before-pause" || (l.Rel == "" && l.Pos < c.PauseAt) {
				before = true
				cl.Labels = append(cl.Labels, "removal-before-pause-point(Add already replayed)")
			} else {
				after = true
				cl.Labels = append(cl.Labels, "removal-after-pause-point(Add not yet replayed)")
			}
			if l.Via && c.Bystand > 0 {
				two = true
				cl.Labels = append(cl.Labels, "removal-of-two-Add-events(request+announcement)")
			}
		}
	}
	if c.EvRemove >= 0 {
		cl.Labels = append(cl.Labels, "EventRemove-inside-window")
	}
	cl.NonTrivial = true
	if c.PauseEv > 0 {
		nrw, maxN := 0, 0
		for _, l := range c.Listeners {
			if l.Rewrite != "none" {
				nrw++
			}
		}
		if c.EvRemove >= 0 {
			nrw++
		}
		for _, p := range c.Producers {
			if p.N > maxN {
				maxN = p.N
			}
		}
		cl.Labels = append(cl.Labels, "scale:retained-events:"+scaleBucket(c.History), "scale:pause-after-events:"+scaleBucket(c.PauseEv),
			fmt.Sprintf("scale:rewrites-during-one-replay:%d", nrw), fmt.Sprintf("event-size:%d", c.EventSize), fmt.Sprintf("bystanders:%d", c.Bystand))
		if maxN >= 63 {
			cl.Labels = append(cl.Labels, "scale:events-per-producer-during-replay:"+scaleBucket(maxN))
		}
		if rem {
			cl.Labels = append(cl.Labels, "scale:listener-removed-during-replay-of-long-history")
		}
		cl.Fingerprint = fmt.Sprintf("scale|h=%s|pause=%s|sz=%d|by=%d|np=%d|N=%s|rw=%d|rem=%v/%v/%v/%v|evrem=%v", scaleBucket(c.History), scaleBucket(c.PauseEv), c.EventSize, c.Bystand, len(c.Producers), scaleBucket(maxN), nrw, rem, before, after, two, c.EvRemove >= 0)
		return cl
	}
	cl.Labels = append(cl.Labels, fmt.Sprintf("pause-at-permille:%d", c.PauseAt), fmt.Sprintf("event-size:%d", c.EventSize), fmt.Sprintf("bystanders:%d", c.Bystand))
	cl.Fingerprint = fmt.Sprintf("h=%d|sz=%d|by=%d|pause=%d|np=%d|console=%v|chat=%v|before=%v|rem=%v/%v/%v/%v|evrem=%v", c.History/40, c.EventSize, c.Bystand, c.PauseAt, len(c.Producers), kinds["console"], kinds["chat"], c.Before > 0, rem, before, after, two, c.EvRemove >= 0)
	return cl
}

func TestC11e(t *testing.T) {
	core.Run(t, core.Spec[CaseE]{
		Property: "C11", Sub: "e",
		Rule: "0-2 operators online; 8-120 retained events of 0-20000 bytes with the Add events of 0-3 listeners (SMB / External; ListenerStart = one Add event, or a bystander's request = request + announcement) at generated positions; then a newcomer logs in over a connection that stops accepting data after a generated fraction of its replay (0.1%-90%). While it is provably blocked inside the replay: 1-3 producers (EventAppend+EventBroadcast, AgentConsole, a bystander's chat) emit 1-5 events each, and every operation that rewrites the retained list is carried out - ListenerRemove of listeners whose Add events sit before / after the pause point, EventRemove of a retained event, EventListenerError. The connection accepts data again only after producer 0 has recorded an event and the removals have returned. Oracle (everything the newcomer received before the echo of its final one-shot chat): Success; then its replay snapshot - the retained list as it was when it logged in, including the Add events of listeners removed meanwhile - exactly once and in order, interleaved with the events of the window (producers' events, the Remove and Error events) exactly once each, and nothing else; bystanders receive every event of the window exactly once in each producer's order. All cases non-trivial. SCALE dimension (one case in 10-20 of the 150 this sub-check runs in the quick tier; labels scale:*; the pool is cut at 8193 retained events, which one case affords in well under a second - the thorough tier reaches the same pool more often): the history has 999-8193 retained events from the threshold-adjacent pool {999,1000,1001, 1023,1024,1025, 2047,2048,2049, 4095,4096,4097, 8191,8192,8193} of 0 or 200 bytes, produced by the same EventAppend+EventBroadcast loop as the short histories; the newcomer's connection blocks after an exact NUMBER of retained events of its replay (1, or a pool value 63..8193 not above the history length; counted in websocket messages at the server-side connection), so that the pause falls before / at / after every power-of-two and round count; 1-6 listeners (with EventRemove up to 7 rewrites of the list during one replay) have their Add events at the generated permille positions or right before (already replayed) / right after (not yet replayed) the pause point; in half of these cases every producer emits 63-1025 events while the newcomer replays. The oracle is unchanged (it is linear) and must hold at that scale",
		Gen:   genE, Check: checkE, Classify: classifyE,
		Assumptions: []string{
			"what a newcomer that is already inside its replay sees of a concurrent removal is taken from HEAD: its snapshot is unaffected, the removal follows as a live event (which may overtake the replayed Add event)",
			"if the replay ended before the pause mark only completeness is demanded; if the pause outlasts the teamserver's own write deadline (overloaded machine) the case gives no verdict",
		},
	})
}

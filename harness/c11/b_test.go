package c11

// C11(b): concurrent broadcasters.  Built with -race: unsynchronised access inside Havoc
// is reported by the race detector (the driver turns reports with a Havoc frame into
// findings); the check itself demands completeness and per-broadcaster order at every
// client and in a newcomer's replay.

import (
	"encoding/json"
	"fmt"
	"os"
	"time"
	"strings"
	"sync"
	"testing"

	"pgregory.net/rapid"

	"Havoc/pkg/agent"
	"Havoc/pkg/events"

	"verifharness/internal/core"
	"verifharness/internal/wsx"
)

type Thread struct {
	Kind string   `json:"kind"` // direct (a goroutine calling the teamserver, as listener code does) | operator (an operator's websocket, i.e. its handler goroutine)
	Ops  []string `json:"ops"`  // direct: console | mark | tslog ; operator: chat
}

type CaseB struct {
	Clients int      `json:"clients"`
	Threads []Thread `json:"threads"`
}

func genB(t *rapid.T) CaseB {
	var c CaseB
	c.Clients = rapid.IntRange(1, 3).Draw(t, "clients")
	nt := rapid.IntRange(2, 4).Draw(t, "threads")
	nop := 0
	for i := 0; i < nt; i++ {
		var th Thread
		th.Kind = "direct"
		if nop < c.Clients && rapid.IntRange(0, 2).Draw(t, "operator-thread") == 0 {
			th.Kind = "operator"
			nop++
		}
		n := rapid.IntRange(2, 12).Draw(t, "nops")
		for j := 0; j < n; j++ {
			if th.Kind == "operator" {
				th.Ops = append(th.Ops, "chat")
			} else {
				th.Ops = append(th.Ops, rapid.SampledFrom([]string{"console", "mark", "tslog"}).Draw(t, "op"))
			}
		}
		c.Threads = append(c.Threads, th)
	}
	return c
}

func checkB(c CaseB) *core.Violation { return wsx.Exec("b", c) }

// tokenOf extracts "c<nonce>-t<thread>-<seq>" from a projection.
func tokenOf(p, tag string) string {
	i := strings.Index(p, tag)
	if i < 0 {
		return ""
	}
	t := p[i:]
	if j := strings.IndexAny(t, "/ "); j >= 0 {
		t = t[:j]
	}
	return t
}

func runB(raw json.RawMessage) *core.Violation {
	var c CaseB
	if err := json.Unmarshal(raw, &c); err != nil {
		return core.V("harness|decode", "%v", err)
	}
	fx, err := wsx.AcquireShared(pool)
	if err != nil {
		return core.V("harness|fixture", "%v", err)
	}
	dirty := false
	t0 := time.Now()
	defer func() {
		t1 := time.Now()
		fx.Release(dirty)
		if os.Getenv("VERIF_WSX_DEBUG") != "" {
			fmt.Fprintf(os.Stderr, "TIMING b run=%v release=%v\n", t1.Sub(t0), time.Since(t1))
		}
	}()
	ts := fx.TS
	wsx.TakeErrors()
	// overloaded: if a send failed because the teamserver's own write deadline expired (the
	// harness's reader did not get to run for 10 s) the case gives no verdict
	noVerdict := func(v *core.Violation) *core.Violation {
		if v == nil {
			return nil
		}
		errs := wsx.TakeErrors()
		for _, e := range errs {
			if strings.Contains(e, "i/o timeout") || strings.Contains(e, "deadline") {
				wsx.Obs("b:send-hit-the-write-deadline(no verdict)")
				return nil
			}
		}
		if len(errs) > 0 {
			v.Msg += fmt.Sprintf("\n[teamserver error log: %v]", errs)
		}
		return v
	}
	tag := fmt.Sprintf("c%d-", wsx.Nonce())

	type cl struct {
		user string
		c    *wsx.Client
	}
	var clients []cl
	login := func(user string) (*wsx.Client, []string, *core.Violation) {
		c, err := fx.DialTLS("/havoc/")
		if err != nil {
			return nil, nil, core.V("harness|dial", "%v", err)
		}
		c.SendJSON(wsx.LoginPkg(user, "pw-"+user))
		bar := tag + "bar-" + user
		c.SendJSON(wsx.BarrierPkg(user, bar))
		var seen []string
		for {
			fr, ok, closed := c.Next(wsx.Watchdog)
			if !ok {
				return nil, nil, core.V("login|incomplete", "operator %s: login/replay did not complete (closed=%v %v); saw %d frames", user, closed, c.ReadErr, len(seen))
			}
			pk, err := wsx.Decode(fr)
			if err != nil {
				return nil, nil, core.V("frame|not-one-package", "operator %s: %v: %.200q", user, err, fr.Data)
			}
			p := wsx.Proj(pk)
			if p == "!chat/"+user+"/"+bar {
				return c, seen, nil
			}
			seen = append(seen, p)
		}
	}
	for i := 0; i < c.Clients; i++ {
		u := pool[i].Name
		k, _, v := login(u)
		if v != nil {
			return v
		}
		// earlier clients see this one arrive (newuser + its barrier): drop those
		clients = append(clients, cl{u, k})
	}
	for _, k := range clients {
		k.c.Pending()
	}
	// give the fan-out of the last login time to reach the earlier clients, then drop it:
	// only tagged events are looked at below anyway.

	// ---- the concurrent part
	var want [][]string // per thread, in order
	opIdx := 0
	start := make(chan struct{})
	var wg sync.WaitGroup
	for ti, th := range c.Threads {
		var toks []string
		for j := range th.Ops {
			toks = append(toks, fmt.Sprintf("%st%d-%d", tag, ti, j))
		}
		want = append(want, toks)
		th := th
		var sender *wsx.Client
		var suser string
		if th.Kind == "operator" {
			sender, suser = clients[opIdx%len(clients)].c, clients[opIdx%len(clients)].user
			opIdx++
		}
		wg.Add(1)
		go func() {
			defer wg.Done()
			<-start
			for j, op := range th.Ops {
				tk := toks[j]
				switch {
				case th.Kind == "operator":
					sender.SendJSON(wsx.ChatPkg(suser, tk))
				case op == "console":
					ts.AgentConsole("0badc0de", agent.HAVOC_CONSOLE_MESSAGE, map[string]string{"Type": "Info", "Message": tk})
				case op == "mark":
					ts.EventAgentMark(tk, "Dead")
				default:
					pk := events.Teamserver.Logger(tk)
					ts.EventAppend(pk)
					ts.EventBroadcast("", pk)
				}
			}
		}()
	}
	done := make(chan struct{})
	go func() { wg.Wait(); close(done) }()
	if v := core.WithWatchdog(3*wsx.Watchdog, "concurrent-broadcasters", func() *core.Violation { close(start); <-done; return nil }); v != nil {
		dirty = true
		return v
	}
	total := 0
	for _, t := range want {
		total += len(t)
	}
	// order / completeness of a sequence of projections w.r.t. the threads
	judge := func(who string, seq []string, sigp string) *core.Violation {
		got := make([][]string, len(want))
		seen := map[string]int{}
		for _, p := range seq {
			tk := tokenOf(p, tag+"t")
			if tk == "" {
				continue
			}
			seen[tk]++
			if seen[tk] > 1 {
				return core.V(sigp+"|duplicate", "%s: event %q delivered twice", who, tk)
			}
			var ti int
			fmt.Sscanf(tk[len(tag):], "t%d-", &ti)
			if ti >= 0 && ti < len(want) {
				got[ti] = append(got[ti], tk)
			}
		}
		for ti := range want {
			var miss []string
			for _, tk := range want[ti] {
				if seen[tk] == 0 {
					miss = append(miss, tk)
				}
			}
			if len(miss) > 0 {
				return core.V(sigp+"|missing", "%s: %d of %d events of broadcaster %d (%s) are missing: %v", who, len(miss), len(want[ti]), ti, c.Threads[ti].Kind, miss)
			}
		}
		for ti := range want {
			for j := range want[ti] {
				if got[ti][j] != want[ti][j] {
					return core.V(sigp+"|order", "%s: events of broadcaster %d arrived out of order: %v, issued as %v", who, ti, got[ti], want[ti])
				}
			}
		}
		return nil
	}
	for _, k := range clients {
		var seq []string
		n := 0
		for n < total {
			fr, ok, closed := k.c.Next(wsx.Watchdog)
			if !ok {
				if v := judge("operator "+k.user+" (live)", seq, "concurrent-live"); v != nil {
					v.Msg += fmt.Sprintf(" [client reader ended=%v err=%v, %d tagged frames arrived of %d]", closed, k.c.ReadErr, n, total)
					return noVerdict(v)
				}
				return noVerdict(core.V("concurrent-live|missing", "operator %s: only %d of %d events arrived (closed=%v)", k.user, n, total, closed))
			}
			pk, err := wsx.Decode(fr)
			if err != nil {
				return core.V("frame|not-one-package", "operator %s: %v: %.200q", k.user, err, fr.Data)
			}
			p := wsx.Proj(pk)
			if tokenOf(p, tag+"t") != "" {
				n++
				seq = append(seq, p)
			}
		}
		if v := judge("operator "+k.user+" (live)", seq, "concurrent-live"); v != nil {
			return v
		}
	}
	// ---- a newcomer's replay holds every recorded event once, each broadcaster's order kept
	_, replay, v := login(pool[len(pool)-1].Name)
	if v != nil {
		return v
	}
	if v := judge("newcomer's replay", replay, "concurrent-replay"); v != nil {
		if strings.HasSuffix(v.Sig, "|missing") {
			v.Sig = "concurrent-replay|lost-append"
		}
		return v
	}
	return nil
}

func classifyB(c CaseB) core.Class {
	var cl core.Class
	nd, no, ops := 0, 0, 0
	for _, t := range c.Threads {
		if t.Kind == "operator" {
			no++
		} else {
			nd++
		}
		ops += len(t.Ops)
		for _, o := range t.Ops {
			cl.Labels = append(cl.Labels, "cop:"+o)
		}
	}
	cl.Labels = append(cl.Labels, fmt.Sprintf("threads:%d", len(c.Threads)), fmt.Sprintf("clients:%d", c.Clients))
	cl.NonTrivial = len(c.Threads) >= 2
	cl.Fingerprint = fmt.Sprintf("clients=%d|direct=%d|operator=%d|ops=%d", c.Clients, nd, no, ops/8)
	return cl
}

func TestC11b(t *testing.T) {
	core.Run(t, core.Spec[CaseB]{
		Property: "C11", Sub: "b",
		Rule: "1-3 authenticated operators, 2-4 concurrent broadcasters of 2-12 events each (goroutines calling AgentConsole / EventAgentMark / EventAppend+EventBroadcast as listener code does, and operators' websockets sending chat, i.e. their handler goroutines), all released at once; built with -race. Oracle: every operator receives every event exactly once with each broadcaster's order preserved; a newcomer's replay contains every recorded event exactly once with each broadcaster's order preserved (no lost append); no data race report with a Havoc frame. Non-trivial: at least two broadcasters",
		Gen:   genB, Check: checkB, Classify: classifyB,
		Assumptions: []string{
			"the teamserver is shared by all cases of a worker process and never reset (a harness-side reset would itself race with earlier handler goroutines); events are tagged per case and everything untagged is ignored",
			"the Go scheduler is not controlled: interleavings are sampled",
		},
	})
}

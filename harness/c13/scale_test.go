package c13

// SCALE dimension for every place C13 generates a configuration.
//
// About one configuration in 45 is large: a threshold-adjacent NUMBER of hosts, headers
// or URIs on the listener, a threshold-adjacent LENGTH of one string field, or a TOTAL
// size of the packed block that lies right at 4096 / 8192 / 16384 / 65536 bytes (one field
// padded so that the block ends a few bytes before, at, or after the boundary; which field
// is padded decides which of the later fields lie across the boundary).  The small items
// the ordinary generator drew (hosts with and without port, interface names, headers,
// URIs) stay in the list: first, in the middle of, and after the bulk.  PatchConfig has no
// limits of its own on HEAD; the field-by-field reader oracle is unchanged.

import (
	"fmt"
	"strings"
	"unicode/utf16"

	"pgregory.net/rapid"

	"verifharness/internal/core"
)

var scalePool = []int{63, 64, 65, 127, 128, 129, 255, 256, 257, 511, 512, 513, 999, 1000, 1001, 1023, 1024, 1025, 2047, 2048, 2049, 4095, 4096, 4097, 8191, 8192, 8193}

type scaleLim struct {
	MaxHosts int // hosts of one listener (HEAD asks the kernel for the interface table once per host: ~0.3 ms each)
	MaxCount int // headers / URIs of one listener
	MaxLen   int // characters of one string field
	MaxTotal int // bytes of the packed block (bulk items are dropped / fields cut beyond it)
}

// limA: PatchConfig alone (sub-check a).  limBuild: everything that goes on to Build():
// there the block travels as one -DCONFIG_BYTES={0x..\,0x..} word of a `sh -c` command line
// (6 characters a byte, built by repeated string concatenation; one argument is limited to
// 128 KiB by the kernel), and Build() creates its compile directory before it packs the
// block - a directory another process of this check may take for an abandoned one when it
// stays empty for 3 s (seen on a machine with load 100 with blocks of 8 and 14 KB).  Those
// builds therefore stay about as cheap as the ordinary ones: at most 4096+64 bytes.
func limA() scaleLim {
	if core.Tier() == "thorough" {
		return scaleLim{MaxHosts: 1025, MaxCount: 8193, MaxLen: 8193, MaxTotal: 1 << 20}
	}
	return scaleLim{MaxHosts: 257, MaxCount: 1025, MaxLen: 8193, MaxTotal: 1 << 18}
}

func limBuild() scaleLim {
	return scaleLim{MaxHosts: 65, MaxCount: 129, MaxLen: 2049, MaxTotal: 4096 + 64}
}

func poolUpTo(max int) []int {
	var out []int
	for _, v := range scalePool {
		if v <= max {
			out = append(out, v)
		}
	}
	return out
}

// ---- the size of the block, from the Demon's reading order (ref_test.go readConfig)

func u16len(s string) int { return len(utf16.Encode([]rune(s))) }

// wsz: a length-prefixed, terminated UTF-16LE string.
func wsz(s string) int { return 4 + 2*(u16len(s)+1) }

func modelSize(c CaseA) int {
	n := 4*4 + wsz(c.Opts.Spawn64) + wsz(c.Opts.Spawn32) + 6*4
	if c.SMB {
		return n + wsz(`\\.\pipe\`+c.Pipe.PipeName) + 8 + 4
	}
	l := c.HTTP
	n += 8 + 4 + wsz("POST") + 4 + 4
	for _, h := range l.Hosts {
		name := h
		if i := strings.Index(h, ":"); i >= 0 {
			name = h[:i]
		}
		if a, ok := ifaceV4Map[name]; ok { // (the addresses as they were at start-up: sizes only)
			name = a
		}
		n += wsz(name) + 4
	}
	n += 4 + wsz(l.UserAgent) + 4
	hdrs := l.Headers
	if len(hdrs) == 0 {
		hdrs = []string{"Content-type: */*"}
	}
	for _, h := range hdrs {
		n += wsz(h)
	}
	if l.HostHeader != "" {
		n += wsz("Host: " + l.HostHeader)
	}
	n += 4
	uris := l.Uris
	if len(uris) == 0 {
		uris = []string{"/"}
	}
	for _, u := range uris {
		n += wsz(u)
	}
	n += 4
	if l.ProxyEnabled {
		n += wsz(l.ProxyType+"://"+l.ProxyHost+":"+l.ProxyPort) + wsz(l.ProxyUser) + wsz(l.ProxyPass)
	}
	return n
}

// ---- building blocks

var fillers = []string{"a", "a", "a", "Z", "ü", "日", "😀"}

// padUnits extends s by filler until it has exactly n UTF-16 code units (s is returned
// unchanged when it is that long already; a two-unit filler that would overshoot is
// replaced by 'a').
func padUnits(s string, n int, filler string) string {
	have := u16len(s)
	if have >= n {
		return s
	}
	fu := u16len(filler)
	var b strings.Builder
	b.WriteString(s)
	for have+fu <= n {
		b.WriteString(filler)
		have += fu
	}
	for have < n {
		b.WriteByte('a')
		have++
	}
	return b.String()
}

// longHostName: a DNS-shaped name of exactly n characters (labels of at most 63), unique by i.
func longHostName(i, n int) string {
	s := fmt.Sprintf("h%d", i)
	for len(s) < n {
		room := n - len(s)
		if room == 1 {
			s += "x"
			break
		}
		k := room - 1
		if k > 63 {
			k = 63
		}
		s += "." + strings.Repeat(string(rune('a'+i%26)), k)
	}
	return s[:n]
}

// withOriginals puts the ordinary generator's items first, in the middle and last, so that
// the list has exactly n entries (bulk(i) makes the i-th bulk entry).
func withOriginals(orig []string, n int, bulk func(i int) string) []string {
	if len(orig) > n {
		orig = orig[:n]
	}
	nb := n - len(orig)
	var first, mid, last []string
	switch len(orig) {
	case 0:
	case 1:
		last = orig
	case 2:
		first, last = orig[:1], orig[1:]
	default:
		first, mid, last = orig[:1], orig[1:len(orig)-1], orig[len(orig)-1:]
	}
	out := make([]string, 0, n)
	out = append(out, first...)
	for i := 0; i < nb; i++ {
		if i == nb/2 {
			out = append(out, mid...)
		}
		out = append(out, bulk(i))
	}
	if nb == 0 {
		out = append(out, mid...)
	}
	return append(out, last...)
}

// fit cuts n so that n items of itemBytes stay within the budget.
func fit(n, itemBytes, budget int) int {
	if itemBytes > 0 && n*itemBytes > budget {
		n = budget / itemBytes
	}
	if n < 1 {
		n = 1
	}
	return n
}

var scaleKinds = []string{"hosts", "hosts", "headers", "uris", "length", "length", "total", "total", "total"}

// applyScale makes c large in one (sometimes two) of the ways above.
func applyScale(t *rapid.T, c *CaseA, lim scaleLim) {
	kinds := 1
	if rapid.IntRange(0, 3).Draw(t, "scale-two") == 0 {
		kinds = 2
	}
	for k := 0; k < kinds; k++ {
		kind := rapid.SampledFrom(scaleKinds).Draw(t, "scale-kind")
		if c.SMB && kind != "total" {
			kind = "length"
		}
		budget := lim.MaxTotal - modelSize(*c)
		if budget < 256 {
			return
		}
		switch kind {
		case "hosts":
			n := rapid.SampledFrom(poolUpTo(lim.MaxHosts)).Draw(t, "scale-hosts")
			style := rapid.SampledFrom([]string{"short", "short", "long", "mixed", "iface"}).Draw(t, "scale-host-style")
			hl := rapid.SampledFrom([]int{63, 64, 65, 127, 128, 129, 252, 253}).Draw(t, "scale-host-len")
			per := 4 + 2*20 + 4
			if style == "long" {
				per = 4 + 2*(hl+1) + 4
			} else if style == "mixed" {
				per = (4 + 2*(hl+1) + 4 + 2*(4+2*20+4)) / 3
			}
			n = fit(n, per, budget)
			c.HTTP.Hosts = withOriginals(c.HTTP.Hosts, n, func(i int) string {
				h := fmt.Sprintf("h%d.cdn.example", i)
				switch {
				case style == "long", style == "mixed" && i%3 == 0:
					h = longHostName(i, hl)
				case style == "iface" && len(ifaceWithV4) > 0 && i%4 == 1:
					h = ifaceWithV4[(i/4)%len(ifaceWithV4)]
				}
				if i%2 == 1 {
					h += ":" + goodPorts[i%len(goodPorts)]
				}
				return h
			})
		case "headers":
			n := rapid.SampledFrom(poolUpTo(lim.MaxCount)).Draw(t, "scale-headers")
			vl := rapid.SampledFrom([]int{1, 1, 8, 64, 129}).Draw(t, "scale-header-vlen")
			n = fit(n, 4+2*(12+vl+1), budget)
			c.HTTP.Headers = withOriginals(c.HTTP.Headers, n, func(i int) string {
				return fmt.Sprintf("X-B%d: %s", i, strings.Repeat("v", vl))
			})
		case "uris":
			n := rapid.SampledFrom(poolUpTo(lim.MaxCount)).Draw(t, "scale-uris")
			vl := rapid.SampledFrom([]int{1, 1, 8, 64, 129}).Draw(t, "scale-uri-vlen")
			n = fit(n, 4+2*(8+vl+1), budget)
			c.HTTP.Uris = withOriginals(c.HTTP.Uris, n, func(i int) string {
				return fmt.Sprintf("/b/%d/%s", i, strings.Repeat("u", vl))
			})
		case "length":
			maxLen := lim.MaxLen
			if (budget-8)/2 < maxLen {
				maxLen = (budget - 8) / 2
			}
			pool := poolUpTo(maxLen)
			if len(pool) == 0 {
				return
			}
			n := rapid.SampledFrom(pool).Draw(t, "scale-len")
			f := rapid.SampledFrom(fillers).Draw(t, "scale-filler")
			padField(t, c, n, f, true)
		case "total":
			var bounds []int
			for _, b := range []int{4096, 8192, 16384, 65536} {
				if b+64 <= lim.MaxTotal && b+64 > modelSize(*c) {
					bounds = append(bounds, b)
				}
			}
			if len(bounds) == 0 {
				return
			}
			b := rapid.SampledFrom(bounds).Draw(t, "scale-boundary")
			// the block always has an even size; -64..+64 around the boundary, dense near it
			d := rapid.OneOf(rapid.IntRange(-6, 6), rapid.IntRange(-32, 32)).Draw(t, "scale-delta") * 2
			if b+d <= modelSize(*c) {
				return
			}
			f := rapid.SampledFrom(fillers).Draw(t, "scale-filler")
			padField(t, c, b+d, f, false)
		}
	}
}

// padField makes one string field n code units long (exact == true), or as much longer as
// the whole block needs to be n bytes (exact == false).  Host names take at most 253
// characters, so a larger amount goes to another field.
func padField(t *rapid.T, c *CaseA, n int, filler string, exact bool) {
	fields := []string{"spawn64", "spawn32", "pipe"}
	if !c.SMB {
		fields = []string{"spawn64", "spawn32", "useragent", "useragent", "header", "header", "uri", "uri", "hostheader"}
		if c.HTTP.ProxyEnabled {
			fields = append(fields, "proxy-host", "proxy-user", "proxy-pass")
		}
		if exact && n <= 253 {
			fields = append(fields, "host", "host", "host")
		}
	}
	f := rapid.SampledFrom(fields).Draw(t, "scale-field")
	grow := func(s string) string {
		if exact {
			return padUnits(s, n, filler)
		}
		// (the field exists by now: the block grows by two bytes a code unit)
		need := (n - modelSize(*c)) / 2
		if need <= 0 {
			return s
		}
		return padUnits(s, u16len(s)+need, filler)
	}
	l := &c.HTTP
	switch f {
	case "spawn64":
		c.Opts.Spawn64 = grow(c.Opts.Spawn64)
	case "spawn32":
		c.Opts.Spawn32 = grow(c.Opts.Spawn32)
	case "pipe":
		c.Pipe.PipeName = grow(c.Pipe.PipeName)
	case "useragent":
		l.UserAgent = grow(l.UserAgent)
	case "header":
		if len(l.Headers) == 0 {
			l.Headers = []string{"X-Pad: p"}
		}
		i := rapid.IntRange(0, len(l.Headers)-1).Draw(t, "scale-which")
		l.Headers[i] = grow(l.Headers[i])
	case "uri":
		if len(l.Uris) == 0 {
			l.Uris = []string{"/pad"}
		}
		i := rapid.IntRange(0, len(l.Uris)-1).Draw(t, "scale-which")
		l.Uris[i] = grow(l.Uris[i])
	case "hostheader":
		// (with no header configured the builder sends its default header and the host header)
		if l.HostHeader == "" {
			l.HostHeader = "pad.example"
		}
		filler = "a"
		l.HostHeader = grow(l.HostHeader)
	case "proxy-host":
		l.ProxyHost = grow(l.ProxyHost)
	case "proxy-user":
		l.ProxyUser = grow(l.ProxyUser)
	case "proxy-pass":
		l.ProxyPass = grow(l.ProxyPass)
	case "host":
		i := rapid.IntRange(0, len(l.Hosts)-1).Draw(t, "scale-which")
		port := ""
		if j := strings.Index(l.Hosts[i], ":"); j >= 0 {
			port = l.Hosts[i][j:]
		}
		l.Hosts[i] = longHostName(i, n) + port
	}
}

// ---- labels

func scaleBucket(v int) string {
	switch {
	case v < 63:
		return ""
	case v < 192:
		return "64-129"
	case v < 768:
		return "255-513"
	case v < 1536:
		return "999-1025"
	case v < 6144:
		return "2047-4097"
	}
	return "8191+"
}

// scaleLabels: 'scale:<what>:<bucket>' for every count / length / total of c that reaches
// the pool, from the case's content.
func scaleLabels(c CaseA) []string {
	var out []string
	add := func(what string, v int) {
		if b := scaleBucket(v); b != "" {
			out = append(out, "scale:"+what+":"+b)
		}
	}
	maxLen := func(xs []string) int {
		m := 0
		for _, x := range xs {
			if n := u16len(x); n > m {
				m = n
			}
		}
		return m
	}
	add("len-spawn", maxLen([]string{c.Opts.Spawn64, c.Opts.Spawn32}))
	if c.SMB {
		add("len-pipe", u16len(c.Pipe.PipeName))
	} else {
		l := c.HTTP
		add("hosts", len(l.Hosts))
		add("headers", len(l.Headers))
		add("uris", len(l.Uris))
		var names []string
		for _, h := range l.Hosts {
			if i := strings.Index(h, ":"); i >= 0 {
				h = h[:i]
			}
			names = append(names, h)
		}
		add("len-host", maxLen(names))
		add("len-header", maxLen(append([]string{l.HostHeader}, l.Headers...)))
		add("len-uri", maxLen(l.Uris))
		if n := u16len(l.UserAgent); n > 120 { // (the pool's browser string has 113 characters)
			add("len-useragent", n)
		}
		if l.ProxyEnabled {
			add("len-proxy", maxLen([]string{l.ProxyHost, l.ProxyUser, l.ProxyPass}))
		}
	}
	if sz := modelSize(c); sz >= 4096-64 {
		// the block's size: 4032.. counts as "2047-4097" up to 6143, then "8191+"
		add("config-bytes", sz)
		for _, b := range []int{4096, 8192, 16384, 65536} {
			if sz >= b-64 && sz <= b+64 {
				out = append(out, fmt.Sprintf("scale:config-bytes:at-%d", b))
			}
		}
	}
	return uniqS(out)
}

func scaleLabelsOf(cs ...CaseA) []string {
	var out []string
	for _, c := range cs {
		out = append(out, scaleLabels(c)...)
	}
	return uniqS(out)
}

package c13

// C13(w): common.ParseWorkingHours over its whole accepted grammar.
// accepted => the packed word, unpacked the way the Demon's InWorkingHours() does
// (src/core/Command.c:3273-3279), gives the same four numbers with the enabled bit;
// anything outside the documented "8:00-17:00" shape, not a clock time, or inverted => error.

import (
	"fmt"
	"strings"
	"testing"

	"Havoc/pkg/common"

	"pgregory.net/rapid"

	"verifharness/internal/core"
)

type CaseW struct {
	S    string `json:"s"`
	Kind string `json:"kind"` // generator class (label)
}

var hoursAlphabet = []rune("0123456789:-0123456789:- .\n\tapm–")

func genW(t *rapid.T) CaseW {
	num := func(l string, max int) int {
		return rapid.OneOf(rapid.SampledFrom([]int{0, 1, 9, 10, 12, max - 1, max}), rapid.IntRange(0, max)).Draw(t, l)
	}
	switch rapid.IntRange(0, 9).Draw(t, "kind") {
	case 0, 1, 2: // well-formed, any order of start and end, real clock values
		sh, sm, eh, em := num("sh", 23), num("sm", 59), num("eh", 23), num("em", 59)
		f := "%d:%02d-%d:%02d"
		switch rapid.IntRange(0, 3).Draw(t, "pad") {
		case 0:
			f = "%02d:%02d-%02d:%02d"
		case 1:
			f = "%02d:%02d-%d:%02d"
		}
		return CaseW{fmt.Sprintf(f, sh, sm, eh, em), "well-formed"}
	case 3: // numbers beyond the clock
		sh, sm, eh, em := num("sh", 29), num("sm", 69), num("eh", 29), num("em", 69)
		return CaseW{fmt.Sprintf("%d:%02d-%d:%02d", sh, sm, eh, em), "beyond-clock"}
	case 4:
		return CaseW{rapid.SampledFrom(goodHours).Draw(t, "good"), "pool-good"}
	case 5:
		return CaseW{rapid.SampledFrom(greyHours).Draw(t, "grey"), "pool-grey"}
	case 6, 7:
		return CaseW{rapid.SampledFrom(badHours).Draw(t, "bad"), "pool-bad"}
	case 8: // a well-formed string with one edit
		s := []rune(fmt.Sprintf("%d:%02d-%d:%02d", num("sh", 23), num("sm", 59), num("eh", 23), num("em", 59)))
		i := rapid.IntRange(0, len(s)).Draw(t, "pos")
		r := rapid.SampledFrom(hoursAlphabet).Draw(t, "rune")
		switch rapid.IntRange(0, 2).Draw(t, "edit") {
		case 0: // insert
			s = append(s[:i:i], append([]rune{r}, s[i:]...)...)
		case 1: // delete
			if i < len(s) {
				s = append(s[:i:i], s[i+1:]...)
			}
		default: // replace
			if i < len(s) {
				s[i] = r
			}
		}
		return CaseW{string(s), "edited"}
	}
	return CaseW{string(rapid.SliceOfN(rapid.SampledFrom(hoursAlphabet), 0, 14).Draw(t, "noise")), "noise"}
}

func checkW(c CaseW) *core.Violation {
	v := judgeHours(c.S)
	word, err := common.ParseWorkingHours(c.S)
	got := unpackHours(uint32(word))
	switch {
	case v.Empty:
		if err != nil {
			return core.V("hours|empty-rejected", "ParseWorkingHours(\"\") = error %v; no working hours is a valid setting", err)
		}
		if got.Enabled {
			return core.V("hours|empty-enabled", "ParseWorkingHours(\"\") = %#x: enabled bit set", word)
		}
		return nil
	case v.MustReject:
		if err == nil {
			return core.V("hours|accepted|"+v.Why, "ParseWorkingHours(%q) = %#x (%+v), expected an error (%s)", c.S, word, got, v.Why)
		}
		return nil
	case v.MustAccept && err != nil:
		return core.V("hours|rejected-valid", "ParseWorkingHours(%q) = error %v; it is a window of clock times with start before end", c.S, err)
	}
	if err != nil {
		return nil // grey zone, rejected
	}
	if uint32(word)&^0x7fffff != 0 {
		return core.V("hours|stray-bits", "ParseWorkingHours(%q) = %#x has bits above the 23 the Demon reads", c.S, word)
	}
	if got != v.H {
		return core.V("hours|round-trip", "ParseWorkingHours(%q) = %#x, which the Demon unpacks to %+v instead of %+v", c.S, word, got, v.H)
	}
	return nil
}

func classifyW(c CaseW) core.Class {
	v := judgeHours(c.S)
	k := "grey:" + v.Why
	switch {
	case v.Empty:
		k = "empty"
	case v.MustAccept:
		k = "valid"
	case v.MustReject:
		k = "invalid:" + v.Why
	}
	pad := strings.HasPrefix(c.S, "0") && len(c.S) > 1 && c.S[1] != ':'
	b := ""
	if v.MustAccept {
		b = fmt.Sprintf("|sh=%d|eh=%d|sm0=%v|em59=%v", v.H.StartH/6, v.H.EndH/6, v.H.StartM == 0, v.H.EndM == 59)
	}
	return core.Class{NonTrivial: !v.Empty, Fingerprint: fmt.Sprintf("%s|%s|pad=%v%s", k, c.Kind, pad, b), Labels: []string{"verdict:" + k, "gen:" + c.Kind}}
}

func TestC13w(t *testing.T) {
	core.Run(t, core.Spec[CaseW]{
		Property: "C13", Sub: "w",
		Rule: "working-hours strings: well-formed H:MM-H:MM / HH:MM-HH:MM with boundary and random clock values in any order, numbers beyond the clock (hours to 29, minutes to 69), a pool of documented-good, grey and malformed strings (missing parts, blanks, trailing newline, wrong separators, full-width digits, extra groups), single-character edits of well-formed strings, noise. Oracle: \"\" => 0 with the enabled bit clear; a window of real clock times with start < end => accepted and the word unpacks per InWorkingHours() to the same four numbers with the enabled bit and nothing above bit 22; wrong shape, hour > 24 / minute > 60, or end before start => error; 24:xx, x:60 and start == end => either, but round-trip when accepted. Non-trivial: any non-empty string; distinct = (verdict, generator class, padding, hour buckets)",
		Gen:  genW, Check: checkW, Classify: classifyW,
		Assumptions: []string{"the accepted grammar is the documented form '8:00-17:00' (one or two hour digits, two minute digits)"},
	})
}

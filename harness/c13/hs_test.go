package c13

// C13(h), second half: histories THROUGH THE REAL TEAMSERVER.
//
// A case of this kind builds a real server.Teamserver (tsx.NewTS: private sqlite file,
// no Start()), connects one operator over a real websocket, and then runs a history of
// listener add / edit / remove and payload build requests.  Every build request is the
// operator's Gate/Stageless package, JSON-encoded, decoded with Packager.CreatePackage,
// recorded with EventAppend and handed to Teamserver.DispatchEvent — what handleRequest
// (cmd/server/teamserver.go) does after authentication.  The handler in
// cmd/server/dispatch.go resolves the listener by NAME among t.Listeners, builds with the
// compilers of t.Settings (stub scripts that store their command line in the -o file)
// and sends the payload to the requesting operator's socket.  What is judged is the
// payload that arrives there.
//
// Listener names of one history come from one GROUP of related strings (names_h_test.go):
// a base name and relatives of it that a loosely comparing lookup would confuse — other
// letter case, Unicode simple-fold partners (s/ſ, k/K), leading/trailing blanks, NFC vs
// NFD spelling, prefix / suffix / extension — given to listeners of different types
// (HTTP, SMB, External).  HEAD compares names exactly everywhere (ListenerStart,
// ListenerExist, ListenerEdit, ListenerRemove, the Gate handler), so two names that
// differ as strings are two listeners; that is all the model knows about names.

import (
	"bytes"
	"encoding/base64"
	"encoding/json"
	"fmt"
	"net/http"
	"net/http/httptest"
	"os"
	"path/filepath"
	"reflect"
	"runtime"
	"sort"
	"strings"
	"sync"
	"time"

	"Havoc/cmd/server"
	"Havoc/pkg/common/builder"
	"Havoc/pkg/handlers"
	"Havoc/pkg/packager"

	"github.com/gin-gonic/gin"
	"github.com/gorilla/websocket"
	"pgregory.net/rapid"

	"verifharness/internal/core"
	"verifharness/internal/tsx"
)

func init() { gin.SetMode(gin.ReleaseMode) }

// ---------------------------------------------------------------------------- case

// NamedL is one listener as the operator (or the profile) configures it.
type NamedL struct {
	Name     string `json:"name"`
	Kind     string `json:"kind"` // http smb ext
	HTTP     HTTPL  `json:"http"`
	Pipe     SMBL   `json:"pipe"`
	Endpoint string `json:"endpoint,omitempty"`
}

// OpS is one step of a history through the teamserver.
type OpS struct {
	K      string  `json:"k"`                // add edit remove build
	L      *NamedL `json:"l,omitempty"`      // add
	Name   string  `json:"name,omitempty"`   // edit / remove / build: the name the operator's package carries
	Edit   *EditL  `json:"edit,omitempty"`   // edit: the dialog's form (see h_test.go)
	Opts   *Opts   `json:"opts,omitempty"`   // build
	Arch   string  `json:"arch,omitempty"`   // build: "x64" "x86"
	Format string  `json:"format,omitempty"` // build: the payload dialog's text
	// build: the compilers behave like this for the duration of the request (f_test.go);
	// only for a request that names an existing HTTP / SMB listener
	Fault *StubFault `json:"fault,omitempty"`
}

type SrvH struct {
	Base string `json:"base"`
	Ops  []OpS  `json:"ops"`
}

var dialogFormats = []string{"Windows Exe", "Windows Service Exe", "Windows Dll", "Windows Reflective Dll", "Windows Shellcode"}

// ---------------------------------------------------------------------------- model (HEAD's rules)

type srvModel struct{ ls []NamedL }

func (m *srvModel) find(name string) int {
	for i := range m.ls {
		if m.ls[i].Name == name {
			return i
		}
	}
	return -1
}

// accepts: ListenerStart refuses a name that is taken (by a listener of any type) and an
// External endpoint that is served already.
func (m *srvModel) accepts(l NamedL) bool {
	if m.find(l.Name) >= 0 {
		return false
	}
	if l.Kind == "ext" {
		for _, o := range m.ls {
			if o.Kind == "ext" && o.Endpoint == l.Endpoint {
				return false
			}
		}
	}
	return true
}

func (m *srvModel) remove(name string) {
	if i := m.find(name); i >= 0 {
		m.ls = append(m.ls[:i:i], m.ls[i+1:]...)
	}
}

// ---------------------------------------------------------------------------- generator

func genNamedL(t *rapid.T, name, kind string, n int) NamedL {
	a := genCaseA(t, false)
	l := NamedL{Name: name, Kind: kind, HTTP: a.HTTP, Pipe: a.Pipe}
	if kind == "ext" {
		l.Endpoint = rapid.SampledFrom([]string{fmt.Sprintf("ep%d", n), fmt.Sprintf("ep%d", n), "c2"}).Draw(t, "endpoint")
	}
	return l
}

func genBuildOp(t *rapid.T, name string) OpS {
	o := genOpts(t)
	f := "Windows Exe"
	if rapid.IntRange(0, 9).Draw(t, "format?") >= 6 {
		f = rapid.SampledFrom(dialogFormats).Draw(t, "dialog-format")
	}
	return OpS{K: "build", Name: name, Opts: &o, Arch: rapid.SampledFrom([]string{"x64", "x64", "x86"}).Draw(t, "dialog-arch"), Format: f}
}

func genSrvH(t *rapid.T) *SrvH {
	base, pool := genNameGroupH(t)
	s := &SrvH{Base: base}
	var m srvModel
	nadds := 0
	add := func(first bool) {
		// mostly a name of the group that is still free; sometimes one that is taken
		name := rapid.SampledFrom(pool).Draw(t, "lname")
		if rapid.IntRange(0, 7).Draw(t, "taken-name?") > 0 {
			for i := 0; i < 4 && m.find(name) >= 0; i++ {
				name = rapid.SampledFrom(pool).Draw(t, "lname")
			}
		}
		kind := "http"
		if !first {
			kind = rapid.SampledFrom([]string{"http", "http", "http", "http", "smb", "smb", "ext"}).Draw(t, "lkind")
		}
		l := genNamedL(t, name, kind, nadds)
		nadds++
		s.Ops = append(s.Ops, OpS{K: "add", L: &l})
		if m.accepts(l) {
			m.ls = append(m.ls, l)
		}
	}
	buildAllNewestFirst := func(max int) {
		for i := len(m.ls) - 1; i >= 0 && max > 0; i-- {
			s.Ops = append(s.Ops, genBuildOp(t, m.ls[i].Name))
			max--
		}
	}
	unknownName := func() string {
		for _, n := range pool {
			if m.find(n) < 0 {
				return n
			}
		}
		for _, v := range variantsOfH(base) {
			if m.find(v) < 0 {
				return v
			}
		}
		return base + "-none"
	}

	n0 := rapid.SampledFrom([]int{2, 2, 3}).Draw(t, "initial-listeners")
	for i := 0; i < n0; i++ {
		add(i == 0)
	}
	buildAllNewestFirst(4)

	rounds := rapid.SampledFrom([]int{0, 0, 1, 1, 2}).Draw(t, "rounds")
	for r := 0; r < rounds; r++ {
		switch act := rapid.SampledFrom([]string{"edit", "edit", "edit", "add", "add", "remove", "unknown"}).Draw(t, "round"); act {
		case "edit":
			var https []int
			for i, l := range m.ls {
				if l.Kind == "http" {
					https = append(https, i)
				}
			}
			if len(https) == 0 {
				continue
			}
			i := https[rapid.IntRange(0, len(https)-1).Draw(t, "edit-which")]
			e := genEditL(t, m.ls[i].HTTP)
			m.ls[i].HTTP = applyEditL(m.ls[i].HTTP, e)
			s.Ops = append(s.Ops, OpS{K: "edit", Name: m.ls[i].Name, Edit: &e})
			// the relatives first (newest first), then the edited one
			left := 2
			for j := len(m.ls) - 1; j >= 0 && left > 1; j-- {
				if j != i {
					s.Ops = append(s.Ops, genBuildOp(t, m.ls[j].Name))
					left--
				}
			}
			s.Ops = append(s.Ops, genBuildOp(t, m.ls[i].Name))
		case "add":
			add(false)
			buildAllNewestFirst(2)
		case "remove":
			var cheap []int // removing a HTTP listener runs HTTP.Stop(), which always waits 5 s
			for i, l := range m.ls {
				if l.Kind != "http" {
					cheap = append(cheap, i)
				}
			}
			if len(cheap) == 0 {
				continue
			}
			i := cheap[rapid.IntRange(0, len(cheap)-1).Draw(t, "remove-which")]
			name := m.ls[i].Name
			s.Ops = append(s.Ops, OpS{K: "remove", Name: name})
			m.remove(name)
			s.Ops = append(s.Ops, genBuildOp(t, name))
			buildAllNewestFirst(1)
		case "unknown":
			s.Ops = append(s.Ops, genBuildOp(t, unknownName()))
		}
	}
	// FAULT: in 4 histories of 10 the compiler of ONE request for an existing HTTP / SMB
	// listener misbehaves (end kind x output state uniformly); the requests after it run
	// with the ordinary compiler again
	if el := faultEligible(s); len(el) > 0 && rapid.IntRange(0, 9).Draw(t, "fault?") < 4 {
		i := el[rapid.IntRange(0, len(el)-1).Draw(t, "fault-at")]
		f := StubFault{Tool: "cc", Out: rapid.SampledFrom(faultOuts).Draw(t, "fault-out")}
		switch rapid.IntRange(0, 2).Draw(t, "fault-end-kind") {
		case 0:
			f.End = "exit:0"
			if f.Out == "complete" {
				f.SlowMs = rapid.SampledFrom([]int{100, 200, 300}).Draw(t, "fault-slow-ms")
				f.NoiseKB = rapid.SampledFrom([]int{0, 64, 1024}).Draw(t, "fault-noise-kb")
			}
		case 1:
			f.End = rapid.SampledFrom(faultExits).Draw(t, "fault-exit")
		default:
			f.End = rapid.SampledFrom(faultSignals).Draw(t, "fault-signal")
		}
		s.Ops[i].Fault = &f
	}
	return s
}

// faultEligible: the build requests that name a HTTP / SMB listener existing at that moment.
func faultEligible(s *SrvH) []int {
	var m srvModel
	var out []int
	for i, op := range s.Ops {
		switch op.K {
		case "add":
			if op.L != nil && m.accepts(*op.L) {
				m.ls = append(m.ls, *op.L)
			}
		case "remove":
			m.remove(op.Name)
		case "build":
			if j := m.find(op.Name); j >= 0 && m.ls[j].Kind != "ext" {
				out = append(out, i)
			}
		}
	}
	return out
}

// setCompilers installs the compilers' behaviour (nil: the ordinary echo compiler).
func (fx *srvFx) setCompilers(f *StubFault) {
	for _, tool := range []string{"cc64", "cc86"} {
		if f == nil {
			writeStub(filepath.Join(fx.dir, tool), fmt.Sprintf(ccEchoScript, fx.logPath))
		} else {
			writeStub(filepath.Join(fx.dir, tool), stubText(f, fx.logPath, "outpath"))
		}
	}
}

// ---------------------------------------------------------------------------- fixture

// ccEchoScript is the compiler of these histories: it notes its -o path in a log (for
// the clean-up) and stores its command line, NUL-separated, in the -o file.  That file is
// what the operator receives.  (Operand checking and the full argv log are sub-check b's;
// here every build costs three processes, the assembler being the shell's `true`.)
const ccEchoScript = `#!/bin/sh
out=""; prev=""
for a in "$@"; do
  [ "$prev" = "-o" ] && out="$a"
  prev="$a"
done
[ -n "$out" ] || exit 1
printf '%%s\n' "$out" >> '%[1]s'
printf '%%s\0' "$@" > "$out" || exit 1
exit 0
`

func scratchBaseH() string {
	if b := os.Getenv("VERIF_SCRATCH"); b != "" {
		return b
	}
	if st, err := os.Stat("/dev/shm"); err == nil && st.IsDir() {
		if probe, err := os.MkdirTemp("/dev/shm", "verif-probe-"); err == nil {
			os.Remove(probe)
			return "/dev/shm"
		}
	}
	return procRoot
}

type srvFx struct {
	dir      string
	logPath  string
	ts       *server.Teamserver
	srv      *httptest.Server
	peer     *websocket.Conn
	conn     *websocket.Conn
	clientID string

	mu     sync.Mutex
	inbox  []packager.Package
	notify chan struct{}
	done   chan struct{}
	seq    int
}

func newSrvFx() *srvFx {
	dir, err := os.MkdirTemp(scratchBaseH(), fmt.Sprintf("verif-c13h-%d-", os.Getpid()))
	if err != nil {
		panic(err)
	}
	fx := &srvFx{dir: dir, logPath: filepath.Join(dir, "argv.log"), clientID: "c13-client", notify: make(chan struct{}, 1), done: make(chan struct{})}
	for _, tool := range []string{"cc64", "cc86"} {
		if err := os.WriteFile(filepath.Join(dir, tool), []byte(fmt.Sprintf(ccEchoScript, fx.logPath)), 0o755); err != nil {
			panic(err)
		}
	}
	ts, err := tsx.NewTS(dir, nil)
	if err != nil {
		os.RemoveAll(dir)
		panic(err)
	}
	ts.Server.Engine = gin.New()
	ts.Settings.Compiler64 = filepath.Join(dir, "cc64")
	ts.Settings.Compiler32 = filepath.Join(dir, "cc86")
	ts.Settings.Nasm = "true"
	fx.ts = ts

	// one operator on a real websocket (SendEvent writes to client.Connection)
	accepted := make(chan *websocket.Conn, 1)
	up := websocket.Upgrader{}
	fx.srv = httptest.NewServer(http.HandlerFunc(func(w http.ResponseWriter, r *http.Request) {
		if c, err := up.Upgrade(w, r, nil); err == nil {
			accepted <- c
		}
	}))
	peer, _, err := websocket.DefaultDialer.Dial("ws"+strings.TrimPrefix(fx.srv.URL, "http"), nil)
	if err != nil {
		fx.srv.Close()
		tsx.CloseTS(ts)
		os.RemoveAll(dir)
		panic(err)
	}
	fx.peer = peer
	fx.conn = <-accepted
	go func() {
		defer close(fx.done)
		for {
			_, raw, err := peer.ReadMessage()
			if err != nil {
				return
			}
			var pk packager.Package
			if json.Unmarshal(raw, &pk) != nil {
				continue
			}
			fx.mu.Lock()
			fx.inbox = append(fx.inbox, pk)
			fx.mu.Unlock()
			select {
			case fx.notify <- struct{}{}:
			default:
			}
		}
	}()
	ts.Clients.Store(fx.clientID, &server.Client{ClientID: fx.clientID, Username: "op", Connection: fx.conn, Authenticated: true})
	return fx
}

func (fx *srvFx) close() {
	fx.peer.Close()
	fx.conn.Close()
	<-fx.done
	fx.srv.Close()
	tsx.CloseTS(fx.ts)
	os.RemoveAll(fx.dir)
}

// operator sends a package the way the client does and the server takes it the way
// handleRequest does: JSON -> CreatePackage -> EventAppend -> DispatchEvent.
func (fx *srvFx) operator(event, sub int, info map[string]any) {
	var out packager.Package
	out.Head.Event = event
	out.Head.User = "op"
	out.Head.Time = "01/01/2026 00:00:00"
	out.Body.SubEvent = sub
	out.Body.Info = info
	raw, err := json.Marshal(out)
	if err != nil {
		panic(err)
	}
	pk := packager.NewPackager().CreatePackage(string(raw))
	pk.Head.Time = "01/01/2026 00:00:00"
	fx.ts.EventAppend(pk)
	fx.ts.DispatchEvent(pk)
}

// buildRunning: some goroutine runs a closure of DispatchEvent (the Gate handler builds in
// `go func() {...}()`).  Cases run one after the other, so one buffer serves all.
var stackBuf = make([]byte, 1<<17)

func buildRunning() bool {
	for {
		m := runtime.Stack(stackBuf, true)
		if m < len(stackBuf) {
			return bytes.Contains(stackBuf[:m], []byte("(*Teamserver).DispatchEvent.func"))
		}
		stackBuf = make([]byte, 2*len(stackBuf))
	}
}

// terminalSeen: a payload or an Error message is in the inbox (the build goroutine ends
// right after either; a build that ends without any message is noticed by polling).
func (fx *srvFx) terminalSeen() bool {
	fx.mu.Lock()
	defer fx.mu.Unlock()
	for _, p := range fx.inbox {
		if _, ok := p.Body.Info["PayloadArray"]; ok {
			return true
		}
		if mt, _ := p.Body.Info["MessageType"].(string); mt == "Error" {
			return true
		}
	}
	return false
}

// drain waits until the build goroutine has ended, then sends a marker through the same
// socket and returns everything that arrived before it.  The goroutine counts as ended
// when it is gone after a payload or an Error message arrived (every way through the
// handler on HEAD ends with one of the two), or when it has been gone for silentEnd
// without either.  ok=false: still running after the bound (not judged: termination is
// not this property).
const silentEnd = 80 * time.Millisecond

func (fx *srvFx) drain() (msgs []packager.Package, ok bool) {
	deadline := time.Now().Add(90 * time.Second)
	tick := time.NewTimer(3 * time.Millisecond)
	defer tick.Stop()
	var goneSince time.Time
	for {
		select {
		case <-fx.notify:
		case <-tick.C:
			tick.Reset(3 * time.Millisecond)
		}
		if time.Now().After(deadline) {
			return nil, false
		}
		if fx.terminalSeen() {
			for buildRunning() {
				if time.Now().After(deadline) {
					return nil, false
				}
				time.Sleep(100 * time.Microsecond)
			}
			break
		}
		if buildRunning() {
			goneSince = time.Time{}
			continue
		}
		if goneSince.IsZero() {
			goneSince = time.Now()
		} else if time.Since(goneSince) >= silentEnd {
			break
		}
	}
	return fx.upToMarker(deadline)
}

// upToMarker sends a marker to the operator's socket and returns what arrived before it.
func (fx *srvFx) upToMarker(deadline time.Time) (msgs []packager.Package, ok bool) {
	fx.seq++
	marker := fmt.Sprintf("c13-marker-%d", fx.seq)
	var pk packager.Package
	pk.Head.Event = packager.Type.Gate.Type
	pk.Body.SubEvent = packager.Type.Gate.Stageless
	pk.Body.Info = map[string]any{"MessageType": "Marker", "Message": marker}
	if err := fx.ts.SendEvent(fx.clientID, pk); err != nil {
		return nil, false
	}
	for {
		fx.mu.Lock()
		for i, p := range fx.inbox {
			if s, _ := p.Body.Info["Message"].(string); s == marker {
				msgs = append([]packager.Package(nil), fx.inbox[:i]...)
				fx.inbox = append([]packager.Package(nil), fx.inbox[i+1:]...)
				fx.mu.Unlock()
				return msgs, true
			}
		}
		fx.mu.Unlock()
		if time.Now().After(deadline) {
			return nil, false
		}
		select {
		case <-fx.notify:
		case <-time.After(time.Millisecond):
		}
	}
}

// ---- listeners

func httpConfigOf(l NamedL) handlers.HTTPConfig {
	c := httpListener(l.HTTP).Config
	c.Name = l.Name
	return c
}

// startListener brings l up.  SMB and External listeners go through the real
// Teamserver.ListenerStart.  A HTTP listener is registered with ListenerStart's own
// bookkeeping but without HTTP.Start()'s socket (it would bind PortBind on this host and
// generate a certificate): refusal of a taken name by the real ListenerExist,
// NewConfigHttp + Config + Teamserver, the announcement Start() makes (ListenerAdd incl.
// the database row, EventAppend, EventBroadcast), append to t.Listeners.
func (fx *srvFx) startListener(l NamedL) {
	ts := fx.ts
	switch l.Kind {
	case "smb":
		ts.ListenerStart(handlers.LISTENER_PIVOT_SMB, handlers.SMBConfig{Name: l.Name, PipeName: l.Pipe.PipeName, KillDate: l.Pipe.KillDate, WorkingHours: l.Pipe.WorkingHours})
	case "ext":
		ts.ListenerStart(handlers.LISTENER_EXTERNAL, handlers.ExternalConfig{Name: l.Name, Endpoint: l.Endpoint})
	case "http":
		if ts.ListenerExist(l.Name) {
			return
		}
		h := handlers.NewConfigHttp()
		h.Config = httpConfigOf(l)
		h.Teamserver = ts
		h.Active = true
		pk := ts.ListenerAdd("", handlers.LISTENER_HTTP, h)
		ts.EventAppend(pk)
		ts.EventBroadcast("", pk)
		ts.Listeners = append(ts.Listeners, &server.Listener{Name: l.Name, Type: handlers.LISTENER_HTTP, Config: h})
	}
}

func kindOfType(t int) string {
	switch t {
	case handlers.LISTENER_HTTP:
		return "http"
	case handlers.LISTENER_PIVOT_SMB:
		return "smb"
	case handlers.LISTENER_EXTERNAL:
		return "ext"
	}
	return fmt.Sprintf("type-%d", t)
}

// serverHas: how many listeners of exactly that name the server runs, and the kind of the first.
func (fx *srvFx) serverHas(name string) (int, string) {
	n, k := 0, ""
	for _, l := range fx.ts.Listeners {
		if l.Name == name {
			if n == 0 {
				k = kindOfType(l.Type)
			}
			n++
		}
	}
	return n, k
}

// editInfo is the edit dialog's whole form for l (client: Listener.cc; the lists joined with ", ").
func editInfo(l NamedL) map[string]any {
	h := l.HTTP
	info := map[string]any{
		"Protocol": handlers.AGENT_HTTP, "Name": l.Name, "HostBind": "0.0.0.0", "PortBind": h.PortBind, "PortConn": h.PortConn,
		"Hosts": strings.Join(h.Hosts, ", "), "Headers": strings.Join(h.Headers, ", "), "Uris": strings.Join(h.Uris, ", "),
		"HostRotation": h.HostRotation, "HostHeader": h.HostHeader, "UserAgent": h.UserAgent,
		"Secure": fmt.Sprint(h.Secure), "Proxy Enabled": "false",
	}
	if h.ProxyEnabled {
		info["Proxy Enabled"] = "true"
		info["Proxy Type"], info["Proxy Host"], info["Proxy Port"] = h.ProxyType, h.ProxyHost, h.ProxyPort
		info["Proxy Username"], info["Proxy Password"] = h.ProxyUser, h.ProxyPass
	}
	return info
}

// listSafe: the dialog's lists travel ", "-joined; an element containing that separator
// or an empty element does not survive the trip (hand-written replays only).
func listSafe(xs []string) bool {
	for _, x := range xs {
		if x == "" || strings.Contains(x, ", ") {
			return false
		}
	}
	return true
}

// ---- the delivered payload

type delivered struct {
	Args      []string // the compiler's command line as stored in the payload
	Blocks    [][]byte // every well-formed -DCONFIG_BYTES block in it
	Transport string   // concatenation of the -DTRANSPORT_x defines
}

func parseDelivered(p []byte) delivered {
	var d delivered
	for _, a := range bytes.Split(p, []byte{0}) {
		s := string(a)
		d.Args = append(d.Args, s)
		if raw, ok := parseConfigBytes(s); ok {
			d.Blocks = append(d.Blocks, raw)
		}
		if s == "-DTRANSPORT_HTTP" || s == "-DTRANSPORT_SMB" {
			d.Transport += s
		}
	}
	return d
}

func caseOf(l NamedL, o Opts) CaseA {
	return CaseA{Opts: o, SMB: l.Kind == "smb", HTTP: l.HTTP, Pipe: l.Pipe}
}

// configuredFor: the delivered payload is, field by field, a payload for l with options o.
func configuredFor(d delivered, l NamedL, o Opts) bool {
	if l.Kind == "ext" || len(d.Blocks) != 1 {
		return false
	}
	want := "-DTRANSPORT_HTTP"
	if l.Kind == "smb" {
		want = "-DTRANSPORT_SMB"
	}
	if d.Transport != want {
		return false
	}
	clean := true
	func() {
		defer func() {
			if recover() != nil {
				clean = false
			}
		}()
		verifyFields(caseOf(l, o), d.Blocks[0], func(*core.Violation) { clean = false })
	}()
	return clean
}

func archOf(s string) int {
	if s == "x64" {
		return builder.ARCHITECTURE_X64
	}
	return builder.ARCHITECTURE_X86
}

func formatOf(s string) (int, bool) {
	switch s {
	case "Windows Exe":
		return builder.FILETYPE_WINDOWS_EXE, true
	case "Windows Service Exe":
		return builder.FILETYPE_WINDOWS_SERVICE_EXE, true
	case "Windows Dll":
		return builder.FILETYPE_WINDOWS_DLL, true
	case "Windows Reflective Dll":
		return builder.FILETYPE_WINDOWS_REFLECTIVE_DLL, true
	case "Windows Shellcode":
		return builder.FILETYPE_WINDOWS_RAW_BINARY, true
	}
	return 0, false
}

// Compile directories of builds that ended before the compiler ran are not removed by
// HEAD, and nothing tells their names.  They are found as new, EMPTY /tmp/<10 hex>/
// directories.  Such a directory may just as well belong to a build of ANOTHER process
// that is about to write into it - a build creates its directory and fills it through
// child processes, which takes seconds on a loaded machine (a first version removed
// directories seen empty for 3 s and thereby, at load 100, the directory of a build in
// another shard: "stub: error: /tmp/<id>/<obj>.o: No such file or directory").  A directory
// is therefore removed only when this process has seen it empty for strayAge AND nothing
// has touched it for strayIdle; what is younger at the end of the process is left for a
// later run, which clears empty directories older than strayLitter when it starts.
const (
	strayAge    = 3 * time.Second
	strayIdle   = 30 * time.Second
	strayLitter = 2 * time.Minute
)

var (
	strayMu   sync.Mutex
	strayDirs = map[string]time.Time{}
)

func compileDirsNow() map[string]bool {
	out := map[string]bool{}
	ents, err := os.ReadDir("/tmp")
	if err != nil {
		return out
	}
	for _, e := range ents {
		if e.IsDir() && compileDirRe.MatchString("/tmp/"+e.Name()+"/") {
			out[e.Name()] = true
		}
	}
	return out
}

func noteStray(before map[string]bool) {
	for n := range compileDirsNow() {
		if before[n] {
			continue
		}
		if ents, err := os.ReadDir("/tmp/" + n); err == nil && len(ents) == 0 {
			strayMu.Lock()
			if _, ok := strayDirs["/tmp/"+n]; !ok {
				strayDirs["/tmp/"+n] = time.Now()
			}
			strayMu.Unlock()
		}
	}
	sweepStray()
}

func idleFor(d string, min time.Duration) bool {
	st, err := os.Stat(d)
	return err == nil && time.Since(st.ModTime()) >= min
}

// sweepStray removes the noted directories that are old and idle enough (os.Remove fails,
// as it must, on anything that is not an empty directory).
func sweepStray() {
	strayMu.Lock()
	defer strayMu.Unlock()
	for d, t0 := range strayDirs {
		if time.Since(t0) >= strayAge && idleFor(d, strayIdle) {
			os.Remove(d)
			delete(strayDirs, d)
		}
	}
}

// removeStrayDirs runs at the end of the process: one last sweep, no waiting.
func removeStrayDirs() {
	sweepStray()
	// builds of the other sub-checks that ended before their compiler ran leave empty directories too
	for n := range compileDirsNow() {
		if d := "/tmp/" + n; idleFor(d, strayIdle) {
			os.Remove(d)
		}
	}
}

// removeOldLitter runs at the start of the process: empty compile directories that nothing
// has touched for strayLitter are what earlier runs had to leave behind.
func removeOldLitter() {
	for n := range compileDirsNow() {
		if d := "/tmp/" + n; idleFor(d, strayLitter) {
			os.Remove(d)
		}
	}
}

// ---------------------------------------------------------------------------- check

func runSrv(s *SrvH, report func(*core.Violation)) {
	if s == nil || len(s.Ops) == 0 {
		return
	}
	fx := newSrvFx()
	defer fx.close()
	defer func() {
		// what builds whose payload was not taken left behind (the -o paths the stubs noted)
		dirs := map[string]bool{}
		var outs []string
		if b, err := os.ReadFile(fx.logPath); err == nil {
			for _, o := range strings.Split(strings.TrimSpace(string(b)), "\n") {
				if o != "" {
					outs = append(outs, o)
					dirs[filepath.Dir(o)+"/"] = true
				}
			}
		}
		cleanupBuildDirs(dirs, outs)
	}()

	var m srvModel
	builtFor := map[string]int{}
	editedSince := map[string]bool{}
	faulty := false
	for k, op := range s.Ops {
		if faulty {
			fx.setCompilers(nil) // the fault is lifted
			faulty = false
		}
		switch op.K {
		case "add":
			if op.L == nil {
				continue
			}
			l := *op.L
			before, _ := fx.serverHas(l.Name)
			fx.startListener(l)
			after, kind := fx.serverHas(l.Name)
			// the model follows what the server did (acceptance is C16's subject); a name the
			// server runs twice cannot be modelled
			if after > 1 {
				return
			}
			if before == 0 && after == 1 && kind == l.Kind {
				m.ls = append(m.ls, l)
			}
		case "remove":
			i := m.find(op.Name)
			if i < 0 || m.ls[i].Kind == "http" {
				continue
			}
			fx.operator(packager.Type.Listener.Type, packager.Type.Listener.Remove, map[string]any{"Name": op.Name})
			if n, _ := fx.serverHas(op.Name); n == 0 {
				m.remove(op.Name)
			}
		case "edit":
			i := m.find(op.Name)
			if i < 0 || m.ls[i].Kind != "http" || op.Edit == nil || !listSafe(op.Edit.Headers) || !listSafe(op.Edit.Uris) {
				continue
			}
			m.ls[i].HTTP = applyEditL(m.ls[i].HTTP, *op.Edit)
			fx.operator(packager.Type.Listener.Type, packager.Type.Listener.Edit, editInfo(m.ls[i]))
			editedSince[op.Name] = true
		case "build":
			if op.Opts == nil {
				continue
			}
			format, okf := formatOf(op.Format)
			if !okf || (op.Arch != "x64" && op.Arch != "x86") {
				continue
			}
			// HEAD ends a build for an External listener, and one whose configuration it does
			// not accept (e.g. the tolerated-either-way working hours of sub-check a), before the
			// compiler runs and leaves its (empty) directory behind
			var before map[string]bool
			if i := m.find(op.Name); i >= 0 {
				if e := expect(caseOf(m.ls[i], *op.Opts)); m.ls[i].Kind == "ext" || e.Grey || len(e.MustFail) > 0 {
					before = compileDirsNow()
				}
			}
			var fault *StubFault
			if i := m.find(op.Name); op.Fault != nil && validFault(op.Fault) && op.Fault.Tool == "cc" && i >= 0 && m.ls[i].Kind != "ext" {
				fault = op.Fault
				fx.setCompilers(fault)
				faulty = true
			}
			fx.operator(packager.Type.Gate.Type, packager.Type.Gate.Stageless, map[string]any{
				"AgentType": "Demon", "Listener": op.Name, "Arch": op.Arch, "Format": op.Format, "Config": configJSON(*op.Opts, nil),
			})
			msgs, ok := fx.drain()
			if !ok {
				fmt.Fprintf(os.Stderr, "C13(h): the build goroutine of step %d did not end within the bound; case not judged\n", k)
				return
			}
			var payloads [][]byte
			var console []consoleMsg
			collect := func(msgs []packager.Package) {
				for _, p := range msgs {
					if p.Head.Event != packager.Type.Gate.Type || p.Body.SubEvent != packager.Type.Gate.Stageless {
						continue
					}
					if pa, ok := p.Body.Info["PayloadArray"].(string); ok {
						raw, _ := base64.StdEncoding.DecodeString(pa)
						payloads = append(payloads, raw)
					} else if mt, ok := p.Body.Info["MessageType"].(string); ok {
						txt, _ := p.Body.Info["Message"].(string)
						console = append(console, consoleMsg{mt, txt})
					}
				}
			}
			collect(msgs)
			// "no payload for an existing listener" is only said after the socket has been quiet
			// for a while (a safety net against the harness's own view of the build goroutine)
			settle := func() bool {
				time.Sleep(250 * time.Millisecond)
				for dl := time.Now().Add(5 * time.Second); buildRunning() && time.Now().Before(dl); {
					time.Sleep(time.Millisecond)
				}
				late, ok := fx.upToMarker(time.Now().Add(30 * time.Second))
				if !ok {
					return false
				}
				n := len(payloads)
				collect(late)
				if len(payloads) > n {
					fmt.Fprintf(os.Stderr, "C13(h): step %d: the payload arrived after the build goroutine had been seen gone\n", k)
				}
				return true
			}
			if len(payloads) == 0 && before != nil {
				noteStray(before)
			}

			ti := m.find(op.Name)
			class := "unknown-name"
			if ti >= 0 {
				class = "existing-" + m.ls[ti].Kind + "-listener"
			}
			var others []string
			for _, o := range m.ls {
				if o.Name != op.Name {
					others = append(others, fmt.Sprintf("%q(%s)", o.Name, o.Kind))
				}
			}
			note := fmt.Sprintf(" [history step %d of %d through DispatchEvent: build %s %s requested for listener name %q (%s), %d earlier builds for that name, edited since: %v; other listeners at that moment: %s]",
				k, len(s.Ops), op.Arch, op.Format, op.Name, class, builtFor[op.Name], editedSince[op.Name], strings.Join(others, " "))
			if fault != nil {
				note = " [the compiler of this request: " + fault.String() + "]" + note
			}
			wrap := func(v *core.Violation) {
				v.Sig = "hist|dispatch|" + v.Sig
				if fault != nil {
					v.Sig += "|fault=" + fault.String()
				}
				v.Msg += note
				report(v)
			}
			// whose configuration a payload carries when it is not the requested listener's
			whose := func(d delivered) (string, string) {
				for j := len(m.ls) - 1; j >= 0; j-- {
					if j != ti && configuredFor(d, m.ls[j], *op.Opts) {
						return fmt.Sprintf("listener %q (%s)", m.ls[j].Name, m.ls[j].Kind), relationOf(op.Name, m.ls[j].Name)
					}
				}
				return "", ""
			}
			if len(payloads) > 1 {
				wrap(core.V("payloads-per-request", "%d payloads were sent for one request", len(payloads)))
			}

			switch {
			case ti >= 0 && m.ls[ti].Kind != "ext":
				tl := m.ls[ti]
				cm := caseOf(tl, *op.Opts)
				e := expect(cm)
				if len(e.MustFail) > 0 {
					break // hand-written replay with an unencodable setting: sub-checks a and b judge those
				}
				// a compiler that does not end with exit status 0 fails the build (HEAD: Run()
				// returns an error for a non-zero status and for a signal): nothing is sent.  One
				// that says 0 is believed; what it left at the -o path is sent if it is not empty.
				failed := fault != nil && !fault.childOK()
				believed := fault != nil && fault.childOK() && fault.Out != "complete"
				if len(payloads) == 0 && !e.Grey && !failed && !believed && !settle() {
					return
				}
				if len(payloads) > 0 && believed {
					break // not judged: the compiler's own lie
				}
				if len(payloads) == 0 {
					if !e.Grey && !failed && !believed {
						wrap(core.V("no-payload|"+class, "no payload reached the operator for an existing listener with an encodable configuration; console %v", tail(console, 4)))
					}
					break
				}
				d := parseDelivered(payloads[0])
				if !configuredFor(d, tl, *op.Opts) {
					if who, rel := whose(d); who != "" {
						wrap(core.V("payload-configured-for-other-listener|"+class+"|names:"+rel, "the payload delivered for listener %q carries, field by field, the configuration of %s", op.Name, who))
						break
					}
				}
				wantT := "-DTRANSPORT_HTTP"
				if tl.Kind == "smb" {
					wantT = "-DTRANSPORT_SMB"
				}
				if d.Transport != wantT {
					wrap(core.V("transport-define|"+class, "the compiler got %q, the listener needs %s", d.Transport, wantT))
					break
				}
				if len(d.Blocks) != 1 {
					wrap(core.V("config-bytes-count|"+class, "%d CONFIG_BYTES defines in the delivered payload's command line", len(d.Blocks)))
					break
				}
				verifyFields(cm, d.Blocks[0], func(v *core.Violation) { v.Sig += "|" + class; wrap(v) })
			default:
				// an External listener has no Demon transport; an unknown name has no settings at
				// all.  HEAD: the first is refused with an Error message, the second yields a
				// payload without a transport section.  Either way nothing may be delivered that
				// is configured for a listener the request did not name.
				if len(payloads) == 0 {
					break
				}
				d := parseDelivered(payloads[0])
				if who, rel := whose(d); who != "" {
					wrap(core.V("payload-configured-for-other-listener|"+class+"|names:"+rel, "the request names %q (%s) but the delivered payload carries, field by field, the configuration of %s", op.Name, class, who))
					break
				}
				if ti >= 0 {
					wrap(core.V("payload-for-external-listener", "a payload (%d bytes, transport %q) was delivered for an External listener; console %v", len(payloads[0]), d.Transport, tail(console, 4)))
					break
				}
				// unknown name: no transport define and exactly the block a builder without a listener produces
				var rm []consoleMsg
				rb := builder.NewBuilder(builder.BuilderConfig{})
				rb.ClientId = "verif"
				rb.SendConsoleMessage = func(t, msg string) { rm = append(rm, consoleMsg{t, msg}) }
				if rb.SetConfig(configJSON(*op.Opts, nil)) != nil {
					break
				}
				rb.SetArch(archOf(op.Arch))
				rb.SetFormat(format)
				ref, err := rb.PatchConfig()
				if err != nil {
					break
				}
				if d.Transport != "" || len(d.Blocks) != 1 || !bytes.Equal(d.Blocks[0], ref) {
					n := -1
					if len(d.Blocks) == 1 {
						n = len(d.Blocks[0])
					}
					wrap(core.V("unknown-name-built-with-listener-settings", "no listener is named %q, yet the delivered payload has transport %q and a %d-byte block; a build without any listener gives %d bytes and no transport", op.Name, d.Transport, n, len(ref)))
				}
			}

			// the live listener still is what the history made it
			if ti >= 0 {
				tl := m.ls[ti]
				for _, l := range fx.ts.Listeners {
					if l.Name != tl.Name {
						continue
					}
					switch c := l.Config.(type) {
					case *handlers.HTTP:
						want := copyHTTPConfig(httpConfigOf(tl))
						got := copyHTTPConfig(c.Config)
						want.BehindRedir, want.HostBind = got.BehindRedir, got.HostBind
						if !reflect.DeepEqual(got, want) {
							wrap(core.V("listener-mutated|"+class, "after the build the live listener is %+v, the history made it %+v", got, want))
						}
					case *handlers.SMB:
						if c.Config.PipeName != tl.Pipe.PipeName || c.Config.KillDate != tl.Pipe.KillDate || c.Config.WorkingHours != tl.Pipe.WorkingHours {
							wrap(core.V("listener-mutated|"+class, "after the build the live SMB listener is %+v, the history made it %+v", c.Config, tl.Pipe))
						}
					}
				}
			}
			builtFor[op.Name]++
			editedSince[op.Name] = false
		}
	}
}

// ---------------------------------------------------------------------------- classification

func classifySrv(s *SrvH) core.Class {
	var cl core.Class
	cl.Labels = append(cl.Labels, "via-dispatch")
	var m srvModel
	rels := map[string]bool{}
	kinds := map[string]bool{}
	built := map[string]int{}
	edited := map[string]bool{}
	flags := map[string]bool{}
	seenLabel := map[string]bool{}
	label := func(l string) { // one count per case
		if !seenLabel[l] {
			seenLabel[l] = true
			cl.Labels = append(cl.Labels, l)
		}
	}
	maxCoexist := 0
	for _, op := range s.Ops {
		switch op.K {
		case "add":
			if op.L == nil {
				continue
			}
			if i := m.find(op.L.Name); i >= 0 {
				if m.ls[i].Kind != op.L.Kind {
					label("add-refused:name-taken-by-other-type")
				} else {
					label("add-refused:name-taken")
				}
				continue
			}
			if !m.accepts(*op.L) {
				label("add-refused:endpoint-taken")
				continue
			}
			for _, o := range m.ls {
				label("added-while-relative-exists:" + relationOf(op.L.Name, o.Name))
			}
			m.ls = append(m.ls, *op.L)
		case "remove":
			if i := m.find(op.Name); i >= 0 && m.ls[i].Kind != "http" {
				m.remove(op.Name)
				label("listener-removed")
			}
		case "edit":
			if i := m.find(op.Name); i >= 0 && m.ls[i].Kind == "http" && op.Edit != nil {
				m.ls[i].HTTP = applyEditL(m.ls[i].HTTP, *op.Edit)
				edited[op.Name] = true
				label("edit-through-dispatch")
			}
		case "build":
			ti := m.find(op.Name)
			if len(m.ls) > maxCoexist {
				maxCoexist = len(m.ls)
			}
			nrel := 0
			for j, o := range m.ls {
				if j == ti {
					continue
				}
				nrel++
				r := relationOf(op.Name, o.Name)
				rels[r] = true
				where := "older"
				if ti >= 0 && j > ti {
					where = "newer"
				}
				if ti < 0 {
					where = "existing"
				}
				label("build-while-" + where + "-relative-exists:" + r)
				if ti >= 0 && o.Kind != m.ls[ti].Kind {
					flags["types-differ"] = true
					label("relatives-of-different-type")
				}
			}
			switch {
			case ti < 0:
				label("build:unknown-name")
				flags["unknown"] = true
			case m.ls[ti].Kind == "ext":
				label("build:external-listener")
				flags["ext"] = true
			default:
				label("build:" + m.ls[ti].Kind)
			}
			if ti >= 0 {
				kinds[m.ls[ti].Kind] = true
			}
			if ti >= 0 && nrel > 0 {
				flags["coexist"] = true
			}
			if built[op.Name] > 0 && edited[op.Name] {
				label("rebuild-after-edit-through-dispatch")
				flags["edit"] = true
			} else if built[op.Name] > 0 {
				label("rebuild-through-dispatch")
			}
			for n, e := range edited {
				if e && n != op.Name && ti >= 0 {
					label("build-after-edit-of-relative")
					flags["edit-relative"] = true
				}
			}
			if op.Format != "Windows Exe" {
				label("dispatch-format:" + op.Format)
			}
			built[op.Name]++
			edited[op.Name] = false
		}
	}
	if flags["coexist"] {
		label("related-names-coexist")
		cl.NonTrivial = true
	}
	if flags["edit"] || flags["unknown"] || flags["ext"] {
		cl.NonTrivial = true
	}
	label(fmt.Sprintf("dispatch-listeners:%d", maxCoexist))
	el := map[int]bool{}
	for _, i := range faultEligible(s) {
		el[i] = true
	}
	for i, op := range s.Ops {
		if op.K == "build" && op.Fault != nil && el[i] && validFault(op.Fault) && op.Fault.Tool == "cc" {
			label(fmt.Sprintf("fault:child-process:compiler:%s+output-%s@dispatch-build", op.Fault.endKind(), op.Fault.Out))
			if i+1 < len(s.Ops) {
				label("fault-then-more-steps@dispatch")
			}
		}
	}
	for _, op := range s.Ops {
		if op.K == "add" && op.L != nil && op.L.Kind == "http" {
			for _, hl := range hostLabels(op.L.HTTP.Hosts) {
				label(hl)
			}
		}
		if op.K == "add" && op.L != nil && op.L.Kind != "ext" {
			for _, sl := range scaleLabels(CaseA{SMB: op.L.Kind == "smb", HTTP: op.L.HTTP, Pipe: op.L.Pipe}) {
				label(sl)
			}
		}
	}
	keys := func(m map[string]bool) string {
		var ks []string
		for k, v := range m {
			if v {
				ks = append(ks, k)
			}
		}
		sort.Strings(ks)
		return strings.Join(ks, "+")
	}
	delete(flags, "edit-relative")
	closest := "none"
	for _, r := range []string{"ascii-case", "unicode-case-fold", "blank", "nfc-nfd", "fold+blank-or-normalisation", "prefix-suffix", "other"} {
		if rels[r] {
			closest = r
			break
		}
	}
	cl.Fingerprint = fmt.Sprintf("srv|kinds=%s|rel=%s|%s", keys(kinds), closest, keys(flags))
	return cl
}

var _ = rapid.Bool

package c13

// C13(b): builder.Build() — the compiler receives the configuration block of (a) and
// the operator's service name as data; nothing the operator typed is run as a command.
//
// The compilers and the assembler are stub scripts generated per case.  A stub appends
// its argv (one NUL-terminated record per argument, \x01 record at the end of each
// invocation) to a log, behaves like a compiler driver as far as Build() can tell
// (every operand that is not an option must be an existing file, otherwise "No such
// file" and exit 1; the -o file is created) and exits 0.  Service names carry a
// `touch <canary>` for every way a shell could be made to run it; the canary directory
// must stay empty.

import (
	"bytes"
	"fmt"
	"os"
	"path/filepath"
	"regexp"
	"strconv"
	"strings"
	"testing"

	"Havoc/pkg/common/builder"

	"pgregory.net/rapid"

	"verifharness/internal/core"
	"verifharness/internal/pick"
)

type CaseB struct {
	Cfg       CaseA  `json:"cfg"`
	Format    int    `json:"format"` // builder.FILETYPE_*
	Arch      int    `json:"arch"`   // builder.ARCHITECTURE_*
	HasName   bool   `json:"has_name"`
	Name      string `json:"name"` // "@C@" stands for the absolute canary path of the case
	NameClass string `json:"name_class"`
}

const canaryToken = "@C@"

// name templates per class; every non-plain one would create the canary if a shell ran it
var nameClasses = []struct {
	class string
	names []string
	// neutral: a POSIX shell leaves the word -DSERVICE_NAME=\"<name>\" as one unchanged
	// word, so the build has no reason to fail
	neutral bool
}{
	{"plain", []string{"DemonSvc", "WinDefendSvc2", "svc_update-1.0", "Ünïcode"}, true},
	{"empty", []string{""}, true},
	{"glob", []string{"Svc*", "S?c[a-z]"}, true},
	{"spaces", []string{"My Service", "Update  Agent touch " + canaryToken}, false},
	{"quotes", []string{`Svc"; touch ` + canaryToken + `; "`, `it's; touch ` + canaryToken, `a\"; touch ` + canaryToken + `; \"`}, false},
	{"dollar-paren", []string{"Svc$(touch " + canaryToken + ")", "$(touch " + canaryToken + ")"}, false},
	{"backtick", []string{"Svc`touch " + canaryToken + "`"}, false},
	{"semicolon", []string{"Svc; touch " + canaryToken + " ;", "Svc;touch " + canaryToken + ";#"}, false},
	{"pipe", []string{"Svc | touch " + canaryToken + " | true "}, false},
	{"and-and", []string{"Svc && touch " + canaryToken + " && true "}, false},
	{"or-or", []string{"Svc || touch " + canaryToken + " || true "}, false},
	{"newline", []string{"Svc\ntouch " + canaryToken + "\n", "Svc\ntouch " + canaryToken + " #"}, false},
	{"ampersand", []string{"Svc & touch " + canaryToken + " & true "}, false},
	{"variable", []string{"Svc$HOME", "Svc${PATH}"}, false},
}

func classOf(name string) (string, bool) {
	for _, nc := range nameClasses {
		for _, n := range nc.names {
			if n == name {
				return nc.class, nc.neutral
			}
		}
	}
	// not from the pool (hand-written replay): neutral only when free of shell syntax
	return "custom", !strings.ContainsAny(name, " \t\n\"'`$;|&<>(){}\\*?[]#~!")
}

var formats = []int{builder.FILETYPE_WINDOWS_EXE, builder.FILETYPE_WINDOWS_SERVICE_EXE, builder.FILETYPE_WINDOWS_DLL, builder.FILETYPE_WINDOWS_REFLECTIVE_DLL, builder.FILETYPE_WINDOWS_RAW_BINARY}

func formatName(f int) string {
	switch f {
	case builder.FILETYPE_WINDOWS_EXE:
		return "exe"
	case builder.FILETYPE_WINDOWS_SERVICE_EXE:
		return "service-exe"
	case builder.FILETYPE_WINDOWS_DLL:
		return "dll"
	case builder.FILETYPE_WINDOWS_REFLECTIVE_DLL:
		return "reflective-dll"
	case builder.FILETYPE_WINDOWS_RAW_BINARY:
		return "shellcode"
	}
	return "?"
}

func genB(t *rapid.T) CaseB {
	var c CaseB
	c.Cfg = genCaseA(t, rapid.IntRange(0, 9).Draw(t, "allow-bad") == 0)
	// the service executable is where the operator's string reaches the command line: half of the cases
	if rapid.Bool().Draw(t, "service") {
		c.Format = builder.FILETYPE_WINDOWS_SERVICE_EXE
	} else {
		c.Format = rapid.SampledFrom(formats).Draw(t, "format")
	}
	c.Arch = rapid.SampledFrom([]int{builder.ARCHITECTURE_X64, builder.ARCHITECTURE_X86}).Draw(t, "arch")
	// the client adds "Service Name" for the service format only; other formats sometimes carry a stale one
	c.HasName = c.Format == builder.FILETYPE_WINDOWS_SERVICE_EXE || rapid.IntRange(0, 3).Draw(t, "stale-name") == 0
	nc := nameClasses[rapid.IntRange(0, len(nameClasses)-1).Draw(t, "name-class")]
	c.NameClass = nc.class
	c.Name = rapid.SampledFrom(nc.names).Draw(t, "name")
	return c
}

// ---------------------------------------------------------------------------- stubs

const stubScript = `#!/bin/sh
LOG='%s'
printf '%%s\0' "$0" "$@" >> "$LOG"
printf '\001\0' >> "$LOG"
out=""; prev=""
for a in "$@"; do
  if [ -n "$prev" ]; then
    [ "$prev" = "-o" ] && out="$a"
    prev=""
    continue
  fi
  case "$a" in
    -o|-D|-e|-I|-f) prev="$a" ;;
    -*) ;;
    *) [ -e "$a" ] || { echo "stub: error: $a: No such file or directory" >&2; exit 1; } ;;
  esac
done
[ -n "$out" ] && : > "$out"
exit 0
`

type invocation struct {
	Tool string // cc64 cc86 nasm
	Args []string
}

func readLog(p string) []invocation {
	b, err := os.ReadFile(p)
	if err != nil {
		return nil
	}
	var out []invocation
	var cur []string
	for _, rec := range bytes.Split(b, []byte{0}) {
		if string(rec) == "\x01" {
			if len(cur) > 0 {
				out = append(out, invocation{Tool: filepath.Base(cur[0]), Args: cur[1:]})
			}
			cur = nil
			continue
		}
		cur = append(cur, string(rec))
	}
	return out
}

var compileDirRe = regexp.MustCompile(`^/tmp/[0-9a-f]{10}/`)

func parseConfigBytes(arg string) ([]byte, bool) {
	const p = "-DCONFIG_BYTES={"
	if !strings.HasPrefix(arg, p) || !strings.HasSuffix(arg, "}") {
		return nil, false
	}
	body := arg[len(p) : len(arg)-1]
	if body == "" {
		return []byte{}, true
	}
	var out []byte
	for _, x := range strings.Split(body, ",") {
		v, err := strconv.ParseUint(strings.TrimPrefix(x, "0x"), 16, 8)
		if err != nil || !strings.HasPrefix(x, "0x") {
			return nil, false
		}
		out = append(out, byte(v))
	}
	return out, true
}

// ---------------------------------------------------------------------------- check

func runB(c CaseB, report func(*core.Violation)) {
	dir, err := os.MkdirTemp(procRoot, "case-")
	if err != nil {
		panic(err)
	}
	defer os.RemoveAll(dir)
	canaryDir := filepath.Join(dir, "canary")
	os.Mkdir(canaryDir, 0o755)
	canary := filepath.Join(canaryDir, "c")
	logPath := filepath.Join(dir, "argv.log")
	for _, tool := range []string{"cc64", "cc86", "nasm"} {
		if err := os.WriteFile(filepath.Join(dir, tool), []byte(fmt.Sprintf(stubScript, logPath)), 0o755); err != nil {
			panic(err)
		}
	}
	name := strings.ReplaceAll(c.Name, canaryToken, canary)
	class, neutral := classOf(c.Name)
	var namePtr *string
	if c.HasName {
		namePtr = &name
	}
	conf := configJSON(c.Cfg.Opts, namePtr)
	ext := ".x64"
	if c.Arch != builder.ARCHITECTURE_X64 {
		ext = ".x86"
	}
	switch c.Format {
	case builder.FILETYPE_WINDOWS_EXE, builder.FILETYPE_WINDOWS_SERVICE_EXE:
		ext += ".exe"
	case builder.FILETYPE_WINDOWS_RAW_BINARY:
		ext += ".bin"
	default:
		ext += ".dll"
	}
	bcfg := builder.BuilderConfig{Compiler64: filepath.Join(dir, "cc64"), Compiler86: filepath.Join(dir, "cc86"), Nasm: filepath.Join(dir, "nasm")}

	// (a)'s bytes: a builder of its own on a listener of its own
	var refMsgs []consoleMsg
	rType, rCfg := listenerOf(c.Cfg)
	rb, err := newBuilder(bcfg, conf, c.Arch, c.Format, ext, rType, rCfg, &refMsgs)
	if err != nil {
		report(core.V("patch|SetConfig-rejected-client-json", "SetConfig(%s): %v", conf, err))
		return
	}
	refBytes, refErr := rb.PatchConfig()

	// the build under test
	var msgs []consoleMsg
	lType, lCfg := listenerOf(c.Cfg)
	b, err := newBuilder(bcfg, conf, c.Arch, c.Format, ext, lType, lCfg, &msgs)
	if err != nil {
		return
	}
	ok := b.Build()

	// clean up what Build() left under /tmp (its own directories only)
	inv := readLog(logPath)
	dirs := map[string]bool{}
	if compileDirRe.MatchString(b.CompileDir) {
		dirs[b.CompileDir] = true
	}
	var outs []string
	if b.CompileDir != "" {
		dirs[b.CompileDir] = true
	}
	for _, i := range inv {
		for k, a := range i.Args {
			if a == "-o" && k+1 < len(i.Args) {
				outs = append(outs, i.Args[k+1])
				dirs[filepath.Dir(i.Args[k+1])+"/"] = true
			}
		}
	}
	defer cleanupBuildDirs(dirs, outs)

	where := fmt.Sprintf("format %s arch %d service name (%s, sent=%v) %q", formatName(c.Format), c.Arch, class, c.HasName, name)

	// 1. nothing the operator typed was run
	if ents, _ := os.ReadDir(canaryDir); len(ents) > 0 {
		report(core.V("build|service-name|run-as-shell-command", "%s: the command embedded in the service name was executed by the shell (canary %q exists); Build() = %v; console %v", where, ents[0].Name(), ok, tail(msgs, 3)))
	}

	var ccs []invocation
	for _, i := range inv {
		if i.Tool == "cc64" || i.Tool == "cc86" {
			ccs = append(ccs, i)
		}
	}
	nameOnCmdline := c.Format == builder.FILETYPE_WINDOWS_SERVICE_EXE && c.HasName

	// 2. unencodable configuration: the build fails and no compiler runs
	if refErr != nil {
		if ok {
			report(core.V("build|succeeded-without-config", "%s: PatchConfig fails (%v) but Build() reports success", where, refErr))
		}
		if len(ccs) > 0 {
			report(core.V("build|compiled-without-config", "%s: PatchConfig fails (%v) but the compiler was started %d times", where, refErr, len(ccs)))
		}
		sawErr := false
		for _, m := range msgs {
			if m.Type == "Error" {
				sawErr = true
			}
		}
		if !sawErr {
			report(core.V("build|silent-failure", "%s: the build failed (%v) without an Error console message: %v", where, refErr, msgs))
		}
		return
	}

	// 3. encodable configuration and a name the shell leaves alone: the build succeeds
	if !ok {
		if !nameOnCmdline || neutral {
			report(core.V("build|failed-on-valid-input|"+formatName(c.Format), "%s: Build() = false; console %v; %d compiler runs", where, tail(msgs, 4), len(ccs)))
		}
		return // a build that fails cleanly is fine for names a shell cannot carry
	}

	// 4. what the compiler got
	if len(ccs) != 1 && (!nameOnCmdline || neutral) {
		report(core.V("build|compiler-runs|"+formatName(c.Format), "%s: %d compiler invocations, expected 1", where, len(ccs)))
		if len(ccs) == 0 {
			return
		}
	}
	wantTool := "cc64"
	if c.Arch != builder.ARCHITECTURE_X64 {
		wantTool = "cc86"
	}
	for _, cc := range ccs {
		if cc.Tool != wantTool {
			report(core.V("build|wrong-compiler", "%s: %s was started", where, cc.Tool))
		}
		var cfgArgs [][]byte
		transport := ""
		var svc []string
		for _, a := range cc.Args {
			if strings.HasPrefix(a, "-DCONFIG_BYTES=") {
				if raw, good := parseConfigBytes(a); good {
					cfgArgs = append(cfgArgs, raw)
				} else {
					report(core.V("build|config-bytes-malformed", "%s: %q is not a byte array initialiser", where, clip(a, 200)))
				}
			}
			if a == "-DTRANSPORT_HTTP" || a == "-DTRANSPORT_SMB" {
				transport += a
			}
			if strings.HasPrefix(a, "-DSERVICE_NAME=") {
				svc = append(svc, a)
			}
		}
		if nameOnCmdline && name != "" {
			want := `-DSERVICE_NAME="` + name + `"` // MainSvc.c uses SERVICE_NAME as a string literal
			if len(svc) != 1 || !sameLiteral(svc[0], name) {
				// the shell took the name apart: the rest of this command line is cut or
				// shifted as a consequence, so it is not judged separately
				report(core.V("build|service-name|altered-by-shell", "%s: the build succeeded but the compiler got %q instead of the single argument %q", where, svc, want))
				continue
			}
		}
		wantTransport := "-DTRANSPORT_HTTP"
		if c.Cfg.SMB {
			wantTransport = "-DTRANSPORT_SMB"
		}
		if transport != wantTransport {
			report(core.V("build|transport-define", "%s: compiler got %q, the listener needs %s (DemonConfig() reads the block under that #ifdef)", where, transport, wantTransport))
		}
		if len(cfgArgs) != 1 {
			report(core.V("build|config-bytes-count", "%s: %d CONFIG_BYTES defines", where, len(cfgArgs)))
		} else if !bytes.Equal(cfgArgs[0], refBytes) {
			q := ""
			if !c.Cfg.SMB && c.Cfg.HTTP.HostHeader != "" && len(c.Cfg.HTTP.Headers) > 0 {
				q = "|headers-and-host-header"
			}
			var hs []string
			for _, h := range readConfig(cfgArgs[0], c.Cfg.SMB).Headers {
				hs = append(hs, h.S)
			}
			report(core.V("build|config-bytes-differ|"+formatName(c.Format)+q, "%s: the compiler got a %d-byte block, PatchConfig() for the same options and listener gives %d bytes; headers in the compiled block: %q", where, len(cfgArgs[0]), len(refBytes), hs))
		}
	}
	// the block the compiler got also passes (a)'s oracle (when it differs from
	// PatchConfig()'s, that difference has been reported above)
	if len(ccs) > 0 {
		for _, a := range ccs[len(ccs)-1].Args {
			if raw, good := parseConfigBytes(a); good && bytes.Equal(raw, refBytes) {
				if e := expect(c.Cfg); len(e.MustFail) > 0 {
					report(core.V("patch|accepted-unencodable|"+e.MustFail[0], "%s: a payload was compiled although the settings cannot be encoded: %v", where, e.MustFail))
				} else {
					verifyFields(c.Cfg, raw, report)
				}
			}
		}
	}
}

// sameLiteral: arg is -DSERVICE_NAME="<name>" with the name either verbatim or written
// as the C string literal that denotes it (\\ \" \n \r \t escapes).
func sameLiteral(arg, name string) bool {
	const p = `-DSERVICE_NAME="`
	if !strings.HasPrefix(arg, p) || !strings.HasSuffix(arg, `"`) || len(arg) < len(p)+1 {
		return false
	}
	inner := arg[len(p) : len(arg)-1]
	if inner == name {
		return true
	}
	var b strings.Builder
	for i := 0; i < len(inner); i++ {
		if inner[i] == '"' {
			return false // an unescaped quote would end the literal early
		}
		if inner[i] != '\\' {
			b.WriteByte(inner[i])
			continue
		}
		i++
		if i >= len(inner) {
			return false
		}
		switch inner[i] {
		case 'n':
			b.WriteByte('\n')
		case 'r':
			b.WriteByte('\r')
		case 't':
			b.WriteByte('\t')
		case '\\', '"':
			b.WriteByte(inner[i])
		default:
			return false
		}
	}
	return b.String() == name
}

func tail(m []consoleMsg, n int) []consoleMsg {
	if len(m) > n {
		return m[len(m)-n:]
	}
	return m
}

func clip(s string, n int) string {
	if len(s) > n {
		return s[:n] + "..."
	}
	return s
}

func checkB(c CaseB) *core.Violation {
	var all []*core.Violation
	runB(c, func(v *core.Violation) { all = append(all, v) })
	return pick.First("C13", all)
}

func classifyB(c CaseB) core.Class {
	class, _ := classOf(c.Name)
	e := expect(c.Cfg)
	enc := "encodable"
	if len(e.MustFail) > 0 {
		enc = "unencodable"
	}
	onCmd := c.Format == builder.FILETYPE_WINDOWS_SERVICE_EXE && c.HasName
	tr := "http"
	if c.Cfg.SMB {
		tr = "smb"
	}
	cl := core.Class{Labels: []string{"format:" + formatName(c.Format), fmt.Sprintf("arch:%d", c.Arch), "name:" + class, enc, "transport:" + tr, fmt.Sprintf("name-on-cmdline:%v", onCmd)}}
	if !c.Cfg.SMB {
		cl.Labels = append(cl.Labels, hostLabels(c.Cfg.HTTP.Hosts)...)
	}
	cl.Labels = append(cl.Labels, scaleLabels(c.Cfg)...)
	cl.NonTrivial = nonDefaults(c.Cfg.Opts) >= 2 || (onCmd && class != "plain" && class != "empty")
	cl.Fingerprint = fmt.Sprintf("%s|%s|%v|%s", formatName(c.Format), class, onCmd, enc)
	return cl
}

func TestC13b(t *testing.T) {
	core.Run(t, core.Spec[CaseB]{
		Property: "C13", Sub: "b",
		Rule: "builder.Build() with stub compilers/assembler (log argv NUL-separated, require operands to exist, create -o, exit 0) inside a mirror of the source tree, for every format (exe, service exe, dll, reflective dll, shellcode) x arch (x64, x86) x options and listener of (a) (10% may be unencodable) x service name from {plain, empty, glob, spaces, quotes, $(), backticks, ;, |, &&, ||, &, newline, $VAR}, each non-plain one carrying `touch <canary>`. Oracle: the canary directory stays empty; unencodable => Build() false, Error message, compiler never started; encodable and a shell-neutral name => Build() true with exactly one compiler run of the right architecture, -DTRANSPORT_x matching the listener, one -DCONFIG_BYTES={...} equal to PatchConfig() of a separate builder for the same input (and passing (a)'s field oracle), and -DSERVICE_NAME=\"<name>\" as one verbatim argument; other names: verbatim or the build fails. Non-trivial: >=2 non-default options or a service name with shell syntax that reaches the command line; distinct = (format, name class, on command line, encodable)",
		Gen:  genB, Check: checkB, Classify: classifyB,
		Assumptions: []string{
			"/bin/sh is a POSIX shell; the stub stands for any compiler driver: operands that are not options must be existing files",
			"process ancestry of the spawned commands is not inspected; execution of operator text is detected through canary files only",
		},
	})
}

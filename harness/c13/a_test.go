package c13

// C13(a): builder.PatchConfig() — the configuration block, read back the way
// DemonConfig() reads it, equals the operator's build options and the listener's
// settings; a second payload built for the same listener gets the same block and the
// listener is left as it was; a setting that cannot be encoded is an error and no bytes.
//
// The builder is driven exactly as cmd/server/dispatch.go (Gate.Stageless) drives it:
// NewBuilder, SendConsoleMessage, SetConfig(<the JSON the client sends>), SetArch,
// SetFormat, SetListener(<type>, <the live *handlers.HTTP / *handlers.SMB>).

import (
	"bytes"
	"encoding/json"
	"fmt"
	"reflect"
	"regexp"
	"strconv"
	"strings"
	"testing"

	"Havoc/pkg/common/builder"
	"Havoc/pkg/handlers"

	"pgregory.net/rapid"

	"verifharness/internal/core"
	"verifharness/internal/pick"
)

// ---------------------------------------------------------------------------- case

type Opts struct {
	Sleep        string `json:"sleep"`
	Jitter       string `json:"jitter"`
	Indirect     bool   `json:"indirect_syscall"`
	StackDup     bool   `json:"stack_duplication"`
	Technique    string `json:"sleep_technique"`
	Gadget       string `json:"sleep_jmp_gadget"`
	ProxyLoading string `json:"proxy_loading"`
	Amsi         string `json:"amsi_etw_patch"`
	Alloc        string `json:"alloc"`
	Execute      string `json:"execute"`
	Spawn64      string `json:"spawn64"`
	Spawn32      string `json:"spawn32"`
}

type HTTPL struct {
	Hosts        []string `json:"hosts"`
	PortBind     string   `json:"port_bind"`
	PortConn     string   `json:"port_conn"`
	Secure       bool     `json:"secure"`
	UserAgent    string   `json:"user_agent"`
	Headers      []string `json:"headers"`
	HostHeader   string   `json:"host_header"`
	Uris         []string `json:"uris"`
	ProxyEnabled bool     `json:"proxy_enabled"`
	ProxyType    string   `json:"proxy_type"`
	ProxyHost    string   `json:"proxy_host"`
	ProxyPort    string   `json:"proxy_port"`
	ProxyUser    string   `json:"proxy_user"`
	ProxyPass    string   `json:"proxy_pass"`
	Methode      string   `json:"methode"`
	HostRotation string   `json:"host_rotation"`
	KillDate     int64    `json:"kill_date"`
	WorkingHours string   `json:"working_hours"`
}

type SMBL struct {
	PipeName     string `json:"pipe_name"`
	KillDate     int64  `json:"kill_date"`
	WorkingHours string `json:"working_hours"`
}

type CaseA struct {
	Opts Opts   `json:"opts"`
	SMB  bool   `json:"smb"`
	HTTP HTTPL  `json:"http"`
	Pipe SMBL   `json:"pipe"`
	Bad  string `json:"bad"` // what the generator spoiled (label only; the oracle recomputes it)
}

// ---------------------------------------------------------------------------- generator

var (
	spawnPool = []string{`C:\Windows\System32\notepad.exe`, `C:\Windows\SysWOW64\notepad.exe`, `C:\Windows\System32\Werfault.exe`,
		`C:\Program Files\Interne\u00e9t Explorer\iexplore.exe`, `C:\Users\Public\日本語\a.exe`, `C:\x\😀.exe`, `c:\a b\c d.exe -k netsvcs`, `x`}
	hostPool    = []string{"10.10.10.5", "c2.example.com", "192.168.56.1", "cdn-7.example.org", "172.16.0.9", "teamserver.corp.example"}
	goodPorts   = []string{"80", "443", "8080", "8443", "65535", "1", "40056"}
	nanPorts    = []string{"http", "80a", "8o", " 80", "4 43", "0x50", "４４３"}
	rangePorts  = []string{"65536", "70000", "100000", "-1", "-443"}
	uaPool      = []string{"Mozilla/5.0 (Windows NT 6.1; WOW64) AppleWebKit/537.36 (KHTML, like Gecko) Chrome/96.0.4664.110 Safari/537.36", "curl/8.0", "", "Ünïcode Agent/1.0", "a"}
	headerPool  = []string{"Content-type: */*", "X-Havoc: true", "Accept: text/html,application/xhtml+xml", "X-Meta: a: b", "Referer: https://example.com/a?b=c", "X-Üni: ✓", "Cache-Control: no-cache"}
	hostHdrPool = []string{"cdn.example.com", "front.azureedge.example", "a.b:8443"}
	uriPool     = []string{"/", "/index.php", "/api/v1/Update", "/Collect/data.aspx", "/search?q=havoc", "/js/jquery-3.6.0.min.js", "/ünï/côde", "/a"}
	killDates   = []int64{0, 1, 133500000000000000, 0x01DA000000000000, 0x7fffffffffffffff, 116444736000000000}
	goodHours   = []string{"", "8:00-17:00", "08:00-17:00", "0:00-23:59", "9:30-9:31", "23:58-23:59", "0:00-0:01", "7:05-19:55", "12:00-12:30", "1:59-2:00"}
	greyHours   = []string{"8:00-24:00", "8:00-8:00", "0:60-1:00", "24:00-24:30"}
	badHours    = []string{"17:00-8:00", "9:31-9:30", "8:00", "8:00-", "8-17", "8:00-17", "8.00-17.00", "8:00 - 17:00", " 8:00-17:00", "8:00-17:00 ", "8:00-17:00\n",
		"8:0-17:00", "8:000-17:00", "008:00-17:00", "8:00–17:00", "8:00-17:00-18:00", "-1:00-2:00", "ab:cd-ef:gh", "25:00-26:00", "8:61-9:00", "8:00-9:75", "30:00-31:00", "8:00-29:00", "８:００-１７:００", "always"}
	pipePool = []string{"demon_pipe", "mojo.5688.8052.183894939787088877", "win_svc", "pipe with space", "ünï-pipe", `sub\name`}
)

func genIntString(t *rapid.T, label string, max int) string {
	v := rapid.OneOf(rapid.SampledFrom([]int{0, 1, 2, 5, 60, max, max - 1}), rapid.IntRange(0, max)).Draw(t, label)
	return strconv.Itoa(v)
}

func genOpts(t *rapid.T) Opts {
	return Opts{
		Sleep:        genIntString(t, "sleep", 0x7fffffff),
		Jitter:       genIntString(t, "jitter", 100),
		Indirect:     rapid.Bool().Draw(t, "indirect"),
		StackDup:     rapid.Bool().Draw(t, "stackdup"),
		Technique:    rapid.SampledFrom(techniqueNames).Draw(t, "technique"),
		Gadget:       rapid.SampledFrom(gadgetNames).Draw(t, "gadget"),
		ProxyLoading: rapid.SampledFrom(proxyLoadNames).Draw(t, "proxyloading"),
		Amsi:         rapid.SampledFrom(amsiNames).Draw(t, "amsi"),
		Alloc:        rapid.SampledFrom(allocNames).Draw(t, "alloc"),
		Execute:      rapid.SampledFrom(allocNames).Draw(t, "execute"),
		Spawn64:      rapid.SampledFrom(spawnPool).Draw(t, "spawn64"),
		Spawn32:      rapid.SampledFrom(spawnPool).Draw(t, "spawn32"),
	}
}

func genSubset(t *rapid.T, pool []string, max int, label string) []string {
	n := rapid.IntRange(0, max).Draw(t, label+"-n")
	var out []string
	seen := map[string]bool{}
	for i := 0; i < n; i++ {
		s := rapid.SampledFrom(pool).Draw(t, label)
		if !seen[s] {
			seen[s] = true
			out = append(out, s)
		}
	}
	return out
}

func genHours(t *rapid.T) string {
	if rapid.IntRange(0, 2).Draw(t, "hours-src") == 0 {
		st := rapid.IntRange(0, 23*60+58).Draw(t, "start")
		e := rapid.IntRange(st+1, 23*60+59).Draw(t, "end")
		sh, sm := st/60, st%60
		return fmt.Sprintf("%d:%02d-%d:%02d", sh, sm, e/60, e%60) // (zero-padded hours are exercised by sub-check w)
	}
	if rapid.IntRange(0, 2).Draw(t, "hours-none") == 0 {
		return ""
	}
	return rapid.SampledFrom(goodHours).Draw(t, "hours")
}

func genHTTP(t *rapid.T) HTTPL {
	var l HTTPL
	nh := rapid.IntRange(1, 4).Draw(t, "nhosts")
	for i := 0; i < nh; i++ {
		h := genHostName(t) // the host-value classes of hosts_test.go (the fixed pool among them)
		if rapid.Bool().Draw(t, "host-has-port") {
			h += ":" + rapid.SampledFrom(goodPorts).Draw(t, "host-port")
		}
		l.Hosts = append(l.Hosts, h)
	}
	l.PortBind = rapid.SampledFrom(goodPorts).Draw(t, "portbind")
	if rapid.Bool().Draw(t, "portconn-set") {
		l.PortConn = rapid.SampledFrom(goodPorts).Draw(t, "portconn")
	}
	l.Secure = rapid.Bool().Draw(t, "secure")
	l.UserAgent = rapid.SampledFrom(uaPool).Draw(t, "ua")
	l.Headers = genSubset(t, headerPool, 4, "header")
	if rapid.Bool().Draw(t, "hosthdr-set") {
		l.HostHeader = rapid.SampledFrom(hostHdrPool).Draw(t, "hosthdr")
	}
	l.Uris = genSubset(t, uriPool, 4, "uri")
	if rapid.Bool().Draw(t, "proxy") {
		l.ProxyEnabled = true
		l.ProxyType = rapid.SampledFrom([]string{"http", "https"}).Draw(t, "ptype")
		// (the proxy host is packed as written: HEAD resolves interface names in Hosts only)
		l.ProxyHost = rapid.SampledFrom(append([]string{"proxy.corp.example", "10.0.0.2", "proxy.corp.example", "10.0.0.2"}, ifaceWithV4...)).Draw(t, "phost")
		l.ProxyPort = rapid.SampledFrom([]string{"8080", "3128"}).Draw(t, "pport")
		if rapid.Bool().Draw(t, "pcreds") {
			l.ProxyUser = rapid.SampledFrom([]string{"svc-proxy", "DOM\\üser"}).Draw(t, "puser")
			l.ProxyPass = rapid.SampledFrom([]string{"P@ss: w0rd", "密码", "x"}).Draw(t, "ppass")
		}
	}
	l.Methode = rapid.SampledFrom([]string{"", "POST", "post", "Post"}).Draw(t, "methode")
	l.HostRotation = rapid.SampledFrom(rotationNames).Draw(t, "rotation")
	l.KillDate = rapid.OneOf(rapid.SampledFrom(killDates), rapid.Int64Range(0, 0x7fffffffffffffff)).Draw(t, "killdate")
	l.WorkingHours = genHours(t)
	return l
}

var spoils = []string{"methode-get", "portconn-nan", "portbind-nan", "hostport-nan", "port-range", "hours-bad", "hours-grey", "sleep-nan", "jitter-nan", "jitter-range", "host-ipv6", "host-ipv6-numeric"}

func spoil(t *rapid.T, c *CaseA, what string) {
	switch what {
	case "methode-get":
		c.HTTP.Methode = rapid.SampledFrom([]string{"GET", "get", "Get"}).Draw(t, "get")
	case "portconn-nan":
		c.HTTP.PortConn = rapid.SampledFrom(nanPorts).Draw(t, "nan")
	case "portbind-nan":
		c.HTTP.PortConn = ""
		c.HTTP.PortBind = rapid.SampledFrom(append([]string{""}, nanPorts...)).Draw(t, "nan")
	case "hostport-nan":
		i := rapid.IntRange(0, len(c.HTTP.Hosts)-1).Draw(t, "which-host")
		h := strings.Split(c.HTTP.Hosts[i], ":")[0]
		c.HTTP.Hosts[i] = h + ":" + rapid.SampledFrom(append([]string{""}, nanPorts...)).Draw(t, "nan")
	case "host-ipv6":
		i := rapid.IntRange(0, len(c.HTTP.Hosts)-1).Draw(t, "which-host")
		c.HTTP.Hosts[i] = rapid.SampledFrom(ipv6Rejected).Draw(t, "ipv6")
	case "host-ipv6-numeric":
		i := rapid.IntRange(0, len(c.HTTP.Hosts)-1).Draw(t, "which-host")
		c.HTTP.Hosts[i] = rapid.SampledFrom(ipv6NumericGroup).Draw(t, "ipv6")
	case "port-range":
		p := rapid.SampledFrom(rangePorts).Draw(t, "range")
		switch rapid.IntRange(0, 1).Draw(t, "where") {
		case 0:
			c.HTTP.PortConn = p
		default:
			i := rapid.IntRange(0, len(c.HTTP.Hosts)-1).Draw(t, "which-host")
			c.HTTP.Hosts[i] = strings.Split(c.HTTP.Hosts[i], ":")[0] + ":" + p
		}
	case "hours-bad":
		c.HTTP.WorkingHours = rapid.SampledFrom(badHours).Draw(t, "badhours")
		c.Pipe.WorkingHours = c.HTTP.WorkingHours
	case "hours-grey":
		c.HTTP.WorkingHours = rapid.SampledFrom(greyHours).Draw(t, "greyhours")
		c.Pipe.WorkingHours = c.HTTP.WorkingHours
	case "sleep-nan":
		c.Opts.Sleep = rapid.SampledFrom([]string{"abc", "", "1.5", "5s", "0x10"}).Draw(t, "nan")
	case "jitter-nan":
		c.Opts.Jitter = rapid.SampledFrom([]string{"abc", "", "1.5", "10%"}).Draw(t, "nan")
	case "jitter-range":
		c.Opts.Jitter = rapid.SampledFrom([]string{"101", "1000", "-1", "2147483647"}).Draw(t, "range")
	}
}

func genCaseA(t *rapid.T, allowBad bool) CaseA { return genCaseAScaled(t, allowBad, limBuild()) }

func genCaseAScaled(t *rapid.T, allowBad bool, lim scaleLim) CaseA {
	var c CaseA
	c.Opts = genOpts(t)
	c.SMB = rapid.IntRange(0, 3).Draw(t, "transport") == 0
	c.HTTP = genHTTP(t)
	c.Pipe = SMBL{PipeName: rapid.SampledFrom(pipePool).Draw(t, "pipe"), KillDate: rapid.SampledFrom(killDates).Draw(t, "pipe-killdate"), WorkingHours: genHours(t)}
	if v := rapid.IntRange(0, 39).Draw(t, "scale?"); v == 13 || v == 27 { // (inner values: rapid favours the ends of a range; about 1 case in 45)
		applyScale(t, &c, lim) // scale_test.go; the spoiling below is the "one more ordinary step" after the bulk
	}
	if allowBad && rapid.IntRange(0, 9).Draw(t, "spoil?") < 3 {
		n := 1
		if rapid.IntRange(0, 4).Draw(t, "spoil-two") == 0 {
			n = 2
		}
		var applied []string
		for i := 0; i < n; i++ {
			pool := spoils
			if c.SMB {
				pool = []string{"hours-bad", "hours-grey", "sleep-nan", "jitter-nan", "jitter-range"}
			}
			w := rapid.SampledFrom(pool).Draw(t, "spoil")
			spoil(t, &c, w)
			applied = append(applied, w)
		}
		c.Bad = strings.Join(applied, "+")
	}
	return c
}

func genA(t *rapid.T) CaseA { return genCaseAScaled(t, true, limA()) }

// ---------------------------------------------------------------------------- fixture

// configJSON is the document the client sends as Info["Config"]
// (client/src/UserInterface/Dialogs/Payload.cc:638-725 GetConfigAsJson: line edits as
// strings, check boxes as booleans, combo boxes as their text, "Injection" as sub-object).
func configJSON(o Opts, serviceName *string) string {
	m := map[string]any{
		"Sleep": o.Sleep, "Jitter": o.Jitter, "Indirect Syscall": o.Indirect, "Stack Duplication": o.StackDup,
		"Sleep Technique": o.Technique, "Sleep Jmp Gadget": o.Gadget, "Proxy Loading": o.ProxyLoading, "Amsi/Etw Patch": o.Amsi,
		"Injection": map[string]any{"Alloc": o.Alloc, "Execute": o.Execute, "Spawn64": o.Spawn64, "Spawn32": o.Spawn32},
	}
	if serviceName != nil {
		m["Service Name"] = *serviceName
	}
	b, _ := json.Marshal(m)
	return string(b)
}

func httpListener(l HTTPL) *handlers.HTTP {
	h := handlers.NewConfigHttp()
	h.Config = handlers.HTTPConfig{
		Name: "c13-http", KillDate: l.KillDate, WorkingHours: l.WorkingHours,
		Hosts: append([]string(nil), l.Hosts...), HostBind: "0.0.0.0", Methode: l.Methode, HostRotation: l.HostRotation,
		PortBind: l.PortBind, PortConn: l.PortConn, UserAgent: l.UserAgent,
		Headers: append([]string(nil), l.Headers...), Uris: append([]string(nil), l.Uris...),
		HostHeader: l.HostHeader, Secure: l.Secure,
	}
	h.Config.Proxy.Enabled = l.ProxyEnabled
	h.Config.Proxy.Type, h.Config.Proxy.Host, h.Config.Proxy.Port = l.ProxyType, l.ProxyHost, l.ProxyPort
	h.Config.Proxy.Username, h.Config.Proxy.Password = l.ProxyUser, l.ProxyPass
	return h
}

func copyHTTPConfig(c handlers.HTTPConfig) handlers.HTTPConfig {
	c.Hosts = append([]string(nil), c.Hosts...)
	c.Headers = append([]string(nil), c.Headers...)
	c.Uris = append([]string(nil), c.Uris...)
	c.Response.Headers = append([]string(nil), c.Response.Headers...)
	return c
}

type consoleMsg struct{ Type, Text string }

// newBuilder prepares a builder the way dispatch.go does.
func newBuilder(cfg builder.BuilderConfig, confJSON string, arch, format int, ext string, lType int, lCfg any, msgs *[]consoleMsg) (*builder.Builder, error) {
	b := builder.NewBuilder(cfg)
	b.ClientId = "verif"
	b.SendConsoleMessage = func(t, m string) { *msgs = append(*msgs, consoleMsg{t, m}) }
	if err := b.SetConfig(confJSON); err != nil {
		return nil, err
	}
	b.SetArch(arch)
	b.SetFormat(format)
	b.SetListener(lType, lCfg)
	b.SetExtension(ext)
	return b, nil
}

// ---------------------------------------------------------------------------- oracle

var digits = regexp.MustCompile(`^[0-9]+$`)

// portOf: ok=false, why="nan" when s is not a decimal number; why="range" when it is
// not a TCP port (WinHttpConnect takes an INTERNET_PORT, a 16-bit word).
func portOf(s string) (uint32, string) {
	neg := strings.HasPrefix(s, "-") && digits.MatchString(s[1:])
	if !digits.MatchString(s) && !neg {
		return 0, "nan"
	}
	v, err := strconv.ParseInt(s, 10, 64)
	if err != nil || v < 1 || v > 65535 {
		return 0, "range"
	}
	return uint32(v), ""
}

func portIs(s string) bool { _, why := portOf(s); return why == "" }

type expectation struct {
	MustFail []string // reasons why no payload may be produced
	Grey     bool     // tolerated either way (grey working hours)
}

func intOK(s string, min, max int64) string {
	if !digits.MatchString(s) && !(strings.HasPrefix(s, "-") && digits.MatchString(s[1:])) {
		return "not-a-number"
	}
	v, err := strconv.ParseInt(s, 10, 64)
	if err != nil || v < min || v > max {
		return "out-of-range"
	}
	return ""
}

func expect(c CaseA) expectation {
	var e expectation
	if w := intOK(c.Opts.Sleep, 0, 0xffffffff); w != "" {
		e.MustFail = append(e.MustFail, "sleep-"+w)
	}
	if w := intOK(c.Opts.Jitter, 0, 100); w != "" {
		e.MustFail = append(e.MustFail, "jitter-"+w)
	}
	hours := c.HTTP.WorkingHours
	if c.SMB {
		hours = c.Pipe.WorkingHours
	}
	hv := judgeHours(hours)
	if hv.MustReject {
		e.MustFail = append(e.MustFail, "hours-"+hv.Why)
	} else if !hv.Empty && !hv.MustAccept {
		e.Grey = true
	}
	if !c.SMB {
		if strings.EqualFold(c.HTTP.Methode, "get") {
			e.MustFail = append(e.MustFail, "method-get") // the Demon only implements POST (builder.go documents it)
		}
		needFallback := false
		for _, h := range c.HTTP.Hosts {
			if i := strings.Index(h, ":"); i >= 0 {
				if _, why := portOf(h[i+1:]); why != "" {
					if f := strings.SplitN(h[i+1:], ":", 2); len(f) == 2 && portIs(f[0]) {
						// more than one ':' and a number between the first two (an IPv6
						// literal such as 2001:470::1): same verdict, a name of its own
						why = "extra-colon-after-number"
					}
					e.MustFail = append(e.MustFail, "host-port-"+why)
				}
			} else {
				needFallback = true
			}
		}
		// the fallback port (PortConn, else PortBind) matters only for hosts without a port
		// of their own; a broken fallback nobody uses is tolerated either way
		fb, name := c.HTTP.PortConn, "portconn-"
		if fb == "" {
			fb, name = c.HTTP.PortBind, "portbind-"
		}
		if _, why := portOf(fb); why != "" {
			if needFallback {
				e.MustFail = append(e.MustFail, name+why)
			} else {
				e.Grey = true
			}
		}
	}
	e.MustFail = uniqS(e.MustFail)
	return e
}

func uniqS(in []string) []string {
	m := map[string]bool{}
	var out []string
	for _, s := range in {
		if !m[s] {
			m[s] = true
			out = append(out, s)
		}
	}
	return out
}

func slug(s string) string { return strings.ReplaceAll(strings.ToLower(s), " ", "-") }

// verifyFields compares the block as the Demon reads it with what the operator chose.
func verifyFields(c CaseA, raw []byte, report func(*core.Violation)) {
	d := readConfig(raw, c.SMB)
	bad := func(field, qual, f string, a ...any) {
		sig := "field|" + field
		if qual != "" {
			sig += "|" + qual
		}
		report(core.V(sig, "%s: "+f, append([]any{field}, a...)...))
	}
	if d.Overrun {
		report(core.V("field|block-too-short", "DemonConfig() reads past the end of the %d-byte block", len(raw)))
		return
	}
	o := c.Opts
	if v, _ := strconv.ParseInt(o.Sleep, 10, 64); uint32(v) != d.Sleep {
		bad("Sleeping", "", "Demon reads %d, operator chose %s", d.Sleep, o.Sleep)
	}
	if v, _ := strconv.ParseInt(o.Jitter, 10, 64); uint32(v) != d.Jitter {
		bad("Jitter", "", "Demon reads %d, operator chose %s", d.Jitter, o.Jitter)
	}
	if d.Alloc != allocChoices[o.Alloc] {
		bad("Memory.Alloc", "", "Demon reads %d, operator chose %q (= %d) with Execute %q", d.Alloc, o.Alloc, allocChoices[o.Alloc], o.Execute)
	}
	if d.Execute != executeChoices[o.Execute] {
		bad("Memory.Execute", "", "Demon reads %d, operator chose %q (= %d) with Alloc %q", d.Execute, o.Execute, executeChoices[o.Execute], o.Alloc)
	}
	str := func(field string, got WStr, want string, needTerm bool) {
		if got.S != want {
			bad(field, "", "Demon reads %q, configured %q", got.S, want)
		} else if needTerm && !got.Terminated {
			bad(field, "unterminated", "the C side allocates exactly Length bytes for %q but the field carries no terminator", want)
		}
	}
	str("Process.Spawn64", d.Spawn64, o.Spawn64, true)
	str("Process.Spawn86", d.Spawn86, o.Spawn32, true)

	tech := techniqueChoices[o.Technique]
	gq := "gadget=" + slug(o.Gadget)
	if d.Technique != tech {
		bad("SleepMaskTechnique", gq, "Demon reads %d, operator chose %q (= %d) with gadget %q", d.Technique, o.Technique, tech, o.Gadget)
	}
	wantGadget := gadgetChoices[o.Gadget]
	// without sleep obfuscation the gadget and the stack duplication are unused by the
	// Demon (Obf.c:378-590 is only entered for Ekko/Zilean) and the builder tells the
	// operator that the option is ignored: the chosen value or 0 are both fine there.
	if !(d.JmpBypass == wantGadget || (tech == sleepObfNoObf && d.JmpBypass == 0)) {
		bad("SleepJmpBypass", gq, "Demon reads %d, operator chose %q (= %d) with technique %q", d.JmpBypass, o.Gadget, wantGadget, o.Technique)
	}
	wantSpoof := uint32(0)
	if o.StackDup {
		wantSpoof = 1
	}
	if !((d.StackSpoof != 0) == (wantSpoof != 0) || (tech == sleepObfNoObf && d.StackSpoof == 0)) {
		bad("StackSpoof", "", "Demon reads %d, operator chose %v with technique %q", d.StackSpoof, o.StackDup, o.Technique)
	}
	if d.ProxyLoading != proxyLoadChoices[o.ProxyLoading] {
		bad("ProxyLoading", "", "Demon reads %d, operator chose %q (= %d)", d.ProxyLoading, o.ProxyLoading, proxyLoadChoices[o.ProxyLoading])
	}
	if (d.SysIndirect != 0) != o.Indirect {
		bad("SysIndirect", "", "Demon reads %d, operator chose %v", d.SysIndirect, o.Indirect)
	}
	if d.AmsiEtwPatch != amsiChoices[o.Amsi] {
		bad("AmsiEtwPatch", "", "Demon reads %d, operator chose %q (= %d)", d.AmsiEtwPatch, o.Amsi, amsiChoices[o.Amsi])
	}

	hoursStr, kill := c.HTTP.WorkingHours, c.HTTP.KillDate
	if c.SMB {
		hoursStr, kill = c.Pipe.WorkingHours, c.Pipe.KillDate
	}
	if d.KillDate != uint64(kill) {
		bad("Transport.KillDate", "", "Demon reads %d, listener has %d", d.KillDate, kill)
	}
	hv := judgeHours(hoursStr)
	got := unpackHours(d.WorkingHours)
	if hv.Empty {
		if got.Enabled {
			bad("Transport.WorkingHours", "enabled-without-hours", "word %#x has the enabled bit, no working hours configured", d.WorkingHours)
		}
	} else if got != hv.H {
		bad("Transport.WorkingHours", "", "word %#x unpacks to %+v, listener has %q", d.WorkingHours, got, hoursStr)
	}

	if c.SMB {
		// TransportSmb.c passes Config.Transport.Name to CreateNamedPipeW: a full pipe path
		str("Transport.Name", d.PipeName, `\\.\pipe\`+c.Pipe.PipeName, true)
		return
	}
	l := c.HTTP
	str("Transport.Method", d.Method, "POST", false)
	if d.HostRotation != rotationChoices[l.HostRotation] {
		bad("Transport.HostRotation", "", "Demon reads %d, listener has %q (= %d)", d.HostRotation, l.HostRotation, rotationChoices[l.HostRotation])
	}
	fallback := l.PortConn
	fbq := "portconn-set"
	if fallback == "" {
		fallback, fbq = l.PortBind, "portconn-unset"
	}
	if len(d.Hosts) != len(l.Hosts) {
		bad("Transport.Hosts", "count", "Demon reads %d hosts, listener has %d (%v)", len(d.Hosts), len(l.Hosts), l.Hosts)
	} else {
		wantOf := map[string]string{} // one lookup per distinct host part and comparison
		for i, h := range l.Hosts {
			name, port, q := h, fallback, "fallback-port|"+fbq
			if j := strings.Index(h, ":"); j >= 0 {
				name, port, q = h[:j], h[j+1:], "own-port"
			}
			wp, _ := portOf(port)
			// a host that is the name of an interface of this machine stands for that
			// interface's IPv4 address (looked up by the harness itself); anything else
			// is packed as written
			want, ok := wantOf[name]
			if !ok {
				want = wantHostName(name)
				wantOf[name] = want
			}
			if d.Hosts[i].Host.S != want {
				nq := "name"
				if want != name {
					nq = "name|interface-name"
					if q == "own-port" {
						nq += "+port"
					}
				}
				bad("Transport.Hosts", nq, "host %d: Demon reads %q, listener has %q (expected host %q)", i, d.Hosts[i].Host.S, h, want)
			}
			if d.Hosts[i].Port != wp {
				bad("Transport.Hosts", "port|"+q, "host %d (%q): Demon reads port %d, expected %d (PortConn %q, PortBind %q)", i, h, d.Hosts[i].Port, wp, l.PortConn, l.PortBind)
			}
		}
	}
	if (d.Secure != 0) != l.Secure {
		bad("Transport.Secure", "", "Demon reads %d, listener has %v", d.Secure, l.Secure)
	}
	str("Transport.UserAgent", d.UserAgent, l.UserAgent, false)

	wantHdrs := append([]string(nil), l.Headers...)
	if l.HostHeader != "" {
		wantHdrs = append(wantHdrs, "Host: "+l.HostHeader)
	}
	var gotHdrs []string
	for _, h := range d.Headers {
		gotHdrs = append(gotHdrs, h.S)
	}
	cmp := gotHdrs
	if len(l.Headers) == 0 && len(cmp) > 0 && cmp[0] == "Content-type: */*" {
		cmp = cmp[1:] // the documented default header when the listener configures none
	}
	if !reflect.DeepEqual(append([]string{}, cmp...), append([]string{}, wantHdrs...)) {
		q := "host-header-unset"
		if l.HostHeader != "" {
			q = "host-header-set"
		}
		bad("Transport.Headers", q, "Demon reads %q, listener has headers %q and host header %q", gotHdrs, l.Headers, l.HostHeader)
	}
	wantUris := l.Uris
	if len(wantUris) == 0 {
		wantUris = []string{"/"}
	}
	var gotUris []string
	for _, u := range d.Uris {
		gotUris = append(gotUris, u.S)
	}
	if !reflect.DeepEqual(gotUris, wantUris) {
		bad("Transport.Uris", "", "Demon reads %q, listener has %q", gotUris, l.Uris)
	}
	if d.ProxyEnabled != l.ProxyEnabled {
		bad("Transport.Proxy.Enabled", "", "Demon reads %v, listener has %v", d.ProxyEnabled, l.ProxyEnabled)
	} else if l.ProxyEnabled {
		str("Transport.Proxy.Url", d.ProxyUrl, l.ProxyType+"://"+l.ProxyHost+":"+l.ProxyPort, false)
		// Demon.c:741/751: a Length of 0 means "no credentials"; a terminated empty string has Length 2
		str("Transport.Proxy.Username", d.ProxyUser, l.ProxyUser, true)
		str("Transport.Proxy.Password", d.ProxyPass, l.ProxyPass, true)
	}
}

func listenerOf(c CaseA) (int, any) {
	if c.SMB {
		s := &handlers.SMB{}
		s.Config = handlers.SMBConfig{Name: "c13-smb", PipeName: c.Pipe.PipeName, KillDate: c.Pipe.KillDate, WorkingHours: c.Pipe.WorkingHours}
		return handlers.LISTENER_PIVOT_SMB, s
	}
	return handlers.LISTENER_HTTP, httpListener(c.HTTP)
}

func errClass(err error) string {
	s := err.Error()
	if i := strings.Index(s, ":"); i > 0 {
		s = s[:i]
	}
	if len(s) > 50 {
		s = s[:50]
	}
	return slug(s)
}

func runA(c CaseA, report func(*core.Violation)) {
	lType, lCfg := listenerOf(c)
	var before handlers.HTTPConfig
	var beforeSMB handlers.SMBConfig
	if c.SMB {
		beforeSMB = lCfg.(*handlers.SMB).Config
	} else {
		before = copyHTTPConfig(lCfg.(*handlers.HTTP).Config)
	}
	conf := configJSON(c.Opts, nil)
	e := expect(c)

	var msgs []consoleMsg
	patch := func() ([]byte, error, bool) {
		// one payload build = one Builder (dispatch.go:848-909) against the live listener object
		b, err := newBuilder(builder.BuilderConfig{}, conf, builder.ARCHITECTURE_X64, builder.FILETYPE_WINDOWS_EXE, ".x64.exe", lType, lCfg, &msgs)
		if err != nil {
			report(core.V("patch|SetConfig-rejected-client-json", "SetConfig(%s): %v", conf, err))
			return nil, nil, false
		}
		out, err := b.PatchConfig()
		return out, err, true
	}
	unchanged := func(when string) {
		if c.SMB {
			if lCfg.(*handlers.SMB).Config != beforeSMB {
				report(core.V("repeat|listener-mutated|smb", "%s: SMB listener config changed from %+v to %+v", when, beforeSMB, lCfg.(*handlers.SMB).Config))
			}
			return
		}
		now := lCfg.(*handlers.HTTP).Config
		if !reflect.DeepEqual(copyHTTPConfig(now), before) {
			field := "other"
			switch {
			case !reflect.DeepEqual(append([]string{}, now.Headers...), append([]string{}, before.Headers...)):
				field = "Headers"
			case !reflect.DeepEqual(append([]string{}, now.Uris...), append([]string{}, before.Uris...)):
				field = "Uris"
			case !reflect.DeepEqual(append([]string{}, now.Hosts...), append([]string{}, before.Hosts...)):
				field = "Hosts"
			}
			report(core.V("repeat|listener-mutated|"+field, "%s: the live listener's configuration changed: Headers %q -> %q (host header %q)", when, before.Headers, now.Headers, before.HostHeader))
		}
	}

	out1, err1, ok := patch()
	if !ok {
		return
	}
	if len(e.MustFail) > 0 {
		if err1 == nil || len(out1) > 0 {
			report(core.V("patch|accepted-unencodable|"+e.MustFail[0], "PatchConfig produced %d bytes (err=%v) although the settings cannot be encoded: %v; options %+v listener %+v %+v", len(out1), err1, e.MustFail, c.Opts, c.HTTP, c.Pipe))
		}
		unchanged("after a rejected build")
		return
	}
	if err1 != nil {
		if e.Grey {
			return
		}
		report(core.V("patch|unexpected-error|"+errClass(err1), "PatchConfig failed on an encodable configuration: %v; console %v; options %+v listener %+v %+v", err1, msgs, c.Opts, c.HTTP, c.Pipe))
		return
	}
	verifyFields(c, out1, report)
	unchanged("after one build")

	out2, err2, ok := patch()
	if !ok {
		return
	}
	if err2 != nil || !bytes.Equal(out1, out2) {
		q := "other"
		if !c.SMB && c.HTTP.HostHeader != "" && len(c.HTTP.Headers) > 0 {
			q = "headers-and-host-header"
		}
		var h2 []string
		if err2 == nil {
			for _, h := range readConfig(out2, c.SMB).Headers {
				h2 = append(h2, h.S)
			}
		}
		report(core.V("repeat|bytes-differ|"+q, "a second payload for the same listener gets a different block (err=%v): %d vs %d bytes; headers now %q", err2, len(out1), len(out2), h2))
	}
	unchanged("after two builds")
}

func checkA(c CaseA) *core.Violation {
	var all []*core.Violation
	runA(c, func(v *core.Violation) { all = append(all, v) })
	return pick.First("C13", all)
}

// ---------------------------------------------------------------------------- classification

func nonDefaults(o Opts) int {
	n := 0
	// defaults of the client dialog (Payload.cc:557-594)
	if o.Indirect {
		n++
	}
	if o.StackDup {
		n++
	}
	if o.Technique != "WaitForSingleObjectEx" {
		n++
	}
	if o.Gadget != "None" {
		n++
	}
	if o.ProxyLoading != "None (LdrLoadDll)" {
		n++
	}
	if o.Amsi != "None" {
		n++
	}
	if o.Alloc != "Native/Syscall" {
		n++
	}
	if o.Execute != "Native/Syscall" {
		n++
	}
	return n
}

func classifyA(c CaseA) core.Class {
	var cl core.Class
	o := c.Opts
	cl.Labels = append(cl.Labels, "technique:"+o.Technique, "gadget:"+o.Gadget, "proxyloading:"+o.ProxyLoading, "amsi:"+o.Amsi,
		"alloc:"+o.Alloc, "execute:"+o.Execute, fmt.Sprintf("indirect:%v", o.Indirect), fmt.Sprintf("stackdup:%v", o.StackDup))
	e := expect(c)
	kind := "encodable"
	if len(e.MustFail) > 0 {
		kind = "unencodable:" + e.MustFail[0]
	} else if e.Grey {
		kind = "grey"
	}
	cl.Labels = append(cl.Labels, kind)
	tr := "http"
	if c.SMB {
		tr = "smb"
		cl.Labels = append(cl.Labels, "transport:smb")
	} else {
		l := c.HTTP
		withPort := 0
		for _, h := range l.Hosts {
			if strings.Contains(h, ":") {
				withPort++
			}
		}
		hp := "mixed"
		if withPort == 0 {
			hp = "none-with-port"
		} else if withPort == len(l.Hosts) {
			hp = "all-with-port"
		}
		cl.Labels = append(cl.Labels, "transport:http", fmt.Sprintf("hosts:%d", len(l.Hosts)), "host-ports:"+hp, fmt.Sprintf("portconn-set:%v", l.PortConn != ""),
			fmt.Sprintf("headers:%d", len(l.Headers)), fmt.Sprintf("host-header:%v", l.HostHeader != ""), fmt.Sprintf("uris:%d", len(l.Uris)),
			fmt.Sprintf("proxy:%v", l.ProxyEnabled), "rotation:"+l.HostRotation, fmt.Sprintf("secure:%v", l.Secure), fmt.Sprintf("hours-set:%v", l.WorkingHours != ""))
		cl.Labels = append(cl.Labels, hostLabels(l.Hosts)...)
		if l.ProxyEnabled && isIface(l.ProxyHost) {
			cl.Labels = append(cl.Labels, "proxy-host:interface-name")
		}
		tr = fmt.Sprintf("http|%s|hh+h=%v", hp, l.HostHeader != "" && len(l.Headers) > 0)
	}
	sl := scaleLabels(c)
	cl.Labels = append(cl.Labels, sl...)
	if len(sl) > 0 {
		tr += "|scale"
	}
	nd := nonDefaults(o)
	cl.NonTrivial = nd >= 2 || len(e.MustFail) > 0
	ndb := "0-1"
	if nd >= 4 {
		ndb = "4+"
	} else if nd >= 2 {
		ndb = "2-3"
	}
	if len(e.MustFail) > 0 {
		// an unencodable case is characterised by what is wrong, not by the options
		cl.Fingerprint = fmt.Sprintf("%s|%s", kind, tr)
	} else {
		cl.Fingerprint = fmt.Sprintf("%s|%s|%s|nd=%s|%s", kind, o.Technique, o.Gadget, ndb, tr)
	}
	return cl
}

func TestC13a(t *testing.T) {
	core.Run(t, core.Spec[CaseA]{
		Property: "C13", Sub: "a",
		Rule: "build options as the client sends them (every combo-box choice of Sleep Technique, Sleep Jmp Gadget, Proxy Loading, Amsi/Etw Patch, Injection Alloc/Execute; both check boxes; Sleep 0..2^31-1 and Jitter 0..100 incl. boundaries; spawn paths incl. spaces and non-BMP characters) x listener (HTTP: 1-4 hosts with/without ':port', PortConn set/unset with PortBind fallback, TLS, user agent, 0-4 headers +/- host header, 0-4 URIs, proxy with/without credentials, method spelling, rotation, kill date, working hours; SMB: pipe name, kill date, working hours), 30% spoiled with one or two unencodable settings (method GET, non-numeric / out-of-range port in PortConn, PortBind or a host, malformed / out-of-range / inverted working hours, non-numeric sleep or jitter, jitter outside 0..100). Builder driven as dispatch.go does; oracle: PatchConfig() bytes parsed by a transcription of DemonConfig() equal the chosen options (integers as the Demon's C headers define them) and listener settings; a second Builder on the same listener yields identical bytes and the listener's config stays deep-equal to a copy; unencodable => error and no bytes. Non-trivial: >=2 options away from the client's defaults, or an unencodable setting; distinct = (outcome class, technique, gadget, #non-defaults, transport shape). HOST VALUES (every sub-check that generates a listener draws them, labels host:<class>[+port]): the host part of every entry of Hosts is one of {name / IPv4 address of the fixed pool 8/20 | the NAME of a network interface this machine really has, with an IPv4 address (net.Interfaces() at run time; e.g. lo, eth0) 4/20 | such a name in another letter case (LO, Lo) 2/20 | a proper prefix, suffix or extension of such a name (l, o, lo0, lox, xlo, lo-1, lolo) 2/20 | the name of an interface without IPv4 address 1/20 | an IPv4 literal incl. 0.0.0.0, 255.255.255.255 and the interfaces' own addresses 2/20 | a pool name or an interface name with a trailing dot 1/20}, each with and without ':port' (half each), combined with the PortConn / PortBind fallback; the proxy host is an interface name in 1 case of 3 or so. Oracle for a host (HEAD's documented rule): an entry whose host part is byte-exactly the name of an interface with an IPv4 address is packed as that interface's first IPv4 address - looked up by the harness with net.InterfaceByName(name).Addrs() at the moment of the comparison - with the entry's own port, or the fallback port if it has none; every other host part (other letter case, prefix/extension, trailing dot, interface without IPv4, literal) is packed as written; order as in the listener. The proxy host is always packed as written. Two more ways to spoil a listener: an IPv6 literal as host entry, with or without brackets and port (::1, fe80::1, 2001:db8::1, [::1]:443, ...): the text after the first ':' is not a port number, so the build must fail (label host:ipv6*); and an IPv6 literal whose second group is a decimal number (2001:470::1, [2001:470::1]:443; label ...|numeric-second-group): the same verdict under the reason host-port-extra-colon-after-number. SCALE (about 1 configuration in 45 of every sub-check that generates one; labels scale:<what>:<bucket>, buckets 64-129, 255-513, 999-1025, 2047-4097, 8191+): one (1 in 4: two) of {a NUMBER of hosts from the threshold-adjacent pool 63,64,65,127,128,129,255,256,257 (cut there in the quick tier because HEAD asks the kernel for the interface table once per host; up to 1025 in the thorough tier; up to 65 where Build() follows) with short names, names of 63-253 characters, a mix, or every fourth an interface name, every second with ':port' | a NUMBER of headers | of URIs from 63..1025 (thorough: ..8193; 129 where Build() follows), values of 1-129 characters | the LENGTH of one string field - spawn path, pipe name, user agent, a header, a URI, host header, proxy host / user / password: 63..8193 UTF-16 code units (..2049 where Build() follows, as far as the block stays below 4096+64 bytes); a host name: 63..253 characters - filled with ASCII, BMP or non-BMP characters | the TOTAL size of the packed block: one of those fields padded so that the block has exactly B+d bytes, B in 4096, 8192, 16384, 65536 (4096 only where Build() follows), d even in -64..+64 and dense in -12..+12, the size being computed by the harness from the Demon's reading order}; the ordinary generator's hosts / headers / URIs stay in the list - first, in the middle of and after the bulk - and spoiling is applied afterwards. PatchConfig has no limits of its own on HEAD; the oracle is the same field-by-field reading",
		Gen:  genA, Check: checkA, Classify: classifyA,
		Assumptions: []string{
			"option strings are exactly the choices the client's payload dialog offers; the config document has the client's shape (all keys present)",
			"host entries are names, IPv4 literals or names of this machine's network interfaces (the builder's rule: an interface name stands for the interface's first IPv4 address; names compare exactly, as net.InterfaceByName does); the set of interfaces and their addresses does not change during a run; interface names containing ':' ',' or a blank are not used",
			"without sleep obfuscation the jump gadget and stack duplication are unused by the Demon: the chosen value or 0 is accepted",
			"a listener without headers may get the builder's documented default header 'Content-type: */*'; without URIs the URI is '/'",
			"a port outside 1..65535 counts as unencodable (the Demon hands it to WinHttpConnect as a 16-bit INTERNET_PORT)",
			"working hours 24:xx / x:60 and start == end are tolerated either way; when accepted they must still unpack to the same numbers",
		},
	})
}

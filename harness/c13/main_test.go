package c13

// Process fixture for C13.
//
// builder.NewBuilder() takes its source path from the process working directory
// (utils.GetTeamserverPath() = os.Getwd(), + "/payloads/Demon"), Build() lists
// src/{core,crypt,inject,asm} there, runs every command with that directory as cwd and
// reads payloads/Shellcode.<arch>.bin for the shellcode format.  The test binary
// therefore runs inside a private root that mirrors the *names* of the real source
// tree (empty files: the stub compiler never reads them), so that nothing a build
// command does can touch /repo.

import (
	"fmt"
	"os"
	"path/filepath"
	"testing"

	"verifharness/internal/tsx"
)

var procRoot string

func mirrorTree(root string) error {
	src := demonSrc + "/src"
	err := filepath.Walk(src, func(p string, info os.FileInfo, err error) error {
		if err != nil {
			return err
		}
		rel, _ := filepath.Rel(demonSrc, p)
		dst := filepath.Join(root, "payloads", "Demon", rel)
		if info.IsDir() {
			return os.MkdirAll(dst, 0o755)
		}
		return os.WriteFile(dst, nil, 0o644)
	})
	if err != nil {
		return err
	}
	if err := os.MkdirAll(filepath.Join(root, "payloads", "Demon", "include"), 0o755); err != nil {
		return err
	}
	for _, n := range []string{"Shellcode.x64.bin", "Shellcode.x86.bin"} {
		if err := os.WriteFile(filepath.Join(root, "payloads", n), []byte("SHELLCODE-TEMPLATE:"+n), 0o644); err != nil {
			return err
		}
	}
	return nil
}

func TestMain(m *testing.M) {
	tsx.Quiet()
	if err := verifyHeaderConstants(); err != nil {
		fmt.Fprintln(os.Stderr, "C13: the reference constants no longer match the Demon headers:", err)
		os.Exit(2)
	}
	root, err := os.MkdirTemp("", "verif-c13-")
	if err != nil {
		fmt.Fprintln(os.Stderr, err)
		os.Exit(2)
	}
	procRoot = root
	if err := mirrorTree(root); err != nil {
		fmt.Fprintln(os.Stderr, "C13: cannot mirror the source tree:", err)
		os.RemoveAll(root)
		os.Exit(2)
	}
	if err := os.Chdir(root); err != nil {
		fmt.Fprintln(os.Stderr, err)
		os.RemoveAll(root)
		os.Exit(2)
	}
	removeOldLitter()
	code := m.Run()
	removeStrayDirs()
	os.Chdir("/")
	os.RemoveAll(root)
	os.Exit(code)
}

package c13

// Host-value classes for every place C13 generates a listener's Hosts.
//
// HEAD's rule for one entry of Hosts (builder.go PatchConfig, host loop): the entry is
// split at ':'; the part before the first ':' is the host, the part after it (when there
// is one) the port, otherwise the listener's PortConn / PortBind is used; a host that is
// the NAME of a network interface of the teamserver machine stands for that interface's
// first IPv4 address (common.GetInterfaceIpv4Addr: net.InterfaceByName - an exact,
// case-sensitive comparison - then the first address with an IPv4 form; an interface
// without one, or any other string, stays as written).
//
// The expected address is looked up here with net.InterfaceByName(...).Addrs(), at the
// moment of the comparison; nothing of Havoc's is used for it.

import (
	"net"
	"sort"
	"strings"

	"pgregory.net/rapid"
)

var (
	ifaceWithV4    []string // names of this machine's interfaces that have an IPv4 address (sorted)
	ifaceWithoutV4 []string // names of those that have none (sorted)
	ifaceAddrs     []string // the IPv4 addresses of ifaceWithV4
	ifaceV4Map     = map[string]string{}
)

func init() {
	ifs, err := net.Interfaces()
	if err != nil {
		return
	}
	for _, ifi := range ifs {
		// names that would not survive the host grammar (':' separates the port, the
		// dialog joins the list with ", ") are left out
		if ifi.Name == "" || strings.ContainsAny(ifi.Name, ":, ") {
			continue
		}
		if a, ok := ifaceIPv4(ifi.Name); ok {
			ifaceWithV4 = append(ifaceWithV4, ifi.Name)
			ifaceAddrs = append(ifaceAddrs, a)
			ifaceV4Map[ifi.Name] = a
		} else {
			ifaceWithoutV4 = append(ifaceWithoutV4, ifi.Name)
		}
	}
	sort.Strings(ifaceWithV4)
	sort.Strings(ifaceWithoutV4)
	sort.Strings(ifaceAddrs)
}

// ifaceIPv4: the harness's own lookup of "the IPv4 address of the interface called name".
func ifaceIPv4(name string) (string, bool) {
	ifi, err := net.InterfaceByName(name)
	if err != nil || ifi == nil {
		return "", false
	}
	addrs, err := ifi.Addrs()
	if err != nil {
		return "", false
	}
	for _, a := range addrs {
		var ip net.IP
		switch v := a.(type) {
		case *net.IPNet:
			ip = v.IP
		case *net.IPAddr:
			ip = v.IP
		}
		if v4 := ip.To4(); v4 != nil {
			return v4.String(), true
		}
	}
	return "", false
}

// wantHostName: what the Demon has to be told for the host part of an entry.
func wantHostName(name string) string {
	if a, ok := ifaceIPv4(name); ok {
		return a
	}
	return name
}

func isIface(name string) bool {
	for _, n := range ifaceWithV4 {
		if n == name {
			return true
		}
	}
	for _, n := range ifaceWithoutV4 {
		if n == name {
			return true
		}
	}
	return false
}

// otherCase: spellings of an interface name in another letter case (none when the name
// has no letters, or when the other spelling is an interface of its own).
func otherCase(name string) []string {
	var out []string
	title := strings.ToUpper(name[:1]) + name[1:]
	for _, s := range []string{strings.ToUpper(name), strings.ToLower(name), title} {
		if s != name && !isIface(s) {
			out = append(out, s)
		}
	}
	return uniqS(out)
}

// affixes: strings that are a proper prefix of an interface name, or have one as a proper
// prefix / suffix (lo -> l, lo0, lox, xlo, lo-1), none of them an interface itself.
func affixes(name string) []string {
	var out []string
	cands := []string{name + "0", name + "x", "x" + name, name + "-1", name + name}
	if len(name) > 1 {
		cands = append(cands, name[:len(name)-1], name[1:])
	}
	for _, s := range cands {
		if s != "" && !isIface(s) {
			out = append(out, s)
		}
	}
	return uniqS(out)
}

var (
	ipv4Literals = []string{"127.0.0.1", "0.0.0.0", "255.255.255.255", "10.0.0.1", "192.0.2.77", "1.1.1.1"}
	// IPv6 literals HEAD's grammar has no room for: the field after the first ':' is
	// empty or not a number, so the build has to fail (the port reading of (a))
	ipv6Rejected = []string{"::1", "::", "fe80::1", "2001:db8::1", "::ffff:10.0.0.1", "[::1]", "[2001:db8::1]", "[::1]:443", "[2001:db8::1]:8443", "[fe80::1]:80", "fd00::2"}
	// IPv6 literals whose second group happens to be a decimal number in 1..65535
	ipv6NumericGroup = []string{"2001:470::1", "2001:470:1f0b::1", "[2001:470::1]:443", "2a00:1450:4001::e", "2001:443::", "fd00:8443::2"}
)

// genHostName draws the host part of one entry.  The classes:
//
//	name/IPv4 of the fixed pool (the former generator) | the name of an interface of
//	this machine that has an IPv4 address | such a name in another letter case | a
//	proper prefix / extension of such a name | the name of an interface without IPv4
//	address | an IPv4 literal incl. the interfaces' own addresses | a name with a
//	trailing dot (pool name or interface name)
func genHostName(t *rapid.T) string {
	k := rapid.IntRange(0, 19).Draw(t, "host-class")
	pool := func() string { return rapid.SampledFrom(hostPool).Draw(t, "host") }
	switch {
	case k < 8:
		return pool()
	case k < 12: // interface name
		if len(ifaceWithV4) == 0 {
			return pool()
		}
		return rapid.SampledFrom(ifaceWithV4).Draw(t, "iface")
	case k < 14: // other letter case
		if len(ifaceWithV4) == 0 {
			return pool()
		}
		oc := otherCase(rapid.SampledFrom(ifaceWithV4).Draw(t, "iface"))
		if len(oc) == 0 {
			return pool()
		}
		return rapid.SampledFrom(oc).Draw(t, "iface-case")
	case k < 16: // prefix / extension
		if len(ifaceWithV4) == 0 {
			return pool()
		}
		af := affixes(rapid.SampledFrom(ifaceWithV4).Draw(t, "iface"))
		if len(af) == 0 {
			return pool()
		}
		return rapid.SampledFrom(af).Draw(t, "iface-affix")
	case k < 17: // interface without an IPv4 address
		if len(ifaceWithoutV4) == 0 {
			return pool()
		}
		return rapid.SampledFrom(ifaceWithoutV4).Draw(t, "iface-no-v4")
	case k < 19: // IPv4 literal
		return rapid.SampledFrom(append(append([]string(nil), ipv4Literals...), ifaceAddrs...)).Draw(t, "ipv4")
	default: // trailing dot
		if len(ifaceWithV4) > 0 && rapid.Bool().Draw(t, "dot-on-iface") {
			return rapid.SampledFrom(ifaceWithV4).Draw(t, "iface") + "."
		}
		return pool() + "."
	}
}

// hostClassOf names the class of a whole entry (from its value, not from the draw).
func hostClassOf(entry string) string {
	name, port := entry, ""
	if i := strings.Index(entry, ":"); i >= 0 {
		var rest string
		name, rest = entry[:i], entry[i+1:]
		if strings.Contains(rest, ":") || strings.HasPrefix(name, "[") {
			// an IPv6 literal (more than one ':', or brackets)
			cls := "ipv6"
			if strings.HasPrefix(name, "[") {
				cls = "ipv6-bracketed"
				if j := strings.LastIndex(entry, "]:"); j >= 0 {
					cls += "+port"
				}
			}
			if strings.Contains(rest, ":") {
				if _, why := portOf(strings.SplitN(rest, ":", 2)[0]); why == "" {
					cls += "|numeric-second-group"
				}
			}
			return cls
		}
		port = "+port"
	}
	cls := "name"
	switch {
	case ifaceV4Map[name] != "": // (as at start-up: a label only)
		cls = "interface-name"
	case isIface(name):
		cls = "interface-without-ipv4"
	case func() bool {
		for _, n := range ifaceWithV4 {
			if strings.EqualFold(n, name) {
				return true
			}
		}
		return false
	}():
		cls = "interface-name-other-case"
	case strings.HasSuffix(name, "."):
		cls = "trailing-dot"
		if isIface(strings.TrimSuffix(name, ".")) {
			cls = "interface-name-trailing-dot"
		}
	case func() bool {
		if name == "" {
			return false
		}
		for _, n := range ifaceWithV4 {
			if strings.HasPrefix(n, name) || strings.HasPrefix(name, n) || strings.HasSuffix(name, n) {
				return true
			}
		}
		return false
	}():
		cls = "interface-name-affix"
	case net.ParseIP(name).To4() != nil:
		cls = "ipv4"
	}
	return cls + port
}

// hostLabels: one label per class that occurs among the entries ("host:<class>[+port]").
func hostLabels(hosts []string) []string {
	var out []string
	for _, h := range hosts {
		out = append(out, "host:"+hostClassOf(h))
	}
	return uniqS(out)
}

// hostLabelsOf collects the labels over several listeners.
func hostLabelsOf(ls ...HTTPL) []string {
	var out []string
	for _, l := range ls {
		out = append(out, hostLabels(l.Hosts)...)
	}
	return uniqS(out)
}

package c13

// C13(o): OVERLAPPING (and back-to-back) payload builds — every requester gets the
// payload compiled for ITS configuration.
//
// 2-3 builders with different configurations run the operator's sequence
// Build() -> GetPayloadBytes() -> DeletePayload() (cmd/server/dispatch.go:915-923), each
// in its own goroutine as dispatch.go does.  The stub compiler of this sub-check stores
// its whole command line — and with it the -DCONFIG_BYTES define — in the -o file (that
// file is what the requester receives), drops a marker, and only exits once the harness
// releases it; the harness releases when every concurrent compiler run has written.
// So every output exists before any Build() reads its output back: the overlap is
// certain, not sampled.  The sequential sibling runs the same builds one after the other.

import (
	"bytes"
	"fmt"
	"os"
	"path/filepath"
	"strings"
	"sync"
	"testing"
	"time"

	"Havoc/pkg/common/builder"

	"pgregory.net/rapid"

	"verifharness/internal/core"
	"verifharness/internal/pick"
)

type BuildO struct {
	Cfg    CaseA `json:"cfg"`
	Format int   `json:"format"`
	Arch   int   `json:"arch"`
}

type CaseO struct {
	Sequential bool     `json:"sequential"`
	Builds     []BuildO `json:"builds"`
}

func genO(t *rapid.T) CaseO {
	var c CaseO
	c.Sequential = rapid.IntRange(0, 3).Draw(t, "sequential") == 0
	n := rapid.IntRange(2, 3).Draw(t, "nbuilds")
	same := rapid.IntRange(0, 2).Draw(t, "same-arch-format") > 0 // 2/3: all builds share arch and format
	f0 := rapid.SampledFrom(formats).Draw(t, "format")
	a0 := rapid.SampledFrom([]int{builder.ARCHITECTURE_X64, builder.ARCHITECTURE_X86}).Draw(t, "arch")
	for i := 0; i < n; i++ {
		b := BuildO{Cfg: genCaseA(t, false), Format: f0, Arch: a0}
		if !same && i > 0 {
			b.Format = rapid.SampledFrom(formats).Draw(t, "format-i")
			b.Arch = rapid.SampledFrom([]int{builder.ARCHITECTURE_X64, builder.ARCHITECTURE_X86}).Draw(t, "arch-i")
		}
		// different requests: the sleep value alone makes the blocks differ
		b.Cfg.Opts.Sleep = fmt.Sprint(10 + i + 3*rapid.IntRange(0, 1000).Draw(t, "sleep-i"))
		c.Builds = append(c.Builds, b)
	}
	for i := 1; i < len(c.Builds); i++ {
		for j := 0; j < i; j++ {
			if c.Builds[i].Cfg.Opts.Sleep == c.Builds[j].Cfg.Opts.Sleep {
				c.Builds[i].Cfg.Opts.Sleep += "7"
			}
		}
	}
	return c
}

// the compiler stub of this sub-check: stubScript's behaviour (argv log, operands must
// exist) + the command line as content of the -o file + rendezvous.
const ccWaitScript = `#!/bin/sh
LOG='%[1]s'
RV='%[2]s'
printf '%%s\0' "$0" "$@" >> "$LOG"
printf '\001\0' >> "$LOG"
out=""; prev=""
for a in "$@"; do
  if [ -n "$prev" ]; then
    [ "$prev" = "-o" ] && out="$a"
    prev=""
    continue
  fi
  case "$a" in
    -o|-D|-e|-I|-f) prev="$a" ;;
    -*) ;;
    *) [ -e "$a" ] || { echo "stub: error: $a: No such file or directory" >&2; exit 1; } ;;
  esac
done
[ -n "$out" ] || exit 1
printf '%%s\0' "$@" > "$out" || exit 1
: > "$RV/wrote.$$"
i=0
while [ ! -e "$RV/release" ] && [ $i -lt 1000 ]; do
  sleep 0.01
  i=$((i+1))
done
exit 0
`

func defineOf(cfg []byte) string {
	var parts []string
	for _, x := range cfg {
		parts = append(parts, fmt.Sprintf("0x%02x", x))
	}
	return "-DCONFIG_BYTES={" + strings.Join(parts, ",") + "}"
}

func extOf(arch, format int) string {
	ext := ".x64"
	if arch != builder.ARCHITECTURE_X64 {
		ext = ".x86"
	}
	switch format {
	case builder.FILETYPE_WINDOWS_EXE, builder.FILETYPE_WINDOWS_SERVICE_EXE:
		return ext + ".exe"
	case builder.FILETYPE_WINDOWS_RAW_BINARY:
		return ext + ".bin"
	}
	return ext + ".dll"
}

func sameTarget(bs []BuildO) bool {
	for _, b := range bs[1:] {
		if b.Arch != bs[0].Arch || b.Format != bs[0].Format {
			return false
		}
	}
	return true
}

func runO(c CaseO, report func(*core.Violation)) {
	n := len(c.Builds)
	if n == 0 {
		return
	}
	dir, err := os.MkdirTemp(procRoot, "ocase-")
	if err != nil {
		panic(err)
	}
	defer os.RemoveAll(dir)
	rv := filepath.Join(dir, "rv")
	os.Mkdir(rv, 0o755)
	logPath := filepath.Join(dir, "argv.log")
	for _, tool := range []string{"cc64", "cc86"} {
		if err := os.WriteFile(filepath.Join(dir, tool), []byte(fmt.Sprintf(ccWaitScript, logPath, rv)), 0o755); err != nil {
			panic(err)
		}
	}
	if err := os.WriteFile(filepath.Join(dir, "nasm"), []byte(fmt.Sprintf(stubScript, logPath)), 0o755); err != nil {
		panic(err)
	}
	bcfg := builder.BuilderConfig{Compiler64: filepath.Join(dir, "cc64"), Compiler86: filepath.Join(dir, "cc86"), Nasm: filepath.Join(dir, "nasm")}
	svc := "DemonSvc"

	class := "different-arch-format"
	if sameTarget(c.Builds) {
		class = "same-arch-format"
	}
	mode := "overlap"
	if c.Sequential {
		mode = "sequential"
		os.WriteFile(filepath.Join(rv, "release"), nil, 0o644) // nobody waits
	}

	type result struct {
		ok      bool
		payload []byte
		dir     string
		msgs    []consoleMsg
	}
	defines := make([]string, n)
	builders := make([]*builder.Builder, n)
	results := make([]result, n)
	for i, bo := range c.Builds {
		conf := configJSON(bo.Cfg.Opts, &svc)
		// the reference block: a builder and a listener object of its own
		var rm []consoleMsg
		rt, rc := listenerOf(bo.Cfg)
		rb, err := newBuilder(bcfg, conf, bo.Arch, bo.Format, extOf(bo.Arch, bo.Format), rt, rc, &rm)
		if err != nil {
			panic(err)
		}
		ref, err := rb.PatchConfig()
		if err != nil {
			return // not an encodable configuration (hand-written replay): nothing to observe here
		}
		defines[i] = defineOf(ref)
		lt, lc := listenerOf(bo.Cfg)
		builders[i], err = newBuilder(bcfg, conf, bo.Arch, bo.Format, extOf(bo.Arch, bo.Format), lt, lc, &results[i].msgs)
		if err != nil {
			panic(err)
		}
	}
	one := func(i int) {
		b := builders[i]
		results[i].ok = b.Build()
		results[i].dir = b.CompileDir
		if results[i].ok {
			results[i].payload = append([]byte(nil), b.GetPayloadBytes()...)
			if len(results[i].payload) > 0 {
				b.DeletePayload() // dispatch.go deletes only after a non-empty payload was sent
			}
		}
	}
	if c.Sequential {
		for i := range builders {
			one(i)
		}
	} else {
		var wg sync.WaitGroup
		var finished int32
		var mu sync.Mutex
		for i := range builders {
			wg.Add(1)
			go func(i int) {
				defer wg.Done()
				defer func() { mu.Lock(); finished++; mu.Unlock() }()
				one(i)
			}(i)
		}
		// release the compilers once every build has either written its output or ended
		deadline := time.Now().Add(30 * time.Second)
		for time.Now().Before(deadline) {
			ents, _ := os.ReadDir(rv)
			mu.Lock()
			f := int(finished)
			mu.Unlock()
			if len(ents)+f >= n {
				break
			}
			time.Sleep(500 * time.Microsecond)
		}
		os.WriteFile(filepath.Join(rv, "release"), nil, 0o644)
		wg.Wait()
	}

	// ---- what is left in the temp area; collect before judging, clean up afterwards
	inv := readLog(logPath)
	dirs := map[string]bool{}
	var outs []string
	for _, r := range results {
		if r.dir != "" {
			dirs[r.dir] = true
		}
	}
	for _, i := range inv {
		for k, a := range i.Args {
			if a == "-o" && k+1 < len(i.Args) {
				outs = append(outs, i.Args[k+1])
				dirs[filepath.Dir(i.Args[k+1])+"/"] = true
			}
		}
	}
	var left []string
	for d := range dirs {
		if _, err := os.Stat(d); err == nil {
			left = append(left, d)
		}
	}
	defer cleanupBuildDirs(dirs, outs)

	for i, r := range results {
		bo := c.Builds[i]
		where := fmt.Sprintf("%s of %d builds (%s), build %d: %s arch %d sleep %s", mode, n, class, i, formatName(bo.Format), bo.Arch, bo.Cfg.Opts.Sleep)
		if !r.ok {
			report(core.V(mode+"|build-failed|"+class, "%s: Build() = false; console %v", where, tail(r.msgs, 4)))
			continue
		}
		if len(r.payload) == 0 {
			report(core.V(mode+"|payload-empty|"+class, "%s: Build() = true but the requester gets an empty payload; console %v", where, tail(r.msgs, 4)))
			continue
		}
		if !bytes.Contains(r.payload, []byte(defines[i]+"\x00")) {
			whose := "no known request"
			for j := range defines {
				if j != i && bytes.Contains(r.payload, []byte(defines[j]+"\x00")) {
					whose = fmt.Sprintf("build %d (sleep %s)", j, c.Builds[j].Cfg.Opts.Sleep)
				}
			}
			report(core.V(mode+"|payload-carries-other-config|"+class, "%s: the payload handed to this requester was compiled with the configuration block of %s, not with its own", where, whose))
		}
	}
	allOK := true
	for _, r := range results {
		if !r.ok || len(r.payload) == 0 {
			allOK = false // HEAD leaves the directory of a failed build behind; that is not judged here
		}
	}
	if allOK && len(left) > 0 {
		report(core.V(mode+"|leftover-in-temp|"+class, "%s of %d builds (%s): after Build/GetPayloadBytes/DeletePayload of all of them these build directories still exist: %v", mode, n, class, left))
	}
}

func checkO(c CaseO) *core.Violation {
	var all []*core.Violation
	runO(c, func(v *core.Violation) { all = append(all, v) })
	return pick.First("C13", all)
}

func classifyO(c CaseO) core.Class {
	var cl core.Class
	if len(c.Builds) == 0 {
		return cl
	}
	mode := "overlap"
	if c.Sequential {
		mode = "sequential"
	}
	class := "different-arch-format"
	if sameTarget(c.Builds) {
		class = "same-arch-format"
	}
	cl.Labels = append(cl.Labels, mode+" "+class, fmt.Sprintf("builds:%d", len(c.Builds)))
	fset := map[string]bool{}
	for _, b := range c.Builds {
		fset[formatName(b.Format)] = true
		cl.Labels = append(cl.Labels, "format:"+formatName(b.Format))
	}
	var fs []string
	for _, f := range []string{"exe", "service-exe", "dll", "reflective-dll", "shellcode"} {
		if fset[f] {
			fs = append(fs, f)
		}
	}
	{
		var hl []string
		for _, b := range c.Builds {
			if !b.Cfg.SMB {
				hl = append(hl, hostLabels(b.Cfg.HTTP.Hosts)...)
			}
			hl = append(hl, scaleLabels(b.Cfg)...)
		}
		cl.Labels = append(cl.Labels, uniqS(hl)...)
	}
	cl.NonTrivial = true
	cl.Fingerprint = fmt.Sprintf("%s|%s|n=%d|%s", mode, class, len(c.Builds), strings.Join(fs, "+"))
	return cl
}

func TestC13o(t *testing.T) {
	core.Run(t, core.Spec[CaseO]{
		Property: "C13", Sub: "o",
		Rule: "2-3 builders with different encodable configurations of (a) (distinct sleep values, own listener objects), all of the same architecture and format (2/3) or of independently drawn ones, run Build() -> GetPayloadBytes() -> DeletePayload() concurrently (3/4) or one after the other (1/4) with stub compilers that store their command line in the -o file, mark 'written' and wait until the harness has seen every concurrent compiler run write (bounded at 10 s). Oracle: every Build() succeeds, every requester's payload is non-empty and contains the -DCONFIG_BYTES define computed by a separate builder's PatchConfig() for ITS configuration, and no build directory of these builds exists afterwards (on HEAD the operator sequence removes outputs, assembler objects and the per-build directory). Non-trivial: every case; distinct = (overlap/sequential, same/different arch+format, #builds, set of formats)",
		Gen:  genO, Check: checkO, Classify: classifyO,
		Assumptions: []string{
			"the payload a requester receives is observed as the return value of GetPayloadBytes() after Build(), the sequence of dispatch.go; the stub's output file stands for the compiled binary",
			"overlap is enforced by the compiler stub's rendezvous; if a build ends before its compiler runs the others are released without it",
		},
	})
}

// cleanupBuildDirs removes what builds of a case left in the temp area: a /tmp/<id>/
// directory of HEAD's shape entirely; of a directory of any other shape only the given
// output files and the directory itself if that leaves it empty.
func cleanupBuildDirs(dirs map[string]bool, outs []string) {
	tmp := filepath.Clean(os.TempDir())
	for d := range dirs {
		if compileDirRe.MatchString(d) {
			os.RemoveAll(d)
			continue
		}
		if cd := filepath.Clean(d); cd == tmp || !strings.HasPrefix(cd, tmp+"/") {
			continue
		}
		for _, o := range outs {
			if filepath.Dir(o)+"/" == d {
				os.Remove(o)
			}
		}
		os.Remove(d)
	}
}

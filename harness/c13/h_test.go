package c13

// C13(h): short HISTORIES of payload builds on one or two live listener objects.
//
// A case creates its listener objects once (fresh per case; package-level state of the
// builder package deliberately survives from case to case) and then runs 2-4 steps of
// {optional operator edit of a listener, build}.  An edit changes the live
// *handlers.HTTP in place, assigning exactly the fields Teamserver.ListenerEdit
// (cmd/server/listener.go) assigns — Config.UserAgent, Config.Headers, Config.Uris,
// Config.Proxy — from the edit dialog's whole form.  Every build uses a new Builder
// (as dispatch.go does) with freshly generated options; its block is read with the
// transcription of DemonConfig() and compared with THAT build's options and with the
// listener's configuration AT THAT MOMENT.  After every build the live listener must
// still equal the model (no write-through).
//
// Three cases in ten are histories THROUGH THE REAL TEAMSERVER instead (CaseH.Srv,
// hs_test.go): listeners with related names in t.Listeners, builds requested by the
// operator's Gate/Stageless package through Teamserver.DispatchEvent.

import (
	"fmt"
	"reflect"
	"strings"
	"testing"

	"Havoc/pkg/common/builder"
	"Havoc/pkg/handlers"

	"pgregory.net/rapid"

	"verifharness/internal/core"
	"verifharness/internal/pick"
)

type ListenerObj struct {
	SMB  bool  `json:"smb"`
	HTTP HTTPL `json:"http"`
	Pipe SMBL  `json:"pipe"`
}

// EditL is the edit dialog's form as far as ListenerEdit uses it.
type EditL struct {
	UserAgent    string   `json:"user_agent"`
	Headers      []string `json:"headers"`
	Uris         []string `json:"uris"`
	ProxyEnabled bool     `json:"proxy_enabled"`
	ProxyType    string   `json:"proxy_type"`
	ProxyHost    string   `json:"proxy_host"`
	ProxyPort    string   `json:"proxy_port"`
	ProxyUser    string   `json:"proxy_user"`
	ProxyPass    string   `json:"proxy_pass"`
	What         string   `json:"what"` // fields the generator changed (label only)
}

type StepH struct {
	L    int    `json:"l"` // index into Listeners (modulo)
	Edit *EditL `json:"edit,omitempty"`
	Opts Opts   `json:"opts"`
}

type CaseH struct {
	Listeners []ListenerObj `json:"listeners"`
	Steps     []StepH       `json:"steps"`
	// Srv, when set, makes the case a history through the real teamserver (hs_test.go);
	// Listeners and Steps are unused then.
	Srv *SrvH `json:"srv,omitempty"`
}

// ---------------------------------------------------------------------------- generator

func differentFrom(t *rapid.T, pool []string, cur string, label string) string {
	for i := 0; i < 6; i++ {
		if s := rapid.SampledFrom(pool).Draw(t, label); s != cur {
			return s
		}
	}
	return cur + "-edited"
}

func genEditL(t *rapid.T, l HTTPL) EditL {
	e := EditL{UserAgent: l.UserAgent, Headers: append([]string(nil), l.Headers...), Uris: append([]string(nil), l.Uris...),
		ProxyEnabled: l.ProxyEnabled, ProxyType: l.ProxyType, ProxyHost: l.ProxyHost, ProxyPort: l.ProxyPort, ProxyUser: l.ProxyUser, ProxyPass: l.ProxyPass}
	n := 1
	if rapid.IntRange(0, 3).Draw(t, "two-fields") == 0 {
		n = 2
	}
	var what []string
	for k := 0; k < n; k++ {
		f := rapid.SampledFrom([]string{"useragent", "headers", "uris", "proxy"}).Draw(t, "edit-field")
		switch f {
		case "useragent":
			e.UserAgent = differentFrom(t, uaPool, e.UserAgent, "new-ua")
		case "headers":
			switch m := rapid.IntRange(0, 3).Draw(t, "hdr-edit"); {
			case m == 0 && len(e.Headers) > 0:
				e.Headers = nil
			case m == 1 && len(e.Headers) > 0:
				i := rapid.IntRange(0, len(e.Headers)-1).Draw(t, "which")
				e.Headers[i] = e.Headers[i] + "-edited"
			case m == 2 && len(e.Headers) > 1:
				i := rapid.IntRange(0, len(e.Headers)-1).Draw(t, "which")
				e.Headers = append(e.Headers[:i:i], e.Headers[i+1:]...)
			default:
				e.Headers = append(e.Headers, fmt.Sprintf("X-Edit-%d: %s", len(e.Headers), rapid.SampledFrom([]string{"1", "a: b", "✓"}).Draw(t, "hv")))
			}
		case "uris":
			switch m := rapid.IntRange(0, 3).Draw(t, "uri-edit"); {
			case m == 0 && len(e.Uris) > 0:
				e.Uris = nil
			case m == 1 && len(e.Uris) > 0:
				i := rapid.IntRange(0, len(e.Uris)-1).Draw(t, "which")
				e.Uris[i] = e.Uris[i] + "/edited"
			case m == 2 && len(e.Uris) > 1:
				i := rapid.IntRange(0, len(e.Uris)-1).Draw(t, "which")
				e.Uris = append(e.Uris[:i:i], e.Uris[i+1:]...)
			default:
				e.Uris = append(e.Uris, fmt.Sprintf("/added/%d", len(e.Uris)))
			}
		case "proxy":
			if e.ProxyEnabled && rapid.Bool().Draw(t, "proxy-off") {
				e.ProxyEnabled, e.ProxyType, e.ProxyHost, e.ProxyPort, e.ProxyUser, e.ProxyPass = false, "", "", "", "", ""
			} else {
				e.ProxyEnabled = true
				e.ProxyType = rapid.SampledFrom([]string{"http", "https"}).Draw(t, "ptype")
				e.ProxyHost = differentFrom(t, []string{"proxy.corp.example", "10.0.0.2", "px2.example.net"}, e.ProxyHost, "phost")
				e.ProxyPort = rapid.SampledFrom([]string{"8080", "3128", "8888"}).Draw(t, "pport")
				e.ProxyUser = rapid.SampledFrom([]string{"", "svc-proxy", "DOM\\üser"}).Draw(t, "puser")
				e.ProxyPass = ""
				if e.ProxyUser != "" {
					e.ProxyPass = rapid.SampledFrom([]string{"P@ss: w0rd", "密码", "x"}).Draw(t, "ppass")
				}
			}
		}
		what = append(what, f)
	}
	e.What = strings.Join(uniqS(what), "+")
	return e
}

func applyEditL(l HTTPL, e EditL) HTTPL {
	l.UserAgent = e.UserAgent
	l.Headers = append([]string(nil), e.Headers...)
	l.Uris = append([]string(nil), e.Uris...)
	l.ProxyEnabled, l.ProxyType, l.ProxyHost, l.ProxyPort, l.ProxyUser, l.ProxyPass = e.ProxyEnabled, e.ProxyType, e.ProxyHost, e.ProxyPort, e.ProxyUser, e.ProxyPass
	return l
}

func genH(t *rapid.T) CaseH {
	var c CaseH
	if rapid.IntRange(0, 9).Draw(t, "through-teamserver") < 3 {
		c.Srv = genSrvH(t)
		return c
	}
	nl := rapid.IntRange(1, 2).Draw(t, "nlisteners")
	for i := 0; i < nl; i++ {
		a := genCaseA(t, false)
		if i == 0 {
			a.SMB = false // the first listener is always HTTP: it is the one that can be edited
		}
		c.Listeners = append(c.Listeners, ListenerObj{SMB: a.SMB, HTTP: a.HTTP, Pipe: a.Pipe})
	}
	model := make([]HTTPL, nl)
	for i := range model {
		model[i] = c.Listeners[i].HTTP
	}
	ns := rapid.IntRange(2, 4).Draw(t, "nsteps")
	for k := 0; k < ns; k++ {
		s := StepH{L: rapid.IntRange(0, nl-1).Draw(t, "which-listener"), Opts: genOpts(t)}
		if !c.Listeners[s.L].SMB && k > 0 && rapid.IntRange(0, 9).Draw(t, "edit?") < 6 {
			e := genEditL(t, model[s.L])
			s.Edit = &e
			model[s.L] = applyEditL(model[s.L], e)
		}
		c.Steps = append(c.Steps, s)
	}
	return c
}

// ---------------------------------------------------------------------------- check

// editInPlace performs, on the live object, the assignments of Teamserver.ListenerEdit
// (cmd/server/listener.go: HTTP.Config.UserAgent/Headers/Uris/Proxy = <form>; the slices
// of the form are assigned, not copied; BehindRedir is of no concern to a payload).
func editInPlace(h *handlers.HTTP, e EditL) {
	form := handlers.HTTPConfig{UserAgent: e.UserAgent, Headers: append([]string(nil), e.Headers...), Uris: append([]string(nil), e.Uris...)}
	form.Proxy.Enabled = e.ProxyEnabled
	form.Proxy.Type, form.Proxy.Host, form.Proxy.Port = e.ProxyType, e.ProxyHost, e.ProxyPort
	form.Proxy.Username, form.Proxy.Password = e.ProxyUser, e.ProxyPass
	h.Config.UserAgent = form.UserAgent
	h.Config.Headers = form.Headers
	h.Config.Uris = form.Uris
	h.Config.Proxy = form.Proxy
}

func runHist(c CaseH, report func(*core.Violation)) {
	n := len(c.Listeners)
	if n == 0 {
		return
	}
	live := make([]any, n)
	types := make([]int, n)
	model := make([]CaseA, n) // the listener as configured at this moment (Opts filled per build)
	for i, l := range c.Listeners {
		model[i] = CaseA{SMB: l.SMB, HTTP: l.HTTP, Pipe: l.Pipe}
		types[i], live[i] = listenerOf(model[i])
	}
	built := make([]int, n)          // builds so far per listener
	editedSince := make([]string, n) // fields edited since that listener's last build
	lastBuilt := -1
	for k, s := range c.Steps {
		li := ((s.L % n) + n) % n
		if s.Edit != nil && !model[li].SMB {
			editInPlace(live[li].(*handlers.HTTP), *s.Edit)
			model[li].HTTP = applyEditL(model[li].HTTP, *s.Edit)
			if built[li] > 0 {
				editedSince[li] = strings.Join(uniqS(append(strings.Split(editedSince[li], "+"), strings.Split(s.Edit.What, "+")...)), "+")
				editedSince[li] = strings.Trim(editedSince[li], "+")
			}
		}
		class := "first-build-for-listener"
		switch {
		case built[li] > 0 && editedSince[li] != "":
			class = "rebuild-after-edit"
		case built[li] > 0 && lastBuilt != li:
			class = "rebuild-after-other-listener"
		case built[li] > 0:
			class = "rebuild-unchanged-listener"
		case lastBuilt >= 0:
			class = "first-build-after-other-listener"
		}
		m := model[li]
		m.Opts = s.Opts
		var msgs []consoleMsg
		b, err := newBuilder(builder.BuilderConfig{}, configJSON(s.Opts, nil), builder.ARCHITECTURE_X64, builder.FILETYPE_WINDOWS_EXE, ".x64.exe", types[li], live[li], &msgs)
		if err != nil {
			report(core.V("patch|SetConfig-rejected-client-json", "SetConfig: %v", err))
			return
		}
		out, err := b.PatchConfig()
		note := fmt.Sprintf(" [history step %d: %s, listener %d of %d (smb=%v), %d earlier builds for it, edited since its last build: %q]", k, class, li, n, m.SMB, built[li], editedSince[li])
		wrap := func(v *core.Violation) {
			v.Sig = "hist|" + v.Sig + "|" + class
			v.Msg += note
			report(v)
		}
		if err != nil {
			if !expect(m).Grey {
				wrap(core.V("patch|unexpected-error|"+errClass(err), "PatchConfig failed on an encodable configuration: %v; console %v", err, msgs))
			}
		} else {
			verifyFields(m, out, wrap)
		}
		// the live object still is what the history made it
		if !m.SMB {
			want := copyHTTPConfig(httpListener(m.HTTP).Config)
			got := copyHTTPConfig(live[li].(*handlers.HTTP).Config)
			want.Name, got.Name = "", ""
			if !reflect.DeepEqual(got, want) {
				wrap(core.V("listener-mutated", "after the build the live listener is %+v, the history made it %+v", got, want))
			}
		}
		built[li]++
		editedSince[li] = ""
		lastBuilt = li
	}
}

func checkH(c CaseH) *core.Violation {
	var all []*core.Violation
	if c.Srv != nil {
		runSrv(c.Srv, func(v *core.Violation) { all = append(all, v) })
		return pick.First("C13", all)
	}
	runHist(c, func(v *core.Violation) { all = append(all, v) })
	return pick.First("C13", all)
}

// ---------------------------------------------------------------------------- classification

func classifyH(c CaseH) core.Class {
	if c.Srv != nil {
		return classifySrv(c.Srv)
	}
	var cl core.Class
	n := len(c.Listeners)
	if n == 0 {
		return cl
	}
	built := make([]int, n)
	edited := make([]string, n)
	lastBuilt := -1
	mixed := false
	for _, l := range c.Listeners {
		if l.SMB {
			mixed = true
		}
	}
	cl.Labels = append(cl.Labels, fmt.Sprintf("listeners:%d", n))
	{
		var hl []string
		for _, l := range c.Listeners {
			if !l.SMB {
				hl = append(hl, hostLabels(l.HTTP.Hosts)...)
			}
			hl = append(hl, scaleLabels(CaseA{SMB: l.SMB, HTTP: l.HTTP, Pipe: l.Pipe})...)
		}
		cl.Labels = append(cl.Labels, uniqS(hl)...)
	}
	if mixed {
		cl.Labels = append(cl.Labels, "http+smb")
	}
	var seq []int
	var fps []string
	for _, s := range c.Steps {
		li := ((s.L % n) + n) % n
		if s.Edit != nil && !c.Listeners[li].SMB {
			if built[li] > 0 {
				edited[li] = strings.Trim(edited[li]+"+"+s.Edit.What, "+")
			} else {
				cl.Labels = append(cl.Labels, "edit-before-first-build")
			}
		}
		switch {
		case built[li] > 0 && edited[li] != "":
			for _, f := range uniqS(strings.Split(edited[li], "+")) {
				cl.Labels = append(cl.Labels, "edit-between-builds:"+f)
			}
			fps = append(fps, "edit:"+uniqS(strings.Split(edited[li], "+"))[0])
			cl.NonTrivial = true
		case built[li] > 0 && lastBuilt != li:
			cl.Labels = append(cl.Labels, "rebuild-after-other-listener")
			fps = append(fps, "other-between")
			cl.NonTrivial = true
		case built[li] > 0:
			cl.Labels = append(cl.Labels, "two-builds-unchanged-listener")
			fps = append(fps, "unchanged")
			cl.NonTrivial = true
		}
		built[li]++
		edited[li] = ""
		lastBuilt = li
		seq = append(seq, li)
	}
	for i := 2; i < len(seq); i++ {
		if seq[i] == seq[i-2] && seq[i] != seq[i-1] {
			cl.Labels = append(cl.Labels, "two-listeners-alternating")
			break
		}
	}
	fps = uniqS(fps)
	cl.Fingerprint = fmt.Sprintf("n=%d|mixed=%v|steps=%d|%s", n, mixed, len(c.Steps), strings.Join(fps, ","))
	return cl
}

func TestC13h(t *testing.T) {
	core.Run(t, core.Spec[CaseH]{
		Property: "C13", Sub: "h",
		Rule: "histories of builds on live listener objects: 1-2 listeners created per case (the first HTTP, the second HTTP or SMB; encodable configurations of (a)), then 2-4 steps of {60%: an operator edit of the chosen HTTP listener changing one or two of user agent / headers / URIs / proxy, applied in place with the same assignments as Teamserver.ListenerEdit; a build with a new Builder and freshly generated options (every choice of (a))}. Covers: rebuild after an edit, two builds with different options on an unchanged listener, builds for two listener objects alternating (HTTP/HTTP and HTTP/SMB). Package-level state of the builder package is not reset between cases. Oracle: every build's block, read by the transcription of DemonConfig(), equals that build's options and the listener's configuration at that moment; the live listener equals the model after every build. Non-trivial: a listener is built for more than once; distinct = (#listeners, HTTP+SMB, #steps, set of rebuild classes / first edited field). THROUGH THE TEAMSERVER (3 cases in 10, label via-dispatch): a real server.Teamserver (private database, no Start()) with one operator on a real websocket; 2-3 listeners are brought up (the first HTTP, the others HTTP 4/7, SMB 2/7, External 1/7; SMB and External by the real ListenerStart, HTTP by ListenerStart's bookkeeping without binding a socket), whose NAMES are drawn from one group of related strings - a base name and 2-4 of its relatives: other letter case, Unicode simple-fold partner (s/U+017F, k/U+212A), leading / trailing blank or tab, NFC vs NFD spelling, prefix, suffix, extension - in random order, one add in eight reusing a taken name (also with another listener type; refused by HEAD). Then a payload is requested for every listener in turn, newest first, each request being the operator's Gate/Stageless package (JSON -> CreatePackage -> EventAppend -> DispatchEvent; fresh options, x64/x86, format Exe 6/10 or any of the five), and 0-2 rounds of {operator Listener/Edit package for a HTTP listener through DispatchEvent, then builds for a relative and for the edited one | another listener of the group, then builds newest first | Listener/Remove of an SMB/External listener, then a build naming the removed one and one that is left | a build naming a group member that no listener has}. The compilers of t.Settings are stubs that store their command line in the -o file, so the payload that arrives on the operator's socket tells which configuration block and transport define it was compiled with. Oracle per request, the model knowing names only as exact strings (HEAD): the name of an existing HTTP/SMB listener => one payload arrives, compiled with that listener's transport define and a block that DemonConfig() reads as that request's options and the settings of the listener with byte-exactly that name as they are at that moment (a payload that instead reads, field by field, as another coexisting listener's configuration is reported as payload-configured-for-other-listener with the relation of the two names); the name of an External listener or of no listener => whatever arrives must not be configured for any existing listener (HEAD: Error message / a block without transport section, equal to a builder's without a listener); the live listener equals the model afterwards. Labels: related-names-coexist (a build names a listener while a relative of it exists), build-while-older|newer-relative-exists:<relation>, relatives-of-different-type, build:unknown-name, build:external-listener, rebuild-after-edit-through-dispatch, build-after-edit-of-relative, add-refused:*; non-trivial: related names coexist at a build, a rebuild after an edit, an unknown or External name; distinct = (kinds built for, closest name relation, flags). FAULT (4 histories through the teamserver in 10): for ONE payload request that names an existing HTTP / SMB listener the compilers of t.Settings get a generated behaviour (f_test.go) - end {exit status 0 | 1, 2, 126, 127, 255 | death by SIGKILL / SIGSEGV / SIGTERM together with the `sh -c` shell} x output file {complete | cut to half | empty | missing | at another path}, exit 0 with a complete output being slow (100-300 ms) and sometimes loud - and the ordinary compiler again for the requests after it. Oracle as before, with HEAD as the model of a failed step: a compiler that does not end with exit status 0 yields no payload (so its absence is not reported); a payload that arrives all the same must carry the right transport and the complete block like any other (signature suffix |fault=<tool:end:output>); what a compiler that says 0 leaves at the -o path is delivered as it is and not judged. Labels fault:child-process:compiler:<end kind>+output-<state>@dispatch-build, fault-then-more-steps@dispatch",
		Gen:  genH, Check: checkH, Classify: classifyH,
		Assumptions: []string{
			"an edit is performed by assigning Config.UserAgent, Config.Headers, Config.Uris and Config.Proxy on the live *handlers.HTTP — the assignments of Teamserver.ListenerEdit on HEAD — without the database write that accompanies them there (C10/C16 cover that part)",
			"the assumptions of sub-check a about option strings, hosts and documented defaults apply",
			"through the teamserver: HTTP listeners are registered without HTTP.Start() (it would bind PortBind on this host and generate a certificate): refusal of a taken name by the real ListenerExist, NewConfigHttp + Config + Teamserver, the announcement Start() makes (ListenerAdd with its database row, EventAppend, EventBroadcast), append to t.Listeners; SMB and External listeners go through the real ListenerStart; HTTP listeners are never removed (HTTP.Stop() waits 5 s)",
			"through the teamserver: the model follows the server's listener table (whether an add was accepted is read off t.Listeners; acceptance itself is C16's subject); a build counts as finished when no goroutine runs a closure of DispatchEvent any more and a payload or an Error message has arrived (or 80 ms have passed without either); the assembler is the shell's `true`",
			"a payload requested under a name that no listener has is not judged as such (HEAD delivers one without a transport section); it must only not carry an existing listener's settings",
		},
	})
}

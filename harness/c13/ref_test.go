package c13

// Reference reader for the configuration block compiled into a Demon, transcribed
// from payloads/Demon/src/Demon.c DemonConfig() (file:line next to every read) and
// the option encodings the Demon's own switches expect, taken from the C headers
// under payloads/Demon/include — never from builder.go.

import (
	"fmt"
	"os"
	"regexp"
	"strconv"
	"strings"

	"verifharness/internal/demonref"
)

// ---- what the Demon compares the integers with (C headers)

const (
	dxMemWin32   = 1 // include/core/Memory.h:9   DX_MEM_WIN32
	dxMemSyscall = 2 // include/core/Memory.h:10  DX_MEM_SYSCALL

	dxThreadWin32   = 1 // include/inject/Inject.h:24 DX_THREAD_WIN32
	dxThreadSyscall = 2 // include/inject/Inject.h:25 DX_THREAD_SYSCALL

	sleepObfNoObf   = 0 // include/core/SleepObf.h:7
	sleepObfEkko    = 1 // include/core/SleepObf.h:8
	sleepObfZilean  = 2 // include/core/SleepObf.h:9
	sleepObfFoliage = 3 // include/core/SleepObf.h:10

	bypassNone   = 0 // include/core/SleepObf.h:12
	bypassJmpRax = 1 // include/core/SleepObf.h:13
	bypassJmpRbx = 2 // include/core/SleepObf.h:14

	proxyLoadNone             = 0 // include/common/Defines.h:34
	proxyLoadRtlRegisterWait  = 1 // include/common/Defines.h:35
	proxyLoadRtlCreateTimer   = 2 // include/common/Defines.h:36
	proxyLoadRtlQueueWorkItem = 3 // include/common/Defines.h:37

	amsiPatchNone = 0 // include/common/Defines.h:39
	amsiPatchHwbp = 1 // include/common/Defines.h:40

	rotationRoundRobin = 0 // include/core/TransportHttp.h:11
	rotationRandom     = 1 // include/core/TransportHttp.h:12
)

// The strings an operator can send: the combo boxes of the client's payload dialog
// (client/src/UserInterface/Dialogs/Payload.cc:560-565) and of the listener dialog
// (client/src/UserInterface/Dialogs/Listener.cc:327-328).
var (
	allocChoices     = map[string]uint32{"Win32": dxMemWin32, "Native/Syscall": dxMemSyscall}
	executeChoices   = map[string]uint32{"Win32": dxThreadWin32, "Native/Syscall": dxThreadSyscall}
	techniqueChoices = map[string]uint32{"WaitForSingleObjectEx": sleepObfNoObf, "Foliage": sleepObfFoliage, "Ekko": sleepObfEkko, "Zilean": sleepObfZilean}
	gadgetChoices    = map[string]uint32{"None": bypassNone, "jmp rax": bypassJmpRax, "jmp rbx": bypassJmpRbx}
	proxyLoadChoices = map[string]uint32{"None (LdrLoadDll)": proxyLoadNone, "RtlRegisterWait": proxyLoadRtlRegisterWait, "RtlCreateTimer": proxyLoadRtlCreateTimer, "RtlQueueWorkItem": proxyLoadRtlQueueWorkItem}
	amsiChoices      = map[string]uint32{"None": amsiPatchNone, "Hardware breakpoints": amsiPatchHwbp}
	rotationChoices  = map[string]uint32{"round-robin": rotationRoundRobin, "random": rotationRandom}

	allocNames     = []string{"Win32", "Native/Syscall"}
	techniqueNames = []string{"WaitForSingleObjectEx", "Foliage", "Ekko", "Zilean"}
	gadgetNames    = []string{"None", "jmp rax", "jmp rbx"}
	proxyLoadNames = []string{"None (LdrLoadDll)", "RtlRegisterWait", "RtlCreateTimer", "RtlQueueWorkItem"}
	amsiNames      = []string{"None", "Hardware breakpoints"}
	rotationNames  = []string{"round-robin", "random"}
)

// headerConstants is checked once per process against the C headers, so that a change
// on the C side is noticed instead of silently testing against stale numbers.
var headerConstants = []struct {
	file, name string
	want       int64
}{
	{"include/core/Memory.h", "DX_MEM_WIN32", dxMemWin32}, {"include/core/Memory.h", "DX_MEM_SYSCALL", dxMemSyscall},
	{"include/inject/Inject.h", "DX_THREAD_WIN32", dxThreadWin32}, {"include/inject/Inject.h", "DX_THREAD_SYSCALL", dxThreadSyscall},
	{"include/core/SleepObf.h", "SLEEPOBF_NO_OBF", sleepObfNoObf}, {"include/core/SleepObf.h", "SLEEPOBF_EKKO", sleepObfEkko},
	{"include/core/SleepObf.h", "SLEEPOBF_ZILEAN", sleepObfZilean}, {"include/core/SleepObf.h", "SLEEPOBF_FOLIAGE", sleepObfFoliage},
	{"include/core/SleepObf.h", "SLEEPOBF_BYPASS_NONE", bypassNone}, {"include/core/SleepObf.h", "SLEEPOBF_BYPASS_JMPRAX", bypassJmpRax},
	{"include/core/SleepObf.h", "SLEEPOBF_BYPASS_JMPRBX", bypassJmpRbx},
	{"include/common/Defines.h", "PROXYLOAD_NONE", proxyLoadNone}, {"include/common/Defines.h", "PROXYLOAD_RTLREGISTERWAIT", proxyLoadRtlRegisterWait},
	{"include/common/Defines.h", "PROXYLOAD_RTLCREATETIMER", proxyLoadRtlCreateTimer}, {"include/common/Defines.h", "PROXYLOAD_RTLQUEUEWORKITEM", proxyLoadRtlQueueWorkItem},
	{"include/common/Defines.h", "AMSIETW_PATCH_NONE", amsiPatchNone}, {"include/common/Defines.h", "AMSIETW_PATCH_HWBP", amsiPatchHwbp},
	{"include/core/TransportHttp.h", "TRANSPORT_HTTP_ROTATION_ROUND_ROBIN", rotationRoundRobin}, {"include/core/TransportHttp.h", "TRANSPORT_HTTP_ROTATION_RANDOM", rotationRandom},
}

const demonSrc = "/repo/payloads/Demon"

func verifyHeaderConstants() error {
	for _, hc := range headerConstants {
		b, err := os.ReadFile(demonSrc + "/" + hc.file)
		if err != nil {
			return err
		}
		re := regexp.MustCompile(`(?m)^\s*(?:#define\s+)?` + hc.name + `\s*=?\s*(0x[0-9a-fA-F]+|[0-9]+)\b`)
		m := re.FindSubmatch(b)
		if m == nil {
			return fmt.Errorf("%s: %s not found", hc.file, hc.name)
		}
		v, err := strconv.ParseInt(string(m[1]), 0, 64)
		if err != nil || v != hc.want {
			return fmt.Errorf("%s: %s = %s, the reference model has %d", hc.file, hc.name, m[1], hc.want)
		}
	}
	return nil
}

// ---- the reader

// WStr is what a C reader gets from ParserGetBytes when it then treats the buffer as
// a wide string: the UTF-16LE units up to the first 0x0000.
type WStr struct {
	S          string
	Len        int  // byte length of the field
	Terminated bool // a 0x0000 unit lies inside the field (needed where the C side allocates exactly Length bytes)
}

func wstr(b []byte) WStr {
	w := WStr{S: demonref.WCString(b), Len: len(b)}
	for i := 0; i+1 < len(b); i += 2 {
		if b[i] == 0 && b[i+1] == 0 {
			w.Terminated = true
			break
		}
	}
	return w
}

type HostRef struct {
	Host WStr
	Port uint32
}

type DemonCfg struct {
	Sleep, Jitter  uint32 // Demon.c:586-587
	Alloc, Execute uint32 // Demon.c:590-591
	Spawn64        WStr   // Demon.c:601-603 (LocalAlloc(Length): needs its terminator inside)
	Spawn86        WStr   // Demon.c:605-607
	Technique      uint32 // Demon.c:617
	JmpBypass      uint32 // Demon.c:618
	StackSpoof     uint32 // Demon.c:619
	ProxyLoading   uint32 // Demon.c:620
	SysIndirect    uint32 // Demon.c:621
	AmsiEtwPatch   uint32 // Demon.c:622

	// TRANSPORT_HTTP
	KillDate     uint64    // Demon.c:644
	WorkingHours uint32    // Demon.c:653
	Method       WStr      // Demon.c:655-657
	HostRotation uint32    // Demon.c:659
	Hosts        []HostRef // Demon.c:666-680
	Secure       uint32    // Demon.c:689
	UserAgent    WStr      // Demon.c:693-695
	Headers      []WStr    // Demon.c:699-711
	Uris         []WStr    // Demon.c:715-727
	ProxyEnabled bool      // Demon.c:731
	ProxyUrl     WStr      // Demon.c:735-737
	ProxyUser    WStr      // Demon.c:740-748 (MmHeapAlloc(Length))
	ProxyPass    WStr      // Demon.c:750-758

	// TRANSPORT_SMB
	PipeName WStr // Demon.c:768-770 (LocalAlloc(Length))
	// KillDate Demon.c:774, WorkingHours Demon.c:783

	Rest    int  // bytes left after the last read
	Overrun bool // a read ran past the end of the block
}

// readConfig parses the block exactly in the order DemonConfig() does; the parser is a
// zero-initialised PARSER, i.e. Endian == FALSE: little-endian (Parser.c:79,100,141).
func readConfig(b []byte, smb bool) DemonCfg {
	d := &demonref.Dec{B: b}
	var c DemonCfg
	c.Sleep = d.Int32()
	c.Jitter = d.Int32()
	c.Alloc = d.Int32()
	c.Execute = d.Int32()
	c.Spawn64 = wstr(d.Bytes())
	c.Spawn86 = wstr(d.Bytes())
	c.Technique = d.Int32()
	c.JmpBypass = d.Int32()
	c.StackSpoof = d.Int32()
	c.ProxyLoading = d.Int32()
	c.SysIndirect = d.Int32()
	c.AmsiEtwPatch = d.Int32()
	if !smb {
		c.KillDate = d.Int64()
		c.WorkingHours = d.Int32()
		c.Method = wstr(d.Bytes())
		c.HostRotation = d.Int32()
		n := d.Int32()
		for i := uint32(0); i < n && !d.Err; i++ {
			h := HostRef{Host: wstr(d.Bytes())}
			h.Port = d.Int32()
			c.Hosts = append(c.Hosts, h) // (hosts of Length 0 are skipped by the Demon; a terminated string never has Length 0)
		}
		c.Secure = d.Int32()
		c.UserAgent = wstr(d.Bytes())
		n = d.Int32()
		for i := uint32(0); i < n && !d.Err; i++ {
			c.Headers = append(c.Headers, wstr(d.Bytes()))
		}
		n = d.Int32()
		for i := uint32(0); i < n && !d.Err; i++ {
			c.Uris = append(c.Uris, wstr(d.Bytes()))
		}
		c.ProxyEnabled = d.Int32() != 0
		if c.ProxyEnabled {
			c.ProxyUrl = wstr(d.Bytes())
			c.ProxyUser = wstr(d.Bytes())
			c.ProxyPass = wstr(d.Bytes())
		}
	} else {
		c.PipeName = wstr(d.Bytes())
		c.KillDate = d.Int64()
		c.WorkingHours = d.Int32()
	}
	c.Rest = d.Len()
	c.Overrun = d.Err
	return c
}

// ---- working hours, from the Demon's side (src/core/Command.c:3263-3279 InWorkingHours)

type Hours struct {
	Enabled                    bool
	StartH, StartM, EndH, EndM uint32
}

func unpackHours(w uint32) Hours {
	return Hours{
		Enabled: (w>>22)&1 != 0,       // Command.c:3273
		StartH:  (w >> 17) & 0b011111, // Command.c:3276
		StartM:  (w >> 11) & 0b111111, // Command.c:3277
		EndH:    (w >> 6) & 0b011111,  // Command.c:3278
		EndM:    (w >> 0) & 0b111111,  // Command.c:3279
	}
}

// hoursVerdict is the harness's reading of the documented format "8:00-17:00".
type hoursVerdict struct {
	Empty      bool  // "" = no working hours
	MustAccept bool  // a well-formed window of real clock times, start before end
	MustReject bool  // outside the grammar, not a clock time by a margin, or inverted
	H          Hours // the numbers (when the shape matched)
	Why        string
}

var hoursShape = regexp.MustCompile(`^([0-9]{1,2}):([0-9]{2})-([0-9]{1,2}):([0-9]{2})$`)

func judgeHours(s string) hoursVerdict {
	if s == "" {
		return hoursVerdict{Empty: true}
	}
	if strings.ContainsAny(s, "\n\r") {
		return hoursVerdict{MustReject: true, Why: "shape"}
	}
	m := hoursShape.FindStringSubmatch(s)
	if m == nil {
		return hoursVerdict{MustReject: true, Why: "shape"}
	}
	n := func(x string) uint32 { v, _ := strconv.Atoi(x); return uint32(v) }
	h := Hours{Enabled: true, StartH: n(m[1]), StartM: n(m[2]), EndH: n(m[3]), EndM: n(m[4])}
	v := hoursVerdict{H: h}
	switch {
	case h.StartH > 24 || h.EndH > 24 || h.StartM > 60 || h.EndM > 60:
		v.MustReject, v.Why = true, "range"
	case h.EndH*60+h.EndM < h.StartH*60+h.StartM:
		v.MustReject, v.Why = true, "inverted"
	case h.StartH == 24 || h.EndH == 24 || h.StartM == 60 || h.EndM == 60:
		v.Why = "grey-24h-60m" // not clock values, tolerated either way
	case h.EndH*60+h.EndM == h.StartH*60+h.StartM:
		v.Why = "grey-empty-window" // start == end: tolerated either way
	case (len(m[1]) == 2 && m[1][0] == '0') || (len(m[3]) == 2 && m[3][0] == '0'):
		v.Why = "grey-zero-padded-hour" // "08:00": the documented form is "8:00"; tolerated either way
	default:
		v.MustAccept = true
	}
	return v
}

package c13

// Listener names for the histories through the teamserver are drawn as RELATED GROUPS
// (the idea of C16's name generator): a base name and relatives of it that a lookup
// comparing names loosely — case folding, trimming, normalisation, prefix matching —
// would take for the base or for each other.  HEAD compares listener names byte for
// byte, so every two different strings below are two different listeners.

import (
	"strings"
	"unicode"

	"golang.org/x/text/unicode/norm"
	"pgregory.net/rapid"
)

var nameBasesH = []string{"edge-s", "s\u00efs-http", "Kiosk", "caf\u00e9-s1"}

func swapCaseH(s string) string {
	var b strings.Builder
	for _, r := range s {
		switch {
		case unicode.IsLower(r):
			b.WriteRune(unicode.ToUpper(r))
		case unicode.IsUpper(r):
			b.WriteRune(unicode.ToLower(r))
		default:
			b.WriteRune(r)
		}
	}
	return b.String()
}

func titleH(s string) string {
	rs := []rune(s)
	if unicode.IsUpper(rs[0]) {
		rs[0] = unicode.ToLower(rs[0])
	} else {
		rs[0] = unicode.ToUpper(rs[0])
	}
	return string(rs)
}

// foldPartnerH replaces the first letter that has a non-ASCII simple-fold partner by it
// (s/S -> ſ U+017F, k/K -> K U+212A KELVIN SIGN).
func foldPartnerH(s string) string {
	for i, r := range s {
		switch r {
		case 's', 'S':
			return s[:i] + "\u017f" + s[i+1:]
		case 'k', 'K':
			return s[:i] + "\u212a" + s[i+1:]
		}
	}
	return s
}

// variantsOfH lists base and its relatives (base first, distinct strings only).
func variantsOfH(base string) []string {
	rs := []rune(base)
	v := []string{
		base,
		titleH(base), strings.ToUpper(base), strings.ToLower(base), swapCaseH(base), // other letter case
		foldPartnerH(base), foldPartnerH(strings.ToUpper(base)), // Unicode fold partner
		" " + base, base + " ", base + "\t", // leading / trailing blank
		string(rs[:len(rs)-1]), string(rs[1:]), base + "2", // prefix, suffix, extension
	}
	// NFC vs NFD spelling: of the base when it has a composed letter, else of an extension
	if nfd := norm.NFD.String(base); nfd != base {
		v = append(v, nfd, strings.ToUpper(nfd))
	} else {
		v = append(v, base+"\u00e9", base+"e\u0301")
	}
	seen := map[string]bool{}
	var out []string
	for _, x := range v {
		if !seen[x] {
			seen[x] = true
			out = append(out, x)
		}
	}
	return out
}

// genNameGroupH draws a base and a pool of 3-5 related names, the base included.
func genNameGroupH(t *rapid.T) (string, []string) {
	base := rapid.SampledFrom(nameBasesH).Draw(t, "name-base")
	vs := variantsOfH(base)
	n := rapid.IntRange(2, 4).Draw(t, "name-variants")
	pool := []string{base}
	for tries := 0; len(pool) < n+1 && tries < 40; tries++ {
		x := rapid.SampledFrom(vs[1:]).Draw(t, "name-variant")
		dup := false
		for _, p := range pool {
			dup = dup || p == x
		}
		if !dup {
			pool = append(pool, x)
		}
	}
	// the order in which names are used is part of the case: shuffle
	perm := rapid.Permutation(pool).Draw(t, "name-order")
	return base, perm
}

// relationOf says how two different names are related (the closest relation wins).
func relationOf(a, b string) string {
	switch {
	case a == b:
		return "same"
	case strings.EqualFold(a, b) && isASCII(a) && isASCII(b):
		return "ascii-case"
	case strings.EqualFold(a, b):
		return "unicode-case-fold"
	case strings.TrimSpace(a) == strings.TrimSpace(b):
		return "blank"
	case norm.NFC.String(a) == norm.NFC.String(b):
		return "nfc-nfd"
	case strings.EqualFold(norm.NFC.String(strings.TrimSpace(a)), norm.NFC.String(strings.TrimSpace(b))):
		return "fold+blank-or-normalisation"
	case strings.HasPrefix(a, b) || strings.HasPrefix(b, a) || strings.HasSuffix(a, b) || strings.HasSuffix(b, a):
		return "prefix-suffix"
	}
	return "other"
}

func isASCII(s string) bool {
	for i := 0; i < len(s); i++ {
		if s[i] >= 0x80 {
			return false
		}
	}
	return true
}

package c13

// C13(f): builds whose dependencies fail - the child processes Build() starts (assembler
// and compiler: stubs owned by the harness, here with generated BEHAVIOURS) and the files
// it reads.
//
// A case is a short history on one live listener object: 2-3 payload requests, each done
// the way dispatch.go does it (new Builder, Build(), and only if that says true
// GetPayloadBytes(), and only if that hands out bytes DeletePayload()).  Exactly one of
// the requests runs under a fault; the fault is lifted afterwards and the history goes on.
//
// What HEAD does (builder.go Cmd / Build, verified by experiment):
//   - a step fails when exec's Run() returns an error: a non-zero exit status of the
//     `sh -c` command as well as its death by a signal;
//   - the result of the assembler steps is ignored; what counts is whether the object file
//     they were to write exists when the compiler is started;
//   - a failed compiler step makes Build() false (for shellcode: the core dll is built by a
//     silent inner Builder; when that fails the outer one runs the compiler once more and
//     fails as well), an Error message is sent, nothing is handed out;
//   - a compiler that exits 0 is believed: what it left at the -o path is the payload
//     (nothing, if the file is missing or empty).
//
// The oracle is the property's: whenever a request ends with bytes handed out, these carry
// the complete configuration block of that request's options and the listener (here: the
// stub compiler stores its command line in the -o file, so the block is the one
// -DCONFIG_BYTES word next to the right -DTRANSPORT_x); a request whose compiler did not
// end with exit status 0 and did not leave a complete output must hand out nothing.  The
// one thing tolerated is HEAD's trust in exit status 0: a compiler that says 0 and leaves
// a cut / misplaced output is not the teamserver's failure to detect.

import (
	"bytes"
	"fmt"
	"os"
	"path/filepath"
	"reflect"
	"strings"
	"testing"

	"Havoc/pkg/common/builder"
	"Havoc/pkg/handlers"

	"pgregory.net/rapid"

	"verifharness/internal/core"
	"verifharness/internal/pick"
)

// StubFault is the behaviour of one tool for the duration of one request.
type StubFault struct {
	Tool    string `json:"tool"`               // "cc" (both compilers) | "nasm"
	End     string `json:"end"`                // "exit:<n>" | "signal:KILL" "signal:SEGV" "signal:TERM"
	Out     string `json:"out"`                // state of the -o file when the tool ends: complete partial empty missing elsewhere
	SlowMs  int    `json:"slow_ms,omitempty"`  // sleeps that long before writing
	NoiseKB int    `json:"noise_kb,omitempty"` // writes that much to stderr and to stdout first
}

func (f *StubFault) childOK() bool { return f == nil || f.End == "exit:0" }

// endKind: exit-0 | exit-nonzero | signal
func (f *StubFault) endKind() string {
	switch {
	case f.End == "exit:0":
		return "exit-0"
	case strings.HasPrefix(f.End, "signal:"):
		return "signal"
	}
	return "exit-nonzero"
}

func (f *StubFault) String() string {
	return fmt.Sprintf("%s:%s:%s", f.Tool, strings.ReplaceAll(f.End, ":", "-"), f.Out)
}

var (
	faultExits   = []string{"exit:1", "exit:2", "exit:126", "exit:127", "exit:255"}
	faultSignals = []string{"signal:KILL", "signal:SEGV", "signal:TERM"}
	faultOuts    = []string{"complete", "partial", "empty", "missing", "elsewhere"}
)

func genStubFault(t *rapid.T, tool string) StubFault {
	f := StubFault{Tool: tool}
	// one draw over the table end kind x output state, so that no cell is starved
	cell := rapid.IntRange(0, 3*len(faultOuts)-1).Draw(t, "fault-cell")
	switch cell / len(faultOuts) {
	case 0:
		f.End = rapid.SampledFrom(faultExits).Draw(t, "fault-exit")
	case 1:
		f.End = rapid.SampledFrom(faultSignals).Draw(t, "fault-signal")
	default:
		f.End = "exit:0"
	}
	f.Out = faultOuts[cell%len(faultOuts)]
	if f.End == "exit:0" && f.Out == "complete" {
		// nothing wrong but the manner: slow and / or loud
		if rapid.Bool().Draw(t, "fault-slow") {
			f.SlowMs = rapid.SampledFrom([]int{100, 200, 300}).Draw(t, "fault-slow-ms")
		} else {
			f.NoiseKB = rapid.SampledFrom([]int{64, 256, 1024}).Draw(t, "fault-noise-kb")
		}
	} else {
		if rapid.IntRange(0, 11).Draw(t, "fault-slow?") == 5 {
			f.SlowMs = rapid.SampledFrom([]int{100, 200}).Draw(t, "fault-slow-ms")
		}
		if rapid.IntRange(0, 5).Draw(t, "fault-noise?") == 3 {
			f.NoiseKB = rapid.SampledFrom([]int{1, 64, 256}).Draw(t, "fault-noise-kb")
		}
	}
	return f
}

// faultStub: a tool that notes its invocation, checks its operands like a compiler driver
// (a file operand that does not exist: "No such file", exit 1), then behaves as told.  A
// complete output is its own command line, NUL separated.  Death by a signal takes the
// `sh -c` shell that started it along (unless that is the test process itself, with a
// shell that execs its last command): the command as a whole dies of the signal, as it
// does when the kernel or a service manager kills the group.
//
//	%[1]s log path   %[2]s style: argv = log the command line, check the operands (sub-check f);
//	outpath = log the -o path only, no operand check (the histories through the teamserver,
//	whose assembler is `true`)   %[3]d pid of the test process
//	%[4]s exit status or empty   %[5]s signal name or empty   %[6]s output mode
//	%[7]s seconds to sleep or empty   %[8]d KB of noise
const faultStub = `#!/bin/sh
LOG='%[1]s'
out=""; prev=""
for a in "$@"; do
  [ "$prev" = "-o" ] && out="$a"
  prev="$a"
done
if [ '%[2]s' = argv ]; then
  printf '%%s\0' "$0" "$@" >> "$LOG"
  printf '\001\0' >> "$LOG"
else
  [ -n "$out" ] && printf '%%s\n' "$out" >> "$LOG"
fi
prev=""
[ '%[2]s' = argv ] && for a in "$@"; do
  if [ -n "$prev" ]; then prev=""; continue; fi
  case "$a" in
    -o|-D|-e|-I|-f) prev="$a" ;;
    -*) ;;
    *) [ -e "$a" ] || { echo "stub: error: $a: No such file or directory" >&2; exit 1; } ;;
  esac
done
[ -n "$out" ] || exit 1
if [ %[8]d -gt 0 ]; then
  head -c $((%[8]d * 1024)) /dev/zero | tr '\0' 'e' >&2
  head -c $((%[8]d * 1024)) /dev/zero | tr '\0' 'o'
fi
[ -n '%[7]s' ] && sleep '%[7]s'
case '%[6]s' in
  complete) printf '%%s\0' "$@" > "$out" ;;
  partial)  printf '%%s\0' "$@" > "$out.full"; n=$(wc -c < "$out.full"); head -c $((n / 2)) "$out.full" > "$out"; rm -f "$out.full" ;;
  empty)    : > "$out" ;;
  elsewhere) printf '%%s\0' "$@" > "$out.alt" ;;
  missing)  ;;
esac
if [ -n '%[5]s' ]; then
  p=$PPID
  if [ "$p" != '%[3]d' ]; then
    case "$(cat /proc/$p/comm 2>/dev/null)" in sh|dash|bash|ash) kill -%[5]s $p ;; esac
  fi
  kill -%[5]s $$
  sleep 5
  exit 99
fi
exit %[4]s
`

func stubText(f *StubFault, logPath, logStyle string) string {
	if f == nil {
		f = &StubFault{End: "exit:0", Out: "complete"}
	}
	exit, sig := "0", ""
	if strings.HasPrefix(f.End, "signal:") {
		sig = strings.TrimPrefix(f.End, "signal:")
	} else {
		exit = strings.TrimPrefix(f.End, "exit:")
	}
	slow := ""
	if f.SlowMs > 0 {
		slow = fmt.Sprintf("%d.%03d", f.SlowMs/1000, f.SlowMs%1000)
	}
	return fmt.Sprintf(faultStub, logPath, logStyle, os.Getpid(), exit, sig, f.Out, slow, f.NoiseKB)
}

// validFault: a replay file cannot make the stub do anything else.
func validFault(f *StubFault) bool {
	if f == nil {
		return true
	}
	in := func(s string, xs ...string) bool {
		for _, x := range xs {
			if s == x {
				return true
			}
		}
		return false
	}
	return in(f.Tool, "cc", "nasm") && in(f.End, append(append([]string{"exit:0"}, faultExits...), faultSignals...)...) &&
		in(f.Out, faultOuts...) && f.SlowMs >= 0 && f.SlowMs <= 1000 && f.NoiseKB >= 0 && f.NoiseKB <= 2048
}

func writeStub(path, text string) {
	tmp := path + ".new"
	if err := os.WriteFile(tmp, []byte(text), 0o755); err != nil {
		panic(err)
	}
	if err := os.Rename(tmp, path); err != nil {
		panic(err)
	}
}

// ---------------------------------------------------------------------------- case

var fileFaults = []string{"source-dir-missing", "source-subdir-missing", "shellcode-template-missing"}

type StepF struct {
	Opts   Opts       `json:"opts"`
	Format int        `json:"format"`
	Arch   int        `json:"arch"`
	Fault  *StubFault `json:"fault,omitempty"`
	File   string     `json:"file,omitempty"` // one of fileFaults
}

type CaseF struct {
	L     ListenerObj `json:"listener"`
	Steps []StepF     `json:"steps"`
}

func genF(t *rapid.T) CaseF {
	var c CaseF
	a := genCaseA(t, false)
	c.L = ListenerObj{SMB: a.SMB, HTTP: a.HTTP, Pipe: a.Pipe}
	n := rapid.IntRange(2, 3).Draw(t, "nsteps")
	at := rapid.IntRange(0, n-1).Draw(t, "fault-at")
	for i := 0; i < n; i++ {
		s := StepF{Opts: genOpts(t), Format: rapid.SampledFrom(formats).Draw(t, "format"),
			Arch: rapid.SampledFrom([]int{builder.ARCHITECTURE_X64, builder.ARCHITECTURE_X86}).Draw(t, "arch")}
		if i == 0 {
			s.Opts = a.Opts // (a scaled case may have its size from the spawn paths)
		}
		if i == at {
			switch k := rapid.IntRange(0, 19).Draw(t, "fault-dep"); {
			case k < 11:
				f := genStubFault(t, "cc")
				s.Fault = &f
			case k < 17:
				f := genStubFault(t, "nasm")
				s.Fault = &f
			default:
				s.File = rapid.SampledFrom(fileFaults).Draw(t, "fault-file")
				if s.File == "shellcode-template-missing" && rapid.IntRange(0, 3).Draw(t, "shellcode") > 0 {
					s.Format = builder.FILETYPE_WINDOWS_RAW_BINARY
				}
			}
		}
		c.Steps = append(c.Steps, s)
	}
	return c
}

// ---------------------------------------------------------------------------- check

// completeFor: the bytes carry the command line of a compile with the listener's transport
// define and exactly one configuration block, equal to ref.
func completeFor(p []byte, smb bool, ref []byte) (bool, string) {
	d := parseDelivered(p)
	want := "-DTRANSPORT_HTTP"
	if smb {
		want = "-DTRANSPORT_SMB"
	}
	switch {
	case len(d.Blocks) == 0:
		return false, "no complete -DCONFIG_BYTES word"
	case len(d.Blocks) > 1:
		return false, fmt.Sprintf("%d -DCONFIG_BYTES words", len(d.Blocks))
	case d.Transport != want:
		return false, fmt.Sprintf("transport define %q, the listener needs %s", d.Transport, want)
	case !bytes.Equal(d.Blocks[0], ref):
		return false, fmt.Sprintf("a %d-byte block, PatchConfig() for the same request gives %d bytes", len(d.Blocks[0]), len(ref))
	}
	return true, ""
}

func runF(c CaseF, report func(*core.Violation)) {
	if len(c.Steps) == 0 {
		return
	}
	dir, err := os.MkdirTemp(procRoot, "casef-")
	if err != nil {
		panic(err)
	}
	defer os.RemoveAll(dir)
	logPath := filepath.Join(dir, "argv.log")
	tools := []string{"cc64", "cc86", "nasm"}
	setStubs := func(f *StubFault) {
		for _, tool := range tools {
			var tf *StubFault
			if f != nil && ((f.Tool == "nasm") == (tool == "nasm")) {
				tf = f
			}
			writeStub(filepath.Join(dir, tool), stubText(tf, logPath, "argv"))
		}
	}
	bcfg := builder.BuilderConfig{Compiler64: filepath.Join(dir, "cc64"), Compiler86: filepath.Join(dir, "cc86"), Nasm: filepath.Join(dir, "nasm")}

	cfg0 := CaseA{SMB: c.L.SMB, HTTP: c.L.HTTP, Pipe: c.L.Pipe}
	lType, lCfg := listenerOf(cfg0) // the live listener of the history
	var beforeHTTP handlers.HTTPConfig
	var beforeSMB handlers.SMBConfig
	if c.L.SMB {
		beforeSMB = lCfg.(*handlers.SMB).Config
	} else {
		beforeHTTP = copyHTTPConfig(lCfg.(*handlers.HTTP).Config)
	}

	faultSeen := "none"
	for k, s := range c.Steps {
		if !validFault(s.Fault) {
			return
		}
		cm := cfg0
		cm.Opts = s.Opts
		if e := expect(cm); len(e.MustFail) > 0 || e.Grey {
			return // hand-written replay: sub-checks a and b judge those
		}
		conf := configJSON(s.Opts, nil)
		ext := extOf(s.Arch, s.Format)

		// the block this request has to carry: a builder and a listener object of their own
		var rm []consoleMsg
		rt, rc := listenerOf(cm)
		rb, err := newBuilder(bcfg, conf, s.Arch, s.Format, ext, rt, rc, &rm)
		if err != nil {
			report(core.V("patch|SetConfig-rejected-client-json", "SetConfig(%s): %v", conf, err))
			return
		}
		ref, err := rb.PatchConfig()
		if err != nil {
			return
		}

		// ---- the fault
		setStubs(s.Fault)
		var undo func()
		move := func(p string) {
			if err := os.Rename(p, p+".away"); err == nil {
				undo = func() { os.Rename(p+".away", p) }
			}
		}
		switch s.File {
		case "source-dir-missing":
			move(filepath.Join(procRoot, "payloads", "Demon"))
		case "source-subdir-missing":
			move(filepath.Join(procRoot, "payloads", "Demon", "src", "core"))
		case "shellcode-template-missing":
			n := "Shellcode.x64.bin"
			if s.Arch != builder.ARCHITECTURE_X64 {
				n = "Shellcode.x86.bin"
			}
			move(filepath.Join(procRoot, "payloads", n))
		}

		// ---- the request, as dispatch.go runs it
		os.Remove(logPath)
		var msgs []consoleMsg
		b, err := newBuilder(bcfg, conf, s.Arch, s.Format, ext, lType, lCfg, &msgs)
		if err != nil {
			if undo != nil {
				undo()
			}
			return
		}
		var pal []byte
		ok := b.Build()
		if ok {
			pal = b.GetPayloadBytes()
			if len(pal) > 0 {
				b.DeletePayload()
			}
		}
		if undo != nil {
			undo()
		}
		setStubs(nil)

		// what the request left under /tmp (failed builds keep their directories on HEAD)
		dirs := map[string]bool{}
		var outs []string
		if compileDirRe.MatchString(b.CompileDir) {
			dirs[b.CompileDir] = true
		}
		ccRuns := 0
		for _, i := range readLog(logPath) {
			if i.Tool != "nasm" {
				ccRuns++
			}
			for j, a := range i.Args {
				if a == "-o" && j+1 < len(i.Args) {
					outs = append(outs, i.Args[j+1], i.Args[j+1]+".alt", i.Args[j+1]+".full")
					dirs[filepath.Dir(i.Args[j+1])+"/"] = true
				}
			}
		}
		cleanupBuildDirs(dirs, outs)

		// ---- the verdict
		fq, stepKind := "none", "build-"+formatName(s.Format)
		switch {
		case s.Fault != nil:
			fq = s.Fault.String()
		case s.File != "":
			fq = "file:" + s.File
		}
		where := fmt.Sprintf("request %d of %d (%s arch %d, fault %s; earlier fault in this history: %s)", k+1, len(c.Steps), formatName(s.Format), s.Arch, fq, faultSeen)
		sawErr := false
		for _, m := range msgs {
			if m.Type == "Error" {
				sawErr = true
			}
		}
		handed := ok && len(pal) > 0
		complete, why := false, ""
		if handed {
			complete, why = completeFor(pal, c.L.SMB, ref)
		}
		// nothing is wrong with this request's dependencies (or only their manner)
		ordinary := s.File == "" && (s.Fault == nil || (s.Fault.End == "exit:0" && s.Fault.Out == "complete"))
		if s.File == "source-subdir-missing" || (s.File == "shellcode-template-missing" && s.Format != builder.FILETYPE_WINDOWS_RAW_BINARY) {
			ordinary = true // HEAD: the stub compiler is content with the sources it is given / the template is not read
		}
		// HEAD believes exit status 0: the compiler's output is the payload, whatever it is
		believed := s.Fault != nil && s.Fault.Tool == "cc" && s.Fault.End == "exit:0" && s.Fault.Out != "complete"
		switch {
		case handed && !complete && !believed:
			sig := "fault|incomplete-payload-handed-out|" + fq + "@" + stepKind
			if ordinary {
				sig = "fault|incomplete-payload-handed-out|ordinary-request|after=" + faultSeen
			}
			report(core.V(sig, "%s: Build() = true and %d bytes were handed out that do not carry the request's configuration block (%s); %d compiler runs; console %v", where, len(pal), why, ccRuns, tail(msgs, 4)))
		case ordinary && !handed:
			report(core.V("fault|request-failed-without-fault|after="+faultSeen+"|"+formatName(s.Format), "%s: Build() = %v, %d bytes handed out, although nothing fails in this request; %d compiler runs; console %v", where, ok, len(pal), ccRuns, tail(msgs, 4)))
		case !ok && !sawErr:
			report(core.V("fault|silent-failure|"+fq+"@"+stepKind, "%s: the build failed without an Error console message: %v", where, msgs))
		}
		if handed && complete {
			verifyFields(cm, ref, func(v *core.Violation) { v.Sig = "fault|" + v.Sig; v.Msg = where + ": " + v.Msg; report(v) })
		}

		// the live listener is what it was
		if c.L.SMB {
			if lCfg.(*handlers.SMB).Config != beforeSMB {
				report(core.V("fault|listener-mutated|smb", "%s: the SMB listener's configuration changed to %+v", where, lCfg.(*handlers.SMB).Config))
			}
		} else if now := copyHTTPConfig(lCfg.(*handlers.HTTP).Config); !reflect.DeepEqual(now, beforeHTTP) {
			report(core.V("fault|listener-mutated|http", "%s: the HTTP listener's configuration changed to %+v", where, now))
		}
		if fq != "none" {
			faultSeen = fq
		}
	}
}

func checkF(c CaseF) *core.Violation {
	var all []*core.Violation
	runF(c, func(v *core.Violation) { all = append(all, v) })
	return pick.First("C13", all)
}

// ---------------------------------------------------------------------------- classification

// faultLabels: 'fault:<dependency>:<operation>:<how>@<step kind>'
func faultLabels(f *StubFault, file, step string) []string {
	var out []string
	if f != nil {
		op := "compiler"
		if f.Tool == "nasm" {
			op = "assembler"
		}
		out = append(out, fmt.Sprintf("fault:child-process:%s:output-%s@%s", op, f.Out, step))
		if f.Tool == "cc" {
			out = append(out, fmt.Sprintf("fault:child-process:%s:%s@%s", op, strings.ReplaceAll(f.End, ":", "-"), step),
				fmt.Sprintf("fault:child-process:%s:%s+output-%s@%s", op, f.endKind(), f.Out, step))
		} else {
			out = append(out, fmt.Sprintf("fault:child-process:%s:%s@%s", op, f.endKind(), step))
		}
		if f.SlowMs > 0 {
			out = append(out, fmt.Sprintf("fault:child-process:%s:slow@%s", op, step))
		}
		if f.NoiseKB > 0 {
			out = append(out, fmt.Sprintf("fault:child-process:%s:loud@%s", op, step))
		}
	}
	if file != "" {
		out = append(out, fmt.Sprintf("fault:file:%s@%s", strings.Replace(file, "-missing", ":missing", 1), step))
	}
	return out
}

func classifyF(c CaseF) core.Class {
	var cl core.Class
	pos, fq, ffmt := "none", "none", ""
	for k, s := range c.Steps {
		if s.Fault == nil && s.File == "" {
			continue
		}
		cl.Labels = append(cl.Labels, faultLabels(s.Fault, s.File, "build")...)
		switch {
		case k == 0:
			pos = "first"
		case k == len(c.Steps)-1:
			pos = "last"
		default:
			pos = "middle"
		}
		if s.Fault != nil {
			fq = s.Fault.Tool + ":" + s.Fault.endKind() + ":" + s.Fault.Out
		} else {
			fq = "file:" + s.File
		}
		ffmt = formatName(s.Format)
		cl.Labels = append(cl.Labels, "fault-at:"+pos+"-request", "fault-format:"+ffmt)
	}
	tr := "http"
	if c.L.SMB {
		tr = "smb"
	}
	cl.Labels = append(cl.Labels, "transport:"+tr, fmt.Sprintf("requests:%d", len(c.Steps)))
	if !c.L.SMB {
		cl.Labels = append(cl.Labels, hostLabels(c.L.HTTP.Hosts)...)
	}
	cl.Labels = append(cl.Labels, scaleLabels(CaseA{SMB: c.L.SMB, HTTP: c.L.HTTP, Pipe: c.L.Pipe})...)
	cl.NonTrivial = fq != "none"
	shell := "exe-dll"
	if ffmt == "shellcode" {
		shell = "shellcode"
	}
	cl.Fingerprint = fmt.Sprintf("%s|%s|%s|%s", fq, pos, shell, tr)
	return cl
}

func TestC13f(t *testing.T) {
	core.Run(t, core.Spec[CaseF]{
		Property: "C13", Sub: "f",
		Rule: "FAULTS of the dependencies of Build(): histories of 2-3 payload requests on one live listener object (HTTP or SMB, encodable configurations of (a) incl. its host and scale classes), each request done as dispatch.go does it (new Builder with fresh options, any format x arch; Build(); if true GetPayloadBytes(); if bytes DeletePayload()), exactly ONE request of every history running under one fault, which is lifted afterwards (fault at the first / a middle / the last request). The compilers and the assembler are stubs that check their operands like a compiler driver and store their command line in the -o file; under a fault one of them gets a generated BEHAVIOUR for that request: {compiler 11/20 | assembler 6/20} ends with {exit status 1, 2, 126, 127, 255 | death by SIGKILL, SIGSEGV, SIGTERM, the `sh -c` shell that runs it dying of the same signal | exit status 0} (a third each) having left the -o file {complete | cut to half | empty | missing | written to another path}, sometimes after sleeping 100-300 ms and / or after writing 1 KB - 1 MB to stderr and stdout (exit 0 with a complete output is always slow or loud); or (3/20) a file Build() needs is missing for that request: the whole source directory (the command cannot be started), one source sub-directory, the shellcode template. Oracle (the property's, HEAD as the model of what fails): whenever a request ends with bytes handed out, they carry the complete configuration block of that request - the right -DTRANSPORT_x and exactly one -DCONFIG_BYTES word equal to PatchConfig() of a separate builder for the same options and listener, which also passes (a)'s field oracle; the one exception is HEAD's trust in exit status 0 (a compiler that says 0 and leaves a cut / misplaced output); a request with nothing wrong but the manner (slow, loud), a missing source sub-directory, or a missing template that its format does not use must hand out the complete payload, as must every request before and after the faulty one; a failed build sends an Error console message; the live listener stays deep-equal to what it was. Labels fault:child-process:compiler:<exit-N|signal-X|output-<state>|<end kind>+output-<state>|slow|loud>@build, fault:child-process:assembler:<end kind|output-<state>|slow|loud>@build, fault:file:<what>:missing@build. Non-trivial: every case; distinct = (tool, end kind, output state | file, position of the faulty request, shellcode or not, transport)",
		Gen:  genF, Check: checkF, Classify: classifyF,
		Assumptions: []string{
			"/bin/sh and the coreutils head, tr, wc, sleep exist; a stub told to die of a signal also kills its parent when that is a shell (never the test process): the `sh -c` command as a whole dies of the signal",
			"a compiler that ends with exit status 0 is believed by HEAD whatever it left at the output path; such payloads are not judged",
			"the directories failed builds leave under /tmp (HEAD removes them only after a delivered payload) are removed by the harness after every request",
		},
	})
}

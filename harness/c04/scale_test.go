package c04

// SCALE dimension shared by the C04 sub-checks: in a small share of the cases one of the
// property's counts (jobs queued at a check-in, jobs in one reply, check-ins per history,
// jobs per producer, producers, relay packets of one client) is a LARGE value next to a
// power of two or a round decimal number, built by a loop of the same real call the small
// cases use.

import (
	"pgregory.net/rapid"

	"verifharness/internal/agentfx"
	"verifharness/internal/core"
)

// threshold-adjacent pool, in triples; the weights favour the upper middle (the limits of
// tables / batches in this code base are of that order) over the cheap low end
var (
	scaleTriples = [][3]int{{63, 64, 65}, {127, 128, 129}, {255, 256, 257}, {511, 512, 513}, {999, 1000, 1001}, {1023, 1024, 1025}, {2047, 2048, 2049}, {4095, 4096, 4097}, {8191, 8192, 8193}, {16383, 16384, 16385}}
	scaleWeights = []int{1, 1, 1, 1, 2, 3, 2, 2, 1, 1}
)

// genScale draws a pool value <= max (quick tier) or <= maxThorough (thorough tier).
func genScale(t *rapid.T, label string, max, maxThorough int) int {
	if core.Tier() == "thorough" {
		max = maxThorough
	}
	n := 0
	for n < len(scaleTriples) && scaleTriples[n][2] <= max {
		n++
	}
	if n == 0 {
		return scaleTriples[0][1]
	}
	k := agentfx.Weighted(t, label, scaleWeights[:n]...)
	return scaleTriples[k][agentfx.Weighted(t, label+"-adj", 1, 1, 1)]
}

// scaleBucket names the bucket of an observed count ("" below the pool).
func scaleBucket(n int) string {
	switch {
	case n < 63:
		return ""
	case n < 192:
		return "64-129"
	case n < 768:
		return "255-513"
	case n < 1536:
		return "999-1025"
	case n < 6144:
		return "2047-4097"
	}
	return "8191+"
}

func scaleLabel(what string, n int) []string {
	if b := scaleBucket(n); b != "" {
		return []string{"scale:" + what + ":" + b}
	}
	return nil
}

package c04

// C04(c): generated concurrent programs - 1-4 producer goroutines queue tasks for one
// agent (operator path and relay path, both end in Agent.AddJobToQueue, as
// cmd/server/dispatch.go and the SOCKS reader goroutine in pkg/agent/demons.go do)
// while the listener goroutine serves that agent's check-ins.  Built with -race: the
// driver turns every race report with a Havoc frame into a violation `race|f1|f2`.

import (
	"fmt"
	"runtime"
	"runtime/debug"
	"sync"
	"sync/atomic"
	"testing"

	"Havoc/pkg/agent"

	"pgregory.net/rapid"

	"verifharness/internal/agentfx"
	"verifharness/internal/core"
	"verifharness/internal/demonref"
)

type JobC struct {
	Relay bool `json:"relay,omitempty"`
	Size  int  `json:"size"`
	Yield int  `json:"yield,omitempty"` // scheduler yields before queueing
}

type CaseC struct {
	Producers [][]JobC `json:"producers"`
	Pre       int      `json:"pre"`               // tasks queued before the goroutines start
	CYield    int      `json:"cyield"`            // scheduler yields of the consumer between check-ins
	Pivot     int      `json:"pivot,omitempty"`   // 0: the tasks are for the directly connected agent; 1-2: for a pivot agent at that depth below it
	PivotID   uint32   `json:"pivotid,omitempty"` // id of the target pivot agent
	Cfg       Cfg      `json:"cfg,omitempty"`     // configuration / environment of the fixture (cfg_test.go)
}

func genC(t *rapid.T) CaseC {
	var c CaseC
	p := 1 + agentfx.Bits(t, "producers", 2)
	for i := 0; i < p; i++ {
		n := rapid.IntRange(1, 40).Draw(t, "njobs")
		var js []JobC
		relay := agentfx.Weighted(t, "path", 2, 1, 1)            // 0 operator, 1 relay, 2 mixed
		pace := []int{1, 8, 40, 150}[agentfx.Bits(t, "pace", 2)] // how slow this producer is relative to a check-in
		for j := 0; j < n; j++ {
			jb := JobC{Size: rapid.IntRange(0, 200).Draw(t, "size"), Yield: rapid.IntRange(0, 12).Draw(t, "yield") * pace}
			jb.Relay = relay == 1 || (relay == 2 && rapid.Bool().Draw(t, "relay"))
			js = append(js, jb)
		}
		c.Producers = append(c.Producers, js)
	}
	c.Pre = rapid.IntRange(0, 4).Draw(t, "pre")
	c.CYield = rapid.IntRange(0, 6).Draw(t, "cyield")
	c.Cfg = genCfg(t, 1+c.Pivot)
	// SCALE (1 case in 40): one of the counts of the program is a threshold-adjacent large
	// value, on top of the producers generated above
	if agentfx.Weighted(t, "scale", 39, 1) == 1 {
		switch agentfx.Weighted(t, "scalewhat", 2, 1, 1) {
		case 0: // one producer queues that many jobs (mostly without pausing: a burst of relay packets)
			n := genScale(t, "jobs", 4097, 8193)
			relay := agentfx.Bits(t, "path", 1) == 1
			slow := agentfx.Bits(t, "slow", 2) == 0
			var js []JobC
			for j := 0; j < n; j++ {
				jb := JobC{Size: (j * 7) % 23, Relay: relay}
				if slow && j%16 == 0 {
					jb.Yield = 3
				}
				js = append(js, jb)
			}
			at := rapid.IntRange(0, len(c.Producers)).Draw(t, "at")
			c.Producers = append(c.Producers[:at:at], append([][]JobC{js}, c.Producers[at:]...)...)
		case 1: // that many producers with 1-3 jobs each
			n := genScale(t, "producers", 129, 513)
			for len(c.Producers) < n {
				i := len(c.Producers)
				js := []JobC{{Size: i % 31, Relay: i%3 == 0, Yield: i % 5}}
				for k := 0; k < i%3; k++ {
					js = append(js, JobC{Size: k, Relay: i%2 == 0, Yield: k})
				}
				c.Producers = append(c.Producers, js)
			}
		default: // that many tasks are already queued when the producers and the consumer start
			c.Pre = genScale(t, "pre", 4097, 8193)
		}
	}
	c.Pivot = agentfx.Weighted(t, "pivot", 3, 1, 1)
	if c.Pivot > 0 {
		c.PivotID = genIDA(t, map[uint32]bool{0x0a0b0001: true, 0x0a0b0102: true})
	}
	return c
}

func idC(p, seq int) uint32 { return uint32(p+1)<<20 | uint32(seq) }

func jobC(p, seq int, j JobC) agent.Job {
	id := idC(p, seq)
	data := big()[64+seq : 64+seq+j.Size]
	if j.Relay {
		return agent.Job{Command: agent.COMMAND_SOCKET, Data: []interface{}{agent.SOCKET_COMMAND_WRITE, int32(id), data}}
	}
	return agent.Job{Command: agent.COMMAND_SLEEP, RequestID: id, Data: []interface{}{1, int32(id), data}}
}

type obsC struct {
	overlap  int // largest number of producers active around one check-in
	checkins int
	multi    bool
	maxBatch int // most tasks in one reply
}

var lastC obsC

func checkC(c CaseC) *core.Violation {
	lastC = obsC{}
	ids, parents := []uint32{0x0a0b0001}, []int{-1}
	if c.Pivot >= 2 {
		ids, parents = append(ids, 0x0a0b0102), append(parents, 0)
	}
	if c.Pivot >= 1 {
		ids, parents = append(ids, c.PivotID), append(parents, len(ids)-1)
	}
	w, err := newForestCfg(ids, parents, c.Cfg)
	if err != nil {
		return core.V("harness|fixture", "%v", err)
	}
	a := w.ses[len(ids)-1].A // the agent the tasks are queued for; check-ins happen at agent 0
	via := w.via(len(ids) - 1)
	spec := map[uint32]JobC{}
	enq := 0
	// the pre-queued tasks belong to an extra producer index (sequential, before the start)
	preP := len(c.Producers)
	for s := 0; s < c.Pre; s++ {
		j := JobC{Size: 8}
		a.AddJobToQueue(jobC(preP, s, j))
		spec[idC(preP, s)] = j
		enq++
	}
	for p, js := range c.Producers {
		for s, j := range js {
			spec[idC(p, s)] = j
			enq++
		}
	}

	var (
		wg      sync.WaitGroup
		start   = make(chan struct{})
		active  atomic.Int32
		done    atomic.Bool
		pmu     sync.Mutex
		ppanics []string
	)
	for p, js := range c.Producers {
		wg.Add(1)
		go func(p int, js []JobC) {
			defer wg.Done()
			defer func() {
				if r := recover(); r != nil {
					pmu.Lock()
					ppanics = append(ppanics, fmt.Sprintf("%v\n%s", r, debug.Stack()))
					pmu.Unlock()
				}
			}()
			<-start
			active.Add(1)
			defer active.Add(-1)
			for s, j := range js {
				for y := 0; y < j.Yield; y++ {
					runtime.Gosched()
				}
				a.AddJobToQueue(jobC(p, s, j))
			}
		}(p, js)
	}
	go func() { wg.Wait(); done.Store(true) }()

	var delivered []demonref.Task
	var v *core.Violation
	one := func() (nojob bool) {
		before := int(active.Load())
		code, tasks, ok := w.CheckIn(w.ses[0], true, nil)
		after := int(active.Load())
		w.rec.Take()
		lastC.checkins++
		if before < after {
			after = before
		}
		if after > lastC.overlap {
			lastC.overlap = after
		}
		if code != 200 || !ok || len(tasks) == 0 {
			if v == nil {
				v = core.V("c|checkin|undecodable-reply", "check-in answered HTTP %d with an undecodable body", code)
			}
			return true
		}
		if agentfx.IsNoJob(tasks) {
			return true
		}
		if len(tasks) > 1 {
			lastC.multi = true
		}
		if len(tasks) > lastC.maxBatch {
			lastC.maxBatch = len(tasks)
		}
		delivered = append(delivered, tasks...)
		return false
	}
	close(start)
	for !done.Load() {
		one()
		for y := 0; y < c.CYield; y++ {
			runtime.Gosched()
		}
	}
	wg.Wait()
	for i := 0; i < enq+8; i++ {
		if one() {
			break
		}
	}
	if v != nil {
		return v
	}
	if len(ppanics) > 0 {
		return &core.Violation{Sig: "c|panic-in-producer|" + core.HavocFrame(ppanics[0]), Msg: ppanics[0]}
	}

	// ---- oracle: delivered == queued as multisets, per-producer order, no duplicates
	seen := map[uint32]int{}
	lastSeq := map[int]int{}
	for i, t := range delivered {
		if len(via) > 1 {
			var uv *core.Violation
			if t, uv = unwrapFor("c", via, t, -1); uv != nil {
				return uv
			}
		}
		d := &demonref.Dec{B: t.Body}
		d.Int32()
		id := d.Int32()
		data := d.Bytes()
		j, known := spec[id]
		if d.Err || d.Len() != 0 || !known {
			return core.V("c|unknown-task", "delivered task #%d (cmd %d, req %#x, %d body bytes) is none of the queued ones", i, t.Cmd, t.ReqID, len(t.Body))
		}
		p, seq := int(id>>20)-1, int(id&0xfffff)
		wantReq, wantCmd := id, uint32(agent.COMMAND_SLEEP)
		if j.Relay {
			wantReq, wantCmd = 0, agent.COMMAND_SOCKET
		}
		if t.ReqID != wantReq || t.Cmd != wantCmd || len(data) != j.Size || string(data) != string(big()[64+seq:64+seq+j.Size]) {
			return core.V("c|wrong-task", "delivered task #%d (producer %d, seq %d) differs from what was queued: cmd %d req %#x, %d data bytes", i, p, seq, t.Cmd, t.ReqID, len(data))
		}
		seen[id]++
		if seen[id] > 1 {
			return core.V("c|duplicated", "task seq %d of producer %d was delivered %d times (%d delivered, %d queued)", seq, p, seen[id], len(delivered), enq)
		}
		if ls, ok := lastSeq[p]; ok && seq < ls {
			return core.V("c|reordered", "producer %d: task seq %d was delivered after seq %d", p, seq, ls)
		}
		lastSeq[p] = seq
	}
	if len(seen) != enq {
		n, first := 0, uint32(0xffffffff)
		for id := range spec {
			if seen[id] == 0 {
				n++
				if id < first {
					first = id
				}
			}
		}
		return core.V("c|lost", "%d of %d queued tasks were never delivered (first: producer %d seq %d) although the queue was drained to a no-job reply", n, enq, int(first>>20)-1, int(first&0xfffff))
	}
	return nil
}

func classifyC(c CaseC) core.Class {
	o := lastC
	var cl core.Class
	total, relay, oper := 0, false, false
	for _, js := range c.Producers {
		total += len(js)
		for _, j := range js {
			if j.Relay {
				relay = true
			} else {
				oper = true
			}
		}
	}
	cl.Labels = append(cl.Labels, fmt.Sprintf("target-pivot-depth:%d", c.Pivot), "producers:"+smallC(len(c.Producers)), "overlap:"+smallC(o.overlap), "jobs:"+bucketC(total))
	if relay {
		cl.Labels = append(cl.Labels, "path:relay")
	}
	if oper {
		cl.Labels = append(cl.Labels, "path:operator")
	}
	if o.multi {
		cl.Labels = append(cl.Labels, "multi-task-reply")
	}
	maxJobs := 0
	for _, js := range c.Producers {
		if len(js) > maxJobs {
			maxJobs = len(js)
		}
	}
	cl.Labels = append(cl.Labels, c.Cfg.labels()...)
	cl.Labels = append(cl.Labels, scaleLabel("jobs-of-one-producer", maxJobs)...)
	cl.Labels = append(cl.Labels, scaleLabel("producers", len(c.Producers))...)
	cl.Labels = append(cl.Labels, scaleLabel("pre-queued-jobs", c.Pre)...)
	cl.Labels = append(cl.Labels, scaleLabel("jobs-in-one-reply", o.maxBatch)...)
	cl.Labels = append(cl.Labels, scaleLabel("check-ins-per-history", o.checkins)...)
	cl.NonTrivial = o.overlap >= 2
	np, ov := len(c.Producers), o.overlap
	if np > 4 { // scale cases: bucketed, or every count would be a fingerprint of its own
		np = 5
	}
	if ov > 4 {
		ov = 5
	}
	cl.Fingerprint = fmt.Sprintf("pd=%d|p=%d|ov=%d|relay=%v|op=%v|pre=%v|jobs=%s", c.Pivot, np, ov, relay, oper, c.Pre > 0, bucketC(total))
	cl.Fingerprint += c.Cfg.fp()
	if sj, sp, sq := scaleBucket(maxJobs), scaleBucket(len(c.Producers)), scaleBucket(c.Pre); sj+sp+sq != "" {
		cl.Fingerprint += "|scale=" + sj + "/" + sp + "/" + sq
	}
	return cl
}

func smallC(n int) string {
	if n > 4 {
		return "5+"
	}
	return fmt.Sprint(n)
}

func bucketC(n int) string {
	switch {
	case n <= 10:
		return "1-10"
	case n <= 40:
		return "11-40"
	case n <= 80:
		return "41-80"
	}
	return "81+"
}

func TestC04c(t *testing.T) {
	big()
	core.Run(t, core.Spec[CaseC]{
		Property: "C04", Sub: "c",
		Rule: "concurrent programs (in 2 of 5 the tasks are for a pivot agent at depth 1-2 with an id from the whole 32-bit range, and are unwrapped from the directly connected agent's check-ins): 1-4 producer goroutines with 1-40 generated jobs each (operator path with request ids / relay path with request id 0 / mixed, 0-200 data bytes, 0-12 scheduler yields x a per-producer pace of 1/8/40/150 before each AddJobToQueue), 0-4 tasks queued beforehand, one consumer doing check-ins through the real endpoint until all producers finished and the queue drained to a no-job reply; run under the race detector. Oracle: every delivered task is a queued one, none twice, none missing, per-producer order kept; race reports with a Havoc frame are violations (driver). Non-trivial: at least 2 producers were running both before and after some check-in (observed); distinct = (#producers, observed overlap, paths used, pre-queued, job-count bucket). SCALE (1 case in 40, on top of the generated producers): one count of the program is drawn from the threshold-adjacent pool {63,64,65, 127..129, 255..257, 511..513, 999..1001, 1023..1025, 2047..2049, 4095..4097, (thorough: 8191..8193)}: the jobs of one extra producer (a burst, or pausing every 16th job; pool cut at 4097 in the quick tier because the run is under the race detector), the number of producers (1-3 jobs each; cut at 129 quick / 513 thorough), or the number of tasks queued before the goroutines start (cut at 4097 / 8193); same oracle over everything delivered; labels scale:<count>:<bucket> also for the observed jobs-in-one-reply and check-ins" + cfgRule,
		Gen:  genC, Check: checkC, Classify: classifyC,
		Assumptions: []string{"interleavings are sampled, not enumerated: the Go scheduler decides; the race detector turns unsynchronised access into a schedule-independent signal"},
	})
}

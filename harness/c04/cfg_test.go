package c04

// CONFIGURATION / ENVIRONMENT dimension shared by the C04 sub-checks.  The fixture of a
// case is built from a generated configuration; about half of the cases keep the
// default one.  Everything here is something HEAD reads (or stores) on the check-in path
// and that, by the property, must not change WHAT a check-in hands out:
//
//   - what the agent reports at registration (DEMON_INIT metadata): packed working hours,
//     kill date, sleep, jitter;
//   - the teamserver's time zone (time.Local) and so the relation of its wall clock to the
//     agent's working-hours window and kill date;
//   - whether the operator has marked the agent dead;
//   - the listener the agent talks to: the HTTP listener as the fixture always had it, the
//     HTTP listener with a profile (required user agent, URIs, request headers, response
//     headers), the HTTP listener behind a redirector (X-Forwarded-For), the External-C2
//     endpoint.
//
// Values that depend on the wall clock (a window that contains / excludes "now", a kill
// date in the past / future) are stored as CLASSES in the case and turned into numbers
// when the fixture is built, so that a replay means the same thing at any time of day.

import (
	"bytes"
	"fmt"
	"net/http"
	"net/http/httptest"
	"sort"
	"time"

	"Havoc/pkg/common"
	"Havoc/pkg/handlers"

	"github.com/gin-gonic/gin"
	"pgregory.net/rapid"

	"verifharness/internal/agentfx"
	"verifharness/internal/demonref"
)

// cfgRule is appended to the Rule text of every sub-check.
const cfgRule = ". CONFIGURATION / ENVIRONMENT (half of the cases keep the default fixture; the others draw, in combinations): per agent the registration metadata it reports - packed working hours {unset, whole day, window containing now, ended >= 2 min before now, starting >= 2 min after now, ending at 24:00, running over midnight and containing / excluding now, one minute that is not now; 'now' = the teamserver's local time of day when the fixture is built}, kill date {unset, tomorrow, yesterday, an hour ago in epoch seconds, far future}, sleep {2, 0, 1, 2^31-1, 2^32-1}, jitter {10, 0, 100, 101, 2^32-1} -, marked dead by the operator (directly connected agents without links); the teamserver's time zone time.Local {host zone, UTC, +05:30, +05:45, -08:00, +12:00, -12:00, +14:00}; the listener the agents register and check in through {HTTP listener without constraints, HTTP listener with a profile: required user agent + 3 URIs in rotation + request headers + response headers, HTTP listener behind a redirector with X-Forwarded-For, External-C2 endpoint}. HEAD stores these values and hands out the same tasks under all of them, so the oracle is unchanged. Labels cfg:<option>=<class>, env:teamserver-zone=<zone>, cfg:default"

type CfgAgent struct {
	WH     string `json:"wh,omitempty"`   // working hours class, see whClasses
	WHA    int    `json:"wha,omitempty"`  // minutes: distance of the window's near edge from now (>= 2)
	WHB    int    `json:"whb,omitempty"`  // minutes: length of the window beyond that
	Kill   string `json:"kill,omitempty"` // kill date class: future past past-epoch-seconds far-future
	Sleep  string `json:"sleep,omitempty"`
	Jitter string `json:"jitter,omitempty"`
	Dead   bool   `json:"dead,omitempty"` // the operator marked the agent dead (only applied to a directly connected agent without pivot children: marking unlinks)
}

type Cfg struct {
	Agents   []CfgAgent `json:"agents,omitempty"`   // agent i gets Agents[i mod len]; absent: defaults
	Zone     string     `json:"zone,omitempty"`     // time.Local of the teamserver during the case
	Listener string     `json:"listener,omitempty"` // "" http-profile http-behind-redirector external
}

var (
	whClasses    = []string{"whole-day", "contains-now", "ended-before-now", "starts-after-now", "to-24:00", "wraps-midnight-contains-now", "wraps-midnight-excludes-now", "one-minute-not-now"}
	killClasses  = []string{"future", "past", "past-epoch-seconds", "far-future"}
	sleepClasses = map[string]uint32{"0": 0, "1": 1, "2^31-1": 0x7fffffff, "2^32-1": 0xffffffff}
	jitClasses   = map[string]uint32{"0": 0, "100": 100, "101": 101, "2^32-1": 0xffffffff}
	zoneOffsets  = map[string]int{"UTC": 0, "+05:30": 5*3600 + 1800, "-08:00": -8 * 3600, "+12:00": 12 * 3600, "+14:00": 14 * 3600, "-12:00": -12 * 3600, "+05:45": 5*3600 + 2700}
	zoneNames    = []string{"UTC", "+05:30", "-08:00", "+12:00", "+14:00", "-12:00", "+05:45"}
	lstClasses   = []string{"http-profile", "http-behind-redirector", "external"}
	origLocal    = time.Local
)

func genCfg(t *rapid.T, agents int) Cfg {
	var c Cfg
	if rapid.Bool().Draw(t, "cfg-default") {
		return c
	}
	n := 1
	if agents > 1 && rapid.Bool().Draw(t, "cfg-per-agent") {
		n = agents
	}
	for i := 0; i < n; i++ {
		var a CfgAgent
		if agentfx.Weighted(t, "cfg-wh", 1, 3) == 1 {
			a.WH = whClasses[agentfx.Bits(t, "cfg-whclass", 3)]
			a.WHA = rapid.IntRange(2, 180).Draw(t, "cfg-wha")
			a.WHB = rapid.IntRange(1, 600).Draw(t, "cfg-whb")
		}
		if agentfx.Weighted(t, "cfg-kill", 1, 1) == 1 {
			a.Kill = killClasses[agentfx.Bits(t, "cfg-killclass", 2)]
		}
		if agentfx.Weighted(t, "cfg-sleep", 2, 1) == 1 {
			a.Sleep = []string{"0", "1", "2^31-1", "2^32-1"}[agentfx.Bits(t, "cfg-sleepclass", 2)]
		}
		if agentfx.Weighted(t, "cfg-jitter", 2, 1) == 1 {
			a.Jitter = []string{"0", "100", "101", "2^32-1"}[agentfx.Bits(t, "cfg-jitterclass", 2)]
		}
		a.Dead = agentfx.Weighted(t, "cfg-dead", 5, 1) == 1
		c.Agents = append(c.Agents, a)
	}
	if agentfx.Weighted(t, "cfg-zone", 1, 2) == 1 {
		c.Zone = zoneNames[agentfx.Weighted(t, "cfg-zonename", 1, 1, 1, 1, 1, 1, 1)]
	}
	if agentfx.Weighted(t, "cfg-listener", 1, 1) == 1 {
		c.Listener = lstClasses[agentfx.Weighted(t, "cfg-listenerclass", 1, 1, 1)]
	}
	return c
}

func (c Cfg) agent(i int) CfgAgent {
	if len(c.Agents) == 0 {
		return CfgAgent{}
	}
	return c.Agents[i%len(c.Agents)]
}

// labels: one per option value that occurs in the case.
func (c Cfg) labels() []string {
	set := map[string]bool{}
	if len(c.Agents) == 0 && c.Zone == "" && c.Listener == "" {
		return []string{"cfg:default"}
	}
	for _, a := range c.Agents {
		if a.WH != "" {
			set["cfg:agent-working-hours="+a.WH] = true
		}
		if a.Kill != "" {
			set["cfg:agent-kill-date="+a.Kill] = true
		}
		if a.Sleep != "" {
			set["cfg:agent-sleep="+a.Sleep] = true
		}
		if a.Jitter != "" {
			set["cfg:agent-jitter="+a.Jitter] = true
		}
		if a.Dead {
			set["cfg:agent-marked-dead"] = true
		}
	}
	if c.Zone != "" {
		set["env:teamserver-zone="+c.Zone] = true
	}
	if c.Listener != "" {
		set["cfg:listener="+c.Listener] = true
	}
	var l []string
	for k := range set {
		l = append(l, k)
	}
	sort.Strings(l)
	return l
}

// fp is the part of a fingerprint the configuration contributes (coarse: which options
// are non-default, not their values).
func (c Cfg) fp() string {
	wh, kill, dead := false, false, false
	for _, a := range c.Agents {
		wh = wh || a.WH != ""
		kill = kill || a.Kill != ""
		dead = dead || a.Dead
	}
	if !wh && !kill && !dead && c.Zone == "" && c.Listener == "" {
		return ""
	}
	return fmt.Sprintf("|cfg=wh%v,kd%v,dead%v,tz%v,l=%s", wh, kill, dead, c.Zone != "", c.Listener)
}

func packWH(sh, sm, eh, em int) uint32 {
	return 1<<22 | uint32(sh&0x1f)<<17 | uint32(sm&0x3f)<<11 | uint32(eh&0x1f)<<6 | uint32(em&0x3f)
}

// workingHours turns a class into the packed value (common.ParseWorkingHours layout)
// relative to the teamserver's local time of day at this moment.
func (a CfgAgent) workingHours(now time.Time) uint32 {
	clock := now.Hour()*60 + now.Minute()
	da, db := a.WHA, a.WHB
	if da < 2 {
		da = 2
	}
	if db < 1 {
		db = 1
	}
	clip := func(m int) int {
		if m < 0 {
			return 0
		}
		if m > 23*60+59 {
			return 23*60 + 59
		}
		return m
	}
	before := func() (int, int, bool) { // a window that ended at least da minutes ago
		e := clock - da
		if e < 1 {
			return 0, 0, false
		}
		return clip(e - db), e, true
	}
	after := func() (int, int, bool) { // a window that starts in at least da minutes
		s := clock + da
		if s > 23*60+58 {
			return 0, 0, false
		}
		return s, clip(s + db), true
	}
	mk := func(s, e int) uint32 { return packWH(s/60, s%60, e/60, e%60) }
	switch a.WH {
	case "":
		return 0
	case "whole-day":
		return packWH(0, 0, 23, 59)
	case "to-24:00": // the largest end ParseWorkingHours accepts; contains now
		return packWH(clip(clock-da)/60, clip(clock-da)%60, 24, 0)
	case "contains-now":
		return mk(clip(clock-da), clip(clock+da+db))
	case "ended-before-now":
		if s, e, ok := before(); ok {
			return mk(s, e)
		}
		s, e, _ := after()
		return mk(s, e)
	case "starts-after-now", "one-minute-not-now":
		s, e, ok := after()
		if !ok {
			s, e, _ = before()
		}
		if a.WH == "one-minute-not-now" {
			e = s
		}
		return mk(s, e)
	case "wraps-midnight-contains-now": // start later than end: the window runs over midnight, now lies inside
		if clock < 720 {
			return mk(clip(clock+720), clip(clock+da)) // started yesterday evening, ends after now
		}
		return mk(clip(clock-da), clip(clock-720)) // started before now, ends tomorrow morning
	case "wraps-midnight-excludes-now":
		if clock < 720 {
			e := clock - da
			if e < 0 {
				e = 0
			}
			if e >= clock { // the first minute of the day: no earlier end exists
				s, e2, _ := after()
				return mk(s, e2)
			}
			return mk(clip(clock+720), e) // ended before now, starts again this evening
		}
		return mk(clip(clock+da), clip(clock-720)) // starts later today, ended this morning
	}
	return 0
}

func (a CfgAgent) killDate(now time.Time) uint64 {
	switch a.Kill {
	case "future":
		return uint64(common.EpochTimeToSystemTime(now.Unix() + 86400))
	case "past":
		return uint64(common.EpochTimeToSystemTime(now.Unix() - 86400))
	case "past-epoch-seconds":
		return uint64(now.Unix() - 3600)
	case "far-future":
		return 0x7fffffffffffffff
	}
	return 0
}

// meta is the registration metadata of agent i under the configuration.
func (c Cfg) meta(i int, id uint32, now time.Time) demonref.MetaData {
	m := agentfx.Meta(id)
	a := c.agent(i)
	m.WorkingHours = a.workingHours(now)
	m.KillDate = a.killDate(now)
	if v, ok := sleepClasses[a.Sleep]; ok {
		m.Sleep = v
	}
	if v, ok := jitClasses[a.Jitter]; ok {
		m.Jitter = v
	}
	return m
}

// ---------------------------------------------------------------- environment + listener

var (
	profUris = []string{"/index.php", "/a/b/c.aspx?x=1", "/"}
	profUA   = "Mozilla/5.0 (Windows NT 6.1; WOW64) verif/1.0"
	extOnce  *handlers.External
)

// applyEnv sets the process-wide pieces of the configuration.  Every case builds its
// world first, and every world applies its whole configuration (the default one included),
// so nothing has to be restored afterwards.  No Havoc goroutine is running at this point.
func (w *world) applyEnv() {
	time.Local = origLocal
	if off, ok := zoneOffsets[w.cfg.Zone]; ok {
		time.Local = time.FixedZone(w.cfg.Zone, off)
	}
	hc := handlers.HTTPConfig{Name: "l", HostBind: "127.0.0.1", PortBind: "-1"}
	switch w.cfg.Listener {
	case "http-profile":
		hc.UserAgent = profUA
		hc.Uris = append([]string(nil), profUris...)
		hc.Headers = []string{"X-Session: a: b", "Content-type: text/plain", "Connection: keep-alive"}
		hc.Response.Headers = []string{"Server: nginx", "X-Time: 10:20:30", "Content-type: application/octet-stream"}
		hc.HostRotation = "round-robin"
		hc.Hosts = []string{"a.example", "b.example"}
		hc.KillDate = common.EpochTimeToSystemTime(time.Now().Unix() + 3600)
		hc.WorkingHours = "8:00-17:00"
	case "http-behind-redirector":
		hc.BehindRedir = true
	case "external":
		if extOnce == nil {
			extOnce = handlers.NewExternal(gin.New(), handlers.ExternalConfig{Name: "ext", Endpoint: "ext"})
		}
		extOnce.Teamserver = w.rec
	}
	w.ep.H.Config = hc
}

// serve posts one agent package the way a Demon configured for the case's listener does.
func (w *world) serve(body []byte) (int, []byte) {
	w.nreq++
	return w.serveAt(w.nreq, body)
}

// serveAt is serve for the nreq-th request of the case without touching the world's request
// counter: what concurrent check-ins (e_test.go) use, each with the number it was given up-front.
func (w *world) serveAt(nreq int, body []byte) (int, []byte) {
	rr := httptest.NewRecorder()
	switch w.cfg.Listener {
	case "external":
		ctx, _ := gin.CreateTestContext(rr)
		req := httptest.NewRequest(http.MethodPost, "/ext", bytes.NewReader(body))
		req.RemoteAddr = "10.9.8.6:40001"
		ctx.Request = req
		extOnce.Request(ctx)
		return rr.Code, rr.Body.Bytes()
	case "http-profile":
		req := httptest.NewRequest(http.MethodPost, profUris[nreq%len(profUris)], bytes.NewReader(body))
		req.RemoteAddr = "10.9.8.7:40000"
		req.Header.Set("User-Agent", profUA)
		req.Header.Set("X-Session", "A: B") // header values compare case-insensitively
		req.Header.Set("Content-Type", "text/plain")
		w.ep.H.GinEngine.ServeHTTP(rr, req)
		return rr.Code, rr.Body.Bytes()
	case "http-behind-redirector":
		req := httptest.NewRequest(http.MethodPost, "/", bytes.NewReader(body))
		req.RemoteAddr = "127.0.0.1:50123"
		req.Header.Set("X-Forwarded-For", "203.0.113.7")
		w.ep.H.GinEngine.ServeHTTP(rr, req)
		return rr.Code, rr.Body.Bytes()
	}
	return w.ep.Serve(body)
}

// CheckIn is agentfx.Endpoint.CheckIn through the case's listener.
func (w *world) CheckIn(s *agentfx.Session, askJobs bool, subs []demonref.Sub) (int, []demonref.Task, bool) {
	if w.cfg.Listener == "" {
		return w.ep.CheckIn(s, askJobs, subs)
	}
	var pkt []byte
	if askJobs {
		pkt = demonref.Batch(s.ID, 0, subs, s.Key, s.IV)
	} else {
		// see agentfx.CheckIn: same framing, the leading pair is not GET_JOB and carries an empty body
		enc := demonref.Header(demonref.Magic, s.ID, demonref.CmdNoJob, 0xffffff00)
		enc.Bytes(nil)
		for _, sb := range subs {
			enc.Int32(sb.Cmd).Int32(sb.ReqID).Bytes(sb.Body)
		}
		pkt = demonref.Finish(enc.B)
		copy(pkt[20:], demonref.XCrypt(pkt[20:], s.Key, s.IV))
	}
	code, resp := w.serve(pkt)
	if code != 200 {
		return code, nil, false
	}
	tasks, ok := demonref.ReadTasks(resp, s.Key, s.IV, 0, "")
	return code, tasks, ok
}

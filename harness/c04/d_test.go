package c04

// C04(d): a REAL relay producer.  The agent gets a SOCKS5 proxy through the real operator
// command (TaskPrepare(COMMAND_SOCKET, "socks add <port>")), a real loopback TCP client does
// the RFC 1928 no-auth greeting + CONNECT, the harness plays the agent (connect task taken at
// a check-in, connect-success callback sent with the next one), and then the client writes
// generated pieces of data - each one awaited into the agent's queue as its own relay task -
// interleaved with operator tasks and with check-ins at generated points.  What the agent
// RECEIVES at its check-ins is compared with the FIFO model: every queued task exactly once,
// in queue order, relay write tasks carrying exactly the bytes the client wrote (compared at
// hand-out, not when they were queued) under one constant socket id.
//
// (fixture ideas taken from harness/c15/fixture_test.go: free port probing, abortive close)

import (
	"encoding/binary"
	"fmt"
	"io"
	"net"
	"runtime"
	"strconv"
	"testing"
	"time"

	"Havoc/pkg/agent"

	"pgregory.net/rapid"

	"verifharness/internal/agentfx"
	"verifharness/internal/core"
	"verifharness/internal/demonref"
)

type OpD struct {
	Kind string `json:"kind"` // write task checkin burst
	// burst: N writes of Size bytes each, every one awaited into the queue as its own relay
	// task (the same real path as "write"), with a check-in after every Step of them (0: none)
	N    int `json:"n,omitempty"`
	Step int `json:"step,omitempty"`
	Size int    `json:"size,omitempty"`
	Off  int    `json:"off,omitempty"`
	Cmd  uint32 `json:"cmd,omitempty"`
	Tag  bool   `json:"tag,omitempty"`
}

type CaseD struct {
	Target [4]byte `json:"target"`
	Port   uint16  `json:"port"`
	Ops    []OpD   `json:"ops"`
	Close  string  `json:"close"` // how the client ends: none fin rst
	Cfg    Cfg     `json:"cfg,omitempty"` // configuration / environment of the fixture (cfg_test.go)
}

// how long the harness waits for a state (a task appearing in the queue, a reply the server
// has to write) before it gives up on the case; giving up is counted, never a violation
const waitD = 20 * time.Second

func genD(t *rapid.T) CaseD {
	var c CaseD
	c.Target = [4]byte{10, byte(rapid.IntRange(0, 255).Draw(t, "ip1")), byte(rapid.IntRange(0, 255).Draw(t, "ip2")), byte(rapid.IntRange(1, 254).Draw(t, "ip3"))}
	c.Port = uint16(rapid.IntRange(1, 65535).Draw(t, "port"))
	n := rapid.IntRange(1, 16).Draw(t, "nops")
	for i := 0; i < n; i++ {
		var op OpD
		switch agentfx.Weighted(t, "kind", 50, 20, 30) {
		case 0:
			op.Kind = "write"
			op.Size = rapid.OneOf(rapid.IntRange(1, 16), rapid.IntRange(1, 1400)).Draw(t, "size")
			op.Off = rapid.IntRange(0, 60000).Draw(t, "off")
		case 1:
			op.Kind = "task"
			op.Cmd = rapid.SampledFrom(rawSmallA).Draw(t, "cmd")
			op.Size = rapid.IntRange(0, 200).Draw(t, "size")
			op.Off = rapid.IntRange(0, 4096).Draw(t, "off")
			op.Tag = rapid.Bool().Draw(t, "tag")
		default:
			op.Kind = "checkin"
		}
		c.Ops = append(c.Ops, op)
	}
	c.Close = []string{"none", "fin", "rst", "none"}[agentfx.Bits(t, "close", 2)]
	c.Cfg = genCfg(t, 1)
	// SCALE (1 case in 60): a burst of a threshold-adjacent number of relay packets is put
	// before / between / after the operations above
	if agentfx.Weighted(t, "scale", 59, 1) == 1 {
		op := OpD{Kind: "burst", N: genScale(t, "burst", 2049, 8193), Size: rapid.IntRange(1, 16).Draw(t, "size"), Off: rapid.IntRange(0, 4096).Draw(t, "off")}
		if agentfx.Weighted(t, "burstcheckins", 2, 1) == 1 {
			op.Step = []int{1, 2, 3, 16, 100, 1000, 1023, 1024}[agentfx.Bits(t, "step", 3)]
		}
		ins := []OpD{op}
		// a burst that stays queued is followed (1 of 2) by an operator task of a large size
		// class: the reply that takes the burst meets the size decisions
		if op.Step == 0 && rapid.Bool().Draw(t, "burstthenbig") {
			sz := []int{1 << 20, Limit - 70000, Limit - 8, Limit + 1}[agentfx.Bits(t, "bigsize", 2)]
			ins = append(ins, OpD{Kind: "task", Cmd: rapid.SampledFrom(rawBigA).Draw(t, "cmd"), Size: sz, Off: rapid.IntRange(0, 4096).Draw(t, "off"), Tag: rapid.Bool().Draw(t, "tag")})
		}
		at := rapid.IntRange(0, len(c.Ops)).Draw(t, "burstat")
		c.Ops = append(c.Ops[:at:at], append(ins, c.Ops[at:]...)...)
	}
	return c
}

func queueLen(a *agent.Agent) int {
	a.QueueMtx.Lock()
	defer a.QueueMtx.Unlock()
	return len(a.JobQueue)
}

// waitQueueAbove polls until the agent's queue holds more than n tasks.
func waitQueueAbove(a *agent.Agent, n int) bool {
	dl := time.Now().Add(waitD)
	for i := 0; ; i++ {
		if queueLen(a) > n {
			return true
		}
		if time.Now().After(dl) {
			return false
		}
		if i < 200 {
			runtime.Gosched()
		} else {
			time.Sleep(100 * time.Microsecond)
		}
	}
}

type obsD struct {
	maxRun, maxQueued int // most relay writes between two check-ins; most tasks queued at a check-in
	mixed             bool
	skipped           string
	// scale: relay writes of the client, check-ins, most tasks in one reply (/ that left a remainder)
	writes, checkins, maxBatch, maxCutBatch int
}

var (
	lastD  obsD
	skipsD = map[string]int{}
)

func skipD(why string) *core.Violation {
	lastD.skipped = why
	skipsD[why]++
	cp := map[string]int{}
	for k, v := range skipsD {
		cp[k] = v
	}
	core.SetExtra("skipped_cases_d", cp)
	return nil
}

func operatorSocket(w *world, command, param string) (map[string]string, error) {
	a := w.ses[0].A
	msg := map[string]string{}
	info := map[string]interface{}{
		"TaskID": "00C0FFEE", "CommandLine": command + " " + param, "DemonID": a.NameID,
		"CommandID": strconv.Itoa(agent.COMMAND_SOCKET), "Command": command, "Params": param,
	}
	job, err := a.TaskPrepare(agent.COMMAND_SOCKET, info, &msg, "client", w.rec)
	if job != nil {
		// dispatch.go queues whatever TaskPrepare returns; the socks commands return no job
		a.AddJobToQueue(*job)
	}
	return msg, err
}

func checkD(c CaseD) *core.Violation {
	lastD = obsD{}
	w, err := newWorldCfg(1, c.Cfg)
	if err != nil {
		return core.V("harness|fixture", "%v", err)
	}
	a := w.ses[0].A
	m := w.mod[0]
	buf := big()
	goroutines := runtime.NumGoroutine()

	// ---- the proxy, through the operator command
	port := ""
	for attempt := 0; attempt < 8 && port == ""; attempt++ {
		l, err := core.ListenLoopback("tcp4")
		if err != nil {
			continue
		}
		p := strconv.Itoa(l.Addr().(*net.TCPAddr).Port)
		l.Close()
		msg, err := operatorSocket(w, "socks add", p)
		if err == nil && msg["Type"] == "Good" {
			port = p
		}
	}
	if port == "" {
		return skipD("no-proxy-port")
	}
	var conn *net.TCPConn
	defer func() {
		if conn != nil {
			conn.SetLinger(0) // abortive: no TIME_WAIT pile-up
			conn.Close()
		}
		operatorSocket(w, "socks kill", port)
		// the relay goroutine of the client ends once its socket is gone; wait for that state
		// (bounded, no verdict) so that cases do not pile goroutines up
		dl := time.Now().Add(2 * time.Second)
		for runtime.NumGoroutine() > goroutines && time.Now().Before(dl) {
			time.Sleep(200 * time.Microsecond)
		}
	}()

	// ---- the proxy client: greeting, CONNECT
	cn, err := net.DialTimeout("tcp4", "127.0.0.1:"+port, 10*time.Second)
	if err != nil {
		return skipD("dial-failed")
	}
	conn = cn.(*net.TCPConn)
	conn.SetNoDelay(true)
	rd := func(n int) ([]byte, bool) {
		b := make([]byte, n)
		conn.SetReadDeadline(time.Now().Add(waitD))
		_, err := io.ReadFull(conn, b)
		return b, err == nil
	}
	conn.Write([]byte{5, 1, 0})
	if rep, ok := rd(2); !ok || rep[0] != 5 || rep[1] != 0 {
		return skipD("greeting-not-answered")
	}
	q0 := queueLen(a)
	req := append([]byte{5, 1, 0, 1}, c.Target[:]...)
	req = append(req, byte(c.Port>>8), byte(c.Port))
	conn.Write(req)
	if !waitQueueAbove(a, q0) {
		return skipD("connect-task-not-queued")
	}
	m.q = append(m.q, &entry{kind: eConnect, pre: append([]byte{1, byte(c.Port >> 8), byte(c.Port)}, c.Target[:]...), n: 12, op: -1})
	// the agent fetches the connect task ...
	if _, v := w.checkIn("d", 0, true); v != nil {
		return v
	}
	if !m.empty() {
		return core.V("d|checkin|nojob-although-queued", "the connect task of the proxy client was queued but the check-in did not deliver it")
	}
	// ... and reports success with its next check-in (Socket.c: [CONNECT][Success][socket id][error code])
	cb := (&demonref.Enc{}).Int32(agent.SOCKET_COMMAND_CONNECT).Bool(true).Int32(m.sock).Int32(0).B
	code, tasks, ok := w.CheckIn(w.ses[0], true, []demonref.Sub{{Cmd: agent.COMMAND_SOCKET, ReqID: 0, Body: cb}})
	w.rec.Take()
	if code != 200 || !ok || !agentfx.IsNoJob(tasks) {
		return core.V("d|extra-task", "the check-in carrying the connect-success callback was answered with HTTP %d / %d task(s) although nothing is queued", code, len(tasks))
	}
	if rep, ok := rd(10); !ok || rep[1] != 0 {
		return skipD("connect-reply-missing")
	}

	// ---- the history
	run := 0
	var o obsA
	defer func() {
		lastD.checkins, lastD.maxBatch, lastD.maxCutBatch = o.checkins, o.maxBatch, o.maxCutBatch
	}()
	// write: the client writes one piece, which is awaited into the queue as its own relay task
	write := func(i int, data []byte) string {
		before := queueLen(a)
		if _, err := conn.Write(data); err != nil {
			return "client-write-failed"
		}
		if !waitQueueAbove(a, before) {
			return "relay-task-not-queued"
		}
		m.q = append(m.q, &entry{kind: eStream, content: data, op: i})
		lastD.writes++
		run++
		if run > lastD.maxRun {
			lastD.maxRun = run
		}
		return ""
	}
	for i, op := range c.Ops {
		switch op.Kind {
		case "write":
			if why := write(i, buf[op.Off:op.Off+op.Size]); why != "" {
				return skipD(why)
			}
		case "burst":
			size := 1 + (op.Size-1)&0xff
			for j := 0; j < op.N; j++ {
				off := op.Off + (j*13)%50021
				if why := write(i, buf[off:off+size]); why != "" {
					return skipD(why)
				}
				if op.Step > 0 && (j+1)%op.Step == 0 {
					if q := m.queuedAtLeast(); q > lastD.maxQueued {
						lastD.maxQueued = q
					}
					bi, v := w.checkIn("d", 0, true)
					if v != nil {
						return v
					}
					o.note(bi)
					run = 0
				}
			}
		case "task":
			var data []interface{}
			var pre []byte
			pure := op.Size
			if op.Tag {
				data = append(data, int32(i+1))
				pre = binary.LittleEndian.AppendUint32(pre, uint32(i+1))
				pure += 4
			}
			data = append(data, buf[op.Off:op.Off+op.Size])
			pre = binary.LittleEndian.AppendUint32(pre, uint32(op.Size))
			a.AddJobToQueue(agent.Job{Command: op.Cmd, RequestID: reqOf(i), Data: data})
			m.q = append(m.q, &entry{kind: eExact, cmd: op.Cmd, req: reqOf(i), pre: pre, off: op.Off, n: op.Size, pure: pure, op: i})
			if run > 0 {
				lastD.mixed = true
			}
		case "checkin":
			if q := m.queuedAtLeast(); q > lastD.maxQueued {
				lastD.maxQueued = q
			}
			bi, v := w.checkIn("d", 0, true)
			if v != nil {
				return v
			}
			o.note(bi)
			run = 0
		}
	}
	if q := m.queuedAtLeast(); q > lastD.maxQueued {
		lastD.maxQueued = q
	}

	// ---- the client leaves: the relay queues a close task for the socket
	if c.Close != "none" {
		before := queueLen(a)
		if c.Close == "rst" {
			conn.SetLinger(0)
		}
		conn.Close()
		conn = nil
		if !waitQueueAbove(a, before) {
			return skipD("close-task-not-queued")
		}
		pre := binary.LittleEndian.AppendUint32(nil, agent.SOCKET_COMMAND_CLOSE)
		pre = binary.LittleEndian.AppendUint32(pre, m.sock)
		m.q = append(m.q, &entry{kind: eExact, cmd: agent.COMMAND_SOCKET, req: 0, pre: pre, pure: 8, op: len(c.Ops)})
	}
	return w.drainObs("d", &o)
}

func classifyD(c CaseD) core.Class {
	o := lastD
	var cl core.Class
	if o.skipped != "" {
		cl.Labels = []string{"skipped:" + o.skipped}
		cl.Fingerprint = "skipped"
		return cl
	}
	runL := "0"
	switch {
	case o.maxRun == 1:
		runL = "1"
	case o.maxRun == 2:
		runL = "2"
	case o.maxRun >= 3:
		runL = "3+"
	}
	cl.Labels = append(cl.Labels, "chunks-between-checkins:"+runL, "maxqueued:"+bucket(o.maxQueued), "close:"+c.Close)
	if o.mixed {
		cl.Labels = append(cl.Labels, "operator-task-between-relay-writes")
	}
	cl.Labels = append(cl.Labels, c.Cfg.labels()...)
	cl.Labels = append(cl.Labels, scaleLabel("relay-packets-of-one-client", o.writes)...)
	cl.Labels = append(cl.Labels, scaleLabel("relay-packets-between-check-ins", o.maxRun)...)
	cl.Labels = append(cl.Labels, scaleLabel("queued-jobs-at-a-check-in", o.maxQueued)...)
	cl.Labels = append(cl.Labels, scaleLabel("jobs-in-one-reply", o.maxBatch)...)
	cl.Labels = append(cl.Labels, scaleLabel("jobs-in-one-reply-leaving-a-remainder", o.maxCutBatch)...)
	cl.Labels = append(cl.Labels, scaleLabel("check-ins-per-history", o.checkins)...)
	cl.NonTrivial = o.maxQueued >= 2
	cl.Fingerprint = fmt.Sprintf("run=%s|q=%s|mixed=%v|close=%s", runL, bucket(o.maxQueued), o.mixed, c.Close)
	cl.Fingerprint += c.Cfg.fp()
	if sw, sb, sc := scaleBucket(o.writes), scaleBucket(o.maxBatch), scaleBucket(o.maxCutBatch); sw+sb+sc != "" {
		cl.Fingerprint += "|scale=" + sw + "/" + sb + "/" + sc
	}
	return cl
}

func TestC04d(t *testing.T) {
	big()
	core.Run(t, core.Spec[CaseD]{
		Property: "C04", Sub: "d",
		Rule: "one agent with a SOCKS5 proxy started by the real operator command (socks add <free loopback port>); a real TCP client does the no-auth greeting and CONNECT to a generated IPv4 target; the harness plays the agent (connect task fetched at a check-in, connect-success callback with the next one); then 1-16 operations: the client writes a piece of 1-1400 generated bytes (awaited into the queue as its own relay task: the harness waits until the queue grew), an operator-path task, a check-in; optionally the client closes (FIN or RST) and the resulting close task is awaited; the queue is drained. Oracle: the (a) oracle over what the agent receives, where relay write tasks must carry, in order, exactly the bytes the client wrote (compared at hand-out) under the socket id the connect task announced. Non-trivial: a check-in saw >=2 queued tasks; distinct = (relay writes between two check-ins 0/1/2/3+, max queued bucket, operator task between relay writes, how the client ended). SCALE (1 case in 60): a burst of N relay packets of 1-16 bytes, N from the threshold-adjacent pool {63,64,65, 127..129, 255..257, 511..513, 999..1001, 1023..1025, 2047..2049} (cut at 2049 in the quick tier - every packet is a real TCP write awaited into the queue, about 0.1-0.5 ms each; thorough: up to 8193), placed before / between / after the ordinary operations, either left queued (then, in 1 of 2, followed by one operator task of 1 MiB / limit-70000 / limit-8 / limit+1 bytes so that the reply taking the burst meets the size cut) or with a check-in after every 1/2/3/16/100/1000/1023/1024 packets; same oracle; labels scale:<count>:<bucket> for packets, queued jobs, jobs in one reply (with / without a remainder) and check-ins" + cfgRule,
		Gen:  genD, Check: checkD, Classify: classifyD,
		Assumptions: []string{
			"a case in which the fixture cannot be established within 20 s (no free port, greeting / connect reply / relay task not appearing) is counted as skipped (evidence extra skipped_cases_d), never as a violation: whether the relay reacts at all is C15's property",
			"a relay write task may end inside a written piece or span two adjacent ones (TCP does not keep write boundaries); the bytes and their order are compared as a stream",
			"the reverse port forward relay is not driven here: PortFwdRead copies the target's stream until EOF into one task, so it has no queue interplay beyond a single AddJobToQueue",
		},
	})
}

package c04

// C04(e): several check-ins of the SAME agent are served at the same time - a retransmitted
// request, an agent reachable over two listeners, or a second reader that takes the queue
// the way the service endpoint's 'Get' poll does (Agent.GetQueuedJobs next to the listener's
// handleDemonAgent).  Sub-check (c) has exactly one consumer per agent; here the consumers
// are the concurrent part and the queue content is generated: runs of small tasks (whose
// number and shape decide how long one reader needs to measure the queue) followed by large
// tasks of the size classes around fractions of the 30 MB limit.
//
// Not built with -race: on HEAD two simultaneous requests of one agent both store
// Agent.Info.LastCallIn (UpdateLastCallback), which is outside this property.

import (
	"bytes"
	"encoding/binary"
	"fmt"
	"runtime"
	"runtime/debug"
	"sort"
	"strings"
	"sync"
	"testing"

	"Havoc/pkg/agent"

	"pgregory.net/rapid"

	"verifharness/internal/agentfx"
	"verifharness/internal/core"
	"verifharness/internal/demonref"
)

var (
	bigClsE  = []string{"1M", "third+", "half+", "near", "over"}
	bigSizeE = []int{1 << 20, Limit/3 + 1<<20, Limit/2 + 1<<20, Limit - 4096, Limit + 1<<20}
	itemsE   = []int{1, 3, 16, 64}
)

type RoundE struct {
	Small     int   `json:"small"`           // small tasks queued first
	Items     int   `json:"items"`           // integer items each small task carries in front of its bytes (shape of a task)
	Relay     int   `json:"relay,omitempty"` // 0 operator path (request ids), 1 relay path (request id 0), 2 alternating
	Bigs      []int `json:"bigs,omitempty"`  // size classes (bigClsE) of the large tasks queued behind the small ones
	Tail      int   `json:"tail,omitempty"`  // small tasks queued behind the large ones
	Consumers []int `json:"consumers"`       // one entry per simultaneous reader: 0 check-in through the listener, 1 poll (Agent.GetQueuedJobs as the service 'Get' does)
	Yields    []int `json:"yields,omitempty"`
	Prod      int   `json:"prod,omitempty"` // small tasks a producer goroutine queues while the readers run
}

type CaseE struct {
	ID     uint32   `json:"id"`
	Rounds []RoundE `json:"rounds"`
	Cfg    Cfg      `json:"cfg,omitempty"`
}

func genE(t *rapid.T) CaseE {
	var c CaseE
	c.ID = genIDA(t, map[uint32]bool{})
	nr := 1 + agentfx.Weighted(t, "rounds", 3, 2, 1)
	for r := 0; r < nr; r++ {
		var rd RoundE
		switch agentfx.Weighted(t, "smallclass", 2, 3, 3, 2) {
		case 0:
			rd.Small = rapid.IntRange(0, 5).Draw(t, "small")
		case 1:
			rd.Small = rapid.IntRange(6, 200).Draw(t, "small")
		case 2:
			rd.Small = rapid.IntRange(500, 3000).Draw(t, "small")
		default:
			rd.Small = genScale(t, "queued-small-jobs", 8193, 16385)
		}
		rd.Items = itemsE[agentfx.Bits(t, "items", 2)]
		rd.Relay = agentfx.Weighted(t, "path", 2, 1, 1)
		nb := agentfx.Weighted(t, "nbigs", 3, 2, 3, 2, 1)
		for i := 0; i < nb; i++ {
			rd.Bigs = append(rd.Bigs, agentfx.Weighted(t, "bigclass", 1, 2, 3, 1, 1))
		}
		rd.Tail = agentfx.Weighted(t, "tail", 2, 1, 1) * 3
		nc := 2 + agentfx.Weighted(t, "consumers", 3, 2, 1)
		for i := 0; i < nc; i++ {
			rd.Consumers = append(rd.Consumers, agentfx.Bits(t, "kind", 1))
			y := 0
			switch agentfx.Weighted(t, "yieldclass", 3, 1, 1) {
			case 1:
				y = 1
			case 2:
				y = rapid.IntRange(2, 20).Draw(t, "yield")
			}
			rd.Yields = append(rd.Yields, y)
		}
		if agentfx.Weighted(t, "producer", 2, 1) == 1 {
			rd.Prod = rapid.IntRange(1, 30).Draw(t, "prod")
		}
		c.Rounds = append(c.Rounds, rd)
	}
	c.Cfg = genCfg(t, 1)
	return c
}

// specE is what the harness knows about the task with sequence number seq (= its position
// in the queue order).
type specE struct {
	relay  bool
	items  int
	off, n int
}

func (s specE) job(seq int) agent.Job {
	data := big()[s.off : s.off+s.n]
	if s.relay {
		return agent.Job{Command: agent.COMMAND_SOCKET, Data: []interface{}{agent.SOCKET_COMMAND_WRITE, int32(seq), data}}
	}
	d := []interface{}{int32(seq)}
	for i := 0; i < s.items; i++ {
		d = append(d, seq*3+i)
	}
	return agent.Job{Command: agent.COMMAND_SLEEP, RequestID: 0x5e000000 | uint32(seq), Data: append(d, data)}
}

// match identifies a delivered task, compares it with what was queued and returns its
// sequence number and the smallest reading of its data size.
func matchE(specs []specE, t demonref.Task) (seq, pure int, v *core.Violation) {
	b := t.Body
	pos := 0
	if t.Cmd == agent.COMMAND_SOCKET {
		pos = 4
	}
	if len(b) < pos+4 {
		return 0, 0, core.V("e|unknown-task", "delivered task (cmd %d, req %#x, %d body bytes) is none of the queued ones", t.Cmd, t.ReqID, len(b))
	}
	seq = int(int32(binary.LittleEndian.Uint32(b[pos:])))
	if seq < 0 || seq >= len(specs) {
		return 0, 0, core.V("e|unknown-task", "delivered task (cmd %d, req %#x, %d body bytes) is none of the queued ones", t.Cmd, t.ReqID, len(b))
	}
	s := specs[seq]
	var pre []byte
	wantCmd, wantReq := uint32(agent.COMMAND_SLEEP), 0x5e000000|uint32(seq)
	if s.relay {
		wantCmd, wantReq = agent.COMMAND_SOCKET, 0
		pre = binary.LittleEndian.AppendUint32(pre, uint32(agent.SOCKET_COMMAND_WRITE))
		pre = binary.LittleEndian.AppendUint32(pre, uint32(seq))
	} else {
		pre = binary.LittleEndian.AppendUint32(pre, uint32(seq))
		for i := 0; i < s.items; i++ {
			pre = binary.LittleEndian.AppendUint32(pre, uint32(seq*3+i))
		}
	}
	pre = binary.LittleEndian.AppendUint32(pre, uint32(s.n))
	if t.Cmd != wantCmd || t.ReqID != wantReq || len(b) != len(pre)+s.n || !bytes.Equal(b[:len(pre)], pre) || !bytes.Equal(b[len(pre):], big()[s.off:s.off+s.n]) {
		return seq, 0, core.V("e|wrong-task", "delivered task seq %d differs from what was queued: cmd %d req %#x, %d body bytes (queued: cmd %d req %#x, %d body bytes)", seq, t.Cmd, t.ReqID, len(b), wantCmd, wantReq, len(pre)+s.n)
	}
	return seq, len(b) - 4, nil
}

type obsE struct {
	maxGot    int // most readers of one round that received tasks
	empties   int // replies without any record (the queue was emptied between the reader's two looks)
	multi     bool
	escape    bool // a task at or above the limit travelled alone
	maxBatch  int
	pairRound bool // a round queued two adjacent tasks that together exceed the limit
	gotKinds  map[string]bool
}

var lastE obsE

// replyE is one reader's reply: the tasks in reply order.
type replyE struct {
	kind  int
	tasks []demonref.Task
	code  int
	ok    bool
	empty bool
	nojob bool
	panic string
}

func checkE(c CaseE) *core.Violation {
	lastE = obsE{gotKinds: map[string]bool{}}
	w, err := newForestCfg([]uint32{c.ID}, []int{-1}, c.Cfg)
	if err != nil {
		return core.V("harness|fixture", "%v", err)
	}
	ses := w.ses[0]
	a := ses.A
	var specs []specE
	seen := map[int]bool{}
	delivered := 0
	prevMax := -1
	small := func(rd RoundE) specE {
		seq := len(specs)
		s := specE{items: rd.Items, off: 64 + seq%1024, n: (seq * 7) % 41}
		s.relay = rd.Relay == 1 || (rd.Relay == 2 && seq%2 == 1)
		return s
	}

	// judge applies the per-reply oracle: known tasks, exactly once, queue order inside the
	// reply, bounded.  It returns the smallest and largest sequence number of the reply.
	judge := func(what string, tasks []demonref.Task) (lo, hi int, v *core.Violation) {
		lo, hi = -1, -1
		sum := 0
		for i, t := range tasks {
			if t.Cmd == demonref.CmdNoJob {
				return lo, hi, core.V("e|checkin|nojob-inside-batch", "%s: record %d of a %d-task reply is COMMAND_NOJOB", what, i, len(tasks))
			}
			seq, pure, mv := matchE(specs, t)
			if mv != nil {
				return lo, hi, mv
			}
			if seen[seq] {
				return lo, hi, core.V("e|duplicated", "%s: task seq %d was handed out a second time (%d of %d delivered so far)", what, seq, delivered, len(specs))
			}
			seen[seq] = true
			delivered++
			if hi >= 0 && seq < hi {
				return lo, hi, core.V("e|reordered|inside-reply", "%s: task seq %d follows seq %d in one reply", what, seq, hi)
			}
			if lo < 0 {
				lo = seq
			}
			hi = seq
			sum += pure
		}
		if len(tasks) >= 2 && sum > Limit {
			return lo, hi, core.V("e|batch|over-limit", "%s: a reply carries %d tasks (seq %d..%d) with %d data bytes together, above the limit of %d", what, len(tasks), lo, hi, sum, Limit)
		}
		if len(tasks) == 1 && sum >= Limit {
			lastE.escape = true
		}
		if len(tasks) > 1 {
			lastE.multi = true
		}
		if len(tasks) > lastE.maxBatch {
			lastE.maxBatch = len(tasks)
		}
		return lo, hi, nil
	}

	for r, rd := range c.Rounds {
		// ---- queue this round's tasks (sequentially, as one operator / relay would)
		var add []specE
		for i := 0; i < rd.Small; i++ {
			s := small(rd)
			specs = append(specs, s)
			add = append(add, s)
		}
		for i, cl := range rd.Bigs {
			seq := len(specs)
			s := specE{items: 1, off: 64 + seq%1024, n: bigSizeE[cl%len(bigSizeE)], relay: rd.Relay == 1}
			specs = append(specs, s)
			add = append(add, s)
			if i > 0 && s.n+bigSizeE[rd.Bigs[i-1]%len(bigSizeE)] > Limit {
				lastE.pairRound = true
			}
		}
		for i := 0; i < rd.Tail; i++ {
			s := small(rd)
			specs = append(specs, s)
			add = append(add, s)
		}
		base := len(specs) - len(add)
		for i, s := range add {
			a.AddJobToQueue(s.job(base + i))
		}
		// the producer's tasks get the following sequence numbers (it is the only producer now)
		pbase := len(specs)
		for i := 0; i < rd.Prod; i++ {
			specs = append(specs, small(rd))
		}

		// ---- the simultaneous readers
		var (
			wg      sync.WaitGroup
			start   = make(chan struct{})
			replies = make([]replyE, len(rd.Consumers))
			ppanic  string
		)
		pkt := demonref.Batch(ses.ID, 0, nil, ses.Key, ses.IV)
		n0 := w.nreq
		for i, kind := range rd.Consumers {
			wg.Add(1)
			y := 0
			if i < len(rd.Yields) {
				y = rd.Yields[i]
			}
			go func(i, kind, y int) {
				defer wg.Done()
				rp := &replies[i]
				rp.kind = kind & 1
				defer func() {
					if x := recover(); x != nil {
						rp.panic = fmt.Sprintf("%v\n%s", x, debug.Stack())
					}
				}()
				<-start
				for k := 0; k < y; k++ {
					runtime.Gosched()
				}
				if rp.kind == 1 {
					jobs := a.GetQueuedJobs()
					rp.code, rp.ok = 200, true
					rp.empty = len(jobs) == 0
					for _, j := range jobs {
						body, _, err := refBody(j.Data)
						if err != nil {
							rp.ok = false
							return
						}
						rp.tasks = append(rp.tasks, demonref.Task{Cmd: uint32(j.Command), ReqID: j.RequestID, Body: body})
					}
					return
				}
				code, resp := w.serveAt(n0+1+i, append([]byte(nil), pkt...))
				rp.code = code
				if code != 200 {
					return
				}
				rp.tasks, rp.ok = demonref.ReadTasks(resp, ses.Key, ses.IV, 0, "")
				rp.empty = rp.ok && len(rp.tasks) == 0
				rp.nojob = rp.ok && agentfx.IsNoJob(rp.tasks)
			}(i, kind, y)
		}
		if rd.Prod > 0 {
			wg.Add(1)
			go func() {
				defer wg.Done()
				defer func() {
					if x := recover(); x != nil {
						ppanic = fmt.Sprintf("%v\n%s", x, debug.Stack())
					}
				}()
				<-start
				for i := 0; i < rd.Prod; i++ {
					a.AddJobToQueue(specs[pbase+i].job(pbase + i))
				}
			}()
		}
		close(start)
		wg.Wait()
		w.nreq = n0 + len(rd.Consumers)
		w.rec.Take()
		if ppanic != "" {
			return &core.Violation{Sig: "e|panic-in-producer|" + core.HavocFrame(ppanic), Msg: ppanic}
		}
		got := 0
		phaseMax := prevMax
		for i, rp := range replies {
			what := fmt.Sprintf("round %d, reader %d of %d (%s)", r, i, len(replies), []string{"listener check-in", "poll"}[rp.kind])
			if rp.panic != "" {
				return &core.Violation{Sig: "e|panic-in-reader|" + core.HavocFrame(rp.panic), Msg: rp.panic}
			}
			if rp.code != 200 {
				return core.V("e|checkin|http-status", "%s answered HTTP %d", what, rp.code)
			}
			if !rp.ok {
				return core.V("e|checkin|undecodable-reply", "%s: the reply is not a sequence of [cmd][req][len][body] records (%d decoded)", what, len(rp.tasks))
			}
			if rp.empty {
				if rp.kind == 0 { // a poll of an empty queue has nothing to return anyway
					lastE.empties++
				}
				continue
			}
			if rp.nojob {
				continue
			}
			lo, hi, v := judge(what, rp.tasks)
			if v != nil {
				return v
			}
			// everything handed out by a check-in that had ended before this round started was
			// queued in front of what this round hands out
			if lo <= prevMax {
				return core.V("e|reordered|across-check-ins", "%s hands out task seq %d although seq %d was already handed out by a check-in that had ended before", what, lo, prevMax)
			}
			if hi > phaseMax {
				phaseMax = hi
			}
			got++
			lastE.gotKinds[[]string{"listener", "poll"}[rp.kind]] = true
		}
		prevMax = phaseMax
		if got > lastE.maxGot {
			lastE.maxGot = got
		}
	}

	// ---- drain with one check-in at a time
	for guard := 0; ; guard++ {
		code, tasks, ok := w.CheckIn(ses, true, nil)
		w.rec.Take()
		if code != 200 {
			return core.V("e|checkin|http-status", "drain check-in answered HTTP %d", code)
		}
		if !ok || len(tasks) == 0 {
			return core.V("e|checkin|undecodable-reply", "drain: the reply to a single check-in is not a sequence of [cmd][req][len][body] records (%d decoded)", len(tasks))
		}
		if agentfx.IsNoJob(tasks) {
			break
		}
		lo, hi, v := judge("drain check-in", tasks)
		if v != nil {
			return v
		}
		if lo <= prevMax {
			return core.V("e|reordered|across-check-ins", "a drain check-in hands out task seq %d although seq %d was already handed out by an earlier check-in", lo, prevMax)
		}
		prevMax = hi
		if guard > len(specs)+8 {
			return core.V("e|drain|no-progress", "the queue does not drain")
		}
	}
	if delivered != len(specs) {
		first := -1
		for s := range specs {
			if !seen[s] {
				first = s
				break
			}
		}
		return core.V("e|lost", "%d of %d queued tasks were never handed out (first: seq %d) although the queue was drained to a no-job reply", len(specs)-delivered, len(specs), first)
	}
	return nil
}

func classifyE(c CaseE) core.Class {
	o := lastE
	var cl core.Class
	maxC, maxSmall, maxItems, prod, nbig := 0, 0, 0, false, 0
	kinds := map[int]bool{}
	bigs := map[string]bool{}
	for _, rd := range c.Rounds {
		if len(rd.Consumers) > maxC {
			maxC = len(rd.Consumers)
		}
		if rd.Small > maxSmall {
			maxSmall = rd.Small
		}
		if rd.Items > maxItems {
			maxItems = rd.Items
		}
		prod = prod || rd.Prod > 0
		for _, k := range rd.Consumers {
			kinds[k&1] = true
		}
		for _, b := range rd.Bigs {
			bigs[bigClsE[b%len(bigClsE)]] = true
		}
		if len(rd.Bigs) > nbig {
			nbig = len(rd.Bigs)
		}
	}
	kind := "listener"
	if kinds[0] && kinds[1] {
		kind = "listener+poll"
	} else if kinds[1] {
		kind = "poll"
	}
	var bl []string
	for b := range bigs {
		bl = append(bl, b)
	}
	sort.Strings(bl)
	cl.Labels = append(cl.Labels, fmt.Sprintf("concurrent-readers:%d", maxC), "readers:"+kind, fmt.Sprintf("rounds:%d", len(c.Rounds)),
		"small-queued:"+bucketE(maxSmall), fmt.Sprintf("items-per-task:%d", maxItems), fmt.Sprintf("large-per-round:%d", nbig),
		fmt.Sprintf("readers-served-in-one-round:%d", o.maxGot))
	for _, b := range bl {
		cl.Labels = append(cl.Labels, "large:"+b)
	}
	if prod {
		cl.Labels = append(cl.Labels, "producer-alongside")
	}
	if o.pairRound {
		cl.Labels = append(cl.Labels, "conj:adjacent-pair-above-limit-x-concurrent-readers")
	}
	if o.empties > 0 {
		cl.Labels = append(cl.Labels, "observed:empty-reply-after-lost-race")
	}
	if o.multi {
		cl.Labels = append(cl.Labels, "multi-task-reply")
	}
	if o.escape {
		cl.Labels = append(cl.Labels, "escape-single-large")
	}
	for k := range o.gotKinds {
		cl.Labels = append(cl.Labels, "served:"+k)
	}
	cl.Labels = append(cl.Labels, c.Cfg.labels()...)
	cl.Labels = append(cl.Labels, scaleLabel("queued-small-jobs", maxSmall)...)
	cl.Labels = append(cl.Labels, scaleLabel("jobs-in-one-reply", o.maxBatch)...)
	cl.NonTrivial = o.maxGot >= 2
	served := o.maxGot
	if served > 3 {
		served = 3
	}
	cl.Fingerprint = fmt.Sprintf("r=%d|c=%d|%s|small=%s|items=%d|big=%s|n=%d|prod=%v|served=%d|pair=%v", len(c.Rounds), maxC, kind, bucketE(maxSmall), maxItems, strings.Join(bl, ","), nbig, prod, served, o.pairRound)
	cl.Fingerprint += c.Cfg.fp()
	return cl
}

func bucketE(n int) string {
	switch {
	case n <= 5:
		return "0-5"
	case n <= 200:
		return "6-200"
	case n <= 3000:
		return "201-3000"
	}
	return "3001+"
}

func TestC04e(t *testing.T) {
	big()
	core.Run(t, core.Spec[CaseE]{
		Property: "C04", Sub: "e",
		Rule: "simultaneous check-ins of ONE directly connected agent (id from the whole 32-bit range): 1-3 rounds; each round first queues, sequentially through AddJobToQueue, a run of small tasks (count class 0-5 / 6-200 / 500-3000 / threshold-adjacent pool up to 8193 (thorough 16385); each small task carries 1, 3, 16 or 64 integer items in front of 0-40 bytes; operator path with request ids / relay path with request id 0 / alternating), then 0-4 large tasks of the size classes {1M, limit/3+1M, limit/2+1M, limit-4K, limit+1M}, then 0/3/6 small tasks; then 2-4 readers are released together (each after 0 / 1 / 2-20 scheduler yields): a check-in through the real listener handler (handlers.HTTP.request / External.Request -> handleDemonAgent), or a poll that takes the queue with Agent.GetQueuedJobs the way the service endpoint's 'Get' does; in a third of the rounds a producer goroutine queues 1-30 more small tasks meanwhile. Rounds are joined before the next one starts; at the end single check-ins drain the queue to the no-job reply. Oracle (per reply, whoever gets it): every record is a queued task with the queued command / request id / body, none is handed out twice, the tasks of one reply are in queue order, two or more tasks in one reply carry at most the limit together (smallest reading of the data size; a task at or above the limit therefore travels alone); across check-ins that did not overlap (round k vs. round k+1, drain): everything handed out later was queued behind everything handed out earlier; a single drain check-in gets the no-job reply only when nothing is queued, and in the end every queued task was handed out. A reply without any record, which HEAD gives the reader that saw a non-empty queue and found it taken by another reader, is tolerated while readers overlap (labelled observed:empty-reply-after-lost-race). Non-trivial: at least two readers of one round received tasks (observed); distinct = (rounds, readers, reader kinds, small-count bucket, items, large classes, producer, readers served, adjacent pair above the limit queued). Labels: concurrent-readers:<n>, readers:<kinds>, readers-served-in-one-round:<n>, large:<class>, conj:adjacent-pair-above-limit-x-concurrent-readers" + cfgRule,
		Gen:  genE, Check: checkE, Classify: classifyE,
		Assumptions: []string{
			"interleavings of the simultaneous readers are sampled (the Go scheduler decides), not enumerated",
			"not run under the race detector: simultaneous requests of one agent both store Agent.Info.LastCallIn on HEAD, which this property does not talk about",
			"operator 'task clear' as a second remover is not part of the rounds (it removes tasks on purpose)",
		},
	})
}

package c04

// C04(b): a file pushed to the agent (fs upload, BOF object + arguments, .NET assembly)
// is cut into chunk tasks that all carry one file id and the total size, precede the
// command that uses the file, and concatenate to exactly the file - for file sizes
// around multiples of the chunk size.
//
// TARGET POSITION is a dimension of its own: the agent the file is pushed to is directly
// connected, or an SMB pivot child at depth 1, 2 or 3 (chain linked through the real
// connect path, ids over the whole 32-bit range).  The bytes of a pivot agent's file end
// up in the queue of the directly connected agent at the top of its chain, every chunk
// wrapped once per intermediate hop; the oracle drains THAT queue, unwraps every
// COMMAND_PIVOT layer with the hop's key the way the Demons do, and judges what the
// target would execute.

import (
	"encoding/base64"
	"encoding/binary"
	"fmt"
	"sort"
	"strconv"
	"testing"

	"Havoc/pkg/agent"

	"pgregory.net/rapid"

	"verifharness/internal/agentfx"
	"verifharness/internal/core"
	"verifharness/internal/demonref"
)

type FileB struct {
	Class string `json:"class"` // 0 1 c-1 c c+1 2c-1 2c 2c+1 c-n c+n small mid
	Size  int    `json:"size"`
	Off   int    `json:"off"`
}

type CaseB struct {
	Use    string  `json:"use"` // upload bof dotnet
	Files  []FileB `json:"files"`
	Name   string  `json:"name"`
	Before int     `json:"before"` // small tasks already queued
	After  int     `json:"after"`  // small tasks queued afterwards
	// IDs is the chain of agents from the directly connected one down to the agent the
	// file is pushed to: IDs[i+1] is an SMB pivot child of IDs[i].  Absent / one id: the
	// target is directly connected.
	IDs []uint32 `json:"ids,omitempty"`
	// Mix: the small tasks before / after are spread over the agents of the chain (the
	// i-th goes to agent i mod chain length) instead of all going to the target
	Mix bool `json:"mix,omitempty"`
	Cfg Cfg  `json:"cfg,omitempty"` // configuration / environment of the fixture (cfg_test.go)
}

func (c CaseB) depth() int {
	if len(c.IDs) < 2 {
		return 0
	}
	if len(c.IDs) > 4 {
		return 3
	}
	return len(c.IDs) - 1
}

// share of cases with a file around a multiple of the chunk size (each costs ~1 s and
// a few hundred MB of transient memory)
const bigWeightB = 7

// the same share for a target behind two or more pivot hops, where every chunk is packed
// and encrypted once per hop: kept higher so that 'deep target x file of one chunk or more'
// is met about 15 times in a quick run although only 9 of 20 targets are that deep
const bigWeightDeepB = 16

var bigClassesB = map[string]int{"c-1": Limit - 1, "c": Limit, "c+1": Limit + 1, "2c-1": 2*Limit - 1, "2c": 2 * Limit, "2c+1": 2*Limit + 1}

func genFileB(t *rapid.T, allowBig bool, bigWeight int) FileB {
	f := FileB{Off: rapid.IntRange(0, 4096).Draw(t, "off")}
	k := agentfx.Weighted(t, "sizeclass", 44, 12, 10, 14, bigWeight)
	switch {
	case allowBig && k == 4:
		f.Class = []string{"c-1", "c", "c+1", "2c-1", "2c", "2c+1", "c-n", "c+n"}[agentfx.Bits(t, "big", 3)]
		switch f.Class {
		case "c-n": // a little below one chunk: within the headers / wrappings a task gets on its way
			f.Size = Limit - rapid.IntRange(2, 200).Draw(t, "near")
		case "c+n":
			f.Size = Limit + rapid.IntRange(2, 200).Draw(t, "near")
		default:
			f.Size = bigClassesB[f.Class]
		}
	case k == 1:
		f.Class, f.Size = "0", 0
	case k == 2:
		f.Class, f.Size = "1", 1
	case k == 0 || k == 4:
		f.Class = "small"
		f.Size = rapid.IntRange(2, 5000).Draw(t, "size")
	default:
		f.Class = "mid"
		f.Size = rapid.IntRange(5001, 2<<20).Draw(t, "size")
	}
	return f
}

func genB(t *rapid.T) CaseB {
	var c CaseB
	c.Use = rapid.SampledFrom([]string{"upload", "upload", "bof", "dotnet"}).Draw(t, "use")
	c.Name = pathGen.Draw(t, "name")
	c.Before = rapid.IntRange(0, 2).Draw(t, "before")
	c.After = rapid.IntRange(0, 1).Draw(t, "after")
	// target position: direct / pivot child at depth 1 / 2 / 3
	depth := agentfx.Weighted(t, "position", 35, 20, 23, 22)
	bw := bigWeightB
	if depth >= 2 {
		bw = bigWeightDeepB
	}
	if depth > 0 {
		used := map[uint32]bool{}
		for i := 0; i <= depth; i++ {
			c.IDs = append(c.IDs, genIDA(t, used))
		}
		c.Mix = agentfx.Weighted(t, "mix", 2, 1) == 1
	}
	c.Files = append(c.Files, genFileB(t, true, bw))
	if c.Use == "bof" {
		c.Files = append(c.Files, genFileB(t, false, bw))
	}
	c.Cfg = genCfg(t, depth+1)
	return c
}

func b64(b []byte) string { return base64.StdEncoding.EncodeToString(b) }

func checkB(c CaseB) *core.Violation {
	ids, parents := []uint32{0x0a0b0001}, []int{-1}
	if d := c.depth(); d > 0 {
		ids, parents = append([]uint32(nil), c.IDs[:d+1]...), nil
		seen := map[uint32]bool{}
		for i := range ids {
			for ids[i] == 0 || seen[ids[i]] { // hand-written replays only: the generator draws distinct non-zero ids
				ids[i] = ids[i]*31 + 7
			}
			seen[ids[i]] = true
			parents = append(parents, i-1)
		}
	}
	w, err := newForestCfg(ids, parents, c.Cfg)
	if err != nil {
		return core.V("harness|fixture", "%v", err)
	}
	buf := big()
	tgt := len(ids) - 1
	a := w.ses[tgt].A
	// everything queued for an agent of the chain comes out, wrapped hop by hop, at the
	// check-ins of the directly connected agent at its top, in one queue order
	m := w.mod[0]
	via := w.via(tgt)
	small := func(i int) {
		req := 0x6b000000 + uint32(i)
		body := buf[100+i : 100+i+8+i]
		g := tgt
		if c.Mix {
			g = i % len(ids)
		}
		w.ses[g].A.AddJobToQueue(agent.Job{Command: agent.COMMAND_SLEEP, RequestID: req, Data: []interface{}{body}})
		m.q = append(m.q, &entry{kind: eExact, cmd: agent.COMMAND_SLEEP, req: req, pre: binary.LittleEndian.AppendUint32(nil, uint32(len(body))), off: 100 + i, n: len(body), pure: len(body), op: i, via: w.via(g)})
	}
	for i := 0; i < c.Before; i++ {
		small(i)
	}
	var contents [][]byte
	for _, f := range c.Files {
		contents = append(contents, buf[f.Off:f.Off+f.Size])
	}
	req := uint32(0x6c000001)
	info := map[string]interface{}{"TaskID": fmt.Sprintf("%08X", req), "CommandLine": c.Use, "DemonID": a.NameID}
	var cmd int
	user := &entry{kind: eUser, req: req, op: 100, files: len(c.Files), pre: make([]byte, 1024)}
	switch c.Use {
	case "upload":
		cmd = agent.COMMAND_FS
		info = uploadInfo(c.Name, contents[0], req, a.NameID)
		user = uploadUser(c.Name, req, 100)
	case "bof":
		cmd = agent.COMMAND_INLINEEXECUTE
		info["FunctionName"] = "go"
		info["Binary"] = b64(contents[0])
		info["Arguments"] = b64(contents[1])
		info["Flags"] = "default"
		// CommandInlineExecute (Command.c): GetString FunctionName, GetInt32 BofFileId, GetInt32 ParamsFileId, GetInt32 Flags
		user.idsFrom = func(body []byte) ([]uint32, bool) {
			d := &demonref.Dec{B: body}
			fn := d.Bytes()
			id1, id2 := d.Int32(), d.Int32()
			d.Int32()
			if d.Err || d.Len() != 0 || demonref.CString(fn) != "go" {
				return nil, false
			}
			return []uint32{id1, id2}, true
		}
	case "dotnet":
		cmd = agent.COMMAND_ASSEMBLY_INLINE_EXECUTE
		info["Binary"] = b64(contents[0])
		info["Arguments"] = c.Name
		// CommandAssemblyInlineExecute: GetBytes PipePath, AppDomain, NetVersion, GetInt32 MemFileId, GetBytes Arguments
		user.idsFrom = func(body []byte) ([]uint32, bool) {
			d := &demonref.Dec{B: body}
			d.Bytes()
			d.Bytes()
			d.Bytes()
			id := d.Int32()
			d.Bytes()
			if d.Err || d.Len() != 0 {
				return nil, false
			}
			return []uint32{id}, true
		}
	}
	user.cmd = uint32(cmd)
	user.via = via
	info["CommandID"] = strconv.Itoa(cmd)
	msg := map[string]string{}
	job, err := a.TaskPrepare(cmd, info, &msg, "client", w.rec)
	for i, ct := range contents {
		m.q = append(m.q, &entry{kind: eChunks, content: ct, slot: i, op: 100, via: via})
	}
	if err != nil || job == nil {
		return core.V("b|prepare|failed", "TaskPrepare(%s) failed: %v", c.Use, err)
	}
	info = nil
	a.AddJobToQueue(*job)
	m.q = append(m.q, user)
	for i := 0; i < c.After; i++ {
		small(10 + i)
	}
	var o obsA
	return w.drainObs("b", &o)
}

func classifyB(c CaseB) core.Class {
	var cl core.Class
	fp := c.Use
	for _, f := range c.Files {
		cl.Labels = append(cl.Labels, "size:"+f.Class)
		fp += "|" + f.Class
		if f.Class == "mid" {
			fp += strconv.Itoa(f.Size >> 19)
		}
	}
	cl.Labels = append(cl.Labels, "use:"+c.Use, fmt.Sprintf("before:%d", c.Before), fmt.Sprintf("after:%d", c.After))
	// where the file was pushed to
	d := c.depth()
	if d == 0 {
		cl.Labels = append(cl.Labels, "target:direct")
	} else {
		cl.Labels = append(cl.Labels, fmt.Sprintf("target:pivot-depth-%d", d))
		hop := map[string]bool{}
		for _, id := range c.IDs[1 : d+1] { // first hop excluded: its id is not rendered into any wrapping
			hop[idClassA(id)] = true
		}
		var hl []string
		for k := range hop {
			hl = append(hl, "pivot-hop-id:"+k)
		}
		sort.Strings(hl)
		cl.Labels = append(cl.Labels, hl...)
		if c.Mix && c.Before+c.After > 0 {
			cl.Labels = append(cl.Labels, "small-tasks:spread-over-chain")
		}
	}
	maxSize := 0
	for _, f := range c.Files {
		if f.Size > maxSize {
			maxSize = f.Size
		}
	}
	switch {
	case maxSize >= Limit && d >= 2:
		cl.Labels = append(cl.Labels, "conj:target-depth>=2 x file>=1-chunk")
	case maxSize >= Limit && d == 1:
		cl.Labels = append(cl.Labels, "conj:target-depth=1 x file>=1-chunk")
	case maxSize >= Limit:
		cl.Labels = append(cl.Labels, "conj:target-direct x file>=1-chunk")
	}
	if maxSize >= Limit-200 && maxSize < Limit && d >= 2 {
		cl.Labels = append(cl.Labels, "conj:target-depth>=2 x file-just-below-1-chunk")
	}
	cl.Labels = append(cl.Labels, c.Cfg.labels()...)
	cl.NonTrivial = true // every case has a chunk task and the command queued together
	cl.Fingerprint = fmt.Sprintf("%s|b=%d|a=%d|d=%d", fp, c.Before, c.After, d) + c.Cfg.fp()
	return cl
}

func TestC04b(t *testing.T) {
	big()
	core.Run(t, core.Spec[CaseB]{
		Property: "C04", Sub: "b",
		Rule: "one file push per case through TaskPrepare: fs upload (1 file), inline-execute (BOF object + argument buffer = 2 files), dotnet inline-execute (1 file); file sizes {0, 1, c-1, c, c+1, 2c-1, 2c, 2c+1 (c = 0x1e00000), 2-5000, 5001-2 MiB}; 0-2 small tasks queued before and 0-1 after; the queue is drained through check-ins. Oracle: the (a) oracle plus: the tasks before the command are COMMAND_MEM_FILE records [id][total][bytes] with one id per file and total = file size, at least one per file, concatenating to exactly the file, and the command carries those ids. Every case is non-trivial (>=2 tasks queued together); distinct = (use, size classes, before, after, target depth). TARGET POSITION (independent of use and size class): the agent the file is pushed to is directly connected (35%) or the last agent of an SMB pivot chain of depth 1 / 2 / 3 (20 / 23 / 22%) linked through the real, relayed SMB_CONNECT callback, ids of all hops drawn from {<2^31, >=2^31, 2^31-1, 2^31, 2^32-1, leading zero digits}; all size classes occur at every position, plus two more: c-n and c+n with n in 2..200 (a file within the headers / wrappings of one chunk); for a target behind >= 2 hops the share of files around multiples of the chunk size is 16:80 instead of 7:80, so that 'target depth >= 2 x file >= one chunk' (label conj:...) is met about 15 times in a quick run; in 1 of 3 pivot cases the small tasks before / after are spread over the agents of the chain instead of all going to the target. The oracle is evaluated where the bytes really end up: the queue of the directly connected agent at the top of the chain is drained, each delivered task is unwrapped hop by hop (COMMAND_PIVOT [SMB_COMMAND][next id][frame = [next id][size][one task under the next hop's key]], SmbRecv's frame rules) down to what the target executes, and then: chunk records carry one file id and total = file size, concatenate in order to exactly the file, and are followed by the command naming those ids, all in queue order with the small tasks" + cfgRule,
		Gen:  genB, Check: checkB, Classify: classifyB,
		Assumptions: []string{"empty chunks are allowed (the concatenation is unchanged); at least one chunk per file is required because the command refers to the file through the id the chunks carry"},
	})
}

package c04

// C04(b): a file pushed to the agent (fs upload, BOF object + arguments, .NET assembly)
// is cut into chunk tasks that all carry one file id and the total size, precede the
// command that uses the file, and concatenate to exactly the file - for file sizes
// around multiples of the chunk size.

import (
	"encoding/base64"
	"encoding/binary"
	"fmt"
	"strconv"
	"testing"

	"Havoc/pkg/agent"

	"pgregory.net/rapid"

	"verifharness/internal/agentfx"
	"verifharness/internal/core"
	"verifharness/internal/demonref"
)

type FileB struct {
	Class string `json:"class"` // 0 1 c-1 c c+1 2c-1 2c 2c+1 small mid
	Size  int    `json:"size"`
	Off   int    `json:"off"`
}

type CaseB struct {
	Use    string  `json:"use"` // upload bof dotnet
	Files  []FileB `json:"files"`
	Name   string  `json:"name"`
	Before int     `json:"before"` // small tasks already queued
	After  int     `json:"after"`  // small tasks queued afterwards
}

// share of cases with a file around a multiple of the chunk size (each costs ~1 s and
// a few hundred MB of transient memory)
const bigWeightB = 7

var bigClassesB = map[string]int{"c-1": Limit - 1, "c": Limit, "c+1": Limit + 1, "2c-1": 2*Limit - 1, "2c": 2 * Limit, "2c+1": 2*Limit + 1}

func genFileB(t *rapid.T, allowBig bool) FileB {
	f := FileB{Off: rapid.IntRange(0, 4096).Draw(t, "off")}
	k := agentfx.Weighted(t, "sizeclass", 44, 12, 10, 14, bigWeightB)
	switch {
	case allowBig && k == 4:
		f.Class = []string{"c-1", "c", "c+1", "2c-1", "2c", "2c+1", "c", "2c"}[agentfx.Bits(t, "big", 3)]
		f.Size = bigClassesB[f.Class]
	case k == 1:
		f.Class, f.Size = "0", 0
	case k == 2:
		f.Class, f.Size = "1", 1
	case k == 0 || k == 4:
		f.Class = "small"
		f.Size = rapid.IntRange(2, 5000).Draw(t, "size")
	default:
		f.Class = "mid"
		f.Size = rapid.IntRange(5001, 2<<20).Draw(t, "size")
	}
	return f
}

func genB(t *rapid.T) CaseB {
	var c CaseB
	c.Use = rapid.SampledFrom([]string{"upload", "upload", "bof", "dotnet"}).Draw(t, "use")
	c.Name = pathGen.Draw(t, "name")
	c.Before = rapid.IntRange(0, 2).Draw(t, "before")
	c.After = rapid.IntRange(0, 1).Draw(t, "after")
	c.Files = append(c.Files, genFileB(t, true))
	if c.Use == "bof" {
		c.Files = append(c.Files, genFileB(t, false))
	}
	return c
}

func b64(b []byte) string { return base64.StdEncoding.EncodeToString(b) }

func checkB(c CaseB) *core.Violation {
	w, err := newWorld(1)
	if err != nil {
		return core.V("harness|fixture", "%v", err)
	}
	buf := big()
	a := w.ses[0].A
	m := w.mod[0]
	small := func(i int) {
		req := 0x6b000000 + uint32(i)
		body := buf[100+i : 100+i+8+i]
		a.AddJobToQueue(agent.Job{Command: agent.COMMAND_SLEEP, RequestID: req, Data: []interface{}{body}})
		m.q = append(m.q, &entry{kind: eExact, cmd: agent.COMMAND_SLEEP, req: req, pre: binary.LittleEndian.AppendUint32(nil, uint32(len(body))), off: 100 + i, n: len(body), pure: len(body), op: i})
	}
	for i := 0; i < c.Before; i++ {
		small(i)
	}
	var contents [][]byte
	for _, f := range c.Files {
		contents = append(contents, buf[f.Off:f.Off+f.Size])
	}
	req := uint32(0x6c000001)
	info := map[string]interface{}{"TaskID": fmt.Sprintf("%08X", req), "CommandLine": c.Use, "DemonID": a.NameID}
	var cmd int
	user := &entry{kind: eUser, req: req, op: 100, files: len(c.Files), pre: make([]byte, 1024)}
	switch c.Use {
	case "upload":
		cmd = agent.COMMAND_FS
		info = uploadInfo(c.Name, contents[0], req, a.NameID)
		user = uploadUser(c.Name, req, 100)
	case "bof":
		cmd = agent.COMMAND_INLINEEXECUTE
		info["FunctionName"] = "go"
		info["Binary"] = b64(contents[0])
		info["Arguments"] = b64(contents[1])
		info["Flags"] = "default"
		// CommandInlineExecute (Command.c): GetString FunctionName, GetInt32 BofFileId, GetInt32 ParamsFileId, GetInt32 Flags
		user.idsFrom = func(body []byte) ([]uint32, bool) {
			d := &demonref.Dec{B: body}
			fn := d.Bytes()
			id1, id2 := d.Int32(), d.Int32()
			d.Int32()
			if d.Err || d.Len() != 0 || demonref.CString(fn) != "go" {
				return nil, false
			}
			return []uint32{id1, id2}, true
		}
	case "dotnet":
		cmd = agent.COMMAND_ASSEMBLY_INLINE_EXECUTE
		info["Binary"] = b64(contents[0])
		info["Arguments"] = c.Name
		// CommandAssemblyInlineExecute: GetBytes PipePath, AppDomain, NetVersion, GetInt32 MemFileId, GetBytes Arguments
		user.idsFrom = func(body []byte) ([]uint32, bool) {
			d := &demonref.Dec{B: body}
			d.Bytes()
			d.Bytes()
			d.Bytes()
			id := d.Int32()
			d.Bytes()
			if d.Err || d.Len() != 0 {
				return nil, false
			}
			return []uint32{id}, true
		}
	}
	user.cmd = uint32(cmd)
	info["CommandID"] = strconv.Itoa(cmd)
	msg := map[string]string{}
	job, err := a.TaskPrepare(cmd, info, &msg, "client", w.rec)
	for i, ct := range contents {
		m.q = append(m.q, &entry{kind: eChunks, content: ct, slot: i, op: 100})
	}
	if err != nil || job == nil {
		return core.V("b|prepare|failed", "TaskPrepare(%s) failed: %v", c.Use, err)
	}
	info = nil
	a.AddJobToQueue(*job)
	m.q = append(m.q, user)
	for i := 0; i < c.After; i++ {
		small(10 + i)
	}
	var o obsA
	return w.drainObs("b", &o)
}

func classifyB(c CaseB) core.Class {
	var cl core.Class
	fp := c.Use
	for _, f := range c.Files {
		cl.Labels = append(cl.Labels, "size:"+f.Class)
		fp += "|" + f.Class
		if f.Class == "mid" {
			fp += strconv.Itoa(f.Size >> 19)
		}
	}
	cl.Labels = append(cl.Labels, "use:"+c.Use, fmt.Sprintf("before:%d", c.Before), fmt.Sprintf("after:%d", c.After))
	cl.NonTrivial = true // every case has a chunk task and the command queued together
	cl.Fingerprint = fmt.Sprintf("%s|b=%d|a=%d", fp, c.Before, c.After)
	return cl
}

func TestC04b(t *testing.T) {
	big()
	core.Run(t, core.Spec[CaseB]{
		Property: "C04", Sub: "b",
		Rule: "one file push per case through TaskPrepare: fs upload (1 file), inline-execute (BOF object + argument buffer = 2 files), dotnet inline-execute (1 file); file sizes {0, 1, c-1, c, c+1, 2c-1, 2c, 2c+1 (c = 0x1e00000), 2-5000, 5001-2 MiB}; 0-2 small tasks queued before and 0-1 after; the queue is drained through check-ins. Oracle: the (a) oracle plus: the tasks before the command are COMMAND_MEM_FILE records [id][total][bytes] with one id per file and total = file size, at least one per file, concatenating to exactly the file, and the command carries those ids. Every case is non-trivial (>=2 tasks queued together); distinct = (use, size classes, before, after)",
		Gen:  genB, Check: checkB, Classify: classifyB,
		Assumptions: []string{"empty chunks are allowed (the concatenation is unchanged); at least one chunk per file is required because the command refers to the file through the id the chunks carry"},
	})
}

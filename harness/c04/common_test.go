package c04

// Shared pieces of the C04 checks: the big read-only buffer all large bodies are cut
// from, the reference serialisation of a job's data (what the Demon's Parser.c reads:
// little-endian integers, length-prefixed byte strings, NUL-terminated text), and the
// FIFO reference model with its streaming matcher.

import (
	"bytes"
	"encoding/binary"
	"fmt"
	"os"
	"sync"
	"testing"
	"time"

	"Havoc/pkg/agent"

	"verifharness/internal/agentfx"
	"verifharness/internal/core"
	"verifharness/internal/demonref"
	"verifharness/internal/tsx"
)

// Limit is the "30 MB pipe limit" of the statement (pkg/agent/commands.go
// DEMON_MAX_RESPONSE_LENGTH).  It is referenced through the constant so that a changed
// limit is followed.
const Limit = agent.DEMON_MAX_RESPONSE_LENGTH

const bigLen = 2*Limit + (1 << 20) // room for a 2c+1 file at a small offset

var (
	bigOnce sync.Once
	bigBuf  []byte
)

// big returns the process-wide pattern buffer (allocated once, never written again).
func big() []byte {
	bigOnce.Do(func() {
		bigBuf = make([]byte, bigLen)
		x := uint64(0x9E3779B97F4A7C15)
		for i := 0; i+8 <= len(bigBuf); i += 8 {
			x ^= x << 13
			x ^= x >> 7
			x ^= x << 17
			binary.LittleEndian.PutUint64(bigBuf[i:], x)
		}
	})
	return bigBuf
}

func TestMain(m *testing.M) {
	tsx.Quiet()
	os.Exit(m.Run())
}

// ---------------------------------------------------------------- reference serialisation

// refBody is the harness's own rendering of a job's data items in the form the
// Demon's parser consumes (Parser.c with Endian == FALSE): integers little-endian,
// byte strings with a 4-byte length, text as a length-prefixed NUL-terminated string.
// pure is the number of payload bytes without length prefixes and added terminators
// (the smallest reasonable reading of "the data of a task").
func refBody(data []interface{}) (body []byte, pure int, err error) {
	le32 := func(v uint32) { body = binary.LittleEndian.AppendUint32(body, v); pure += 4 }
	le64 := func(v uint64) { body = binary.LittleEndian.AppendUint64(body, v); pure += 8 }
	for _, it := range data {
		switch v := it.(type) {
		case int:
			le32(uint32(v))
		case int32:
			le32(uint32(v))
		case uint32:
			le32(v)
		case int64:
			le64(uint64(v))
		case uint64:
			le64(v)
		case int16:
			body = binary.LittleEndian.AppendUint16(body, uint16(v))
			pure += 2
		case uint16:
			body = binary.LittleEndian.AppendUint16(body, v)
			pure += 2
		case byte:
			body = append(body, v)
			pure++
		case bool:
			if v {
				le32(1)
			} else {
				le32(0)
			}
		case string:
			s := v
			pure += len(s)
			if len(s) == 0 || s[len(s)-1] != 0 {
				s += "\x00"
			}
			body = binary.LittleEndian.AppendUint32(body, uint32(len(s)))
			body = append(body, s...)
		case []byte:
			body = binary.LittleEndian.AppendUint32(body, uint32(len(v)))
			body = append(body, v...)
			pure += len(v)
		default:
			return nil, 0, fmt.Errorf("job data item of type %T", it)
		}
	}
	return body, pure, nil
}

// ---------------------------------------------------------------- model

const (
	eExact   = iota // one task with a fully known body
	eChunks         // the chunk tasks of one pushed file (their number and cut points are not fixed by the statement)
	eUser           // the command that uses the file(s): body known up to the file ids
	eConnect        // the SOCKS connect task of a proxy client: carries the socket id every later relay task must repeat
	eStream         // bytes a SOCKS client wrote: relay write tasks of that socket, in stream order
)

// entry is one element of the reference FIFO of an agent.
type entry struct {
	kind int
	cmd  uint32
	req  uint32
	// eExact: body = pre ++ big[off:off+n]
	pre    []byte
	off, n int
	pure   int
	// eChunks
	content []byte // the file (a sub-slice of big, or small)
	acc     int    // bytes matched so far
	chunks  int    // chunk tasks matched so far
	fileID  uint32
	slot    int // which file of the using command
	// eUser: parse function checks the body and returns the ids it carries
	files   int
	idsFrom func(body []byte) (ids []uint32, ok bool)
	noReq   bool               // request id not fixed by the model (never for eUser/eExact with operator ids)
	via     []*agentfx.Session // target is a pivot agent: the hops from the directly connected agent down to it (nil/len 1 = direct)
	op      int                // index of the enqueueing operation (reporting)
	cb      []demonref.Sub     // what the agent reports back (with its next check-in) once it has received this task
}

func (e *entry) wireLen() int { return len(e.pre) + e.n + e.wrapOverhead() }

// wrapOverhead: every pivot hop wraps the task for the next one as a COMMAND_PIVOT task
// [SMB_COMMAND][next id][bytes: pipe frame = [next id][size][cmd][req][len][body]]:
// 12 + 8 + 12 bytes per hop.
func (e *entry) wrapOverhead() int {
	if len(e.via) < 2 {
		return 0
	}
	return 32 * (len(e.via) - 1)
}

// unwrapFor reads a task taken at the first hop's check-in the way the hops of via do
// (Command.c CommandPivot SMB_COMMAND: GetInt32 demon id, GetBytes data written to the child's
// pipe; TransportSmb.c SmbRecv reads [demon id][size][payload] and drops a frame that is not
// its own), each layer under that hop's key, down to the task the target executes.
func unwrapFor(sub string, via []*agentfx.Session, t demonref.Task, opIdx int) (demonref.Task, *core.Violation) {
	cur := t
	for hop := 0; hop+1 < len(via); hop++ {
		next := via[hop+1]
		if cur.Cmd != demonref.CmdPivot {
			return cur, core.V(sub+"|wrong-task|cmd", "a task for pivot agent %08x (depth %d, op %d) must arrive wrapped as COMMAND_PIVOT at hop %d; delivered command %d (req %#x)", via[len(via)-1].ID, len(via)-1, opIdx, hop, cur.Cmd, cur.ReqID)
		}
		d := &demonref.Dec{B: cur.Body}
		sc, did, frame := d.Int32(), d.Int32(), d.Bytes()
		if d.Err || d.Len() != 0 || sc != demonref.PivotSmbCmd || len(frame) < 8 {
			return cur, core.V(sub+"|pivot|layer-malformed", "hop %d of the chain to %08x: pivot task is not [SMB_COMMAND][id][frame] (sub-command %d, %d frame bytes)", hop, via[len(via)-1].ID, sc, len(frame))
		}
		fid, fsz := binary.LittleEndian.Uint32(frame[0:4]), binary.LittleEndian.Uint32(frame[4:8])
		if did != next.ID || fid != next.ID {
			return cur, core.V(sub+"|pivot|next-hop-id", "hop %d of the chain to %08x: layer names demon %08x / frame %08x, the next hop is %08x", hop, via[len(via)-1].ID, did, fid, next.ID)
		}
		inner, ok := demonref.ReadTasks(frame[8:], next.Key, next.IV, 0, "")
		if int(fsz) != len(frame)-8 || !ok || len(inner) != 1 {
			return cur, core.V(sub+"|pivot|inner-framing", "hop %d of the chain to %08x: the frame does not hold exactly one task under the next hop's key (%d tasks)", hop, via[len(via)-1].ID, len(inner))
		}
		cur = inner[0]
	}
	return cur, nil
}

type agentModel struct {
	sock  uint32 // socket id announced by the connect task (eConnect), 0 before
	q     []*entry
	ids   []uint32 // file ids bound by the chunk groups preceding the next eUser
	deliv int      // tasks matched so far
	cbs   []demonref.Sub // callbacks the agent owes for tasks it has received; sent with its next check-in
}

func (m *agentModel) empty() bool { return len(m.q) == 0 }

// queuedAtLeast reports a lower bound on the number of tasks still queued (chunk
// groups count as one task each unless finished).
func (m *agentModel) queuedAtLeast() int { return len(m.q) }

// nextHiUpper is an upper bound on the wire size (body + 12-byte task header) of the
// next queued task; ok=false when nothing is queued.
func (m *agentModel) nextHiUpper() (int, bool) {
	if len(m.q) == 0 {
		return 0, false
	}
	e := m.q[0]
	hi := e.hiUpper()
	if e.kind != eExact && e.kind != eUser && e.kind != eConnect && e.kind != eStream {
		if len(e.content)-e.acc == 0 && e.chunks > 0 && len(m.q) > 1 {
			// the group may be complete: the next task is then the one after it (which may be the
			// first chunk of another file: a BOF pushes its object file and its parameters one after the other)
			if h2 := m.q[1].hiUpper(); h2 > hi {
				hi = h2
			}
		}
	}
	return hi, true
}

// hiUpper is an upper bound on the wire size (body + 12-byte task header) of the next task entry e stands for.
func (e *entry) hiUpper() int {
	switch e.kind {
	case eExact, eUser, eConnect:
		return e.wireLen() + 12
	case eStream:
		return 4 + 4 + 4 + len(e.content) - e.acc + 12 + e.wrapOverhead()
	default:
		return 4 + 8 + 4 + len(e.content) - e.acc + 12 + e.wrapOverhead()
	}
}

func sameBody(got []byte, e *entry) bool {
	if len(got) != len(e.pre)+e.n {
		return false
	}
	if !bytes.Equal(got[:len(e.pre)], e.pre) {
		return false
	}
	if e.n == 0 {
		return true
	}
	return bytes.Equal(got[len(e.pre):], big()[e.off:e.off+e.n])
}

// consume matches one delivered task against the head of the model queue and returns
// the smallest reading of its data size.  sub names the sub-check for signatures.
func (m *agentModel) consume(sub string, t demonref.Task) (pure int, v *core.Violation) {
	sub1 := sub
	outer := t
	for {
		if len(m.q) == 0 {
			return 0, core.V(sub+"|extra-task", "task cmd=%d req=%#x (%d body bytes) was delivered although the model queue is empty (delivered twice, or never queued); %d tasks matched before", outer.Cmd, outer.ReqID, len(outer.Body), m.deliv)
		}
		e := m.q[0]
		t = outer
		if len(e.via) > 1 {
			var uv *core.Violation
			if t, uv = unwrapFor(sub, e.via, outer, e.op); uv != nil {
				return 0, uv
			}
		}
		switch e.kind {
		case eExact:
			if t.Cmd != e.cmd {
				return 0, core.V(sub+"|wrong-task|cmd", "delivered task #%d has command %d, the next queued task (enqueued by op %d) has command %d", m.deliv, t.Cmd, e.op, e.cmd)
			}
			if !e.noReq && t.ReqID != e.req {
				return 0, core.V(sub+"|wrong-task|request-id", "delivered task #%d (cmd %d) has request id %#x, the next queued task (op %d) has %#x", m.deliv, t.Cmd, t.ReqID, e.op, e.req)
			}
			if !sameBody(t.Body, e) {
				return 0, core.V(sub+"|wrong-task|body", "delivered task #%d (cmd %d req %#x) has a %d-byte body that differs from the queued one (%d bytes, op %d)", m.deliv, t.Cmd, t.ReqID, len(t.Body), e.wireLen(), e.op)
			}
			m.q = m.q[1:]
			m.deliv++
			m.cbs = append(m.cbs, e.cb...)
			return e.pure, nil
		case eChunks:
			if t.Cmd == agent.COMMAND_MEM_FILE {
				d := &demonref.Dec{B: t.Body}
				id := d.Int32()
				total := d.Int64()
				data := d.Bytes()
				if d.Err || d.Len() != 0 {
					return 0, core.V(sub+"|chunk|malformed", "chunk task #%d is not [id][size][bytes] (%d body bytes)", m.deliv, len(t.Body))
				}
				if e.chunks == 0 {
					e.fileID = id
				} else if id != e.fileID && e.acc == len(e.content) && len(m.q) > 1 && m.q[1].kind == eChunks {
					// this file is complete and the command uses a second file: its chunks start here
					for len(m.ids) <= e.slot {
						m.ids = append(m.ids, 0)
					}
					m.ids[e.slot] = e.fileID
					m.q = m.q[1:]
					continue
				} else if id != e.fileID {
					return 0, core.V(sub+"|chunk|file-id-differs", "chunk %d of the file pushed by op %d carries file id %#x, the first chunk carried %#x", e.chunks, e.op, id, e.fileID)
				}
				if total != uint64(len(e.content)) {
					return 0, core.V(sub+"|chunk|total-size", "chunk %d of the file pushed by op %d announces a total size of %d, the file has %d bytes", e.chunks, e.op, total, len(e.content))
				}
				if e.acc+len(data) > len(e.content) || !bytes.Equal(data, e.content[e.acc:e.acc+len(data)]) {
					return 0, core.V(sub+"|chunk|content", "chunk %d of the file pushed by op %d (%d bytes at offset %d) is not the corresponding part of the %d-byte file", e.chunks, e.op, len(data), e.acc, len(e.content))
				}
				e.acc += len(data)
				e.chunks++
				m.deliv++
				return len(t.Body) - 4, nil
			}
			// a non-chunk task ends the group
			if e.chunks == 0 {
				return 0, core.V(sub+"|chunk|none-before-command", "op %d pushed a %d-byte file but task #%d (cmd %d) arrives without any chunk carrying a file id before it", e.op, len(e.content), m.deliv, t.Cmd)
			}
			if e.acc != len(e.content) {
				return 0, core.V(sub+"|chunk|incomplete-before-command", "the chunks of the file pushed by op %d add up to %d of %d bytes when task #%d (cmd %d) arrives", e.op, e.acc, len(e.content), m.deliv, t.Cmd)
			}
			for len(m.ids) <= e.slot {
				m.ids = append(m.ids, 0)
			}
			m.ids[e.slot] = e.fileID
			m.q = m.q[1:]
			continue
		case eConnect:
			// Socket.c / CommandSocket SOCKET_COMMAND_CONNECT reads: GetInt32 socket id, GetByte
			// address type, GetBytes address, GetInt16 port
			d := &demonref.Dec{B: t.Body}
			sub, id, atyp, addr, port := d.Int32(), d.Int32(), d.Byte(), d.Bytes(), d.Int16()
			if t.Cmd != agent.COMMAND_SOCKET || t.ReqID != 0 || d.Err || d.Len() != 0 || sub != agent.SOCKET_COMMAND_CONNECT {
				return 0, core.V(sub1+"|wrong-task|cmd", "delivered task #%d (cmd %d, req %#x, %d body bytes) is not the SOCKS connect task queued by op %d", m.deliv, t.Cmd, t.ReqID, len(t.Body), e.op)
			}
			if atyp != e.pre[0] || !bytes.Equal(addr, e.pre[3:]) || port != uint16(e.pre[1])<<8|uint16(e.pre[2]) {
				return 0, core.V(sub1+"|relay|connect-target", "the connect task names target type %d %x:%d, the proxy client asked for type %d %x:%d", atyp, addr, port, e.pre[0], e.pre[3:], uint16(e.pre[1])<<8|uint16(e.pre[2]))
			}
			m.sock = id
			m.q = m.q[1:]
			m.deliv++
			return len(t.Body) - 4, nil
		case eStream:
			d := &demonref.Dec{B: t.Body}
			sub, id, data := d.Int32(), d.Int32(), d.Bytes()
			if t.Cmd != agent.COMMAND_SOCKET || t.ReqID != 0 || d.Err || d.Len() != 0 || sub != agent.SOCKET_COMMAND_WRITE {
				return 0, core.V(sub1+"|wrong-task|cmd", "delivered task #%d (cmd %d, req %#x, %d body bytes) arrives where the relay write task of op %d (%d bytes) is queued", m.deliv, t.Cmd, t.ReqID, len(t.Body), e.op, len(e.content))
			}
			if id != m.sock {
				return 0, core.V(sub1+"|relay|socket-id", "relay write task #%d carries socket id %#x, the connect task of this client announced %#x", m.deliv, id, m.sock)
			}
			if len(data) == 0 {
				return 0, core.V(sub1+"|relay|empty-write", "relay write task #%d carries no data", m.deliv)
			}
			// the task's bytes are the next bytes of what the client wrote (a task may end inside
			// a written piece or span into the next one if the relay read them together)
			rest := data
			for len(rest) > 0 {
				if len(m.q) == 0 || m.q[0].kind != eStream {
					return 0, core.V(sub1+"|relay|content", "relay write task #%d carries %d bytes more than the client wrote at this point of the queue", m.deliv, len(rest))
				}
				h := m.q[0]
				n := len(h.content) - h.acc
				if n > len(rest) {
					n = len(rest)
				}
				if !bytes.Equal(rest[:n], h.content[h.acc:h.acc+n]) {
					return 0, core.V(sub1+"|relay|content", "relay write task #%d (%d bytes) does not carry the bytes the proxy client wrote for it (op %d, %d bytes, offset %d): the data changed between queueing and hand-out", m.deliv, len(data), h.op, len(h.content), h.acc)
				}
				h.acc += n
				rest = rest[n:]
				if h.acc == len(h.content) {
					m.q = m.q[1:]
				}
			}
			m.deliv++
			return len(t.Body) - 4, nil
		case eUser:
			if t.Cmd != e.cmd {
				return 0, core.V(sub+"|wrong-task|cmd", "delivered task #%d has command %d, the command using the pushed file (op %d) has command %d", m.deliv, t.Cmd, e.op, e.cmd)
			}
			if t.ReqID != e.req {
				return 0, core.V(sub+"|wrong-task|request-id", "the command using the pushed file (op %d) has request id %#x, delivered %#x", e.op, e.req, t.ReqID)
			}
			ids, ok := e.idsFrom(t.Body)
			if !ok {
				return 0, core.V(sub+"|wrong-task|body", "the command using the pushed file (op %d, cmd %d) has an unexpected body (%d bytes)", e.op, e.cmd, len(t.Body))
			}
			for i := 0; i < e.files; i++ {
				if i >= len(ids) || i >= len(m.ids) || ids[i] != m.ids[i] {
					return 0, core.V(sub+"|chunk|command-file-id", "the command of op %d names file ids %x, its chunks carried %x", e.op, ids, m.ids)
				}
			}
			m.ids = nil
			m.q = m.q[1:]
			m.deliv++
			return e.pure, nil
		}
	}
}

// leftover describes what is still queued in the model (for messages).
func (m *agentModel) leftover() string {
	if len(m.q) == 0 {
		return "nothing"
	}
	e := m.q[0]
	return fmt.Sprintf("%d model entries, first: kind %d cmd %d req %#x from op %d", len(m.q), e.kind, e.cmd, e.req, e.op)
}

// ---------------------------------------------------------------- fixture

type world struct {
	rec    *tsx.Recorder
	ep     *agentfx.Endpoint
	ses    []*agentfx.Session
	mod    []*agentModel // the FIFO of agent g; only those of directly connected agents fill up
	parent []int
	cfg    Cfg // generated configuration / environment of the case (cfg_test.go)
	nreq   int // requests served so far (rotation of the profile's URIs)
}

func newWorld(agents int) (*world, error) {
	var ids []uint32
	var parents []int
	for i := 0; i < agents; i++ {
		ids = append(ids, 0x0a0b0001+uint32(i)*0x0101)
		parents = append(parents, -1)
	}
	return newForestCfg(ids, parents, Cfg{})
}

func newWorldCfg(agents int, cfg Cfg) (*world, error) {
	var ids []uint32
	var parents []int
	for i := 0; i < agents; i++ {
		ids = append(ids, 0x0a0b0001+uint32(i)*0x0101)
		parents = append(parents, -1)
	}
	return newForestCfg(ids, parents, cfg)
}

// newForest registers agent i with id ids[i]: directly through the endpoint when
// parents[i] < 0, otherwise as an SMB child of agent parents[i] (< i) through the real
// connect path - the parent's COMMAND_PIVOT / DEMON_PIVOT_SMB_CONNECT callback
// [SMB_CONNECT][Success=1][bytes: the child's DEMON_INIT package], relayed hop by hop by
// the parent's own ancestors (Pivot.c PivotPush: [SMB_COMMAND][bytes: child package]).
func newForest(ids []uint32, parents []int) (*world, error) {
	return newForestCfg(ids, parents, Cfg{})
}

// newForestCfg is newForest under a generated configuration: the teamserver's time zone and
// the listener are set up first, every agent registers with the metadata the configuration
// gives it (working hours, kill date, sleep, jitter), through the configured listener.
func newForestCfg(ids []uint32, parents []int, cfg Cfg) (*world, error) {
	w := &world{rec: tsx.NewRecorder(), cfg: cfg}
	ep, err := agentfx.Shared(w.rec)
	if err != nil {
		return nil, err
	}
	w.ep = ep
	w.applyEnv()
	now := time.Now()
	for i, id := range ids {
		p := parents[i]
		w.parent = append(w.parent, p)
		w.mod = append(w.mod, &agentModel{})
		if p < 0 {
			key, iv := agentfx.KeyFor(id)
			code, _ := w.serve(cfg.meta(i, id, now).InitPackage(id, key, iv))
			a := w.rec.AgentInstance(int(id))
			if code != 200 || a == nil {
				return nil, fmt.Errorf("registration of %08x answered HTTP %d (listener %q)", id, code, cfg.Listener)
			}
			w.ses = append(w.ses, &agentfx.Session{ID: id, Key: key, IV: iv, A: a})
			continue
		}
		key, iv := agentfx.KeyFor(id)
		init := cfg.meta(i, id, now).InitPackage(id, key, iv)
		body := (&demonref.Enc{}).Int32(demonref.PivotSmbCon).Int32(1).Bytes(init).B
		ch := w.chain(p)
		pkg := demonref.Batch(ch[len(ch)-1].ID, 0, []demonref.Sub{{Cmd: demonref.CmdPivot, ReqID: 0, Body: body}}, ch[len(ch)-1].Key, ch[len(ch)-1].IV)
		for j := len(ch) - 2; j >= 0; j-- {
			b := (&demonref.Enc{}).Int32(demonref.PivotSmbCmd).Bytes(pkg).B
			pkg = demonref.Batch(ch[j].ID, 0, []demonref.Sub{{Cmd: demonref.CmdPivot, ReqID: 0, Body: b}}, ch[j].Key, ch[j].IV)
		}
		code, _ := w.serve(pkg)
		a := w.rec.AgentInstance(int(id))
		if code != 200 || a == nil || a.Pivots.Parent != w.ses[p].A {
			return nil, fmt.Errorf("SMB connect of %08x below %08x failed (HTTP %d)", id, ids[p], code)
		}
		w.ses = append(w.ses, &agentfx.Session{ID: id, Key: key, IV: iv, A: a})
	}
	// the operator marks an agent dead (cmd/server Teamserver.Died: Active = false, links removed;
	// applied only where no link exists, so that the forest stays as generated)
	for i := range ids {
		if !cfg.agent(i).Dead || parents[i] >= 0 {
			continue
		}
		leaf := true
		for _, p := range parents {
			leaf = leaf && p != i
		}
		if leaf {
			w.ses[i].A.Active = false
		}
	}
	w.rec.Take()
	return w, nil
}

// chain returns the sessions from the directly connected agent down to agent g.
func (w *world) chain(g int) []*agentfx.Session {
	var c []*agentfx.Session
	for x := g; x >= 0; x = w.parent[x] {
		c = append([]*agentfx.Session{w.ses[x]}, c...)
	}
	return c
}

// root returns the index of the directly connected agent at the top of g's chain.
func (w *world) root(g int) int {
	for w.parent[g] >= 0 {
		g = w.parent[g]
	}
	return g
}

// via returns the chain for a model entry of a task queued for agent g (nil when direct).
func (w *world) via(g int) []*agentfx.Session {
	if w.parent[g] < 0 {
		return nil
	}
	return w.chain(g)
}

// batchInfo is what a check-in oracle reports back for classification.
type batchInfo struct {
	tasks  int
	cut    bool // tasks remained queued
	escape bool // a single task at or above the limit
	edge   bool // the size decision fell within the tolerance band of the limit
	noJob  bool
}

// checkIn performs one check-in of agent g and applies the per-check-in oracle.
func (w *world) checkIn(sub string, g int, ask bool) (batchInfo, *core.Violation) {
	var bi batchInfo
	m := w.mod[g]
	owed := m.cbs
	m.cbs = nil
	code, tasks, ok := w.CheckIn(w.ses[g], ask, owed)
	w.rec.Take()
	if code != 200 {
		return bi, core.V(sub+"|checkin|http-status", "check-in of agent %d answered HTTP %d", g, code)
	}
	if !ok || len(tasks) == 0 {
		return bi, core.V(sub+"|checkin|undecodable-reply", "reply to the check-in of agent %d is not a sequence of [cmd][req][len][body] records (%d decoded)", g, len(tasks))
	}
	if agentfx.IsNoJob(tasks) {
		bi.noJob = true
		if ask && !m.empty() {
			return bi, core.V(sub+"|checkin|nojob-although-queued", "agent %d asked for jobs and got the no-job reply although tasks are queued (%s)", g, m.leftover())
		}
		return bi, nil
	}
	var lo, hi int
	for i, t := range tasks {
		if t.Cmd == demonref.CmdNoJob {
			return bi, core.V(sub+"|checkin|nojob-inside-batch", "record %d of a %d-task reply to agent %d is COMMAND_NOJOB", i, len(tasks), g)
		}
		pure, v := m.consume(sub, t)
		if v != nil {
			return bi, v
		}
		lo += pure
		hi += len(t.Raw) + 12
	}
	bi.tasks = len(tasks)
	// bounded: several tasks together stay within the limit (the smallest reading of
	// their size is used, and reaching the limit exactly is tolerated)
	if len(tasks) >= 2 && lo > Limit {
		return bi, core.V(sub+"|batch|over-limit", "a reply to agent %d carries %d tasks with %d data bytes together, above the limit of %d", g, len(tasks), lo, Limit)
	}
	if len(tasks) == 1 && hi >= Limit {
		bi.escape = true
	}
	// maximal: if something stayed behind, adding it would have reached the limit (the
	// largest reading of the sizes is used)
	if nh, more := m.nextHiUpper(); more {
		bi.cut = true
		if hi+nh < Limit {
			return bi, core.V(sub+"|batch|not-maximal", "a reply to agent %d stops after %d tasks (%d bytes incl. headers) although the next queued task (at most %d bytes) would not have reached the limit of %d", g, len(tasks), hi, nh, Limit)
		}
		if s := hi - 12*len(tasks) + nh - 12 - Limit; s >= -64 && s <= 64 {
			bi.edge = true
		}
	}
	return bi, nil
}

// drain empties every agent's queue through check-ins and verifies that afterwards
// nothing more is handed out.
func (w *world) drain(sub string) *core.Violation {
	for g := range w.ses {
		if w.parent[g] >= 0 {
			continue
		}
		m := w.mod[g]
		guard := 0
		for !m.empty() {
			before := m.deliv
			beforeQ := len(m.q)
			_, v := w.checkIn(sub, g, true)
			if v != nil {
				return v
			}
			if m.deliv == before && len(m.q) == beforeQ {
				return core.V(sub+"|drain|no-progress", "agent %d: a check-in delivered nothing new while the model still holds %s", g, m.leftover())
			}
			guard++
			if guard > 100000 {
				return core.V(sub+"|drain|no-progress", "agent %d: queue does not drain", g)
			}
		}
		// an unfinished chunk group at the very end cannot happen: groups are followed by their command
		code, tasks, ok := w.CheckIn(w.ses[g], true, nil)
		w.rec.Take()
		if code != 200 || !ok {
			return core.V(sub+"|checkin|undecodable-reply", "final check-in of agent %d: HTTP %d", g, code)
		}
		if !agentfx.IsNoJob(tasks) {
			return core.V(sub+"|extra-task", "after every queued task of agent %d was delivered once, another check-in still hands out %d task(s), first cmd=%d req=%#x", g, len(tasks), tasks[0].Cmd, tasks[0].ReqID)
		}
	}
	return nil
}

package c04

// C04(a): sequential histories of enqueue / check-in operations on 1-3 agents, driven
// through the real agent endpoint, compared with a FIFO reference model.

import (
	"encoding/base64"
	"encoding/binary"
	"fmt"
	"sort"
	"strconv"
	"testing"
	"time"

	"Havoc/pkg/agent"
	"Havoc/pkg/common"

	"pgregory.net/rapid"

	"verifharness/internal/agentfx"
	"verifharness/internal/core"
	"verifharness/internal/demonref"
)

type OpA struct {
	Kind  string `json:"kind"` // task raw relay upload checkin bulk config
	// config: the operator changes the agent's working hours / kill date (Tmpl "workinghours" /
	// "killdate", Class = the window class relative to the teamserver's clock or "off" / "future",
	// N1 / N2 = the window's distances in minutes); a directly connected agent reports the new
	// value back with the check-in after the one that delivered the task
	// bulk: N1 small jobs queued one after the other by the same real call (Tmpl "raw":
	// operator-path jobs with distinct request ids, "relay": SOCKS write jobs with request id 0;
	// Size data bytes each), with a check-in after every N2 of them (N2 = 0: none)
	Agent int    `json:"agent"`
	Tmpl  string `json:"tmpl,omitempty"`
	Text  string `json:"text,omitempty"`
	N1    int    `json:"n1,omitempty"`
	N2    int    `json:"n2,omitempty"`
	Cmd   uint32 `json:"cmd,omitempty"`
	Class string `json:"class,omitempty"` // none small 1M near at-1 at at+1 31M fill
	Size  int    `json:"size,omitempty"`
	Off   int    `json:"off,omitempty"`
	Tag   bool   `json:"tag,omitempty"`
	Delta int    `json:"delta,omitempty"`
	Ask   bool   `json:"ask,omitempty"`
}

type CaseA struct {
	Agents  int      `json:"agents"`
	IDs     []uint32 `json:"ids,omitempty"`     // agent ids (absent: fixed small ids)
	Parents []int    `json:"parents,omitempty"` // Parents[i] < i: agent i is an SMB pivot child of that agent; -1 / absent: directly connected
	Ops     []OpA    `json:"ops"`
	Cfg     Cfg      `json:"cfg,omitempty"` // configuration / environment of the fixture (cfg_test.go)
}

// idClassA names the class of an agent id (the NameID is its %08x rendering, which code
// may parse back with too narrow an integer type).
func idClassA(id uint32) string {
	switch {
	case id == 0x7fffffff:
		return "2^31-1"
	case id == 0x80000000:
		return "2^31"
	case id == 0xffffffff:
		return "2^32-1"
	case id < 0x10000:
		return "leading-zeros"
	case id >= 0x80000000:
		return ">=2^31"
	}
	return "<2^31"
}

func genIDA(t *rapid.T, used map[uint32]bool) uint32 {
	var id uint32
	switch agentfx.Weighted(t, "idclass", 3, 3, 1, 1, 1, 2) {
	case 0:
		id = rapid.Uint32Range(0x00010000, 0x7ffffffe).Draw(t, "id")
	case 1:
		id = rapid.Uint32Range(0x80000001, 0xfffffffe).Draw(t, "id")
	case 2:
		id = 0x7fffffff
	case 3:
		id = 0x80000000
	case 4:
		id = 0xffffffff
	default:
		id = rapid.Uint32Range(1, 0xffff).Draw(t, "id")
	}
	for used[id] || id == 0 {
		id = id*31 + 7
	}
	used[id] = true
	return id
}

var (
	tmplsA    = []string{"sleep", "checkin", "exit", "cd", "mkdir", "remove", "pwd", "proclist", "ppid", "joblist", "jobkill"}
	rawSmallA = []uint32{agent.COMMAND_SLEEP, agent.COMMAND_PROC, agent.COMMAND_FS, agent.COMMAND_MEM_FILE, agent.COMMAND_SOCKET, agent.COMMAND_TOKEN, agent.COMMAND_CONFIG, 0x7777}
	rawBigA   = []uint32{agent.COMMAND_MEM_FILE, agent.COMMAND_SOCKET, agent.COMMAND_FS}
	bigClsA   = []string{"1M", "near", "at-1", "at", "at+1", "31M", "fill", "fill"}
	pathGen   = rapid.StringOfN(rapid.RuneFrom([]rune("abcXYZ019 _.\\:-äλ漢")), 0, 24, -1)
)

func genA(t *rapid.T) CaseA {
	var c CaseA
	c.Agents = 1 + agentfx.Bits(t, "agents", 2)
	used := map[uint32]bool{}
	depth := make([]int, c.Agents)
	for i := 0; i < c.Agents; i++ {
		c.IDs = append(c.IDs, genIDA(t, used))
		p := -1
		if i > 0 && agentfx.Weighted(t, "pivot", 1, 2) == 1 {
			// prefer the previous agent: chains grow deep
			p = i - 1
			if agentfx.Weighted(t, "parent", 2, 1) == 1 {
				p = agentfx.Bits(t, "parentidx", 2) % i
			}
			if depth[p] >= 3 {
				p = -1
			}
		}
		if p >= 0 {
			depth[i] = depth[p] + 1
		}
		c.Parents = append(c.Parents, p)
	}
	bigLeft := 0
	if agentfx.Weighted(t, "bigcase", 70, 30) == 1 {
		bigLeft = rapid.IntRange(1, 3).Draw(t, "nbig")
	}
	n := rapid.IntRange(1, 24).Draw(t, "nops")
	for i := 0; i < n; i++ {
		op := OpA{Agent: agentfx.Bits(t, "agent", 2) % c.Agents}
		switch k := agentfx.Weighted(t, "kind", 32, 22, 28, 10, 8, 10); {
		case k == 5:
			op.Kind = "config"
			if agentfx.Weighted(t, "cfgkey", 5, 1) == 0 {
				op.Tmpl = "workinghours"
				op.Class = []string{"whole-day", "contains-now", "ended-before-now", "starts-after-now", "to-24:00", "one-minute-not-now", "off", "ended-before-now"}[agentfx.Bits(t, "whclass", 3)]
				op.N1 = rapid.IntRange(2, 180).Draw(t, "wha")
				op.N2 = rapid.IntRange(1, 600).Draw(t, "whb")
			} else {
				op.Tmpl = "killdate"
				op.Class = []string{"future", "off"}[agentfx.Bits(t, "kdclass", 1)]
			}
		case k == 1:
			op.Kind = "task"
			op.Tmpl = rapid.SampledFrom(tmplsA).Draw(t, "tmpl")
			op.Text = pathGen.Draw(t, "text")
			op.N1 = rapid.IntRange(0, 70000).Draw(t, "n1")
			op.N2 = rapid.IntRange(0, 100).Draw(t, "n2")
		case k == 2:
			op.Kind = "raw"
			op.Tag = rapid.Bool().Draw(t, "tag")
			op.Off = rapid.IntRange(0, 4096).Draw(t, "off")
			if bigLeft > 0 && agentfx.Weighted(t, "big", 2, 1) == 1 {
				bigLeft--
				op.Class = bigClsA[agentfx.Bits(t, "class", 3)]
				op.Cmd = rapid.SampledFrom(rawBigA).Draw(t, "cmd")
				op.Delta = rapid.IntRange(-1, 1).Draw(t, "delta")
			} else {
				op.Class = rapid.SampledFrom([]string{"none", "small", "small", "small"}).Draw(t, "class")
				op.Cmd = rapid.SampledFrom(rawSmallA).Draw(t, "cmd")
				op.Size = rapid.IntRange(0, 300).Draw(t, "size")
			}
		case k == 3:
			op.Kind = "relay"
			op.Size = rapid.IntRange(1, 600).Draw(t, "size")
			op.Off = rapid.IntRange(0, 4096).Draw(t, "off")
		case k == 4:
			op.Kind = "upload"
			op.Text = pathGen.Draw(t, "name")
			op.Size = rapid.OneOf(rapid.IntRange(0, 64), rapid.IntRange(0, 8192)).Draw(t, "size")
			op.Off = rapid.IntRange(0, 4096).Draw(t, "off")
		default:
			op.Kind = "checkin"
			op.Ask = agentfx.Weighted(t, "ask", 9, 1) == 0
		}
		c.Ops = append(c.Ops, op)
	}
	// SCALE (1 case in 25): one or two bulks of a threshold-adjacent number of small jobs are
	// put before / between / after the ordinary operations generated above
	if agentfx.Weighted(t, "scale", 24, 1) == 1 {
		nb := 1 + agentfx.Weighted(t, "nbulk", 3, 1)
		for b := 0; b < nb; b++ {
			op := OpA{Kind: "bulk", Agent: agentfx.Bits(t, "agent", 2) % c.Agents}
			op.Tmpl = []string{"raw", "relay"}[agentfx.Bits(t, "bulkpath", 1)]
			op.Cmd = rapid.SampledFrom(rawSmallA).Draw(t, "cmd")
			op.N1 = genScale(t, "bulk", 8193, 16385)
			op.Size = rapid.IntRange(0, 40).Draw(t, "size")
			op.Off = rapid.IntRange(0, 4096).Draw(t, "off")
			if agentfx.Weighted(t, "bulkcheckins", 13, 7) == 1 {
				op.N2 = []int{1, 1, 2, 3, 16, 100, 1000, 1024}[agentfx.Bits(t, "step", 3)]
			}
			ins := []OpA{op}
			// a bulk that stays queued is followed (3 of 4) by one task of a large size class
			// for the same agent: the reply that takes the bulk meets the size decisions
			if op.N2 == 0 && agentfx.Weighted(t, "bulkthenbig", 1, 3) == 1 {
				ins = append(ins, OpA{Kind: "raw", Agent: op.Agent, Tag: rapid.Bool().Draw(t, "tag"), Off: rapid.IntRange(0, 4096).Draw(t, "off"),
					Class: bigClsA[agentfx.Bits(t, "class", 3)], Cmd: rapid.SampledFrom(rawBigA).Draw(t, "cmd"), Delta: rapid.IntRange(-1, 1).Draw(t, "delta")})
			}
			at := rapid.IntRange(0, len(c.Ops)).Draw(t, "bulkat")
			c.Ops = append(c.Ops[:at:at], append(ins, c.Ops[at:]...)...)
		}
	}
	c.Cfg = genCfg(t, c.Agents)
	return c
}

func reqOf(i int) uint32 { return 0x5a000001 + uint32(i) }

// taskInfo builds the operator request body the way the client sends it and
// dispatch.go forwards it to TaskPrepare (pk.Body.Info).
func taskInfo(op OpA, req uint32, demonID string) (int, map[string]interface{}) {
	info := map[string]interface{}{
		"TaskID":      fmt.Sprintf("%08X", req),
		"CommandLine": op.Tmpl + " " + op.Text,
		"DemonID":     demonID,
	}
	cmd := 0
	switch op.Tmpl {
	case "sleep":
		cmd = agent.COMMAND_SLEEP
		info["Arguments"] = fmt.Sprintf("%d;%d", op.N1, op.N2)
	case "checkin":
		cmd = agent.COMMAND_CHECKIN
	case "exit":
		cmd = agent.COMMAND_EXIT
		info["ExitMethod"] = []string{"thread", "process"}[op.N1%2]
	case "cd", "mkdir", "remove":
		cmd = agent.COMMAND_FS
		info["SubCommand"] = op.Tmpl
		info["Arguments"] = op.Text
	case "pwd":
		cmd = agent.COMMAND_FS
		info["SubCommand"] = "pwd"
		info["Arguments"] = ""
	case "proclist":
		cmd = agent.COMMAND_PROC_LIST
		info["FromProcessManager"] = []string{"false", "true"}[op.N1%2]
	case "ppid":
		cmd = agent.COMMAND_PROC_PPIDSPOOF
		info["PPID"] = strconv.Itoa(op.N1)
	case "joblist":
		cmd = agent.COMMAND_JOB
		info["Command"] = "list"
	case "jobkill":
		cmd = agent.COMMAND_JOB
		info["Command"] = "kill"
		info["Param"] = strconv.Itoa(op.N1)
	}
	info["CommandID"] = strconv.Itoa(cmd)
	return cmd, info
}

// uploadUser is the model entry of the fs-upload command.  CommandFS / Upload in
// Command.c reads: GetInt32 sub-command (3), GetWString file name, GetInt32 mem-file id.
// How the name is terminated is C02's business; here it only has to be the same name.
func uploadUser(name string, req uint32, opIdx int) *entry {
	nameLen := len(demonref.UTF16LE(name))
	e := &entry{kind: eUser, cmd: agent.COMMAND_FS, req: req, op: opIdx, files: 1, pre: make([]byte, 4+4+nameLen+8+4), pure: 4 + nameLen}
	e.idsFrom = func(body []byte) ([]uint32, bool) {
		d := &demonref.Dec{B: body}
		sub := d.Int32()
		fn := d.Bytes()
		id := d.Int32()
		if d.Err || d.Len() != 0 || sub != 3 || demonref.WCString(fn) != name {
			return nil, false
		}
		return []uint32{id}, true
	}
	return e
}

func uploadInfo(name string, content []byte, req uint32, demonID string) map[string]interface{} {
	return map[string]interface{}{
		"TaskID":      fmt.Sprintf("%08X", req),
		"CommandLine": "upload " + name,
		"DemonID":     demonID,
		"CommandID":   strconv.Itoa(agent.COMMAND_FS),
		"SubCommand":  "upload",
		"Arguments":   base64.StdEncoding.EncodeToString([]byte(name)) + ";" + base64.StdEncoding.EncodeToString(content),
	}
}

func b2i(b bool) int {
	if b {
		return 1
	}
	return 0
}

type obsA struct {
	pivotDepth                  [4]bool
	maxQueued                   int
	cut, escape, edge, notAsked bool
	batches, multi, kinds       int
	prepErr                     bool
	// scale: check-ins performed, most tasks in one reply, most tasks in one reply that left a remainder
	checkins, maxBatch, maxCutBatch int
}

var lastA obsA

func classSize(op OpA, queuedWire, wrap int) (n int, large bool) {
	own := 4 + wrap
	if op.Tag {
		own = 8
	}
	switch op.Class {
	case "none":
		return -1, false
	case "small":
		return op.Size, false
	case "1M":
		return 1 << 20, true
	case "near":
		return Limit - 100000, true
	case "at-1":
		return Limit - own - 1, true
	case "at":
		return Limit - own, true
	case "at+1":
		return Limit - own + 1, true
	case "31M":
		return 31 << 20, true
	case "fill":
		n = Limit + op.Delta - queuedWire - own
		if n < 0 || n > 31<<20 {
			return 16, false
		}
		return n, n > 1<<16
	}
	return 0, false
}

func (m *agentModel) queuedWire() int {
	s := 0
	for _, e := range m.q {
		switch e.kind {
		case eChunks:
			s += 16 + len(e.content) - e.acc
		default:
			s += e.wireLen()
		}
	}
	return s
}

func checkA(c CaseA) *core.Violation {
	lastA = obsA{}
	ids, parents := c.IDs, c.Parents
	for i := len(ids); i < c.Agents; i++ {
		ids = append(ids, 0x0a0b0001+uint32(i)*0x0101)
	}
	for i := len(parents); i < c.Agents; i++ {
		parents = append(parents, -1)
	}
	for i := range parents {
		if parents[i] >= i {
			parents[i] = -1
		}
	}
	w, err := newForestCfg(ids[:c.Agents], parents[:c.Agents], c.Cfg)
	if err != nil {
		return core.V("harness|fixture", "%v", err)
	}
	buf := big()
	for i, op := range c.Ops {
		g := op.Agent % c.Agents
		a := w.ses[g].A
		// a task for a pivot agent has to come out, wrapped, at the check-in of the directly
		// connected agent at the top of its chain, in queue order with everything else queued there
		m := w.mod[w.root(g)]
		via := w.via(g)
		if len(via) > 1 && op.Kind != "checkin" {
			lastA.pivotDepth[len(via)-1] = true
		}
		req := reqOf(i)
		switch op.Kind {
		case "task":
			cmd, info := taskInfo(op, req, a.NameID)
			msg := map[string]string{}
			job, err := a.TaskPrepare(cmd, info, &msg, "client", w.rec)
			if err != nil || job == nil {
				lastA.prepErr = true
				continue
			}
			body, pure, err := refBody(job.Data)
			if err != nil {
				return core.V("harness|refbody", "%v", err)
			}
			if job.RequestID != req {
				return core.V("a|prepare|request-id", "TaskPrepare(%s) produced request id %#x for TaskID %08X", op.Tmpl, job.RequestID, req)
			}
			a.AddJobToQueue(*job)
			m.q = append(m.q, &entry{kind: eExact, cmd: uint32(cmd), req: req, pre: body, pure: pure, op: i, via: via})
			lastA.kinds |= 1
		case "config":
			info := map[string]interface{}{"TaskID": fmt.Sprintf("%08X", req), "CommandLine": "config " + op.Tmpl, "DemonID": a.NameID,
				"CommandID": strconv.Itoa(agent.COMMAND_CONFIG), "ConfigKey": op.Tmpl}
			now := time.Now()
			var cb []byte
			if op.Tmpl == "killdate" {
				info["ConfigVal"] = "0"
				kd := int64(0)
				if op.Class == "future" {
					at := now.UTC().Add(36 * time.Hour)
					info["ConfigVal"] = at.Format("2006-01-02 15:04:05")
					kd = common.EpochTimeToSystemTime(at.Unix())
				}
				cb = (&demonref.Enc{}).Int32(agent.CONFIG_KILLDATE).Int64(uint64(kd)).B
			} else {
				info["ConfigVal"] = "0"
				wh := uint32(0)
				if op.Class != "off" {
					wh = CfgAgent{WH: op.Class, WHA: op.N1, WHB: op.N2}.workingHours(now)
					info["ConfigVal"] = fmt.Sprintf("%d:%02d-%d:%02d", wh>>17&0x1f, wh>>11&0x3f, wh>>6&0x1f, wh&0x3f)
				}
				cb = (&demonref.Enc{}).Int32(agent.CONFIG_WORKINGHOURS).Int32(wh).B
			}
			msg := map[string]string{}
			job, err := a.TaskPrepare(agent.COMMAND_CONFIG, info, &msg, "client", w.rec)
			if err != nil || job == nil {
				lastA.prepErr = true // e.g. a one-minute window: the end must lie after the start
				continue
			}
			body, pure, err := refBody(job.Data)
			if err != nil {
				return core.V("harness|refbody", "%v", err)
			}
			a.AddJobToQueue(*job)
			e := &entry{kind: eExact, cmd: agent.COMMAND_CONFIG, req: req, pre: body, pure: pure, op: i, via: via}
			if len(via) < 2 {
				// Command.c CommandConfig answers [config id][the value it now holds] under the task's request id
				e.cb = []demonref.Sub{{Cmd: agent.COMMAND_CONFIG, ReqID: req, Body: cb}}
			}
			m.q = append(m.q, e)
			lastA.kinds |= 32
		case "raw":
			n, _ := classSize(op, m.queuedWire(), 32*(len(via)-1)*b2i(len(via) > 1))
			var data []interface{}
			var pre []byte
			pure := 0
			if op.Tag {
				data = append(data, int32(i+1))
				pre = binary.LittleEndian.AppendUint32(pre, uint32(i+1))
				pure += 4
			}
			e := &entry{kind: eExact, cmd: op.Cmd, req: req, op: i, via: via}
			if n >= 0 {
				data = append(data, buf[op.Off:op.Off+n])
				pre = binary.LittleEndian.AppendUint32(pre, uint32(n))
				e.off, e.n = op.Off, n
				pure += n
			}
			e.pre, e.pure = pre, pure
			a.AddJobToQueue(agent.Job{Command: op.Cmd, RequestID: req, Data: data})
			m.q = append(m.q, e)
			lastA.kinds |= 2
		case "relay":
			// what the SOCKS reader goroutine queues (demons.go, socks add handler)
			data := []interface{}{agent.SOCKET_COMMAND_WRITE, int32(i + 1), buf[op.Off : op.Off+op.Size]}
			pre := binary.LittleEndian.AppendUint32(nil, agent.SOCKET_COMMAND_WRITE)
			pre = binary.LittleEndian.AppendUint32(pre, uint32(i+1))
			pre = binary.LittleEndian.AppendUint32(pre, uint32(op.Size))
			a.AddJobToQueue(agent.Job{Command: agent.COMMAND_SOCKET, Data: data})
			m.q = append(m.q, &entry{kind: eExact, cmd: agent.COMMAND_SOCKET, req: 0, pre: pre, off: op.Off, n: op.Size, pure: 8 + op.Size, op: i, via: via})
			lastA.kinds |= 4
		case "upload":
			content := buf[op.Off : op.Off+op.Size]
			msg := map[string]string{}
			job, err := a.TaskPrepare(agent.COMMAND_FS, uploadInfo(op.Text, content, req, a.NameID), &msg, "client", w.rec)
			// the chunks are queued by TaskPrepare itself
			m.q = append(m.q, &entry{kind: eChunks, content: content, op: i, via: via})
			if err != nil || job == nil {
				return core.V("a|prepare|upload-failed", "TaskPrepare(fs upload) failed: %v", err)
			}
			a.AddJobToQueue(*job)
			uu := uploadUser(op.Text, req, i)
			uu.via = via
			m.q = append(m.q, uu)
			lastA.kinds |= 8
		case "bulk":
			n := op.N1
			if n > 65535 {
				n = 65535 // request ids below carry the index in 16 bits
			}
			size := op.Size & 0xff
			relay := op.Tmpl == "relay"
			for j := 0; j < n; j++ {
				off := op.Off + j%251
				tag := binary.LittleEndian.AppendUint32(nil, uint32(j+1))
				e := &entry{kind: eExact, op: i, via: via, off: off, n: size}
				if relay {
					// what the SOCKS reader goroutine queues for every packet it read
					a.AddJobToQueue(agent.Job{Command: agent.COMMAND_SOCKET, Data: []interface{}{agent.SOCKET_COMMAND_WRITE, int32(j + 1), buf[off : off+size]}})
					e.cmd, e.req = agent.COMMAND_SOCKET, 0
					e.pre = binary.LittleEndian.AppendUint32(binary.LittleEndian.AppendUint32(nil, agent.SOCKET_COMMAND_WRITE), uint32(j+1))
					e.pure = 8 + size
				} else {
					e.cmd, e.req = op.Cmd, 0x40000000|uint32(i&0x3fff)<<16|uint32(j)
					a.AddJobToQueue(agent.Job{Command: op.Cmd, RequestID: e.req, Data: []interface{}{int32(j + 1), buf[off : off+size]}})
					e.pre = tag
					e.pure = 4 + size
				}
				e.pre = binary.LittleEndian.AppendUint32(e.pre, uint32(size))
				m.q = append(m.q, e)
				if op.N2 > 0 && (j+1)%op.N2 == 0 {
					if q := m.queuedAtLeast(); q > lastA.maxQueued {
						lastA.maxQueued = q
					}
					bi, v := w.checkIn("a", w.root(g), true)
					if v != nil {
						return v
					}
					lastA.note(bi)
				}
			}
			lastA.kinds |= 16
		case "checkin":
			if q := m.queuedAtLeast(); q > lastA.maxQueued {
				lastA.maxQueued = q
			}
			if !op.Ask {
				lastA.notAsked = true
			}
			bi, v := w.checkIn("a", w.root(g), op.Ask)
			if v != nil {
				return v
			}
			lastA.note(bi)
		}
	}
	for g := range w.mod {
		if q := w.mod[g].queuedAtLeast(); q > lastA.maxQueued {
			lastA.maxQueued = q
		}
	}
	return w.drainObs("a", &lastA)
}

func (o *obsA) note(bi batchInfo) {
	o.checkins++
	if bi.noJob {
		return
	}
	o.batches++
	if bi.tasks > o.maxBatch {
		o.maxBatch = bi.tasks
	}
	if bi.cut && bi.tasks > o.maxCutBatch {
		o.maxCutBatch = bi.tasks
	}
	if bi.tasks >= 2 {
		o.multi++
	}
	o.cut = o.cut || bi.cut
	o.escape = o.escape || bi.escape
	o.edge = o.edge || bi.edge
}

// drainObs is drain() that also records what the draining check-ins showed.
func (w *world) drainObs(sub string, o *obsA) *core.Violation {
	for g := range w.ses {
		if w.parent[g] >= 0 {
			continue
		}
		m := w.mod[g]
		for !m.empty() {
			before, beforeQ := m.deliv, len(m.q)
			bi, v := w.checkIn(sub, g, true)
			if v != nil {
				return v
			}
			o.note(bi)
			if m.deliv == before && len(m.q) == beforeQ {
				return core.V(sub+"|drain|no-progress", "agent %d: a check-in delivered nothing new while the model still holds %s", g, m.leftover())
			}
		}
	}
	return w.drain(sub)
}

func bucket(n int) string {
	switch {
	case n <= 1:
		return strconv.Itoa(n)
	case n == 2:
		return "2"
	case n <= 4:
		return "3-4"
	case n <= 8:
		return "5-8"
	}
	return "9+"
}

func classifyA(c CaseA) core.Class {
	o := lastA
	var cl core.Class
	seen := map[string]bool{}
	for _, op := range c.Ops {
		l := "op:" + op.Kind
		if op.Kind == "raw" {
			l = "raw:" + op.Class
		}
		if op.Kind == "checkin" && !op.Ask {
			l = "op:checkin-no-getjob"
		}
		if !seen[l] {
			seen[l] = true
			cl.Labels = append(cl.Labels, l)
		}
	}
	for _, op := range c.Ops {
		if l := "cfg:operator-sets-" + op.Tmpl + "=" + op.Class; op.Kind == "config" && !seen[l] {
			seen[l] = true
			cl.Labels = append(cl.Labels, l)
		}
	}
	sort.Strings(cl.Labels)
	cl.Labels = append(cl.Labels, c.Cfg.labels()...)
	cl.Labels = append(cl.Labels, "maxqueued:"+bucket(o.maxQueued), fmt.Sprintf("agents:%d", c.Agents))
	// where tasks were aimed: directly connected agents or pivot agents at depth N, and the id
	// classes on the hops of the chains that carried a task (first hop excluded: its id is not
	// rendered into any wrapping)
	maxDepth, bigHop := 0, false
	hopSeen := map[string]bool{}
	direct := false
	for _, op := range c.Ops {
		if op.Kind == "checkin" {
			continue
		}
		g, d := op.Agent%c.Agents, 0
		for x := g; x < len(c.Parents) && c.Parents[x] >= 0 && c.Parents[x] < x; x = c.Parents[x] {
			d++
			if x < len(c.IDs) {
				hopSeen[idClassA(c.IDs[x])] = true
				if c.IDs[x] >= 0x80000000 {
					bigHop = true
				}
			}
		}
		if d == 0 {
			direct = true
		} else if d > maxDepth {
			maxDepth = d
		}
		if l := fmt.Sprintf("target:pivot-depth-%d", d); d > 0 && !seen[l] {
			seen[l] = true
			cl.Labels = append(cl.Labels, l)
		}
	}
	if direct {
		cl.Labels = append(cl.Labels, "target:direct")
	}
	for k := range hopSeen {
		cl.Labels = append(cl.Labels, "pivot-hop-id:"+k)
	}
	sort.Strings(cl.Labels)
	if o.cut {
		cl.Labels = append(cl.Labels, "size-cut")
	}
	if o.escape {
		cl.Labels = append(cl.Labels, "large-task-alone")
	}
	if o.edge {
		cl.Labels = append(cl.Labels, "cut-at-exact-boundary")
	}
	if o.multi > 0 {
		cl.Labels = append(cl.Labels, "multi-task-reply")
	}
	if o.prepErr {
		cl.Labels = append(cl.Labels, "prepare-error")
	}
	cl.Labels = append(cl.Labels, scaleLabel("queued-jobs-at-a-check-in", o.maxQueued)...)
	cl.Labels = append(cl.Labels, scaleLabel("jobs-in-one-reply", o.maxBatch)...)
	cl.Labels = append(cl.Labels, scaleLabel("jobs-in-one-reply-leaving-a-remainder", o.maxCutBatch)...)
	cl.Labels = append(cl.Labels, scaleLabel("check-ins-per-history", o.checkins)...)
	cl.NonTrivial = o.maxQueued >= 2 || o.cut || o.escape
	cl.Fingerprint = fmt.Sprintf("pd=%d|bighop=%v|q=%s|cut=%v|esc=%v|edge=%v|kinds=%x", maxDepth, bigHop, bucket(o.maxQueued), o.cut, o.escape, o.edge, o.kinds)
	cl.Fingerprint += c.Cfg.fp()
	if sb, sc, sk := scaleBucket(o.maxBatch), scaleBucket(o.maxCutBatch), scaleBucket(o.checkins); sb+sc+sk != "" {
		cl.Fingerprint += "|scale=" + sb + "/" + sc + "/" + sk
	}
	return cl
}

func TestC04a(t *testing.T) {
	big()
	core.Run(t, core.Spec[CaseA]{
		Property: "C04", Sub: "a",
		Rule: "histories of 1-24 operations on a forest of 1-4 agents - directly connected ones registered through the real agent endpoint, pivot agents (chains of depth 1-3) linked through the real, relayed SMB_CONNECT callback; every agent id drawn from {<2^31, >=2^31, 2^31-1, 2^31, 2^32-1, leading zero digits}; every enqueue operation may target any agent, check-ins happen at the directly connected agent of the target's chain, where a pivot agent's task must come out wrapped hop by hop (unwrapped with each hop's key and SmbRecv's frame rules), in queue order with everything else queued there: operator task (TaskPrepare + AddJobToQueue as dispatch.go does, 11 command templates), raw job of a size class {no data, small, 1 MiB, just below / exactly at / just above the limit alone, 31 MiB, 'fill' = cumulative queue size lands on limit-1/limit/limit+1}, relay job (SOCKS write, request id 0), chunked fs-upload (0-8 KiB), check-in with / without GET_JOB; at the end every queue is drained. Oracle per check-in: decoded reply is a prefix of the FIFO model (command, request id, body), no-job reply only if nothing queued, several tasks together never exceed the limit, a cut is maximal; after draining one more check-in is a no-job reply. Non-trivial: some check-in saw >=2 queued tasks, or a size cut, or a single task at/above the limit delivered alone; distinct = (deepest pivot target, an id >= 2^31 on a wrapped hop, max queued bucket, cut, escape, exact-boundary, op-kind set). SCALE (1 case in 25): one or two 'bulk' operations are inserted at generated places before / between / after the ordinary operations: N small jobs (0-40 data bytes, numbered) queued for one agent of the forest by a loop of the same AddJobToQueue call - operator-path jobs with distinct request ids or SOCKS relay write jobs with request id 0 - N from the threshold-adjacent pool {63,64,65, 127..129, 255..257, 511..513, 999..1001, 1023..1025, 2047..2049, 4095..4097, 8191..8193} (quick tier cut at 8193; thorough up to 16385; weights favour 999-4097); the bulk either stays queued (13 of 20; then, in 3 of 4, the next operation is a raw job of one of the large size classes for the same agent, so that the reply taking the N jobs meets the 30 MB decisions: batch of N + remainder, N + fill to limit-1/limit/limit+1) or has a check-in after every 1/2/3/16/100/1000/1024 jobs (number of check-ins per history at scale); the per-check-in oracle is unchanged and linear in the reply; labels scale:queued-jobs-at-a-check-in / jobs-in-one-reply / jobs-in-one-reply-leaving-a-remainder / check-ins-per-history with buckets 64-129, 255-513, 999-1025, 2047-4097, 8191+. Operation 'config' (1 in 10): the operator sets the working hours (whole day / containing now / ended before now / starting after now / to 24:00 / a one-minute window, which TaskPrepare rejects / off) or the kill date (tomorrow / off) of any agent through TaskPrepare(COMMAND_CONFIG); the task is queued and modelled like every operator task, and a directly connected agent reports the value back (COMMAND_CONFIG callback under the task's request id) with the check-in after the one that delivered it, which is how Info.WorkingHours / Info.KillDate change during a history (labels cfg:operator-sets-<key>=<class>)" + cfgRule,
		Gen:  genA, Check: checkA, Classify: classifyA,
		Assumptions: []string{
			"sizes are compared with a tolerance band: a multi-task reply violates the bound only if its payload without length prefixes exceeds the limit; a cut violates maximality only if reply + next task incl. 12-byte headers stay below the limit (the statement fixes neither the size measure nor >= vs >)",
			"a check-in that does not ask for jobs may be answered with no-job or with a valid prefix (the statement is silent)",
			"operator 'task clear' is not part of the histories (it removes tasks on purpose)",
		},
	})
}

package c02

// C02(b): operators issue tasks while the agent is checking in.  The bytes handed to the
// agent are built from a batch taken out of the queue (GetQueuedJobs) and serialised a
// moment later (BuildPayloadMessage) while other goroutines keep queueing: whatever the
// overlap, every task must reach the agent exactly as it was issued - once, with the
// request id the operator was told and the operator's parameters, and each operator's
// tasks in the order that operator issued them.  Built with -race.

import (
	"fmt"
	"sync"
	"testing"

	"pgregory.net/rapid"

	"verifharness/internal/agx"
	"verifharness/internal/core"
	"verifharness/internal/demonref"
	"verifharness/internal/tsx"
)

type CaseB struct {
	AgentID   uint32 `json:"agent_id"`
	ZeroKey   bool   `json:"zero_key"`
	Pre       int    `json:"pre"`       // tasks queued before anything runs concurrently
	Operators []int  `json:"operators"` // tasks issued by each operator goroutine
	Kind      string `json:"kind"`      // sleep | cd (a string argument)
}

func genB(t *rapid.T) CaseB {
	c := CaseB{
		AgentID: rapid.OneOf(rapid.SampledFrom([]uint32{1, 0x7fffffff, 0x80000000, 0xfffffffe}), rapid.Uint32Range(1, 0xfffffffe)).Draw(t, "agent"),
		ZeroKey: rapid.IntRange(0, 4).Draw(t, "zk") == 0,
		Pre:     rapid.IntRange(0, 3).Draw(t, "pre"),
		Kind:    rapid.SampledFrom([]string{"sleep", "sleep", "cd"}).Draw(t, "kind"),
	}
	n := rapid.IntRange(1, 3).Draw(t, "operators")
	for i := 0; i < n; i++ {
		c.Operators = append(c.Operators, rapid.IntRange(5, 120).Draw(t, "ntasks"))
	}
	return c
}

type issued struct {
	op, seq int
}

func checkB(c CaseB) *core.Violation {
	k, lop, err := loopCondition()
	if err != nil {
		panic("infrastructure: " + err.Error())
	}
	w, err := agx.NewWorldNoSocket(tsx.BasicProfile(map[string]string{"op": "pw"}, nil))
	if err != nil {
		panic("infrastructure: " + err.Error())
	}
	defer w.Close()
	key, iv := make([]byte, 32), make([]byte, 16)
	if !c.ZeroKey {
		for i := range key {
			key[i] = byte(i*7+3) | 1
		}
		for i := range iv {
			iv[i] = byte(i*11 + 5)
		}
	}
	s := agx.Sess{ID: c.AgentID, Key: key, IV: iv, Meta: agx.DefaultMeta(c.AgentID)}
	if code, _ := w.Register(s); code != 200 {
		return core.V("setup|register-refused", "registration of %08x refused with %d", c.AgentID, code)
	}
	// request id = 0x0100_0000*(op+1) + seq ; parameters derived from it
	reqOf := func(op, seq int) uint32 { return uint32(op+1)<<24 | uint32(seq+1) }
	issue := func(op, seq int) {
		req := reqOf(op, seq)
		m := map[string]interface{}{"DemonID": s.NameID(), "TaskID": fmt.Sprintf("%08X", req)}
		if c.Kind == "sleep" {
			m["CommandID"], m["CommandLine"], m["Arguments"] = "11", "sleep", fmt.Sprintf("%d;%d", req&0xffffff, op+1)
		} else {
			m["CommandID"], m["CommandLine"], m["SubCommand"], m["Arguments"] = "15", "cd", "cd", fmt.Sprintf("C:\\op%d\\dir%d", op, seq)
		}
		w.Input("op", m)
	}
	total := c.Pre
	for i := 0; i < c.Pre; i++ {
		issue(len(c.Operators), i) // the "pre" operator
	}
	for _, n := range c.Operators {
		total += n
	}

	var (
		mu       sync.Mutex
		got      []demonref.Task
		firstErr *core.Violation
		wg       sync.WaitGroup
		stop     = make(chan struct{})
		start    = make(chan struct{})
	)
	fail := func(v *core.Violation) {
		mu.Lock()
		if firstErr == nil {
			firstErr = v
		}
		mu.Unlock()
	}
	checkin := func() bool { // false: nothing was handed out
		code, resp := w.Post(demonref.Batch(s.ID, 0, nil, s.Key, s.IV))
		if code != 200 {
			fail(core.V("concurrent|checkin-status", "check-in answered %d while tasks were being issued", code))
			return false
		}
		tasks, clean := demonref.ReadTasks(resp, s.Key, s.IV, k, lop)
		wire, wireClean := demonref.ReadTasks(resp, s.Key, s.IV, 0, "")
		if !wireClean || !clean || len(tasks) != len(wire) {
			fail(core.V("concurrent|framing", "a reply built while tasks were being issued is not a clean sequence of [cmd][req][len][body] records the Demon's loop consumes completely (%d bytes, %d/%d tasks)", len(resp), len(tasks), len(wire)))
			return false
		}
		if len(tasks) == 1 && tasks[0].Cmd == demonref.CmdNoJob {
			return false
		}
		mu.Lock()
		got = append(got, tasks...)
		mu.Unlock()
		return true
	}
	// the agent: checks in as fast as it can while the operators work
	consumerDone := make(chan struct{})
	go func() {
		defer close(consumerDone)
		defer func() {
			if r := recover(); r != nil {
				fail(core.V("panic|check-in-during-issue", "the check-in panicked while tasks were being issued: %v", r))
			}
		}()
		<-start
		for {
			select {
			case <-stop:
				return
			default:
				checkin()
			}
		}
	}()
	for oi, n := range c.Operators {
		wg.Add(1)
		go func(oi, n int) {
			defer wg.Done()
			defer func() {
				if r := recover(); r != nil {
					fail(core.V("panic|issue-during-check-in", "issuing a task panicked while the agent was checking in: %v", r))
				}
			}()
			<-start
			for j := 0; j < n; j++ {
				issue(oi, j)
			}
		}(oi, n)
	}
	if v := core.WithWatchdog(60e9, "concurrent-issue-and-check-in", func() *core.Violation {
		close(start)
		wg.Wait()
		close(stop)
		<-consumerDone
		return nil
	}); v != nil {
		return v
	}
	if firstErr != nil {
		return firstErr
	}
	// drain what is left
	for i := 0; i < total+4 && checkin(); i++ {
	}
	if firstErr != nil {
		return firstErr
	}
	// every issued task exactly once, as issued, each operator's order kept
	seen := map[uint32]int{}
	lastSeq := map[int]int{}
	for ti, t := range got {
		op, seq := int(t.ReqID>>24)-1, int(t.ReqID&0xffffff)-1
		n := c.Pre
		if op >= 0 && op < len(c.Operators) {
			n = c.Operators[op]
		}
		if op < 0 || op > len(c.Operators) || seq < 0 || seq >= n {
			return core.V("concurrent|task|request-id-never-issued", "task %d handed to the agent carries request id %08x, which no operator was told", ti, t.ReqID)
		}
		seen[t.ReqID]++
		if seen[t.ReqID] > 1 {
			return core.V("concurrent|task|delivered-twice", "task %08x (operator %d, #%d) was handed to the agent twice", t.ReqID, op, seq)
		}
		if prev, ok := lastSeq[op]; ok && seq < prev {
			return core.V("concurrent|task|order", "operator %d's task #%d was handed out after its task #%d", op, seq, prev)
		}
		lastSeq[op] = seq
		d := &demonref.Dec{B: t.Body}
		if c.Kind == "sleep" {
			a, b := d.Int32(), d.Int32()
			if t.Cmd != 11 || d.Err || a != t.ReqID&0xffffff || b != uint32(op+1) {
				return core.V("concurrent|task|content", "task %08x reads command %d, sleep %d;%d - the operator issued command 11, sleep %d;%d under that id", t.ReqID, t.Cmd, a, b, t.ReqID&0xffffff, op+1)
			}
		} else {
			sub, p := d.Int32(), demonref.WCString(d.Bytes())
			want := fmt.Sprintf("C:\\op%d\\dir%d", op, seq)
			if t.Cmd != 15 || d.Err || sub != 4 || p != want {
				return core.V("concurrent|task|content", "task %08x reads command %d sub %d path %q - the operator issued cd %q under that id", t.ReqID, t.Cmd, sub, p, want)
			}
		}
	}
	if len(seen) != total {
		var miss []string
		for op := 0; op <= len(c.Operators) && len(miss) < 6; op++ {
			n := c.Pre
			if op < len(c.Operators) {
				n = c.Operators[op]
			}
			for j := 0; j < n && len(miss) < 6; j++ {
				if seen[reqOf(op, j)] == 0 {
					miss = append(miss, fmt.Sprintf("%08x", reqOf(op, j)))
				}
			}
		}
		return core.V("concurrent|task|never-delivered", "%d of %d issued tasks never reached the agent (e.g. %v)", total-len(seen), total, miss)
	}
	return nil
}

func classifyB(c CaseB) core.Class {
	n := 0
	for _, x := range c.Operators {
		n += x
	}
	b := "<=50"
	if n > 150 {
		b = ">150"
	} else if n > 50 {
		b = "51-150"
	}
	cl := core.Class{NonTrivial: true, Fingerprint: fmt.Sprintf("ops=%d|n=%s|pre=%v|kind=%s|zk=%v", len(c.Operators), b, c.Pre > 0, c.Kind, c.ZeroKey)}
	cl.Labels = []string{fmt.Sprintf("operators:%d", len(c.Operators)), "tasks:" + b, "kind:" + c.Kind}
	if c.ZeroKey {
		cl.Labels = append(cl.Labels, "zero-key")
	}
	return cl
}

func TestC02b(t *testing.T) {
	core.Run(t, core.Spec[CaseB]{
		Property: "C02", Sub: "b",
		Rule: "1-3 operator goroutines issue 5-120 tasks each (sleep with arguments derived from the request id, or fs/cd with a path naming operator and sequence number) through the real DispatchEvent/TaskPrepare/AddJobToQueue while the agent checks in through the real listener engine as fast as it can; 0-3 tasks are queued beforehand; built with -race. Oracle: every reply is a clean task sequence for the Demon's loop; after a final drain every issued task was handed to the agent exactly once, under the request id the operator was told, with the operator's parameters, each operator's tasks in issue order; no panic; no data race report with a Havoc frame. Every case is non-trivial; distinct = (operators, task count bucket, pre-queued, kind, zero key)",
		Gen:   genB, Check: checkB, Classify: classifyB,
		Assumptions: []string{"the Go scheduler is not controlled: overlaps of issue and check-in are sampled"},
	})
}

package c02

// C02: an operator's task reaches the agent exactly as issued.
//
// operator package (Session/Input, built as client/src/Havoc/Demon/CommandSend.cc does)
//   -> real DispatchEvent -> TaskPrepare -> AddJobToQueue -> real HTTP listener engine
//   -> response bytes -> demonref task reader (CommandDispatcher loop, per-task CTR
//   decryption restarting at the session IV) -> the C handler's ParserGet* sequence.
//
// The expectation table below is written from the Demon side
// (payloads/Demon/src/core/Command.c, line numbers next to every entry).

import (
	"bytes"
	"encoding/base64"
	"encoding/binary"
	"fmt"
	"os"
	"path/filepath"
	"regexp"
	"strconv"
	"strings"
	"testing"
	"time"

	"pgregory.net/rapid"

	"verifharness/internal/agx"
	"verifharness/internal/core"
	"verifharness/internal/demonref"
	"verifharness/internal/tsx"
)

var fakeLdr = []byte("\x4d\x5aVERIF-FAKE-REFLECTIVE-LOADER\x00\x01\x02")

func TestMain(m *testing.M) {
	// the code reads payloads/DllLdr.x64.bin relative to the process cwd
	dir, err := os.MkdirTemp("", "c02cwd-")
	if err != nil {
		panic(err)
	}
	os.MkdirAll(filepath.Join(dir, "payloads"), 0o755)
	os.WriteFile(filepath.Join(dir, "payloads", "DllLdr.x64.bin"), fakeLdr, 0o644)
	os.Chdir(dir)
	tsx.Quiet()
	// the teamserver host's time zone is part of the state a task is prepared in: dates the operator
	// gives in GMT (kill date) must reach the agent as given whatever the host's zone is. The reference
	// (timeFmt / civil) does not use the time package's zones at all.
	time.Local = time.FixedZone("verif+0530", 5*3600+1800)
	rc := m.Run()
	os.Chdir("/")
	os.RemoveAll(dir)
	os.Exit(rc)
}

// One operator command.
type Op struct {
	Kind   string   `json:"kind"`             // key into the table
	S      []string `json:"s,omitempty"`      // string parameters
	N      []int64  `json:"n,omitempty"`      // integer parameters
	B      [][]byte `json:"b,omitempty"`      // binary parameters
	TaskID string   `json:"task_id"`          // 8 hex digits
	Flag   []bool   `json:"flag,omitempty"`
}

type Case struct {
	// Pivot: number of SMB hops between the first hop and the tasked agent (0 = directly connected)
	Pivot   int      `json:"pivot,omitempty"`
	HopIDs  []uint32 `json:"hop_ids,omitempty"` // ids of the hops above the tasked agent, first hop first
	AgentID uint32 `json:"agent_id"`
	Key     []byte `json:"key"`
	IV      []byte `json:"iv"`
	Ops     []Op   `json:"ops"`
}

// want: one field as the Demon handler reads it
type want struct {
	k string // i32 i64 bool bytes cstr wstr ip byte i16 skip32 memid
	u uint64
	s string
	b []byte
	// memid: index into the op's mem-file list
	mi int
}

type expect struct {
	cmd    uint32
	fields []want
	// mem files that must have been pushed (in this order) before the command
	memfiles [][]byte
	// the operator command yields no task at all (teamserver-side only)
	none bool
}

func b64(s string) string  { return base64.StdEncoding.EncodeToString([]byte(s)) }
func b64b(b []byte) string { return base64.StdEncoding.EncodeToString(b) }

const marker = "VERIFCLEARTEXTMARKER0123"

// ---------------------------------------------------------------- string classes

// built once: rapid expands a range table into a slice of all its runes (4 MB for the astral planes)
var (
	bmpGen    = rapid.StringOfN(rapid.RuneFrom(nil, rt(0xa1, 0xd7ff)), 1, 16, -1)
	astralGen = rapid.StringOfN(rapid.RuneFrom(nil, rt32(0x10000, 0x10ffff)), 1, 8, -1)
)

var strClasses = []string{"empty", "ascii", "nulterm", "bmp", "astral", "long", "path", "marker"}

func genStr(t *rapid.T, label string, allowEmpty bool, noSemicolon bool) (string, string) {
	cls := rapid.SampledFrom(strClasses).Draw(t, label+"_cls")
	var s string
	switch cls {
	case "empty":
		if allowEmpty {
			s = ""
		} else {
			s = "x"
		}
	case "ascii":
		s = rapid.StringMatching(`[A-Za-z0-9 _.\-]{1,24}`).Draw(t, label)
	case "nulterm":
		s = rapid.StringMatching(`[A-Za-z0-9]{1,12}`).Draw(t, label) + "\x00"
	case "bmp":
		s = bmpGen.Draw(t, label)
	case "astral":
		s = astralGen.Draw(t, label) + "z"
	case "long":
		n := rapid.SampledFrom([]int{300, 4096, 70000}).Draw(t, label+"_len")
		s = strings.Repeat("Ab3_", n/4)
	case "path":
		s = "C:\\Users\\" + rapid.StringMatching(`[a-z]{1,8}`).Draw(t, label) + "\\file.txt"
	case "marker":
		s = marker + rapid.StringMatching(`[a-z]{0,6}`).Draw(t, label)
	}
	if noSemicolon {
		s = strings.ReplaceAll(s, ";", "_")
	}
	return s, cls
}

// what a C handler sees of a Go string written through EncodeUTF16 / string: up to the first NUL
func cview(s string) string {
	if i := strings.IndexByte(s, 0); i >= 0 {
		return s[:i]
	}
	return s
}

// A binary of about the 30 MiB pipe limit is kept in the case as a stub ("\x00VERIF-HUGE:<n>") and
// expanded to a position-dependent pattern when the case is interpreted, so that cases stay small.
const hugeMagic = "\x00VERIF-HUGE:"

var hugeSizes = []int{0x1e00000 - 4096, 0x1e00000, 0x1e00000 + 1, 0x1e00000 + 700000}

// sizes between the small classes and the pipe limit: around 1 MiB and a few MiB (block-wise or
// parallel processing of a body shows only above the block size)
var midSizes = []int{1<<20 - 1, 1 << 20, 1<<20 + 17, 2<<20 + 5, 3<<20 + 4096 + 9, 5 << 20}

var hugeCache = map[int][]byte{}

func bx(b []byte) []byte {
	if !bytes.HasPrefix(b, []byte(hugeMagic)) {
		return b
	}
	n, _ := strconv.Atoi(string(b[len(hugeMagic):]))
	if p, ok := hugeCache[n]; ok {
		return p
	}
	p := make([]byte, n)
	for i := range p {
		p[i] = byte(i*31 + i>>9 + i>>17)
	}
	hugeCache[n] = p
	return p
}

func isHuge(op Op) bool {
	for _, b := range op.B {
		if bytes.HasPrefix(b, []byte(hugeMagic)) {
			if n, _ := strconv.Atoi(string(b[len(hugeMagic):])); n >= 16<<20 {
				return true
			}
		}
	}
	return false
}

func isMid(op Op) bool {
	for _, b := range op.B {
		if bytes.HasPrefix(b, []byte(hugeMagic)) {
			if n, _ := strconv.Atoi(string(b[len(hugeMagic):])); n < 16<<20 {
				return true
			}
		}
	}
	return false
}

func ivEdge(iv []byte) string {
	if len(iv) != 16 || allZero(iv) {
		return ""
	}
	n := 0
	for i := 15; i >= 0 && iv[i] == 0xff; i-- {
		n++
	}
	switch {
	case n == 16:
		return "iv:all-ff"
	case n >= 8:
		return "iv:low-64-bits-ff"
	case iv[14] == 0xff && iv[13] == 0xff && iv[12] == 0xff && iv[15] >= 0xf0:
		return "iv:low-32-bits-about-to-carry"
	}
	return ""
}

func genBin(t *rapid.T, label string) []byte {
	if rapid.IntRange(0, 59).Draw(t, label+"_huge") == 0 {
		return []byte(hugeMagic + strconv.Itoa(rapid.SampledFrom(hugeSizes).Draw(t, label+"_hugesize")))
	}
	if rapid.IntRange(0, 19).Draw(t, label+"_mid") == 0 {
		return []byte(hugeMagic + strconv.Itoa(rapid.SampledFrom(midSizes).Draw(t, label+"_midsize")))
	}
	cls := rapid.SampledFrom([]string{"empty", "small", "zeros", "marker", "64k"}).Draw(t, label+"_cls")
	switch cls {
	case "empty":
		return []byte{}
	case "small":
		return rapid.SliceOfN(rapid.Byte(), 1, 64).Draw(t, label)
	case "zeros":
		return make([]byte, rapid.IntRange(1, 40).Draw(t, label+"_n"))
	case "marker":
		return []byte(marker + marker)
	}
	b := make([]byte, 65536)
	for i := range b {
		b[i] = byte(i * 7)
	}
	return b
}

func genI32(t *rapid.T, label string) int64 {
	return rapid.OneOf(rapid.SampledFrom([]int64{0, 1, 2, 1000, 0x7fffffff}), rapid.Int64Range(0, 0x7fffffff)).Draw(t, label)
}

var kinds = []string{
	"exit", "checkin", "sleep", "fs.dir", "fs.dirui", "fs.download", "fs.upload", "fs.cd", "fs.remove", "fs.mkdir", "fs.cp", "fs.mv", "fs.pwd", "fs.cat",
	"proc.modules", "proc.grep", "proc.create", "proc.memory", "proc.kill", "proclist", "inline", "dotnet", "dotnet.versions", "spawndll",
	"job.list", "job.other", "injectdll", "shellcode", "token.impersonate", "token.steal", "token.list", "token.privslist", "token.privsget", "token.make",
	"token.getuid", "token.revert", "token.remove", "token.clear", "token.find", "config.int", "config.addr", "config.spawn", "config.killdate", "config.hours",
	"screenshot", "net", "pivot.list", "pivot.connect", "pivot.disconnect", "transfer.list", "transfer.id", "rportfwd.add", "rportfwd.list", "rportfwd.remove",
	"rportfwd.clear", "krb.luid", "krb.klistall", "krb.klistluid", "krb.purge", "krb.ptt",
}

func genOp(t *rapid.T, i int) Op {
	l := fmt.Sprintf("op%d_", i)
	op := Op{Kind: rapid.SampledFrom(kinds).Draw(t, l+"kind")}
	// the Qt client sends 8 upper-case hex digits; scripts / the Python API send what they like, and
	// TaskPrepare takes any hex number: 1-8 digits, either case
	tid := rapid.OneOf(rapid.SampledFrom([]uint32{1, 7, 0xabc, 0x7fffffff, 0x80000000, 0xffffffff, 0xdeadbeef}), rapid.Uint32(), rapid.Uint32Range(0, 0xfffff)).Draw(t, l+"task")
	switch rapid.IntRange(0, 3).Draw(t, l+"taskfmt") {
	case 0, 1:
		op.TaskID = fmt.Sprintf("%08X", tid)
	case 2:
		op.TaskID = fmt.Sprintf("%x", tid)
	default:
		op.TaskID = fmt.Sprintf("%X", tid)
	}
	str := func(n string, empty, nosemi bool) {
		s, _ := genStr(t, l+n, empty, nosemi)
		op.S = append(op.S, s)
	}
	num := func(n string) { op.N = append(op.N, genI32(t, l+n)) }
	bin := func(n string) { op.B = append(op.B, genBin(t, l+n)) }
	flag := func(n string) { op.Flag = append(op.Flag, rapid.Bool().Draw(t, l+n)) }
	switch op.Kind {
	case "exit":
		flag("thread")
	case "sleep":
		num("delay")
		num("jitter")
	case "fs.dir":
		str("path", false, true)
		flag("subdirs")
		flag("files")
		flag("dirs")
		flag("list")
		str("starts", true, true)
		str("contains", true, true)
		str("ends", true, true)
	case "fs.dirui", "fs.cd", "fs.remove", "fs.mkdir", "proc.grep":
		str("path", false, false)
	case "fs.download", "fs.cat":
		str("name", false, false)
	case "fs.upload":
		str("name", false, false)
		bin("content")
	case "fs.cp", "fs.mv":
		str("from", false, false)
		str("to", false, false)
	case "proc.modules", "proc.kill", "token.impersonate", "token.remove":
		num("id")
	case "proc.create":
		num("state")
		flag("verbose")
		flag("piped")
		str("process", false, true)
		str("args", true, false)
	case "proc.memory":
		num("pid")
		op.N = append(op.N, int64(rapid.IntRange(0, len(pageNames)-1).Draw(t, l+"prot")))
	case "proclist":
		flag("ui")
	case "inline":
		str("func", false, false)
		bin("obj")
		bin("params")
		op.N = append(op.N, int64(rapid.IntRange(0, 3).Draw(t, l+"flags")))
	case "dotnet":
		bin("assembly")
		str("args", true, false)
	case "spawndll":
		bin("dll")
		bin("args")
	case "job.other":
		op.N = append(op.N, int64(rapid.IntRange(2, 4).Draw(t, l+"sub")))
		num("jobid")
	case "injectdll":
		bin("dll")
		num("pid")
		str("param", true, false)
	case "shellcode":
		op.N = append(op.N, int64(rapid.IntRange(0, 2).Draw(t, l+"way")), int64(rapid.IntRange(0, 3).Draw(t, l+"tech")))
		flag("x64")
		bin("payload")
		bin("arg")
		num("pid")
	case "token.steal":
		num("pid")
		num("handle")
	case "token.privsget":
		str("priv", false, false)
	case "token.make":
		str("domain", true, false)
		str("user", false, false)
		str("password", true, false)
		num("logontype")
	case "config.int":
		op.N = append(op.N, int64(rapid.IntRange(0, len(cfgInt)-1).Draw(t, l+"key")))
		num("val")
	case "config.addr":
		flag("inject")
		op.S = append(op.S, rapid.StringMatching(`[a-z0-9]{1,12}\.dll`).Draw(t, l+"lib"), rapid.StringMatching(`[A-Za-z]{1,20}`).Draw(t, l+"fn"))
		num("off")
	case "config.spawn":
		flag("x86")
		str("path", false, false)
	case "config.killdate":
		flag("zero")
		op.N = append(op.N, rapid.Int64Range(1, 3000).Draw(t, l+"days"))
	case "config.hours":
		flag("zero")
		sh := rapid.IntRange(0, 22).Draw(t, l+"sh")
		eh := rapid.IntRange(sh+1, 23).Draw(t, l+"eh")
		op.N = append(op.N, int64(sh), int64(rapid.IntRange(0, 59).Draw(t, l+"sm")), int64(eh), int64(rapid.IntRange(0, 59).Draw(t, l+"em")))
	case "net":
		op.N = append(op.N, int64(rapid.IntRange(1, 9).Draw(t, l+"sub")))
		str("target", true, false)
	case "pivot.connect":
		str("pipe", false, false)
	case "pivot.disconnect", "transfer.id", "rportfwd.remove":
		// agent ids, download file ids and socket ids are random DWORDs on the Demon side
		// (Demon.c Session.AgentID, Download.c FileID, Socket.c ID = RandomNumber32); the operator syntax is hex
		op.N = append(op.N, int64(rapid.OneOf(rapid.SampledFrom([]uint32{1, 0x7fffffff, 0x80000000, 0xffffffff}), rapid.Uint32Range(1, 0xffffffff)).Draw(t, l+"id")))
		if op.Kind == "transfer.id" {
			op.N = append(op.N, int64(rapid.IntRange(1, 3).Draw(t, l+"sub")))
		}
	case "rportfwd.add":
		for j := 0; j < 2; j++ {
			op.S = append(op.S, fmt.Sprintf("%d.%d.%d.%d", rapid.IntRange(0, 255).Draw(t, l+"a"), rapid.IntRange(0, 255).Draw(t, l+"b"), rapid.IntRange(0, 255).Draw(t, l+"c"), rapid.IntRange(0, 255).Draw(t, l+"d")))
			op.N = append(op.N, int64(rapid.IntRange(1, 65535).Draw(t, l+"port")))
		}
	case "krb.klistluid", "krb.purge":
		num("luid")
		flag("0x")
	case "krb.ptt":
		bin("ticket")
		num("luid")
		flag("0x")
	}
	return op
}

var pageNames = []struct {
	n string
	v uint32
}{ // winnt.h
	{"PAGE_NOACCESS", 0x01}, {"PAGE_READONLY", 0x02}, {"PAGE_READWRITE", 0x04}, {"PAGE_WRITECOPY", 0x08}, {"PAGE_EXECUTE", 0x10},
	{"PAGE_EXECUTE_READ", 0x20}, {"PAGE_EXECUTE_READWRITE", 0x40}, {"PAGE_EXECUTE_WRITECOPY", 0x80}, {"PAGE_GUARD", 0x100},
}

// config keys with integer values; ids from payloads/Demon/include/core/Command.h DEMON_CONFIG_*
var cfgInt = []struct {
	key  string
	id   uint32
	bool bool
}{
	{"implant.verbose", 4, true}, {"implant.sleep-obf.technique", 5, false}, {"implant.coffee.veh", 7, true}, {"implant.coffee.threaded", 6, true},
	{"memory.alloc", 101, false}, {"memory.execute", 102, false}, {"inject.technique", 150, false},
}

func gen(t *rapid.T) Case {
	c := Case{AgentID: rapid.OneOf(rapid.SampledFrom([]uint32{1, 0x7fffffff, 0x80000000, 0xfffffffe}), rapid.Uint32Range(1, 0xfffffffe)).Draw(t, "agent")}
	if rapid.IntRange(0, 5).Draw(t, "zerokey") == 0 {
		c.Key = make([]byte, 32)
		c.IV = make([]byte, 16)
	} else {
		c.Key = rapid.SliceOfN(rapid.Byte(), 32, 32).Draw(t, "key")
		c.Key[0] |= 1
		c.IV = rapid.SliceOfN(rapid.Byte(), 16, 16).Draw(t, "iv")
		// one session in four has a counter block about to carry: the key stream of the Demon (and of
		// crypto/cipher) treats all 16 bytes as one big-endian counter
		switch rapid.IntRange(0, 15).Draw(t, "ivedge") {
		case 0:
			for i := range c.IV {
				c.IV[i] = 0xff
			}
		case 1:
			for i := 8; i < 16; i++ {
				c.IV[i] = 0xff
			}
		case 2:
			for i := 12; i < 16; i++ {
				c.IV[i] = 0xff
			}
			c.IV[15] = byte(0xf0 + rapid.IntRange(0, 15).Draw(t, "ivlast"))
		case 3:
			for i := 1; i < 16; i++ {
				c.IV[i] = 0xff
			}
			c.IV[15] = 0xfe
		}
	}
	if rapid.IntRange(0, 4).Draw(t, "pivot?") == 0 {
		c.Pivot = rapid.IntRange(1, 2).Draw(t, "pivot")
		used := map[uint32]bool{c.AgentID: true}
		for len(c.HopIDs) < c.Pivot {
			id := rapid.OneOf(rapid.SampledFrom([]uint32{2, 0x7ffffffe, 0x80000001, 0xfffffffd, 0x00000abc}), rapid.Uint32Range(1, 0xfffffffe)).Draw(t, "hopid")
			if !used[id] {
				used[id] = true
				c.HopIDs = append(c.HopIDs, id)
			}
		}
	}
	n := rapid.IntRange(1, 6).Draw(t, "nops")
	seen := map[string]bool{}
	for i := 0; i < n; i++ {
		op := genOp(t, i)
		norm := func(s string) string { v, _ := strconv.ParseUint(s, 16, 32); return fmt.Sprintf("%08x", v) }
		// the client draws random ids, so ids of one batch are normally distinct; a script (or a
		// collision) may issue a second task under an id that is still outstanding: one op in eight
		// reuses the id of an earlier op of the case on purpose
		if i > 0 && rapid.IntRange(0, 7).Draw(t, fmt.Sprintf("op%d_reuseid", i)) == 0 {
			op.TaskID = c.Ops[rapid.IntRange(0, i-1).Draw(t, fmt.Sprintf("op%d_reusewhich", i))].TaskID
		} else {
			for seen[norm(op.TaskID)] {
				v, _ := strconv.ParseUint(op.TaskID, 16, 32)
				op.TaskID = fmt.Sprintf("%08X", uint32(v+1))
			}
		}
		seen[norm(op.TaskID)] = true
		c.Ops = append(c.Ops, op)
	}
	return c
}

// info builds the operator package body and the Demon-side expectation.
func info(op Op) (map[string]interface{}, expect) {
	m := map[string]interface{}{"TaskID": op.TaskID, "CommandLine": "verif " + op.Kind, "DemonID": ""}
	var e expect
	i32 := func(v uint64) want { return want{k: "i32", u: v & 0xffffffff} }
	bl := func(b bool) want {
		if b {
			return want{k: "bool", u: 1}
		}
		return want{k: "bool", u: 0}
	}
	w := func(s string) want { return want{k: "wstr", s: cview(s)} }
	cs := func(s string) want { return want{k: "cstr", s: cview(s)} }
	by := func(b []byte) want { return want{k: "bytes", b: b} }
	tf := func(b bool) string {
		if b {
			return "true"
		}
		return "false"
	}
	cmd := func(id int) { m["CommandID"] = strconv.Itoa(id); e.cmd = uint32(id) }
	switch op.Kind {
	case "exit": // Command.c:3344 ExitMethod = ParserGetInt32
		cmd(92)
		if op.Flag[0] {
			m["ExitMethod"] = "thread"
			e.fields = []want{i32(1)}
		} else {
			m["ExitMethod"] = "process"
			e.fields = []want{i32(2)}
		}
	case "checkin": // Command.c:163 no reads
		cmd(100)
	case "sleep": // Command.c:178-179
		cmd(11)
		m["Arguments"] = fmt.Sprintf("%d;%d", op.N[0], op.N[1])
		e.fields = []want{i32(uint64(op.N[0])), i32(uint64(op.N[1]))}
	case "fs.dir": // Command.c:678, 702-710
		cmd(15)
		m["SubCommand"] = "dir"
		p := fsPath(op.S[0])
		m["Arguments"] = strings.Join([]string{p, tf(op.Flag[0]), tf(op.Flag[1]), tf(op.Flag[2]), tf(op.Flag[3]), op.S[1], op.S[2], op.S[3]}, ";")
		e.fields = []want{i32(1), bl(false), w(p), bl(op.Flag[0]), bl(op.Flag[1]), bl(op.Flag[2]), bl(op.Flag[3]), w(op.S[1]), w(op.S[2]), w(op.S[3])}
	case "fs.dirui":
		cmd(15)
		m["SubCommand"] = "dir;ui"
		p := fsPath(op.S[0])
		m["Arguments"] = p
		e.fields = []want{i32(1), bl(true), w(p), bl(false), bl(false), bl(false), bl(false), w(""), w(""), w("")}
	case "fs.download": // Command.c:805 Buffer = ParserGetBytes (a UTF-16 name)
		cmd(15)
		m["SubCommand"] = "download"
		m["Arguments"] = b64(op.S[0])
		e.fields = []want{i32(2), w(op.S[0])}
	case "fs.cat": // Command.c:1079
		cmd(15)
		m["SubCommand"] = "cat"
		m["Arguments"] = b64(op.S[0])
		e.fields = []want{i32(10), w(op.S[0])}
	case "fs.upload": // Command.c:888-889 FileName = GetWString, MemFileID = GetInt32
		cmd(15)
		m["SubCommand"] = "upload"
		m["Arguments"] = b64(op.S[0]) + ";" + b64b(bx(op.B[0]))
		e.memfiles = [][]byte{bx(op.B[0])}
		e.fields = []want{i32(3), w(op.S[0]), {k: "memid", mi: 0}}
	case "fs.cd", "fs.remove", "fs.mkdir": // Command.c:952 / 967 / 997
		cmd(15)
		sub := map[string]int{"fs.cd": 4, "fs.remove": 5, "fs.mkdir": 6}[op.Kind]
		m["SubCommand"] = strings.TrimPrefix(op.Kind, "fs.")
		m["Arguments"] = op.S[0]
		e.fields = []want{i32(uint64(sub)), w(op.S[0])}
	case "fs.cp", "fs.mv": // Command.c:1018-1019 / 1043-1044
		cmd(15)
		sub := map[string]int{"fs.cp": 7, "fs.mv": 8}[op.Kind]
		m["SubCommand"] = strings.TrimPrefix(op.Kind, "fs.")
		m["Arguments"] = b64(op.S[0]) + ";" + b64(op.S[1])
		e.fields = []want{i32(uint64(sub)), w(op.S[0]), w(op.S[1])}
	case "fs.pwd": // Command.c:1060
		cmd(15)
		m["SubCommand"] = "pwd"
		m["Arguments"] = ""
		e.fields = []want{i32(9)}
	case "proc.modules": // Command.c:265, 280
		cmd(0x1010)
		m["ProcCommand"] = "2"
		m["Args"] = strconv.FormatInt(op.N[0], 10)
		e.fields = []want{i32(2), i32(uint64(op.N[0]))}
	case "proc.grep": // Command.c:349
		cmd(0x1010)
		m["ProcCommand"] = "3"
		m["Args"] = op.S[0]
		e.fields = []want{i32(3), w(op.S[0])}
	case "proc.create": // Command.c:428-432 State, Process, Args, Piped, Verbose
		cmd(0x1010)
		m["ProcCommand"] = "4"
		m["Args"] = fmt.Sprintf("%d;%s;%s;%s;%s", op.N[0], tf(op.Flag[0]), tf(op.Flag[1]), op.S[0], b64(op.S[1]))
		e.fields = []want{i32(4), i32(uint64(op.N[0])), w(op.S[0]), w(op.S[1]), i32(b2u(op.Flag[1])), i32(b2u(op.Flag[0]))}
	case "proc.memory": // Command.c:470-471
		cmd(0x1010)
		m["ProcCommand"] = "6"
		m["Args"] = fmt.Sprintf("%d %s", op.N[0], pageNames[op.N[1]].n)
		e.fields = []want{i32(6), i32(uint64(op.N[0])), i32(uint64(pageNames[op.N[1]].v))}
	case "proc.kill": // Command.c:530
		cmd(0x1010)
		m["ProcCommand"] = "7"
		m["Args"] = strconv.FormatInt(op.N[0], 10)
		e.fields = []want{i32(7), i32(uint64(op.N[0]))}
	case "proclist": // Command.c:586
		cmd(12)
		m["FromProcessManager"] = tf(op.Flag[0])
		e.fields = []want{i32(b2u(op.Flag[0]))}
	case "inline": // Command.c:1124-1127 FunctionName(String), BofFileID, ParamsFileID, Flags
		cmd(20)
		m["FunctionName"] = op.S[0]
		m["Binary"] = b64b(bx(op.B[0]))
		m["Arguments"] = b64b(bx(op.B[1]))
		m["Flags"] = []string{"non-threaded", "threaded", "default", "weird"}[op.N[0]]
		fl := []uint64{0, 1, 2, 0}[op.N[0]]
		e.memfiles = [][]byte{bx(op.B[0]), bx(op.B[1])}
		e.fields = []want{cs(op.S[0]), {k: "memid", mi: 0}, {k: "memid", mi: 1}, i32(fl)}
	case "dotnet": // Command.c:1721-1759 PipeName, AppDomain, NetVersion (WString), MemFileID, Args (WString)
		cmd(0x2001)
		m["Binary"] = b64b(bx(op.B[0]))
		m["Arguments"] = op.S[0]
		e.memfiles = [][]byte{bx(op.B[0])}
		e.fields = []want{{k: "pipe"}, w("DefaultDomain"), w("v4.0.30319"), {k: "memid", mi: 0}, w(op.S[0])}
	case "dotnet.versions":
		cmd(0x2003)
	case "spawndll": // Command.c:1254-1256 DllLdr, DllBytes, Arguments
		cmd(26)
		m["Binary"] = b64b(bx(op.B[0]))
		m["Arguments"] = b64b(bx(op.B[1]))
		e.fields = []want{by(fakeLdr), by(bx(op.B[0])), by(bx(op.B[1]))}
	case "job.list": // Command.c:192
		cmd(21)
		m["Command"] = "list"
		m["Param"] = "0"
		e.fields = []want{i32(1)}
	case "job.other": // Command.c:224/238/250
		cmd(21)
		m["Command"] = map[int64]string{2: "suspend", 3: "resume", 4: "kill"}[op.N[0]]
		m["Param"] = strconv.FormatInt(op.N[1], 10)
		e.fields = []want{i32(uint64(op.N[0])), i32(uint64(op.N[1]))}
	case "injectdll": // Command.c:1217-1221 Technique, ProcessID, DllLdr, DllBytes, Parameter
		cmd(22)
		m["Binary"] = b64b(bx(op.B[0]))
		m["PID"] = strconv.FormatInt(op.N[0], 10)
		m["Arguments"] = op.S[0]
		e.fields = []want{i32(0), i32(uint64(op.N[0])), by(fakeLdr), by(bx(op.B[0])), {k: "cstr", s: cview(op.S[0])}}
	case "shellcode": // Command.c:1286-1291 Way, Method, x64, Payload, Argv, Pid
		cmd(24)
		m["Way"] = []string{"Spawn", "Inject", "Execute"}[op.N[0]] // INJECT_WAY_SPAWN 0, INJECT 1, EXECUTE 2 (Inject.h)
		m["Technique"] = []string{"default", "createremotethread", "ntcreatethreadex", "ntqueueapcthread"}[op.N[1]]
		m["Arch"] = map[bool]string{true: "x64", false: "x86"}[op.Flag[0]]
		m["Binary"] = b64b(bx(op.B[0]))
		m["Argument"] = b64b(bx(op.B[1]))
		m["PID"] = strconv.FormatInt(op.N[2], 10)
		e.fields = []want{i32(uint64(op.N[0])), i32(uint64(op.N[1])), i32(b2u(op.Flag[0])), by(bx(op.B[0])), by(bx(op.B[1]))}
		if op.N[0] == 1 {
			e.fields = append(e.fields, i32(uint64(op.N[2])))
		}
	case "token.impersonate": // Command.c:1385
		cmd(40)
		m["SubCommand"] = "impersonate"
		m["Arguments"] = strconv.FormatInt(op.N[0], 10)
		e.fields = []want{i32(1), i32(uint64(op.N[0]))}
	case "token.steal": // Command.c:1417-1418
		cmd(40)
		m["SubCommand"] = "steal"
		m["Arguments"] = fmt.Sprintf("%d;%x", op.N[0], op.N[1])
		e.fields = []want{i32(2), i32(uint64(op.N[0])), i32(uint64(op.N[1]))}
	case "token.list":
		cmd(40)
		m["SubCommand"] = "list"
		e.fields = []want{i32(3)}
	case "token.privslist": // Command.c:1485
		cmd(40)
		m["SubCommand"] = "privs-list"
		e.fields = []want{i32(4), i32(1)}
	case "token.privsget": // Command.c:1485, 1516
		cmd(40)
		m["SubCommand"] = "privs-get"
		m["Arguments"] = op.S[0]
		e.fields = []want{i32(4), i32(0), cs(op.S[0])}
	case "token.make": // Command.c:1537-1540
		cmd(40)
		m["SubCommand"] = "make"
		m["Arguments"] = fmt.Sprintf("%s;%s;%s;%d", b64(op.S[0]), b64(op.S[1]), b64(op.S[2]), op.N[0])
		e.fields = []want{i32(5), w(op.S[0]), w(op.S[1]), w(op.S[2]), i32(uint64(op.N[0]))}
	case "token.getuid":
		cmd(40)
		m["SubCommand"] = "getuid"
		e.fields = []want{i32(6)}
	case "token.revert":
		cmd(40)
		m["SubCommand"] = "revert"
		e.fields = []want{i32(7)}
	case "token.remove": // Command.c:1652
		cmd(40)
		m["SubCommand"] = "remove"
		m["Arguments"] = strconv.FormatInt(op.N[0], 10)
		e.fields = []want{i32(8), i32(uint64(op.N[0]))}
	case "token.clear":
		cmd(40)
		m["SubCommand"] = "clear"
		e.fields = []want{i32(9)}
	case "token.find":
		cmd(40)
		m["SubCommand"] = "find"
		e.fields = []want{i32(10)}
	case "config.int": // Command.c:1868, 1922-1965
		cmd(2500)
		k := cfgInt[op.N[0]]
		m["ConfigKey"] = k.key
		if k.bool {
			v := op.N[1]%2 == 1
			m["ConfigVal"] = tf(v)
			e.fields = []want{i32(uint64(k.id)), i32(b2u(v))}
		} else {
			m["ConfigVal"] = strconv.FormatInt(op.N[1], 10)
			e.fields = []want{i32(uint64(k.id)), i32(uint64(op.N[1]))}
		}
	case "config.addr": // Command.c:1883-1885 / 1974-1976 Library, Function (String), Offset (Int32)
		cmd(2500)
		id := uint64(3)
		m["ConfigKey"] = "implant.sleep-obf.start-addr"
		if op.Flag[0] {
			id = 151
			m["ConfigKey"] = "inject.spoofaddr"
		}
		m["ConfigVal"] = fmt.Sprintf("%s!%s+0x%x", op.S[0], op.S[1], op.N[0])
		e.fields = []want{i32(id), cs(op.S[0]), cs(op.S[1]), i32(uint64(op.N[0]))}
	case "config.spawn": // Command.c:2024 / 2046 Buffer = ParserGetBytes (UTF-16 path)
		cmd(2500)
		id := uint64(152)
		m["ConfigKey"] = "inject.spawn64"
		if op.Flag[0] {
			id = 153
			m["ConfigKey"] = "inject.spawn32"
		}
		m["ConfigVal"] = op.S[0]
		e.fields = []want{i32(id), w(op.S[0])}
	case "config.killdate": // Command.c:2058 KillDate = ParserGetInt64 (FILETIME-style ticks; 0 = disabled)
		cmd(2500)
		m["ConfigKey"] = "killdate"
		if op.Flag[0] {
			m["ConfigVal"] = "0"
			e.fields = []want{i32(154), {k: "i64", u: 0}}
		} else {
			// a date N days after 2030-01-01 (always in the future)
			base := int64(1893456000) + op.N[0]*86400
			m["ConfigVal"] = timeFmt(base)
			e.fields = []want{i32(154), {k: "i64", u: uint64(base*10000000 + 0x019DB1DED53E8000)}}
		}
	case "config.hours": // Command.c:2068; layout checked against InWorkingHours() (Demon.c / Runtime): bit22 enabled, 17..21 start hour, 11..16 start min, 6..10 end hour, 0..5 end min
		cmd(2500)
		m["ConfigKey"] = "workinghours"
		if op.Flag[0] {
			m["ConfigVal"] = "0"
			e.fields = []want{i32(155), i32(0)}
		} else {
			m["ConfigVal"] = fmt.Sprintf("%d:%02d-%d:%02d", op.N[0], op.N[1], op.N[2], op.N[3])
			v := uint64(1)<<22 | uint64(op.N[0])<<17 | uint64(op.N[1])<<11 | uint64(op.N[2])<<6 | uint64(op.N[3])
			e.fields = []want{i32(155), i32(v)}
		}
	case "screenshot":
		cmd(2510)
	case "net": // Command.c:2113, 2167.. ServerName = GetWString for every sub-command except DOMAIN(1), COMPUTER(4), DCLIST(5)
		cmd(2100)
		m["NetCommand"] = strconv.FormatInt(op.N[0], 10)
		m["Param"] = op.S[0]
		e.fields = []want{i32(uint64(op.N[0]))}
		if op.N[0] != 1 && op.N[0] != 4 && op.N[0] != 5 {
			e.fields = append(e.fields, w(op.S[0]))
		}
	case "pivot.list": // Command.c:2466
		cmd(2520)
		m["Command"] = "1"
		e.fields = []want{i32(1)}
	case "pivot.connect": // Command.c:2504 PipeName.Buffer = ParserGetBytes (UTF-16)
		cmd(2520)
		m["Command"] = "10"
		m["Param"] = op.S[0]
		e.fields = []want{i32(10), w(op.S[0])}
	case "pivot.disconnect": // Command.c:2544 AgentID = ParserGetInt32
		cmd(2520)
		m["Command"] = "11"
		m["Param"] = fmt.Sprintf("%x", op.N[0])
		e.fields = []want{i32(11), i32(uint64(op.N[0]))}
	case "transfer.list": // Command.c:2617
		cmd(2530)
		m["Command"] = "list"
		m["FileID"] = "0"
		e.fields = []want{i32(0)}
	case "transfer.id": // Command.c:2643/2670/2698
		cmd(2530)
		m["Command"] = map[int64]string{1: "stop", 2: "resume", 3: "remove"}[op.N[1]]
		m["FileID"] = fmt.Sprintf("%x", op.N[0])
		e.fields = []want{i32(uint64(op.N[1])), i32(uint64(op.N[0]))}
	case "rportfwd.add": // Command.c:2761-2766 LclAddr, LclPort, FwdAddr, FwdPort; the address words are used as in_addr (network byte order in memory)
		cmd(2540)
		m["Command"] = "rportfwd add"
		m["Params"] = fmt.Sprintf("%s;%d;%s;%d", op.S[0], op.N[0], op.S[1], op.N[1])
		e.fields = []want{i32(0), {k: "ip", s: op.S[0]}, i32(uint64(op.N[0])), {k: "ip", s: op.S[1]}, i32(uint64(op.N[1]))}
	case "rportfwd.list": // Command.c:2786
		cmd(2540)
		m["Command"] = "rportfwd list"
		m["Params"] = ""
		e.fields = []want{i32(2)}
	case "rportfwd.remove": // Command.c:2823
		cmd(2540)
		m["Command"] = "rportfwd remove"
		m["Params"] = fmt.Sprintf("%x", op.N[0])
		e.fields = []want{i32(4), i32(uint64(op.N[0]))}
	case "rportfwd.clear": // Command.c:2850
		cmd(2540)
		m["Command"] = "rportfwd clear"
		m["Params"] = ""
		e.fields = []want{i32(3)}
	case "krb.luid": // Command.c:3085
		cmd(2550)
		m["Command"] = "luid"
		e.fields = []want{i32(0)}
	case "krb.klistall": // Command.c:3127
		cmd(2550)
		m["Command"] = "klist"
		m["Argument1"] = "/all"
		e.fields = []want{i32(1), i32(0)}
	case "krb.klistluid": // Command.c:3127-3132
		cmd(2550)
		m["Command"] = "klist"
		m["Argument1"] = "/luid"
		m["Argument2"] = hexArg(op.N[0], op.Flag[0])
		e.fields = []want{i32(1), i32(1), i32(uint64(op.N[0]))}
	case "krb.purge": // Command.c:3209
		cmd(2550)
		m["Command"] = "purge"
		m["Argument"] = hexArg(op.N[0], op.Flag[0])
		e.fields = []want{i32(2), i32(uint64(op.N[0]))}
	case "krb.ptt": // Command.c:3222-3224 Ticket (Bytes), luid
		cmd(2550)
		m["Command"] = "ptt"
		m["Ticket"] = b64b(bx(op.B[0]))
		m["Luid"] = hexArg(op.N[0], op.Flag[0])
		e.fields = []want{i32(3), by(bx(op.B[0])), i32(uint64(op.N[0]))}
	default:
		panic("unknown kind " + op.Kind)
	}
	return m, e
}

func hexArg(v int64, pfx bool) string {
	if pfx {
		return fmt.Sprintf("0x%x", v)
	}
	return fmt.Sprintf("%x", v)
}

func b2u(b bool) uint64 {
	if b {
		return 1
	}
	return 0
}

// fsPath keeps generated directory arguments clear of the operator-side conveniences
// of `dir` (a trailing "\" or ":" gets a "*" appended, a bare UNC share gets a "\"):
// those rewrite the parameter on purpose and are not part of the property.
func fsPath(s string) string {
	s = strings.TrimRight(s, "\\:\x00")
	if strings.HasPrefix(s, "\\\\") {
		s = "C:" + s
	}
	if s == "" {
		s = "dir"
	}
	return s
}

func timeFmt(unix int64) string {
	// "2006-01-02 15:04:05" in UTC, computed without the time package's local zone
	days := unix / 86400
	rem := unix % 86400
	y, mo, d := civil(days)
	return fmt.Sprintf("%04d-%02d-%02d %02d:%02d:%02d", y, mo, d, rem/3600, (rem%3600)/60, rem%60)
}

// civil-from-days (Howard Hinnant)
func civil(z int64) (int64, int64, int64) {
	z += 719468
	era := z / 146097
	doe := z - era*146097
	yoe := (doe - doe/1460 + doe/36524 - doe/146096) / 365
	y := yoe + era*400
	doy := doe - (365*yoe + yoe/4 - yoe/100)
	mp := (5*doy + 2) / 153
	d := doy - (153*mp+2)/5 + 1
	m := mp + 3
	if m > 12 {
		m -= 12
	}
	if m <= 2 {
		y++
	}
	return y, m, d
}

var (
	loopK  = -1
	loopOp = ""
)

// loopCondition reads the do/while condition of CommandDispatcher from the C source,
// so that a repair on the C side is picked up.
func loopCondition() (int, string, error) {
	if loopK >= 0 {
		return loopK, loopOp, nil
	}
	root := os.Getenv("VERIF_REPO_ROOT")
	if root == "" {
		root = "/repo"
	}
	b, err := os.ReadFile(root + "/payloads/Demon/src/core/Command.c")
	if err != nil {
		return 0, "", err
	}
	re := regexp.MustCompile(`\}\s*while\s*\(\s*Parser\.Length\s*(>=|>)\s*(\d+)\s*\)`)
	mm := re.FindSubmatch(b)
	if mm == nil {
		return 0, "", fmt.Errorf("CommandDispatcher loop condition not found in Command.c")
	}
	loopOp = string(mm[1])
	loopK, _ = strconv.Atoi(string(mm[2]))
	return loopK, loopOp, nil
}

func check(c Case) *core.Violation {
	k, lop, err := loopCondition()
	if err != nil {
		panic("infrastructure: " + err.Error())
	}
	prof := tsx.BasicProfile(map[string]string{"op": "pw"}, nil)
	prof.Config.Demon.DotNetNamePipe = "verifpipe"
	w, err := agx.NewWorld(prof)
	if err != nil {
		panic("infrastructure: " + err.Error())
	}
	defer w.Close()
	target := agx.Sess{ID: c.AgentID, Key: c.Key, IV: c.IV, Meta: agx.DefaultMeta(c.AgentID)}
	huge := false
	for _, op := range c.Ops {
		huge = huge || isHuge(op)
	}
	pivot := c.Pivot
	if huge || len(c.HopIDs) < pivot {
		pivot = 0 // a batch at the pipe limit is collected over several check-ins: kept to directly connected agents
	}
	var chain []agx.Sess
	for i := 0; i < pivot; i++ {
		k, iv := hopKey(i + 1)
		chain = append(chain, agx.Sess{ID: c.HopIDs[i], Key: k, IV: iv, Meta: agx.DefaultMeta(c.HopIDs[i])})
	}
	chain = append(chain, target)
	if code, _ := w.Register(chain[0]); code != 200 {
		return core.V("setup|register-refused", "registration of %08x refused with %d", chain[0].ID, code)
	}
	for i := 1; i < len(chain); i++ {
		if v := connectChild(w, chain, i); v != nil {
			return v
		}
	}
	w.Checkin(chain[0], nil) // whatever the connects left queued is not looked at
	s := chain[0] // the agent that checks in; tasks are addressed to target
	var exps []expect
	for _, op := range c.Ops {
		m, e := info(op)
		m["DemonID"] = target.NameID()
		w.Input("op", m)
		exps = append(exps, e)
	}
	code, resp := w.Post(demonref.Batch(s.ID, 0, nil, s.Key, s.IV))
	if code != 200 {
		return core.V("checkin|status", "check-in answered %d", code)
	}
	var tasks []demonref.Task
	resps := [][]byte{resp}
	for round := 0; ; round++ {
		rtasks, clean := demonref.ReadTasks(resp, s.Key, s.IV, k, lop)
		wire, wireClean := demonref.ReadTasks(resp, s.Key, s.IV, 0, "")
		if !wireClean {
			return core.V("framing|malformed-response", "response is not a sequence of [cmd][req][len][body] records (%d bytes)", len(resp))
		}
		if !clean || len(rtasks) != len(wire) {
			last := wire[len(wire)-1]
			return core.V("demon-loop|trailing-bodyless-task-dropped", "the Demon's dispatcher loop (while Parser.Length %s %d) executes %d of the %d tasks in the reply; the last one (cmd %d, %d-byte body) is never run", lop, k, len(rtasks), len(wire), last.Cmd, len(last.Raw))
		}
		if round > 0 && len(rtasks) == 1 && rtasks[0].Cmd == demonref.CmdNoJob {
			break
		}
		tasks = append(tasks, rtasks...)
		if !huge {
			break // everything fits one reply; the no-job check at the end covers "left in the queue"
		}
		// a batch at the 30 MB pipe limit is handed out over several check-ins: the agent keeps
		// checking in until it is told there is nothing left
		if round == 16 {
			return core.V("task|queue-never-drains", "17 check-ins and the agent is still handed tasks (%d so far)", len(tasks))
		}
		code, resp = w.Post(demonref.Batch(s.ID, 0, nil, s.Key, s.IV))
		if code != 200 {
			return core.V("checkin|status", "check-in %d answered %d", round+2, code)
		}
		resps = append(resps, resp)
	}
	if pivot > 0 {
		// every task of the first hop's reply is followed down the chain; what the target reads is judged below
		var v *core.Violation
		if tasks, v = unwrapTasks(chain, tasks); v != nil {
			return v
		}
	}
	// clear-text check
	if !allZero(c.Key) {
		for _, mk := range [][]byte{[]byte(marker), demonref.UTF16LE(marker)} {
			found := false
			for _, r := range resps {
				found = found || bytes.Contains(r, mk)
			}
			if found {
				return core.V("cleartext|marker-in-response", "a task parameter appears in clear in the reply although the agent registered a non-zero key")
			}
		}
	}
	ti := 0
	for oi, e := range exps {
		op := c.Ops[oi]
		// mem files first
		var memIDs []uint32
		for mi, f := range e.memfiles {
			var got []byte
			var id uint32
			first := true
			for {
				if ti >= len(tasks) {
					return core.V("memfile|missing-chunks|"+op.Kind, "op %d (%s): reply ended while reading chunks of mem-file %d", oi, op.Kind, mi)
				}
				t := tasks[ti]
				if t.Cmd != 2560 {
					return core.V("memfile|command-before-file-complete|"+op.Kind, "op %d (%s): task %d is command %d but mem-file %d has %d of %d bytes", oi, op.Kind, ti, t.Cmd, mi, len(got), len(f))
				}
				d := &demonref.Dec{B: t.Body} // Command.c:3249-3251 ID, Size (Int64), Data
				cid := d.Int32()
				size := d.Int64()
				data := d.Bytes()
				if d.Err {
					return core.V("memfile|short-chunk|"+op.Kind, "op %d: mem-file chunk task too short", oi)
				}
				if first {
					id = cid
					first = false
				} else if cid != id {
					return core.V("memfile|id-differs-between-chunks|"+op.Kind, "op %d: chunk carries id %x, first chunk %x", oi, cid, id)
				}
				if size != uint64(len(f)) {
					return core.V("memfile|total-size|"+op.Kind, "op %d: chunk says total size %d, file has %d bytes", oi, size, len(f))
				}
				got = append(got, data...)
				ti++
				if len(got) >= len(f) {
					// a trailing empty chunk for exact multiples is allowed: consume it if it belongs to the same id
					for ti < len(tasks) && tasks[ti].Cmd == 2560 {
						d2 := &demonref.Dec{B: tasks[ti].Body}
						if d2.Int32() != id {
							break
						}
						d2.Int64()
						got = append(got, d2.Bytes()...)
						ti++
					}
					break
				}
			}
			if !bytes.Equal(got, f) {
				return core.V("memfile|content|"+op.Kind, "op %d: chunks concatenate to %d bytes, file has %d (or content differs)", oi, len(got), len(f))
			}
			memIDs = append(memIDs, id)
		}
		if ti >= len(tasks) {
			return core.V("task|missing|"+op.Kind, "op %d (%s): no task in the reply (reply has %d tasks)", oi, op.Kind, len(tasks))
		}
		t := tasks[ti]
		ti++
		if t.Cmd != e.cmd {
			return core.V("task|command-id|"+op.Kind, "op %d (%s): task carries command %d, expected %d", oi, op.Kind, t.Cmd, e.cmd)
		}
		wantReq, _ := strconv.ParseUint(op.TaskID, 16, 32)
		if t.ReqID != uint32(wantReq) {
			return core.V("task|request-id|"+op.Kind, "op %d (%s): request id %08x, operator was told %s", oi, op.Kind, t.ReqID, op.TaskID)
		}
		d := &demonref.Dec{B: t.Body}
		for fi, f := range e.fields {
			sig := fmt.Sprintf("arg|%s|field%d-%s", op.Kind, fi, f.k)
			switch f.k {
			case "i32", "bool":
				got := d.Int32()
				if d.Err {
					return core.V(sig+"|missing", "op %d (%s) field %d: body too short", oi, op.Kind, fi)
				}
				if f.k == "bool" {
					if (got != 0) != (f.u != 0) {
						return core.V(sig+"|value", "op %d (%s) field %d: bool %d, expected %d", oi, op.Kind, fi, got, f.u)
					}
				} else if uint64(got) != f.u {
					return core.V(sig+"|value", "op %d (%s) field %d: int32 %#x, expected %#x", oi, op.Kind, fi, got, f.u)
				}
			case "i64":
				got := d.Int64()
				if d.Err || got != f.u {
					return core.V(sig+"|value", "op %d (%s) field %d: int64 %#x, expected %#x", oi, op.Kind, fi, got, f.u)
				}
			case "memid":
				got := d.Int32()
				if d.Err || got != memIDs[f.mi] {
					return core.V(sig+"|value", "op %d (%s) field %d: mem-file id %x, the chunks carried %x", oi, op.Kind, fi, got, memIDs[f.mi])
				}
			case "bytes":
				got := d.Bytes()
				if d.Err || !bytes.Equal(got, f.b) {
					return core.V(sig+"|value", "op %d (%s) field %d: %d bytes, expected %d bytes (or content differs)", oi, op.Kind, fi, len(got), len(f.b))
				}
			case "cstr":
				got := d.Bytes()
				if d.Err || demonref.CString(got) != f.s {
					return core.V(sig+"|value", "op %d (%s) field %d: C string %.60q, expected %.60q", oi, op.Kind, fi, demonref.CString(got), f.s)
				}
				if len(got) == 0 || got[len(got)-1] != 0 {
					return core.V(sig+"|unterminated", "op %d (%s) field %d: char* argument is not NUL-terminated inside its buffer", oi, op.Kind, fi)
				}
			case "wstr":
				got := d.Bytes()
				if d.Err || demonref.WCString(got) != f.s {
					return core.V(sig+"|value", "op %d (%s) field %d: wide string %.60q, expected %.60q", oi, op.Kind, fi, demonref.WCString(got), f.s)
				}
				if len(got) < 2 || got[len(got)-1] != 0 || got[len(got)-2] != 0 || len(got)%2 != 0 {
					return core.V(sig+"|unterminated", "op %d (%s) field %d: wchar_t* argument is not NUL-terminated inside its buffer", oi, op.Kind, fi)
				}
			case "pipe":
				got := d.Bytes()
				if d.Err || !strings.HasPrefix(demonref.WCString(got), `\\.\pipe\`) {
					return core.V(sig+"|value", "op %d (%s) field %d: pipe name %.60q", oi, op.Kind, fi, demonref.WCString(got))
				}
			case "ip":
				if d.Len() < 4 {
					return core.V(sig+"|missing", "op %d (%s) field %d: body too short", oi, op.Kind, fi)
				}
				var oct [4]int
				fmt.Sscanf(f.s, "%d.%d.%d.%d", &oct[0], &oct[1], &oct[2], &oct[3])
				raw := d.B[:4]
				d.Int32()
				if int(raw[0]) != oct[0] || int(raw[1]) != oct[1] || int(raw[2]) != oct[2] || int(raw[3]) != oct[3] {
					return core.V(sig+"|value", "op %d (%s) field %d: address bytes %v, expected %s in network order", oi, op.Kind, fi, raw, f.s)
				}
			}
		}
	}
	if ti != len(tasks) {
		return core.V("task|extra", "reply has %d tasks, %d expected", len(tasks), ti)
	}
	// nothing left queued: a second check-in is the no-job reply
	_, t2, _, _ := w.Checkin(s, nil)
	if len(t2) != 1 || t2[0].Cmd != demonref.CmdNoJob {
		return core.V("task|delivered-twice-or-left", "second check-in is not the no-job reply (%d tasks)", len(t2))
	}
	_ = binary.LittleEndian
	return nil
}

func allZero(b []byte) bool {
	for _, x := range b {
		if x != 0 {
			return false
		}
	}
	return true
}

func classify(c Case) core.Class {
	var cl core.Class
	hasStr := false
	ks := []string{}
	for _, op := range c.Ops {
		if len(op.S) > 0 || len(op.B) > 0 {
			hasStr = true
		}
		cl.Labels = append(cl.Labels, "kind:"+op.Kind)
		if isHuge(op) {
			cl.Labels = append(cl.Labels, "binary-at-the-30MiB-limit(several check-ins)")
		}
		if isMid(op) {
			cl.Labels = append(cl.Labels, "binary-1-5MiB")
			if ivEdge(c.IV) != "" {
				cl.Labels = append(cl.Labels, "binary-1-5MiB+iv-about-to-carry")
			}
		}
		ks = append(ks, op.Kind)
	}
	if allZero(c.Key) {
		cl.Labels = append(cl.Labels, "zero-key")
	}
	if e := ivEdge(c.IV); e != "" {
		cl.Labels = append(cl.Labels, e)
	}
	if c.Pivot > 0 {
		cl.Labels = append(cl.Labels, fmt.Sprintf("target-behind-%d-smb-hop(s)", c.Pivot))
	}
	if c.AgentID >= 0x80000000 {
		cl.Labels = append(cl.Labels, "id>=2^31")
	}
	ids := map[string]bool{}
	for _, op := range c.Ops {
		v, _ := strconv.ParseUint(op.TaskID, 16, 32)
		k := fmt.Sprint(v)
		if ids[k] {
			cl.Labels = append(cl.Labels, "task-id-reused-while-outstanding")
			break
		}
		ids[k] = true
	}
	cl.Labels = append(cl.Labels, fmt.Sprintf("batch:%d", len(c.Ops)))
	cl.NonTrivial = hasStr || len(c.Ops) >= 2
	last := ks[len(ks)-1]
	first := ks[0]
	_ = last
	nb := len(c.Ops)
	if nb > 3 {
		nb = 3
	}
	cl.Fingerprint = fmt.Sprintf("%s|n=%d|zk=%v", first, nb, allZero(c.Key))
	return cl
}

func TestC02(t *testing.T) {
	core.Run(t, core.Spec[Case]{
		Property: "C02", Sub: "a",
		Rule: "1-6 operator Session/Input packages (60 command/sub-command shapes, parameters from classes empty/ascii/NUL-terminated/BMP/astral/70000 chars/path/marker, boundary ints, the host's time zone set to +05:30, 8-hex task ids incl. >=2^31, one op in eight reusing the id of an earlier, still outstanding task) for one registered agent (random or all-zero key; one case in five: an agent behind 1-2 SMB hops with ids from the whole range, whose tasks are followed down the chain layer by layer before they are judged) -> real DispatchEvent/TaskPrepare/AddJobToQueue -> check-in through the real listener engine (binaries of about the 30 MiB pipe limit, 1 in 60, are collected over successive check-ins until the no-job reply) -> reply decoded by the Demon-side reference reader with the dispatcher loop condition read from Command.c. Oracle: per task the command id, request id == hex TaskID, every argument as the C handler's ParserGet* sequence reads it, mem-file chunks precede the command and share its id, no parameter marker in clear. Non-trivial: >=1 string/bytes argument or batch >=2; distinct = (first command kind, batch size bucket 1/2/3+, zero-key)",
		Gen:   gen, Check: check, Classify: classify,
		Assumptions: []string{
			"demonref is a manual transcription of payloads/Demon/src/core/{Parser,Command,Package}.c",
			"parameters whose C type is narrower than the operator syntax (32-bit ids/handles/offsets) are generated inside the C type's range",
			"`dir` paths avoid the operator-side conveniences (trailing \\ or : -> *, bare UNC share) which rewrite the parameter on purpose",
			"';'-joined operator arguments do not contain ';' (the client base64-encodes fields that may)",
		},
	})
}

package c02

// Pivot targets: the agent the operator tasks sits behind 1-2 SMB hops.  The bytes are
// handed out at the first hop's check-in, wrapped once per hop; each hop decrypts its
// layer with its own key, finds the next hop's id and a pipe frame, and passes the frame
// on (Command.c CommandPivot SMB_COMMAND, TransportSmb.c SmbRecv).  What the target reads
// in the end must be the task as issued.

import (
	"encoding/binary"
	"fmt"

	"verifharness/internal/agx"
	"verifharness/internal/core"
	"verifharness/internal/demonref"
)

func hopKey(i int) ([]byte, []byte) {
	k, iv := make([]byte, 32), make([]byte, 16)
	for j := range k {
		k[j] = byte(i*53+j*5) | 1
	}
	for j := range iv {
		iv[j] = byte(i*17 + j*3)
	}
	return k, iv
}

// wrapUp wraps a package of chain[i] for delivery by its ancestors (Pivot.c PivotPush).
func wrapUp(chain []agx.Sess, i int, pkg []byte) []byte {
	for j := i - 1; j >= 0; j-- {
		body := (&demonref.Enc{}).Int32(demonref.PivotSmbCmd).Bytes(pkg).B
		pkg = demonref.Batch(chain[j].ID, 0, []demonref.Sub{{Cmd: demonref.CmdPivot, ReqID: 0, Body: body}}, chain[j].Key, chain[j].IV)
	}
	return pkg
}

// connectChild registers chain[i] through its parent's SMB_CONNECT callback.
func connectChild(w *agx.World, chain []agx.Sess, i int) *core.Violation {
	child, p := chain[i], chain[i-1]
	init := child.Meta.InitPackage(child.ID, child.Key, child.IV)
	body := (&demonref.Enc{}).Int32(demonref.PivotSmbCon).Int32(1).Bytes(init).B
	pkg := demonref.Batch(p.ID, 0, []demonref.Sub{{Cmd: demonref.CmdPivot, ReqID: 0, Body: body}}, p.Key, p.IV)
	if code, _ := w.Post(wrapUp(chain, i-1, pkg)); code != 200 {
		return core.V("setup|smb-connect-status", "SMB_CONNECT of %08x under %08x answered %d", child.ID, p.ID, code)
	}
	a := w.Agent(child.ID)
	if a == nil || a.Pivots.Parent == nil || a.Pivots.Parent.NameID != p.NameID() {
		return core.V("setup|smb-connect", "child %08x was not linked under %08x", child.ID, p.ID)
	}
	return nil
}

// unwrapTasks follows every task of the first hop's reply down the chain.
func unwrapTasks(chain []agx.Sess, top []demonref.Task) ([]demonref.Task, *core.Violation) {
	depth := len(chain) - 1
	var out []demonref.Task
	for ti, t := range top {
		cur := t
		for hop := 0; hop < depth; hop++ {
			next := chain[hop+1]
			tag := fmt.Sprintf("hop%d|depth=%d", hop, depth)
			if cur.Cmd != demonref.CmdPivot {
				return nil, core.V("pivot|not-a-pivot-task|"+tag, "task %d at hop %d is command %d, expected COMMAND_PIVOT", ti, hop, cur.Cmd)
			}
			d := &demonref.Dec{B: cur.Body}
			sub, did, frame := d.Int32(), d.Int32(), d.Bytes()
			if d.Err || sub != demonref.PivotSmbCmd {
				return nil, core.V("pivot|layer-malformed|"+tag, "hop %d: decrypting the layer with the hop's key gives sub-command %d (want 12), err=%v", hop, sub, d.Err)
			}
			if did != next.ID {
				return nil, core.V("pivot|next-hop-id|"+tag, "hop %d: the layer names demon %08x, its link towards the target is %08x", hop, did, next.ID)
			}
			if len(frame) < 8 || binary.LittleEndian.Uint32(frame[0:4]) != next.ID || int(binary.LittleEndian.Uint32(frame[4:8])) != len(frame)-8 {
				return nil, core.V("pivot|frame|"+tag, "hop %d: the pipe frame for %08x is malformed (%d bytes)", hop, next.ID, len(frame))
			}
			inner, ok := demonref.ReadTasks(frame[8:], next.Key, next.IV, 0, "")
			if !ok || len(inner) != 1 {
				return nil, core.V("pivot|inner-framing|"+tag, "hop %d: the payload for %08x is not exactly one task under its key (%d tasks, clean=%v)", hop, next.ID, len(inner), ok)
			}
			cur = inner[0]
		}
		out = append(out, cur)
	}
	return out, nil
}

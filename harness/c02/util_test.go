package c02

import "unicode"

func rt(lo, hi rune) *unicode.RangeTable {
	return &unicode.RangeTable{R16: []unicode.Range16{{Lo: uint16(lo), Hi: uint16(hi), Stride: 1}}}
}
func rt32(lo, hi rune) *unicode.RangeTable {
	return &unicode.RangeTable{R32: []unicode.Range32{{Lo: uint32(lo), Hi: uint32(hi), Stride: 1}}}
}

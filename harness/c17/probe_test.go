package c17

import (
	"encoding/json"
	"fmt"
	"os"
	"testing"
)

// temporary: greedy minimiser for a replay file
func TestProbeMin(t *testing.T) {
	p := os.Getenv("PROBE")
	if p == "" {
		t.Skip()
	}
	b, _ := os.ReadFile(p)
	var vf struct {
		Sig  string `json:"sig"`
		Case Case   `json:"case"`
	}
	json.Unmarshal(b, &vf)
	c := vf.Case
	c.Src = c.input()
	c.Deep = nil
	v, _ := checkCase(c)
	if v == nil {
		t.Fatalf("does not reproduce")
	}
	sig := v.Sig
	for chunk := len(c.Src) / 2; chunk >= 1; {
		changed := false
		for i := 0; i+chunk <= len(c.Src); {
			cand := c
			cand.Src = append(append([]byte(nil), c.Src[:i]...), c.Src[i+chunk:]...)
			if v2, _ := checkCase(cand); v2 != nil && v2.Sig == sig {
				c = cand
				changed = true
			} else {
				i++
			}
		}
		if !changed || chunk > 1 {
			chunk /= 2
		}
		if !changed && chunk == 0 {
			break
		}
	}
	v, _ = checkCase(c)
	fmt.Printf("MIN entry=%s src=%q\nsig=%s\nmsg=%s\n", c.Entry, c.Src, v.Sig, v.Msg)
}

package c17

// "White space zoo" dimension of the generators of sub-check (a).
//
// The grammar generator writes a blank or a tab (or nothing) wherever the grammar allows
// blanks. A person's editor, a copy from a web page or a word processor puts other things
// there: form feed, vertical tab, a lone CR, NEL, no-break space, OGHAM SPACE MARK, EM SPACE,
// LINE / PARAGRAPH SEPARATOR, IDEOGRAPHIC SPACE, a BOM in the middle of the file, ZERO WIDTH
// SPACE. The scanner (scan_tokens.rl) skips exactly ' ' and 0x09 in its main machine and
// nothing in the template machines; several later stages look at "white space" with other
// definitions (bytes.TrimSpace for the heredoc closing line, unicode.IsSpace for flush
// heredoc indentation and ~ strip markers). Most zoo characters are therefore NOT accepted
// as blanks (they become Invalid tokens / diagnostics) - nothing here expects them to be; the
// oracle is the one of sub-check (a), unchanged: tree and/or diagnostics, no panic, ranges
// inside the input, tokens tile the input with gaps of spaces and tabs only.
//
// Three ways in:
//   - gen.zoo (a percentage): every blank-tolerating position of the grammar generator - around
//     `=`, after `{`, before `}`, line starts and line ends, before and after the heredoc OPENING
//     marker, the heredoc body's indentation and line ends, before and after the heredoc CLOSING
//     marker (<<ID and <<-ID), inside `${ }` and `%{ }`, between call arguments, inside
//     brackets, around operators, between traversal steps, between JSON tokens - draws, with
//     that probability, a zoo run (one character, a short mixed run or a long run) instead of
//     blanks. Class gen:wszoo focuses one construct per case with zoo 15..100 %; the plain
//     grammar class switches it on at a low rate for 15 % of its cases; the directive family
//     does it for the blanks inside its %{ } sequences and around its heredoc markers.
//   - mutation "wszoo": on any base (corpus, grammar, directive) 1-3 zoo runs are inserted at
//     positions picked by category (line end, line start, around `=`, braces, template
//     sequence delimiters, brackets/commas, an existing blank run, heredoc markers found in the text).
//   - a handful of hand-written inputs in the seed corpus of the native fuzz targets.
//
// Labels: ws:zoo (>= 1 character other than space/tab was placed), wsat:<position>,
// wsch:<character>.

import (
	"bytes"
	"sort"
	"strings"
	"sync"
	"unicode/utf8"

	"pgregory.net/rapid"

	"verifharness/internal/core"
)

type zooChar struct {
	s    string
	name string
}

var zoo = []zooChar{
	{" ", "SP"}, {"\t", "TAB"}, {"\f", "FF"}, {"\v", "VT"}, {"\r", "CR"},
	{"\u0085", "NEL"}, {"\u00a0", "NBSP"}, {"\u1680", "OGHAM"}, {"\u2003", "EMSP"},
	{"\u2028", "LS"}, {"\u2029", "PS"}, {"\u3000", "IDSP"}, {"\ufeff", "ZWNBSP"}, {"\u200b", "ZWSP"},
}

// zooRun draws a run of zoo characters: a single one (half of the time), a short run
// (mixed or one character repeated) or a long run. names lists the characters used other
// than space and tab.
func zooRun(t *rapid.T) (string, []string) {
	n := 1
	switch k := uni(t, 10); {
	case k < 5:
		n = 1
	case k < 9:
		n = 2 + uni(t, 3)
	default:
		n = 5 + uni(t, 36)
	}
	same := n > 1 && uni(t, 3) == 0
	var sb strings.Builder
	var names []string
	first := zoo[uni(t, len(zoo))]
	for i := 0; i < n; i++ {
		z := first
		if i > 0 && !same {
			z = zoo[uni(t, len(zoo))]
		}
		sb.WriteString(z.s)
		if z.name != "SP" && z.name != "TAB" {
			names = append(names, z.name)
		}
	}
	return sb.String(), names
}

// zooNote collects the labels of one generated case.
type zooNote struct {
	at map[string]bool
	ch map[string]bool
}

func (z *zooNote) add(slot string, names []string) {
	if len(names) == 0 {
		return
	}
	if z.at == nil {
		z.at, z.ch = map[string]bool{}, map[string]bool{}
	}
	z.at[slot] = true
	for _, n := range names {
		z.ch[n] = true
	}
}

func (z *zooNote) labels() []string {
	if len(z.at) == 0 {
		return nil
	}
	out := []string{"ws:zoo"}
	var a, c []string
	for k := range z.at {
		a = append(a, "wsat:"+k)
	}
	for k := range z.ch {
		c = append(c, "wsch:"+k)
	}
	sort.Strings(a)
	sort.Strings(c)
	return append(append(out, a...), c...)
}

func isZooLabel(m string) bool {
	return m == "ws:zoo" || strings.HasPrefix(m, "wsat:") || strings.HasPrefix(m, "wsch:") || strings.HasPrefix(m, "focus:")
}

// ---------------------------------------------------------------------------------
// hooks of the grammar generator

// zrun writes a zoo run at a position of the given kind.
func (g *gen) zrun(slot string) {
	s, names := zooRun(g.t)
	g.w(s)
	g.note.add(slot, names)
}

// zws: a position where the plain generator writes nothing; in zoo mode a zoo run with
// probability g.zoo %.
func (g *gen) zws(slot string) {
	if g.zoo > 0 && g.coin(g.zoo) {
		g.zrun(slot)
	}
}

// wsAt: a position where the plain generator writes optional blanks (ws).
func (g *gen) wsAt(slot string) {
	if g.zoo > 0 && g.coin(g.zoo) {
		g.zrun(slot)
		return
	}
	g.ws()
}

// sepAt: a position where the plain generator writes the single blank that separates two
// words (`if x`, `for k`): in zoo mode the blank stays, is followed by, or is replaced by a zoo run.
func (g *gen) sepAt(slot string) {
	if g.zoo > 0 && g.coin(g.zoo) {
		switch uni(g.t, 3) {
		case 0:
			g.w(" ")
			g.zrun(slot)
		case 1:
			g.zrun(slot)
			g.w(" ")
		default:
			g.zrun(slot)
		}
		return
	}
	g.w(" ")
}

// wsnlAt: wsnl with a label.
func (g *gen) wsnlAt(slot string) {
	if g.zoo > 0 && g.coin(g.zoo) {
		g.zrun(slot)
		if g.coin(20) {
			g.w("\n")
			g.zws(slot)
		}
		return
	}
	g.wsnl()
}

// interp writes one ${ ... } sequence.
func (g *gen) interp(d int) {
	g.w(g.pick([]string{"${", "${", "${~", "${ "}))
	g.zws("interp")
	if d > 0 {
		g.expr(d - 1)
	} else {
		g.leaf()
	}
	g.zws("interp")
	g.w(g.pick([]string{"}", "}", "~}", " }", "", ":}"}))
}

// dirOpen / dirClose: the delimiters of a %{ } sequence with the keyword; plain is what the
// plain generator picks from.
func (g *gen) dirOpen(kw string, plain []string) {
	if g.zoo == 0 {
		g.w(g.pick(plain))
		return
	}
	g.w(g.pick([]string{"%{", "%{", "%{~"}))
	g.wsAt("directive")
	g.w(kw)
	g.sepAt("directive")
}

func (g *gen) dirClose(plain []string) {
	if g.zoo == 0 {
		g.w(g.pick(plain))
		return
	}
	g.wsAt("directive")
	g.w(g.pick([]string{"}", "}", "~}"}))
}

// dirBare: a directive without operand (else / endif / endfor).
func (g *gen) dirBare(kw string, plain []string) {
	if g.zoo == 0 {
		g.w(g.pick(plain))
		return
	}
	g.w(g.pick([]string{"%{", "%{", "%{~"}))
	g.wsAt("directive")
	g.w(kw)
	g.wsAt("directive")
	g.w(g.pick([]string{"}", "}", "~}", ""}))
}

// ---------------------------------------------------------------------------------
// class gen:wszoo - one construct in focus, every blank-tolerating position of it in play

var zooFocus = []string{"any", "attr", "block", "block1", "heredoc", "heredoc-flush", "heredoc-in-block", "interp", "directive", "call", "object", "tuple", "for", "cond", "traversal"}

var zooPcts = []int{15, 30, 50, 80, 100}

func (g *gen) focusExpr(focus string, d int) {
	switch focus {
	case "heredoc", "heredoc-flush", "heredoc-in-block":
		g.heredocOf(d, focus == "heredoc-flush" || (focus == "heredoc-in-block" && g.coin(50)))
	case "interp":
		g.w(`"`)
		g.w(g.pick(quotedLits))
		g.interp(d)
		g.w(g.pick(quotedLits))
		g.w(`"`)
	case "directive":
		if g.coin(50) {
			g.w(`"`)
			g.directive(d, uni(g.t, 2) == 0, quotedLits)
			g.w(`"`)
		} else {
			g.quoted(d)
		}
	case "call":
		g.call(d)
	case "object":
		g.object(d)
	case "tuple":
		g.tuple(d)
	case "for":
		g.forExpr(d)
	case "cond":
		g.leaf()
		g.wsAt("op")
		g.w("?")
		g.wsAt("op")
		g.expr(d - 1)
		g.wsAt("op")
		g.w(":")
		g.wsAt("op")
		g.leaf()
	case "traversal":
		g.traversalExpr(d)
	default:
		g.expr(d)
	}
}

// zooAttr writes one attribute line whose value is the focus construct.
func (g *gen) zooAttr(focus string, d int, indent string) {
	g.w(indent)
	g.zws("bol")
	g.ident()
	g.wsAt("eq")
	g.w("=")
	g.wsAt("eq")
	g.focusExpr(focus, d)
	g.zws("eol")
	g.w(g.pick([]string{"\n", "\n", "\n", "\r\n", " # c\n", ""}))
}

func genZoo(t *rapid.T, kind string) ([]byte, []string) {
	if kind == "json" {
		b, l := genGrammarL(t, kind, zooPcts[uni(t, len(zooPcts))])
		return b, append([]string{"focus:json"}, l...)
	}
	g := &gen{t: t, budget: 3 + uni(t, 30), zoo: zooPcts[uni(t, len(zooPcts))]}
	focus := zooFocus[uni(t, len(zooFocus))]
	d := 1 + uni(t, 3)
	switch kind {
	case "config":
		switch focus {
		case "any":
			g.body(d, "")
		case "block", "heredoc-in-block":
			f := focus
			if f == "block" {
				f = "any"
			}
			g.zws("bol")
			g.ident()
			if g.coin(50) {
				g.sepAt("label")
				g.w(`"l"`)
			}
			g.wsAt("obrace")
			g.w("{")
			g.zws("obrace")
			g.w("\n")
			n := g.n(0, 2)
			for i := 0; i < n; i++ {
				g.zooAttr(f, d-1, "  ")
			}
			g.zws("cbrace")
			g.w("}")
			g.zws("eol")
			g.w(g.pick([]string{"\n", "\n", "\r\n", ""}))
		case "block1":
			g.zws("bol")
			g.ident()
			g.wsAt("obrace")
			g.w("{")
			g.wsAt("obrace")
			if g.coin(80) {
				g.ident()
				g.wsAt("eq")
				g.w("=")
				g.wsAt("eq")
				g.expr(d - 1)
			}
			g.wsAt("cbrace")
			g.w("}")
			g.zws("eol")
			g.w(g.pick([]string{"\n", "\n", "\r\n", ""}))
		default:
			n := g.n(1, 3)
			for i := 0; i < n; i++ {
				g.zooAttr(focus, d, "")
			}
		}
	case "expr":
		g.zws("bol")
		g.focusExpr(focus, d)
		g.zws("eol")
	case "template":
		switch focus {
		case "interp":
			g.w(g.pick(rawLits))
			g.interp(d)
			g.w(g.pick(rawLits))
		case "directive":
			g.w(g.pick(rawLits))
			g.directive(d, uni(t, 2) == 0, rawLits)
			g.w(g.pick(rawLits))
		case "any", "attr", "block", "block1":
			g.tmplParts(d, rawLits)
		default:
			g.w(g.pick(rawLits))
			g.w("${")
			g.zws("interp")
			g.focusExpr(focus, d)
			g.zws("interp")
			g.w("}")
			g.w(g.pick(rawLits))
		}
	case "traversal":
		g.zws("bol")
		g.traversal()
		g.zws("eol")
	}
	return append([]byte(nil), g.sb.Bytes()...), append([]string{"focus:" + focus}, g.labels()...)
}

// ---------------------------------------------------------------------------------
// mutation "wszoo"

func isIdentByte(c byte) bool {
	return c == '_' || c == '-' || c >= 0x80 || (c >= '0' && c <= '9') || (c >= 'a' && c <= 'z') || (c >= 'A' && c <= 'Z')
}

// zooSites lists, per category, the byte offsets of b where a zoo run may be inserted.
func zooSites(b []byte) map[string][]int {
	const capPerCat = 4096
	sites := map[string][]int{}
	add := func(cat string, p int) {
		if len(sites[cat]) < capPerCat {
			sites[cat] = append(sites[cat], p)
		}
	}
	markers := map[string]bool{}
	for i := 0; i < len(b); i++ {
		c := b[i]
		switch c {
		case '\n':
			e := i
			if e > 0 && b[e-1] == '\r' {
				e--
			}
			add("eol", e)
			add("bol", i+1)
		case '=':
			add("eq", i)
			add("eq", i+1)
		case '{':
			if i > 0 && (b[i-1] == '$' || b[i-1] == '%') {
				add("tmplseq", i+1)
			} else {
				add("brace", i)
				add("brace", i+1)
			}
		case '}':
			add("brace", i)
			add("tmplseq", i)
		case '(', '[', ',', ':', '?', '.':
			add("bracket", i)
			add("bracket", i+1)
		case ')', ']':
			add("bracket", i)
		case ' ', '\t':
			if i == 0 || (b[i-1] != ' ' && b[i-1] != '\t') {
				add("blank", i)
			}
		case '<':
			if i+2 < len(b) && b[i+1] == '<' && (i == 0 || b[i-1] != '<') {
				add("hd-open-pre", i)
				j := i + 2
				if j < len(b) && b[j] == '-' {
					j++
				}
				k := j
				for k < len(b) && isIdentByte(b[k]) {
					k++
				}
				if k > j {
					add("hd-open-post", k)
					if len(markers) < 16 {
						markers[string(b[j:k])] = true
					}
				}
			}
		}
	}
	if len(markers) > 0 {
		// lines that consist of a marker (with blanks around it): candidates for closing lines
		ls := 0
		for ls <= len(b) {
			le := bytes.IndexByte(b[ls:], '\n')
			if le < 0 {
				le = len(b)
			} else {
				le += ls
			}
			line := b[ls:le]
			tr := bytes.TrimSpace(line)
			if len(tr) > 0 && len(tr) <= 64 && markers[string(tr)] {
				off := ls + bytes.Index(line, tr)
				add("hd-close-pre", off)
				add("hd-close-post", off+len(tr))
			}
			ls = le + 1
		}
	}
	return sites
}

var zooSiteCats = []string{"eol", "bol", "eq", "brace", "tmplseq", "bracket", "blank", "hd-open-pre", "hd-open-post", "hd-close-pre", "hd-close-post"}

// mutateZoo inserts 1-3 zoo runs at blank-tolerating positions of b (or replaces the blank
// run found there) and returns the labels of what it did.
func mutateZoo(t *rapid.T, b []byte) ([]byte, []string) {
	var note zooNote
	k := 1 + uni(t, 3)
	out := b
	for i := 0; i < k; i++ {
		sites := zooSites(out)
		var cats []string
		for _, c := range zooSiteCats {
			if len(sites[c]) > 0 {
				cats = append(cats, c)
			}
		}
		p, cat := 0, "any"
		if len(cats) > 0 && uni(t, 8) != 0 {
			cat = cats[uni(t, len(cats))]
			ps := sites[cat]
			p = ps[uni(t, len(ps))]
		} else {
			p = pos(t, len(out))
			// (never inside a UTF-8 sequence: that is what badutf8 / flip are for)
			for p > 0 && p < len(out) && !utf8.RuneStart(out[p]) {
				p--
			}
		}
		run, names := zooRun(t)
		q := p
		if uni(t, 3) == 0 { // replace the blanks that are there
			for q < len(out) && (out[q] == ' ' || out[q] == '\t') {
				q++
			}
		}
		nb := make([]byte, 0, len(out)+len(run))
		nb = append(nb, out[:p]...)
		nb = append(nb, run...)
		nb = append(nb, out[q:]...)
		out = nb
		note.add(cat, names)
	}
	return out, note.labels()
}

// ---------------------------------------------------------------------------------
// hand-written inputs for the seed corpus of the native fuzz targets (corpusgen_test.go)

var zooHand = map[string][]string{
	"config": {
		"a\f=\v1\u00a0\n",
		"a = <<EOT\nhello\nEOT\f\n",
		"a = <<EOT\u00a0\nhello\n\u2003EOT\u2028\nb = 1\n",
		"a = <<-EOT\n    x\n  \u3000y\n \v EOT\u0085\r\n",
		"a = <<-E\r\n\t\u1680x ${\u00a0b\f}\n\tE \t\u2029\nc = 2\n",
		"blk\u00a0\"l\" {\f\n  a = f(\u20031,\u200b2\ufeff)\v\n\u3000}\u2028\n",
		"a = \"${\u00a0b\u2003}%{\fif c\v}x%{\u0085endif\u1680}\"\r",
		"a = <<EOT\nEOT\u200b\nEOT\ufeff\nEOT\n",
	},
	"expr": {
		"f(\f1,\v2\u00a0)", "<<E\nx\nE\u2003\n", "<<-E\n \u00a0x\n \fE\v\n", "[\u20281\u2029,\u30002]", "{\u1680a\u0085=\ufeff1\u200b}",
		"a\u00a0?\fb\v:\rc", "\"${\fa\v}\"", "a\u2003.\u2003b[\f0\f]",
	},
	"template": {
		"x${\fa\v}y", "%{\u00a0if a\u2003}b%{\u2028else\u2029}c%{\u3000endif\ufeff}", "${<<E\nx\nE\f\n}", "%{~\ffor\vk\u0085,\u00a0v\u1680in\u2003m\u200b~}${k}%{\rendfor\r}",
		"a \f\n\v b\u0085\n", "${~\u00a0a\u00a0~}",
	},
	"traversal": {"a\f.b", "a\u00a0[0]", "a.b\u2003", "\va", "a[\u20280\u2029]"},
	"json": {
		"{\f\"a\"\v:\u00a01}", "{\"a\": \"${\fb\v}\",\u2003\"b\": [1,\u20282]}", "\ufeff\ufeff{\"a\":\u30001}", "[\u00851\u200b]", "{\"a\": \"%{\u00a0if true\u2003}x%{\fendif\v}\"}",
		"{\"a\": \"<<E\\nx\\nE\\f\\n\"}",
	},
}

// ---------------------------------------------------------------------------------
// zoo statistics for the evidence file (the driver keeps only the 60 most frequent labels)

var (
	zooStatMu sync.Mutex
	zooStat   = map[string]int{}
	zooStatN  int
)

func zooCount(labels []string) {
	any := false
	for _, l := range labels {
		if isZooLabel(l) || l == "mut:wszoo" || l == "gen:wszoo" {
			any = true
			break
		}
	}
	if !any {
		return
	}
	zooStatMu.Lock()
	for _, l := range labels {
		if isZooLabel(l) || l == "mut:wszoo" || l == "gen:wszoo" || l == "tok:OHeredoc" || strings.HasPrefix(l, "errors:") {
			zooStat[l]++
		}
	}
	zooStatN++
	pub := zooStatN%64 == 0
	var cp map[string]int
	if pub {
		cp = make(map[string]int, len(zooStat))
		for k, v := range zooStat {
			cp[k] = v
		}
	}
	zooStatMu.Unlock()
	if pub {
		core.SetExtra("a_wszoo_label_counts_last_shard", cp)
	}
}

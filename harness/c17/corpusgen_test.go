package c17

import (
	"fmt"
	"os"
	"path/filepath"
	"testing"

	"pgregory.net/rapid"
)

// TestC17WriteCorpus regenerates the seed corpus of the native fuzz targets:
//
//	C17_WRITE_CORPUS=/verif/corpus/C17 go test ./c17 -run TestC17WriteCorpus
//
// (grammar-generated samples per syntax plus a few hand-written ones covering the BOM,
// heredocs, directives, the fork's \xHH escape and all comment styles, and the white
// space zoo: wszoo-hand-*, wszoo-gen-*, and access chains over collection sources:
// splat-hand-*, splat-gen-*).
func TestC17WriteCorpus(t *testing.T) {
	dir := os.Getenv("C17_WRITE_CORPUS")
	if dir == "" {
		t.Skip("set C17_WRITE_CORPUS to the target directory")
	}
	hand := map[string][]string{
		"config": {
			"\xef\xbb\xbfa = 1\n",
			"a = <<EOT\n  x ${b} %{ if c }y%{ else }z%{ endif }\nEOT\nb \"l\" l2 {\n  c = [for k, v in d : k => v... if v]\n}\n",
			"# h\n// s\n/* b */ a = \"\\x41\\u00e9\\U0001F600$${x}%%{y}\" /* t */\r\nblk { a = b.*.c[*].d }\n",
			"a = <<-E\n    x\n  ${1}\n  E\n",
			"a = f(b..., )\nc = d ? e : g\nh = !i && -j >= 2 || k != l % 3\n",
		},
		"expr":      {"[for x in y : x if x]", "{for k, v in m : k => v...}", "a.b[0][\"k\"].*.c", "a[*].b.0", "\"${a}\"", "<<E\n${a}\nE\n", "f(1, [2], {a = 3})", "1e10 + 0x1F"},
		"template":  {"x${a}y", "%{ for k, v in m ~}${k}=${v}%{ endfor ~}", "%{ if a }b%{ else }c%{ endif }", "$${a} %%{b} $ %", "\xef\xbb\xbf${\"${\"n\"}\"}", "${~ a ~}", "a\r\nb\n"},
		"traversal": {"a.b[0][\"k\"]", "a", "a.b.c.d[1][2]"},
		"json":      {`{"a": "${b}", "blk": [{"a": 1}, {"b": null}], "lbl": {"x": {"a": "y"}}, "//": "c"}`, `[{"a": [1, 2.5e3, true, "%{ if true }x%{ endif }"]}]`, `{"a": "😀\né"}`, `{"lbl2": {"p": {"q": {"a": "${f(1)}"}}}}`},
	}
	for _, kind := range grammarKinds {
		d := filepath.Join(dir, kind)
		if err := os.MkdirAll(d, 0o755); err != nil {
			t.Fatal(err)
		}
		k := kind
		g := rapid.Custom(func(rt *rapid.T) []byte { return genGrammar(rt, k) })
		n := 0
		for i := 0; n < 40 && i < 400; i++ {
			b := g.Example(i)
			if len(b) < 4 {
				continue
			}
			os.WriteFile(filepath.Join(d, fmt.Sprintf("gen-%02d", n)), b, 0o644)
			n++
		}
		// the template-directive family: samples whose container suits this syntax
		dg := rapid.Custom(func(rt *rapid.T) Case { return genDirectiveCase(rt) })
		nd := 0
		for i := 0; nd < 60 && i < 3000; i++ {
			dc := dg.Example(i)
			if kindFor(dc.Entry) != k || len(dc.Src) < 4 {
				continue
			}
			os.WriteFile(filepath.Join(d, fmt.Sprintf("dir-%02d", nd)), dc.Src, 0o644)
			nd++
		}
		if k == "template" {
			for i, s := range dirSnippets {
				os.WriteFile(filepath.Join(d, fmt.Sprintf("dirsnip-%02d", i)), []byte("a"+s+"b"), 0o644)
			}
		}
		for i, s := range hand[kind] {
			os.WriteFile(filepath.Join(d, fmt.Sprintf("hand-%02d", i)), []byte(s), 0o644)
		}
		// the white space zoo (wszoo_test.go): hand-written inputs with form feed, vertical tab,
		// lone CR, NEL, NBSP, U+1680, U+2003, U+2028/9, U+3000, U+FEFF, U+200B at blank-tolerating
		// positions (around `=`, braces, heredoc opening and closing markers, inside ${ } / %{ },
		// between arguments), plus generated samples of the gen:wszoo class
		for i, s := range zooHand[kind] {
			os.WriteFile(filepath.Join(d, fmt.Sprintf("wszoo-hand-%02d", i)), []byte(s), 0o644)
		}
		// access chains over collection-valued sources (splat_test.go): nested splats over
		// conditionals that unify to lists, rows with empty and non-empty inner collections, for
		// expressions, typed variables of collCtx; hand-written plus generated samples of gen:splat
		for i, s := range splatHand[kind] {
			os.WriteFile(filepath.Join(d, fmt.Sprintf("splat-hand-%02d", i)), []byte(s), 0o644)
		}
		sg := rapid.Custom(func(rt *rapid.T) []byte { b, _ := genSplat(rt, k); return b })
		ns := 0
		for i := 0; ns < 30 && i < 2000; i++ {
			b := sg.Example(i)
			if len(b) < 6 || len(b) > 300 {
				continue
			}
			os.WriteFile(filepath.Join(d, fmt.Sprintf("splat-gen-%02d", ns)), b, 0o644)
			ns++
		}
		type zs struct {
			b []byte
			l []string
		}
		zg := rapid.Custom(func(rt *rapid.T) zs { b, l := genZoo(rt, k); return zs{b, l} })
		nz := 0
		for i := 0; nz < 30 && i < 2000; i++ {
			z := zg.Example(i)
			placed := false
			for _, l := range z.l {
				placed = placed || l == "ws:zoo"
			}
			if !placed || len(z.b) < 4 || len(z.b) > 400 {
				continue
			}
			os.WriteFile(filepath.Join(d, fmt.Sprintf("wszoo-gen-%02d", nz)), z.b, 0o644)
			nz++
		}
	}
}

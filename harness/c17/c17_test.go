package c17

// C17 - the yaotl parsers accept any input without crashing and report sane positions.
//
//   (a) random bytes / grammar-generated sources / the repository's corpora, mutated;
//   (b) deep nesting up to depth 5000;
//   (d) nesting depth around the values a hand-written limit takes (1000 .. 16384, thorough
//       100000), each case in a child process with a memory ceiling (limit_test.go).
//
// All feed checkCase (oracle_test.go); (c) is rev_test.go.

import (
	"encoding/json"
	"fmt"
	"os"
	"sort"
	"strings"
	"sync"
	"testing"
	"time"

	"verifharness/internal/core"
)

// timing measurements reported through the evidence file ("extra")
var (
	tmMu     sync.Mutex
	tmMax    = map[string]float64{} // entry -> slowest case in ms
	tmMaxLen = map[string]int{}
	tmTotal  time.Duration
	tmCases  int
	tmPrefix = "a_"
)

func timed(c Case) (*core.Violation, obs) {
	t0 := time.Now()
	v, o := checkCase(c)
	d := time.Since(t0)
	if dir := os.Getenv("C17_SLOWDIR"); dir != "" && d > 300*time.Millisecond {
		b, _ := json.Marshal(c)
		os.WriteFile(fmt.Sprintf("%s/slow-%d-%s.json", dir, d.Milliseconds(), c.Entry), b, 0o644)
	}
	tmMu.Lock()
	tmTotal += d
	tmCases++
	key := c.Entry
	if c.Deep != nil {
		key = c.Entry + "/" + c.Deep.Kind
	}
	ms := float64(d.Microseconds()) / 1000
	if ms > tmMax[key] {
		tmMax[key] = ms
		tmMaxLen[key] = len(c.input())
	}
	pub := tmCases%64 == 0 || tmCases < 4
	tmMu.Unlock()
	if pub {
		// (core writes the statistics inside Run, so the measurements are published as we go)
		publishTimings(tmPrefix)
	}
	return v, o
}

func publishTimings(prefix string) {
	tmMu.Lock()
	defer tmMu.Unlock()
	type kv struct {
		k  string
		ms float64
	}
	var all []kv
	for k, v := range tmMax {
		all = append(all, kv{k, v})
	}
	sort.Slice(all, func(i, j int) bool { return all[i].ms > all[j].ms })
	top := map[string]any{}
	for i, e := range all {
		if i >= 12 {
			break
		}
		top[e.k] = map[string]any{"ms": e.ms, "input_bytes": tmMaxLen[e.k]}
	}
	core.SetExtra(prefix+"slowest_case_ms_by_entry", top)
	if tmCases > 0 {
		core.SetExtra(prefix+"mean_case_us", float64(tmTotal.Microseconds())/float64(tmCases))
	}
	core.SetExtra(prefix+"watchdog_s", watchdog.Seconds())
}

// last observation, so that classify does not have to re-run the parsers
var (
	lastMu  sync.Mutex
	lastKey string
	lastObs obs
)

func caseKey(c Case) string {
	if c.Deep != nil {
		return fmt.Sprintf("%s|deep|%s|%d|%d", c.Entry, c.Deep.Kind, c.Deep.Depth, c.Deep.Close)
	}
	return c.Entry + "|" + string(c.Src)
}

func check(c Case) *core.Violation {
	v, o := timed(c)
	lastMu.Lock()
	lastKey, lastObs = caseKey(c), o
	lastMu.Unlock()
	return v
}

func observed(c Case) obs {
	lastMu.Lock()
	k, o := lastKey, lastObs
	lastMu.Unlock()
	if k == caseKey(c) {
		return o
	}
	_, o = checkCase(c)
	return o
}

func classify(c Case) core.Class {
	o := observed(c)
	var cl core.Class
	mut := "none"
	for _, m := range c.Mut {
		if !isZooLabel(m) && !isSplatLabel(m) { // (labels of the white space zoo / of the access-chain grammar are not mutations)
			mut = m
			break
		}
	}
	cl.Labels = append(cl.Labels, "entry:"+c.Entry, "gen:"+c.Gen, "len:"+lenBucket(len(c.input())))
	for _, m := range c.Mut {
		if strings.HasPrefix(m, "dir:") || strings.HasPrefix(m, "in:") || strings.HasPrefix(m, "nest:") || m == "strip-markers" || m == "after-syntax-error" {
			cl.Labels = append(cl.Labels, m) // classes of the directive family
			continue
		}
		if isZooLabel(m) || isSplatLabel(m) {
			cl.Labels = append(cl.Labels, m) // classes of the white space zoo / of the access-chain grammar
			continue
		}
		cl.Labels = append(cl.Labels, "mut:"+m)
	}
	if mut == "none" {
		cl.Labels = append(cl.Labels, "mut:none")
	}
	if o.hasErr {
		cl.Labels = append(cl.Labels, "errors:yes")
	} else {
		cl.Labels = append(cl.Labels, "errors:no")
	}
	if o.evaluated {
		cl.Labels = append(cl.Labels, "evaluated")
	}
	if o.interesting {
		cl.Labels = append(cl.Labels, "past-lexer")
	}
	for k := range o.kinds {
		switch k {
		case "TokenOHeredoc", "TokenTemplateInterp", "TokenTemplateControl", "TokenComment", "TokenBadUTF8", "TokenInvalid",
			"TokenQuotedNewline", "TokenTemplateSeqEnd", "TokenEllipsis", "TokenFatArrow", "TokenTabs", "TokenStringLit", "TokenQuotedLit":
			cl.Labels = append(cl.Labels, "tok:"+strings.TrimPrefix(k, "Token"))
		}
	}
	if len(c.input()) >= 3 && string(c.input()[:3]) == string(bom) {
		cl.Labels = append(cl.Labels, "leading-bom")
	}
	sort.Strings(cl.Labels)
	zooCount(cl.Labels)
	splatCount(cl.Labels)
	cl.NonTrivial = o.interesting
	he := "ok"
	if o.hasErr {
		he = "err"
	}
	if c.Deep != nil {
		cl.Labels = append(cl.Labels, "deep:"+c.Deep.Kind, "depth:"+depthBucket(c.Deep.Depth))
		bal := "balanced"
		if c.Deep.Close < c.Deep.Depth {
			bal = "unclosed"
		} else if c.Deep.Close > c.Deep.Depth {
			bal = "overclosed"
		}
		cl.Labels = append(cl.Labels, "closing:"+bal)
		cl.Fingerprint = strings.Join([]string{c.Entry, "deep", c.Deep.Kind, depthBucket(c.Deep.Depth), bal, he}, "|")
		return cl
	}
	if c.Gen == "directive" {
		cont, rec := "", "clean"
		for _, m := range c.Mut {
			if strings.HasPrefix(m, "in:") {
				cont = m
			}
			if m == "after-syntax-error" {
				rec = "recovery"
			}
		}
		cl.Fingerprint = strings.Join([]string{c.Entry, c.Gen, mut, cont, rec, he}, "|")
		return cl
	}
	if c.Gen == "splat" {
		// (entry point, splat nesting, position the chain stands in, has-errors)
		level, use := "", ""
		for _, m := range c.Mut {
			if m == "splat:none" || m == "splat:single" || m == "splat:nested" {
				level = m
			}
			if strings.HasPrefix(m, "use:") && use == "" {
				use = m
			}
		}
		cl.Fingerprint = strings.Join([]string{c.Entry, c.Gen, level, use, he}, "|")
		return cl
	}
	if c.Gen == "wszoo" {
		// (entry point, construct in focus, zoo characters placed or not, has-errors)
		focus, placed := "", "blank-only"
		for _, m := range c.Mut {
			if strings.HasPrefix(m, "focus:") {
				focus = m
			}
			if m == "ws:zoo" {
				placed = "zoo"
			}
		}
		cl.Fingerprint = strings.Join([]string{c.Entry, c.Gen, focus, placed, he}, "|")
		return cl
	}
	cl.Fingerprint = strings.Join([]string{c.Entry, c.Gen, mut, lenBucket(len(c.Src)), he}, "|")
	return cl
}

var assumptions = []string{
	"the source is given to every entry point with start position {Line 1, Column 1, Byte 0}, so byte offsets are offsets into the input",
	"ranges of diagnostics produced later, by evaluation/decoding, are not asserted (json/structure.go documents the ones for JSON strings as approximate); only parse/lex diagnostics are",
	"JSON syntax nodes are unexported: their ranges are checked as far as the public hcl API reaches them (JustAttributes, ExprList, ExprMap, MissingItemRange)",
	"hclsyntax.Attributes / hclsyntax.Blocks (grouping nodes with a documented arbitrary range) are transparent for the child-inside-parent check; *AnonSymbolExpr (synthetic splat item placeholder located at the marker) is only required to lie inside the input",
	"termination: a single input is given 30 s (measured normal cost is reported in extra: slowest observed case ~2 s under heavy machine load); a slower one is reported as hang, nothing else is timing dependent",
	"inputs whose cost is high by design are kept out of the watchdog's way: (#\"/*\") * len(input) <= 2^27 (each unterminated block-comment opener makes the generated scanner run to the end of the input and backtrack: 64 KiB of \"/* \" lexes in ~19 s), and evaluation is skipped (parsing and range checks are not) when for/splat nesting exceeds 6 or a number has an exponent of 5+ digits (3^depth iterations / 100 MB strings by the semantics of the language)",
	"the evaluation contexts (fullCtx, collCtx) hold strings, numbers, bools, lists, maps, sets, objects, tuples, typed empty collections, lists of lists with empty / unknown / null rows, null, unknown and dynamic values and cty stdlib functions (string and collection functions) plus try/can; no marked values (gocty, used by gohcl, does not support marks; Havoc never marks values)",
	"nesting produced by the repeat mutation in (a) is capped at the depth bound of (b), 5000 (the native parser exhausts the 1 GB goroutine stack somewhere between 50 000 and 200 000 nested parentheses, the JSON parser between 100 000 and 1 000 000 brackets: beyond the bound the property names)",
}

func TestC17a(t *testing.T) {
	tmPrefix = "a_"
	core.Run(t, core.Spec[Case]{
		Property: "C17", Sub: "a",
		Rule: "inputs: random bytes (biased to scanner-relevant characters), grammar-generated native config/expression/template/traversal/JSON text, and the repo's own corpora (hclsyntax/fuzz, hclwrite/fuzz, json/fuzz, specsuite, profiles/*.yaotl), plus a template-directive family (well-formed if/else/endif/for/in/endfor directives and their near-misses: keyword followed by keyword/identifier such as `else if x`, missing/duplicated keyword, keyword in the wrong block, two-variable for with junk at every position, unknown keywords elif/elseif/elsif/end, nests cut at every token boundary, strip markers; nested to depth 3; in quoted strings, heredocs, bare templates and JSON strings; optionally after an earlier syntax error so that the parser is in recovery mode), then 0-3 mutations out of flip/delete/dup/repeat/insert-token/truncate/bad-UTF-8/BOM/CRLF/splice/white-space-zoo; 12% of cases feed one syntax to another entry point; size <= 16 KiB quick / 256 KiB thorough. Entry points: hclsyntax.ParseConfig/ParseExpression/ParseTemplate/ParseTraversalAbs/LexConfig/LexExpression/LexTemplate, json.Parse/ParseExpression, hclwrite.ParseConfig. Oracle: no panic, returns within 30 s, token stream covers the input (ascending, no overlap, Bytes == src[range], gaps only space/tab in main mode and none in template modes, leading BOM, EOF at len; line numbers = 1 + preceding newlines for well-formed UTF-8 input), every node/traversal/diagnostic range inside the input with Start<=End, children inside parents, and with no error diagnostic evaluation (nil/empty/populated context), JustAttributes, hcldec.Decode (derived permissive spec + fixed spec) and gohcl.DecodeBody (remain) do not panic. Non-trivial: the input got past the lexer with >=1 token other than EOF/Newline/Invalid/BadUTF8 (JSON: first non-blank byte can start a value). distinct = (entry point, generator class, first mutation, length bucket, has-errors). White space zoo (gen:wszoo, 9% of cases; also switched on at 5-30% in 15% of the plain grammar cases, in one directive-family case in five, and as mutation wszoo on any base): at every position where the grammar allows or tolerates blanks - around `=`, after `{`, before `}`, line starts and line ends, block labels, before and after the heredoc OPENING marker, heredoc body indentation and line ends, before and after the heredoc CLOSING marker (<<ID and <<-ID, indented or not), inside `${ }` and `%{ }` (also of templates inside JSON strings, raw or escaped), between call arguments, inside brackets/parentheses, around operators and `? :`, in for clauses, between traversal steps, between JSON tokens - a run (one character, 2-4 mixed or repeated, or 5-40) drawn from {space, tab, FF, VT, lone CR, U+0085, U+00A0, U+1680, U+2003, U+2028, U+2029, U+3000, U+FEFF, U+200B} stands instead of the blanks; one construct is in focus per case (attribute, block, one-line block, heredoc, flush heredoc, heredoc in a block, interpolation, directive, call, object, tuple, for, conditional, traversal, JSON) with the zoo at 15-100% of its positions; the mutation picks its 1-3 positions by category (line end, line start, `=`, braces, template sequence delimiters, brackets/commas, an existing blank run, heredoc opening/closing marker lines found in the text). No acceptance is expected of these characters (most yield Invalid tokens and diagnostics): the oracle is unchanged - in particular tokens must tile the input with gaps of exactly what the scanner's main machine skips (space, tab) and no gaps in the template machines. Labels ws:zoo, focus:*, wsat:<position>, wsch:<character> (complete counts in extra a_wszoo_label_counts_last_shard); distinct for gen:wszoo = (entry point, construct in focus, zoo placed, has-errors). Access chains over collection-valued sources (gen:splat, 8% of cases; also alternative 22 of the expression grammar, so it occurs inside every other construct): source = literal tuple/object of 0-4 ROWS drawn from one family (lists of numbers, lists of strings, objects with a list attribute, lists of lists, objects with different attribute sets, mixed types - empty and non-empty rows mixed), empty literals ([], {}, null, [[]], [{}]), a parenthesised conditional whose branches are tuples/objects of equal or different lengths and of the same or different families (different lengths unify to a list/map or fail; predicate literal, variable or unknown), for expressions (tuple form, object form, grouping `...`, with `if`, over any source), calls of collection functions (tolist/toset/tomap/concat/keys/values/flatten/reverse/slice/chunklist/range/zipmap/merge/setunion/coalescelist/distinct/compact/sort/split/element/lookup/try/f), variables of the evaluation context collCtx (list(list(number)) with mixed/all-empty/all-non-empty rows, list(object) with a list attribute, list of lists of lists, sets and maps of lists, lists of maps/sets, cty.ListValEmpty/SetValEmpty/MapValEmpty of several element types, lists with an unknown or null row, list(dynamic), unknown and null collections, tuples, objects), or any parenthesised expression; chain = no splat (1-3 index/attribute/legacy-index steps), one splat, or 2-3 nested splats (`[*]` or `.*`) with 0-1 steps between them and 0-2 after them; use = bare, inside \"${ }\", as for collection, as for condition, as conditional predicate, as call argument, as %{ for } collection, as %{ if } predicate, indexed/splatted again after parentheses, in an equality, as object value; for JSON entry points the chain stands in ${ } inside JSON strings and keys. Evaluation of every input without error diagnostics now also runs with collCtx (in addition to nil, empty and fullCtx; hcldec/gohcl decoding and TraverseAbs likewise); collCtx also binds the short identifiers of the plain grammar (a, b, c, x, y, v, k, foo, ...) to those typed collections. Oracle unchanged (no panic, ranges inside the input; evaluation errors are fine). Labels src:<kind>, srctype:list|set (list/set-typed on HEAD by construction; TestC17SplatSourceClaims checks this bookkeeping), rows:mixed-empty-nonempty|all-empty|all-nonempty|none, rowfam:*, splat:none|single|nested, splat:full, splat:attr, use:*, and the conjunction splat:nested-x-list-x-mixed-rows (complete counts in extra a_splat_label_counts_last_shard); distinct for gen:splat = (entry point, splat nesting, use, has-errors)",
		Gen:   genCase, Check: check, Classify: classify,
		Assumptions: assumptions,
	})
}

func TestC17b(t *testing.T) {
	tmPrefix = "b_"
	core.SetExtra("b_depth_bound", deepMax)
	core.Run(t, core.Spec[Case]{
		Property: "C17", Sub: "b",
		Rule: "deep nesting: one of 30 nesting shapes (parentheses, brackets, object braces, calls, index, splat, unary chains, conditional chains, quoted/heredoc interpolation nests, for expressions, template if/for directives, nested blocks, comment openers, JSON arrays/objects/mixed, templates inside JSON strings) repeated to depth 1..5000 (boundary depths favoured), balanced / unclosed / partly closed / over-closed, through the entry points that accept the shape; same oracle as (a), which includes: no stack exhaustion (would kill the process and be reported as crash) and return within 30 s. Non-trivial: as (a). distinct = (entry point, shape, depth bucket, closing, has-errors). Ten more shapes: the %{ if } / %{ for } directive nests in every template carrier - shortest spelling `%{if a}`, if-else, alternating if-for, strip markers (bare template), quoted string, heredoc, flush heredoc, JSON string; depths beyond 5000, around the values a hand-written limit takes, are sub-check (d)",
		Gen:   genDeep, Check: check, Classify: classify,
		Assumptions: assumptions,
	})
}

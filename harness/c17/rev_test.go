package c17

// C17 (c) - two revisions of one file.
//
// A case parses document A under a file name F and walks it completely (JustAttributes,
// Content, Variables(), Value() with no / an empty / a populated EvalContext, hcldec and
// gohcl decoding, so that evaluation diagnostics with ranges are produced); then it parses a
// second document B - A after an edit that shifts byte offsets while many strings keep their
// line and column - under the SAME file name and walks it the same way. Everything obtained
// from B (and from A) must describe B's (A's) own text:
//
//   - every range (attributes, expressions, the steps of the traversals returned by
//     Variables(), Subject/Context of parse AND evaluation/decoding diagnostics) lies inside
//     the document's bytes with Start <= End;
//   - line, column and byte offset of every such position agree with the text
//     (line = 1 + newlines before the byte, column = 1 + characters since the line start);
//   - children lie inside parents: name and expression inside the attribute, list/map
//     elements inside their collection, variable traversals and the subjects of evaluation
//     diagnostics inside the expression that was asked;
//   - the bytes at a variable traversal's root step spell the root name.
//
// Nothing is reset between A and B or between the cases of a process: state that a parser
// keeps at package level survives exactly as it would in a long-running teamserver that
// reloads an edited profile. So that a verdict does not depend on which other cases ran before
// (and a replay file reproduces in a fresh process), F is derived from the contents of the
// case: two different cases never share a file name, A and B of one case always do.
//
// Controls: B == A (same bytes, same name) and B parsed under another file name.
//
// Why these assertions are sound for JSON, whose string templates are parsed at evaluation
// time from the UNESCAPED string with a start position of "opening quote + 1"
// (json/structure.go says the positions are approximate when escapes were removed): the
// documents generated here contain no backslash, no control characters and only well-formed
// UTF-8, so every string value is byte-for-byte what stands between its quotes and the
// positions are exact. The text is also restricted to characters that are one column each in
// both scanners (ASCII without tab/CR plus a few precomposed multi-byte letters), which
// makes "column = characters since the line start" the specification of both.

import (
	"bytes"
	"crypto/sha1"
	"encoding/hex"
	"fmt"
	"sort"
	"strings"
	"testing"
	"unicode/utf8"

	hcl "Havoc/pkg/profile/yaotl"
	"Havoc/pkg/profile/yaotl/gohcl"
	"Havoc/pkg/profile/yaotl/hcldec"
	"Havoc/pkg/profile/yaotl/hclsyntax"
	hcljson "Havoc/pkg/profile/yaotl/json"

	"github.com/zclconf/go-cty/cty"
	"pgregory.net/rapid"

	"verifharness/internal/core"
)

// CaseRev is one "file edited and reloaded" history.
type CaseRev struct {
	Syntax  string   `json:"syntax"`  // json | native
	Control string   `json:"control"` // "" | same-bytes | other-filename
	A       string   `json:"a"`
	B       string   `json:"b"`
	Edits   []string `json:"edits,omitempty"`
	// measured by the generator, for the evidence only
	KeptLineColShifted int `json:"kept_linecol_shifted,omitempty"` // strings of B at the line:column they had in A but at another byte offset
}

// ---------------------------------------------------------------------------------
// generator: a small document model, rendered to JSON or native syntax

type revItem struct {
	Filler string // free text in front of the attribute on the same line ("" = none)
	Name   string
	Kind   int      // 0 string, 1 list of strings, 2 nested object/block with one string attribute, 3 number
	Strs   []string // template texts
	Num    string
}

var revTemplates = []string{
	"${a.a}", "x${foo}y", "${b[0].a}", "${nosuch}", "${upper(foo)}", "${a.nosuch}", "${who}",
	"%{ if c[2] }${foo}%{ endif }", "${1 + k}", "é${foo}", "${length(y)} ${i}", "hello", "",
	"${[for z in y : z + i]}", "${c[7]}", "${upper(foo, 1)}", "${nosuchfn(a)}", "日本 ${var.b[1]}",
	"${foo} and ${bar_baz} and ${undefined.x}", "${x1[0]}", "${a.b[*]}", "${k.attr}", "%{ for q in y }${q}${missing}%{ endfor }",
}

var revFillers = []string{"", "", "x", "fill", "this listener is only used by the staging team", "é", "日本", "ß", "😀", "aé", "zzzzzzzzzzzzzzzzzzzzzzzzzzzzzzzz"}

var revNames = []string{"a", "b", "c", "name", "comment", "k0", "k1", "k2", "host", "blk", "lbl", "foo"}

func genRevItems(t *rapid.T) []revItem {
	n := 1 + uni(t, 6)
	items := make([]revItem, n)
	for i := range items {
		it := revItem{Filler: revFillers[uni(t, len(revFillers))], Name: fmt.Sprintf("%s%d", revNames[uni(t, len(revNames))], i), Kind: uni(t, 4)}
		ns := 1
		if it.Kind == 1 {
			ns = 1 + uni(t, 3)
		}
		for j := 0; j < ns; j++ {
			it.Strs = append(it.Strs, revTemplates[uni(t, len(revTemplates))])
		}
		it.Num = []string{"1", "12345", "0.5", "1e3"}[uni(t, 4)]
		items[i] = it
	}
	return items
}

func renderRev(syntax string, items []revItem, trailer string) string {
	var b strings.Builder
	if syntax == "json" {
		b.WriteString("{\n")
		for i, it := range items {
			b.WriteString("  ")
			if it.Filler != "" {
				fmt.Fprintf(&b, "\"_f%d\": \"%s\", ", i, it.Filler)
			}
			fmt.Fprintf(&b, "\"%s\": ", it.Name)
			switch it.Kind {
			case 0:
				fmt.Fprintf(&b, "\"%s\"", it.Strs[0])
			case 1:
				b.WriteString("[")
				for j, s := range it.Strs {
					if j > 0 {
						b.WriteString(", ")
					}
					fmt.Fprintf(&b, "\"%s\"", s)
				}
				b.WriteString("]")
			case 2:
				fmt.Fprintf(&b, "{\"a\": \"%s\", \"%s\": \"v\"}", it.Strs[0], it.Strs[0])
			default:
				b.WriteString(it.Num)
			}
			if i < len(items)-1 {
				b.WriteString(",")
			}
			b.WriteString("\n")
		}
		b.WriteString("}\n")
		b.WriteString(trailer)
		return b.String()
	}
	for _, it := range items {
		if it.Filler != "" {
			fmt.Fprintf(&b, "/* %s */ ", it.Filler)
		}
		switch it.Kind {
		case 0:
			fmt.Fprintf(&b, "%s = \"%s\"\n", it.Name, it.Strs[0])
		case 1:
			fmt.Fprintf(&b, "%s = [", it.Name)
			for j, s := range it.Strs {
				if j > 0 {
					b.WriteString(", ")
				}
				fmt.Fprintf(&b, "\"%s\"", s)
			}
			b.WriteString("]\n")
		case 2:
			fmt.Fprintf(&b, "%s {\n  a = \"%s\"\n}\n", it.Name, it.Strs[0])
		default:
			fmt.Fprintf(&b, "%s = %s\n", it.Name, it.Num)
		}
	}
	b.WriteString(trailer)
	return b.String()
}

var revEditKinds = []string{"lengthen-earlier-line", "shorten-earlier-line", "multibyte-swap-same-line", "multibyte-swap-earlier-line",
	"drop-tail", "shorten-and-drop-tail", "drop-earlier-item", "change-number-length", "change-template", "drop-trailer"}

// swapWidth changes the byte length of s without changing its number of characters.
func swapWidth(s string, t *rapid.T) string {
	rs := []rune(s)
	if len(rs) == 0 {
		return "é"
	}
	p := uni(t, len(rs))
	if rs[p] < 0x80 {
		rs[p] = []rune{'é', '日', '😀', 'ß'}[uni(t, 4)]
	} else {
		rs[p] = 'e'
	}
	return string(rs)
}

func genRev(t *rapid.T) CaseRev {
	var c CaseRev
	c.Syntax = "json"
	if uni(t, 5) < 2 {
		c.Syntax = "native"
	}
	items := genRevItems(t)
	trailer := ""
	if uni(t, 3) == 0 {
		trailer = "\n\n"
	}
	c.A = renderRev(c.Syntax, items, trailer)

	switch uni(t, 8) {
	case 0:
		c.Control = "same-bytes"
		c.B = c.A
		return c
	case 1:
		c.Control = "other-filename"
	}
	bi := append([]revItem(nil), items...)
	for i := range bi {
		bi[i].Strs = append([]string(nil), bi[i].Strs...)
	}
	ne := 1 + uni(t, 2)
	for e := 0; e < ne; e++ {
		k := revEditKinds[uni(t, len(revEditKinds))]
		j := uni(t, len(bi))
		switch k {
		case "lengthen-earlier-line":
			bi[j].Filler += revFillers[3+uni(t, len(revFillers)-3)]
		case "shorten-earlier-line":
			if bi[j].Filler == "" {
				bi[j].Filler = "this listener is only used by the staging team"
				// (A gets the long text too: the edit is a shortening)
				items[j].Filler = bi[j].Filler
				c.A = renderRev(c.Syntax, items, trailer)
			}
			bi[j].Filler = "s"
		case "multibyte-swap-same-line", "multibyte-swap-earlier-line":
			if bi[j].Filler == "" {
				bi[j].Filler = "fill"
				items[j].Filler = "fill"
				c.A = renderRev(c.Syntax, items, trailer)
			}
			bi[j].Filler = swapWidth(bi[j].Filler, t)
		case "drop-tail":
			if len(bi) > 1 {
				bi = bi[:1+uni(t, len(bi)-1)]
			}
		case "shorten-and-drop-tail":
			if bi[0].Filler == "" || len(bi[0].Filler) < 8 {
				bi[0].Filler = "zzzzzzzzzzzzzzzzzzzzzzzzzzzzzzzzzzzzzzzzzzzzzzzzzzzzzzzz"
				items[0].Filler = bi[0].Filler
				c.A = renderRev(c.Syntax, items, trailer)
			}
			bi[0].Filler = "z"
			if len(bi) > 2 {
				bi = bi[:2+uni(t, len(bi)-2)]
			}
		case "drop-earlier-item":
			if len(bi) > 1 {
				j = uni(t, len(bi)-1)
				bi = append(bi[:j:j], bi[j+1:]...)
			}
		case "change-number-length":
			bi[j].Kind = 3
			bi[j].Num = []string{"7", "1234567890", "0.000001"}[uni(t, 3)]
		case "change-template":
			bi[j].Strs[0] = revTemplates[uni(t, len(revTemplates))]
		case "drop-trailer":
			trailer = ""
		}
		c.Edits = append(c.Edits, k)
	}
	c.B = renderRev(c.Syntax, bi, trailer)
	c.KeptLineColShifted = keptShifted(c.A, c.B)
	return c
}

// keptShifted counts the quoted strings with an interpolation that stand at the same
// line:column in both texts, with the same content, at different byte offsets.
func keptShifted(a, b string) int {
	type lc struct{ line, col int }
	index := func(s string) map[lc][2]interface{} {
		out := map[lc][2]interface{}{}
		line, col := 1, 1
		for i := 0; i < len(s); {
			r, sz := utf8.DecodeRuneInString(s[i:])
			if r == '"' {
				if j := strings.IndexByte(s[i+1:], '"'); j >= 0 {
					txt := s[i+1 : i+1+j]
					if strings.Contains(txt, "${") || strings.Contains(txt, "%{") {
						out[lc{line, col}] = [2]interface{}{txt, i}
					}
					col += utf8.RuneCountInString(txt) + 2
					i += j + 2
					continue
				}
			}
			if r == '\n' {
				line++
				col = 1
			} else {
				col++
			}
			i += sz
		}
		return out
	}
	ia, ib := index(a), index(b)
	n := 0
	for k, vb := range ib {
		if va, ok := ia[k]; ok && va[0] == vb[0] && va[1] != vb[1] {
			n++
		}
	}
	return n
}

// ---------------------------------------------------------------------------------
// oracle

// simpleText: the class of texts for which the position rules stated at the top hold.
func simpleText(src []byte) bool {
	if !utf8.Valid(src) {
		return false
	}
	for _, r := range string(src) {
		switch {
		case r == '\n', r >= 0x20 && r < 0x7f && r != '\\':
		case r == 'é', r == '日', r == '本', r == 'ß', r == '😀':
		default:
			return false
		}
	}
	return true
}

type revDoc struct {
	src      []byte
	filename string
	syntax   string
	evalDiag int
	vars     int
}

// posProblem compares one position with the text.
func (d *revDoc) posProblem(p hcl.Pos) string {
	if p.Byte < 0 || p.Byte > len(d.src) {
		return "outside-input"
	}
	if want := 1 + bytes.Count(d.src[:p.Byte], []byte{'\n'}); p.Line != want {
		return fmt.Sprintf("line-mismatch(line %d, text says %d)", p.Line, want)
	}
	ls := bytes.LastIndexByte(d.src[:p.Byte], '\n') + 1
	if want := 1 + utf8.RuneCount(d.src[ls:p.Byte]); p.Column != want {
		return fmt.Sprintf("column-mismatch(column %d, text says %d)", p.Column, want)
	}
	return ""
}

func problemClass(p string) string {
	if i := strings.IndexByte(p, '('); i > 0 {
		return p[:i]
	}
	return p
}

// rng checks one range against the document.
func (d *revDoc) rng(what string, r hcl.Range) *core.Violation {
	if p := rangeProblem(r, len(d.src)); p != "" {
		return core.V("rev|range|"+p+"|"+d.syntax+"|"+what, "%s: range %d..%d is %s (document %q has %d bytes)", what, r.Start.Byte, r.End.Byte, p, d.filename, len(d.src))
	}
	if r.Filename != d.filename {
		return core.V("rev|range|filename|"+d.syntax+"|"+what, "%s: range names file %q, the document was parsed as %q", what, r.Filename, d.filename)
	}
	for i, p := range []hcl.Pos{r.Start, r.End} {
		if pr := d.posProblem(p); pr != "" {
			return core.V("rev|position|"+problemClass(pr)+"|"+d.syntax+"|"+what, "%s: %s position {line %d, column %d, byte %d}: %s", what, [2]string{"start", "end"}[i], p.Line, p.Column, p.Byte, pr)
		}
	}
	return nil
}

func (d *revDoc) diags(what string, diags hcl.Diagnostics, parent *hcl.Range) *core.Violation {
	for _, dg := range diags {
		if dg == nil {
			continue
		}
		key := summaryKey(dg.Summary)
		for wi, r := range []*hcl.Range{dg.Subject, dg.Context} {
			which := [2]string{"Subject", "Context"}[wi]
			if r == nil {
				continue
			}
			if v := d.rng(what+"-diag|"+key+"|"+which, *r); v != nil {
				v.Msg = fmt.Sprintf("diagnostic %q: ", dg.Summary) + v.Msg
				return v
			}
			if parent != nil && wi == 0 && !inside(*r, *parent) {
				return core.V("rev|child-outside-parent|"+d.syntax+"|"+what+"-diag|"+key, "diagnostic %q: Subject %d..%d is not inside the evaluated expression %d..%d", dg.Summary, r.Start.Byte, r.End.Byte, parent.Start.Byte, parent.End.Byte)
			}
		}
	}
	return nil
}

// expr asks one expression everything and checks what comes back.
func (d *revDoc) expr(what string, e hcl.Expression, depth int) *core.Violation {
	er := e.Range()
	if v := d.rng(what+"|Range()", er); v != nil {
		return v
	}
	if v := d.rng(what+"|StartRange()", e.StartRange()); v != nil {
		return v
	}
	for _, tr := range e.Variables() {
		d.vars++
		for si, st := range tr {
			if v := d.rng(fmt.Sprintf("%s|variable-step|%T", what, st), st.SourceRange()); v != nil {
				return v
			}
			if !inside(st.SourceRange(), er) {
				return core.V("rev|child-outside-parent|"+d.syntax+"|"+what+"|variable-step", "variable %q step %d range %d..%d is not inside its expression %d..%d", tr.RootName(), si, st.SourceRange().Start.Byte, st.SourceRange().End.Byte, er.Start.Byte, er.End.Byte)
			}
		}
		if root, ok := tr[0].(hcl.TraverseRoot); ok {
			if got := string(root.SrcRange.SliceBytes(d.src)); got != root.Name {
				return core.V("rev|variable-root-text|"+d.syntax+"|"+what, "variable %q: the bytes at its range %d..%d are %q", root.Name, root.SrcRange.Start.Byte, root.SrcRange.End.Byte, got)
			}
		}
	}
	for _, ctx := range evalCtxs {
		_, dg := e.Value(ctx)
		d.evalDiag += len(dg)
		if v := d.diags(what+"|eval", dg, &er); v != nil {
			return v
		}
	}
	if depth > 8 {
		return nil
	}
	if items, dg := hcl.ExprList(e); !dg.HasErrors() {
		for _, it := range items {
			if !inside(it.Range(), er) {
				return core.V("rev|child-outside-parent|"+d.syntax+"|"+what+"|list-element", "list element %d..%d not inside %d..%d", it.Range().Start.Byte, it.Range().End.Byte, er.Start.Byte, er.End.Byte)
			}
			if v := d.expr(what+"|elem", it, depth+1); v != nil {
				return v
			}
		}
	}
	if pairs, dg := hcl.ExprMap(e); !dg.HasErrors() {
		for _, kv := range pairs {
			for wi, x := range []hcl.Expression{kv.Key, kv.Value} {
				if !inside(x.Range(), er) {
					return core.V("rev|child-outside-parent|"+d.syntax+"|"+what+"|map-"+[2]string{"key", "value"}[wi], "map %s %d..%d not inside %d..%d", [2]string{"key", "value"}[wi], x.Range().Start.Byte, x.Range().End.Byte, er.Start.Byte, er.End.Byte)
				}
			}
			if v := d.expr(what+"|key", kv.Key, depth+1); v != nil {
				return v
			}
			if v := d.expr(what+"|value", kv.Value, depth+1); v != nil {
				return v
			}
		}
	}
	return nil
}

func (d *revDoc) attrs(what string, attrs hcl.Attributes) *core.Violation {
	for _, a := range sortedAttrs(attrs) {
		if v := d.rng(what+"|attribute|Range", a.Range); v != nil {
			return v
		}
		if v := d.rng(what+"|attribute|NameRange", a.NameRange); v != nil {
			return v
		}
		if !inside(a.NameRange, a.Range) || !inside(a.Expr.Range(), a.Range) {
			return core.V("rev|child-outside-parent|"+d.syntax+"|"+what+"|attribute", "attribute %q: name %d..%d / expression %d..%d not inside the attribute %d..%d", a.Name,
				a.NameRange.Start.Byte, a.NameRange.End.Byte, a.Expr.Range().Start.Byte, a.Expr.Range().End.Byte, a.Range.Start.Byte, a.Range.End.Byte)
		}
		if v := d.expr(what+"|attr-expr", a.Expr, 0); v != nil {
			return v
		}
	}
	return nil
}

// revSchema / revSpec name what the generator writes: attributes <name><i>, blocks
// blk<i>/lbl<i>/... with one attribute "a".
func revSchemaAndSpec(body hcl.Body, syntax string) (*hcl.BodySchema, hcldec.Spec) {
	schema := &hcl.BodySchema{}
	spec := hcldec.ObjectSpec{}
	add := func(name string, block bool) {
		if block {
			schema.Blocks = append(schema.Blocks, hcl.BlockHeaderSchema{Type: name})
			spec[name] = &hcldec.BlockTupleSpec{TypeName: name, Nested: hcldec.ObjectSpec{"a": &hcldec.AttrSpec{Name: "a", Type: cty.DynamicPseudoType}}}
		} else {
			schema.Attributes = append(schema.Attributes, hcl.AttributeSchema{Name: name})
			spec[name] = &hcldec.AttrSpec{Name: name, Type: cty.DynamicPseudoType}
		}
	}
	if nb, ok := body.(*hclsyntax.Body); ok {
		var names []string
		for n := range nb.Attributes {
			names = append(names, n)
		}
		sort.Strings(names)
		for _, n := range names {
			add(n, false)
		}
		seen := map[string]bool{}
		for _, b := range nb.Blocks {
			if !seen[b.Type] {
				seen[b.Type] = true
				add(b.Type, true)
			}
		}
		return schema, spec
	}
	attrs, _ := body.JustAttributes()
	for _, a := range sortedAttrs(attrs) {
		// in JSON an object-valued property can be read as a block as well: do both for "blk"
		add(a.Name, strings.HasPrefix(a.Name, "blk"))
	}
	return schema, spec
}

// walk parses src under filename and asks for everything.
func walkRev(syntax, filename string, src []byte) (*core.Violation, *revDoc, bool) {
	d := &revDoc{src: src, filename: filename, syntax: syntax}
	var file *hcl.File
	var pd hcl.Diagnostics
	if syntax == "json" {
		file, pd = hcljson.Parse(src, filename)
	} else {
		file, pd = hclsyntax.ParseConfig(src, filename, startPos)
	}
	if v := d.diags("parse", pd, nil); v != nil {
		return v, d, false
	}
	if file == nil || file.Body == nil {
		return core.V("rev|nil-file|"+syntax, "nil file/body"), d, false
	}
	if pd.HasErrors() {
		return nil, d, false
	}
	if nb, ok := file.Body.(*hclsyntax.Body); ok {
		if v := checkNodeRanges(nb, len(src), src); v != nil {
			return v, d, true
		}
	}
	attrs, ad := file.Body.JustAttributes()
	if v := d.diags("JustAttributes", ad, nil); v != nil {
		return v, d, true
	}
	if v := d.attrs("JustAttributes", attrs); v != nil {
		return v, d, true
	}
	schema, spec := revSchemaAndSpec(file.Body, syntax)
	content, cd := file.Body.Content(schema)
	if v := d.diags("Content", cd, nil); v != nil {
		return v, d, true
	}
	if content != nil {
		if v := d.attrs("Content", content.Attributes); v != nil {
			return v, d, true
		}
		for _, blk := range content.Blocks {
			for wi, r := range []hcl.Range{blk.DefRange, blk.TypeRange} {
				if v := d.rng("Content|block|"+[2]string{"DefRange", "TypeRange"}[wi], r); v != nil {
					return v, d, true
				}
			}
			ba, bd := blk.Body.JustAttributes()
			if v := d.diags("block-JustAttributes", bd, nil); v != nil {
				return v, d, true
			}
			if v := d.attrs("block", ba); v != nil {
				return v, d, true
			}
		}
	}
	for _, tr := range hcldec.Variables(file.Body, spec) {
		for _, st := range tr {
			if v := d.rng(fmt.Sprintf("hcldec.Variables|variable-step|%T", st), st.SourceRange()); v != nil {
				return v, d, true
			}
		}
		if root, ok := tr[0].(hcl.TraverseRoot); ok {
			if got := string(root.SrcRange.SliceBytes(d.src)); got != root.Name {
				return core.V("rev|variable-root-text|"+syntax+"|hcldec.Variables", "variable %q: the bytes at its range %d..%d are %q", root.Name, root.SrcRange.Start.Byte, root.SrcRange.End.Byte, got), d, true
			}
		}
	}
	for _, ctx := range []*hcl.EvalContext{emptyCtx, fullCtx} {
		_, dd := hcldec.Decode(file.Body, spec, ctx)
		d.evalDiag += len(dd)
		if v := d.diags("hcldec.Decode", dd, nil); v != nil {
			return v, d, true
		}
		var t gTarget
		gd := gohcl.DecodeBody(file.Body, ctx, &t)
		if v := d.diags("gohcl.DecodeBody", gd, nil); v != nil {
			return v, d, true
		}
	}
	return nil, d, true
}

type revObs struct {
	aOK, bOK           bool
	evalDiagB, varsB   int
	simpleA, simpleB   bool
	bShorter, bChanged bool
}

var revLast struct {
	key string
	o   revObs
}

func revFilename(c CaseRev) string {
	h := sha1.Sum([]byte(c.Syntax + "\x00" + c.A + "\x00" + c.B + "\x00" + c.Control))
	ext := ".hcl"
	if c.Syntax == "json" {
		ext = ".json"
	}
	return "rev-" + hex.EncodeToString(h[:6]) + ext
}

func checkRev(c CaseRev) *core.Violation {
	var o revObs
	v := core.WithWatchdog(watchdog, "two-revisions", func() *core.Violation {
		a, b := []byte(c.A), []byte(c.B)
		o.simpleA, o.simpleB = simpleText(a), simpleText(b)
		if !o.simpleA || !o.simpleB {
			return core.V("harness|rev|text-outside-class", "the documents of this case are outside the class of texts the position rules are stated for")
		}
		o.bShorter, o.bChanged = len(b) < len(a), c.A != c.B
		fa := revFilename(c)
		fb := fa
		if c.Control == "other-filename" {
			fb = "other-" + fa
		}
		va, _, okA := walkRev(c.Syntax, fa, a)
		o.aOK = okA
		if va != nil {
			va.Msg = "revision A: " + va.Msg + "; A=" + clipQ(a)
			return va
		}
		vb, db, okB := walkRev(c.Syntax, fb, b)
		o.bOK = okB
		o.evalDiagB, o.varsB = db.evalDiag, db.vars
		if vb != nil {
			vb.Msg = "revision B (parsed after A under " + map[bool]string{true: "the same file name", false: "another file name"}[fa == fb] + "): " + vb.Msg + "; A=" + clipQ(a) + " B=" + clipQ(b)
			return vb
		}
		return nil
	})
	revLast.key, revLast.o = c.A+"\x00"+c.B+"\x00"+c.Control, o
	return v
}

func classifyRev(c CaseRev) core.Class {
	o := revLast.o
	if revLast.key != c.A+"\x00"+c.B+"\x00"+c.Control {
		checkRev(c)
		o = revLast.o
	}
	var cl core.Class
	ctl := c.Control
	if ctl == "" {
		ctl = "edited-same-filename"
	}
	cl.Labels = append(cl.Labels, "syntax:"+c.Syntax, "class:"+ctl)
	for _, e := range c.Edits {
		cl.Labels = append(cl.Labels, "edit:"+e)
	}
	shifted := c.KeptLineColShifted > 0
	if shifted {
		cl.Labels = append(cl.Labels, "string-kept-line:col-at-other-byte-offset")
	}
	if o.bShorter {
		cl.Labels = append(cl.Labels, "B-shorter-than-A")
	}
	if !o.aOK || !o.bOK {
		cl.Labels = append(cl.Labels, "parse-error")
	}
	if o.evalDiagB > 0 {
		cl.Labels = append(cl.Labels, "B-evaluation-diagnostics")
	}
	if o.varsB > 0 {
		cl.Labels = append(cl.Labels, "B-variables")
	}
	if bytes.ContainsFunc([]byte(c.B), func(r rune) bool { return r >= 0x80 }) {
		cl.Labels = append(cl.Labels, "B-multibyte")
	}
	// non-trivial: both revisions parsed cleanly and were evaluated, B produced variable
	// traversals or evaluation diagnostics, and either it is a control or some interpolated
	// string kept its line:column while its byte offset moved
	cl.NonTrivial = o.aOK && o.bOK && (o.varsB > 0 || o.evalDiagB > 0) && (c.Control == "same-bytes" || shifted)
	first := "none"
	if len(c.Edits) > 0 {
		first = c.Edits[0]
	}
	cl.Fingerprint = fmt.Sprintf("%s|%s|%s|shifted=%v|shorter=%v|evaldiags=%v", c.Syntax, ctl, first, shifted, o.bShorter, o.evalDiagB > 0)
	return cl
}

func TestC17c(t *testing.T) {
	core.Run(t, core.Spec[CaseRev]{
		Property: "C17", Sub: "c",
		Rule: "two revisions of one file: document A (1-6 attributes/blocks, JSON or native syntax, string values drawn from 23 templates with interpolations, directives, undefined variables, bad calls/indexes so that evaluation yields diagnostics; optional filler text in front of an attribute on its line) is parsed under file name F and walked completely (JustAttributes, Content, Variables, Value with nil/empty/populated context, ExprList/ExprMap children, hcldec.Variables/Decode, gohcl.DecodeBody); B = A after 1-2 edits (lengthen/shorten an earlier line, swap an ASCII character for a multi-byte one earlier on the same or an earlier line, drop the tail so that B is shorter, shorten-and-drop-tail, drop an earlier item, change a number's length, change a template, drop the trailer) is then parsed under the SAME F and walked the same way; controls: B == A, and B under another file name. Nothing is reset between revisions or cases; F is derived from the case so that cases do not interfere. Oracle on everything obtained from B (and A): ranges inside the document with Start<=End and the document's file name, line/column/byte consistent with the text, children inside parents (name/expression in attribute, elements in collection, variable steps and evaluation-diagnostic subjects in the asked expression), bytes at a variable's root step spell its name. Non-trivial: both revisions parse cleanly, B yields variables or evaluation diagnostics, and (control same-bytes, or >=1 interpolated string kept its line:column at another byte offset). distinct = (syntax, class, first edit, shifted, B shorter, B has evaluation diagnostics)",
		Gen:   genRev, Check: checkRev, Classify: classifyRev,
		Assumptions: []string{
			"the generated documents contain no backslash, no control characters other than LF, and only characters that count as one column in both scanners; under that restriction the positions json/structure.go computes for templates inside JSON strings (opening quote + 1, over the unescaped text) are exact, so they are asserted; for arbitrary text (sub-check a) they are documented as approximate and are not",
			"file names are derived from the contents of the case: package-level state survives between revisions and between cases (it is never reset), but two different cases never share a file name, so a verdict does not depend on what ran before and a replay reproduces in a fresh process",
		},
	})
}

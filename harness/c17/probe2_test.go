package c17

import (
	"bytes"
	"fmt"
	"testing"
	"time"
)

func TestProbeQuad(t *testing.T) {
	for _, pat := range []string{"/* ", "\"", "${", "\"${", "<<E\n", "%{", "[", "(", "{", "a.", "f(", "x ? ", "\"a\" ", "$", "# c\n", "<<E\n${"} {
		for _, n := range []int{16 << 10, 64 << 10} {
			src := bytes.Repeat([]byte(pat), n/len(pat))
			for _, e := range []string{eConfig, eTemplate, eHCLWrite, eJSON} {
				t0 := time.Now()
				v, _ := checkCase(Case{Entry: e, Gen: "probe", Src: src})
				d := time.Since(t0)
				if d > 100*time.Millisecond || v != nil {
					sig := ""
					if v != nil {
						sig = v.Sig
					}
					fmt.Printf("%-8q n=%-7d %-9s %8.0f ms %s\n", pat, len(src), e, float64(d.Milliseconds()), sig)
				}
			}
		}
	}
}

package c17

// C17 (d) - nesting depth at and around the values a hand-written limit takes.
//
// Nesting depth is a size like any other: a recursive-descent parser that guards its
// recursion does so with a constant, and that constant is a power of two or a round
// decimal number (encoding/json: 10000). (b) stops at the depth bound 5000; this
// sub-check puts every nesting shape of (b) - plus the template-directive shapes in each
// template carrier (bare template, quoted string, heredoc, JSON string) - at depth
// anchor-2 .. anchor+2 and a little beyond for anchor in {1000, 1024, 2048, 4096, 8192,
// 10000, 16384, 32768, 65536}, capped per shape (limitCap: where the cost of the oracle on the
// unchanged tree, quadratic in the depth, stays far from the watchdog; measured).
//
// Inputs of this size are 70 KB .. 3 MB and a parser that does not terminate on one of
// them allocates without bound, so each case runs in a CHILD process (this test binary,
// TestC17LimitChild) that watches its own memory: the oracle of (a)/(b) unchanged
// (checkCase, watchdog included) plus "memory stays under limitCeiling", reported as
// memory|<entry>|<shape> (the frame sampled at that moment is in the message); a child that dies (stack exhaustion is fatal
// in Go) is reported as crash|... by the parent, which also kills the child when its
// resident set passes the backstop or when it does not answer.

import (
	"bufio"
	"bytes"
	"encoding/json"
	"fmt"
	"os"
	"os/exec"
	"runtime"
	"runtime/debug"
	"runtime/metrics"
	"sort"
	"strconv"
	"strings"
	"sync"
	"syscall"
	"testing"
	"time"

	"pgregory.net/rapid"

	"verifharness/internal/core"
)

// limitAnchors: the values a hand-written nesting limit takes.
var limitAnchors = []int{1000, 1024, 2048, 4096, 8192, 10000, 16384, 32768, 65536}

// limitCeiling: memory (Go runtime total minus released) a child may hold for a nest of the
// given depth: 1 GiB + 96 KiB per level. The unchanged tree needs at most ~31 KB per level
// (goroutine stack included; hclwrite.ParseConfig of objnl: 55 KB per level at depth 10001 and growing with depth, 1.8 GB at the cap of 20000, which is why the constant part is there); what
// each shape needed in this run is in the evidence (extra d_peak_child_mb_by_kind).
func limitCeiling(depth int) uint64 { return 1<<30 + uint64(depth)*(96<<10) }

// limitBackstop: resident set at which the parent kills a child that did not notice.
func limitBackstop(depth int) uint64 { return limitCeiling(depth)*3/2 + 1<<30 }

// limitAnchorsNow: the quick tier stops at 16384 (a case at depth 100000 costs 90-170 s); in the
// thorough tier the larger anchors are reached by the shapes of limitCapsThorough only, the
// others stay at their cap.
func limitAnchorsNow() []int {
	if core.Tier() == "thorough" {
		return limitAnchors
	}
	var out []int
	for _, a := range limitAnchors {
		if a <= 16384 {
			out = append(out, a)
		}
	}
	return out
}

func limitDecimalNow() []int {
	if core.Tier() == "thorough" {
		return []int{1000, 10000}
	}
	return []int{1000, 10000}
}

// limitCap is the largest depth used for a shape: 20000 in general, 72000 for the directive
// nests of a bare template in the thorough tier (at depth 100001 those cost 90-170 s per case on
// the loaded machine, lexing alone 60-160 s for 1.5-2.9 MB: quadratic, too close to ten times
// the watchdog allowance). Measured on the unchanged tree (loaded
// machine, TestC17LimitMeasure): at depth 10001 every shape x entry point returns in 0.3-12 s
// and needs 20-550 MB; at depth 32769 the directive nests still cost ~10 s / < 200 MB (linear),
// but the whole oracle (parse, range walk, evaluation in four contexts, decoding) on
// binary-chain / index / heredoc-interp takes 70-105 s (quadratic, mostly evaluation and the
// walk - hclwrite.ParseConfig of the same text: 1.4 s), and hclwrite.ParseConfig of objnl
// (`{\n a = ` nested, 262 KB) needs 8.2 GB against 0.55 GB at depth 10001 (quadratic memory,
// it does return). Those are slow / large, not endless, so they are kept out of the way of the
// watchdog and of the memory ceiling, as the comment openers are in (a).
func limitCap(kind, entry string) int {
	if core.Tier() == "thorough" {
		if c, ok := limitCapsThorough[kind]; ok {
			return c
		}
	}
	return limitCapDefault
}

const limitCapDefault = 20000

var limitCapsThorough = map[string]int{"tmpl-if": 72000, "tmpl-for": 72000, "tmpl-if-min": 72000, "tmpl-if-else": 72000, "tmpl-if-strip": 72000, "tmpl-if-for": 36000}

type limitResult struct {
	V           *core.Violation `json:"v,omitempty"`
	HasErr      bool            `json:"has_err"`
	Interesting bool            `json:"interesting"`
	Evaluated   bool            `json:"evaluated"`
	Kinds       []string        `json:"kinds,omitempty"`
	PeakMB      int             `json:"peak_mb"`
	Ms          int64           `json:"ms"`
}

func memNow() uint64 {
	s := []metrics.Sample{{Name: "/memory/classes/total:bytes"}, {Name: "/memory/classes/heap/released:bytes"}}
	metrics.Read(s)
	if s[0].Value.Kind() != metrics.KindUint64 || s[1].Value.Kind() != metrics.KindUint64 {
		var m runtime.MemStats
		runtime.ReadMemStats(&m)
		return m.Sys - m.HeapReleased
	}
	return s[0].Value.Uint64() - s[1].Value.Uint64()
}

// innermostHavoc: first Havoc frame of the goroutine that runs under core.Guard.
func innermostHavoc(dump string) string {
	for _, g := range strings.Split(dump, "\n\n") {
		if !strings.Contains(g, "core.Guard") {
			continue
		}
		for _, ln := range strings.Split(g, "\n") {
			if strings.HasPrefix(ln, "Havoc/") {
				if i := strings.LastIndex(ln, "("); i > 0 {
					ln = ln[:i]
				}
				return ln
			}
		}
	}
	return core.HavocFrame(dump)
}

// TestC17LimitChild is the child side: one case from stdin, one JSON line to fd 3.
func TestC17LimitChild(t *testing.T) {
	if os.Getenv("C17_LIMIT_CHILD") == "" {
		t.Skip("child side of TestC17d")
	}
	out := os.NewFile(3, "result")
	var c Case
	if err := json.NewDecoder(bufio.NewReader(os.Stdin)).Decode(&c); err != nil {
		fmt.Fprintf(out, "ERROR %v\n", err)
		return
	}
	var wmu sync.Mutex // one answer only
	var peak uint64
	answer := func(r limitResult) {
		wmu.Lock()
		b, _ := json.Marshal(r)
		out.Write(append(append([]byte("RESULT "), b...), '\n'))
		out.Sync()
	}
	stop := make(chan struct{})
	go func() {
		tk := time.NewTicker(10 * time.Millisecond)
		defer tk.Stop()
		for {
			select {
			case <-stop:
				return
			case <-tk.C:
			}
			m := memNow()
			if m > peak {
				peak = m
			}
			if m > limitCeiling(c.Deep.Depth) {
				buf := make([]byte, 1<<20)
				dump := string(buf[:runtime.Stack(buf, true)])
				fr := innermostHavoc(dump)
				if len(dump) > 5000 {
					dump = dump[:5000] + "\n...[truncated]"
				}
				answer(limitResult{PeakMB: int(m >> 20), V: core.V("memory|"+c.Entry+"|"+c.Deep.Kind,
					"(sampled in "+fr+") entry %q holds %d MB for an input of %d bytes (%s nested %d deep, %d closers) and keeps growing: no tree and/or diagnostics is returned, the process would run out of memory (ceiling %d MB; what the unchanged tree needs is in the evidence, extra d_peak_child_mb_by_kind)\n%s",
					c.Entry, m>>20, len(c.input()), c.Deep.Kind, c.Deep.Depth, c.Deep.Close, limitCeiling(c.Deep.Depth)>>20, dump)})
				os.Exit(0)
			}
		}
	}()
	debug.SetGCPercent(100)
	t0 := time.Now()
	v, o := checkCase(c)
	close(stop)
	r := limitResult{V: v, HasErr: o.hasErr, Interesting: o.interesting, Evaluated: o.evaluated, Ms: time.Since(t0).Milliseconds()}
	if m := memNow(); m > peak {
		peak = m
	}
	r.PeakMB = int(peak >> 20)
	for k := range o.kinds {
		r.Kinds = append(r.Kinds, k)
	}
	sort.Strings(r.Kinds)
	answer(r)
}

type lastLines struct {
	mu sync.Mutex
	b  []byte
}

func (l *lastLines) Write(p []byte) (int, error) {
	l.mu.Lock()
	defer l.mu.Unlock()
	l.b = append(l.b, p...)
	if len(l.b) > 1<<16 {
		l.b = l.b[len(l.b)-(1<<16):]
	}
	return len(p), nil
}

func (l *lastLines) String() string { l.mu.Lock(); defer l.mu.Unlock(); return string(l.b) }

// fatalHead: what the Go runtime printed when the child died (first lines), and a short class.
func fatalHead(out string) (class, head string) {
	class = "unknown"
	i := strings.Index(out, "fatal error:")
	if j := strings.Index(out, "runtime: goroutine stack exceeds"); j >= 0 && (i < 0 || j < i) {
		i = j
	}
	if i < 0 {
		if len(out) > 1500 {
			out = out[len(out)-1500:]
		}
		return class, out
	}
	head = out[i:]
	switch {
	case strings.Contains(head, "stack overflow") || strings.Contains(head, "goroutine stack exceeds"):
		class = "stack-exhausted"
	case strings.Contains(head, "out of memory") || strings.Contains(head, "cannot allocate"):
		class = "out-of-memory"
	}
	fr := "unknown"
	for _, ln := range strings.Split(head, "\n") {
		if strings.HasPrefix(ln, "Havoc/") {
			if k := strings.LastIndex(ln, "("); k > 0 {
				ln = ln[:k]
			}
			fr = ln
			break
		}
	}
	if len(head) > 2500 {
		head = head[:2500] + "\n...[truncated]"
	}
	return class + "|" + fr, head
}

func rssOf(pid int) uint64 {
	b, err := os.ReadFile("/proc/" + strconv.Itoa(pid) + "/statm")
	if err != nil {
		return 0
	}
	f := strings.Fields(string(b))
	if len(f) < 2 {
		return 0
	}
	n, _ := strconv.ParseUint(f[1], 10, 64)
	return n * uint64(os.Getpagesize())
}

// runLimitChild runs c in a child process. infra != nil: the child could not be used
// (no verdict); otherwise the result carries the child's verdict or the parent's.
func runLimitChild(c Case) (limitResult, error) {
	self, err := os.Executable()
	if err != nil {
		return limitResult{}, err
	}
	pr, pw, err := os.Pipe()
	if err != nil {
		return limitResult{}, err
	}
	b, _ := json.Marshal(c)
	cmd := exec.Command(self, "-test.run=^TestC17LimitChild$", "-test.count=1", "-test.timeout=400s")
	cmd.Env = append(os.Environ(), "C17_LIMIT_CHILD=1", "VERIF_OUT=", "VERIF_REPLAY=", "GOMAXPROCS=4")
	cmd.Stdin = bytes.NewReader(b)
	cmd.ExtraFiles = []*os.File{pw}
	var errOut lastLines
	cmd.Stdout, cmd.Stderr = &errOut, &errOut
	if err := cmd.Start(); err != nil {
		pr.Close()
		pw.Close()
		return limitResult{}, err
	}
	pw.Close()
	killedFor := ""
	var kmu sync.Mutex
	kill := func(why string) {
		kmu.Lock()
		if killedFor == "" {
			killedFor = why
		}
		kmu.Unlock()
		cmd.Process.Signal(syscall.SIGKILL)
	}
	done := make(chan struct{})
	go func() { // backstops: resident set, no answer
		tk := time.NewTicker(50 * time.Millisecond)
		defer tk.Stop()
		t0 := time.Now()
		for {
			select {
			case <-done:
				return
			case <-tk.C:
			}
			if r := rssOf(cmd.Process.Pid); r > limitBackstop(c.Deep.Depth) {
				kill(fmt.Sprintf("memory: resident set %d MB", r>>20))
				return
			}
			if time.Since(t0) > 11*watchdog+30*time.Second {
				kill("no answer")
				return
			}
		}
	}()
	line := ""
	rd := bufio.NewReaderSize(pr, 1<<20)
	for {
		ln, err := rd.ReadString('\n')
		if strings.HasPrefix(ln, "RESULT ") || strings.HasPrefix(ln, "ERROR ") {
			line = strings.TrimSpace(ln)
			break
		}
		if err != nil {
			break
		}
	}
	close(done)
	if line != "" {
		cmd.Process.Signal(syscall.SIGKILL)
	}
	werr := cmd.Wait()
	pr.Close()
	kmu.Lock()
	why := killedFor
	kmu.Unlock()
	in := len(c.input())
	switch {
	case strings.HasPrefix(line, "RESULT "):
		var r limitResult
		if err := json.Unmarshal([]byte(line[len("RESULT "):]), &r); err != nil {
			return r, fmt.Errorf("child answer unreadable: %v", err)
		}
		return r, nil
	case strings.HasPrefix(line, "ERROR "):
		return limitResult{}, fmt.Errorf("child: %s", line)
	case strings.HasPrefix(why, "memory"):
		return limitResult{V: core.V("memory|"+c.Entry+"|"+c.Deep.Kind, "entry %q on an input of %d bytes (%s nested %d deep, %d closers): %s, no result; child killed", c.Entry, in, c.Deep.Kind, c.Deep.Depth, c.Deep.Close, why)}, nil
	case why == "no answer":
		return limitResult{V: core.V("hang|"+c.Entry+"|child-without-answer", "entry %q on an input of %d bytes (%s nested %d deep, %d closers): the child process did not answer within %v", c.Entry, in, c.Deep.Kind, c.Deep.Depth, c.Deep.Close, 11*watchdog+30*time.Second)}, nil
	}
	class, head := fatalHead(errOut.String())
	if class == "unknown" {
		// a child that vanished without a runtime message (killed from outside: OOM killer of the
		// machine, a cleaning job) is no verdict about the parser
		return limitResult{}, fmt.Errorf("child ended without a result (%v): %s", werr, head)
	}
	return limitResult{V: core.V("crash|"+class+"|"+c.Entry+"|"+c.Deep.Kind, "entry %q on an input of %d bytes (%s nested %d deep, %d closers) ended the process (%v):\n%s", c.Entry, in, c.Deep.Kind, c.Deep.Depth, c.Deep.Close, werr, head)}, nil
}

// ---------------------------------------------------------------------------------

var (
	limMu     sync.Mutex
	limPeak   = map[string]int{}   // shape -> largest child memory, MB
	limPeakAt = map[string]string{}
	limSlow   = map[string]int64{} // shape -> slowest child, ms
	limInfra  int
)

func limitSide(depth, anchor int) string {
	switch {
	case depth < anchor:
		return "below"
	case depth == anchor:
		return "at"
	case depth <= anchor+2:
		return "just-above"
	}
	return "above"
}

// nearestAnchor: the anchor a depth belongs to (labels are derived from the case alone,
// so that a replayed case is classified the same way).
func nearestAnchor(depth int) int {
	best := limitAnchors[0]
	for _, a := range limitAnchors {
		if abs(depth-a) < abs(depth-best) {
			best = a
		}
	}
	return best
}

func abs(x int) int {
	if x < 0 {
		return -x
	}
	return x
}

func genLimit(t *rapid.T) Case {
	k := deepKinds[uni(t, len(deepKinds))]
	if uni(t, 2) == 0 { // the template-directive shapes, in every carrier, are half of the cases
		var dir []deepKind
		for _, d := range deepKinds {
			if strings.Contains(d.open, "%{") {
				dir = append(dir, d)
			}
		}
		k = dir[uni(t, len(dir))]
	}
	entries := k.entries
	if entries == nil {
		entries = nativeExprEntries
	}
	entry := entries[uni(t, len(entries))]
	anchors, decimal := limitAnchorsNow(), limitDecimalNow()
	anchor := anchors[uni(t, len(anchors))]
	if uni(t, 2) == 0 {
		anchor = decimal[uni(t, len(decimal))] // round decimal bounds favoured
	}
	var depth int
	switch uni(t, 8) {
	case 0:
		depth = anchor - 1
	case 1:
		depth = anchor
	case 2, 3:
		depth = anchor + 1
	case 4:
		depth = anchor + 2
	case 5:
		depth = anchor - 2
	default:
		depth = anchor + rapid.IntRange(3, max(4, anchor/10)).Draw(t, "beyond")
	}
	// levels per repetition: a shape that opens two directives per repetition reaches the anchor at half
	if n := strings.Count(k.open, "%{"); n > 1 && uni(t, 2) == 0 {
		depth = (depth + n - 1) / n
	}
	if lc := limitCap(k.name, entry); depth > lc {
		// (an anchor beyond the cap of the shape: the case moves to the largest anchor below it)
		a2 := 16384
		depth = min(a2+(depth-anchor), lc)
	}
	closeN := depth
	switch uni(t, 6) {
	case 0:
		closeN = 0
	case 1:
		closeN = rapid.IntRange(0, depth).Draw(t, "closeN")
	case 2:
		closeN = depth + rapid.IntRange(1, 3).Draw(t, "extra")
	}
	return Case{Entry: entry, Gen: "limit", Deep: &DeepSpec{Kind: k.name, Depth: depth, Close: closeN}}
}

func checkLimit(c Case) *core.Violation {
	if c.Deep == nil {
		return nil
	}
	r, err := runLimitChild(c)
	if err != nil {
		// one more attempt: a child lost to the machine does not show again, a defect does
		limMu.Lock()
		limInfra++
		core.SetExtra("d_child_lost_and_repeated", limInfra)
		limMu.Unlock()
		if r, err = runLimitChild(c); err != nil {
			panic("harness: " + err.Error())
		}
	}
	o := obs{hasErr: r.HasErr, interesting: r.Interesting, evaluated: r.Evaluated, kinds: map[string]bool{}}
	for _, k := range r.Kinds {
		o.kinds[k] = true
	}
	if r.V != nil {
		// (a verdict reached before the parse was over: the input is what matters for the histogram)
		o.interesting = true
	}
	lastMu.Lock()
	lastKey, lastObs = caseKey(c), o
	lastMu.Unlock()
	limMu.Lock()
	if r.PeakMB > limPeak[c.Deep.Kind] {
		limPeak[c.Deep.Kind] = r.PeakMB
		limPeakAt[c.Deep.Kind] = fmt.Sprintf("%s depth %d", c.Entry, c.Deep.Depth)
	}
	if r.Ms > limSlow[c.Deep.Kind] {
		limSlow[c.Deep.Kind] = r.Ms
	}
	pk := map[string]any{}
	for k, v := range limPeak {
		pk[k] = map[string]any{"mb": v, "at": limPeakAt[k], "slowest_ms": limSlow[k]}
	}
	limMu.Unlock()
	core.SetExtra("d_peak_child_mb_by_kind", pk)
	return r.V
}

func carrierOf(k *deepKind) string {
	if k == nil {
		return "none"
	}
	switch {
	case strings.HasPrefix(k.pre, "{\"a\":\""):
		return "json-string"
	case strings.HasPrefix(k.pre, "<<") || strings.HasPrefix(k.open, "<<"):
		return "heredoc"
	case strings.HasPrefix(k.pre, "\"") || strings.HasPrefix(k.open, "\""):
		return "quoted"
	case strings.Contains(k.open, "%{") || strings.HasPrefix(k.open, "${"):
		return "bare-template"
	}
	return "expression"
}

func classifyLimit(c Case) core.Class {
	cl := classify(c)
	if c.Deep == nil {
		return cl
	}
	a := nearestAnchor(c.Deep.Depth)
	k := deepKindByName(c.Deep.Kind)
	// (the depth bucket label of (b) says "<=5000" for everything above 1000: replaced here)
	lab := cl.Labels[:0]
	for _, l := range cl.Labels {
		if !strings.HasPrefix(l, "depth:") {
			lab = append(lab, l)
		}
	}
	side := limitSide(c.Deep.Depth, a)
	lab = append(lab, fmt.Sprintf("limit:anchor=%d", a), "limit:side="+side, "limit:carrier="+carrierOf(k))
	if k != nil && strings.Contains(k.open, "%{") {
		lab = append(lab, "limit:directive-nest")
		if a >= 10000 {
			lab = append(lab, "limit:directive-nest-x-anchor>=10000")
		}
	}
	if len(c.input()) > 64<<10 {
		lab = append(lab, "limit:input>64K")
	}
	cl.Labels = lab
	parts := strings.Split(cl.Fingerprint, "|") // entry|deep|kind|bucket|closing|he
	if len(parts) == 6 {
		parts[1], parts[3] = "limit", fmt.Sprintf("%d/%s", a, side)
		cl.Fingerprint = strings.Join(parts, "|")
	}
	return cl
}

func TestC17d(t *testing.T) {
	core.SetExtra("d_memory_ceiling_mb_at_depth_10000", limitCeiling(10000)>>20)
	core.SetExtra("d_anchors", limitAnchorsNow())
	core.SetExtra("d_depth_cap_default", limitCapDefault)
	if core.Tier() == "thorough" {
		core.SetExtra("d_depth_caps", limitCapsThorough)
	}
	core.Run(t, core.Spec[Case]{
		Property: "C17", Sub: "d",
		Rule:     ruleD,
		Gen:      genLimit, Check: checkLimit, Classify: classifyLimit,
		Assumptions: append(append([]string{}, assumptions...), assumptionsD...),
	})
}

const ruleD = "nesting depth as a size, at the values a hand-written limit takes: one of the nesting shapes of (b) - parentheses, brackets, object braces, calls, index, splat, unary chains, conditional chains, ${ } interpolation nests in quoted strings / heredocs / bare templates / JSON strings, for expressions, nested blocks, comment openers, JSON arrays/objects/mixed, and the %{ if } / %{ for } / %{ if }..%{ else } / alternating if-for directive nests in EACH template carrier (bare template, quoted string, heredoc, JSON string; shortest spelling `%{if a}` included) - repeated to depth anchor-2, anchor-1, anchor, anchor+1, anchor+2 or anchor+3..anchor*1.1 for anchor in {1000, 1024, 2048, 4096, 8192, 10000, 16384; thorough tier also 32768, 65536} (quick tier: anchors up to 16384; round decimal anchors are half of the cases; directive shapes are half of the cases; capped at depth 20000, thorough tier: 72000 for the directive nests of a bare template, extra d_depth_caps - beyond that the oracle's own walk and evaluation, quadratic in the depth, and hclwrite's quadratic memory on nested multi-line objects would be mistaken for a hang), balanced / unclosed / partly closed / over-closed, i.e. inputs of 7 KB .. 3 MB, perfectly legal when balanced. Each case runs in a child process of the test binary with the oracle of (a)/(b) unchanged (no panic, returns within the watchdog, tokens tile the input, ranges inside the input, children inside parents, error-free inputs evaluate and decode) plus: the child's memory stays under the ceiling of 1 GiB + 96 KiB per nesting level, about three times what the unchanged tree needs (the need of the unchanged tree per shape is in extra d_peak_child_mb_by_kind) - a parser that never terminates and keeps appending is reported as memory|<entry>|<shape> by the child itself, or by the parent when the resident set passes the backstop; a child that dies (stack exhaustion, out of memory) is crash|<class>|<frame>|<entry>|<shape>. Non-trivial: as (a). distinct = (entry point, shape, anchor/side, closing, has-errors). Labels limit:anchor=N, limit:side=below|at|just-above|above, limit:carrier=*, limit:directive-nest, limit:directive-nest-x-anchor>=10000, limit:input>64K, deep:<shape>, closing:*"

var assumptionsD = []string{
	"(d) the depth bound is the cap per shape recorded in extra d_depth_cap_default / d_depth_caps (20000; 72000 for directive nests of a bare template in the thorough tier): up to it the unchanged tree returns for every shape well inside the watchdog and the memory ceiling; beyond it the cost of walk + evaluation (quadratic: 70-105 s at depth 32769 for binary-chain / index / heredoc-interp) and hclwrite's memory on nested multi-line objects (8.2 GB at depth 32769) are high without being endless, and from 50 000-200 000 levels on the recursive-descent parsers run out of the 1 GB goroutine stack (beyond the bound the property names)",
	"(d) a case whose child process disappears without a Go runtime message (killed from outside) is repeated once; the second disappearance stops the run as a harness error, it is never a verdict",
}

// TestC17LimitMeasure (by hand: C17_LIMIT_MEASURE=<depth>[,<depth>...]) prints what every shape x entry
// point costs on the tree under test; the caps above come from it.
func TestC17LimitMeasure(t *testing.T) {
	spec := os.Getenv("C17_LIMIT_MEASURE")
	if spec == "" {
		t.Skip("by hand")
	}
	only := os.Getenv("C17_LIMIT_KIND")
	var jobs []Case
	for _, ds := range strings.Split(spec, ",") {
		d, _ := strconv.Atoi(ds)
		for _, k := range deepKinds {
			if only != "" && !strings.Contains(k.name, only) {
				continue
			}
			entries := k.entries
			if entries == nil {
				entries = nativeExprEntries
			}
			for _, e := range entries {
				for _, cl := range []int{d, 0} {
					jobs = append(jobs, Case{Entry: e, Gen: "limit", Deep: &DeepSpec{Kind: k.name, Depth: d, Close: cl}})
				}
			}
		}
	}
	sem := make(chan struct{}, 6)
	var wg sync.WaitGroup
	var mu sync.Mutex
	for _, c := range jobs {
		wg.Add(1)
		sem <- struct{}{}
		go func(c Case) {
			defer wg.Done()
			defer func() { <-sem }()
			t0 := time.Now()
			r, err := runLimitChild(c)
			sig := "ok"
			if err != nil {
				sig = "INFRA " + err.Error()
			} else if r.V != nil {
				sig = "VIOLATION " + r.V.Sig
			}
			mu.Lock()
			fmt.Printf("MEASURE %-22s %-11s depth=%d close=%d bytes=%d wall=%dms child=%dms peak=%dMB err=%v eval=%v %s\n", c.Deep.Kind, c.Entry, c.Deep.Depth, c.Deep.Close, len(c.input()), time.Since(t0).Milliseconds(), r.Ms, r.PeakMB, r.HasErr, r.Evaluated, sig)
			mu.Unlock()
		}(c)
	}
	wg.Wait()
}

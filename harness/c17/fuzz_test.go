package c17

// Native fuzz targets (thorough tier, run by hand - the driver does not run native fuzzing):
//
//	cd /verif/harness && GOFLAGS=-mod=mod GOPROXY=off GOSUMDB=off GOTOOLCHAIN=local \
//	  go test ./c17 -tags verif -run '^$' -fuzz '^FuzzParseConfig$' -fuzztime 5m
//
// (likewise FuzzParseExpression, FuzzParseTemplate, FuzzJSON). The oracle inside each
// target is checkCase, i.e. exactly the one of TestC17a. Seeds: /verif/corpus/C17/<kind>/*
// plus the repository's own corpora. Signatures listed as open in /verif/known.d/C17.jsonl
// (or $VERIF_KNOWN) are skipped, as in the rapid tests. New crashers are written by the go
// tool to harness/c17/testdata/fuzz/<target>/ and are replayed by a plain `go test`.

import (
	"bufio"
	"encoding/json"
	"os"
	"path/filepath"
	"sort"
	"strings"
	"testing"
)

const fuzzMaxLen = 16 << 10

func verifRoot() string {
	if r := os.Getenv("VERIF_ROOT"); r != "" {
		return r
	}
	// the test runs in harness/c17
	if wd, err := os.Getwd(); err == nil {
		return filepath.Clean(filepath.Join(wd, "..", ".."))
	}
	return "/verif"
}

func knownSigs() map[string]bool {
	out := map[string]bool{}
	paths := []string{os.Getenv("VERIF_KNOWN"), filepath.Join(verifRoot(), "known.d", "C17.jsonl"), filepath.Join(verifRoot(), "known_findings.jsonl")}
	for _, p := range paths {
		if p == "" {
			continue
		}
		f, err := os.Open(p)
		if err != nil {
			continue
		}
		sc := bufio.NewScanner(f)
		sc.Buffer(make([]byte, 1<<20), 1<<20)
		for sc.Scan() {
			var k struct {
				Property  string `json:"property"`
				Signature string `json:"signature"`
				Status    string `json:"status"`
			}
			if json.Unmarshal([]byte(strings.TrimSpace(sc.Text())), &k) == nil && k.Property == "C17" && k.Status == "open" {
				out[k.Signature] = true
			}
		}
		f.Close()
	}
	return out
}

func seed(f *testing.F, kinds ...string) {
	for _, k := range kinds {
		dir := filepath.Join(verifRoot(), "corpus", "C17", k)
		ents, _ := os.ReadDir(dir)
		var names []string
		for _, e := range ents {
			if !e.IsDir() {
				names = append(names, e.Name())
			}
		}
		sort.Strings(names)
		for _, n := range names {
			if b, err := os.ReadFile(filepath.Join(dir, n)); err == nil && len(b) <= fuzzMaxLen {
				f.Add(b)
			}
		}
		for _, cf := range corpus {
			if cf.kind == k && len(cf.data) <= fuzzMaxLen {
				f.Add(cf.data)
			}
		}
	}
}

func fuzzEntries(f *testing.F, entries ...string) {
	known := knownSigs()
	f.Fuzz(func(t *testing.T, data []byte) {
		if len(data) > fuzzMaxLen {
			t.Skip()
		}
		if capped, did := capScanCost(data); did {
			data = capped
		}
		for _, e := range entries {
			v, _ := checkCase(Case{Entry: e, Gen: "fuzz", Src: data})
			if v != nil && !known[v.Sig] {
				b, _ := json.Marshal(Case{Entry: e, Gen: "fuzz", Src: data})
				t.Fatalf("violation [%s] entry=%s: %s\nreplay case: %s", v.Sig, e, v.Msg, b)
			}
		}
	})
}

func FuzzParseConfig(f *testing.F) {
	seed(f, "config")
	fuzzEntries(f, eConfig, eHCLWrite, eLexConfig)
}

func FuzzParseExpression(f *testing.F) {
	seed(f, "expr", "traversal")
	fuzzEntries(f, eExpr, eTraversal, eLexExpr)
}

func FuzzParseTemplate(f *testing.F) {
	seed(f, "template")
	fuzzEntries(f, eTemplate, eLexTemplate)
}

func FuzzJSON(f *testing.F) {
	seed(f, "json")
	fuzzEntries(f, eJSON, eJSONExpr)
}

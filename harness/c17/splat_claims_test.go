package c17

import (
	"testing"

	"Havoc/pkg/profile/yaotl/hclsyntax"

	"pgregory.net/rapid"
)

// TestC17SplatSourceClaims checks the generator's own bookkeeping (not the code under test's
// correctness): a source labelled srctype:list / srctype:set evaluates, on the tree the
// harness is built against and with collCtx, to a known list / set, and for the simple row
// families a source labelled rows:mixed-empty-nonempty really has an empty and a non-empty
// inner collection among its elements. Run by hand (plain `go test -run`), not by the driver.
func TestC17SplatSourceClaims(t *testing.T) {
	type sample struct {
		src  string
		info collInfo
	}
	g := rapid.Custom(func(rt *rapid.T) sample {
		gg := &gen{t: rt, budget: 12}
		info := gg.collSource(2)
		return sample{gg.sb.String(), info}
	})
	claimed, mixedChecked := 0, 0
	byKind := map[string]int{}
	for i := 0; i < 6000; i++ {
		s := g.Example(i)
		if !s.info.listTyped && !s.info.setTyped {
			continue
		}
		claimed++
		expr, diags := hclsyntax.ParseExpression([]byte(s.src), "claims.hcl", startPos)
		if diags.HasErrors() {
			t.Errorf("%q (%s): does not parse: %s", s.src, s.info.kind, diags.Error())
			continue
		}
		v, diags := expr.Value(collCtx)
		if diags.HasErrors() {
			t.Errorf("%q (%s): evaluation error: %s", s.src, s.info.kind, diags.Error())
			continue
		}
		ty := v.Type()
		if !v.IsKnown() || v.IsNull() || (s.info.listTyped && !ty.IsListType()) || (s.info.setTyped && !ty.IsSetType()) {
			t.Errorf("%q (%s): claimed list=%v set=%v, got %#v", s.src, s.info.kind, s.info.listTyped, s.info.setTyped, v)
			continue
		}
		if s.info.mix != "mixed" {
			continue
		}
		switch s.info.famName {
		case "numlist", "strlist", "obj-list-attr":
		default:
			continue
		}
		ne, nn := 0, 0
		for it := v.ElementIterator(); it.Next(); {
			_, el := it.Element()
			if el.Type().IsObjectType() && el.Type().HasAttribute("a") && el.IsKnown() && !el.IsNull() {
				el = el.GetAttr("a")
			}
			if !el.IsKnown() || el.IsNull() || !(el.Type().IsCollectionType() || el.Type().IsTupleType()) {
				continue
			}
			if el.LengthInt() == 0 {
				ne++
			} else {
				nn++
			}
		}
		mixedChecked++
		byKind[s.info.kind+"/"+s.info.famName]++
		if ne == 0 || nn == 0 {
			t.Errorf("%q (%s, %s): claimed mixed rows, found %d empty / %d non-empty in %#v", s.src, s.info.kind, s.info.famName, ne, nn, v)
		}
	}
	t.Logf("%d sources with a list/set claim checked, %d of them with a mixed-rows claim: %v", claimed, mixedChecked, byKind)
	if claimed < 200 || mixedChecked < 50 {
		t.Errorf("too few claims exercised: %d / %d", claimed, mixedChecked)
	}
}

package c17

// Collection sources x access chains: the part of the expression grammar that is about
// splats, index and traversal over collections (class gen:splat and alternative 22 of
// gen.expr).
//
// The plain expression generator writes `ident.step.step` with an occasional `.*` / `[*]`
// over identifiers. What it did not write is a chain of access steps applied to every KIND
// of collection-valued source, which is where the evaluator has to decide between tuple and
// list results, deduce element types of empty collections, and unify row types:
//
//	source   literal tuple / object of ROWS (rows from one family: lists of numbers, lists of
//	         strings, objects with a list attribute, lists of lists, objects with different
//	         attribute sets, mixed types; 0-4 rows, empty and non-empty ones mixed), empty
//	         literals, a parenthesised conditional whose branches are tuples / objects of equal
//	         or different lengths and families (different lengths unify to a list / map, or fail),
//	         for expressions (tuple form, object form, grouping `...`, with `if`), function calls
//	         returning collections (tolist/toset/tomap/concat/keys/values/flatten/reverse/slice/
//	         chunklist/range/zipmap/merge/setunion/coalescelist/distinct/compact/sort/split/
//	         element/lookup/try/f - the function table of collCtx), null, variables of collCtx
//	         (typed lists / sets / maps of lists incl. empty ones, lists with empty / unknown /
//	         null rows, unknown and null collections), any parenthesised expression
//	chain    no splat (index / attribute / legacy index steps only), one splat, nested 2 or 3
//	         (`[*]` or `.*`), with 0-1 steps between the splats and 0-2 after them
//	use      bare, inside "${ }", as for collection, as for condition, as conditional predicate,
//	         as call argument, as %{ for } collection / %{ if } predicate, indexed again
//
// Labels: src:<kind>, srctype:list (the source is list-typed on HEAD by construction - checked
// by TestC17SplatSourceClaims), rows:<mixed-empty-nonempty|all-empty|all-nonempty|none>,
// rowfam:<family>, splat:<none|single|nested>, splat:attr / splat:full, use:<use>, and the
// conjunction splat:nested-x-list-x-mixed-rows. The oracle is the one of sub-check (a): an
// input without error diagnostics is evaluated with nil / empty / fullCtx / collCtx and must
// not panic; evaluation errors are fine.

import (
	"sort"
	"strings"
	"sync"

	hcl "Havoc/pkg/profile/yaotl"
	"Havoc/pkg/profile/yaotl/ext/tryfunc"

	"github.com/zclconf/go-cty/cty"
	"github.com/zclconf/go-cty/cty/function"
	"github.com/zclconf/go-cty/cty/function/stdlib"
	"pgregory.net/rapid"

	"verifharness/internal/core"
)

// ---------------------------------------------------------------------------------
// evaluation context with typed collections

func numList(ns ...int64) cty.Value {
	if len(ns) == 0 {
		return cty.ListValEmpty(cty.Number)
	}
	vs := make([]cty.Value, len(ns))
	for i, n := range ns {
		vs[i] = cty.NumberIntVal(n)
	}
	return cty.ListVal(vs)
}

func strList(ss ...string) cty.Value {
	if len(ss) == 0 {
		return cty.ListValEmpty(cty.String)
	}
	vs := make([]cty.Value, len(ss))
	for i, s := range ss {
		vs[i] = cty.StringVal(s)
	}
	return cty.ListVal(vs)
}

// collVar: a variable of collCtx and what the generator may claim about it.
type collVar struct {
	name  string
	typed string // list | set | map | tuple | object | unknown | null | other
	mix   string // rows: mixed | all-empty | all-nonempty | none
	fam   string
	val   cty.Value
}

var collVars = func() []collVar {
	lo := func(rows ...cty.Value) cty.Value {
		vs := make([]cty.Value, len(rows))
		for i, r := range rows {
			vs[i] = cty.ObjectVal(map[string]cty.Value{"a": r, "b": cty.NumberIntVal(int64(i))})
		}
		return cty.ListVal(vs)
	}
	ll := cty.ListVal([]cty.Value{numList(), numList(1), numList(2, 3)})
	lov := lo(numList(), numList(1), numList(1, 2))
	return []collVar{
		{"ll", "list", "mixed", "numlist", ll},
		{"lle", "list", "all-empty", "numlist", cty.ListVal([]cty.Value{numList(), numList()})},
		{"lln", "list", "all-nonempty", "numlist", cty.ListVal([]cty.Value{numList(1), numList(2, 3)})},
		{"le", "list", "none", "numlist", cty.ListValEmpty(cty.List(cty.Number))},
		{"les", "list", "none", "strlist", cty.ListValEmpty(cty.String)},
		{"leo", "list", "none", "obj-list-attr", cty.ListValEmpty(cty.Object(map[string]cty.Type{"a": cty.List(cty.Number), "b": cty.Number}))},
		{"lo", "list", "mixed", "obj-list-attr", lov},
		{"lon", "list", "all-nonempty", "obj-list-attr", lo(numList(1), numList(2))},
		{"lls", "list", "mixed", "strlist", cty.ListVal([]cty.Value{strList("a"), strList(), strList("b", "c")})},
		{"lll", "list", "mixed", "listlist", cty.ListVal([]cty.Value{
			cty.ListValEmpty(cty.List(cty.Number)),
			cty.ListVal([]cty.Value{numList(), numList(1)}),
			cty.ListVal([]cty.Value{numList(2)}),
		})},
		{"sl", "set", "mixed", "numlist", cty.SetVal([]cty.Value{numList(), numList(1)})},
		{"se", "set", "none", "strlist", cty.SetValEmpty(cty.String)},
		{"sel", "set", "none", "numlist", cty.SetValEmpty(cty.List(cty.Number))},
		{"ml", "map", "mixed", "strlist", cty.MapVal(map[string]cty.Value{"k": strList(), "j": strList("x")})},
		{"me", "map", "none", "numlist", cty.MapValEmpty(cty.Number)},
		{"mel", "map", "none", "numlist", cty.MapValEmpty(cty.List(cty.Number))},
		{"lm", "list", "mixed", "map", cty.ListVal([]cty.Value{cty.MapValEmpty(cty.Number), cty.MapVal(map[string]cty.Value{"a": cty.NumberIntVal(1)})})},
		{"ls", "list", "mixed", "set", cty.ListVal([]cty.Value{cty.SetValEmpty(cty.String), cty.SetVal([]cty.Value{cty.StringVal("a")})})},
		{"ul", "unknown", "none", "numlist", cty.UnknownVal(cty.List(cty.List(cty.Number)))},
		{"lu", "list", "mixed", "numlist", cty.ListVal([]cty.Value{cty.UnknownVal(cty.List(cty.Number)), numList(), numList(1)})},
		{"ld", "list", "none", "dynamic", cty.ListVal([]cty.Value{cty.DynamicVal, cty.DynamicVal})},
		{"nl", "null", "none", "numlist", cty.NullVal(cty.List(cty.List(cty.Number)))},
		{"ln", "list", "mixed", "numlist", cty.ListVal([]cty.Value{cty.NullVal(cty.List(cty.Number)), numList(), numList(1)})},
		{"tl", "tuple", "mixed", "numlist", cty.TupleVal([]cty.Value{numList(), numList(1)})},
		{"tt", "tuple", "mixed", "numlist", cty.TupleVal([]cty.Value{cty.EmptyTupleVal, cty.TupleVal([]cty.Value{cty.NumberIntVal(1)})})},
		{"ol", "object", "mixed", "numlist", cty.ObjectVal(map[string]cty.Value{"a": ll, "b": lov})},
		{"t", "other", "none", "", cty.True},
		{"fl", "other", "none", "", cty.False},
		{"ub", "other", "none", "", cty.UnknownVal(cty.Bool)},
		{"n1", "other", "none", "", cty.NumberIntVal(1)},
	}
}()

func collVarByName(n string) *collVar {
	for i := range collVars {
		if collVars[i].name == n {
			return &collVars[i]
		}
	}
	return nil
}

// collCtx: typed collections under their own names, and ALSO under the short identifiers the
// plain grammar generator uses (a, b, c, x, y, v, k, foo, i), so that what that generator
// writes (`a[*].b`, `b.*.c[0]`, `[for k, v in foo : ...]`) meets typed lists, sets and maps
// with empty rows as well; the function table is fullCtx's plus the collection functions.
var collCtx = func() *hcl.EvalContext {
	vars := map[string]cty.Value{}
	for _, v := range collVars {
		vars[v.name] = v.val
	}
	alias := map[string]string{"a": "lo", "b": "ll", "c": "sl", "x": "ml", "y": "le", "v": "lm", "k": "nl", "foo": "lu", "var": "ol", "local": "lll", "each": "ls", "self": "ul", "x1": "lls", "_u": "ld", "bar_baz": "tl"}
	for k, n := range alias {
		vars[k] = collVarByName(n).val
	}
	vars["i"] = cty.NumberIntVal(1)
	fns := map[string]function.Function{}
	for k, f := range fullCtx.Functions {
		fns[k] = f
	}
	for k, f := range map[string]function.Function{
		"tolist":       stdlib.MakeToFunc(cty.List(cty.DynamicPseudoType)),
		"toset":        stdlib.MakeToFunc(cty.Set(cty.DynamicPseudoType)),
		"tomap":        stdlib.MakeToFunc(cty.Map(cty.DynamicPseudoType)),
		"keys":         stdlib.KeysFunc,
		"values":       stdlib.ValuesFunc,
		"flatten":      stdlib.FlattenFunc,
		"reverse":      stdlib.ReverseListFunc,
		"slice":        stdlib.SliceFunc,
		"chunklist":    stdlib.ChunklistFunc,
		"range":        stdlib.RangeFunc,
		"zipmap":       stdlib.ZipmapFunc,
		"merge":        stdlib.MergeFunc,
		"setunion":     stdlib.SetUnionFunc,
		"coalescelist": stdlib.CoalesceListFunc,
		"distinct":     stdlib.DistinctFunc,
		"compact":      stdlib.CompactFunc,
		"sort":         stdlib.SortFunc,
		"split":        stdlib.SplitFunc,
		"element":      stdlib.ElementFunc,
		"lookup":       stdlib.LookupFunc,
		"try":          tryfunc.TryFunc,
		"can":          tryfunc.CanFunc,
	} {
		fns[k] = f
	}
	return &hcl.EvalContext{Variables: vars, Functions: fns}
}()

// ---------------------------------------------------------------------------------
// rows

type rowFam struct {
	name     string
	empty    []string // rows whose (inner) collection is empty
	nonempty []string
	unifies  bool // rows of this family have types that unify (tuples of different lengths -> list)
	attr     bool // the inner collection is attribute `a` of the row
}

var rowFams = []rowFam{
	{name: "numlist", empty: []string{"[]"}, nonempty: []string{"[1]", "[1, 2]", "[3, 4, 5]"}, unifies: true},
	{name: "strlist", empty: []string{"[]"}, nonempty: []string{`["a"]`, `["a", "b"]`}, unifies: true},
	{name: "obj-list-attr", empty: []string{"{a = [], b = 0}"}, nonempty: []string{"{a = [1], b = 1}", "{a = [1, 2], b = 2}"}, unifies: true, attr: true},
	{name: "listlist", empty: []string{"[]", "[[]]"}, nonempty: []string{"[[1]]", "[[1], []]", "[[], [2, 3]]"}, unifies: true},
	{name: "objs", empty: []string{"{}"}, nonempty: []string{"{k = 1}", "{k = 1, j = 2}", "{a = [1]}"}},
	{name: "mixedtypes", empty: []string{"[]", "{}", "null"}, nonempty: []string{"[1]", `["a"]`, "[true]", "1", `"s"`, "{a = 1}", "[[1]]", "[null]", "[1, \"a\"]"}},
}

func (g *gen) lab(l string) {
	if g.labs == nil {
		g.labs = map[string]bool{}
	}
	g.labs[l] = true
}

func (g *gen) labels() []string {
	out := g.note.labels()
	var ls []string
	for l := range g.labs {
		ls = append(ls, l)
	}
	sort.Strings(ls)
	return append(out, ls...)
}

// rows draws n rows of a family and says how empty and non-empty ones mix.
func (g *gen) rows(f *rowFam, n int) ([]string, string) {
	var out []string
	ne, nn := 0, 0
	for i := 0; i < n; i++ {
		if g.coin(45) {
			out = append(out, g.pick(f.empty))
			ne++
		} else {
			out = append(out, g.pick(f.nonempty))
			nn++
		}
	}
	return out, mixOf(ne, nn)
}

func mixOf(ne, nn int) string {
	switch {
	case ne > 0 && nn > 0:
		return "mixed"
	case ne > 0:
		return "all-empty"
	case nn > 0:
		return "all-nonempty"
	}
	return "none"
}

func (g *gen) tupleOf(rows []string) {
	g.w("[")
	for i, r := range rows {
		if i > 0 {
			g.w(",")
			g.sepAt("bracket")
		}
		g.w(r)
	}
	if len(rows) > 0 && g.coin(10) {
		g.w(",")
	}
	g.w("]")
}

// ---------------------------------------------------------------------------------
// sources

type collInfo struct {
	kind      string
	listTyped bool // list-typed (and known) on HEAD, by construction
	setTyped  bool
	mix       string
	fam       *rowFam
	famName   string
}

var collPredicates = []struct {
	text  string
	known bool
	val   bool
}{
	{"true", true, true}, {"false", true, false}, {"1 == 1", true, true}, {"1 > 2", true, false}, {"t", false, true}, {"fl", false, false}, {"ub", false, false}, {"!fl", false, true},
}

var collCalls = []string{"tolist", "toset", "tomap", "concat", "keys", "values", "flatten", "reverse", "slice", "chunklist", "range", "zipmap", "merge", "setunion", "coalescelist", "distinct", "compact", "sort", "split", "element", "lookup", "try", "f", "length"}

// listVars: the list-typed variables of collCtx (by their own names).
var listVars, allCollVars = func() ([]string, []string) {
	var l, a []string
	for _, v := range collVars {
		if v.typed == "list" {
			l = append(l, v.name)
		}
		if v.typed != "other" {
			a = append(a, v.name)
		}
	}
	return l, a
}()

// collSource writes a collection-valued source expression.
func (g *gen) collSource(d int) collInfo {
	g.budget--
	fam := &rowFams[uni(g.t, len(rowFams))]
	info := collInfo{mix: "none", fam: fam, famName: fam.name}
	k := g.n(0, 14)
	if d <= 0 || g.budget <= 0 {
		k = []int{0, 3, 11, 12}[uni(g.t, 4)]
	}
	switch k {
	case 0:
		info.kind = "tuple-lit"
		rows, mix := g.rows(fam, g.n(0, 4))
		info.mix = mix
		g.tupleOf(rows)
	case 1:
		info.kind = "empty-lit"
		info.famName = "none"
		g.w(g.pick([]string{"[]", "{}", "null", "[[]]", "[{}]", "[null]", "[[], []]", "{a = []}", "\"\""}))
	case 2:
		info.kind = "object-lit"
		rows, mix := g.rows(fam, g.n(1, 3))
		info.mix = mix
		g.w("{")
		for i, r := range rows {
			if i > 0 {
				g.w(",")
			}
			g.sepAt("obrace")
			g.w([]string{"a", "b", "k"}[i])
			g.wsAt("eq")
			g.w("=")
			g.wsAt("eq")
			g.w(r)
		}
		g.sepAt("cbrace")
		g.w("}")
	case 3, 4, 5:
		// parenthesised conditional over two tuples (or objects) of rows
		p := collPredicates[uni(g.t, len(collPredicates))]
		famB := fam
		if g.coin(20) {
			famB = &rowFams[uni(g.t, len(rowFams))]
		}
		n := g.n(0, 3)
		m := n
		if g.coin(70) {
			m = g.n(0, 3)
		}
		objects := g.coin(12)
		ra, mixA := g.rows(fam, n)
		rb, mixB := g.rows(famB, m)
		g.w("(")
		g.w(p.text)
		g.wsAt("op")
		g.w("?")
		g.wsAt("op")
		wr := func(rows []string) {
			if !objects {
				g.tupleOf(rows)
				return
			}
			g.w("{")
			for i, r := range rows {
				if i > 0 {
					g.w(", ")
				}
				g.w([]string{"a", "b", "k"}[i] + " = " + r)
			}
			g.w("}")
		}
		wr(ra)
		g.wsAt("op")
		g.w(":")
		g.wsAt("op")
		wr(rb)
		g.w(")")
		if p.val {
			info.mix = mixA
		} else {
			info.mix = mixB
		}
		switch {
		case objects:
			info.kind = "conditional-objects"
		case famB != fam:
			info.kind = "conditional-mixed-families"
		case n == m:
			info.kind = "conditional-same-length"
		case fam.unifies:
			info.kind = "conditional-unified-list"
			info.listTyped = p.text != "ub" // (an unknown predicate gives an unknown list)
		default:
			info.kind = "conditional-different-length"
		}
	case 6:
		// for expression, tuple form
		info.kind = "for-tuple"
		g.w("[for r in ")
		in := g.collSource(d - 1)
		info.mix, info.fam, info.famName = in.mix, in.fam, in.famName
		g.wsAt("for")
		g.w(":")
		g.sepAt("for")
		g.w(g.pick([]string{"r", "r", "r[*]", "[r]", "r.a", "r[0]", "[for q in r : q]"}))
		if g.coin(25) {
			g.w(g.pick([]string{" if true", " if r != null", " if length(r) > 0", " if false"}))
		}
		g.w("]")
	case 7:
		info.kind = g.pick([]string{"for-object", "for-group"})
		g.w("{for i, r in ")
		in := g.collSource(d - 1)
		info.mix, info.fam, info.famName = in.mix, in.fam, in.famName
		g.wsAt("for")
		g.w(":")
		g.sepAt("for")
		if info.kind == "for-object" {
			g.w(g.pick([]string{"\"k${i}\" => r", "i => r", "\"k${i}\" => r[*]"}))
		} else {
			g.w(g.pick([]string{"\"k\" => r...", "(i == 0 ? \"z\" : \"k\") => r...", "\"k\" => r[*]..."}))
		}
		g.w("}")
	case 8, 9, 10:
		fn := g.pick(collCalls)
		info.kind = "call-" + fn
		lv := func() *collVar { return collVarByName(g.pick(listVars)) }
		switch fn {
		case "tolist", "toset":
			rows, mix := g.rows(fam, g.n(0, 4))
			info.mix = mix
			g.w(fn + "(")
			g.wsnlAt("args")
			g.tupleOf(rows)
			g.w(")")
			if fam.unifies && len(rows) > 0 {
				info.listTyped = fn == "tolist"
				info.setTyped = fn == "toset"
			}
		case "tomap":
			rows, mix := g.rows(fam, g.n(0, 3))
			info.mix = mix
			g.w("tomap({")
			for i, r := range rows {
				if i > 0 {
					g.w(", ")
				}
				g.w([]string{"a", "b", "k"}[i] + " = " + r)
			}
			g.w("})")
		case "concat", "coalescelist", "setunion":
			a, b := lv(), lv()
			g.w(fn + "(" + a.name + ",")
			g.wsnlAt("args")
			g.w(b.name + ")")
			if fn == "concat" && a.val.Type().Equals(b.val.Type()) {
				info.listTyped = true
				info.mix, info.famName = a.mix, a.fam
				if a.mix != b.mix && a.mix != "none" && b.mix != "none" {
					info.mix = "mixed"
				} else if a.mix == "none" {
					info.mix = b.mix
				}
			}
		case "keys", "values", "merge", "lookup":
			v := g.pick([]string{"ml", "me", "mel", "ol", "{a = [], b = [1]}", "{}", "x"})
			switch fn {
			case "merge":
				g.w("merge(" + v + ", " + g.pick([]string{"ml", "mel", "{z = []}", "{}"}) + ")")
			case "lookup":
				g.w("lookup(" + v + ", \"k\", [])")
			default:
				g.w(fn + "(" + v + ")")
			}
			if fn == "values" && v == "ml" {
				info.listTyped, info.mix, info.famName = true, "mixed", "strlist"
			}
		case "reverse", "distinct", "flatten", "compact", "sort", "length":
			a := lv()
			g.w(fn + "(" + a.name + ")")
			if fn == "reverse" {
				info.listTyped, info.mix, info.famName = true, a.mix, a.fam
			}
		case "slice":
			a := lv()
			g.w("slice(" + a.name + ", 0, " + g.pick([]string{"0", "1", "2", "3", "9"}) + ")")
		case "chunklist":
			g.w("chunklist(" + g.pick([]string{"range(5)", "ll", "les", "lls", "[]"}) + ", " + g.pick([]string{"1", "2", "0"}) + ")")
		case "range":
			g.w("range(" + g.pick([]string{"0", "1", "3", "1, 4", "0, 10, 5"}) + ")")
		case "zipmap":
			rows, mix := g.rows(fam, 2)
			info.mix = mix
			g.w("zipmap([\"a\", \"b\"], ")
			g.tupleOf(rows)
			g.w(")")
		case "split":
			g.w("split(\",\", " + g.pick([]string{`""`, `"a,b"`, `","`, "foo"}) + ")")
		case "element":
			a := lv()
			g.w("element(" + a.name + ", " + g.pick([]string{"0", "1", "5"}) + ")")
		default: // try, f
			a := collVarByName(g.pick(allCollVars))
			if fn == "try" {
				g.w("try(" + a.name + g.pick([]string{"", "[9]", ".nosuch", "[*][*]"}) + ", [])")
			} else {
				g.w("f(" + a.name + ")")
				if a.typed == "list" {
					info.listTyped, info.mix, info.famName = true, a.mix, a.fam
				}
			}
		}
	case 11, 12, 13:
		v := collVarByName(g.pick(allCollVars))
		info.kind = "var-" + v.typed
		info.mix, info.famName = v.mix, v.fam
		info.listTyped = v.typed == "list"
		info.setTyped = v.typed == "set"
		g.w(v.name)
		if v.name == "ol" && g.coin(70) {
			// (attribute of an object: list(list(number)) / list(object))
			info.listTyped = true
			if g.coin(50) {
				g.w(".a")
				info.famName = "numlist"
			} else {
				g.w(".b")
				info.famName = "obj-list-attr"
			}
		}
	default:
		info.kind = "parenthesised-expr"
		info.famName = "none"
		g.w("(")
		g.expr(d - 1)
		g.w(")")
	}
	for i := range rowFams {
		if rowFams[i].name == info.famName {
			info.fam = &rowFams[i]
		}
	}
	return info
}

// ---------------------------------------------------------------------------------
// chains

func (g *gen) accessStep(info collInfo) {
	attr := info.fam != nil && info.fam.attr
	switch k := g.n(0, 9); {
	case attr && k < 6, k == 0:
		g.w(".a")
	case k == 1:
		g.w(g.pick([]string{".b", ".k", ".nosuch"}))
	case k < 5:
		g.w("[")
		g.zws("bracket")
		g.w(g.pick([]string{"0", "0", "1", "2", "-1", "i", "n1", "\"a\"", "\"k\"", "null", "ub"}))
		g.zws("bracket")
		g.w("]")
	case k == 5:
		g.w(g.pick([]string{".0", ".1"}))
	default:
		g.w(".a")
	}
}

// chain writes the access steps after a source; returns the number of splat operators.
func (g *gen) chain(info collInfo) int {
	nsplat := []int{0, 1, 2, 2, 2, 3}[uni(g.t, 6)]
	attr := info.fam != nil && info.fam.attr
	for i := 0; i < nsplat; i++ {
		g.zws("traversal")
		if g.coin(78) {
			g.w("[*]")
			g.lab("splat:full")
		} else {
			g.w(".*")
			g.lab("splat:attr")
		}
		if i < nsplat-1 {
			// between two splats: for the attribute families the step that reaches the inner list
			if (attr && i == 0 && g.coin(85)) || g.coin(15) {
				g.accessStep(info)
			}
		}
	}
	tail := g.n(0, 2)
	if nsplat == 0 {
		tail = g.n(1, 3)
	}
	for i := 0; i < tail; i++ {
		g.zws("traversal")
		g.accessStep(info)
	}
	switch {
	case nsplat == 0:
		g.lab("splat:none")
	case nsplat == 1:
		g.lab("splat:single")
	default:
		g.lab("splat:nested")
	}
	return nsplat
}

var collUses = []string{"bare", "bare", "template-interp", "for-collection", "for-condition", "conditional-predicate", "call-argument", "directive-for", "directive-if", "index-of-result", "equality", "object-value"}

// collChain writes source + chain in one of the positions an expression can stand in.
func (g *gen) collChain(d int) {
	use := g.pick(collUses)
	body := func() {
		info := g.collSource(d)
		ns := g.chain(info)
		g.lab("src:" + info.kind)
		g.lab("rows:" + map[string]string{"mixed": "mixed-empty-nonempty", "all-empty": "all-empty", "all-nonempty": "all-nonempty", "none": "none"}[info.mix])
		g.lab("rowfam:" + info.famName)
		if info.listTyped {
			g.lab("srctype:list")
		}
		if info.setTyped {
			g.lab("srctype:set")
		}
		if ns >= 2 && (info.listTyped || info.setTyped) && info.mix == "mixed" {
			g.lab("splat:nested-x-list-x-mixed-rows")
		}
	}
	g.lab("use:" + use)
	switch use {
	case "template-interp":
		g.w(`"`)
		g.w(g.pick([]string{"", "x", "$"}))
		g.w("${")
		g.zws("interp")
		body()
		g.zws("interp")
		g.w("}")
		g.w(g.pick([]string{"", "y"}))
		g.w(`"`)
	case "for-collection":
		if g.coin(50) {
			g.w("[for r in ")
			body()
			g.w(" : r]")
		} else {
			g.w("{for i, r in ")
			body()
			g.w(g.pick([]string{" : \"k${i}\" => r}", " : \"k\" => r...}"}))
		}
	case "for-condition":
		g.w("[for r in ll : r if ")
		body()
		g.w(g.pick([]string{" != []", " == r", " != null", ""}))
		g.w("]")
	case "conditional-predicate":
		if g.coin(50) {
			g.w("length(")
			body()
			g.w(") > 0 ? 1 : 2")
		} else {
			body()
			g.w(g.pick([]string{" == [] ? 1 : 2", " != null ? [1] : []", " ? 1 : 2"}))
		}
	case "call-argument":
		fn := g.pick([]string{"length", "f", "concat", "flatten", "tolist", "try", "can", "keys", "reverse", "join"})
		g.w(fn + "(")
		if fn == "join" {
			g.w(`",", `)
		}
		body()
		if fn == "concat" || fn == "try" {
			g.w(", ")
			g.w(g.pick([]string{"[]", "ll", "le", "[[]]"}))
		}
		g.w(")")
	case "directive-for":
		g.w(`"%{ for r in `)
		body()
		g.w(g.pick([]string{` }${r}%{ endfor }"`, ` }x%{ endfor }"`, ` ~}${length(r)}%{ endfor ~}"`}))
	case "directive-if":
		g.w(`"%{ if `)
		body()
		g.w(g.pick([]string{` != [] }x%{ endif }"`, ` }x%{ else }y%{ endif }"`}))
	case "index-of-result":
		g.w("(")
		body()
		g.w(")")
		g.w(g.pick([]string{"[0]", "[1]", "[0][0]", "[*]", ".a", "[*][*]"}))
	case "equality":
		body()
		g.wsAt("op")
		g.w(g.pick([]string{"==", "!="}))
		g.wsAt("op")
		g.w(g.pick([]string{"[]", "[[]]", "ll", "null", "[[], [1]]"}))
	case "object-value":
		g.w("{a = ")
		body()
		g.w(", b = [")
		body()
		g.w("]}")
	default:
		body()
	}
}

// ---------------------------------------------------------------------------------
// class gen:splat

func isSplatLabel(m string) bool {
	for _, p := range []string{"splat:", "src:", "srctype:", "rows:", "rowfam:", "use:"} {
		if strings.HasPrefix(m, p) {
			return true
		}
	}
	return false
}

func genSplat(t *rapid.T, kind string) ([]byte, []string) {
	zoo := 0
	if uni(t, 10) == 0 {
		zoo = []int{10, 30}[uni(t, 2)]
	}
	g := &gen{t: t, budget: 4 + uni(t, 20), zoo: zoo}
	d := 1 + uni(t, 3)
	switch kind {
	case "config":
		if g.coin(25) {
			g.w("blk \"l\" {\n  ")
			g.ident()
			g.w(" = ")
			g.collChain(d)
			g.w("\n}\n")
		} else {
			n := g.n(1, 2)
			for i := 0; i < n; i++ {
				g.ident()
				g.wsAt("eq")
				g.w("=")
				g.wsAt("eq")
				g.collChain(d)
				g.w("\n")
			}
		}
	case "template":
		switch uni(t, 3) {
		case 0:
			g.w(g.pick([]string{"", "x", "x\n"}))
			g.w("${")
			g.collChain(d)
			g.w("}")
			g.w(g.pick([]string{"", "y", "\n"}))
		case 1:
			g.w("%{ for r in ")
			g.collChain(d)
			g.w(" }${r}%{ endfor }")
		default:
			g.w("%{ if length(")
			g.collChain(d)
			g.w(") > 0 }x%{ else }y%{ endif }")
		}
	case "json":
		sub := &gen{t: t, budget: g.budget, zoo: zoo}
		sub.collChain(d)
		g.labs, g.note = sub.labs, sub.note
		text := strings.NewReplacer("\\", "\\\\", "\"", "\\\"", "\n", "\\n", "\r", "\\r", "\t", "\\t", "\f", "\\f", "\v", "\\u000b").Replace(sub.sb.String())
		switch uni(t, 3) {
		case 0:
			g.w("{\"a\": \"${" + text + "}\"}")
		case 1:
			g.w("{\"a\": [\"${" + text + "}\", \"x${" + text + "}\"], \"b\": {\"${" + text + "}\": 1}}")
		default:
			g.w("[\"${" + text + "}\"]")
		}
	default: // expr, traversal
		g.collChain(d)
	}
	return append([]byte(nil), g.sb.Bytes()...), g.labels()
}

// hand-written inputs for the seed corpus of the native fuzz targets (corpusgen_test.go)
var splatHand = map[string][]string{
	"config": {
		"a = (true ? [[], [1]] : [[2]])[*][*]\n",
		"a = (false ? [{a = [], b = 0}] : [{a = [1], b = 1}, {a = [], b = 0}])[*].a[*]\n",
		"a = [for r in [[], [1], [1, 2]] : r[*]]\nb = {for i, r in [[], [1]] : \"k\" => r[*]...}\n",
		"a = \"${[[], [1]][*][*]}\"\nb = [[], {}, null, 1].*.a\nc = null[*]\nd = [][*][*].x\n",
		"a = {a = [], b = [1]}.*.a[*]\nb = [[[]], [[1], []]][*][*][*]\n",
	},
	"expr": {
		"(true ? [[], [1]] : [[2]])[*][*]", "(1 == 1 ? [[1], []] : [])[*][0]", "[[], [1]][*][*]", "[{a = []}, {a = [1]}][*].a[*]", "(true ? {a = []} : {a = [1], b = 2}).*", "[for r in (false ? [[]] : [[], [1, 2]]) : r][*][*]",
		"{for r in [[], [1]] : \"k\" => r...}.k[*][*]", "length((true ? [[], [\"a\"]] : [[\"b\"]])[*][*]) > 0 ? 1 : 2", "[[], [1]].*.*", "null[*][*]", "[null, []][*][*]", "f([[], [1]])[*][*]", "concat([[]], [[1]])[*][*]",
	},
	"template": {
		"${(true ? [[], [1]] : [[2]])[*][*]}", "%{ for r in (true ? [[], [1]] : [[2]])[*][*] }${length(r)}%{ endfor }", "%{ if [[], [1]][*][*] != [] }x%{ endif }", "x${[{a = []}, {a = [1]}][*].a[*]}y",
	},
	"traversal": {"ll[*][*]", "lo[0].a[*]", "a.*.b", "a[*][*]"},
	"json": {
		`{"a": "${(true ? [[], [1]] : [[2]])[*][*]}"}`, `{"a": "${[for r in [[], [1]] : r[*]]}", "b": ["${[[], [1]].*.*}"]}`, `["${[{a = []}, {a = [1]}][*].a[*]}"]`,
	},
}

// ---------------------------------------------------------------------------------
// statistics for the evidence file (the driver keeps only the 60 most frequent labels)

var (
	splatStatMu sync.Mutex
	splatStat   = map[string]int{}
	splatStatN  int
)

func splatCount(labels []string) {
	any := false
	for _, l := range labels {
		if isSplatLabel(l) {
			any = true
			break
		}
	}
	if !any {
		return
	}
	conj, evaluated := false, false
	for _, l := range labels {
		conj = conj || l == "splat:nested-x-list-x-mixed-rows"
		evaluated = evaluated || l == "evaluated"
	}
	splatStatMu.Lock()
	for _, l := range labels {
		if isSplatLabel(l) || l == "gen:splat" || l == "evaluated" || strings.HasPrefix(l, "errors:") {
			splatStat[l]++
		}
	}
	if conj && evaluated {
		splatStat["splat:nested-x-list-x-mixed-rows & evaluated"]++
	}
	splatStatN++
	pub := splatStatN%64 == 0
	var cp map[string]int
	if pub {
		cp = make(map[string]int, len(splatStat))
		for k, v := range splatStat {
			cp[k] = v
		}
	}
	splatStatMu.Unlock()
	if pub {
		core.SetExtra("a_splat_label_counts_last_shard", cp)
	}
}

package c17

// Generators for C17: random bytes, grammar-generated native-syntax / JSON sources,
// the repository's own corpora, mutations on top of those, and deep-nesting inputs.
// All randomness goes through rapid draws.

import (
	"bytes"
	"fmt"
	"math/bits"
	"os"
	"path/filepath"
	"sort"
	"strings"

	"pgregory.net/rapid"

	"verifharness/internal/core"
)

// Entry points (Case.Entry).
const (
	eConfig      = "config"      // hclsyntax.ParseConfig
	eExpr        = "expr"        // hclsyntax.ParseExpression
	eTemplate    = "template"    // hclsyntax.ParseTemplate
	eTraversal   = "traversal"   // hclsyntax.ParseTraversalAbs
	eLexConfig   = "lexconfig"   // hclsyntax.LexConfig
	eLexExpr     = "lexexpr"     // hclsyntax.LexExpression
	eLexTemplate = "lextemplate" // hclsyntax.LexTemplate
	eJSON        = "json"        // json.Parse
	eJSONExpr    = "jsonexpr"    // json.ParseExpression
	eHCLWrite    = "hclwrite"    // hclwrite.ParseConfig
)

var allEntries = []string{eConfig, eExpr, eTemplate, eTraversal, eLexConfig, eLexExpr, eLexTemplate, eJSON, eJSONExpr, eHCLWrite}

// DeepSpec describes a deep-nesting input; the source text is synthesised from it
// so that the case stays small and shrinks on Depth.
type DeepSpec struct {
	Kind  string `json:"kind"`
	Depth int    `json:"depth"`
	// Close is the number of closers emitted (== Depth for a balanced input).
	Close int `json:"close"`
}

// Case is one input for one entry point.
type Case struct {
	Entry string    `json:"entry"`
	Gen   string    `json:"gen"`           // random | grammar | corpus | deep | fuzz
	Mut   []string  `json:"mut,omitempty"` // mutation kinds applied, in order
	Src   []byte    `json:"src,omitempty"` // the exact input bytes (base64 in JSON)
	Deep  *DeepSpec `json:"deep,omitempty"`
}

func (c Case) source() []byte {
	if c.Deep != nil {
		return buildDeep(*c.Deep)
	}
	return c.Src
}

// ---------------------------------------------------------------------------------
// size limits per tier

func maxLen() int {
	if core.Tier() == "thorough" {
		return 256 << 10
	}
	return 16 << 10
}

// ---------------------------------------------------------------------------------
// repository corpora (mutation bases), read once at test start

type corpusFile struct {
	kind string // config | expr | template | traversal | json
	data []byte
}

var corpus = loadCorpus()

func loadCorpus() []corpusFile {
	root := "/repo/teamserver/pkg/profile/yaotl"
	var out []corpusFile
	add := func(dir, kind string, exts ...string) {
		var files []string
		filepath.Walk(dir, func(p string, info os.FileInfo, err error) error {
			if err != nil || info.IsDir() {
				return nil
			}
			ok := len(exts) == 0
			for _, e := range exts {
				if strings.HasSuffix(p, e) {
					ok = true
				}
			}
			if ok && info.Size() <= 64<<10 {
				files = append(files, p)
			}
			return nil
		})
		sort.Strings(files)
		for _, f := range files {
			b, err := os.ReadFile(f)
			if err == nil {
				out = append(out, corpusFile{kind: kind, data: b})
			}
		}
	}
	add(root+"/hclsyntax/fuzz/config/corpus", "config")
	add(root+"/hclsyntax/fuzz/expr/corpus", "expr")
	add(root+"/hclsyntax/fuzz/template/corpus", "template")
	add(root+"/hclsyntax/fuzz/traversal/corpus", "traversal")
	add(root+"/hclwrite/fuzz/config/corpus", "config")
	add(root+"/json/fuzz/config/corpus", "json")
	add(root+"/specsuite/tests", "config", ".hcl")
	add(root+"/specsuite/tests", "json", ".json")
	add("/repo/profiles", "config", ".yaotl")
	return out
}

// ---------------------------------------------------------------------------------
// grammar generator

type gen struct {
	t      *rapid.T
	sb     bytes.Buffer
	budget int
	// white space zoo (wszoo_test.go): probability in percent that a blank-tolerating position
	// gets a run of "other" white space; 0 = the plain generator
	zoo  int
	note zooNote
	// labels of the collection-source / access-chain grammar (splat_test.go)
	labs map[string]bool
}

// uni draws a (nearly) uniform integer in [0,n). rapid's integer generators are biased
// towards small values on purpose (IntRange(0,99) yields 0 ten times as often as 99),
// which starves the later alternatives of a categorical choice; single bits are not
// biased, and still shrink towards 0, i.e. towards the first alternative.
func uni(t *rapid.T, n int) int {
	if n <= 1 {
		return 0
	}
	v := 0
	// 3 spare bits keep the modulo bias below 1/8
	for i := 0; i < bits.Len(uint(n-1))+3; i++ {
		if rapid.Bool().Draw(t, "u") {
			v |= 1 << uint(i)
		}
	}
	return v % n
}

func (g *gen) n(lo, hi int) int        { return lo + uni(g.t, hi-lo+1) }
func (g *gen) coin(pct int) bool       { return uni(g.t, 100) < pct }
func (g *gen) pick(xs []string) string { return xs[uni(g.t, len(xs))] }
func (g *gen) w(s string)              { g.sb.WriteString(s) }

var idents = []string{"a", "b", "c", "foo", "bar_baz", "var", "local", "each", "self", "x1", "_u", "k", "v", "i",
	"for", "in", "if", "else", "endif", "endfor", "true", "false", "null", "héllo", "名前", "a-b", "blk", "lbl", "lbl2", "f", "upper", "length", "try", "can", "concat",
	// variables of collCtx (splat_test.go): typed lists / sets / maps with empty rows
	"ll", "lo", "sl", "ml", "le", "lu"}

var spaces = []string{"", "", " ", " ", "  ", "\t", " \t "}

func (g *gen) ws() { g.w(g.pick(spaces)) }

// wsnl: whitespace where newlines and comments are permitted (inside brackets).
func (g *gen) wsnl() {
	switch g.n(0, 11) {
	case 0:
		g.w("\n")
	case 1:
		g.w(" /* c */ ")
	case 2:
		g.w(" # c\n")
	case 3:
		g.w(" // c\n")
	case 4:
		g.w("\r\n")
	default:
		g.ws()
	}
}

var numbers = []string{"0", "1", "42", "007", "1.5", "0.0", "1e10", "1E-3", "2e+2", "1.", "1e", "0x1F", "12345678901234567890123456789", "1e400", "3.14159", "1.2.3", "9"}

func (g *gen) ident() { g.w(g.pick(idents)) }

func (g *gen) leaf() {
	switch g.n(0, 7) {
	case 0, 1:
		g.w(g.pick(numbers))
	case 2, 3:
		g.ident()
	case 4:
		g.w(g.pick([]string{"true", "false", "null"}))
	case 5:
		g.w(`"`)
		g.w(g.pick(quotedLits))
		g.w(`"`)
	case 6:
		g.w(`""`)
	default:
		g.ident()
		g.w(".")
		g.ident()
	}
}

var binOps = []string{"+", "-", "*", "/", "%", "==", "!=", "<", ">", "<=", ">=", "&&", "||", "&", "|", "^", "**", "=>", "...", "="}

func (g *gen) expr(d int) {
	g.budget--
	if d <= 0 || g.budget <= 0 {
		g.leaf()
		return
	}
	switch g.n(0, 22) {
	case 22:
		// access chain (splats, index, traversal) over a collection-valued source (splat_test.go)
		g.collChain(d - 1)
	case 0, 1, 2:
		g.leaf()
	case 3:
		g.quoted(d - 1)
	case 4:
		g.heredoc(d - 1)
	case 5, 6:
		g.traversalExpr(d - 1)
	case 7:
		g.call(d - 1)
	case 8:
		g.tuple(d - 1)
	case 9:
		g.object(d - 1)
	case 10:
		g.forExpr(d - 1)
	case 11:
		g.expr(d - 1)
		g.wsAt("op")
		g.w("?")
		g.wsAt("op")
		g.expr(d - 1)
		g.wsAt("op")
		g.w(":")
		g.wsAt("op")
		g.expr(d - 1)
	case 12, 13, 14:
		g.expr(d - 1)
		g.wsAt("op")
		g.w(g.pick(binOps))
		g.wsAt("op")
		g.expr(d - 1)
	case 15:
		g.w(g.pick([]string{"-", "!", "- ", "!!", "~"}))
		g.expr(d - 1)
	case 16, 17:
		g.w("(")
		g.wsnlAt("bracket")
		g.expr(d - 1)
		g.wsnlAt("bracket")
		g.w(")")
	case 18:
		g.expr(d - 1)
		g.zws("bracket")
		g.w("[")
		g.wsnlAt("bracket")
		g.expr(d - 1)
		g.wsnlAt("bracket")
		g.w("]")
	case 19:
		g.w(g.pick(numbers))
	default:
		g.quoted(d - 1)
	}
}

func (g *gen) traversalExpr(d int) {
	g.ident()
	steps := g.n(1, 5)
	for i := 0; i < steps; i++ {
		g.zws("traversal")
		switch g.n(0, 9) {
		case 0, 1, 2:
			g.w(".")
			g.zws("traversal")
			g.ident()
		case 3:
			g.w("[")
			g.zws("bracket")
			g.w(g.pick(numbers))
			g.zws("bracket")
			g.w("]")
		case 4:
			g.w(`["`)
			g.w(g.pick(quotedLits))
			g.w(`"]`)
		case 5:
			g.w(".*")
		case 6:
			g.w("[*]")
		case 7:
			g.w(".")
			g.w(g.pick([]string{"0", "1", "0.1", "12"}))
		case 8:
			g.w("[")
			g.expr(d - 1)
			g.w("]")
		default:
			g.w(g.pick([]string{".", "[", "[*", ".*.*", "[]", ". a"}))
		}
	}
}

func (g *gen) call(d int) {
	g.w(g.pick([]string{"f", "upper", "length", "try", "can", "concat", "join", "min", "nosuch", "for", "if"}))
	g.zws("args")
	g.w("(")
	n := g.n(0, 3)
	for i := 0; i < n; i++ {
		if i > 0 {
			g.zws("args")
			g.w(",")
		}
		g.wsnlAt("args")
		g.expr(d - 1)
	}
	switch g.n(0, 7) {
	case 0:
		g.w("...")
	case 1:
		g.w(",")
	case 2:
		g.wsnlAt("args")
	}
	g.zws("args")
	g.w(")")
}

func (g *gen) tuple(d int) {
	g.w("[")
	n := g.n(0, 4)
	for i := 0; i < n; i++ {
		if i > 0 {
			g.zws("bracket")
			g.w(",")
		}
		g.wsnlAt("bracket")
		g.expr(d - 1)
	}
	if g.coin(15) {
		g.w(",")
	}
	g.wsnlAt("bracket")
	g.w("]")
}

func (g *gen) object(d int) {
	g.w("{")
	n := g.n(0, 4)
	for i := 0; i < n; i++ {
		g.wsnlAt("obrace")
		switch g.n(0, 4) {
		case 0:
			g.ident()
		case 1:
			g.w(`"`)
			g.w(g.pick(quotedLits))
			g.w(`"`)
		case 2:
			g.w("(")
			g.expr(d - 1)
			g.w(")")
		case 3:
			g.ident()
			g.w(".")
			g.ident()
		default:
			g.expr(d - 1)
		}
		g.wsAt("eq")
		g.w(g.pick([]string{"=", "=", ":", "=>", ""}))
		g.wsAt("eq")
		g.expr(d - 1)
		g.zws("eol")
		g.w(g.pick([]string{",", "\n", ",\n", "\r\n", " "}))
	}
	g.wsnlAt("cbrace")
	g.w("}")
}

func (g *gen) forExpr(d int) {
	obj := g.coin(50)
	if obj {
		g.w("{")
	} else {
		g.w("[")
	}
	g.wsnlAt("for")
	g.w("for")
	g.sepAt("for")
	if g.coin(50) {
		g.ident()
		g.zws("for")
		g.w(",")
		g.sepAt("for")
	}
	g.ident()
	g.zws("for")
	g.w(g.pick([]string{" in ", " in ", "\nin\n", " of ", " "}))
	g.zws("for")
	g.expr(d - 1)
	g.wsAt("for")
	g.w(":")
	g.wsnlAt("for")
	if obj || g.coin(10) {
		g.expr(d - 1)
		g.w(" => ")
	}
	g.expr(d - 1)
	if g.coin(25) {
		g.w("...")
	}
	if g.coin(40) {
		g.w(" if ")
		g.zws("for")
		g.expr(d - 1)
	}
	g.wsnlAt("for")
	if obj {
		g.w("}")
	} else {
		g.w("]")
	}
}

var quotedLits = []string{"hello", " ", "wörld", "日本", "a b", "$", "%", "$$", "%%", "$${", "%%{", "$${a}", "~", "}", "{", "#", "//", "/*", "*/", "<<EOT", "'", "`", ";",
	`\n`, `\t`, `\r`, `\"`, `\\`, `\u00e9`, `\U0001F600`, `\x41`, `\xff`, `\x4`, `\x`, `\xZZ`, `\u12`, `\U0011FFFF`, `\uD800`, `\q`, `\$`, "é́", "\u200d", "k", "0", ""}

var rawLits = []string{"hello", " ", "  ", "\t", "wörld", "日本", "a b", "$", "%", "$$", "%%", "$${", "%%{", "~", "}", "{", "#", "//", "/*", "*/", "<<EOT", "'", "`", ";", `"`, `\`, `\n`, "\n", "\n", "\r\n", "  \n", "    x\n", "EOT", "EOT ", "é́", ""}

func (g *gen) tmplParts(d int, lits []string) {
	n := g.n(0, 5)
	for i := 0; i < n; i++ {
		g.budget--
		if g.budget <= 0 {
			g.w(g.pick(lits))
			return
		}
		switch g.n(0, 9) {
		case 0, 1, 2, 3:
			g.w(g.pick(lits))
		case 4, 5, 6:
			g.interp(d)
		case 7:
			g.directive(d, false, lits)
		case 8:
			g.directive(d, true, lits)
		default:
			if g.coin(50) {
				g.w(g.pick(dirSnippets))
			} else {
				g.w(g.pick([]string{"%{", "%{ bogus }", "%{ }", "${}", "${", "%{ if }", "%{ for }", "%{ for x }", "%{ endfor }", "%{ else }"}))
			}
		}
	}
}

// directive writes one %{ if } ... %{ endif } or %{ for } ... %{ endfor } construct.
func (g *gen) directive(d int, isFor bool, lits []string) {
	if !isFor {
		g.dirOpen("if", []string{"%{ if ", "%{if ", "%{~ if "})
		g.expr(d - 1)
		g.dirClose([]string{" }", "}", " ~}"})
		g.tmplParts(d-1, lits)
		if g.coin(50) {
			g.dirBare("else", []string{"%{ else }", "%{else}", "%{ else ~}"})
			g.tmplParts(d-1, lits)
		}
		if g.zoo > 0 && g.coin(70) {
			g.dirBare("endif", nil)
		} else {
			g.w(g.pick([]string{"%{ endif }", "%{endif}", "%{ endfor }", "", "%{ endif"}))
		}
		return
	}
	g.dirOpen("for", []string{"%{ for "})
	if g.coin(40) {
		g.ident()
		g.zws("directive")
		g.w(",")
		g.sepAt("directive")
	}
	g.ident()
	g.sepAt("directive")
	g.w("in")
	g.sepAt("directive")
	g.expr(d - 1)
	g.dirClose([]string{" }", "}", " ~}"})
	g.tmplParts(d-1, lits)
	if g.zoo > 0 && g.coin(70) {
		g.dirBare("endfor", nil)
	} else {
		g.w(g.pick([]string{"%{ endfor }", "%{endfor}", "%{ endif }", "", "%{ else }"}))
	}
}

func (g *gen) quoted(d int) {
	g.w(`"`)
	g.tmplParts(d, quotedLits)
	g.w(`"`)
}

func (g *gen) heredoc(d int) {
	g.heredocOf(d, uni(g.t, 3) == 2)
}

// heredocOf writes <<ID (flush: <<-ID) ... ID; the zoo positions are: before `<<`, between
// the opening marker and its newline, the indentation and the end of every body line, and
// before and after the closing marker.
func (g *gen) heredocOf(d int, flush bool) {
	marker := g.pick([]string{"EOT", "EOT", "E", "END_1", "é", "a-b"})
	g.zws("hd-open-pre")
	if flush {
		g.w("<<-")
	} else {
		g.w("<<")
	}
	g.w(marker)
	g.zws("hd-open-post")
	g.w(g.pick([]string{"\n", "\n", "\r\n"}))
	lines := g.n(0, 4)
	for i := 0; i < lines; i++ {
		g.w(g.pick([]string{"", "  ", "    ", "\t", " "}))
		g.zws("hd-indent")
		g.tmplParts(d, rawLits)
		g.zws("hd-line-end")
		g.w(g.pick([]string{"\n", "\n", "\r\n"}))
	}
	g.w(g.pick([]string{"", "  ", "\t"}))
	g.zws("hd-close-pre")
	g.w(marker)
	g.zws("hd-close-post")
	g.w(g.pick([]string{"\n", "\n", "\r\n", "", " \n"}))
}

func (g *gen) comment() {
	switch g.n(0, 5) {
	case 0:
		g.w("# hash comment\n")
	case 1:
		g.w("// slash comment\n")
	case 2:
		g.w("/* block\n comment */")
	case 3:
		g.w("/* inline */ ")
	case 4:
		g.w("#\n")
	default:
		g.w("/**/\n")
	}
}

func (g *gen) body(d int, indent string) {
	n := g.n(0, 5)
	for i := 0; i < n; i++ {
		g.budget--
		if g.budget <= 0 {
			return
		}
		g.w(indent)
		g.zws("bol")
		switch g.n(0, 11) {
		case 0, 1, 2, 3, 4:
			g.ident()
			g.wsAt("eq")
			g.w("=")
			g.wsAt("eq")
			g.expr(d)
			g.zws("eol")
			g.w(g.pick([]string{"\n", "\n", "\n", "\r\n", " # c\n", " // c\n", " /* c */\n", ""}))
		case 5, 6, 7:
			if d <= 0 {
				g.w("\n")
				continue
			}
			g.ident()
			nl := g.n(0, 2)
			for j := 0; j < nl; j++ {
				g.sepAt("label")
				if g.coin(60) {
					g.w(`"`)
					g.w(g.pick(quotedLits))
					g.w(`"`)
				} else {
					g.ident()
				}
			}
			g.zws("obrace")
			g.w(g.pick([]string{" {", " {", "{", " {\n"}))
			g.zws("obrace")
			switch g.n(0, 3) {
			case 0:
				g.w("}")
			case 1:
				g.w(" ")
				g.ident()
				g.sepAt("eq")
				g.w("=")
				g.sepAt("eq")
				g.expr(d - 1)
				g.sepAt("cbrace")
				g.w("}")
			default:
				g.w("\n")
				g.body(d-1, indent+"  ")
				g.w(indent)
				g.zws("cbrace")
				g.w("}")
			}
			g.zws("eol")
			g.w(g.pick([]string{"\n", "\n", "\r\n", ""}))
		case 8, 9:
			g.comment()
		case 10:
			g.w("\n")
		default:
			g.w(g.pick([]string{"= 1\n", "a b c\n", "}\n", "a = \n", "\"q\" = 1\n", "a {\n", "a = 1, b = 2\n", "a = 1 b = 2\n", "blk { a = 1, b = 2 }\n", ";\n"}))
		}
	}
}

func (g *gen) traversal() {
	g.ident()
	n := g.n(0, 5)
	for i := 0; i < n; i++ {
		g.zws("traversal")
		switch g.n(0, 8) {
		case 0, 1, 2:
			g.w(".")
			g.zws("traversal")
			g.ident()
		case 3, 4:
			g.w("[")
			g.zws("bracket")
			g.w(g.pick(numbers))
			g.zws("bracket")
			g.w("]")
		case 5:
			g.w(`["`)
			g.w(g.pick(quotedLits))
			g.w(`"]`)
		case 6:
			g.w(g.pick([]string{".*", "[*]", "[a]", "[", ".", "[\"a\"", " ", "\n.b", "[1", "()", "[\"${a}\"]"}))
		default:
			g.ws()
		}
	}
}

var jsonKeys = []string{"a", "b", "c", "//", "blk", "lbl", "lbl2", "${a}", "k", "", "foo", "é", "a.b", "%{if true}x%{endif}"}
var jsonStrs = []string{`hello`, ``, `${a}`, `${a.b[0]}`, `%{ if true }x%{ endif }`, `%{ for x in [1,2] }${x}%{ endfor }`, `$${a}`, `\n`, `\"`, `\\`, `\/`, `\u00e9`, `\ud83d\ude00`, `\ud800`, `\x41`, `\u12`, `wörld`, `日本`, `a.b.c`, `f(1)`, `${`, `${"`, `%{`, `${a`, "\t", `1`, `true`, `[*]`, `a[0]`}
var jsonNums = []string{"0", "-1", "1.5", "1e10", "1E-3", "1e400", "00", "-", "1.", ".5", "+1", "1e", "12345678901234567890", "-0", "0.0000001"}
var jsonKws = []string{"true", "false", "null", "True", "NaN", "undefined", "Infinity", "nul", "nil", "e", "E1"}
var jsonWS = []string{"", "", " ", "\n", "\t", "\r\n", "  "}

func (g *gen) jws() {
	if g.zoo > 0 && g.coin(g.zoo) {
		g.zrun("json")
		return
	}
	g.w(g.pick(jsonWS))
}

// jsonTemplateString: a JSON string holding a native template written in zoo mode (white
// space inside its ${ } and %{ } sequences), control characters raw or escaped.
func (g *gen) jsonTemplateString() {
	sub := &gen{t: g.t, budget: 6, zoo: g.zoo}
	sub.tmplParts(1, quotedLits)
	text := strings.NewReplacer("\\", "\\\\", "\"", "\\\"", "\n", "\\n").Replace(sub.sb.String())
	if g.coin(60) {
		text = strings.NewReplacer("\f", "\\f", "\r", "\\r", "\v", "\\u000b", "\t", "\\t", "\u2028", "\\u2028", "\u00a0", "\\u00a0").Replace(text)
	}
	g.w(`"`)
	g.w(text)
	g.w(`"`)
	if len(sub.note.at) > 0 {
		var names []string
		for n := range sub.note.ch {
			names = append(names, n)
		}
		sort.Strings(names)
		g.note.add("json-string", names)
	}
}

func (g *gen) jsonString(pool []string) {
	if g.zoo > 0 && g.coin(30) {
		g.jsonTemplateString()
		return
	}
	g.w(`"`)
	n := g.n(0, 2)
	g.w(g.pick(pool))
	for i := 0; i < n; i++ {
		g.w(g.pick(jsonStrs))
	}
	g.w(`"`)
}

func (g *gen) jsonValue(d int) {
	g.budget--
	k := g.n(0, 9)
	if d <= 0 || g.budget <= 0 {
		k = 4 + k%6
	}
	switch k {
	case 0, 1:
		g.w("{")
		n := g.n(0, 4)
		for i := 0; i < n; i++ {
			if i > 0 {
				g.w(g.pick([]string{",", ",", ",", "", ";"}))
			}
			g.jws()
			g.jsonString(jsonKeys)
			g.jws()
			g.w(g.pick([]string{":", ":", ":", ":", "=", ""}))
			g.jws()
			g.jsonValue(d - 1)
			g.jws()
		}
		if g.coin(5) {
			g.w(",")
		}
		g.w(g.pick([]string{"}", "}", "}", "}", "]", ""}))
	case 2, 3:
		g.w("[")
		n := g.n(0, 4)
		for i := 0; i < n; i++ {
			if i > 0 {
				g.w(g.pick([]string{",", ",", ",", "", ":"}))
			}
			g.jws()
			g.jsonValue(d - 1)
			g.jws()
		}
		if g.coin(5) {
			g.w(",")
		}
		g.w(g.pick([]string{"]", "]", "]", "]", "}", ""}))
	case 4, 5, 6:
		g.jsonString(jsonStrs)
	case 7, 8:
		g.w(g.pick(jsonNums))
	default:
		g.w(g.pick(jsonKws))
	}
}

// genGrammar produces a syntactically plausible source of the given kind.
func genGrammar(t *rapid.T, kind string) []byte {
	b, _ := genGrammarL(t, kind, 0)
	return b
}

// genGrammarL: the same with the white space zoo at zoo percent (0 = off); also returns the
// zoo labels of what was written.
func genGrammarL(t *rapid.T, kind string, zoo int) ([]byte, []string) {
	g := &gen{t: t, budget: 3 + uni(t, 58), zoo: zoo}
	d := 1 + uni(t, 5)
	switch kind {
	case "config":
		g.body(d, "")
	case "expr":
		g.expr(d)
	case "template":
		g.tmplParts(d, rawLits)
		if g.coin(30) {
			g.tmplParts(d, rawLits)
		}
	case "traversal":
		g.traversal()
	case "json":
		g.jws()
		if g.coin(70) {
			// force a container at the root so that json.Parse gets a body
			g.w("{")
			n := g.n(0, 4)
			for i := 0; i < n; i++ {
				if i > 0 {
					g.w(",")
				}
				g.jws()
				g.jsonString(jsonKeys)
				g.w(":")
				g.jws()
				g.jsonValue(d)
			}
			g.jws()
			g.w("}")
		} else {
			g.jsonValue(d)
		}
		g.jws()
	}
	return append([]byte(nil), g.sb.Bytes()...), g.labels()
}

// ---------------------------------------------------------------------------------
// mutations

var insertTokens = []string{"${", "%{", "<<EOT\n", "<<-EOT\n", "\"", "\\", "[", "(", "{", "*/", ",", "}", ")", "]", "~}", "\n", "EOT\n", "/*", "#", "//", "=", ":", "?", "=>", "...", "'", "`", ";", "\t", "\r", ".", ".*", "[*]", "$", "%", "$${", "%%{", " ", "for ", "if ", "%{ endif }", "%{ else }", "\x00", "\\u", "\\x"}

var badUTF8 = [][]byte{{0x80}, {0xC0}, {0xFF}, {0xE2, 0x82}, {0xF0, 0x9F}, {0xED, 0xA0, 0x80}, {0xC0, 0xAF}, {0xF8, 0x88, 0x80, 0x80, 0x80}, {0xFE}, {0xEF, 0xBB}, {0xF4, 0x90, 0x80, 0x80}}

var bom = []byte{0xEF, 0xBB, 0xBF}

var mutKinds = []string{"flip", "delete", "dup", "insert", "truncate", "badutf8", "bom", "crlf", "splice", "repeat", "wszoo"}

// applyMut applies one mutation; the white space zoo mutation also yields labels (they
// follow the mutation's name in Case.Mut).
func applyMut(t *rapid.T, c *Case, kind string, other func() []byte) {
	if kind == "wszoo" {
		var labels []string
		c.Src, labels = mutateZoo(t, c.Src)
		c.Mut = append(c.Mut, kind)
		for _, l := range labels {
			dup := false
			for _, m := range c.Mut {
				dup = dup || m == l
			}
			if !dup {
				c.Mut = append(c.Mut, l)
			}
		}
		return
	}
	c.Src = mutate(t, c.Src, kind, other)
	c.Mut = append(c.Mut, kind)
}

func pos(t *rapid.T, n int) int {
	if n <= 0 {
		return 0
	}
	return uni(t, n+1)
}

func mutate(t *rapid.T, b []byte, kind string, other func() []byte) []byte {
	limit := maxLen()
	switch kind {
	case "flip":
		if len(b) == 0 {
			return []byte{byte(uni(t, 256))}
		}
		out := append([]byte(nil), b...)
		k := rapid.IntRange(1, 3).Draw(t, "nflip")
		for i := 0; i < k; i++ {
			p := uni(t, len(out))
			if rapid.Bool().Draw(t, "bit") {
				out[p] ^= 1 << uint(uni(t, 8))
			} else {
				out[p] = byte(uni(t, 256))
			}
		}
		return out
	case "delete":
		if len(b) == 0 {
			return b
		}
		p := uni(t, len(b))
		l := rapid.IntRange(1, min(len(b)-p, 16)).Draw(t, "len")
		return append(append([]byte(nil), b[:p]...), b[p+l:]...)
	case "dup":
		if len(b) == 0 {
			return b
		}
		p := uni(t, len(b))
		l := rapid.IntRange(1, min(len(b)-p, 32)).Draw(t, "len")
		out := append([]byte(nil), b[:p+l]...)
		out = append(out, b[p:p+l]...)
		return append(out, b[p+l:]...)
	case "repeat":
		// repeat a chunk many times: reaches the larger size classes
		if len(b) == 0 {
			return b
		}
		p := uni(t, len(b))
		l := rapid.IntRange(1, min(len(b)-p, 64)).Draw(t, "len")
		maxRep := (limit - len(b)) / l
		if maxRep < 1 {
			return b
		}
		// nesting depth is the business of sub-check (b): the repetition count is capped so
		// that repeating a chunk with openers in it stays within the same depth bound
		openers := 1
		for _, ch := range b[p : p+l] {
			switch ch {
			case '(', '[', '{', '"', '-', '!', '?':
				openers++
			}
		}
		maxRep = min(maxRep, 4096, deepMax/openers)
		if maxRep < 1 {
			return b
		}
		k := 1 + uni(t, maxRep)
		if rapid.Bool().Draw(t, "fewreps") {
			k = rapid.IntRange(1, maxRep).Draw(t, "reps")
		}
		out := append([]byte(nil), b[:p]...)
		for i := 0; i < k; i++ {
			out = append(out, b[p:p+l]...)
		}
		return append(out, b[p:]...)
	case "insert":
		p := pos(t, len(b))
		tok := insertTokens[uni(t, len(insertTokens))]
		if uni(t, 6) == 0 {
			tok = dirSnippets[uni(t, len(dirSnippets))]
		}
		out := append([]byte(nil), b[:p]...)
		out = append(out, tok...)
		return append(out, b[p:]...)
	case "truncate":
		return append([]byte(nil), b[:pos(t, len(b))]...)
	case "badutf8":
		p := pos(t, len(b))
		bad := badUTF8[uni(t, len(badUTF8))]
		out := append([]byte(nil), b[:p]...)
		out = append(out, bad...)
		return append(out, b[p:]...)
	case "bom":
		switch uni(t, 4) {
		case 0, 1:
			return append(append([]byte(nil), bom...), b...)
		case 2:
			return append(append(append([]byte(nil), bom...), bom...), b...)
		default:
			p := pos(t, len(b))
			out := append([]byte(nil), b[:p]...)
			out = append(out, bom...)
			return append(out, b[p:]...)
		}
	case "crlf":
		switch uni(t, 4) {
		case 0:
			return bytes.ReplaceAll(b, []byte("\n"), []byte("\r\n"))
		case 1:
			return bytes.ReplaceAll(b, []byte("\n"), []byte("\r"))
		case 2:
			return bytes.ReplaceAll(b, []byte("\r\n"), []byte("\n"))
		default:
			i := bytes.IndexByte(b, '\n')
			if i < 0 {
				return append(append([]byte(nil), b...), '\r', '\n')
			}
			out := append([]byte(nil), b[:i]...)
			out = append(out, '\r')
			return append(out, b[i:]...)
		}
	case "splice":
		o := other()
		p := pos(t, len(b))
		q := pos(t, len(o))
		return append(append([]byte(nil), b[:p]...), o[q:]...)
	}
	return b
}

// kindFor maps an entry point to the grammar kind that matches it.
func kindFor(entry string) string {
	switch entry {
	case eConfig, eLexConfig, eHCLWrite:
		return "config"
	case eExpr, eLexExpr:
		return "expr"
	case eTemplate, eLexTemplate:
		return "template"
	case eTraversal:
		return "traversal"
	default:
		return "json"
	}
}

var grammarKinds = []string{"config", "expr", "template", "traversal", "json"}

// genCase: sub-check (a).
func genCase(t *rapid.T) Case {
	var c Case
	c.Entry = allEntries[uni(t, len(allEntries))]
	cls := uni(t, 100)
	kind := kindFor(c.Entry)
	if uni(t, 100) < 12 {
		// occasionally feed one syntax to another entry point
		kind = grammarKinds[uni(t, len(grammarKinds))]
	}
	base := func() []byte {
		var cands []int
		for i, f := range corpus {
			if f.kind == kind {
				cands = append(cands, i)
			}
		}
		if len(cands) == 0 {
			return genGrammar(t, kind)
		}
		return corpus[cands[uni(t, len(cands))]].data
	}
	switch {
	case cls < 12:
		c.Gen = "random"
		n := rapid.IntRange(0, 64).Draw(t, "rlen")
		if uni(t, 20) == 0 {
			n = rapid.IntRange(0, min(maxLen(), 4096)).Draw(t, "rlenbig")
		}
		// bytes biased towards the characters the scanners branch on
		alphabet := []byte("${}%[]()\"\\<>-~=!&|*/#.,:?\n\r\t 0aEeOT")
		out := make([]byte, n)
		for i := range out {
			if rapid.Bool().Draw(t, "ascii") {
				out[i] = alphabet[uni(t, len(alphabet))]
			} else {
				out[i] = byte(uni(t, 256))
			}
		}
		c.Src = out
		return c
	case cls < 24:
		// the template-directive family (directive_test.go); the labels travel in Mut
		dc := genDirectiveCase(t)
		if uni(t, 4) == 0 {
			k := mutKinds[uni(t, len(mutKinds))]
			applyMut(t, &dc, k, func() []byte { return genGrammar(t, "template") })
		}
		if len(dc.Src) > maxLen() {
			dc.Src = dc.Src[:maxLen()]
		}
		if capped, did := capScanCost(dc.Src); did {
			dc.Src = capped
		}
		return dc
	case cls < 33:
		// the white space zoo (wszoo_test.go): one construct in focus, "other" white space at
		// its blank-tolerating positions; the labels travel in Mut
		c.Gen = "wszoo"
		c.Src, c.Mut = genZoo(t, kind)
	case cls < 41:
		// access chains (splat / index / traversal) over collection-valued sources
		// (splat_test.go); the labels travel in Mut
		c.Gen = "splat"
		c.Src, c.Mut = genSplat(t, kind)
	case cls < 77:
		c.Gen = "grammar"
		if uni(t, 100) < 15 {
			c.Src, c.Mut = genGrammarL(t, kind, []int{5, 10, 20, 30}[uni(t, 4)])
		} else {
			c.Src, c.Mut = genGrammarL(t, kind, 0)
		}
	default:
		c.Gen = "corpus"
		c.Src = append([]byte(nil), base()...)
	}
	nm := uni(t, 4)
	if c.Gen == "corpus" && nm == 0 {
		nm = 1
	}
	if c.Gen == "splat" && uni(t, 10) < 7 {
		// (this class is about evaluation: most of its cases stay unmutated so that they still parse)
		nm = 0
	}
	for i := 0; i < nm; i++ {
		k := mutKinds[uni(t, len(mutKinds))]
		applyMut(t, &c, k, func() []byte {
			if rapid.Bool().Draw(t, "spliceFromCorpus") {
				return base()
			}
			return genGrammar(t, kind)
		})
	}
	if len(c.Src) > maxLen() {
		c.Src = c.Src[:maxLen()]
		c.Mut = append(c.Mut, "cap")
	}
	if capped, did := capScanCost(c.Src); did {
		c.Src = capped
		c.Mut = append(c.Mut, "cap-comment-openers")
	}
	return c
}

// capScanCost keeps an input inside the region where the scanner's cost is far below the
// termination watchdog. The block-comment rule ("/*" any* :>> "*/") makes the generated
// scanner run to the end of the input for every "/*" that has no terminator and then
// backtrack to the "/" token, i.e. k unterminated openers cost k*len steps: 64 KiB of
// "/* " was measured at 19 s (16 KiB: 1.2 s) on the loaded build machine. That is slow,
// not endless, so it is not what the termination oracle is about; the product
// (#"/*") * len is bounded here (the input is cut) so that a firing watchdog means a hang.
func capScanCost(src []byte) ([]byte, bool) {
	const budget = 1 << 27
	did := false
	for len(src) > 0 && bytes.Count(src, []byte("/*"))*len(src) > budget {
		src = src[:len(src)*3/4]
		did = true
	}
	return src, did
}

// ---------------------------------------------------------------------------------
// deep nesting: sub-check (b)

type deepKind struct {
	name         string
	open, close_ string
	core         string
	pre, post    string // wrapped around the whole thing
	entries      []string
}

var nativeExprEntries = []string{eExpr, eConfig, eHCLWrite, eTemplate, eLexExpr, eTraversal}

var deepKinds = []deepKind{
	{name: "parens", open: "(", close_: ")", core: "1"},
	{name: "brackets", open: "[", close_: "]", core: ""},
	{name: "tuple1", open: "[1,", close_: "]", core: "2"},
	{name: "braces", open: "{a=", close_: "}", core: "1"},
	{name: "objnl", open: "{\na = ", close_: "\n}", core: "1"},
	{name: "call", open: "f(", close_: ")", core: "1"},
	{name: "index", open: "a[", close_: "]", core: "0"},
	{name: "splat", open: "a[*].b[", close_: "]", core: "0"},
	{name: "unary-minus", open: "-", close_: "", core: "1"},
	{name: "unary-bang", open: "!", close_: "", core: "true"},
	{name: "cond-right", open: "true ? 1 : ", close_: "", core: "0"},
	{name: "cond-mid", open: "true ? ", close_: " : 0", core: "1"},
	{name: "binary-chain", open: "1 + ", close_: "", core: "1"},
	{name: "traversal-chain", open: "", close_: ".a[0]", core: "a"},
	{name: "quoted-interp", open: "\"${", close_: "}\"", core: "1"},
	{name: "quoted-interp-lit", open: "\"x${", close_: "}y\"", core: "a"},
	{name: "for-tuple", open: "[for x in ", close_: " : x]", core: "y"},
	{name: "for-object", open: "{for k, v in ", close_: " : k => v}", core: "y"},
	{name: "heredoc-interp", open: "<<E\n${", close_: "}\nE\n", core: "1"},
	{name: "tmpl-if", open: "%{ if true }", close_: "%{ endif }", core: "x", entries: []string{eTemplate, eLexTemplate}},
	{name: "tmpl-for", open: "%{ for x in y }", close_: "%{ endfor }", core: "x", entries: []string{eTemplate, eLexTemplate}},
	{name: "tmpl-interp-quoted", open: "${\"", close_: "\"}", core: "x", entries: []string{eTemplate, eLexTemplate}},
	{name: "blocks", open: "b {\n", close_: "}\n", core: "a = 1\n", entries: []string{eConfig, eHCLWrite, eLexConfig}},
	{name: "blocks-labelled", open: "b \"l\" {\n", close_: "}\n", core: "", entries: []string{eConfig, eHCLWrite, eLexConfig}},
	{name: "block-comment-openers", open: "/*", close_: "*/", core: " ", entries: []string{eConfig, eLexConfig, eHCLWrite}},
	{name: "json-arrays", open: "[", close_: "]", core: "", entries: []string{eJSON, eJSONExpr}},
	{name: "json-objects", open: "{\"a\":", close_: "}", core: "1", entries: []string{eJSON, eJSONExpr}},
	{name: "json-mixed", open: "[{\"blk\":", close_: "}]", core: "null", entries: []string{eJSON, eJSONExpr}},
	{name: "json-string-template", pre: "{\"a\":\"", post: "\"}", open: "${[", close_: "]}", core: "1", entries: []string{eJSON, eJSONExpr}},
	{name: "json-string-quotes", pre: "{\"a\":\"", post: "\"}", open: "${\\\"", close_: "\\\"}", core: "x", entries: []string{eJSON, eJSONExpr}},
	// template directives in every template carrier (bare template: tmpl-if / tmpl-for above)
	{name: "tmpl-if-min", open: "%{if a}", close_: "%{endif}", core: "", entries: []string{eTemplate, eLexTemplate}},
	{name: "tmpl-if-else", open: "%{ if a }x%{ else }", close_: "%{ endif }", core: "y", entries: []string{eTemplate, eLexTemplate}},
	{name: "tmpl-if-for", open: "%{ if true }%{ for x in y }", close_: "%{ endfor }%{ endif }", core: "x", entries: []string{eTemplate, eLexTemplate}},
	{name: "tmpl-if-strip", open: "%{~ if true ~}", close_: "%{~ endif ~}", core: "x", entries: []string{eTemplate, eLexTemplate}},
	{name: "quoted-if", pre: "\"", post: "\"", open: "%{ if true }", close_: "%{ endif }", core: "x"},
	{name: "quoted-for", pre: "\"", post: "\"", open: "%{ for x in y }", close_: "%{ endfor }", core: "x"},
	{name: "heredoc-if", pre: "<<E\n", post: "\nE\n", open: "%{ if true }", close_: "%{ endif }", core: "x"},
	{name: "heredoc-for", pre: "<<-E\n  ", post: "\n  E\n", open: "%{ for x in y }", close_: "%{ endfor }", core: "x"},
	{name: "json-string-if", pre: "{\"a\":\"", post: "\"}", open: "%{ if true }", close_: "%{ endif }", core: "x", entries: []string{eJSON, eJSONExpr}},
	{name: "json-string-for", pre: "{\"a\":\"", post: "\"}", open: "%{ for x in y }", close_: "%{ endfor }", core: "x", entries: []string{eJSON, eJSONExpr}},
}

func deepKindByName(n string) *deepKind {
	for i := range deepKinds {
		if deepKinds[i].name == n {
			return &deepKinds[i]
		}
	}
	return nil
}

// deepMax is the depth bound of the class. 5000 is the bound named by the property;
// no kind needed a lower cap (see the measurements recorded by TestC17b).
const deepMax = 5000

func buildDeep(s DeepSpec) []byte {
	k := deepKindByName(s.Kind)
	if k == nil {
		return nil
	}
	var b bytes.Buffer
	b.Grow(len(k.pre) + s.Depth*len(k.open) + len(k.core) + s.Close*len(k.close_) + len(k.post) + 16)
	b.WriteString(k.pre)
	for i := 0; i < s.Depth; i++ {
		b.WriteString(k.open)
	}
	b.WriteString(k.core)
	for i := 0; i < s.Close; i++ {
		b.WriteString(k.close_)
	}
	b.WriteString(k.post)
	return b.Bytes()
}

func wrapForEntry(entry string, src []byte) []byte {
	switch entry {
	case eConfig, eHCLWrite, eLexConfig:
		return []byte("a = " + string(src) + "\n")
	case eTemplate, eLexTemplate:
		return []byte("x${" + string(src) + "}y")
	}
	return src
}

func genDeep(t *rapid.T) Case {
	k := deepKinds[uni(t, len(deepKinds))]
	entries := k.entries
	if entries == nil {
		entries = nativeExprEntries
	}
	entry := entries[uni(t, len(entries))]
	depth := rapid.OneOf(
		rapid.SampledFrom([]int{1, 2, 10, 100, 500, 1000, 2500, deepMax}),
		rapid.IntRange(1, deepMax),
		rapid.IntRange(1, 200),
	).Draw(t, "depth")
	closeN := depth
	switch uni(t, 6) {
	case 0:
		closeN = 0
	case 1:
		closeN = rapid.IntRange(0, depth).Draw(t, "closeN")
	case 2:
		closeN = depth + rapid.IntRange(1, 3).Draw(t, "extra")
	}
	c := Case{Entry: entry, Gen: "deep", Deep: &DeepSpec{Kind: k.name, Depth: depth, Close: closeN}}
	return c
}

// deepSource: the deep source is wrapped so that it is an expression in the
// position the entry point expects (kinds with an explicit entry list are used as is).
func (c Case) input() []byte {
	src := c.source()
	if c.Deep != nil {
		if k := deepKindByName(c.Deep.Kind); k != nil && k.entries == nil {
			return wrapForEntry(c.Entry, src)
		}
	}
	return src
}

func lenBucket(n int) string {
	switch {
	case n <= 32:
		return "<=32"
	case n <= 1024:
		return "<=1K"
	}
	return ">1K"
}

func depthBucket(n int) string {
	switch {
	case n <= 10:
		return "<=10"
	case n <= 200:
		return "<=200"
	case n <= 1000:
		return "<=1000"
	}
	return fmt.Sprintf("<=%d", deepMax)
}

package c17

// Oracles for C17.
//
//  1. no panic (core.Guard) and termination (core.WithWatchdog, 30 s per input);
//  2. lexing loses nothing (hclsyntax.Lex*): see checkTokens;
//  3. every range on every node reachable through hclsyntax.Walk, on every traversal
//     step, on every JSON node reachable through the public hcl API, and on every
//     parse diagnostic lies inside the input with Start <= End; a child's range lies
//     inside its parent's (exclusions: see rangeWalker);
//  4. no error diagnostic  =>  evaluation / JustAttributes / hcldec.Decode /
//     gohcl.DecodeBody do not panic.

import (
	"bytes"
	"fmt"
	"reflect"
	"regexp"
	"sort"
	"strings"
	"sync"
	"time"
	"unicode/utf8"

	hcl "Havoc/pkg/profile/yaotl"
	"Havoc/pkg/profile/yaotl/ext/tryfunc"
	"Havoc/pkg/profile/yaotl/gohcl"
	"Havoc/pkg/profile/yaotl/hcldec"
	"Havoc/pkg/profile/yaotl/hclsyntax"
	"Havoc/pkg/profile/yaotl/hclwrite"
	hcljson "Havoc/pkg/profile/yaotl/json"

	"github.com/zclconf/go-cty/cty"
	"github.com/zclconf/go-cty/cty/function"
	"github.com/zclconf/go-cty/cty/function/stdlib"

	"verifharness/internal/core"
)

const watchdog = 30 * time.Second

var startPos = hcl.Pos{Line: 1, Column: 1, Byte: 0}

// obs is what a run observed about a case (used by classify).
type obs struct {
	hasErr      bool
	interesting bool // got past the lexer with >= 1 token of an interesting kind
	evaluated   bool // the no-error stage (evaluation / decoding) ran
	kinds       map[string]bool
}

// ---------------------------------------------------------------------------------
// evaluation contexts

var emptyCtx = &hcl.EvalContext{}

var fullCtx = func() *hcl.EvalContext {
	obj := cty.ObjectVal(map[string]cty.Value{
		"a":   cty.StringVal("x"),
		"b":   cty.ListVal([]cty.Value{cty.NumberIntVal(1), cty.NumberIntVal(2)}),
		"c":   cty.ObjectVal(map[string]cty.Value{"a": cty.True, "foo": cty.TupleVal([]cty.Value{cty.StringVal("t"), cty.NumberIntVal(7)})}),
		"foo": cty.MapVal(map[string]cty.Value{"k": cty.StringVal("v"), "a": cty.StringVal("w")}),
		"k":   cty.NullVal(cty.String),
		"v":   cty.UnknownVal(cty.String),
	})
	return &hcl.EvalContext{
		Variables: map[string]cty.Value{
			"a":       obj,
			"b":       cty.ListVal([]cty.Value{obj, obj}),
			"c":       cty.TupleVal([]cty.Value{cty.NumberIntVal(1), cty.StringVal("two"), cty.True, obj}),
			"foo":     cty.StringVal("foo"),
			"bar_baz": cty.NumberFloatVal(1.5),
			"var":     obj,
			"local":   cty.MapVal(map[string]cty.Value{"a": cty.NumberIntVal(1), "b": cty.NumberIntVal(2)}),
			"each":    cty.ObjectVal(map[string]cty.Value{"key": cty.StringVal("k"), "value": obj}),
			"self":    cty.DynamicVal,
			"x1":      cty.UnknownVal(cty.List(cty.String)),
			"_u":      cty.UnknownVal(cty.DynamicPseudoType),
			"k":       cty.NullVal(cty.DynamicPseudoType),
			"v":       cty.SetVal([]cty.Value{cty.StringVal("s1"), cty.StringVal("s2")}),
			"i":       cty.NumberIntVal(0),
			// (no marked values: gocty, which gohcl decodes through, documents no support for
			// marks, and nothing in Havoc marks values; with cty.StringVal("x").Mark("m") here,
			// gohcl.DecodeExpression and the JSON object-key evaluation panic in AsString)
			"x":       cty.StringVal("x"),
			"y":       cty.ListVal([]cty.Value{cty.NumberIntVal(1), cty.NumberIntVal(2), cty.NumberIntVal(3)}),
			"héllo":   cty.EmptyTupleVal,
			"名前":      cty.EmptyObjectVal,
			"a-b":     cty.ListValEmpty(cty.String),
		},
		Functions: map[string]function.Function{
			"upper":  stdlib.UpperFunc,
			"length": stdlib.LengthFunc,
			"concat": stdlib.ConcatFunc,
			"join":   stdlib.JoinFunc,
			"min":    stdlib.MinFunc,
			"try":    tryfunc.TryFunc,
			"can":    tryfunc.CanFunc,
			"f": function.New(&function.Spec{
				VarParam: &function.Parameter{Name: "args", Type: cty.DynamicPseudoType, AllowNull: true, AllowUnknown: true, AllowDynamicType: true, AllowMarked: true},
				Type:     function.StaticReturnType(cty.DynamicPseudoType),
				Impl: func(args []cty.Value, retType cty.Type) (cty.Value, error) {
					if len(args) == 0 {
						return cty.DynamicVal, nil
					}
					return args[0], nil
				},
			}),
		},
	}
}()

// (collCtx: typed lists / sets / maps of lists incl. empty ones, unknown and null collections,
// the collection functions - splat_test.go)
var evalCtxs = []*hcl.EvalContext{nil, emptyCtx, fullCtx, collCtx}

// ---------------------------------------------------------------------------------
// decoding targets

type gInner struct {
	A      *string  `yaotl:"a,optional"`
	Remain hcl.Body `yaotl:",remain"`
}

type gLabelled struct {
	Name   string   `yaotl:"name,label"`
	B      *int     `yaotl:"b,optional"`
	Remain hcl.Body `yaotl:",remain"`
}

type gTarget struct {
	A      *string        `yaotl:"a,optional"`
	B      hcl.Expression `yaotl:"b,optional"`
	C      *bool          `yaotl:"c,optional"`
	Blk    []gInner       `yaotl:"blk,block"`
	Lbl    []gLabelled    `yaotl:"lbl,block"`
	Remain hcl.Body       `yaotl:",remain"`
}

type gAttrsTarget struct {
	Remain hcl.Attributes `yaotl:",remain"`
}

// fixedSpec uses the names the grammar generator favours, so that attribute decoding,
// nested blocks and labelled blocks (JSON label unpacking included) are exercised.
var fixedSpec = hcldec.ObjectSpec{
	"a": &hcldec.AttrSpec{Name: "a", Type: cty.DynamicPseudoType},
	"b": &hcldec.AttrSpec{Name: "b", Type: cty.String},
	"c": &hcldec.AttrSpec{Name: "c", Type: cty.List(cty.Number)},
	"blk": &hcldec.BlockTupleSpec{TypeName: "blk", Nested: hcldec.ObjectSpec{
		"a": &hcldec.AttrSpec{Name: "a", Type: cty.DynamicPseudoType},
		"b": &hcldec.AttrSpec{Name: "b", Type: cty.DynamicPseudoType},
	}},
	"lbl": &hcldec.BlockMapSpec{TypeName: "lbl", LabelNames: []string{"name"}, Nested: hcldec.ObjectSpec{
		"a": &hcldec.AttrSpec{Name: "a", Type: cty.String},
	}},
	"lbl2": &hcldec.BlockListSpec{TypeName: "lbl2", Nested: hcldec.ObjectSpec{
		"n1": &hcldec.BlockLabelSpec{Index: 0, Name: "n1"},
		"n2": &hcldec.BlockLabelSpec{Index: 1, Name: "n2"},
		"a":  &hcldec.AttrSpec{Name: "a", Type: cty.DynamicPseudoType},
	}},
	"foo": &hcldec.BlockAttrsSpec{TypeName: "foo", ElementType: cty.String}, // (a dynamic element type is not a legal map element type: cty.MapVal panics on mixed values)
}

// derivedSpec is the permissive spec: every attribute that is present is accepted with
// any type, every block type that is present is accepted as a tuple of nested bodies
// described the same way (first block of each type gives the label names).
func derivedSpec(b *hclsyntax.Body, depth int) hcldec.Spec {
	spec := hcldec.ObjectSpec{}
	for name := range b.Attributes {
		spec[name] = &hcldec.AttrSpec{Name: name, Type: cty.DynamicPseudoType}
	}
	if depth <= 0 {
		return spec
	}
	seen := map[string]bool{}
	for _, blk := range b.Blocks {
		if seen[blk.Type] {
			continue
		}
		if _, clash := spec[blk.Type]; clash {
			continue
		}
		seen[blk.Type] = true
		nested := hcldec.ObjectSpec{}
		if blk.Body != nil {
			if ns, ok := derivedSpec(blk.Body, depth-1).(hcldec.ObjectSpec); ok {
				nested = ns
			}
		}
		for i := range blk.Labels {
			ln := fmt.Sprintf("__label%d", i)
			nested[ln] = &hcldec.BlockLabelSpec{Index: i, Name: ln}
		}
		spec[blk.Type] = &hcldec.BlockTupleSpec{TypeName: blk.Type, Nested: nested}
	}
	return spec
}

// ---------------------------------------------------------------------------------
// range helpers

// rangeProblem classifies a range against an input of n bytes. "unset" is the zero
// hcl.Range (no file name although every token carries one): a range the parser never
// filled in.
func rangeProblem(r hcl.Range, n int) string {
	switch {
	case r == hcl.Range{}:
		return "unset"
	case r.Start.Byte < 0 || r.End.Byte < 0:
		return "negative"
	case r.Start.Byte > r.End.Byte:
		return "inverted"
	case r.End.Byte > n:
		return "outside-input"
	}
	return ""
}

func inside(child, parent hcl.Range) bool {
	return child.Start.Byte >= parent.Start.Byte && child.End.Byte <= parent.End.Byte
}

func summaryKey(s string) string {
	var b strings.Builder
	words := 0
	for _, w := range strings.Fields(s) {
		ok := true
		for _, r := range w {
			if !(r >= 'a' && r <= 'z' || r >= 'A' && r <= 'Z' || r == '\'') {
				ok = false
			}
		}
		if !ok {
			continue
		}
		if words > 0 {
			b.WriteByte(' ')
		}
		b.WriteString(w)
		words++
		if words == 4 {
			break
		}
	}
	return b.String()
}

func clipQ(b []byte) string {
	if len(b) > 300 {
		return fmt.Sprintf("%q...(%d bytes)", b[:300], len(b))
	}
	return fmt.Sprintf("%q", b)
}

func checkDiags(family string, diags hcl.Diagnostics, n int) *core.Violation {
	for _, d := range diags {
		if d == nil {
			return core.V("diag|nil|"+family, "nil diagnostic in the returned list")
		}
		for wi, r := range []*hcl.Range{d.Subject, d.Context} {
			which := [2]string{"Subject", "Context"}[wi]
			if r == nil {
				continue
			}
			if p := rangeProblem(*r, n); p != "" {
				return core.V(fmt.Sprintf("range|diag|%s|%s|%s|%s", p, family, summaryKey(d.Summary), which),
					"diagnostic %q: %s range %d..%d is %s (input has %d bytes)", d.Summary, which, r.Start.Byte, r.End.Byte, p, n)
			}
		}
	}
	return nil
}

// ---------------------------------------------------------------------------------
// lexing oracle

var interestingTok = func() map[hclsyntax.TokenType]bool {
	m := map[hclsyntax.TokenType]bool{}
	for _, t := range []hclsyntax.TokenType{hclsyntax.TokenOBrace, hclsyntax.TokenCBrace, hclsyntax.TokenOBrack, hclsyntax.TokenCBrack,
		hclsyntax.TokenOParen, hclsyntax.TokenCParen, hclsyntax.TokenOQuote, hclsyntax.TokenCQuote, hclsyntax.TokenOHeredoc, hclsyntax.TokenCHeredoc,
		hclsyntax.TokenStar, hclsyntax.TokenSlash, hclsyntax.TokenPlus, hclsyntax.TokenMinus, hclsyntax.TokenPercent, hclsyntax.TokenEqual,
		hclsyntax.TokenEqualOp, hclsyntax.TokenNotEqual, hclsyntax.TokenLessThan, hclsyntax.TokenLessThanEq, hclsyntax.TokenGreaterThan,
		hclsyntax.TokenGreaterThanEq, hclsyntax.TokenAnd, hclsyntax.TokenOr, hclsyntax.TokenBang, hclsyntax.TokenDot, hclsyntax.TokenComma,
		hclsyntax.TokenEllipsis, hclsyntax.TokenFatArrow, hclsyntax.TokenQuestion, hclsyntax.TokenColon, hclsyntax.TokenTemplateInterp,
		hclsyntax.TokenTemplateControl, hclsyntax.TokenTemplateSeqEnd, hclsyntax.TokenQuotedLit, hclsyntax.TokenStringLit,
		hclsyntax.TokenNumberLit, hclsyntax.TokenIdent, hclsyntax.TokenComment} {
		m[t] = true
	}
	return m
}()

// token types that only the template machines of the scanner emit (stringTemplate,
// heredocTemplate, bareTemplate in scan_tokens.rl); those machines have no rule that
// matches without emitting, so no byte may be skipped right before such a token...
var templateOnlyTok = map[hclsyntax.TokenType]bool{
	hclsyntax.TokenQuotedLit: true, hclsyntax.TokenStringLit: true, hclsyntax.TokenCQuote: true,
	hclsyntax.TokenCHeredoc: true, hclsyntax.TokenQuotedNewline: true,
}

// ...and after these the scanner is (still) in a template machine, so nothing may be
// skipped right after them either.
var templateFollowsTok = map[hclsyntax.TokenType]bool{
	hclsyntax.TokenOQuote: true, hclsyntax.TokenOHeredoc: true, hclsyntax.TokenQuotedLit: true,
	hclsyntax.TokenStringLit: true, hclsyntax.TokenQuotedNewline: true,
}

// checkTokens: "lexing loses nothing".
//
// What the scanner skips (scan_tokens.rl / scan_tokens.go): in the `main` machine the rule
// `Spaces = (' ' | 0x09)+ => {}` is the only one without a token; every other byte is
// covered by a token rule (BrokenUTF8 / AnyUTF8 catch-alls). The template machines
// (stringTemplate, heredocTemplate, bareTemplate) have no skipping rule at all.
// scanTokens additionally strips one leading UTF-8 BOM and adds 3 to every byte offset.
func checkTokens(mode string, src []byte, toks hclsyntax.Tokens, template bool, o *obs) *core.Violation {
	n := len(src)
	if len(toks) == 0 {
		return core.V("lex|no-tokens|"+mode, "no tokens returned (not even EOF)")
	}
	posn := 0
	hasBOM := bytes.HasPrefix(src, bom)
	if hasBOM {
		posn = 3
	}
	prevType := hclsyntax.TokenNil
	validUTF8 := utf8.Valid(src)
	inTemplateMode := template // at the very start of LexTemplate the scanner is in bareTemplate
	for i, tk := range toks {
		s, e := tk.Range.Start.Byte, tk.Range.End.Byte
		if s < 0 || e < s || e > n {
			return core.V("lex|range|"+mode+"|"+tk.Type.String(), "token %d (%s) has range %d..%d, input has %d bytes", i, tk.Type, s, e, n)
		}
		if s < posn {
			return core.V("lex|overlap|"+mode+"|"+tk.Type.String(), "token %d (%s) starts at %d, before the end %d of the previous token; input %s", i, tk.Type, s, posn, clipQ(src))
		}
		if !bytes.Equal(tk.Bytes, src[s:e]) {
			return core.V("lex|bytes|"+mode+"|"+tk.Type.String(), "token %d (%s) range %d..%d: Bytes=%q but the input there is %q", i, tk.Type, s, e, tk.Bytes, src[s:e])
		}
		if gap := src[posn:s]; len(gap) > 0 {
			for _, b := range gap {
				if b != ' ' && b != '\t' {
					return core.V("lex|gap-nonblank|"+mode+"|before-"+tk.Type.String(), "bytes %q at %d..%d are covered by no token (before token %d, %s); input %s", gap, posn, s, i, tk.Type, clipQ(src))
				}
			}
			if i == 0 && inTemplateMode {
				return core.V("lex|gap-in-template|"+mode+"|at-start", "template-mode scan skipped %q at the start", gap)
			}
			if templateOnlyTok[tk.Type] {
				return core.V("lex|gap-in-template|"+mode+"|before-"+tk.Type.String(), "blanks %q at %d..%d skipped inside a template (before %s); input %s", gap, posn, s, tk.Type, clipQ(src))
			}
			if templateFollowsTok[prevType] {
				return core.V("lex|gap-in-template|"+mode+"|after-"+prevType.String(), "blanks %q at %d..%d skipped inside a template (after %s); input %s", gap, posn, s, prevType, clipQ(src))
			}
		}
		// line numbers: one more than the number of newlines before the offset. Asserted for
		// well-formed UTF-8 only: the identifier rule of the scanner (unicode_derived.rl) accepts
		// any byte as a continuation byte, so e.g. C4 0A lexes as one identifier and swallows the
		// newline; positions inside ill-formed text are not claimed to be meaningful.
		if validUTF8 {
			if want := 1 + bytes.Count(src[:s], []byte{'\n'}); tk.Range.Start.Line != want {
				return core.V("lex|line|"+mode+"|"+tk.Type.String(), "token %d (%s) at byte %d reports line %d, %d newlines precede it; input %s", i, tk.Type, s, tk.Range.Start.Line, want-1, clipQ(src))
			}
			if want := 1 + bytes.Count(src[:e], []byte{'\n'}); tk.Range.End.Line != want {
				return core.V("lex|line-end|"+mode+"|"+tk.Type.String(), "token %d (%s) ending at byte %d reports end line %d, %d newlines precede it; input %s", i, tk.Type, e, tk.Range.End.Line, want-1, clipQ(src))
			}
		}
		if tk.Type == hclsyntax.TokenEOF && i != len(toks)-1 {
			return core.V("lex|eof-not-last|"+mode, "EOF token at index %d of %d", i, len(toks))
		}
		if interestingTok[tk.Type] {
			o.interesting = true
		}
		if o.kinds != nil {
			o.kinds[tk.Type.String()] = true
		}
		posn = e
		prevType = tk.Type
	}
	last := toks[len(toks)-1]
	if last.Type != hclsyntax.TokenEOF {
		return core.V("lex|last-not-eof|"+mode, "last token is %s", last.Type)
	}
	if last.Range.Start.Byte != n || last.Range.End.Byte != n {
		return core.V("lex|eof-position|"+mode, "EOF token at %d..%d, input has %d bytes", last.Range.Start.Byte, last.Range.End.Byte, n)
	}
	return nil
}

// ---------------------------------------------------------------------------------
// node ranges

var (
	rangeType     = reflect.TypeOf(hcl.Range{})
	rangesType    = reflect.TypeOf([]hcl.Range{})
	traversalType = reflect.TypeOf(hcl.Traversal{})
	fieldCache    sync.Map // reflect.Type -> []fieldInfo
)

type fieldInfo struct {
	idx  int
	name string
	kind int // 0 Range, 1 []Range, 2 Traversal
}

func rangeFields(t reflect.Type) []fieldInfo {
	if v, ok := fieldCache.Load(t); ok {
		return v.([]fieldInfo)
	}
	var out []fieldInfo
	for i := 0; i < t.NumField(); i++ {
		f := t.Field(i)
		if !f.IsExported() {
			continue
		}
		switch f.Type {
		case rangeType:
			out = append(out, fieldInfo{i, f.Name, 0})
		case rangesType:
			out = append(out, fieldInfo{i, f.Name, 1})
		case traversalType:
			out = append(out, fieldInfo{i, f.Name, 2})
		}
	}
	fieldCache.Store(t, out)
	return out
}

type found struct {
	depth int
	start int
	unset bool
	v     *core.Violation
}

type frame struct {
	node        hclsyntax.Node
	rng         hcl.Range
	transparent bool
	tainted     bool // an error placeholder, or a node with one below it
	children    []childInfo
}

type childInfo struct {
	node    hclsyntax.Node
	rng     hcl.Range
	tainted bool
}

// isErrPlaceholder recognises the node the parser synthesises where an expression could
// not be parsed: a LiteralValueExpr holding cty.DynamicVal (parser.go parseExpressionTerm
// default case, errPlaceholderExpr, the error exits of finishParsingForExpr). No literal
// in the source produces that value.
func isErrPlaceholder(n hclsyntax.Node) bool {
	l, ok := n.(*hclsyntax.LiteralValueExpr)
	return ok && l.Val.RawEquals(cty.DynamicVal)
}

// rangeWalker checks, for every node reachable through hclsyntax.Walk:
//   - node.Range(), StartRange() and every exported hcl.Range / []hcl.Range field and
//     traversal step of the node lie inside the input with Start <= End;
//   - the Range() of every child lies inside the Range() of its parent.
//
// What is NOT asserted, and why (from the code, not from observation):
//   - hclsyntax.Attributes and hclsyntax.Blocks are grouping constructs whose Range()
//     is documented as "some arbitrary point" / an invalid "<unknown>" range; they are
//     treated as transparent: their children are compared with the enclosing Body.
//   - *AnonSymbolExpr is the synthetic per-item placeholder of a splat. In the
//     attribute-only form (a.*.b) the parser gives the RelativeTraversalExpr stored in
//     SplatExpr.Each the range of the steps after the marker (firstRange..lastRange)
//     while its Source is the AnonSymbolExpr located at the marker ".*" itself, i.e.
//     before it (parser.go parseExpressionTraversals, case TokenStar). The symbol stands
//     for the iteration item, not for a piece of the traversal text, so an
//     AnonSymbolExpr is only required to lie inside the input, not inside its parent.
//
//   - Error placeholders. Where an expression cannot start, parseExpressionTerm returns a
//     LiteralValueExpr(cty.DynamicVal) whose range is the offending token WITHOUT consuming
//     it ("Return a placeholder so that the AST is still structurally sound"), while the
//     enclosing Attribute / collection ends at the last consumed token (p.PrevRange()).
//     The placeholder therefore lies just beyond its parent's end by construction, and so
//     does every ancestor whose End is computed from it (UnaryOpExpr, ...). For a placeholder
//     and for nodes with a placeholder below them only "does not start before the parent"
//     is asserted.
//
// When several violations exist in one tree the deepest one is reported (ties: the
// smallest start offset, then the signature), so that the result does not depend on
// map iteration order and a parent whose range is derived from a broken child range
// does not hide the child.
type rangeWalker struct {
	n     int
	stack []*frame
	found []found
}

func (w *rangeWalker) add(depth, start int, v *core.Violation) {
	w.found = append(w.found, found{depth, start, strings.Contains(v.Sig, "|unset|"), v})
}

func (w *rangeWalker) Enter(node hclsyntax.Node) hcl.Diagnostics {
	f := &frame{node: node}
	switch node.(type) {
	case hclsyntax.Attributes, hclsyntax.Blocks:
		f.transparent = true
	default:
		f.rng = node.Range()
	}
	w.stack = append(w.stack, f)
	return nil
}

func typeName(n interface{}) string { return fmt.Sprintf("%T", n) }

func (w *rangeWalker) Exit(node hclsyntax.Node) hcl.Diagnostics {
	f := w.stack[len(w.stack)-1]
	w.stack = w.stack[:len(w.stack)-1]
	depth := len(w.stack)
	var parent *frame
	for i := len(w.stack) - 1; i >= 0; i-- {
		if !w.stack[i].transparent {
			parent = w.stack[i]
			break
		}
	}
	if f.transparent {
		// hand the children up to the enclosing non-transparent node
		if parent != nil {
			parent.children = append(parent.children, f.children...)
		}
		return nil
	}
	tn := typeName(node)
	if p := rangeProblem(f.rng, w.n); p != "" {
		w.add(depth, f.rng.Start.Byte, core.V("range|node|"+p+"|"+tn+"|Range()", "%s.Range() = %d..%d is %s (input has %d bytes)", tn, f.rng.Start.Byte, f.rng.End.Byte, p, w.n))
	}
	if ex, ok := node.(hclsyntax.Expression); ok {
		sr := ex.StartRange()
		if p := rangeProblem(sr, w.n); p != "" {
			w.add(depth, f.rng.Start.Byte, core.V("range|node|"+p+"|"+tn+"|StartRange()", "%s.StartRange() = %d..%d is %s (input has %d bytes)", tn, sr.Start.Byte, sr.End.Byte, p, w.n))
		}
	}
	rv := reflect.ValueOf(node)
	if rv.Kind() == reflect.Ptr && !rv.IsNil() {
		rv = rv.Elem()
	}
	if rv.Kind() == reflect.Struct {
		for _, fi := range rangeFields(rv.Type()) {
			fv := rv.Field(fi.idx)
			var rs []hcl.Range
			switch fi.kind {
			case 0:
				rs = []hcl.Range{fv.Interface().(hcl.Range)}
			case 1:
				rs = fv.Interface().([]hcl.Range)
			case 2:
				for _, st := range fv.Interface().(hcl.Traversal) {
					rs = append(rs, st.SourceRange())
				}
			}
			for _, r := range rs {
				if p := rangeProblem(r, w.n); p != "" {
					w.add(depth, f.rng.Start.Byte, core.V("range|node|"+p+"|"+tn+"|"+fi.name, "%s.%s = %d..%d is %s (input has %d bytes)", tn, fi.name, r.Start.Byte, r.End.Byte, p, w.n))
				}
			}
		}
	}
	if isErrPlaceholder(node) {
		f.tainted = true
	}
	for _, ch := range f.children {
		if ch.tainted {
			f.tainted = true
		}
		if _, anon := ch.node.(*hclsyntax.AnonSymbolExpr); anon {
			continue
		}
		if ch.tainted {
			// only the start side is asserted (see the type comment)
			if ch.rng.Start.Byte < f.rng.Start.Byte {
				ctn := typeName(ch.node)
				w.add(depth, f.rng.Start.Byte, core.V("range|child-starts-before-parent|"+ctn+"|in|"+tn, "child %s %d..%d starts before its parent %s %d..%d", ctn, ch.rng.Start.Byte, ch.rng.End.Byte, tn, f.rng.Start.Byte, f.rng.End.Byte))
			}
			continue
		}
		if !inside(ch.rng, f.rng) {
			ctn := typeName(ch.node)
			w.add(depth, f.rng.Start.Byte, core.V("range|child-outside-parent|"+ctn+"|in|"+tn, "child %s %d..%d is not inside its parent %s %d..%d", ctn, ch.rng.Start.Byte, ch.rng.End.Byte, tn, f.rng.Start.Byte, f.rng.End.Byte))
		}
	}
	if parent != nil {
		parent.children = append(parent.children, childInfo{node, f.rng, f.tainted})
	}
	return nil
}

func (w *rangeWalker) result() *core.Violation {
	if len(w.found) == 0 {
		return nil
	}
	sort.SliceStable(w.found, func(i, j int) bool {
		a, b := w.found[i], w.found[j]
		if a.unset != b.unset {
			// a range that was never filled in explains the inverted / non-nested ranges
			// derived from it: name the cause
			return a.unset
		}
		if a.depth != b.depth {
			return a.depth > b.depth
		}
		if a.start != b.start {
			return a.start < b.start
		}
		return a.v.Sig < b.v.Sig
	})
	return w.found[0].v
}

func checkNodeRanges(root hclsyntax.Node, n int, src []byte) *core.Violation {
	w := &rangeWalker{n: n}
	hclsyntax.Walk(root, w)
	if v := w.result(); v != nil {
		v.Msg += "; input " + clipQ(src)
		return v
	}
	return nil
}

func checkTraversalRanges(tr hcl.Traversal, n int) *core.Violation {
	for i, st := range tr {
		r := st.SourceRange()
		if p := rangeProblem(r, n); p != "" {
			return core.V("range|traversal-step|"+p+"|"+typeName(st), "step %d (%T) range %d..%d is %s (input has %d bytes)", i, st, r.Start.Byte, r.End.Byte, p, n)
		}
	}
	if len(tr) > 0 {
		r := tr.SourceRange()
		if p := rangeProblem(r, n); p != "" {
			return core.V("range|traversal|"+p, "Traversal.SourceRange() %d..%d is %s (input has %d bytes)", r.Start.Byte, r.End.Byte, p, n)
		}
	}
	return nil
}

// JSON nodes are unexported; what the public hcl API lets a caller reach is walked:
// an expression's own Range/StartRange and, through hcl.ExprList / hcl.ExprMap, its
// element, key and value expressions (children inside parents).
func checkJSONExprRanges(e hcl.Expression, n int, depth int) *core.Violation {
	r := e.Range()
	if p := rangeProblem(r, n); p != "" {
		return core.V("range|json-node|"+p+"|Range()", "JSON expression Range() %d..%d is %s (input has %d bytes)", r.Start.Byte, r.End.Byte, p, n)
	}
	sr := e.StartRange()
	if p := rangeProblem(sr, n); p != "" {
		return core.V("range|json-node|"+p+"|StartRange()", "JSON expression StartRange() %d..%d is %s (input has %d bytes)", sr.Start.Byte, sr.End.Byte, p, n)
	}
	if depth > 6000 {
		return nil
	}
	if items, diags := hcl.ExprList(e); !diags.HasErrors() {
		for _, it := range items {
			if !inside(it.Range(), r) {
				return core.V("range|json-child-outside-parent|array", "array element %d..%d not inside the array %d..%d", it.Range().Start.Byte, it.Range().End.Byte, r.Start.Byte, r.End.Byte)
			}
			if v := checkJSONExprRanges(it, n, depth+1); v != nil {
				return v
			}
		}
	}
	if pairs, diags := hcl.ExprMap(e); !diags.HasErrors() {
		for _, kv := range pairs {
			for wi, x := range []hcl.Expression{kv.Key, kv.Value} {
				which := [2]string{"key", "value"}[wi]
				if !inside(x.Range(), r) {
					return core.V("range|json-child-outside-parent|object-"+which, "object %s %d..%d not inside the object %d..%d", which, x.Range().Start.Byte, x.Range().End.Byte, r.Start.Byte, r.End.Byte)
				}
			}
			if p := rangeProblem(kv.Key.Range(), n); p != "" {
				return core.V("range|json-node|"+p+"|key", "object key range is %s", p)
			}
			if v := checkJSONExprRanges(kv.Value, n, depth+1); v != nil {
				return v
			}
		}
	}
	return nil
}

func sortedAttrs(attrs hcl.Attributes) []*hcl.Attribute {
	out := make([]*hcl.Attribute, 0, len(attrs))
	for _, a := range attrs {
		out = append(out, a)
	}
	sort.Slice(out, func(i, j int) bool {
		if out[i].Range.Start.Byte != out[j].Range.Start.Byte {
			return out[i].Range.Start.Byte < out[j].Range.Start.Byte
		}
		return out[i].Name < out[j].Name
	})
	return out
}

func checkHCLAttrRanges(attrs hcl.Attributes, n int, family string) *core.Violation {
	for _, a := range sortedAttrs(attrs) {
		for wi, r := range []hcl.Range{a.Range, a.NameRange, a.Expr.Range()} {
			which := [3]string{"Range", "NameRange", "Expr.Range()"}[wi]
			if p := rangeProblem(r, n); p != "" {
				return core.V("range|attribute|"+p+"|"+family+"|"+which, "attribute %q %s %d..%d is %s (input has %d bytes)", a.Name, which, r.Start.Byte, r.End.Byte, p, n)
			}
		}
		if !inside(a.NameRange, a.Range) || !inside(a.Expr.Range(), a.Range) {
			return core.V("range|attribute|child-outside-parent|"+family, "attribute %q: name %d..%d / expression %d..%d not inside the attribute %d..%d", a.Name,
				a.NameRange.Start.Byte, a.NameRange.End.Byte, a.Expr.Range().Start.Byte, a.Expr.Range().End.Byte, a.Range.Start.Byte, a.Range.End.Byte)
		}
	}
	return nil
}

// ---------------------------------------------------------------------------------
// the no-error stage: evaluate and decode; only panics count
//
// The property promises that an error-free input "can be evaluated and decoded without
// panicking"; it does not (and cannot) promise a running time for evaluation: nested
// `for` expressions over a 3-element collection cost 3^depth by the semantics of the
// language, and converting 1e99999999 to a string is a 100 MB string. So that the
// termination watchdog keeps meaning "the parser hangs", inputs whose evaluation is
// expensive by design are parsed and range-checked but not evaluated:
//   - `for` / splat nesting deeper than maxForDepth (SplatExpr.Value evaluates its Each
//     once for type deduction and once per element, so nested splats cost 2^depth as
//     well). Native: measured on the AST; JSON, whose templates are only parsed at
//     evaluation time: more than maxForDepth occurrences of "for" or "*" in the text;
//   - a number with an exponent of 5 or more digits.

const maxForDepth = 6

var bigExponent = regexp.MustCompile(`[eE][+-]?[0-9]{5,}`)

type forDepthWalker struct{ cur, max int }

func isIterating(n hclsyntax.Node) bool {
	switch n.(type) {
	case *hclsyntax.ForExpr, *hclsyntax.SplatExpr:
		return true
	}
	return false
}

func (w *forDepthWalker) Enter(n hclsyntax.Node) hcl.Diagnostics {
	if isIterating(n) {
		w.cur++
		if w.cur > w.max {
			w.max = w.cur
		}
	}
	return nil
}

func (w *forDepthWalker) Exit(n hclsyntax.Node) hcl.Diagnostics {
	if isIterating(n) {
		w.cur--
	}
	return nil
}

func evalAffordable(root hclsyntax.Node, src []byte) bool {
	if bigExponent.Match(src) {
		return false
	}
	if root == nil {
		return bytes.Count(src, []byte("for"))+bytes.Count(src, []byte("*")) <= maxForDepth
	}
	w := &forDepthWalker{}
	hclsyntax.Walk(root, w)
	return w.max <= maxForDepth
}

func evalExpr(e hcl.Expression) {
	for _, ctx := range evalCtxs {
		e.Value(ctx)
	}
	e.Variables()
}

func decodeBody(body hcl.Body, spec hcldec.Spec) {
	for _, ctx := range []*hcl.EvalContext{nil, fullCtx, collCtx} {
		hcldec.Decode(body, spec, ctx)
		hcldec.Decode(body, fixedSpec, ctx)
		var t gTarget
		gohcl.DecodeBody(body, ctx, &t)
		if t.Remain != nil {
			t.Remain.JustAttributes()
		}
		for _, in := range t.Blk {
			if in.Remain != nil {
				in.Remain.JustAttributes()
			}
		}
		var at gAttrsTarget
		gohcl.DecodeBody(body, ctx, &at)
	}
	hcldec.Variables(body, spec)
	hcldec.Variables(body, fixedSpec)
}

// ---------------------------------------------------------------------------------
// one case

// checkCase runs one input through one entry point with all oracles.
func checkCase(c Case) (*core.Violation, obs) {
	src := c.input()
	o := obs{kinds: map[string]bool{}}
	v := core.WithWatchdog(watchdog, c.Entry, func() *core.Violation { return runEntry(c.Entry, src, &o) })
	return v, o
}

func runEntry(entry string, src []byte, o *obs) *core.Violation {
	n := len(src)
	const fn = "in.hcl"
	lexFirst := func(template bool) *core.Violation {
		// the Parse* entry points lex with the same function; lexing separately gives the
		// token-kind observation used by the non-triviality rule
		var toks hclsyntax.Tokens
		if template {
			toks, _ = hclsyntax.LexTemplate(src, fn, startPos)
		} else {
			toks, _ = hclsyntax.LexConfig(src, fn, startPos)
		}
		return checkTokens(entry, src, toks, template, o)
	}
	switch entry {
	case eLexConfig, eLexExpr, eLexTemplate:
		var toks hclsyntax.Tokens
		var diags hcl.Diagnostics
		switch entry {
		case eLexConfig:
			toks, diags = hclsyntax.LexConfig(src, fn, startPos)
		case eLexExpr:
			toks, diags = hclsyntax.LexExpression(src, fn, startPos)
		default:
			toks, diags = hclsyntax.LexTemplate(src, fn, startPos)
		}
		o.hasErr = diags.HasErrors()
		if v := checkTokens(entry, src, toks, entry == eLexTemplate, o); v != nil {
			return v
		}
		return checkDiags("native", diags, n)

	case eConfig:
		if v := lexFirst(false); v != nil {
			return v
		}
		file, diags := hclsyntax.ParseConfig(src, fn, startPos)
		o.hasErr = diags.HasErrors()
		if file == nil || file.Body == nil {
			return core.V("result|nil-file|config", "ParseConfig returned a nil file/body")
		}
		body, ok := file.Body.(*hclsyntax.Body)
		if !ok || body == nil {
			return core.V("result|nil-body|config", "ParseConfig body is %T", file.Body)
		}
		if v := checkDiags("native", diags, n); v != nil {
			return v
		}
		if v := checkNodeRanges(body, n, src); v != nil {
			return v
		}
		if !o.hasErr && evalAffordable(body, src) {
			o.evaluated = true
			if attrs, d := body.JustAttributes(); !d.HasErrors() {
				if v := checkHCLAttrRanges(attrs, n, "native"); v != nil {
					return v
				}
			}
			var all []*hclsyntax.Attribute
			hclsyntax.VisitAll(body, func(nd hclsyntax.Node) hcl.Diagnostics {
				if a, ok := nd.(*hclsyntax.Attribute); ok {
					all = append(all, a)
				}
				return nil
			})
			sort.Slice(all, func(i, j int) bool { return all[i].SrcRange.Start.Byte < all[j].SrcRange.Start.Byte })
			for _, a := range all {
				evalExpr(a.Expr)
			}
			decodeBody(body, derivedSpec(body, 4))
		}
		return nil

	case eExpr, eTemplate:
		if v := lexFirst(entry == eTemplate); v != nil {
			return v
		}
		var expr hclsyntax.Expression
		var diags hcl.Diagnostics
		if entry == eExpr {
			expr, diags = hclsyntax.ParseExpression(src, fn, startPos)
		} else {
			expr, diags = hclsyntax.ParseTemplate(src, fn, startPos)
		}
		o.hasErr = diags.HasErrors()
		if expr == nil {
			return core.V("result|nil-expression|"+entry, "nil expression returned")
		}
		if v := checkDiags("native", diags, n); v != nil {
			return v
		}
		if v := checkNodeRanges(expr, n, src); v != nil {
			return v
		}
		if !o.hasErr && evalAffordable(expr, src) {
			o.evaluated = true
			evalExpr(expr)
		}
		return nil

	case eTraversal:
		if v := lexFirst(false); v != nil {
			return v
		}
		tr, diags := hclsyntax.ParseTraversalAbs(src, fn, startPos)
		o.hasErr = diags.HasErrors()
		if v := checkDiags("native", diags, n); v != nil {
			return v
		}
		if v := checkTraversalRanges(tr, n); v != nil {
			return v
		}
		if !o.hasErr {
			if len(tr) == 0 || tr.IsRelative() {
				return core.V("result|no-traversal|traversal", "no error diagnostic but the traversal is empty / relative (len %d)", len(tr))
			}
			o.evaluated = true
			tr.TraverseAbs(emptyCtx)
			tr.TraverseAbs(fullCtx)
			tr.TraverseAbs(collCtx)
			tr.RootName()
		}
		return nil

	case eHCLWrite:
		if v := lexFirst(false); v != nil {
			return v
		}
		f, diags := hclwrite.ParseConfig(src, fn, startPos)
		o.hasErr = diags.HasErrors()
		if v := checkDiags("native", diags, n); v != nil {
			return v
		}
		if f == nil && !o.hasErr {
			return core.V("result|nil-file|hclwrite", "hclwrite.ParseConfig returned neither a file nor an error diagnostic")
		}
		if f != nil {
			o.evaluated = true
			f.Bytes()
			f.Body().Attributes()
			f.Body().Blocks()
		}
		return nil

	case eJSON:
		jsonInteresting(src, o)
		file, diags := hcljson.Parse(src, fn)
		o.hasErr = diags.HasErrors()
		if file == nil || file.Body == nil {
			return core.V("result|nil-file|json", "json.Parse returned a nil file/body")
		}
		if v := checkDiags("json", diags, n); v != nil {
			return v
		}
		attrs, ad := file.Body.JustAttributes()
		if !ad.HasErrors() {
			if v := checkHCLAttrRanges(attrs, n, "json"); v != nil {
				return v
			}
			for _, a := range sortedAttrs(attrs) {
				if v := checkJSONExprRanges(a.Expr, n, 0); v != nil {
					return v
				}
			}
		}
		// (with an error diagnostic the root body is a documented empty placeholder whose
		// close range is not filled in; MissingItemRange is only looked at for a real body)
		if r := file.Body.MissingItemRange(); !o.hasErr && rangeProblem(r, n) != "" {
			return core.V("range|json-node|"+rangeProblem(r, n)+"|MissingItemRange()", "body MissingItemRange %d..%d (input has %d bytes)", r.Start.Byte, r.End.Byte, n)
		}
		if !o.hasErr && evalAffordable(nil, src) {
			o.evaluated = true
			spec := hcldec.ObjectSpec{}
			for _, a := range sortedAttrs(attrs) {
				evalExpr(a.Expr)
				spec[a.Name] = &hcldec.AttrSpec{Name: a.Name, Type: cty.DynamicPseudoType}
			}
			decodeBody(file.Body, spec)
		}
		return nil

	case eJSONExpr:
		jsonInteresting(src, o)
		expr, diags := hcljson.ParseExpression(src, fn)
		o.hasErr = diags.HasErrors()
		if expr == nil {
			return core.V("result|nil-expression|jsonexpr", "nil expression returned")
		}
		if v := checkDiags("json", diags, n); v != nil {
			return v
		}
		if v := checkJSONExprRanges(expr, n, 0); v != nil {
			return v
		}
		if !o.hasErr && evalAffordable(nil, src) {
			o.evaluated = true
			evalExpr(expr)
		}
		return nil
	}
	return core.V("harness|unknown-entry", "unknown entry %q", entry)
}

// jsonInteresting: the JSON scanner is not exported; an input counts as having got past it
// when its first non-blank byte can start a JSON value (so the parser sees >= 1 real token).
func jsonInteresting(src []byte, o *obs) {
	for _, b := range src {
		switch b {
		case ' ', '\t', '\r', '\n':
			continue
		}
		if b == '{' || b == '[' || b == '"' || b == '-' || (b >= '0' && b <= '9') || (b >= 'a' && b <= 'z') || (b >= 'A' && b <= 'Z') {
			o.interesting = true
		}
		return
	}
}

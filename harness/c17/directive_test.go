package c17

// Template-directive family of the grammar-based generator.
//
// The plain grammar generator (tmplParts) writes directives the way the grammar wants them
// plus a few fixed broken ones. This family is about the inside of a %{ ... } sequence: for
// every directive keyword (if, else, endif, for, in, endfor) it produces the well-formed
// directive AND the near-misses a person would type:
//
//	kw-followed   a keyword followed by another keyword or an identifier where the grammar
//	              wants the end of the directive: `else if x`, `endif x`, `endfor in`, `else else`
//	missing-kw    no keyword (`%{ }`, `%{ x }`, `%{ 1 }`), or the operand missing (`%{ if }`, `%{ for }`)
//	dup-kw        the keyword twice: `if if x`, `for for x in y`, `endif endif`
//	wrong-block   else inside for, endfor closing an if, endif closing a for, else after else,
//	              a closer with nothing open, an opener never closed
//	for-junk      the two-variable for (`for k, v in coll`) with a junk token at every position
//	unknown-kw    keywords close to the real ones: elif, elseif, elsif, end, fi, endfi, ...
//	cut           a well-formed nest cut at a token boundary (every boundary is reachable)
//	strip         strip markers at either end of any of the above: `%{~ else if x ~}`
//
// nested to depth 3, inside quoted strings, heredocs (plain and flush), bare templates and
// JSON strings, optionally after an earlier syntax error in the same input, so that the
// parser is already in recovery mode when it reaches the directive. The oracle is the one of
// sub-check (a), unchanged.

import (
	"strings"

	"pgregory.net/rapid"
)

var dirKinds = []string{"wellformed", "kw-followed", "missing-kw", "dup-kw", "wrong-block", "for-junk", "unknown-kw", "cut"}

var dirKeywords = []string{"if", "else", "endif", "for", "in", "endfor"}
var dirUnknown = []string{"elif", "elseif", "elsif", "end", "fi", "endfi", "endfo", "endwhile", "while", "unless", "If", "ELSE", "End", "el", "els", "endi", "fo", "foreach", "then", "do", "done", "elseif_", "else-if", "end-if"}
var dirOperands = []string{"a", "b", "true", "x", "c[2]", "foo.k", "y", "[1, 2]", "upper(foo)", "!a", "1 == 1", "\"s\"", "{k = 1}"}
var dirJunk = []string{",", "in", "for", "1", "\"s\"", "x", "=", ":", "if", "else", "endfor", "...", "(", ")", "[", "~", "${", "%{", "}"}
var dirLits = []string{"x", "y", " ", "lit ", "é", "$", "%", "$${", "%%{", "\n", "  \n", "", "}", "~"}

type dirGen struct {
	t      *rapid.T
	toks   []string
	strip  bool
	quoted bool // inside a quoted string / JSON string: no raw newline, no quote
	kind   string
	// white space zoo (wszoo_test.go): the blanks inside %{ } sequences are, half of the time,
	// runs of other white space
	zoo  bool
	note *zooNote
}

// sp writes the blank between two words of a directive.
func (x *dirGen) sp() {
	if x.zoo && uni(x.t, 2) == 0 {
		s, names := zooRun(x.t)
		x.emit(s)
		x.note.add("directive", names)
		return
	}
	x.emit(" ")
}

func (x *dirGen) pick(xs []string) string { return xs[uni(x.t, len(xs))] }
func (x *dirGen) emit(s ...string)        { x.toks = append(x.toks, s...) }

func (x *dirGen) open() {
	o := "%{"
	if x.strip && uni(x.t, 2) == 0 {
		o = "%{~"
	}
	x.emit(o)
	if uni(x.t, 4) != 0 {
		x.sp()
	}
}

func (x *dirGen) close() {
	if uni(x.t, 4) != 0 {
		x.sp()
	}
	c := "}"
	if x.strip && uni(x.t, 2) == 0 {
		c = "~}"
	}
	x.emit(c)
}

// dir writes one %{ ... } sequence with the given words, one token each.
func (x *dirGen) dir(words ...string) {
	x.open()
	for i, w := range words {
		if i > 0 {
			x.sp()
		}
		x.emit(w)
	}
	x.close()
}

func (x *dirGen) operand() string {
	o := x.pick(dirOperands)
	if x.quoted && strings.Contains(o, "\"") {
		return "a"
	}
	return o
}

func (x *dirGen) lit() {
	l := x.pick(dirLits)
	if x.quoted && strings.Contains(l, "\n") {
		l = " "
	}
	x.emit(l)
}

// body: what stands between an opener and its closer.
func (x *dirGen) body(depth int, nearMiss bool) {
	n := uni(x.t, 3)
	for i := 0; i < n; i++ {
		switch uni(x.t, 4) {
		case 0, 1:
			x.lit()
		case 2:
			x.emit("${", x.operand(), "}")
		default:
			if depth > 0 {
				x.block(depth-1, nearMiss && uni(x.t, 2) == 0)
			} else {
				x.lit()
			}
		}
	}
}

func (x *dirGen) forHead() []string {
	if uni(x.t, 2) == 0 {
		return []string{"for", "k", ",", "v", "in", x.operand()}
	}
	return []string{"for", "v", "in", x.operand()}
}

// block writes one if/for construct; with nearMiss one directive of it is broken in the way
// x.kind says.
func (x *dirGen) block(depth int, nearMiss bool) {
	isFor := uni(x.t, 2) == 0
	kind := "wellformed"
	if nearMiss {
		kind = x.kind
	}
	// which of the (up to three) directives of the construct gets the defect
	where := uni(x.t, 3)

	opener := func() {
		if isFor {
			x.dir(x.forHead()...)
		} else {
			x.dir("if", x.operand())
		}
	}
	middle := func() { x.dir("else") }
	closer := func() {
		if isFor {
			x.dir("endfor")
		} else {
			x.dir("endif")
		}
	}

	switch kind {
	case "kw-followed":
		follow := func() []string {
			switch uni(x.t, 4) {
			case 0:
				return []string{"if", x.operand()}
			case 1:
				return []string{x.pick(dirKeywords)}
			case 2:
				return []string{"x"}
			}
			return []string{x.pick(dirKeywords), x.operand()}
		}
		switch where {
		case 0:
			opener = func() {
				if isFor {
					x.dir(append(x.forHead(), follow()...)...)
				} else {
					x.dir(append([]string{"if", x.operand()}, follow()...)...)
				}
			}
		case 1:
			isFor = false // else belongs to if
			middle = func() { x.dir(append([]string{"else"}, follow()...)...) }
		default:
			closer = func() {
				kw := "endif"
				if isFor {
					kw = "endfor"
				}
				x.dir(append([]string{kw}, follow()...)...)
			}
		}
	case "missing-kw":
		broken := func() {
			switch uni(x.t, 6) {
			case 0:
				x.dir()
			case 1:
				x.dir("x")
			case 2:
				x.dir("1")
			case 3:
				x.dir("if")
			case 4:
				x.dir("for")
			default:
				x.dir("for", "x", "in")
			}
		}
		switch where {
		case 0:
			opener = broken
		case 1:
			middle = broken
		default:
			closer = broken
		}
	case "dup-kw":
		switch where {
		case 0:
			opener = func() {
				if isFor {
					x.dir(append([]string{"for"}, x.forHead()...)...)
				} else {
					x.dir("if", "if", x.operand())
				}
			}
		case 1:
			isFor = false
			middle = func() { x.dir("else", "else") }
		default:
			closer = func() {
				if isFor {
					x.dir("endfor", "endfor")
				} else {
					x.dir("endif", "endif")
				}
			}
		}
	case "wrong-block":
		switch uni(x.t, 6) {
		case 0: // else inside for
			isFor = true
			where = 1
		case 1: // wrong closer
			closer = func() {
				if isFor {
					x.dir("endif")
				} else {
					x.dir("endfor")
				}
			}
		case 2: // else after else
			isFor = false
			middle = func() { x.dir("else"); x.body(depth, false); x.dir("else") }
			where = 1
		case 3: // closer with nothing open
			opener = func() {}
		case 4: // never closed
			closer = func() {}
		default: // in as a directive keyword
			middle = func() { x.dir("in", x.operand()) }
			where = 1
		}
	case "for-junk":
		isFor = true
		opener = func() {
			head := []string{"for", "k", ",", "v", "in", x.operand()}
			p := uni(x.t, len(head)+1)
			j := x.pick(dirJunk)
			if x.quoted && strings.Contains(j, "\"") {
				j = "1"
			}
			out := append(append(append([]string{}, head[:p]...), j), head[p:]...)
			if uni(x.t, 4) == 0 { // or replace instead of insert
				out = append(append(append([]string{}, head[:p]...), j), head[min(p+1, len(head)):]...)
			}
			x.dir(out...)
		}
	case "unknown-kw":
		u := func() {
			if uni(x.t, 2) == 0 {
				x.dir(x.pick(dirUnknown))
			} else {
				x.dir(x.pick(dirUnknown), x.operand())
			}
		}
		switch where {
		case 0:
			opener = u
		case 1:
			middle = u
		default:
			closer = u
		}
	}

	opener()
	x.body(depth, nearMiss)
	if (where == 1 && kind != "wellformed" && kind != "cut" && kind != "for-junk") || (!isFor && uni(x.t, 2) == 0) {
		middle()
		x.body(depth, false)
	}
	closer()
}

// genDirectiveTemplate returns the text of a template (no container) and its labels.
func genDirectiveTemplate(t *rapid.T, quoted bool, note *zooNote) (string, []string) {
	x := &dirGen{t: t, quoted: quoted, zoo: note != nil, note: note}
	x.kind = dirKinds[uni(t, len(dirKinds))]
	x.strip = uni(t, 3) == 0
	depth := uni(t, 4) // 0..3
	x.lit()
	x.block(depth, x.kind != "wellformed" && x.kind != "cut")
	if uni(t, 3) == 0 {
		x.lit()
		x.block(uni(t, 2), false)
	}
	x.lit()
	labels := []string{"dir:" + x.kind, "nest:" + string(rune('0'+depth))}
	if x.strip {
		labels = append(labels, "strip-markers")
	}
	toks := x.toks
	if x.kind == "cut" && len(toks) > 0 {
		toks = toks[:uni(t, len(toks))]
	}
	return strings.Join(toks, ""), labels
}

var dirContainers = []string{"quoted", "heredoc", "heredoc-flush", "bare", "json-string"}

// genDirectiveCase: a directive-family template in a container that suits an entry point.
func genDirectiveCase(t *rapid.T) Case {
	cont := dirContainers[uni(t, len(dirContainers))]
	quoted := cont == "quoted" || cont == "json-string"
	// one case in five: white space zoo inside the directives and around the heredoc markers
	var note *zooNote
	if uni(t, 5) == 0 {
		note = &zooNote{}
	}
	z := func(slot string) string {
		if note == nil || uni(t, 2) == 0 {
			return ""
		}
		s, names := zooRun(t)
		note.add(slot, names)
		return s
	}
	tmpl, labels := genDirectiveTemplate(t, quoted, note)
	labels = append(labels, "in:"+cont)
	recovery := uni(t, 4) == 0
	if recovery {
		labels = append(labels, "after-syntax-error")
	}
	var c Case
	c.Gen = "directive"
	var expr string
	switch cont {
	case "quoted":
		expr = "\"" + tmpl + "\""
	case "heredoc":
		expr = "<<EOT" + z("hd-open-post") + "\n" + tmpl + z("hd-line-end") + "\n" + z("hd-close-pre") + "EOT" + z("hd-close-post") + "\n"
	case "heredoc-flush":
		expr = "<<-EOT" + z("hd-open-post") + "\n    " + strings.ReplaceAll(tmpl, "\n", "\n    ") + z("hd-line-end") + "\n  " + z("hd-close-pre") + "EOT" + z("hd-close-post") + "\n"
	}
	switch cont {
	case "bare":
		c.Entry = []string{eTemplate, eTemplate, eLexTemplate}[uni(t, 3)]
		if recovery {
			tmpl = "${ 1 2 }" + tmpl
		}
		c.Src = []byte(tmpl)
	case "json-string":
		c.Entry = []string{eJSON, eJSONExpr}[uni(t, 2)]
		js := strings.NewReplacer("\\", "\\\\", "\"", "\\\"", "\n", "\\n", "\f", "\\f", "\r", "\\r", "\v", "\\u000b", "\t", "\\t").Replace(tmpl)
		if c.Entry == eJSON {
			c.Src = []byte("{\"a\": \"" + js + "\", \"b\": [\"" + js + "\"]}")
		} else {
			c.Src = []byte("[\"" + js + "\"]")
		}
		if recovery { // (for JSON: an earlier broken template in the same document)
			c.Src = append([]byte("[\"${ 1 2 }\", "), append(c.Src, ']')...)
			if c.Entry == eJSON {
				c.Src = []byte("{\"z\": \"${ 1 2 }\", \"a\": \"" + js + "\"}")
			}
		}
	default:
		switch uni(t, 3) {
		case 0:
			c.Entry = []string{eExpr, eExpr, eLexExpr}[uni(t, 3)]
			if recovery {
				expr = "[(1 2), " + expr + "]"
			} else if uni(t, 3) == 0 {
				expr = "f(" + expr + ")"
			}
			c.Src = []byte(expr)
		case 1:
			c.Entry = eTemplate // the quoted string / heredoc as an interpolated expression
			pre := "x"
			if recovery {
				pre = "${ 1 2 }"
			}
			c.Src = []byte(pre + "${" + expr + "}y")
		default:
			c.Entry = []string{eConfig, eConfig, eHCLWrite, eLexConfig}[uni(t, 4)]
			pre := ""
			if recovery {
				pre = []string{"z = [1 2]\n", "z = \n", "blk { a = 1, b = 2 }\n", "z = f(]\n"}[uni(t, 4)]
			}
			if uni(t, 3) == 0 {
				c.Src = []byte(pre + "blk \"l\" {\n  a = " + expr + "\n}\n")
			} else {
				c.Src = []byte(pre + "a = " + expr + "\n")
			}
		}
	}
	if note != nil {
		labels = append(labels, note.labels()...)
	}
	c.Mut = labels
	return c
}

// near-miss directives for the plain grammar generator and the insert-token mutation
var dirSnippets = []string{
	"%{ else if a }", "%{ else if b }", "%{~ else if x ~}", "%{else if x}", "%{ endif x }", "%{ endfor in }", "%{ else else }",
	"%{ elif a }", "%{ elseif a }", "%{ elsif a }", "%{ end }", "%{ if if a }", "%{ for for x in y }", "%{ for k, v in }",
	"%{ for k, in y }", "%{ for , v in y }", "%{ for k v in y }", "%{ in y }", "%{ endif endif }", "%{ else for x in y }",
	"%{ if a else }", "%{ if a }x%{ else if b }y%{ endif }", "%{ for x in y }%{ else }%{ endfor }", "%{ if a }%{ endfor }",
}

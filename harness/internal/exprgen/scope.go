package exprgen

// Scope-aware static analysis of OUR tree: which names does a tree look up in the scope it
// is evaluated in (its FREE variables), and how do its for-expressions / %{for} directives
// bind names relative to one another and to a set of outer names.
//
// The language rule: a for-expression `[for k, v in COLL : BODY if COND]` (and a template
// directive `%{for k, v in COLL}BODY%{endfor}`) evaluates COLL in the enclosing scope and
// its key / value / condition clauses (the directive's body) in a child scope in which k
// and v are bound; a child binding hides an outer binding of the same name for exactly the
// extent of that clause.  Bare-name object keys and function names are not variables.

import "sort"

type nameStack []string

func (s nameStack) has(name string) bool {
	for i := len(s) - 1; i >= 0; i-- {
		if s[i] == name {
			return true
		}
	}
	return false
}

// FreeVars returns the set of names that n refers to and that no enclosing
// for-expression / for-directive INSIDE n binds.
func FreeVars(n *Node) map[string]bool {
	out := map[string]bool{}
	var st nameStack
	freeNode(n, &st, out)
	return out
}

// FreeVarList is FreeVars in sorted order.
func FreeVarList(n *Node) []string {
	m := FreeVars(n)
	out := make([]string, 0, len(m))
	for k := range m {
		out = append(out, k)
	}
	sort.Strings(out)
	return out
}

// FuncFreeVars: the free variables of a user function's body that are not its parameters
// (the names the function closes over).
func FuncFreeVars(f *FuncDef) map[string]bool {
	out := map[string]bool{}
	st := nameStack{}
	st = append(st, f.Params...)
	if f.VarParam != "" {
		st = append(st, f.VarParam)
	}
	freeNode(f.Body, &st, out)
	return out
}

func freeNode(n *Node, st *nameStack, out map[string]bool) {
	if n == nil {
		return
	}
	switch n.K {
	case KVar:
		if !st.has(n.Name) {
			out[n.Name] = true
		}
		return
	case KFor:
		freeNode(n.A, st, out)
		mark := len(*st)
		if n.KeyVar != "" {
			*st = append(*st, n.KeyVar)
		}
		if n.ValVar != "" {
			*st = append(*st, n.ValVar)
		}
		freeNode(n.Key, st, out)
		freeNode(n.B2, st, out)
		freeNode(n.C, st, out)
		*st = (*st)[:mark]
		return
	}
	freeNode(n.A, st, out)
	freeNode(n.B2, st, out)
	freeNode(n.C, st, out)
	freeNode(n.Key, st, out)
	freeNode(n.Each, st, out)
	for _, k := range n.Kids {
		freeNode(k, st, out)
	}
	for _, it := range n.Items {
		if it.KS != "ident" {
			freeNode(it.KeyE, st, out)
		}
		freeNode(it.Val, st, out)
	}
	freeParts(n.Parts, st, out)
}

func freeParts(ps []*Part, st *nameStack, out map[string]bool) {
	for _, p := range ps {
		switch p.K {
		case PInterp:
			freeNode(p.E, st, out)
		case PIf:
			freeNode(p.E, st, out)
			freeParts(p.Then, st, out)
			freeParts(p.Else, st, out)
		case PFor:
			freeNode(p.E, st, out)
			mark := len(*st)
			if p.KeyVar != "" {
				*st = append(*st, p.KeyVar)
			}
			if p.ValVar != "" {
				*st = append(*st, p.ValVar)
			}
			freeParts(p.Then, st, out)
			*st = (*st)[:mark]
		}
	}
}

// ScopeFacts describes how the loops (for-expressions and %{for} directives) of a tree bind
// names relative to one another and to a set of outer names (evidence labels only).
type ScopeFacts struct {
	Loops        int  // for-expressions + for-directives
	Nested       bool // a loop inside a clause / body of another loop
	ShadowsOuter bool // a loop binds a name from `outer` (environment variables, function parameters)
	Rebinds      bool // a loop binds a name that an ENCLOSING loop binds
	UsedBefore   bool // ... and the enclosing binding is used in the same clause before the inner loop
	UsedInside   bool // ... and the re-bound name is used inside the inner loop's own clauses
	UsedAfter    bool // ... and the enclosing binding is used in the same clause AFTER the inner loop
	// names bound by some loop that are also in `outer`
	ShadowedOuter map[string]bool
	// names re-bound by an inner loop with the enclosing binding used after the inner loop
	AfterNames map[string]bool
	// the same, where the ENCLOSING loop lies inside an argument of try() / can()
	AfterNamesTryCan map[string]bool
	TryCan           bool // the tree calls try() or can()
	TryCanAroundLoop bool // an argument of try() / can() contains a loop
}

type loopFrame struct {
	names   []string
	inTry   bool            // the loop lies inside an argument of try() / can()
	uses    map[string]int  // uses of THIS binding in the clause being walked
	ever    map[string]int  // uses of THIS binding in any clause
	rebound map[string]bool // an inner loop re-binding the name has been left in the clause being walked
}

type scopeWalker struct {
	outer  map[string]bool
	frames []*loopFrame
	try    int // number of enclosing try()/can() arguments
	f      *ScopeFacts
}

// Scopes computes the ScopeFacts of a tree; outer = names bound outside the tree.
func Scopes(n *Node, outer map[string]bool) ScopeFacts {
	w := &scopeWalker{outer: outer, f: &ScopeFacts{AfterNames: map[string]bool{}, AfterNamesTryCan: map[string]bool{}, ShadowedOuter: map[string]bool{}}}
	w.node(n)
	return *w.f
}

func (w *scopeWalker) binder(name string) *loopFrame {
	for i := len(w.frames) - 1; i >= 0; i-- {
		for _, nm := range w.frames[i].names {
			if nm == name {
				return w.frames[i]
			}
		}
	}
	return nil
}

func (w *scopeWalker) use(name string) {
	fr := w.binder(name)
	if fr == nil {
		return
	}
	fr.uses[name]++
	fr.ever[name]++
	if fr.rebound[name] {
		w.f.UsedAfter = true
		w.f.AfterNames[name] = true
		if fr.inTry {
			w.f.AfterNamesTryCan[name] = true
		}
	}
}

// loop walks one loop: clauses is called with the new frame pushed and is handed a function
// that it calls at the start of every clause of the loop.
func (w *scopeWalker) loop(keyVar, valVar string, clauses func(newClause func())) {
	w.f.Loops++
	if len(w.frames) > 0 {
		w.f.Nested = true
	}
	fr := &loopFrame{inTry: w.try > 0, uses: map[string]int{}, ever: map[string]int{}, rebound: map[string]bool{}}
	var enclosing []*loopFrame
	for _, nm := range []string{keyVar, valVar} {
		if nm == "" {
			continue
		}
		fr.names = append(fr.names, nm)
		if w.outer[nm] {
			w.f.ShadowsOuter = true
			w.f.ShadowedOuter[nm] = true
		}
		of := w.binder(nm)
		if of != nil {
			w.f.Rebinds = true
			if of.uses[nm] > 0 {
				w.f.UsedBefore = true
			}
		}
		enclosing = append(enclosing, of)
	}
	w.frames = append(w.frames, fr)
	clauses(func() {
		for k := range fr.uses {
			delete(fr.uses, k)
		}
		for k := range fr.rebound {
			delete(fr.rebound, k)
		}
	})
	w.frames = w.frames[:len(w.frames)-1]
	for i, nm := range fr.names {
		of := enclosing[i]
		if of == nil {
			continue
		}
		if fr.ever[nm] > 0 {
			w.f.UsedInside = true
		}
		// the inner loop has been left: later uses of nm in this clause mean the enclosing binding again
		of.rebound[nm] = true
	}
}

func (w *scopeWalker) node(n *Node) {
	if n == nil {
		return
	}
	switch n.K {
	case KVar:
		w.use(n.Name)
		return
	case KFor:
		w.node(n.A)
		w.loop(n.KeyVar, n.ValVar, func(newClause func()) {
			newClause()
			w.node(n.Key)
			newClause()
			w.node(n.B2)
			newClause()
			w.node(n.C)
		})
		return
	case KCall:
		if n.Name == "try" || n.Name == "can" {
			w.f.TryCan = true
			before := w.f.Loops
			w.try++
			for _, k := range n.Kids {
				w.node(k)
			}
			w.try--
			if w.f.Loops > before {
				w.f.TryCanAroundLoop = true
			}
			return
		}
	}
	w.node(n.A)
	w.node(n.B2)
	w.node(n.C)
	w.node(n.Key)
	w.node(n.Each)
	for _, k := range n.Kids {
		w.node(k)
	}
	for _, it := range n.Items {
		if it.KS != "ident" {
			w.node(it.KeyE)
		}
		w.node(it.Val)
	}
	w.parts(n.Parts)
}

func (w *scopeWalker) parts(ps []*Part) {
	for _, p := range ps {
		switch p.K {
		case PInterp:
			w.node(p.E)
		case PIf:
			w.node(p.E)
			w.parts(p.Then)
			w.parts(p.Else)
		case PFor:
			w.node(p.E)
			w.loop(p.KeyVar, p.ValVar, func(newClause func()) {
				newClause()
				w.parts(p.Then)
			})
		}
	}
}

package exprgen

// Generator classes around NAME BINDING (see scope.go for the rule):
//
//   - iteration variables named like environment variables / function parameters (loopName)
//   - inner loops that re-bind the name of an enclosing loop, with uses of the enclosing
//     binding before and after the inner loop in one clause (rebindSandwich; also arises
//     naturally from loopName in tuple / object constructors, operators and templates)
//   - environment values that contain unknown values (pokeUnknown)
//   - try() / can() around a whole generated tree (TryCanWrap), in addition to the try/can
//     nodes Expr / boolExpr place anywhere

// pokeUnknown replaces one element somewhere inside a tuple / object / list / map value by an
// unknown value of the element's type.  false: the value has no place for one.
func (g *G) pokeUnknown(v *Val, t *ty) bool { return g.pokeUnknownIn(v, t, false) }

// strict: the value lies inside a list / map, whose elements must keep exactly one cty type.
func (g *G) pokeUnknownIn(v *Val, t *ty, strict bool) bool {
	if len(v.Elems) == 0 {
		return false
	}
	i := g.int(0, len(v.Elems)-1, "pokeidx")
	var et *ty
	switch {
	case v.T == "tuple" && t.k == tSeq, v.T == "list" && t.k == tSeq:
		et = t.elem
	case (v.T == "object" || v.T == "map") && t.k == tDict:
		et = t.elem
	case v.T == "object" && t.k == tObj:
		if len(t.fields) != len(v.Elems) {
			return false
		}
		et = t.fields[i].t
	default:
		// sets: an unknown element makes the whole set unknown
		return false
	}
	if et == nil {
		return false
	}
	strict = strict || v.T == "list" || v.T == "map"
	if g.bool("pokedeeper") && g.pokeUnknownIn(&v.Elems[i], et, strict) {
		return true
	}
	var d *TyDesc
	if strict {
		// the elements of a list / map share one type
		d = fixedTy(et)
		if d == nil {
			return false
		}
		if len(v.Elems[i].Elems) == 0 && (v.Elems[i].T == "list" || v.Elems[i].T == "map" || v.Elems[i].T == "set") {
			// an empty collection element was rendered with a default element type
			return false
		}
		if v.Elems[i].T == "tuple" || (v.Elems[i].T == "object" && et.k == tDict) {
			// rendered structurally (tuple / object), not with the fixed list / map type
			return false
		}
	} else {
		d = anyTy(et)
		if g.pct(20, "pokedyn") {
			d = &TyDesc{K: "dyn"}
		}
	}
	v.Elems[i] = Val{T: "unknownof", Ty: d}
	return true
}

// visibleLoopVars: the iteration variables in scope that are not hidden by a later binding.
func (g *G) visibleLoopVars() []gvar {
	var out []gvar
	seen := map[string]bool{}
	for i := len(g.scope) - 1; i >= 0; i-- {
		v := g.scope[i]
		if seen[v.name] {
			continue
		}
		seen[v.name] = true
		if v.loop {
			out = append(out, v)
		}
	}
	return out
}

// useOf: an expression that reads the variable.
func (g *G) useOf(v gvar) *Node {
	ref := &Node{K: KVar, Name: v.name}
	switch g.w("useof", 6, 2, 2) {
	case 1:
		return tup(ref)
	case 2:
		switch v.t.k {
		case tNum:
			return &Node{K: KBin, Op: "+", A: ref, B2: g.numLiteral()}
		case tStr, tBool:
			return &Node{K: KTmpl, Parts: []*Part{{K: PLit, S: "u:"}, {K: PInterp, E: ref}}}
		}
		return &Node{K: KBin, Op: "==", A: ref, B2: clone(ref)}
	}
	return ref
}

// forForced: a tuple-form or object-form for-expression one of whose iteration variables
// is called name.  Its collection is, when that makes sense, the enclosing variable of that
// name itself (`for x in x`).
func (g *G) forForced(d int, name string, self *gvar) *Node {
	var src *Node
	var kt, vt *ty
	if self != nil && g.pct(40, "forself") {
		switch self.t.k {
		case tSeq:
			src, kt, vt = &Node{K: KVar, Name: self.name}, tyNum, self.t.elem
		case tDict:
			src, kt, vt = &Node{K: KVar, Name: self.name}, tyStr, self.t.elem
		case tObj:
			if len(self.t.fields) > 0 {
				same := true
				for _, f := range self.t.fields {
					if !compat(f.t, self.t.fields[0].t) {
						same = false
					}
				}
				if same {
					src, kt, vt = &Node{K: KVar, Name: self.name}, tyStr, self.t.fields[0].t
				}
			}
		}
	}
	if src == nil || vt == nil {
		src, kt, vt = g.iterSource(d - 1)
	}
	key, val, done := g.loopVarsForced(kt, vt, name)
	defer done()
	// the body mostly has the type of the value variable so that the re-bound name itself is a candidate leaf
	bt := vt
	if g.pct(40, "forcedbody") {
		bt = []*ty{tyNum, tyStr, tyBool}[g.int(0, 2, "forcedbodyty")]
	}
	n := &Node{K: KFor, KeyVar: key, ValVar: val, A: src}
	if key != "" && g.pct(30, "forcedobj") {
		// object form; the key variable is unique per element
		n.Key = &Node{K: KVar, Name: key}
	}
	n.B2 = g.Expr(bt, d-1)
	if g.pct(30, "forif") {
		n.C = g.Expr(tyBool, d-1)
	}
	return n
}

// rebindSandwich: inside a clause of a loop binding x, a constructor whose elements are
//
//	use of x , a loop that binds x again , use of x [, an expression of the wanted type]
//
// indexed / accessed so that the whole has the wanted type.  nil outside loops.
func (g *G) rebindSandwich(w *ty, d int) *Node {
	lvs := g.visibleLoopVars()
	if len(lvs) == 0 || d <= 0 {
		return nil
	}
	v := lvs[g.int(0, len(lvs)-1, "sandvar")]
	// preferably a loop variable that itself shadows an environment variable (of unknown value
	// first): the environment then holds the name three bindings out
	var shUnk, sh []gvar
	for _, lv := range lvs {
		for _, o := range g.scope {
			if !o.loop && o.name == lv.name {
				sh = append(sh, lv)
				if o.unk {
					shUnk = append(shUnk, lv)
				}
				break
			}
		}
	}
	switch g.w("sandpref", 2, 1, 1) {
	case 0:
		if len(shUnk) > 0 {
			v = shUnk[g.int(0, len(shUnk)-1, "sandunk")]
		} else if len(sh) > 0 {
			v = sh[g.int(0, len(sh)-1, "sandsh")]
		}
	case 1:
		if len(sh) > 0 {
			v = sh[g.int(0, len(sh)-1, "sandsh")]
		}
	}
	var elems []*Node
	if g.pct(60, "sandbefore") {
		elems = append(elems, g.useOf(v))
	}
	elems = append(elems, g.forForced(d, v.name, &v))
	if g.pct(85, "sandafter") {
		elems = append(elems, g.useOf(v))
	}
	sel := -1
	if compat(v.t, w) {
		for i, e := range elems {
			if e.K == KVar && (sel < 0 || g.bool("sandsel")) {
				sel = i
			}
		}
	}
	if sel < 0 {
		elems = append(elems, g.Expr(w, d-1))
		sel = len(elems) - 1
		if g.bool("sandfront") {
			// the typed element first: everything else follows it
			elems = append([]*Node{elems[sel]}, elems[:sel]...)
			sel = 0
		}
	}
	if g.pct(35, "sandobj") {
		o := &Node{K: KObj}
		names := []string{"p", "q", "r", "s", "t"}
		for i, e := range elems {
			o.Items = append(o.Items, Item{KS: "ident", Name: names[i], Val: e})
		}
		return &Node{K: KAttr, A: o, Name: names[sel]}
	}
	return &Node{K: KIndex, A: tup(elems...), B2: numLit(itoa(sel))}
}

func itoa(i int) string { return string(rune('0' + i)) }

// TryCanWrap puts a whole tree into the argument position of try() / can().
func (g *G) TryCanWrap(root *Node) *Node {
	switch g.w("trycanwrap", 4, 3, 3) {
	case 0:
		return &Node{K: KCall, Name: "try", Kids: []*Node{root}}
	case 1:
		var fb *Node
		switch g.int(0, 2, "wrapfallback") {
		case 0:
			fb = g.numLiteral()
		case 1:
			fb = strLit("fallback")
		default:
			fb = &Node{K: KNull}
		}
		return &Node{K: KCall, Name: "try", Kids: []*Node{root, fb}}
	}
	return &Node{K: KCall, Name: "can", Kids: []*Node{root}}
}

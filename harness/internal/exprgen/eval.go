package exprgen

// Reference evaluator.  Everything here is written from the language rules (HCL
// native syntax specification + syntax-agnostic information model, the in-tree guide,
// ext/userfunc and ext/tryfunc READMEs).  The result of evaluating a tree is one of
//
//	value            the language prescribes exactly this value and no error
//	Err              the language prescribes an error diagnostic
//	Unspec           the tree leaves territory that the documents pin down (listed in
//	                 c18/README.md); only the metamorphic oracle applies
//	value + ErrOK    the value is prescribed IF the implementation reports no error, but
//	                 an error is acceptable too (zero-iteration `for` with an `if` clause,
//	                 faults in an unselected template branch)
//
// cty is used only as the value representation (constructors, RawEquals, type
// predicates); all arithmetic is done on big.Rat and all conversions are our own.

import (
	"math/big"
	"os"
	"sort"
	"strings"
	"unicode"

	"github.com/zclconf/go-cty/cty"
)

type Res struct {
	V      cty.Value
	Err    bool
	Why    string // reason code of the first error (stable, used in violation signatures)
	Unspec bool
	UWhy   string
	Hard   bool // unspecified because an unknown value is involved: dominates errors of sibling operands
	ErrOK  bool
}

func okR(v cty.Value) Res          { return Res{V: v} }
func errR(why string) Res          { return Res{Err: true, Why: why} }
func unspecR(why string) Res       { return Res{Unspec: true, UWhy: why} }
func (r Res) bad() bool            { return r.Err || r.Unspec }
func (r Res) withErrOK(b bool) Res { r.ErrOK = r.ErrOK || b; return r }

// merge implements "every operand is evaluated and every operand's errors are
// reported": an error in any operand is an error of the whole; otherwise an
// unspecified operand makes the whole unspecified.
func merge(rs ...Res) (Res, bool) {
	for _, r := range rs {
		if r.Unspec && r.Hard {
			// an unknown operand: implementations may defer everything (try/can do), so
			// not even the error of a sibling operand is prescribed
			return r, true
		}
	}
	for _, r := range rs {
		if r.Err {
			return errR(r.Why), true
		}
	}
	for _, r := range rs {
		if r.Unspec {
			return unspecR(r.UWhy), true
		}
	}
	return Res{}, false
}

func anyErrOK(rs ...Res) bool {
	for _, r := range rs {
		if r.ErrOK {
			return true
		}
	}
	return false
}

type Scope struct {
	Vars   map[string]cty.Value
	Parent *Scope
}

func (s *Scope) lookup(name string) (cty.Value, bool) {
	for c := s; c != nil; c = c.Parent {
		if v, ok := c.Vars[name]; ok {
			return v, true
		}
	}
	return cty.NilVal, false
}

type Ev struct {
	Funcs  map[string]*FuncDef
	Global *Scope
	its    []cty.Value
	depth  int
}

func NewEv(vars []Var, funcs []FuncDef) (*Ev, error) {
	g := &Scope{Vars: map[string]cty.Value{}}
	for _, v := range vars {
		c, err := v.V.Cty()
		if err != nil {
			return nil, err
		}
		g.Vars[v.Name] = c
	}
	fm := map[string]*FuncDef{}
	for i := range funcs {
		fm[funcs[i].Name] = &funcs[i]
	}
	return &Ev{Funcs: fm, Global: g}, nil
}

func (e *Ev) Eval(n *Node) Res { return e.eval(n, e.Global) }

// ---------------------------------------------------------------- conversions

type cs int

const (
	cOK cs = iota
	cErr
	cUnspec
)

var negZero = func() *big.Float { return new(big.Float).SetPrec(512).Neg(new(big.Float).SetPrec(512)) }

// numVal builds a number result.  negZero: a float implementation following the
// IEEE sign rules would produce a negative zero here (0 * -5, -(0), ...).  The
// language has a single zero, so nothing is wrong with either sign, but the sign
// becomes visible when the zero is converted to a string ("-0"); such a zero is
// marked so that its string conversion is treated as not pinned down.
func numVal(r *big.Rat, negZ bool) Res {
	if !ExactRat(r) {
		return unspecR("number-not-exact")
	}
	if r.Sign() == 0 && negZ {
		return okR(cty.NumberVal(negZero()))
	}
	return okR(RatToCty(r))
}

// signOf: sign bit of an operand as an IEEE-style implementation would see it
func signOf(v cty.Value, r *big.Rat) bool {
	if r.Sign() != 0 {
		return r.Sign() < 0
	}
	if v.IsNull() {
		return false
	}
	switch v.Type() {
	case cty.Number:
		return v.AsBigFloat().Signbit()
	case cty.String:
		return strings.HasPrefix(v.AsString(), "-")
	}
	return false
}

func ratOf(v cty.Value) *big.Rat {
	r, _ := v.AsBigFloat().Rat(nil)
	if r == nil {
		return new(big.Rat)
	}
	return r
}

// classify a string that is asked to become a number
func strToNum(s string) (*big.Rat, cs) {
	if s == "" {
		return nil, cErr
	}
	// strict decimal form: -?digits(.digits)?
	i := 0
	if s[0] == '-' {
		i = 1
	}
	j := i
	for j < len(s) && s[j] >= '0' && s[j] <= '9' {
		j++
	}
	strict := j > i
	if strict && j < len(s) {
		if s[j] == '.' {
			k := j + 1
			for k < len(s) && s[k] >= '0' && s[k] <= '9' {
				k++
			}
			strict = k > j+1 && k == len(s)
		} else {
			strict = false
		}
	}
	if strict {
		r, ok := new(big.Rat).SetString(s)
		if !ok {
			return nil, cUnspec
		}
		if !ExactRat(r) {
			return nil, cUnspec
		}
		return r, cOK
	}
	// anything that could conceivably be read as a number by some number syntax: not pinned down
	low := strings.ToLower(s)
	if strings.Contains(low, "inf") || strings.Contains(low, "nan") {
		return nil, cUnspec
	}
	hasDigit := false
	onlyNumeric := true
	for _, c := range s {
		if c >= '0' && c <= '9' {
			hasDigit = true
		}
		if !(c >= '0' && c <= '9') && !strings.ContainsRune("+-.eExXpP_ \t\n", c) {
			onlyNumeric = false
		}
	}
	if hasDigit && onlyNumeric {
		return nil, cUnspec
	}
	return nil, cErr
}

func toNum(v cty.Value) (*big.Rat, cs) {
	if v.IsNull() {
		return nil, cErr
	}
	switch v.Type() {
	case cty.Number:
		return ratOf(v), cOK
	case cty.String:
		return strToNum(v.AsString())
	}
	return nil, cErr
}

func toBool(v cty.Value) (bool, cs) {
	if v.IsNull() {
		return false, cErr
	}
	switch v.Type() {
	case cty.Bool:
		return v.True(), cOK
	case cty.String:
		switch v.AsString() {
		case "true":
			return true, cOK
		case "false":
			return false, cOK
		case "1", "0":
			return false, cUnspec
		}
		return false, cErr
	}
	return false, cErr
}

// RatString is the decimal spelling of an exact dyadic rational.
func RatString(r *big.Rat) string {
	if r.IsInt() {
		return r.Num().String()
	}
	k := r.Denom().BitLen() - 1
	return r.FloatString(k)
}

func toStr(v cty.Value) (string, cs) {
	if v.IsNull() {
		return "", cErr
	}
	switch v.Type() {
	case cty.String:
		return v.AsString(), cOK
	case cty.Bool:
		if v.True() {
			return "true", cOK
		}
		return "false", cOK
	case cty.Number:
		bf := v.AsBigFloat()
		if bf.Sign() == 0 && bf.Signbit() {
			return "", cUnspec
		}
		if bf.IsInf() {
			return "", cUnspec
		}
		return RatString(ratOf(v)), cOK
	}
	return "", cErr
}

func csRes(c cs, why string) Res {
	if c == cUnspec {
		return unspecR(why)
	}
	return errR(why)
}

// ---------------------------------------------------------------- evaluation

func (e *Ev) eval(n *Node, sc *Scope) Res {
	if n == nil {
		return unspecR("nil-node")
	}
	e.depth++
	defer func() { e.depth-- }()
	if e.depth > 40000 {
		return unspecR("too-deep")
	}
	switch n.K {
	case KNum:
		r, ok := ParseRat(n.N)
		if !ok || r.Sign() < 0 {
			return unspecR("bad-literal")
		}
		return numVal(r, false)
	case KBool:
		return okR(cty.BoolVal(n.B))
	case KNull:
		return okR(cty.NullVal(cty.DynamicPseudoType))
	case KVar:
		v, ok := sc.lookup(n.Name)
		if !ok {
			return errR("undefined-variable")
		}
		if !v.IsWhollyKnown() {
			return Res{Unspec: true, UWhy: "unknown-value", Hard: true}
		}
		return okR(v)
	case KIt:
		if len(e.its) == 0 {
			return unspecR("it-outside-splat")
		}
		return okR(e.its[len(e.its)-1])
	case KUn:
		return e.evalUn(n, sc)
	case KBin:
		return e.evalBin(n, sc)
	case KCond:
		return e.evalCond(n, sc)
	case KTuple:
		rs := make([]Res, len(n.Kids))
		vs := make([]cty.Value, len(n.Kids))
		for i, k := range n.Kids {
			rs[i] = e.eval(k, sc)
			vs[i] = rs[i].V
		}
		if b, bad := merge(rs...); bad {
			return b
		}
		return okR(cty.TupleVal(vs)).withErrOK(anyErrOK(rs...))
	case KObj:
		return e.evalObj(n, sc)
	case KIndex:
		c := e.eval(n.A, sc)
		k := e.eval(n.B2, sc)
		if b, bad := merge(c, k); bad {
			return b
		}
		return index(c.V, k.V).withErrOK(c.ErrOK || k.ErrOK)
	case KAttr:
		o := e.eval(n.A, sc)
		if o.bad() {
			return o
		}
		return getAttr(o.V, n.Name).withErrOK(o.ErrOK)
	case KSplat:
		return e.evalSplat(n, sc)
	case KFor:
		return e.evalFor(n, sc)
	case KCall:
		return e.evalCall(n, sc)
	case KTmpl:
		return e.evalTmpl(n, sc)
	case KParen:
		return e.eval(n.A, sc)
	}
	return unspecR("unknown-node-kind")
}

func (e *Ev) evalUn(n *Node, sc *Scope) Res {
	a := e.eval(n.A, sc)
	if a.bad() {
		return a
	}
	switch n.Op {
	case "-":
		r, c := toNum(a.V)
		if c != cOK {
			return csRes(c, "unary-minus:operand-not-number")
		}
		return numVal(new(big.Rat).Neg(r), !signOf(a.V, r)).withErrOK(a.ErrOK)
	case "!":
		b, c := toBool(a.V)
		if c != cOK {
			return csRes(c, "not:operand-not-bool")
		}
		return okR(cty.BoolVal(!b)).withErrOK(a.ErrOK)
	}
	return unspecR("bad-unary-op")
}

func hasNestedDynamic(v cty.Value) bool {
	return v.Type().HasDynamicTypes()
}

// Equal implements "two values are equal if they are of identical types and their
// values are equal"; null equals only null.
func equalVals(a, b cty.Value) (bool, cs) {
	if a.IsNull() && b.IsNull() {
		return true, cOK
	}
	if a.IsNull() || b.IsNull() {
		return false, cOK
	}
	if hasNestedDynamic(a) || hasNestedDynamic(b) {
		// a collection containing an untyped null: the type of the operand is not
		// fully determined, the documents do not say what equality does
		return false, cUnspec
	}
	if !a.Type().Equals(b.Type()) {
		return false, cOK
	}
	return a.RawEquals(b), cOK
}

func (e *Ev) evalBin(n *Node, sc *Scope) Res {
	l := e.eval(n.A, sc)
	r := e.eval(n.B2, sc)
	if b, bad := merge(l, r); bad {
		return b
	}
	eo := l.ErrOK || r.ErrOK
	switch n.Op {
	case "==", "!=":
		eq, c := equalVals(l.V, r.V)
		if c != cOK {
			return csRes(c, "equality-with-nested-untyped-null")
		}
		if n.Op == "!=" {
			eq = !eq
		}
		return okR(cty.BoolVal(eq)).withErrOK(eo)
	case "&&", "||":
		a, c1 := toBool(l.V)
		b, c2 := toBool(r.V)
		if c1 == cErr || c2 == cErr {
			return errR("logic:operand-not-bool")
		}
		if c1 != cOK || c2 != cOK {
			return unspecR("logic:operand-conversion")
		}
		if n.Op == "&&" {
			return okR(cty.BoolVal(a && b)).withErrOK(eo)
		}
		return okR(cty.BoolVal(a || b)).withErrOK(eo)
	}
	a, c1 := toNum(l.V)
	b, c2 := toNum(r.V)
	if c1 == cErr || c2 == cErr {
		return errR("arith:" + opName(n.Op) + ":operand-not-number")
	}
	if c1 != cOK || c2 != cOK {
		return unspecR("arith:operand-conversion")
	}
	sa, sb := signOf(l.V, a), signOf(r.V, b)
	bothZero := a.Sign() == 0 && b.Sign() == 0
	switch n.Op {
	case "<":
		return okR(cty.BoolVal(a.Cmp(b) < 0)).withErrOK(eo)
	case "<=":
		return okR(cty.BoolVal(a.Cmp(b) <= 0)).withErrOK(eo)
	case ">":
		return okR(cty.BoolVal(a.Cmp(b) > 0)).withErrOK(eo)
	case ">=":
		return okR(cty.BoolVal(a.Cmp(b) >= 0)).withErrOK(eo)
	case "+":
		return numVal(new(big.Rat).Add(a, b), bothZero && sa && sb).withErrOK(eo)
	case "-":
		return numVal(new(big.Rat).Sub(a, b), bothZero && sa && !sb).withErrOK(eo)
	case "*":
		return numVal(new(big.Rat).Mul(a, b), sa != sb).withErrOK(eo)
	case "/":
		if b.Sign() == 0 {
			return unspecR("division-by-zero")
		}
		return numVal(new(big.Rat).Quo(a, b), sa != sb).withErrOK(eo)
	case "%":
		// "remainder" is pinned down only for a non-negative whole dividend and a
		// positive whole divisor
		if !a.IsInt() || !b.IsInt() || a.Sign() < 0 || b.Sign() <= 0 {
			return unspecR("modulo-outside-naturals")
		}
		m := new(big.Int).Mod(a.Num(), b.Num())
		return numVal(new(big.Rat).SetInt(m), sa).withErrOK(eo)
	}
	return unspecR("bad-binary-op")
}

func opName(op string) string {
	switch op {
	case "+":
		return "add"
	case "-":
		return "sub"
	case "*":
		return "mul"
	case "/":
		return "div"
	case "%":
		return "mod"
	case "<":
		return "lt"
	case "<=":
		return "le"
	case ">":
		return "gt"
	case ">=":
		return "ge"
	}
	return "op"
}

func isDynNull(v cty.Value) bool {
	return v.IsNull() && v.Type() == cty.DynamicPseudoType
}

func (e *Ev) evalCond(n *Node, sc *Scope) Res {
	c := e.eval(n.A, sc)
	t := e.eval(n.B2, sc)
	f := e.eval(n.C, sc)
	for _, r := range []Res{c, t, f} {
		if r.Unspec && r.Hard {
			return r
		}
	}
	if c.Err {
		// the predicate's own error is always reported
		return errR(c.Why)
	}
	if c.Unspec {
		return c
	}
	cb, cc := toBool(c.V)
	if cc == cErr {
		return errR("conditional:predicate-not-bool")
	}
	if cc != cOK {
		return unspecR("conditional:predicate-conversion")
	}
	sel, oth := t, f
	if !cb {
		sel, oth = f, t
	}
	if sel.Err {
		return errR(sel.Why)
	}
	if sel.Unspec {
		return sel
	}
	if oth.bad() || oth.ErrOK {
		// The result type is the unification of BOTH branch types; the type of a
		// failing expression is not defined by the documents.
		return unspecR("conditional:unselected-branch-fails")
	}
	eo := c.ErrOK || sel.ErrOK
	st, ot := sel.V.Type(), oth.V.Type()
	switch {
	case isDynNull(sel.V) && !isDynNull(oth.V):
		// null converts to the type of the other branch, which is the type of the conditional
		return okR(cty.NullVal(ot)).withErrOK(eo)
	case isDynNull(sel.V) || isDynNull(oth.V):
		return okR(sel.V).withErrOK(eo)
	case st.Equals(ot):
		return okR(sel.V).withErrOK(eo)
	case st.IsPrimitiveType() && ot.IsPrimitiveType():
		if st == cty.String || ot == cty.String {
			if sel.V.IsNull() {
				return okR(cty.NullVal(cty.String)).withErrOK(eo)
			}
			s, k := toStr(sel.V)
			if k != cOK {
				return csRes(k, "conditional:to-string")
			}
			return okR(cty.StringVal(s)).withErrOK(eo)
		}
		return unspecR("conditional:number-vs-bool")
	}
	return unspecR("conditional:structural-type-unification")
}

func (e *Ev) evalObj(n *Node, sc *Scope) Res {
	var rs []Res
	keys := make([]string, 0, len(n.Items))
	vals := make([]cty.Value, 0, len(n.Items))
	var late *Res
	for _, it := range n.Items {
		var key string
		switch it.KS {
		case "ident":
			key = it.Name
		default:
			kr := e.eval(it.KeyE, sc)
			rs = append(rs, kr)
			if !kr.bad() {
				if kr.V.IsNull() {
					r := errR("object:null-key")
					rs = append(rs, r)
				} else if s, c := toStr(kr.V); c != cOK {
					r := csRes(c, "object:key-not-string")
					rs = append(rs, r)
				} else {
					key = s
				}
			}
		}
		vr := e.eval(it.Val, sc)
		rs = append(rs, vr)
		keys = append(keys, key)
		vals = append(vals, vr.V)
	}
	_ = late
	if b, bad := merge(rs...); bad {
		return b
	}
	m := map[string]cty.Value{}
	for i, k := range keys {
		if _, dup := m[k]; dup {
			return unspecR("object:duplicate-key-in-constructor")
		}
		m[k] = vals[i]
	}
	return okR(cty.ObjectVal(m)).withErrOK(anyErrOK(rs...))
}

func index(coll, key cty.Value) Res {
	if coll.IsNull() {
		return errR("index:null-collection")
	}
	if key.IsNull() {
		return errR("index:null-key")
	}
	ty := coll.Type()
	switch {
	case ty.IsTupleType() || ty.IsListType():
		r, c := toNum(key)
		if c != cOK {
			return csRes(c, "index:key-not-number")
		}
		if !r.IsInt() {
			return errR("index:fractional")
		}
		if r.Sign() < 0 {
			return errR("index:negative")
		}
		n := coll.LengthInt()
		if !r.Num().IsInt64() || r.Num().Int64() >= int64(n) {
			return errR("index:out-of-range")
		}
		return okR(coll.Index(cty.NumberIntVal(r.Num().Int64())))
	case ty.IsMapType():
		s, c := toStr(key)
		if c != cOK {
			return csRes(c, "index:key-not-string")
		}
		m := coll.AsValueMap()
		v, ok := m[s]
		if !ok {
			return errR("index:missing-map-key")
		}
		return okR(v)
	case ty.IsObjectType():
		s, c := toStr(key)
		if c != cOK {
			return csRes(c, "index:key-not-string")
		}
		if !ty.HasAttribute(s) {
			return errR("index:missing-attribute")
		}
		return okR(coll.GetAttr(s))
	}
	return errR("index:not-indexable")
}

func getAttr(obj cty.Value, name string) Res {
	if obj.IsNull() {
		return errR("attr:null-object")
	}
	ty := obj.Type()
	switch {
	case ty.IsObjectType():
		if !ty.HasAttribute(name) {
			return errR("attr:missing-attribute")
		}
		return okR(obj.GetAttr(name))
	case ty.IsMapType():
		m := obj.AsValueMap()
		v, ok := m[name]
		if !ok {
			return errR("attr:missing-map-key")
		}
		return okR(v)
	}
	return errR("attr:not-an-object")
}

func (e *Ev) evalSplat(n *Node, sc *Scope) Res {
	src := e.eval(n.A, sc)
	if src.bad() {
		return src
	}
	sv := src.V
	sty := sv.Type()
	isSeq := sty.IsTupleType() || sty.IsListType() || sty.IsSetType()
	if sv.IsNull() {
		if !isSeq {
			// (objects and MAPS are single values for a splat, like primitives)
			return okR(cty.EmptyTupleVal).withErrOK(src.ErrOK)
		}
		// a null list/set/tuple: the fork reports an error; the documents only say
		// "null gives an empty tuple" for the auto-wrapped case
		return unspecR("splat:null-sequence")
	}
	if sty.IsSetType() {
		return unspecR("splat:set")
	}
	var items []cty.Value
	if isSeq {
		items = sv.AsValueSlice()
	} else {
		items = []cty.Value{sv}
	}
	if sty.IsListType() && len(items) == 0 {
		// result type list(T) needs type-level evaluation of the traversal
		if n.Each != nil && n.Each.K == KIt {
			return okR(cty.ListValEmpty(sty.ElementType())).withErrOK(src.ErrOK)
		}
		return unspecR("splat:empty-list-with-traversal")
	}
	rs := make([]Res, len(items))
	vs := make([]cty.Value, len(items))
	for i, it := range items {
		e.its = append(e.its, it)
		rs[i] = e.eval(n.Each, sc)
		e.its = e.its[:len(e.its)-1]
		vs[i] = rs[i].V
	}
	if b, bad := merge(rs...); bad {
		return b
	}
	eo := src.ErrOK || anyErrOK(rs...)
	if sty.IsListType() {
		for _, v := range vs[1:] {
			if !v.Type().Equals(vs[0].Type()) {
				return unspecR("splat:list-with-mixed-result-types")
			}
		}
		return okR(cty.ListVal(vs)).withErrOK(eo)
	}
	return okR(cty.TupleVal(vs)).withErrOK(eo)
}

type kv struct {
	k, v cty.Value
}

// elements in the iteration order the language defines: sequence order for
// tuples/lists, lexical key order for objects/maps.
func elements(v cty.Value) ([]kv, bool) {
	ty := v.Type()
	switch {
	case ty.IsSetType():
		// the key of a set element is the element itself; the order is not defined
		// (callers refuse order-sensitive results for more than one element)
		var out []kv
		for _, x := range v.AsValueSlice() {
			out = append(out, kv{x, x})
		}
		return out, true
	case ty.IsTupleType() || ty.IsListType():
		var out []kv
		for i, x := range v.AsValueSlice() {
			out = append(out, kv{cty.NumberIntVal(int64(i)), x})
		}
		return out, true
	case ty.IsObjectType() || ty.IsMapType():
		m := v.AsValueMap()
		ks := make([]string, 0, len(m))
		for k := range m {
			ks = append(ks, k)
		}
		sort.Strings(ks)
		var out []kv
		for _, k := range ks {
			out = append(out, kv{cty.StringVal(k), m[k]})
		}
		return out, true
	}
	return nil, false
}

func (e *Ev) evalFor(n *Node, sc *Scope) Res {
	coll := e.eval(n.A, sc)
	if coll.bad() {
		return coll
	}
	if coll.V.IsNull() {
		return errR("for:null-collection")
	}
	els, ok := elements(coll.V)
	if !ok {
		return errR("for:not-iterable")
	}
	if coll.V.Type().IsSetType() && len(els) > 1 && (n.Key == nil || n.Group) {
		return unspecR("for:set-order")
	}
	eo := coll.ErrOK
	if len(els) == 0 && n.C != nil {
		// An implementation may type-check the `if` clause once before iterating.
		eo = true
	}
	var all []Res
	var tup []cty.Value
	okeys := []string{}
	ovals := map[string]cty.Value{}
	gvals := map[string][]cty.Value{}
	for _, el := range els {
		child := &Scope{Vars: map[string]cty.Value{n.ValVar: el.v}, Parent: sc}
		if n.KeyVar != "" {
			child.Vars[n.KeyVar] = el.k
			if n.KeyVar == n.ValVar {
				return unspecR("for:same-name-twice")
			}
		}
		if n.C != nil {
			cr := e.eval(n.C, child)
			all = append(all, cr)
			if cr.bad() {
				continue
			}
			if cr.V.IsNull() {
				all = append(all, errR("for:null-condition"))
				continue
			}
			inc, c := toBool(cr.V)
			if c != cOK {
				all = append(all, csRes(c, "for:condition-not-bool"))
				continue
			}
			if !inc {
				continue
			}
		}
		if n.Key != nil {
			kr := e.eval(n.Key, child)
			all = append(all, kr)
			var key string
			keyOK := false
			if !kr.bad() {
				if kr.V.IsNull() {
					all = append(all, errR("for:null-key"))
				} else if s, c := toStr(kr.V); c != cOK {
					all = append(all, csRes(c, "for:key-not-string"))
				} else {
					key, keyOK = s, true
				}
			}
			vr := e.eval(n.B2, child)
			if keyOK || !vr.Err {
				// (when the key is invalid an implementation need not evaluate the value)
				all = append(all, vr)
			}
			if !keyOK || vr.bad() {
				continue
			}
			if n.Group {
				if _, seen := gvals[key]; !seen {
					okeys = append(okeys, key)
				}
				gvals[key] = append(gvals[key], vr.V)
			} else {
				if _, dup := ovals[key]; dup {
					all = append(all, errR("for:duplicate-key"))
					continue
				}
				ovals[key] = vr.V
			}
		} else {
			vr := e.eval(n.B2, child)
			all = append(all, vr)
			tup = append(tup, vr.V)
		}
	}
	if b, bad := merge(all...); bad {
		return b
	}
	eo = eo || anyErrOK(all...)
	if n.Key == nil {
		if tup == nil {
			tup = []cty.Value{}
		}
		return okR(cty.TupleVal(tup)).withErrOK(eo)
	}
	if n.Group {
		for _, k := range okeys {
			ovals[k] = cty.TupleVal(gvals[k])
		}
	}
	return okR(cty.ObjectVal(ovals)).withErrOK(eo)
}

func (e *Ev) evalCall(n *Node, sc *Scope) Res {
	switch n.Name {
	case "try":
		if n.Expand {
			return unspecR("try-with-expansion")
		}
		if len(n.Kids) == 0 {
			return errR("try:no-arguments")
		}
		for _, k := range n.Kids {
			if e.mentionsUnknown(k, sc) {
				return Res{Unspec: true, UWhy: "try:argument-mentions-unknown", Hard: true}
			}
			r := e.eval(k, sc)
			if r.Unspec && r.Hard {
				return r
			}
			if r.Unspec || r.ErrOK {
				return unspecR("try:argument-not-pinned-down")
			}
			if r.Err {
				continue
			}
			return okR(r.V)
		}
		return errR("try:no-expression-succeeded")
	case "can":
		if n.Expand {
			return unspecR("can-with-expansion")
		}
		if len(n.Kids) != 1 {
			return errR("call:wrong-argument-count")
		}
		if e.mentionsUnknown(n.Kids[0], sc) {
			return Res{Unspec: true, UWhy: "can:argument-mentions-unknown", Hard: true}
		}
		r := e.eval(n.Kids[0], sc)
		if r.Unspec && r.Hard {
			return r
		}
		if r.Unspec || r.ErrOK {
			return unspecR("can:argument-not-pinned-down")
		}
		return okR(cty.BoolVal(!r.Err))
	}
	fd, ok := e.Funcs[n.Name]
	if !ok {
		return errR("call:unknown-function")
	}
	rs := make([]Res, len(n.Kids))
	for i, k := range n.Kids {
		rs[i] = e.eval(k, sc)
	}
	for _, r := range rs {
		if r.Unspec && r.Hard {
			return r
		}
	}
	var args []cty.Value
	if n.Expand {
		if len(n.Kids) == 0 {
			return unspecR("call:expand-without-arguments")
		}
		last := rs[len(rs)-1]
		if last.Err {
			return errR(last.Why)
		}
		if last.Unspec {
			return last
		}
		lt := last.V.Type()
		if last.V.IsNull() {
			return errR("call:expand-null")
		}
		if !(lt.IsTupleType() || lt.IsListType() || lt.IsSetType()) {
			return errR("call:expand-not-sequence")
		}
		if lt.IsSetType() {
			return unspecR("call:expand-set")
		}
		if b, bad := merge(rs...); bad {
			if b.Err {
				// arity problems and argument errors are both errors
				return b
			}
			return b
		}
		for _, r := range rs[:len(rs)-1] {
			args = append(args, r.V)
		}
		args = append(args, last.V.AsValueSlice()...)
	} else {
		// arity is checked before arguments are evaluated; either way an error
		if len(n.Kids) < len(fd.Params) || (fd.VarParam == "" && len(n.Kids) > len(fd.Params)) {
			return errR("call:wrong-argument-count")
		}
		if b, bad := merge(rs...); bad {
			return b
		}
		for _, r := range rs {
			args = append(args, r.V)
		}
	}
	if len(args) < len(fd.Params) || (fd.VarParam == "" && len(args) > len(fd.Params)) {
		return errR("call:wrong-argument-count")
	}
	for _, a := range args {
		if a.IsNull() {
			return unspecR("call:null-argument")
		}
	}
	child := &Scope{Vars: map[string]cty.Value{}, Parent: e.Global}
	for i, p := range fd.Params {
		child.Vars[p] = args[i]
	}
	if fd.VarParam != "" {
		rest := args[len(fd.Params):]
		if rest == nil {
			rest = []cty.Value{}
		}
		child.Vars[fd.VarParam] = cty.TupleVal(rest)
	}
	saved := e.its
	e.its = nil
	r := e.eval(fd.Body, child)
	e.its = saved
	if r.Err {
		return errR("call:body:" + r.Why)
	}
	return r.withErrOK(anyErrOK(rs...))
}

// mentionsUnknown: the subtree names (anywhere, evaluated or not) a variable whose
// value is not wholly known.  try/can decide on the SYNTACTIC references of their
// argument whether to defer, so this is what makes their result unknown.
//
// "References" are the FREE variables of the argument (scope.go): a name that a
// for-expression / %{for} directive inside the argument binds is a local of that loop for the
// extent of its clauses, whatever the surrounding scope holds under the same name, so an
// unknown value that is merely shadowed must not make try/can defer.
func (e *Ev) mentionsUnknown(n *Node, sc *Scope) bool {
	for name := range FreeVars(n) {
		if v, ok := sc.lookup(name); ok && !v.IsWhollyKnown() {
			return true
		}
	}
	return false
}

// ---------------------------------------------------------------- templates

func isWS(r rune) bool { return unicode.IsSpace(r) }

// edgeSafe: a whitespace run next to a strip marker is generated only in the shape
// where "strip the whitespace of the adjacent literal" has one reading
// (no newline, or exactly one newline which ends the run).
func edgeSafe(ws string) bool {
	if FullStrip {
		return true
	}
	c := strings.Count(ws, "\n")
	return c == 0 || (c == 1 && strings.HasSuffix(ws, "\n"))
}

// FullStrip (env C18_FULL_STRIP=1) asserts the stricter reading "a strip marker removes
// ALL whitespace of the adjacent literal, across lines" also for heredocs; it holds only
// after /verif/fixes/C18-strip-marker-token-level.diff is applied.
var FullStrip = os.Getenv("C18_FULL_STRIP") != ""

type tev struct {
	lit  *string
	l, r bool
}

type wpart struct {
	p    *Part
	s    string
	then []*wpart
	els  []*wpart
}

func work(ps []*Part) []*wpart {
	var out []*wpart
	for _, p := range ps {
		if p.K == PLit && p.S == "" {
			continue
		}
		w := &wpart{p: p, s: p.S}
		w.then = work(p.Then)
		w.els = work(p.Else)
		out = append(out, w)
	}
	return out
}

func flatten(ws []*wpart, out *[]tev) {
	for _, w := range ws {
		switch w.p.K {
		case PLit:
			*out = append(*out, tev{lit: &w.s})
		case PInterp:
			*out = append(*out, tev{l: w.p.L0, r: w.p.R0})
		case PIf:
			*out = append(*out, tev{l: w.p.L0, r: w.p.R0})
			flatten(w.then, out)
			if w.p.HasElse {
				*out = append(*out, tev{l: w.p.L1, r: w.p.R1})
				flatten(w.els, out)
			}
			*out = append(*out, tev{l: w.p.L2, r: w.p.R2})
		case PFor:
			*out = append(*out, tev{l: w.p.L0, r: w.p.R0})
			flatten(w.then, out)
			*out = append(*out, tev{l: w.p.L2, r: w.p.R2})
		}
	}
}

// TrimTemplate applies the strip markers; ok=false when a marker touches a
// whitespace run outside the pinned-down shape.
func trimTemplate(ws []*wpart) bool {
	var evs []tev
	flatten(ws, &evs)
	ok := true
	for i, ev := range evs {
		if ev.lit != nil {
			continue
		}
		if ev.l && i > 0 && evs[i-1].lit != nil {
			s := *evs[i-1].lit
			t := strings.TrimRightFunc(s, isWS)
			if !edgeSafe(s[len(t):]) {
				ok = false
			}
			*evs[i-1].lit = t
		}
		if ev.r && i+1 < len(evs) && evs[i+1].lit != nil {
			s := *evs[i+1].lit
			t := strings.TrimLeftFunc(s, isWS)
			if !edgeSafe(s[:len(s)-len(t)]) {
				ok = false
			}
			*evs[i+1].lit = t
		}
	}
	return ok
}

func (e *Ev) evalTmpl(n *Node, sc *Scope) Res {
	ws := work(n.Parts)
	if !trimTemplate(ws) {
		return unspecR("template:strip-marker-next-to-multi-line-whitespace")
	}
	if len(ws) == 1 && ws[0].p.K == PInterp {
		// a template that is exactly one interpolation passes the value through
		return e.eval(ws[0].p.E, sc)
	}
	return e.evalParts(ws, sc)
}

// evalParts: concatenation of the string forms of all parts.
func (e *Ev) evalParts(ws []*wpart, sc *Scope) Res {
	var sb strings.Builder
	var rs []Res
	for _, w := range ws {
		switch w.p.K {
		case PLit:
			sb.WriteString(w.s)
		case PInterp:
			r := e.eval(w.p.E, sc)
			rs = append(rs, r)
			if r.bad() {
				continue
			}
			if r.V.IsNull() {
				rs = append(rs, errR("template:null-interpolation"))
				continue
			}
			s, c := toStr(r.V)
			if c != cOK {
				rs = append(rs, csRes(c, "template:value-not-stringable"))
				continue
			}
			sb.WriteString(s)
		case PIf:
			cr := e.eval(w.p.E, sc)
			rs = append(rs, cr)
			tr := e.evalParts(w.then, sc)
			fr := e.evalParts(w.els, sc)
			if cr.bad() {
				continue
			}
			cb, cc := toBool(cr.V)
			if cc != cOK {
				rs = append(rs, csRes(cc, "template-if:predicate-not-bool"))
				continue
			}
			sel, oth := tr, fr
			if !cb {
				sel, oth = fr, tr
			}
			rs = append(rs, sel)
			if sel.bad() {
				continue
			}
			if oth.bad() || oth.ErrOK {
				// only the selected branch's problems need to be reported
				rs = append(rs, Res{ErrOK: true, V: cty.StringVal("")})
			}
			sb.WriteString(sel.V.AsString())
		case PFor:
			cr := e.eval(w.p.E, sc)
			rs = append(rs, cr)
			if cr.bad() {
				continue
			}
			if cr.V.IsNull() {
				rs = append(rs, errR("template-for:null-collection"))
				continue
			}
			els, ok := elements(cr.V)
			if !ok {
				rs = append(rs, errR("template-for:not-iterable"))
				continue
			}
			if cr.V.Type().IsSetType() && len(els) > 1 {
				rs = append(rs, unspecR("template-for:set-order"))
				continue
			}
			if w.p.KeyVar != "" && w.p.KeyVar == w.p.ValVar {
				rs = append(rs, unspecR("template-for:same-name-twice"))
				continue
			}
			for _, el := range els {
				child := &Scope{Vars: map[string]cty.Value{w.p.ValVar: el.v}, Parent: sc}
				if w.p.KeyVar != "" {
					child.Vars[w.p.KeyVar] = el.k
				}
				br := e.evalParts(w.then, child)
				rs = append(rs, br)
				if !br.bad() {
					sb.WriteString(br.V.AsString())
				}
			}
		}
	}
	if b, bad := merge(rs...); bad {
		return b
	}
	return okR(cty.StringVal(sb.String())).withErrOK(anyErrOK(rs...))
}

// StripTokenHazard reports whether the tree contains a left strip marker (${~ or %{~)
// directly after a literal that ends in  [$%] blanks newline.  The fork's scanner
// cuts such a literal into the tokens "$ " and "\n" in heredoc / standalone template
// mode (but into "$" and " \n" in quoted mode) and the strip marker only trims the
// last token, so the two spellings of one template disagree (known finding).
func StripTokenHazard(root *Node) bool {
	found := false
	Walk(root, func(n *Node) {
		if n.K != KTmpl {
			return
		}
		ws := work(n.Parts)
		var evs []tev
		flatten(ws, &evs)
		for i, ev := range evs {
			if ev.lit == nil && ev.l && i > 0 && evs[i-1].lit != nil {
				s := *evs[i-1].lit
				if !strings.HasSuffix(s, "\n") {
					continue
				}
				t := strings.TrimRight(s[:len(s)-1], " \t")
				if len(t) < len(s)-1 && (strings.HasSuffix(t, "$") || strings.HasSuffix(t, "%")) {
					found = true
				}
			}
		}
	})
	return found
}

// ---------------------------------------------------------------- comparison

// SameValue compares an implementation result with the reference result.  Types
// must match exactly (tuple vs list, object vs map, element types) except that any
// two null values are considered equal whatever their type.
func SameValue(a, b cty.Value) bool {
	if a == cty.NilVal || b == cty.NilVal {
		return false
	}
	if !a.IsKnown() || !b.IsKnown() {
		return false
	}
	if a.IsNull() || b.IsNull() {
		return a.IsNull() && b.IsNull()
	}
	at, bt := a.Type(), b.Type()
	switch {
	case at.IsPrimitiveType() || bt.IsPrimitiveType():
		return at.Equals(bt) && a.RawEquals(b)
	case at.IsTupleType():
		if !bt.IsTupleType() || a.LengthInt() != b.LengthInt() {
			return false
		}
		as, bs := a.AsValueSlice(), b.AsValueSlice()
		for i := range as {
			if !SameValue(as[i], bs[i]) {
				return false
			}
		}
		return true
	case at.IsListType():
		if !bt.IsListType() || a.LengthInt() != b.LengthInt() {
			return false
		}
		if a.LengthInt() == 0 {
			return at.Equals(bt)
		}
		as, bs := a.AsValueSlice(), b.AsValueSlice()
		for i := range as {
			if !SameValue(as[i], bs[i]) {
				return false
			}
		}
		return true
	case at.IsObjectType() || at.IsMapType():
		if at.IsObjectType() != bt.IsObjectType() || at.IsMapType() != bt.IsMapType() {
			return false
		}
		if at.IsMapType() && a.LengthInt() == 0 && b.LengthInt() == 0 {
			return at.Equals(bt)
		}
		am, bm := a.AsValueMap(), b.AsValueMap()
		if len(am) != len(bm) {
			return false
		}
		for k, av := range am {
			bv, ok := bm[k]
			if !ok || !SameValue(av, bv) {
				return false
			}
		}
		return true
	}
	return a.RawEquals(b)
}

// Package exprgen is a second, independent implementation of the yaotl (HCL
// native syntax) expression and template language, written for property C18:
//
//   - ast.go    a typed expression/template tree of our own (NOT hclsyntax's)
//   - print.go  a printer with independent spelling choices per node
//   - eval.go   a reference evaluator over OUR tree: cty.Value | error | "not pinned down"
//   - gen.go    a type-directed rapid generator for trees, environments and functions
//
// The tree is plain JSON-serialisable data so that a whole case can be replayed
// from a file.
package exprgen

import (
	"fmt"
	"math/big"
	"sort"

	"github.com/zclconf/go-cty/cty"
)

// Node kinds.
const (
	KNum   = "num"   // N: non-negative rational "p" or "p/q" (q a power of two)
	KBool  = "bool"  // B
	KNull  = "null"  //
	KVar   = "var"   // Name
	KUn    = "un"    // Op "-" | "!", A
	KBin   = "bin"   // Op, A, B2
	KCond  = "cond"  // A ? B2 : C
	KTuple = "tuple" // Kids
	KObj   = "obj"   // Items
	KIndex = "index" // A[B2]
	KAttr  = "attr"  // A.Name
	KSplat = "splat" // A is the source, Full selects [*] over .*, Each is a postfix chain over an "it" leaf
	KIt    = "it"    // the anonymous symbol of the innermost enclosing splat
	KFor   = "for"   // KeyVar, ValVar, A=collection, Key (nil: tuple form), B2=value, C=condition (nil: none), Group
	KCall  = "call"  // Name, Kids=args, Expand
	KTmpl  = "tmpl"  // Parts; a plain string literal is a template with one literal part
	KParen = "paren" // (A): redundant parentheses that are part of the tree (deep nesting classes, gen_scale.go)
)

// Template part kinds.
const (
	PLit    = "lit"    // S
	PInterp = "interp" // E, strip L0/R0
	PIf     = "if"     // E=condition, Then, Else, HasElse; strip flags: if L0/R0, else L1/R1, endif L2/R2
	PFor    = "for"    // KeyVar, ValVar, E=collection, Then=body; strip flags: for L0/R0, endfor L2/R2
)

type Node struct {
	K     string  `json:"k"`
	N     string  `json:"n,omitempty"`
	B     bool    `json:"b,omitempty"`
	Name  string  `json:"name,omitempty"`
	Op    string  `json:"op,omitempty"`
	A     *Node   `json:"a,omitempty"`
	B2    *Node   `json:"b2,omitempty"`
	C     *Node   `json:"c,omitempty"`
	Key   *Node   `json:"key,omitempty"`
	Each  *Node   `json:"each,omitempty"`
	Kids  []*Node `json:"kids,omitempty"`
	Items []Item  `json:"items,omitempty"`
	Parts []*Part `json:"parts,omitempty"`

	Full   bool   `json:"full,omitempty"`
	Group  bool   `json:"group,omitempty"`
	Expand bool   `json:"expand,omitempty"`
	KeyVar string `json:"keyvar,omitempty"`
	ValVar string `json:"valvar,omitempty"`

	// NL: this template ends in a newline by construction and may be spelled as a heredoc.
	// (Purely a hint for the printer; the printer re-checks.)
}

// Item is one object constructor item.  Key spellings (KS):
//
//	"ident"  a bare name: a LITERAL key (also true/false/null/if/for ...), never evaluated
//	"raw"    KeyE written as it is (number literal, template, operator expression, call);
//	         "quoted" is the older name for a template written this way
//	"expr"   KeyE in parentheses: always evaluated
//
// Every form but "ident" is an expression: it is evaluated and converted to string.
// The printer never writes a KeyE that would print as a bare name or traversal without
// parentheses (that would turn it into a literal name / an ambiguous key).
type Item struct {
	KS   string `json:"ks"`
	Name string `json:"name,omitempty"`
	KeyE *Node  `json:"keye,omitempty"`
	Val  *Node  `json:"val"`
}

type Part struct {
	K       string  `json:"k"`
	S       string  `json:"s,omitempty"`
	E       *Node   `json:"e,omitempty"`
	Then    []*Part `json:"then,omitempty"`
	Else    []*Part `json:"else,omitempty"`
	HasElse bool    `json:"haselse,omitempty"`
	KeyVar  string  `json:"keyvar,omitempty"`
	ValVar  string  `json:"valvar,omitempty"`
	L0      bool    `json:"l0,omitempty"`
	R0      bool    `json:"r0,omitempty"`
	L1      bool    `json:"l1,omitempty"`
	R1      bool    `json:"r1,omitempty"`
	L2      bool    `json:"l2,omitempty"`
	R2      bool    `json:"r2,omitempty"`
}

// FuncDef is a function defined through an ext/userfunc block.
type FuncDef struct {
	Name     string   `json:"name"`
	Params   []string `json:"params"`
	VarParam string   `json:"varparam,omitempty"`
	Body     *Node    `json:"body"`
}

// Val is the JSON form of a cty value placed in the environment.
// T: num str bool null(dynamic) nnull(number-typed null) snull(string null) lnull (null list of string)
// tuple object list map
//
// Collection and special values:
//
//	list / set / map   elements in Elems (Keys for maps); when empty, Ty gives the element type
//	nullof             cty.NullVal(Ty)      (Ty dyn = the untyped null)
//	unknownof          cty.UnknownVal(Ty)   (Ty dyn = cty.DynamicVal)
type Val struct {
	T     string   `json:"t"`
	N     string   `json:"n,omitempty"`
	S     string   `json:"s,omitempty"`
	B     bool     `json:"b,omitempty"`
	Elems []Val    `json:"elems,omitempty"`
	Keys  []string `json:"keys,omitempty"`
	Ty    *TyDesc  `json:"ty,omitempty"`
}

// TyDesc is the JSON form of a cty type: num str bool dyn list set map tuple object.
type TyDesc struct {
	K     string   `json:"k"`
	Elem  *TyDesc  `json:"elem,omitempty"`  // list set map
	Elems []TyDesc `json:"elems,omitempty"` // tuple; object (with Keys)
	Keys  []string `json:"keys,omitempty"`
}

func (t *TyDesc) Cty() (cty.Type, error) {
	if t == nil {
		return cty.DynamicPseudoType, nil
	}
	switch t.K {
	case "num":
		return cty.Number, nil
	case "str":
		return cty.String, nil
	case "bool":
		return cty.Bool, nil
	case "dyn":
		return cty.DynamicPseudoType, nil
	case "list", "set", "map":
		e, err := t.Elem.Cty()
		if err != nil {
			return cty.NilType, err
		}
		switch t.K {
		case "list":
			return cty.List(e), nil
		case "set":
			return cty.Set(e), nil
		}
		return cty.Map(e), nil
	case "tuple":
		ts := make([]cty.Type, len(t.Elems))
		for i := range t.Elems {
			e, err := t.Elems[i].Cty()
			if err != nil {
				return cty.NilType, err
			}
			ts[i] = e
		}
		return cty.Tuple(ts), nil
	case "object":
		if len(t.Keys) != len(t.Elems) {
			return cty.NilType, fmt.Errorf("object type keys/elems mismatch")
		}
		m := map[string]cty.Type{}
		for i := range t.Elems {
			e, err := t.Elems[i].Cty()
			if err != nil {
				return cty.NilType, err
			}
			m[t.Keys[i]] = e
		}
		return cty.Object(m), nil
	}
	return cty.NilType, fmt.Errorf("bad type kind %q", t.K)
}

// Class names the value for the evidence labels (var-type:<class>).
func (v Val) Class() string {
	switch v.T {
	case "nullof":
		if v.Ty == nil {
			return "null-of-dyn"
		}
		return "null-of-" + v.Ty.K
	case "unknownof":
		if v.Ty == nil {
			return "unknown-of-dyn"
		}
		return "unknown-of-" + v.Ty.K
	case "null":
		return "null-of-dyn"
	case "nnull":
		return "null-of-num"
	case "snull":
		return "null-of-str"
	case "lnull":
		return "null-of-list"
	case "list", "set", "map":
		c := v.T
		if len(v.Elems) == 0 {
			return "empty-" + c
		}
		switch v.Elems[0].T {
		case "object":
			return c + "-of-object"
		case "list", "map", "set", "tuple":
			return c + "-nested"
		}
		return c
	}
	return v.T
}

type Var struct {
	Name string `json:"name"`
	V    Val    `json:"v"`
}

// ---- numbers

// ParseRat parses "p" or "p/q".
func ParseRat(s string) (*big.Rat, bool) {
	r, ok := new(big.Rat).SetString(s)
	return r, ok
}

// RatToCty converts an exactly representable rational into a cty number with the
// precision cty itself uses for parsed literals (512 bits).
func RatToCty(r *big.Rat) cty.Value {
	f := new(big.Float).SetPrec(512).SetRat(r)
	return cty.NumberVal(f)
}

func isPow2(d *big.Int) bool {
	if d.Sign() <= 0 {
		return false
	}
	// d & (d-1) == 0
	t := new(big.Int).Sub(d, big.NewInt(1))
	return t.And(t, d).Sign() == 0
}

// ExactRat reports whether r is a dyadic fraction small enough that every 512-bit
// big.Float operation on it is exact.
func ExactRat(r *big.Rat) bool {
	if !isPow2(r.Denom()) {
		return false
	}
	return r.Num().BitLen()+r.Denom().BitLen() <= 300
}

// ---- environment values

func (v Val) Cty() (cty.Value, error) {
	switch v.T {
	case "num":
		r, ok := ParseRat(v.N)
		if !ok || !ExactRat(r) {
			return cty.NilVal, fmt.Errorf("bad number %q", v.N)
		}
		return RatToCty(r), nil
	case "str":
		return cty.StringVal(v.S), nil
	case "bool":
		return cty.BoolVal(v.B), nil
	case "null":
		return cty.NullVal(cty.DynamicPseudoType), nil
	case "nnull":
		return cty.NullVal(cty.Number), nil
	case "snull":
		return cty.NullVal(cty.String), nil
	case "lnull":
		return cty.NullVal(cty.List(cty.String)), nil
	case "nullof", "unknownof":
		t, err := v.Ty.Cty()
		if err != nil {
			return cty.NilVal, err
		}
		if v.T == "nullof" {
			return cty.NullVal(t), nil
		}
		return cty.UnknownVal(t), nil
	case "set":
		if len(v.Elems) == 0 {
			t, err := v.Ty.Cty()
			if err != nil {
				return cty.NilVal, err
			}
			if v.Ty == nil {
				t = cty.String
			}
			return cty.SetValEmpty(t), nil
		}
		vs := make([]cty.Value, len(v.Elems))
		for i, e := range v.Elems {
			c, err := e.Cty()
			if err != nil {
				return cty.NilVal, err
			}
			vs[i] = c
		}
		for _, c := range vs[1:] {
			if !c.Type().Equals(vs[0].Type()) {
				return cty.NilVal, fmt.Errorf("set with mixed element types")
			}
		}
		return cty.SetVal(vs), nil
	case "tuple":
		vs := make([]cty.Value, len(v.Elems))
		for i, e := range v.Elems {
			c, err := e.Cty()
			if err != nil {
				return cty.NilVal, err
			}
			vs[i] = c
		}
		return cty.TupleVal(vs), nil
	case "object", "map":
		if len(v.Keys) != len(v.Elems) {
			return cty.NilVal, fmt.Errorf("keys/elems mismatch")
		}
		m := map[string]cty.Value{}
		for i, e := range v.Elems {
			c, err := e.Cty()
			if err != nil {
				return cty.NilVal, err
			}
			m[v.Keys[i]] = c
		}
		if v.T == "object" {
			return cty.ObjectVal(m), nil
		}
		if len(m) == 0 {
			if v.Ty != nil {
				t, err := v.Ty.Cty()
				if err != nil {
					return cty.NilVal, err
				}
				return cty.MapValEmpty(t), nil
			}
			return cty.MapValEmpty(cty.String), nil
		}
		if !sameTypes(m) {
			return cty.NilVal, fmt.Errorf("map with mixed element types")
		}
		return cty.MapVal(m), nil
	case "list":
		if len(v.Elems) == 0 {
			if v.Ty != nil {
				t, err := v.Ty.Cty()
				if err != nil {
					return cty.NilVal, err
				}
				return cty.ListValEmpty(t), nil
			}
			return cty.ListValEmpty(cty.String), nil
		}
		vs := make([]cty.Value, len(v.Elems))
		for i, e := range v.Elems {
			c, err := e.Cty()
			if err != nil {
				return cty.NilVal, err
			}
			vs[i] = c
		}
		for _, c := range vs[1:] {
			if !c.Type().Equals(vs[0].Type()) {
				return cty.NilVal, fmt.Errorf("list with mixed element types")
			}
		}
		return cty.ListVal(vs), nil
	}
	return cty.NilVal, fmt.Errorf("bad value kind %q", v.T)
}

func sameTypes(m map[string]cty.Value) bool {
	var first *cty.Type
	ks := make([]string, 0, len(m))
	for k := range m {
		ks = append(ks, k)
	}
	sort.Strings(ks)
	for _, k := range ks {
		t := m[k].Type()
		if first == nil {
			first = &t
		} else if !first.Equals(t) {
			return false
		}
	}
	return true
}

// Walk calls f for every expression node below (and including) n, in preorder,
// descending through template parts.
func Walk(n *Node, f func(*Node)) {
	if n == nil {
		return
	}
	f(n)
	Walk(n.A, f)
	Walk(n.B2, f)
	Walk(n.C, f)
	Walk(n.Key, f)
	Walk(n.Each, f)
	for _, k := range n.Kids {
		Walk(k, f)
	}
	for _, it := range n.Items {
		Walk(it.KeyE, f)
		Walk(it.Val, f)
	}
	WalkParts(n.Parts, f, nil)
}

func WalkParts(ps []*Part, f func(*Node), g func(*Part)) {
	for _, p := range ps {
		if g != nil {
			g(p)
		}
		if f != nil {
			Walk(p.E, f)
		}
		WalkParts(p.Then, f, g)
		WalkParts(p.Else, f, g)
	}
}

// Depth of the expression tree (template parts count as one level).
func Depth(n *Node) int {
	if n == nil {
		return 0
	}
	d := 0
	up := func(m *Node) {
		if x := Depth(m); x > d {
			d = x
		}
	}
	up(n.A)
	up(n.B2)
	up(n.C)
	up(n.Key)
	up(n.Each)
	for _, k := range n.Kids {
		up(k)
	}
	for _, it := range n.Items {
		up(it.KeyE)
		up(it.Val)
	}
	var pd func(ps []*Part)
	pd = func(ps []*Part) {
		for _, p := range ps {
			up(p.E)
			pd(p.Then)
			pd(p.Else)
		}
	}
	pd(n.Parts)
	return d + 1
}

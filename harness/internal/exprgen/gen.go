package exprgen

// Type-directed generator.  The generator tracks a static approximation of the type
// of every expression it builds so that most trees are well-typed; the reference
// evaluator, not the generator, decides what a tree means.

import (
	"fmt"
	"strings"

	"pgregory.net/rapid"
)

const (
	tNum = iota
	tStr
	tBool
	tSeq  // tuple/list whose elements all have type elem; n = known length or -1
	tObj  // fixed fields
	tDict // object/map with arbitrary keys, values of type elem
	tNull
	tSet // set of elem (environment values only: there is no literal syntax)
)

type ty struct {
	k      int
	elem   *ty
	n      int
	fields []fld
	keys   []string // tDict: keys known to exist (environment values only)
}

type fld struct {
	name string
	t    *ty
}

var (
	tyNum  = &ty{k: tNum}
	tyStr  = &ty{k: tStr}
	tyBool = &ty{k: tBool}
	tyNull = &ty{k: tNull}
)

func seqOf(e *ty, n int) *ty { return &ty{k: tSeq, elem: e, n: n} }
func dictOf(e *ty) *ty       { return &ty{k: tDict, elem: e} }

func (a *ty) prim() bool { return a.k == tNum || a.k == tStr || a.k == tBool }

// compat: a value of type a can be used where w is wanted
func compat(a, w *ty) bool {
	if a.k != w.k {
		return false
	}
	switch a.k {
	case tSeq:
		if w.n >= 0 && a.n != w.n {
			return false
		}
		if a.n == 0 {
			return true
		}
		return compat(a.elem, w.elem)
	case tDict, tSet:
		return compat(a.elem, w.elem)
	case tObj:
		if len(a.fields) != len(w.fields) {
			return false
		}
		for i := range a.fields {
			if a.fields[i].name != w.fields[i].name || !compat(a.fields[i].t, w.fields[i].t) {
				return false
			}
		}
	}
	return true
}

type gvar struct {
	name string
	t    *ty
	sval string // known string value (environment strings that name a field of another variable)
	hasS bool
	loop bool // bound by a for-expression / %{for} directive (not by the environment or a function signature)
	unk  bool // environment variable whose value is unknown or contains an unknown value
}

type gfunc struct {
	name   string
	params []*ty
	rest   *ty // element type of the variadic parameter, nil if none
	ret    *ty
}

type G struct {
	t      *rapid.T
	scope  []gvar
	funcs  []gfunc
	budget int
	// eolClass: line ends of generated multi-line literals (gen_text.go): 0 LF, 1 CR LF, 2 mixed
	eolClass int
}

func (g *G) int(lo, hi int, l string) int { return rapid.IntRange(lo, hi).Draw(g.t, l) }
func (g *G) bool(l string) bool           { return rapid.Bool().Draw(g.t, l) }

// pct: rapid's integer draws are biased towards small values for wide ranges; a range
// of ten values is close to uniform (about 70% uniform + 30% skewed to small values),
// so probabilities are expressed in tenths and "true" is mapped to the small values.
func (g *G) pct(p int, l string) bool { return rapid.IntRange(0, 9).Draw(g.t, l) < (p+5)/10 }

// w: weighted choice; weights should sum to about 20 or less, likelier/more interesting alternatives first.
func (g *G) w(l string, ws ...int) int {
	tot := 0
	for _, x := range ws {
		tot += x
	}
	r := rapid.IntRange(0, tot-1).Draw(g.t, l)
	for i, x := range ws {
		if r < x {
			return i
		}
		r -= x
	}
	return len(ws) - 1
}
func pickS(g *G, xs []string, l string) string {
	return xs[rapid.IntRange(0, len(xs)-1).Draw(g.t, l)]
}

var varNames = []string{"a", "b", "c", "x", "y", "z", "foo", "bar", "v1", "my_var", "my-var", "n", "list", "obj", "T", "été", "k", "f0", "can"}
var loopNames = []string{"i", "k", "v", "x", "item", "each", "e-1"}

// sharedNames: drawn for environment variables AND for iteration variables
var sharedNames = []string{"x", "k", "v", "i"}
var attrNames = []string{"a", "b", "c", "id", "name", "k-1", "x"}
var dictKeys = []string{"a", "b", "k1", "k2", "zeta", "B", "10", "9", "true", "null", "if", "for", "2.5"}
var strPool = []string{"", "a", "foo", "bar", "hello world", "12", "-3", "0.5", "2.25", "true", "false", "é", "日本", "x y", "A", "abc", "1e2", "0"}
var numPool = []string{"0", "1", "2", "3", "4", "5", "7", "8", "10", "12", "16", "100", "255", "1000", "1/2", "1/4", "3/4", "5/2", "7/8", "1/16", "1099511627776", "3/1024"}

// ---------------------------------------------------------------- environment

func (g *G) randType(d int) *ty {
	if d <= 0 {
		return []*ty{tyNum, tyStr, tyBool, tyNum}[g.w("ty0", 2, 1, 1)]
	}
	switch g.w("ty", 4, 3, 4, 3, 2, 1, 1) {
	case 0:
		return tyNum
	case 1:
		e := g.randType(d - 1)
		return seqOf(e, g.int(0, 3, "len"))
	case 2:
		n := g.int(1, 3, "nf")
		used := map[string]bool{}
		var fs []fld
		for i := 0; i < n; i++ {
			nm := pickS(g, attrNames, "fname")
			if used[nm] {
				continue
			}
			used[nm] = true
			fs = append(fs, fld{nm, g.randType(d - 1)})
		}
		sortFields(fs)
		return &ty{k: tObj, fields: fs}
	case 3:
		return tyStr
	case 4:
		return tyBool
	case 5:
		return dictOf(g.randType(0))
	}
	return tyNull
}

func sortFields(fs []fld) {
	for i := 1; i < len(fs); i++ {
		for j := i; j > 0 && fs[j-1].name > fs[j].name; j-- {
			fs[j-1], fs[j] = fs[j], fs[j-1]
		}
	}
}

func (g *G) randVal(t *ty) Val {
	switch t.k {
	case tNum:
		s := pickS(g, numPool, "num")
		if g.pct(25, "negv") && s != "0" {
			s = "-" + s
		}
		return Val{T: "num", N: s}
	case tStr:
		return Val{T: "str", S: pickS(g, strPool, "str")}
	case tBool:
		return Val{T: "bool", B: g.bool("b")}
	case tNull:
		return Val{T: "null"}
	case tSeq:
		v := Val{T: "tuple"}
		for i := 0; i < t.n; i++ {
			v.Elems = append(v.Elems, g.randVal(t.elem))
		}
		if t.n > 0 && listable(t.elem) && g.pct(40, "aslist") {
			v.T = "list"
		}
		return v
	case tObj:
		v := Val{T: "object"}
		for _, f := range t.fields {
			v.Keys = append(v.Keys, f.name)
			v.Elems = append(v.Elems, g.randVal(f.t))
		}
		return v
	case tDict:
		v := Val{T: "object"}
		n := g.int(0, 3, "dn")
		used := map[string]bool{}
		for i := 0; i < n; i++ {
			k := pickS(g, dictKeys, "dk")
			if used[k] {
				continue
			}
			used[k] = true
			v.Keys = append(v.Keys, k)
			v.Elems = append(v.Elems, g.randVal(t.elem))
		}
		t.keys = append([]string{}, v.Keys...)
		if len(v.Keys) > 0 && t.elem.prim() && g.pct(50, "asmap") {
			v.T = "map"
		}
		return v
	}
	return Val{T: "null"}
}

// listable: all values of this generator type have one cty type
func listable(t *ty) bool {
	switch t.k {
	case tNum, tStr, tBool:
		return true
	case tObj:
		for _, f := range t.fields {
			if !f.t.prim() {
				return false
			}
		}
		return true
	}
	return false
}

// fixedTy: the cty type of every collVal of this generator type (list/map/set rendering),
// or nil if it has none (tuples of varying shape, untyped null).
func fixedTy(t *ty) *TyDesc {
	switch t.k {
	case tNum:
		return &TyDesc{K: "num"}
	case tStr:
		return &TyDesc{K: "str"}
	case tBool:
		return &TyDesc{K: "bool"}
	case tSeq, tDict, tSet:
		e := fixedTy(t.elem)
		if e == nil {
			return nil
		}
		return &TyDesc{K: map[int]string{tSeq: "list", tDict: "map", tSet: "set"}[t.k], Elem: e}
	case tObj:
		d := &TyDesc{K: "object"}
		for _, f := range t.fields {
			e := fixedTy(f.t)
			if e == nil {
				return nil
			}
			d.Keys = append(d.Keys, f.name)
			d.Elems = append(d.Elems, *e)
		}
		return d
	}
	return nil
}

// anyTy: some cty type for a null / unknown of this generator type (tuples for
// sequences without a fixed element type).
func anyTy(t *ty) *TyDesc {
	if d := fixedTy(t); d != nil {
		return d
	}
	switch t.k {
	case tSeq:
		d := &TyDesc{K: "tuple", Elems: []TyDesc{}}
		for i := 0; i < t.n; i++ {
			d.Elems = append(d.Elems, *anyTy(t.elem))
		}
		return d
	case tObj:
		d := &TyDesc{K: "object"}
		for _, f := range t.fields {
			d.Keys = append(d.Keys, f.name)
			d.Elems = append(d.Elems, *anyTy(f.t))
		}
		return d
	case tDict:
		return &TyDesc{K: "object"}
	}
	return &TyDesc{K: "dyn"}
}

// collVal renders a value with cty LIST / MAP / SET types wherever the type allows.
func (g *G) collVal(t *ty) Val {
	switch t.k {
	case tSeq:
		et := fixedTy(t.elem)
		if et == nil {
			return g.randVal(t)
		}
		v := Val{T: "list", Ty: et}
		for i := 0; i < t.n; i++ {
			v.Elems = append(v.Elems, g.collVal(t.elem))
		}
		return v
	case tSet:
		v := Val{T: "set", Ty: fixedTy(t.elem)}
		seen := map[string]bool{}
		for i := g.int(0, 3, "setn"); i > 0; i-- {
			e := g.randVal(t.elem)
			key := e.T + "|" + e.N + "|" + e.S + fmt.Sprint(e.B)
			if seen[key] {
				continue
			}
			seen[key] = true
			v.Elems = append(v.Elems, e)
		}
		t.n = len(v.Elems)
		return v
	case tDict:
		et := fixedTy(t.elem)
		if et == nil {
			return g.randVal(t)
		}
		v := Val{T: "map", Ty: et}
		used := map[string]bool{}
		for i := g.int(0, 3, "mapn"); i > 0; i-- {
			k := pickS(g, dictKeys, "mapk")
			if used[k] {
				continue
			}
			used[k] = true
			v.Keys = append(v.Keys, k)
			v.Elems = append(v.Elems, g.collVal(t.elem))
		}
		t.keys = append([]string{}, v.Keys...)
		return v
	case tObj:
		v := Val{T: "object"}
		for _, f := range t.fields {
			v.Keys = append(v.Keys, f.name)
			v.Elems = append(v.Elems, g.collVal(f.t))
		}
		return v
	}
	return g.randVal(t)
}

// collType: a list / map / set type of primitives, of objects, or nested
func (g *G) collType() *ty {
	var elem *ty
	switch g.w("collelem", 4, 3, 2, 2) {
	case 0:
		elem = g.randType(0)
	case 1:
		n := g.int(1, 2, "collnf")
		used := map[string]bool{}
		var fs []fld
		for i := 0; i < n; i++ {
			nm := pickS(g, attrNames, "collfname")
			if !used[nm] {
				used[nm] = true
				fs = append(fs, fld{nm, g.randType(0)})
			}
		}
		sortFields(fs)
		elem = &ty{k: tObj, fields: fs}
	case 2:
		elem = seqOf(g.randType(0), g.int(0, 2, "collinnern"))
	default:
		elem = dictOf(g.randType(0))
	}
	switch g.w("collkind", 4, 3, 2) {
	case 0:
		return dictOf(elem)
	case 1:
		return seqOf(elem, g.int(0, 3, "colllen"))
	}
	if !elem.prim() {
		elem = g.randType(0)
	}
	return &ty{k: tSet, elem: elem, n: -1}
}

// GenEnv draws 0-6 variables of mixed types.
func (g *G) GenEnv() []Var {
	n := g.int(0, 6, "nvars")
	used := map[string]bool{}
	var out []Var
	for i := 0; i < n; i++ {
		nm := pickS(g, varNames, "vname")
		if g.pct(30, "vnameshared") {
			// the small pool the iteration variables are drawn from as well, so that loops
			// shadow environment variables (scope.go; labels scope:*)
			nm = pickS(g, sharedNames, "vnameloop")
		}
		if used[nm] {
			continue
		}
		used[nm] = true
		switch g.w("varclass", 8, 6, 2, 3, 2) {
		case 4:
			// a known collection / object that CONTAINS an unknown value somewhere
			var t *ty
			if g.bool("cunkcoll") {
				t = g.collType()
			} else {
				t = g.randType(2)
			}
			var v Val
			if g.bool("cunkrender") {
				v = g.collVal(t)
			} else {
				v = g.randVal(t)
			}
			if !g.pokeUnknownIn(&v, t, false) {
				// nothing to put the unknown into (primitive, empty collection, set): a pair
				v = Val{T: "tuple", Elems: []Val{v, {T: "unknownof", Ty: anyTy(t)}}}
				t = seqOf(t, 2)
			}
			out = append(out, Var{Name: nm, V: v})
			g.scope = append(g.scope, gvar{name: nm, t: t, unk: true})
		case 1:
			// cty LIST / MAP / SET values (of primitives, of objects, nested, possibly empty)
			t := g.collType()
			out = append(out, Var{Name: nm, V: g.collVal(t)})
			g.scope = append(g.scope, gvar{name: nm, t: t})
		case 2:
			// a null of some type (incl. map / list / set / object / untyped)
			var d *TyDesc
			switch g.w("nullty", 3, 3, 1) {
			case 0:
				d = anyTy(g.collType())
			case 1:
				d = anyTy(g.randType(2))
			default:
				d = &TyDesc{K: "dyn"}
			}
			out = append(out, Var{Name: nm, V: Val{T: "nullof", Ty: d}})
			g.scope = append(g.scope, gvar{name: nm, t: tyNull})
		case 3:
			// an unknown value: the variable is used as if it had the type
			var t *ty
			if g.bool("unkcoll") {
				t = g.collType()
			} else {
				t = g.randType(1)
			}
			d := anyTy(t)
			if g.pct(20, "unkdyn") {
				d = &TyDesc{K: "dyn"}
			}
			if t.k == tSeq {
				t = seqOf(t.elem, -1)
			}
			t.keys = nil
			out = append(out, Var{Name: nm, V: Val{T: "unknownof", Ty: d}})
			g.scope = append(g.scope, gvar{name: nm, t: t, unk: true})
		default:
			t := g.randType(2)
			out = append(out, Var{Name: nm, V: g.randVal(t)})
			g.scope = append(g.scope, gvar{name: nm, t: t})
		}
	}
	// selector variables: a string variable NAMED like a field of an object variable whose VALUE
	// is (another) field name of that object, so that  obj.b  /  obj[b]  /  {b = ..}  /  {(b) = ..}
	// / {"${b}" = ..}  mean different things
	for _, v := range append([]gvar{}, g.scope...) {
		if v.t.k != tObj || len(v.t.fields) == 0 || len(out) >= 6 || !g.pct(60, "selvar") {
			continue
		}
		f1 := v.t.fields[g.int(0, len(v.t.fields)-1, "selname")].name
		f2 := v.t.fields[g.int(0, len(v.t.fields)-1, "selval")].name
		if used[f1] {
			continue
		}
		used[f1] = true
		out = append(out, Var{Name: f1, V: Val{T: "str", S: f2}})
		g.scope = append(g.scope, gvar{name: f1, t: tyStr, sval: f2, hasS: true})
	}
	return out
}

// selector returns the name of a visible string variable whose value is known to be s.
func (g *G) selector(s string) (string, bool) {
	seen := map[string]bool{}
	for i := len(g.scope) - 1; i >= 0; i-- {
		v := g.scope[i]
		if seen[v.name] {
			continue
		}
		seen[v.name] = true
		if v.hasS && v.sval == s {
			return v.name, true
		}
	}
	return "", false
}

// GenFuncs draws 0-3 user functions; function i may call functions j<i.
func (g *G) GenFuncs() []FuncDef {
	n := g.int(0, 3, "nfuncs")
	var out []FuncDef
	globals := g.scope
	pnames := []string{"p", "q", "r"}
	for i := 0; i < n; i++ {
		gf := gfunc{name: fmt.Sprintf("f%d", i)}
		fd := FuncDef{Name: gf.name, Params: []string{}}
		np := g.int(0, 2, "nparams")
		sc := append([]gvar{}, globals...)
		for j := 0; j < np; j++ {
			var pt *ty
			switch g.int(0, 5, "pty") {
			case 0, 1, 2:
				pt = tyNum
			case 3:
				pt = tyStr
			case 4:
				pt = tyBool
			default:
				pt = seqOf(tyNum, -1)
			}
			gf.params = append(gf.params, pt)
			fd.Params = append(fd.Params, pnames[j])
			sc = append(sc, gvar{name: pnames[j], t: pt})
		}
		if g.pct(30, "variadic") {
			gf.rest = tyNum
			fd.VarParam = "rest"
			sc = append(sc, gvar{name: "rest", t: seqOf(tyNum, -1)})
		}
		switch g.int(0, 5, "rty") {
		case 5:
			gf.ret = dictOf(g.randType(0))
		case 0, 1:
			gf.ret = tyNum
		case 2:
			gf.ret = tyStr
		case 3:
			gf.ret = tyBool
		default:
			gf.ret = seqOf(tyNum, -1)
		}
		g.scope = sc
		saved := g.budget
		g.budget = 8
		fd.Body = g.Expr(gf.ret, 2)
		g.budget = saved
		g.scope = globals
		g.funcs = append(g.funcs, gf)
		out = append(out, fd)
	}
	return out
}

// ---------------------------------------------------------------- expressions

func numLit(s string) *Node { return &Node{K: KNum, N: s} }
func strLit(s string) *Node {
	if s == "" {
		return &Node{K: KTmpl}
	}
	return &Node{K: KTmpl, Parts: []*Part{{K: PLit, S: s}}}
}

func (g *G) numLiteral() *Node {
	s := pickS(g, numPool, "numlit")
	return numLit(s)
}

// paths from variables in scope to a value of the wanted type
func (g *G) paths(w *ty) []*Node {
	var out []*Node
	for i := len(g.scope) - 1; i >= 0; i-- {
		v := g.scope[i]
		shadowed := false
		for j := i + 1; j < len(g.scope); j++ {
			if g.scope[j].name == v.name {
				shadowed = true
			}
		}
		if shadowed {
			continue
		}
		base := &Node{K: KVar, Name: v.name}
		g.pathsFrom(base, v.t, w, 2, &out)
	}
	return out
}

func (g *G) pathsFrom(base *Node, t, w *ty, d int, out *[]*Node) {
	if compat(t, w) {
		*out = append(*out, base)
	}
	if d == 0 {
		return
	}
	switch t.k {
	case tObj:
		for _, f := range t.fields {
			g.pathsFrom(&Node{K: KAttr, A: base, Name: f.name}, f.t, w, d-1, out)
			if sv, ok := g.selector(f.name); ok {
				// obj[sel] where the VALUE of sel names the field
				g.pathsFrom(&Node{K: KIndex, A: base, B2: &Node{K: KVar, Name: sv}}, f.t, w, d-1, out)
			}
		}
	case tSeq:
		for i := 0; i < t.n && i < 2; i++ {
			g.pathsFrom(&Node{K: KIndex, A: base, B2: numLit(fmt.Sprint(i))}, t.elem, w, d-1, out)
		}
	case tDict:
		for i, k := range t.keys {
			if i%2 == 0 && isIdent(k) {
				g.pathsFrom(&Node{K: KAttr, A: base, Name: k}, t.elem, w, d-1, out)
			} else {
				g.pathsFrom(&Node{K: KIndex, A: base, B2: strLit(k)}, t.elem, w, d-1, out)
			}
		}
	}
}

func clone(n *Node) *Node {
	if n == nil {
		return nil
	}
	c := *n
	c.A, c.B2, c.C, c.Key, c.Each = clone(n.A), clone(n.B2), clone(n.C), clone(n.Key), clone(n.Each)
	if n.Kids != nil {
		c.Kids = make([]*Node, len(n.Kids))
		for i, k := range n.Kids {
			c.Kids[i] = clone(k)
		}
	}
	if n.Items != nil {
		c.Items = make([]Item, len(n.Items))
		for i, it := range n.Items {
			c.Items[i] = Item{KS: it.KS, Name: it.Name, KeyE: clone(it.KeyE), Val: clone(it.Val)}
		}
	}
	c.Parts = cloneParts(n.Parts)
	return &c
}

func cloneParts(ps []*Part) []*Part {
	if ps == nil {
		return nil
	}
	out := make([]*Part, len(ps))
	for i, p := range ps {
		q := *p
		q.E = clone(p.E)
		q.Then = cloneParts(p.Then)
		q.Else = cloneParts(p.Else)
		out[i] = &q
	}
	return out
}

func (g *G) leaf(w *ty) *Node {
	g.budget--
	if ps := g.paths(w); len(ps) > 0 && g.pct(65, "usevar") {
		return clone(ps[g.int(0, len(ps)-1, "path")])
	}
	switch w.k {
	case tNum:
		return g.numLiteral()
	case tStr:
		return strLit(pickS(g, strPool, "strlit"))
	case tBool:
		return &Node{K: KBool, B: g.bool("boollit")}
	case tNull:
		return &Node{K: KNull}
	case tSeq:
		n := w.n
		if n < 0 {
			n = g.int(0, 2, "seqn")
		}
		t := &Node{K: KTuple, Kids: []*Node{}}
		for i := 0; i < n; i++ {
			t.Kids = append(t.Kids, g.leaf(w.elem))
		}
		return t
	case tObj:
		o := &Node{K: KObj}
		for _, f := range w.fields {
			o.Items = append(o.Items, g.item(f.name, g.leaf(f.t)))
		}
		return o
	case tDict:
		return g.dictCons(w, 0)
	}
	return &Node{K: KNull}
}

func isIdent(s string) bool {
	if s == "" {
		return false
	}
	for i, c := range s {
		letter := c == '_' || (c >= 'a' && c <= 'z') || (c >= 'A' && c <= 'Z') || c >= 0x80
		if i == 0 && !letter {
			return false
		}
		if !letter && !(c >= '0' && c <= '9') && c != '-' {
			return false
		}
	}
	return true
}

// item builds an object constructor item for a fixed key, choosing a key spelling.
func (g *G) item(key string, val *Node) Item {
	// a visible variable whose value is this key: refer to it in one of the evaluated forms
	if sv, ok := g.selector(key); ok && g.pct(40, "keysel") {
		ref := &Node{K: KVar, Name: sv}
		switch g.w("keyselform", 3, 2, 1) {
		case 0:
			return Item{KS: "raw", KeyE: &Node{K: KTmpl, Parts: []*Part{{K: PInterp, E: ref}}}, Val: val}
		case 1:
			return Item{KS: "expr", KeyE: ref, Val: val}
		default:
			return Item{KS: "raw", KeyE: &Node{K: KTmpl, Parts: []*Part{{K: PInterp, E: ref}, {K: PInterp, E: strLit("")}}}, Val: val}
		}
	}
	r := g.int(0, 9, "keystyle")
	isNum := false
	if r2, ok := ParseRat(key); ok && r2.Sign() >= 0 && RatString(r2) == key && ExactRat(r2) {
		isNum = true
	}
	switch {
	case r < 4 && isIdent(key):
		// a bare name is a literal key (also true/false/null/if/for)
		return Item{KS: "ident", Name: key, Val: val}
	case r < 4 && isNum:
		// a number literal as key: converted to its canonical decimal string
		return Item{KS: "raw", KeyE: numLit(key), Val: val}
	case r < 7:
		return Item{KS: "raw", KeyE: strLit(key), Val: val}
	default:
		// computed key
		if isNum {
			if r2, _ := ParseRat(key); r2.IsInt() && g.bool("numsum") {
				return Item{KS: "raw", KeyE: &Node{K: KBin, Op: "+", A: numLit(key), B2: numLit("0")}, Val: val}
			}
			return Item{KS: "expr", KeyE: numLit(key), Val: val}
		}
		if key == "true" || key == "false" {
			b := &Node{K: KBool, B: key == "true"}
			if g.bool("boolkeytmpl") {
				return Item{KS: "raw", KeyE: &Node{K: KTmpl, Parts: []*Part{{K: PInterp, E: b}}}, Val: val}
			}
			return Item{KS: "expr", KeyE: b, Val: val}
		}
		if len(key) >= 2 {
			return Item{KS: "expr", KeyE: &Node{K: KTmpl, Parts: []*Part{{K: PLit, S: key[:1]}, {K: PInterp, E: strLit(key[1:])}}}, Val: val}
		}
		return Item{KS: "expr", KeyE: strLit(key), Val: val}
	}
}

// keyName: a single bare name (or null / true / false) to be used in key position:
// mostly a visible variable of primitive type (innermost first, so for-iterators are
// preferred inside loops), sometimes an undefined name, null, a keyword-like literal or a
// variable of a non-primitive type (then the language demands an error).
func (g *G) keyName() *Node {
	var prims, others []string
	seen := map[string]bool{}
	for i := len(g.scope) - 1; i >= 0; i-- {
		v := g.scope[i]
		if seen[v.name] {
			continue
		}
		seen[v.name] = true
		if v.t.prim() {
			prims = append(prims, v.name)
		} else {
			others = append(others, v.name)
		}
	}
	switch g.w("keyname", 12, 2, 1, 2, 1) {
	case 0:
		if len(prims) > 0 {
			return &Node{K: KVar, Name: prims[g.int(0, len(prims)-1, "keyprim")]}
		}
		return &Node{K: KBool, B: g.bool("keybool")}
	case 1:
		return &Node{K: KVar, Name: pickS(g, []string{"nope", "if", "in", "kk", "undefined_var", "endif"}, "keyundef")}
	case 2:
		return &Node{K: KNull}
	case 3:
		return &Node{K: KBool, B: g.bool("keybool")}
	default:
		if len(others) > 0 {
			return &Node{K: KVar, Name: others[g.int(0, len(others)-1, "keyother")]}
		}
		return &Node{K: KNull}
	}
}

// refKeyItem: an item whose key refers to a name, in one of the forms in which the
// language distinguishes "a bare name" from "an expression".
func (g *G) refKeyItem(val *Node) Item {
	n := g.keyName()
	interp := &Part{K: PInterp, E: n}
	tm := func(ps ...*Part) *Node { return &Node{K: KTmpl, Parts: ps} }
	switch g.w("keyform", 6, 3, 2, 2, 2, 2, 2) {
	case 0:
		return Item{KS: "raw", KeyE: tm(interp), Val: val} // "${k}"
	case 1:
		return Item{KS: "expr", KeyE: n, Val: val} // (k)
	case 2:
		return Item{KS: "raw", KeyE: tm(interp, &Part{K: PLit, S: pickS(g, []string{"x", "-1", " "}, "keysuffix")}), Val: val} // "${k}x"
	case 3:
		return Item{KS: "raw", KeyE: tm(&Part{K: PLit, S: pickS(g, []string{"x", "k", "_"}, "keyprefix")}, interp), Val: val} // "x${k}"
	case 4:
		return Item{KS: "raw", KeyE: tm(interp, &Part{K: PLit, S: "\n"}), Val: val} // heredoc-able
	case 5:
		// "${k.a}" / "${k[0]}": a traversal, not a bare name
		seen := map[string]bool{}
		for i := len(g.scope) - 1; i >= 0; i-- {
			v := g.scope[i]
			if seen[v.name] {
				continue
			}
			seen[v.name] = true
			if v.t.k == tObj {
				for _, f := range v.t.fields {
					if f.t.prim() {
						return Item{KS: "raw", KeyE: tm(&Part{K: PInterp, E: &Node{K: KAttr, A: &Node{K: KVar, Name: v.name}, Name: f.name}}), Val: val}
					}
				}
			}
			if v.t.k == tSeq && v.t.n > 0 && v.t.elem.prim() {
				return Item{KS: "raw", KeyE: tm(&Part{K: PInterp, E: &Node{K: KIndex, A: &Node{K: KVar, Name: v.name}, B2: numLit("0")}}), Val: val}
			}
		}
		return Item{KS: "raw", KeyE: tm(interp), Val: val}
	default:
		// the bare name itself: a literal key
		switch n.K {
		case KVar:
			return Item{KS: "ident", Name: n.Name, Val: val}
		case KNull:
			return Item{KS: "ident", Name: "null", Val: val}
		default:
			if n.B {
				return Item{KS: "ident", Name: "true", Val: val}
			}
			return Item{KS: "ident", Name: "false", Val: val}
		}
	}
}

func (g *G) dictCons(w *ty, d int) *Node {
	o := &Node{K: KObj}
	n := g.int(0, 3, "dictn")
	used := map[string]bool{}
	for i := 0; i < n; i++ {
		k := pickS(g, dictKeys, "dictk")
		if used[k] {
			continue
		}
		used[k] = true
		if g.pct(40, "refkey") {
			o.Items = append(o.Items, g.refKeyItem(g.Expr(w.elem, d)))
		} else {
			o.Items = append(o.Items, g.item(k, g.Expr(w.elem, d)))
		}
	}
	return o
}

// Expr generates an expression of (approximately) the wanted type.
func (g *G) Expr(w *ty, d int) *Node {
	if d <= 0 || g.budget <= 0 {
		return g.leaf(w)
	}
	g.budget--
	// alternatives common to all types (13 of 20), else the type-specific ones
	switch g.w("alt", 7, 2, 2, 2, 2, 2, 1, 1, 1) {
	case 0:
		// type-specific
	case 1:
		if n := g.viaIndexOrAttr(w, d); n != nil {
			return n
		}
	case 2:
		if n := g.call(w, d); n != nil {
			return n
		}
	case 3:
		if w.prim() || w.k == tNull {
			// conditional with same-typed branches
			return &Node{K: KCond, A: g.Expr(tyBool, d-1), B2: g.Expr(w, d-1), C: g.Expr(w, d-1)}
		}
	case 4:
		// try(first, fallback): the first argument is deliberately faulty half of the time
		first := g.Expr(w, d-1)
		if g.bool("tryfault") {
			first = g.makeFault(g.faultKind(), first)
		}
		kids := []*Node{first, g.Expr(w, d-1)}
		if g.pct(20, "try3") {
			kids = append([]*Node{g.makeFault(g.faultKind(), g.leaf(w))}, kids...)
		}
		return &Node{K: KCall, Name: "try", Kids: kids}
	case 5:
		if w.prim() {
			// conditional with a null branch
			if g.bool("nullside") {
				return &Node{K: KCond, A: g.Expr(tyBool, d-1), B2: &Node{K: KNull}, C: g.Expr(w, d-1)}
			}
			return &Node{K: KCond, A: g.Expr(tyBool, d-1), B2: g.Expr(w, d-1), C: &Node{K: KNull}}
		}
	case 6:
		return g.leaf(w)
	case 7:
		// inside a loop: a constructor that uses the loop's variable before and after an
		// inner loop which re-binds the same name (gen_scope.go)
		if n := g.rebindSandwich(w, d); n != nil {
			return n
		}
	}
	switch w.k {
	case tNum:
		return g.numExpr(d)
	case tStr:
		return g.strExpr(d)
	case tBool:
		return g.boolExpr(d)
	case tSeq:
		return g.seqExpr(w, d)
	case tObj:
		if w.allPrim() && g.pct(15, "objcond") {
			return &Node{K: KCond, A: g.Expr(tyBool, d-1), B2: g.objCons(w, d), C: g.objCons(w, d)}
		}
		return g.objCons(w, d)
	case tDict:
		return g.dictExpr(w, d)
	}
	return g.leaf(w)
}

func (t *ty) allPrim() bool {
	for _, f := range t.fields {
		if !f.t.prim() {
			return false
		}
	}
	return true
}

func (g *G) objCons(w *ty, d int) *Node {
	o := &Node{K: KObj}
	for _, f := range w.fields {
		o.Items = append(o.Items, g.item(f.name, g.Expr(f.t, d-1)))
	}
	return o
}

// an operand that will be converted to a number: mostly a number, sometimes a numeric string
func (g *G) numOperand(d int) *Node {
	if g.pct(8, "numstr") {
		return strLit(pickS(g, []string{"12", "-3", "0.5", "2.25", "0", "7"}, "numstrv"))
	}
	return g.Expr(tyNum, d)
}

func (g *G) boolOperand(d int) *Node {
	if g.pct(6, "boolstr") {
		return strLit(pickS(g, []string{"true", "false"}, "boolstrv"))
	}
	return g.Expr(tyBool, d)
}

func (g *G) numExpr(d int) *Node {
	switch g.w("numalt", 11, 3, 3, 1) {
	case 0:
		op := []string{"+", "-", "*", "/", "%"}[g.w("arop", 3, 3, 3, 2, 2)]
		a := g.numOperand(d - 1)
		var b *Node
		switch op {
		case "/":
			if g.pct(70, "pow2div") {
				b = numLit(pickS(g, []string{"1", "2", "4", "8", "1/2", "16", "1/4"}, "divisor"))
			} else {
				b = g.numOperand(d - 1)
			}
		case "%":
			if g.pct(70, "litmod") {
				a = numLit(pickS(g, []string{"0", "1", "7", "10", "12", "100", "255"}, "dividend"))
				if g.bool("modvar") {
					a = &Node{K: KBin, Op: "*", A: a, B2: numLit(pickS(g, []string{"1", "2", "3"}, "mulm"))}
				}
				b = numLit(pickS(g, []string{"1", "2", "3", "5", "7", "10", "16"}, "modulus"))
			} else {
				b = g.numOperand(d - 1)
			}
		default:
			b = g.numOperand(d - 1)
		}
		return &Node{K: KBin, Op: op, A: a, B2: b}
	case 1:
		return &Node{K: KUn, Op: "-", A: g.numOperand(d - 1)}
	case 2:
		// element of a constructed sequence by computed index
		n := g.int(1, 3, "idxn")
		seq := g.Expr(seqOf(tyNum, n), d-1)
		return &Node{K: KIndex, A: seq, B2: g.indexKey(n, d-1)}
	default:
		return g.leaf(tyNum)
	}
}

// indexKey: an expression whose value is a valid index into a sequence of length n
func (g *G) indexKey(n, d int) *Node {
	i := g.int(0, n-1, "idx")
	switch g.int(0, 4, "idxstyle") {
	case 0:
		j := g.int(0, i, "idxsplit")
		return &Node{K: KBin, Op: "+", A: numLit(fmt.Sprint(j)), B2: numLit(fmt.Sprint(i - j))}
	case 1:
		return &Node{K: KBin, Op: "/", A: numLit(fmt.Sprint(i * 2)), B2: numLit("2")}
	case 2:
		return strLit(fmt.Sprint(i))
	}
	return numLit(fmt.Sprint(i))
}

func (g *G) boolExpr(d int) *Node {
	switch g.w("boolalt", 4, 5, 4, 2, 2, 1) {
	case 0:
		op := pickS(g, []string{"<", "<=", ">", ">="}, "cmpop")
		return &Node{K: KBin, Op: op, A: g.numOperand(d - 1), B2: g.numOperand(d - 1)}
	case 1:
		op := pickS(g, []string{"==", "!=", "=="}, "eqop")
		var t1, t2 *ty
		switch g.w("eqtypes", 3, 1, 1, 1) {
		case 0:
			t1 = g.randType(1)
			t2 = t1
		case 1:
			t1, t2 = tyNum, tyStr
		case 2:
			t1, t2 = g.randType(1), tyNull
		default:
			t1, t2 = g.randType(1), g.randType(1)
		}
		a := g.Expr(t1, d-1)
		b := g.Expr(t2, d-1)
		if t1 == t2 && g.pct(40, "eqsame") {
			b = clone(a)
		}
		return &Node{K: KBin, Op: op, A: a, B2: b}
	case 2:
		op := pickS(g, []string{"&&", "||"}, "logop")
		return &Node{K: KBin, Op: op, A: g.boolOperand(d - 1), B2: g.boolOperand(d - 1)}
	case 3:
		return &Node{K: KUn, Op: "!", A: g.boolOperand(d - 1)}
	case 4:
		e := g.Expr(g.randType(1), d-1)
		if g.bool("canfault") {
			e = g.makeFault(g.faultKind(), e)
		}
		return &Node{K: KCall, Name: "can", Kids: []*Node{e}}
	default:
		return g.leaf(tyBool)
	}
}

func (g *G) strExpr(d int) *Node {
	switch g.w("stralt", 7, 2, 1, 1) {
	case 3:
		// a template shaped like the body of a heredoc (gen_text.go)
		return g.HeredocBody(d)
	case 0:
		return g.Template(d, false)
	case 1:
		// unification of a string with a number / bool branch: result is a string
		other := tyNum
		if g.bool("unifybool") {
			other = tyBool
		}
		a, b := g.Expr(tyStr, d-1), g.Expr(other, d-1)
		if g.bool("unifyswap") {
			a, b = b, a
		}
		return &Node{K: KCond, A: g.Expr(tyBool, d-1), B2: a, C: b}
	default:
		return g.leaf(tyStr)
	}
}

func (g *G) seqExpr(w *ty, d int) *Node {
	if w.n >= 0 {
		// a sequence of known length: constructor only
		t := &Node{K: KTuple, Kids: []*Node{}}
		for i := 0; i < w.n; i++ {
			t.Kids = append(t.Kids, g.Expr(w.elem, d-1))
		}
		return t
	}
	switch g.w("seqalt", 4, 3, 3) {
	case 0:
		return g.forTuple(w.elem, d)
	case 1:
		return g.splat(w.elem, d)
	default:
		n := g.int(0, 3, "tuplen")
		t := &Node{K: KTuple, Kids: []*Node{}}
		for i := 0; i < n; i++ {
			t.Kids = append(t.Kids, g.Expr(w.elem, d-1))
		}
		return t
	}
}

// source of an iteration: expression + types of the key and value variables
func (g *G) iterSource(d int) (*Node, *ty, *ty) {
	// a set variable, if there is one: key and value are both the element
	if g.pct(20, "iterset") {
		seen := map[string]bool{}
		for i := len(g.scope) - 1; i >= 0; i-- {
			v := g.scope[i]
			if seen[v.name] {
				continue
			}
			seen[v.name] = true
			if v.t.k == tSet {
				return &Node{K: KVar, Name: v.name}, v.t.elem, v.t.elem
			}
		}
	}
	switch g.w("itersrc", 5, 3, 2) {
	case 0:
		et := g.randType(1)
		if g.pct(60, "iternum") {
			et = tyNum
		}
		return g.Expr(seqOf(et, -1), d), tyNum, et
	case 1:
		et := g.randType(0)
		return g.Expr(dictOf(et), d), tyStr, et
	default:
		// an object with fixed fields of one type
		et := g.randType(0)
		n := g.int(1, 3, "iterobjn")
		var fs []fld
		used := map[string]bool{}
		for i := 0; i < n; i++ {
			nm := pickS(g, attrNames, "iterf")
			if !used[nm] {
				used[nm] = true
				fs = append(fs, fld{nm, et})
			}
		}
		sortFields(fs)
		return g.Expr(&ty{k: tObj, fields: fs}, d), tyStr, et
	}
}

func (g *G) loopVars(kt, vt *ty) (string, string, func()) {
	return g.loopVarsForced(kt, vt, "")
}

// loopName draws the name of an iteration variable: a fresh-looking one from the pool, the
// name of a visible environment variable / function parameter (the loop SHADOWS it), or the
// name an enclosing loop binds (the loop RE-BINDS it).
func (g *G) loopName(l string) string {
	var outer, outerUnk, loops []string
	seen := map[string]bool{}
	for i := len(g.scope) - 1; i >= 0; i-- {
		v := g.scope[i]
		if seen[v.name] {
			continue
		}
		seen[v.name] = true
		if v.loop {
			loops = append(loops, v.name)
		} else {
			outer = append(outer, v.name)
			if v.unk {
				outerUnk = append(outerUnk, v.name)
			}
		}
	}
	switch g.w(l+"src", 9, 6, 4) {
	case 1:
		// (half of the time one whose value is unknown, when there is one: such a value must not matter)
		if len(outerUnk) > 0 && g.bool(l+"unk") {
			return outerUnk[g.int(0, len(outerUnk)-1, l+"outerunk")]
		}
		if len(outer) > 0 {
			return outer[g.int(0, len(outer)-1, l+"outer")]
		}
	case 2:
		if len(loops) > 0 {
			return loops[g.int(0, len(loops)-1, l+"loop")]
		}
	}
	return pickS(g, loopNames, l)
}

// loopVarsForced: force != "" makes one of the two iteration variables carry that name.
func (g *G) loopVarsForced(kt, vt *ty, force string) (string, string, func()) {
	val := g.loopName("valvar")
	key := ""
	if g.pct(55, "haskey") {
		key = g.loopName("keyvar")
	}
	if force != "" {
		if key != "" && g.pct(30, "forcekey") {
			key = force
		} else {
			val = force
		}
	}
	if key == val {
		// two different names are needed; the value variable keeps its (possibly forced) name
		key = "idx"
		if val == "idx" {
			key = "k"
		}
	}
	mark := len(g.scope)
	if key != "" {
		g.scope = append(g.scope, gvar{name: key, t: kt, loop: true})
	}
	g.scope = append(g.scope, gvar{name: val, t: vt, loop: true})
	return key, val, func() { g.scope = g.scope[:mark] }
}

func (g *G) forTuple(elem *ty, d int) *Node {
	src, kt, vt := g.iterSource(d - 1)
	key, val, done := g.loopVars(kt, vt)
	defer done()
	n := &Node{K: KFor, KeyVar: key, ValVar: val, A: src, B2: g.Expr(elem, d-1)}
	if g.pct(40, "forif") {
		n.C = g.Expr(tyBool, d-1)
	}
	return n
}

func (g *G) dictExpr(w *ty, d int) *Node {
	if g.w("dictalt", 7, 3) == 1 {
		return g.dictCons(w, d-1)
	}
	// object for-expression
	src, kt, vt := g.iterSource(d - 1)
	key, val, done := g.loopVars(kt, vt)
	defer done()
	n := &Node{K: KFor, KeyVar: key, ValVar: val, A: src}
	group := w.elem.k == tSeq && w.elem.n < 0 && g.pct(80, "group")
	// key expression: unique per element unless grouping
	var ke *Node
	kv := key
	switch {
	case group:
		n.Group = true
		ke = g.Expr([]*ty{tyStr, tyNum, tyBool}[g.int(0, 2, "gkeyt")], d-1)
		n.Key = ke
		n.B2 = g.Expr(w.elem.elem, d-1)
	default:
		if kv == "" {
			// no key variable: derive the key from the value (may collide: then the reference says error)
			if vt.prim() {
				ke = &Node{K: KVar, Name: val}
			} else {
				ke = strLit("only")
			}
		} else {
			switch g.int(0, 2, "keyform") {
			case 0:
				ke = &Node{K: KVar, Name: kv}
			case 1:
				ke = &Node{K: KTmpl, Parts: []*Part{{K: PLit, S: "k"}, {K: PInterp, E: &Node{K: KVar, Name: kv}}}}
			default:
				if kt.k == tNum {
					ke = &Node{K: KBin, Op: "+", A: &Node{K: KVar, Name: kv}, B2: numLit("1")}
				} else {
					ke = &Node{K: KVar, Name: kv}
				}
			}
		}
		n.Key = ke
		n.B2 = g.Expr(w.elem, d-1)
	}
	if g.pct(35, "forif") {
		n.C = g.Expr(tyBool, d-1)
	}
	return n
}

func (g *G) splat(elem *ty, d int) *Node {
	// a splat applied to a single (non-sequence) value: primitives, objects and MAPS are
	// wrapped into a one-element tuple
	if elem.k != tSeq && elem.k != tSet && g.pct(30, "splatsingle") {
		// m.*.k / m[*].k with a map or object variable whose keys are known
		if g.bool("splatdictattr") {
			seen := map[string]bool{}
			for i := len(g.scope) - 1; i >= 0; i-- {
				v := g.scope[i]
				if seen[v.name] {
					continue
				}
				seen[v.name] = true
				if v.t.k == tDict && len(v.t.keys) > 0 && compat(v.t.elem, elem) {
					k := v.t.keys[g.int(0, len(v.t.keys)-1, "splatdictkey")]
					var each *Node
					if isIdent(k) {
						each = &Node{K: KAttr, A: &Node{K: KIt}, Name: k}
					} else {
						each = &Node{K: KIndex, A: &Node{K: KIt}, B2: strLit(k)}
					}
					return &Node{K: KSplat, A: &Node{K: KVar, Name: v.name}, Each: each, Full: g.bool("fullsplat")}
				}
			}
		}
		return &Node{K: KSplat, A: g.Expr(elem, d-1), Each: &Node{K: KIt}, Full: g.bool("fullsplat")}
	}
	// prefer a variable in scope that is a sequence of objects with a field of the wanted type
	if g.bool("splatvar") {
		seen := map[string]bool{}
		for i := len(g.scope) - 1; i >= 0; i-- {
			v := g.scope[i]
			if seen[v.name] {
				continue
			}
			seen[v.name] = true
			if v.t.k != tSeq || v.t.elem == nil || v.t.elem.k != tObj {
				continue
			}
			for _, f := range v.t.elem.fields {
				if compat(f.t, elem) {
					return &Node{K: KSplat, A: &Node{K: KVar, Name: v.name}, Each: &Node{K: KAttr, A: &Node{K: KIt}, Name: f.name}, Full: g.bool("fullsplat")}
				}
			}
		}
	}
	fname := pickS(g, attrNames, "splatf")
	ot := &ty{k: tObj, fields: []fld{{fname, elem}}}
	if g.pct(40, "splat2f") {
		f2 := pickS(g, attrNames, "splatf2")
		if f2 != fname {
			ot.fields = append(ot.fields, fld{f2, g.randType(0)})
			sortFields(ot.fields)
		}
	}
	var src *Node
	switch g.w("splatsrc", 7, 2, 1) {
	case 1:
		// a single object: auto-wrapped into a one-element tuple
		src = g.Expr(ot, d-1)
	case 2:
		// a null source: the untyped null or a variable holding a null of some type
		src = g.leaf(tyNull)
	default:
		src = g.Expr(seqOf(ot, -1), d-1)
	}
	each := &Node{K: KAttr, A: &Node{K: KIt}, Name: fname}
	n := &Node{K: KSplat, A: src, Each: each, Full: g.bool("fullsplat")}
	if g.pct(15, "splatid") {
		// identity splat over a sequence of the element type
		n = &Node{K: KSplat, A: g.Expr(seqOf(elem, -1), d-1), Each: &Node{K: KIt}, Full: true}
	}
	return n
}

func (g *G) viaIndexOrAttr(w *ty, d int) *Node {
	switch g.int(0, 3, "via") {
	case 0:
		// attribute of a constructed object
		fs := []fld{{pickS(g, attrNames, "viaf"), w}}
		if g.bool("via2") {
			f2 := pickS(g, attrNames, "viaf2")
			if f2 != fs[0].name {
				fs = append(fs, fld{f2, g.randType(0)})
			}
		}
		name := fs[0].name
		sortFields(fs)
		obj := g.Expr(&ty{k: tObj, fields: fs}, d-1)
		if g.bool("viaindex") {
			return &Node{K: KIndex, A: obj, B2: strLit(name)}
		}
		return &Node{K: KAttr, A: obj, Name: name}
	case 1:
		n := g.int(1, 3, "vian")
		return &Node{K: KIndex, A: g.Expr(seqOf(w, n), d-1), B2: g.indexKey(n, d-1)}
	case 2:
		// element of a full splat, index applied to each element vs to the result
		if w.prim() {
			fname := pickS(g, attrNames, "vsf")
			n := g.int(1, 2, "vsn")
			inner := seqOf(w, 2)
			ot := &ty{k: tObj, fields: []fld{{fname, inner}}}
			src := g.Expr(seqOf(ot, n), d-1)
			each := &Node{K: KIndex, A: &Node{K: KAttr, A: &Node{K: KIt}, Name: fname}, B2: numLit(fmt.Sprint(g.int(0, 1, "vsi")))}
			sp := &Node{K: KSplat, A: src, Each: each, Full: true}
			return &Node{K: KIndex, A: sp, B2: numLit(fmt.Sprint(g.int(0, n-1, "vsj")))}
		}
	}
	return nil
}

func (g *G) call(w *ty, d int) *Node {
	var cands []int
	for i, f := range g.funcs {
		if compat(f.ret, w) {
			cands = append(cands, i)
		}
	}
	if len(cands) == 0 {
		return nil
	}
	f := g.funcs[cands[g.int(0, len(cands)-1, "fn")]]
	n := &Node{K: KCall, Name: f.name, Kids: []*Node{}}
	for _, pt := range f.params {
		n.Kids = append(n.Kids, g.Expr(pt, d-1))
	}
	if f.rest != nil {
		for i := g.int(0, 2, "nrest"); i > 0; i-- {
			n.Kids = append(n.Kids, g.Expr(f.rest, d-1))
		}
	}
	if len(n.Kids) > 0 && g.pct(20, "expand") {
		// move the last k arguments into an expanded tuple
		k := g.int(0, len(n.Kids), "expandk")
		tail := append([]*Node{}, n.Kids[len(n.Kids)-k:]...)
		n.Kids = append(n.Kids[:len(n.Kids)-k], &Node{K: KTuple, Kids: tail})
		n.Expand = true
	}
	return n
}

// ---------------------------------------------------------------- templates

var litUnits = []string{"a", "foo", "Bar", "x1", "é", "日本", "𝒳", "ß", ".", ",", ":", "-", "#", "//", "/*", "'", "(", ")", "[", "]", "}", "{", "\"", "\\", "${", "%{", "$ ", "%a", "=", "?", "*", "<<", "\\n", "true", "0"}

func (g *G) litText() string {
	n := g.int(1, 5, "litn")
	var sb strings.Builder
	for i := 0; i < n; i++ {
		switch g.int(0, 9, "litk") {
		case 0, 1:
			sb.WriteString(" ")
		case 2:
			sb.WriteString("  ")
		case 3:
			sb.WriteString(g.nl())
		case 4:
			if g.bool("tab") {
				sb.WriteString("\t")
			} else {
				sb.WriteString(" " + g.nl())
			}
		default:
			sb.WriteString(pickS(g, litUnits, "unit"))
		}
	}
	s := sb.String()
	// a literal never ends in a lone '$' or '%' (it would fuse with a following sequence)
	for strings.HasSuffix(s, "$") || strings.HasSuffix(s, "%") {
		s = s[:len(s)-1]
	}
	return s
}

func (g *G) stripFlag() bool { return g.int(0, 9, "strip") >= 8 }

func (g *G) tparts(d int, top bool) []*Part {
	n := g.int(1, 4, "nparts")
	var ps []*Part
	for i := 0; i < n; i++ {
		r := g.w("partk", 6, 6, 3, 3)
		if d <= 0 || g.budget <= 0 {
			r = 1
		}
		switch r {
		case 1:
			s := g.litText()
			if s == "" {
				continue
			}
			if len(ps) > 0 && ps[len(ps)-1].K == PLit {
				ps[len(ps)-1].S += s
			} else {
				ps = append(ps, &Part{K: PLit, S: s})
			}
		case 0:
			g.budget--
			t := []*ty{tyNum, tyStr, tyBool}[g.int(0, 2, "interpty")]
			ps = append(ps, &Part{K: PInterp, E: g.Expr(t, d-1), L0: g.stripFlag(), R0: g.stripFlag()})
		case 2:
			g.budget--
			p := &Part{K: PIf, E: g.boolOperand(d - 1), L0: g.stripFlag(), R0: g.stripFlag(), L2: g.stripFlag(), R2: g.stripFlag()}
			p.Then = g.tparts(d-1, false)
			if g.bool("else") {
				p.HasElse = true
				p.L1, p.R1 = g.stripFlag(), g.stripFlag()
				p.Else = g.tparts(d-1, false)
			}
			ps = append(ps, p)
		default:
			g.budget--
			src, kt, vt := g.iterSource(d - 1)
			key, val, done := g.loopVars(kt, vt)
			p := &Part{K: PFor, E: src, KeyVar: key, ValVar: val, L0: g.stripFlag(), R0: g.stripFlag(), L2: g.stripFlag(), R2: g.stripFlag()}
			p.Then = g.tparts(d-1, false)
			done()
			ps = append(ps, p)
		}
	}
	return ps
}

// Template generates a template node. Literals ending in a lone '$'/'%' are avoided,
// strip markers next to whitespace runs outside the pinned-down shape are removed,
// and about a third of the templates end in a newline so that they can be heredocs.
func (g *G) Template(d int, forceMulti bool) *Node {
	n := &Node{K: KTmpl, Parts: g.tparts(d, true)}
	if g.pct(35, "endnl") {
		e := g.nl()
		if k := len(n.Parts); k > 0 && n.Parts[k-1].K == PLit {
			n.Parts[k-1].S += e
		} else {
			n.Parts = append(n.Parts, &Part{K: PLit, S: e})
		}
	}
	FixStrips(n)
	// a carriage return that is not part of a CR LF, in about 1 template in 25 (gen_text.go)
	if g.int(0, 24, "lonecr") == 13 {
		LoneCR(n, g.int(0, 1000, "lonecrpos"))
	}
	return n
}

// FixStrips clears strip markers whose adjacent literal has a whitespace edge outside
// the shape for which "strip the adjacent whitespace" has a single reading.
func FixStrips(n *Node) {
	for iter := 0; iter < 8; iter++ {
		ws := work(n.Parts)
		var evs []tev
		var owners []*bool
		// flatten with owner pointers
		var fl func(ws []*wpart)
		add := func(l, r *bool) {
			evs = append(evs, tev{l: *l, r: *r})
			owners = append(owners, l, r)
		}
		fl = func(ws []*wpart) {
			for _, w := range ws {
				switch w.p.K {
				case PLit:
					evs = append(evs, tev{lit: &w.s})
					owners = append(owners, nil, nil)
				case PInterp:
					add(&w.p.L0, &w.p.R0)
				case PIf:
					add(&w.p.L0, &w.p.R0)
					fl(w.then)
					if w.p.HasElse {
						add(&w.p.L1, &w.p.R1)
						fl(w.els)
					}
					add(&w.p.L2, &w.p.R2)
				case PFor:
					add(&w.p.L0, &w.p.R0)
					fl(w.then)
					add(&w.p.L2, &w.p.R2)
				}
			}
		}
		fl(ws)
		changed := false
		for i, ev := range evs {
			if ev.lit != nil {
				continue
			}
			if ev.l && i > 0 && evs[i-1].lit != nil {
				s := *evs[i-1].lit
				t := strings.TrimRightFunc(s, isWS)
				if !edgeSafe(s[len(t):]) {
					*owners[2*i] = false
					changed = true
				}
			}
			if ev.r && i+1 < len(evs) && evs[i+1].lit != nil {
				s := *evs[i+1].lit
				t := strings.TrimLeftFunc(s, isWS)
				if !edgeSafe(s[:len(s)-len(t)]) {
					*owners[2*i+1] = false
					changed = true
				}
			}
		}
		if !changed {
			return
		}
	}
}

// ---------------------------------------------------------------- faults

var FaultKinds = []string{"type-op", "undef-var", "undef-func", "missing-attr", "index-range", "index-neg", "index-frac",
	"index-prim", "dup-key", "null-tmpl", "null-op", "arity", "for-prim", "tmpl-nonprim", "bad-cond", "expand"}

func (g *G) faultKind() string { return pickS(g, FaultKinds, "faultkind") }

func tup(ns ...*Node) *Node { return &Node{K: KTuple, Kids: ns} }

// makeFault builds an expression that the language rejects when it is evaluated.
// orig (the well-typed expression that stood there) is embedded where convenient.
func (g *G) makeFault(kind string, orig *Node) *Node {
	if orig == nil {
		orig = numLit("1")
	}
	switch kind {
	case "type-op":
		switch g.int(0, 8, "typeop") {
		case 0:
			return &Node{K: KBin, Op: "*", A: strLit("abc"), B2: numLit("2")}
		case 1:
			return &Node{K: KUn, Op: "!", A: numLit("5")}
		case 2:
			return &Node{K: KUn, Op: "-", A: strLit("x")}
		case 3:
			return &Node{K: KBin, Op: "+", A: &Node{K: KBool, B: true}, B2: numLit("1")}
		case 4:
			return &Node{K: KBin, Op: "<", A: tup(numLit("1")), B2: numLit("2")}
		case 5:
			return &Node{K: KBin, Op: "&&", A: &Node{K: KObj}, B2: &Node{K: KBool, B: true}}
		case 6:
			return &Node{K: KBin, Op: "+", A: orig, B2: tup()}
		case 7:
			return &Node{K: KBin, Op: "||", A: numLit("1"), B2: orig}
		default:
			return &Node{K: KBin, Op: ">=", A: strLit("foo"), B2: orig}
		}
	case "undef-var":
		return &Node{K: KVar, Name: pickS(g, []string{"nope", "undefined_var", "aa", "fooo", "It"}, "undef")}
	case "undef-func":
		return &Node{K: KCall, Name: pickS(g, []string{"nofunc", "f9", "Try", "cann"}, "undeff"), Kids: []*Node{orig}}
	case "missing-attr":
		switch g.int(0, 2, "missattr") {
		case 0:
			return &Node{K: KAttr, A: &Node{K: KObj, Items: []Item{{KS: "ident", Name: "a", Val: numLit("1")}}}, Name: "zzz"}
		case 1:
			return &Node{K: KAttr, A: orig, Name: "zzz"}
		default:
			return &Node{K: KIndex, A: &Node{K: KObj, Items: []Item{{KS: "ident", Name: "a", Val: orig}}}, B2: strLit("zzz")}
		}
	case "index-range":
		return &Node{K: KIndex, A: tup(numLit("1"), orig), B2: numLit(pickS(g, []string{"2", "5", "100"}, "oor"))}
	case "index-neg":
		return &Node{K: KIndex, A: tup(orig, numLit("2")), B2: &Node{K: KUn, Op: "-", A: numLit("1")}}
	case "index-frac":
		return &Node{K: KIndex, A: tup(orig, numLit("2")), B2: numLit(pickS(g, []string{"1/2", "3/4", "5/4"}, "frac"))}
	case "index-prim":
		if g.bool("idxprim") {
			return &Node{K: KIndex, A: numLit("5"), B2: numLit("0")}
		}
		return &Node{K: KIndex, A: &Node{K: KBool, B: true}, B2: orig}
	case "dup-key":
		return &Node{K: KFor, ValVar: "x", A: tup(numLit("1"), numLit("2"), orig), Key: strLit("k"), B2: &Node{K: KVar, Name: "x"}}
	case "null-tmpl":
		return &Node{K: KTmpl, Parts: []*Part{{K: PLit, S: "a"}, {K: PInterp, E: &Node{K: KNull}}}}
	case "null-op":
		switch g.int(0, 5, "nullop") {
		case 0:
			return &Node{K: KBin, Op: "+", A: &Node{K: KNull}, B2: numLit("1")}
		case 1:
			return &Node{K: KUn, Op: "-", A: &Node{K: KNull}}
		case 2:
			return &Node{K: KCond, A: &Node{K: KNull}, B2: orig, C: orig}
		case 3:
			return &Node{K: KIndex, A: tup(orig), B2: &Node{K: KNull}}
		case 4:
			return &Node{K: KFor, ValVar: "x", A: &Node{K: KNull}, B2: &Node{K: KVar, Name: "x"}}
		default:
			return &Node{K: KAttr, A: &Node{K: KNull}, Name: "a"}
		}
	case "arity":
		if len(g.funcs) > 0 {
			f := g.funcs[g.int(0, len(g.funcs)-1, "arityf")]
			n := &Node{K: KCall, Name: f.name, Kids: []*Node{}}
			cnt := len(f.params) - 1
			if cnt < 0 || (f.rest == nil && g.bool("toomany")) {
				cnt = len(f.params) + 1
				if f.rest != nil {
					cnt = -1
				}
			}
			if cnt >= 0 {
				for i := 0; i < cnt; i++ {
					n.Kids = append(n.Kids, numLit("1"))
				}
				return n
			}
		}
		if g.bool("can0") {
			return &Node{K: KCall, Name: "can", Kids: []*Node{}}
		}
		return &Node{K: KCall, Name: "can", Kids: []*Node{orig, numLit("2")}}
	case "for-prim":
		if g.bool("forprimobj") {
			return &Node{K: KFor, KeyVar: "k", ValVar: "x", A: strLit("abc"), Key: &Node{K: KVar, Name: "k"}, B2: &Node{K: KVar, Name: "x"}}
		}
		return &Node{K: KFor, ValVar: "x", A: numLit("5"), B2: &Node{K: KVar, Name: "x"}}
	case "tmpl-nonprim":
		var e *Node
		if g.bool("nonprimobj") {
			e = &Node{K: KObj, Items: []Item{{KS: "ident", Name: "a", Val: orig}}}
		} else {
			e = tup(orig)
		}
		return &Node{K: KTmpl, Parts: []*Part{{K: PLit, S: "v="}, {K: PInterp, E: e}}}
	case "bad-cond":
		switch g.int(0, 3, "badcond") {
		case 0:
			return &Node{K: KCond, A: numLit("1"), B2: orig, C: orig}
		case 1:
			return &Node{K: KCond, A: strLit("abc"), B2: orig, C: orig}
		case 2:
			return &Node{K: KFor, ValVar: "x", A: tup(numLit("1")), B2: &Node{K: KVar, Name: "x"}, C: strLit("abc")}
		default:
			return &Node{K: KTmpl, Parts: []*Part{{K: PIf, E: numLit("5"), Then: []*Part{{K: PLit, S: "y"}}}, {K: PLit, S: "z"}}}
		}
	case "expand":
		if len(g.funcs) > 0 {
			f := g.funcs[g.int(0, len(g.funcs)-1, "expf")]
			bad := numLit("1")
			if g.bool("expnull") {
				bad = &Node{K: KNull}
			}
			return &Node{K: KCall, Name: f.name, Kids: []*Node{bad}, Expand: true}
		}
		return &Node{K: KBin, Op: "+", A: orig, B2: &Node{K: KObj}}
	}
	return &Node{K: KVar, Name: "nope"}
}

// slots enumerates the replaceable expression positions of a tree.
func slots(root **Node) []**Node {
	var out []**Node
	var rec func(pp **Node)
	var recParts func(ps []*Part)
	rec = func(pp **Node) {
		n := *pp
		if n == nil || n.K == KIt {
			return
		}
		out = append(out, pp)
		if n.A != nil {
			rec(&n.A)
		}
		if n.B2 != nil {
			rec(&n.B2)
		}
		if n.C != nil {
			rec(&n.C)
		}
		if n.Key != nil {
			rec(&n.Key)
		}
		for i := range n.Kids {
			rec(&n.Kids[i])
		}
		for i := range n.Items {
			if n.Items[i].KS == "expr" && n.Items[i].KeyE != nil {
				rec(&n.Items[i].KeyE)
			}
			rec(&n.Items[i].Val)
		}
		recParts(n.Parts)
	}
	recParts = func(ps []*Part) {
		for _, p := range ps {
			if p.E != nil {
				rec(&p.E)
			}
			recParts(p.Then)
			recParts(p.Else)
		}
	}
	rec(root)
	return out
}

// InjectFault replaces one node of the tree by an ill-typed variant.
func (g *G) InjectFault(root *Node) (*Node, string) {
	kind := g.faultKind()
	r := root
	ss := slots(&r)
	if len(ss) == 0 {
		return root, ""
	}
	pp := ss[g.int(0, len(ss)-1, "faultslot")]
	*pp = g.makeFault(kind, *pp)
	return r, kind
}

// NewG prepares a generator.
func NewG(t *rapid.T, budget int) *G { return &G{t: t, budget: budget} }

func (g *G) SetBudget(b int) { g.budget = b }

// RootType draws the type of a root expression, biased towards the shapes that
// exercise for-expressions, splats and grouping.
func (g *G) RootType() *ty {
	prim := func() *ty { return []*ty{tyNum, tyNum, tyStr, tyBool}[g.int(0, 3, "rootprim")] }
	switch g.w("rootty", 4, 4, 3, 3, 2, 2, 1, 1) {
	case 0:
		if g.pct(30, "rootseqdict") {
			return seqOf(dictOf(prim()), -1)
		}
		return seqOf(g.randType(1), -1)
	case 1:
		return tyNum
	case 2:
		return tyStr
	case 3:
		return tyBool
	case 4:
		return dictOf(seqOf(prim(), -1))
	case 5:
		return dictOf(prim())
	case 6:
		return g.randType(2)
	}
	return tyNull
}

func (g *G) ExprOf(w *ty, d int) *Node { return g.Expr(w, d) }

// EarlyCheckProbe builds a small for-expression whose `if` clause is well-typed for
// every element but contains a conditional whose branch types unify only for the real
// type of the key variable:   X == (c1 ? (false ? k : b) : N)   with k a string key.
// (With a placeholder of unknown type for k the inner conditional is a bool, which does
// not unify with the number N.)  The language defines the result: the inner conditional
// is the string "true"/"false", the outer one a string, and a number never equals a string.
func (g *G) EarlyCheckProbe() *Node {
	keyVar := pickS(g, []string{"k", "idx", "each", "e-1"}, "probekey")
	valVar := pickS(g, []string{"v", "i", "item", "x"}, "probeval")
	coll := &Node{K: KObj}
	used := map[string]bool{}
	for i := g.int(1, 3, "proben"); i > 0; i-- {
		nm := pickS(g, attrNames, "probeattr")
		if used[nm] {
			continue
		}
		used[nm] = true
		coll.Items = append(coll.Items, g.item(nm, g.numLiteral()))
	}
	var falsy *Node
	if g.bool("probefalsy") {
		falsy = &Node{K: KBool, B: false}
	} else {
		falsy = &Node{K: KBin, Op: "<", A: numLit("2"), B2: numLit("1")}
	}
	inner := &Node{K: KCond, A: falsy, B2: &Node{K: KVar, Name: keyVar}, C: &Node{K: KBool, B: g.bool("probeb")}}
	var c1 *Node
	switch g.int(0, 2, "probec1") {
	case 0:
		c1 = &Node{K: KBool, B: true}
	case 1:
		c1 = &Node{K: KBool, B: false}
	default:
		c1 = &Node{K: KBin, Op: ">=", A: &Node{K: KVar, Name: valVar}, B2: g.numLiteral()}
	}
	outer := &Node{K: KCond, A: c1, B2: inner, C: g.numLiteral()}
	if g.bool("probeswap") {
		outer = &Node{K: KCond, A: c1, B2: g.numLiteral(), C: inner}
	}
	op := "=="
	if g.bool("probeop") {
		op = "!="
	}
	var val *Node
	if g.bool("probevalexpr") {
		val = &Node{K: KBin, Op: "+", A: &Node{K: KVar, Name: valVar}, B2: g.numLiteral()}
	} else {
		val = &Node{K: KTmpl, Parts: []*Part{{K: PInterp, E: &Node{K: KVar, Name: keyVar}}, {K: PLit, S: "="}, {K: PInterp, E: &Node{K: KVar, Name: valVar}}}}
	}
	return &Node{K: KFor, KeyVar: keyVar, ValVar: valVar, A: coll, B2: val,
		C: &Node{K: KBin, Op: op, A: g.numLiteral(), B2: outer}}
}

package exprgen

import (
	"strings"
	"unicode"
	"unicode/utf8"
)

// Text-related generator classes (wave "text environment", see textenv.go).
//
// Line ends INSIDE template literals are content.  A case has a line-end class
// (SetEOL: 0 LF, 1 CR LF, 2 mixed per line end) that says what the line ends of the
// generated multi-line literals are; the printer writes them as \r\n escapes in quoted
// templates and as raw CR LF in heredocs and standalone templates.  With the text
// environment of a printing drawn CR LF too, the printed text is what an editor that
// saves CR LF produces; with the environment LF and the content CR LF (or the other way
// round, or mixed) it is a file with inconsistent line ends.

// SetEOL sets the line-end class of the multi-line literals generated from now on.
func (g *G) SetEOL(class int) { g.eolClass = class }

// nl: one line end of a generated literal.
func (g *G) nl() string {
	switch g.eolClass {
	case 1:
		return "\r\n"
	case 2:
		if g.bool("eolcr") {
			return "\r\n"
		}
	}
	return "\n"
}

var hdWords = []string{"a", "foo bar", "key = value", "x1", "é", "日本", "# not a comment", "// nor this", "$ 5", "%a", "${", "%{", "EOT", "END", "  two  blanks", "-", "<<EOT", "\"q\"", "\\n", "e", "_", "true", "0", "tab\there"}

var hdIndents = []string{"", "", " ", "  ", "    ", "\t", "\t\t", " \t", "      ", "        ", "\u00a0 ", "  \t  "}

var hdBlankOnly = []string{" ", "  ", "   ", "    ", "      ", "        ", "            ", "\t", "\t\t", " \t ", "\u00a0", "\v", "\f "}

func (g *G) hdIndent() string { return pickS(g, hdIndents, "hdindent") }

func (g *G) hdText() string {
	s := pickS(g, hdWords, "hdword")
	if g.pct(20, "hdword2") {
		s += " " + pickS(g, hdWords, "hdword")
	}
	if g.pct(20, "hdtrail") {
		s += pickS(g, []string{" ", "  ", "\t", " \t"}, "hdtrailing")
	}
	return s
}

// HeredocBody generates a template shaped like the body of a heredoc: 2-8 lines, every
// one ended by a line end of the case's class; lines with different indentation depths
// (blanks, tabs, mixed, NBSP), of which at least one non-blank line has none (so that the
// flush form can carry the text: what the printer adds in front of every line is then
// exactly the common prefix); empty lines; blank-only lines of 1-12 white space
// characters (shorter and longer than any prefix the printer adds); lines that hold one
// interpolation or one whole %{if}…%{endif} and nothing else; %{if} / %{for} directives
// that stand alone on their lines with the controlled lines between them.  No strip
// markers (the flush form is not written for templates with strip markers).
func (g *G) HeredocBody(d int) *Node {
	n := &Node{K: KTmpl}
	add := func(s string) {
		if s == "" {
			return
		}
		if k := len(n.Parts); k > 0 && n.Parts[k-1].K == PLit {
			n.Parts[k-1].S += s
		} else {
			n.Parts = append(n.Parts, &Part{K: PLit, S: s})
		}
	}
	prim := func() *ty { return []*ty{tyStr, tyNum, tyBool}[g.int(0, 2, "hdinterpty")] }
	small := func() *Node {
		if d <= 1 || g.budget <= 0 {
			return g.leaf(prim())
		}
		g.budget--
		return g.Expr(prim(), d-1)
	}
	cond := func() *Node {
		if d <= 1 || g.budget <= 0 {
			return g.leaf(tyBool)
		}
		g.budget--
		return g.boolOperand(d - 1)
	}
	nlines := g.int(2, 8, "hdlines")
	zeroAt := g.int(0, nlines-1, "hdzero")
	for i := 0; i < nlines; i++ {
		kind := g.w("hdline", 6, 3, 3, 3, 2, 2, 1)
		ind := g.hdIndent()
		if i == zeroAt {
			// the line without indentation of its own: text, an interpolation or a directive
			ind = ""
			if kind == 1 || kind == 2 {
				kind = 0
			}
		}
		switch kind {
		case 0: // text
			t := g.hdText()
			if ind == "" && t != "" && firstRuneSpace(t) {
				t = "x" + t
			}
			add(ind + t + g.nl())
		case 1: // empty line
			add(g.nl())
		case 2: // blank-only line
			add(pickS(g, hdBlankOnly, "hdblank") + g.nl())
		case 3: // one interpolation and nothing else
			add(ind)
			n.Parts = append(n.Parts, &Part{K: PInterp, E: small()})
			add(g.nl())
		case 4: // a whole %{if} on one line
			add(ind)
			p := &Part{K: PIf, E: cond(), Then: []*Part{{K: PLit, S: g.hdText()}}}
			if g.bool("hdelse") {
				p.HasElse = true
				p.Else = []*Part{{K: PLit, S: g.hdText()}}
			}
			n.Parts = append(n.Parts, p)
			add(g.nl())
		case 5: // %{if} and %{endif} alone on their lines
			add(ind)
			p := &Part{K: PIf, E: cond()}
			inner := g.nl() + g.hdIndent() + g.hdText() + g.nl()
			if g.pct(30, "hdinnerblank") {
				inner += pickS(g, []string{"", "  ", "\t", "      "}, "hdinnerblankws") + g.nl()
			}
			p.Then = []*Part{{K: PLit, S: inner + g.hdIndent()}}
			if g.pct(40, "hdelse2") {
				p.HasElse = true
				p.Else = []*Part{{K: PLit, S: g.nl() + g.hdIndent() + g.hdText() + g.nl() + g.hdIndent()}}
			}
			n.Parts = append(n.Parts, p)
			add(g.nl())
		default: // %{for} and %{endfor} alone on their lines, one line per element
			add(ind)
			src, kt, vt := g.iterSource(d - 1)
			key, val, done := g.loopVars(kt, vt)
			p := &Part{K: PFor, E: src, KeyVar: key, ValVar: val}
			p.Then = []*Part{{K: PLit, S: g.nl() + g.hdIndent() + "- "}, {K: PInterp, E: small()}, {K: PLit, S: g.nl() + g.hdIndent()}}
			done()
			n.Parts = append(n.Parts, p)
			add(g.nl())
		}
	}
	return n
}

// LoneCR puts a carriage return that is not followed by a line feed into one literal of a
// template without strip markers (quoted: the escape \r; heredoc / standalone: there is no
// raw spelling, the printer writes ${"\r"} - which would end the white space run next to a
// strip marker, hence only templates without them).  Reports whether it did.
func LoneCR(n *Node, pos int) bool {
	if n == nil || n.K != KTmpl || hasStrip(n.Parts) {
		return false
	}
	var lits []*Part
	WalkParts(n.Parts, nil, func(q *Part) {
		if q.K == PLit && q.S != "" {
			lits = append(lits, q)
		}
	})
	if len(lits) == 0 {
		return false
	}
	q := lits[pos%len(lits)]
	rs := []rune(q.S)
	at := (pos / 7) % (len(rs) + 1)
	if at > 0 && (rs[at-1] == '$' || rs[at-1] == '%') {
		return false
	}
	q.S = string(rs[:at]) + "\r" + string(rs[at:])
	return true
}

// TextShape describes the multi-line literals of a tree (evidence labels str:*).
func TextShape(root *Node, funcs []FuncDef) []string {
	var crlf, lf, lone, multi bool
	scan := func(n *Node) {
		Walk(n, func(m *Node) {
			if m.K != KTmpl {
				return
			}
			var sb strings.Builder
			litText(m.Parts, &sb)
			s := sb.String()
			if strings.Count(s, "\n") >= 2 {
				multi = true
			}
			for i := 0; i < len(s); i++ {
				switch s[i] {
				case '\n':
					if i > 0 && s[i-1] == '\r' {
						crlf = true
					} else {
						lf = true
					}
				case '\r':
					if i+1 >= len(s) || s[i+1] != '\n' {
						lone = true
					}
				}
			}
		})
	}
	scan(root)
	for i := range funcs {
		scan(funcs[i].Body)
	}
	var ls []string
	switch {
	case crlf && lf:
		ls = append(ls, "str:line-ends=mixed")
	case crlf:
		ls = append(ls, "str:line-ends=crlf")
	case lf:
		ls = append(ls, "str:line-ends=lf")
	}
	if lone {
		ls = append(ls, "str:lone-cr")
	}
	if multi {
		ls = append(ls, "str:multi-line-literal")
	}
	return ls
}

var _ = unicode.IsSpace
var _ = utf8.RuneLen

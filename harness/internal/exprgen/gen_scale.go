package exprgen

// SCALE classes: the counts the language has - nesting depth of wrappers around a
// sub-expression, elements of a tuple / object constructor, results of a for-expression,
// arguments of a call, parts of a template, length of a string literal, variables in the
// environment - are drawn, in a small share of the cases, from a pool of values next to the
// usual thresholds (powers of two and round decimals).  Everything is built from ordinary
// nodes of the tree (so printer, parser, evaluator and reference all do the real work); the
// interesting small sub-expression the normal generator produced sits BEFORE, IN THE MIDDLE
// OF or AFTER the bulk, and in the depth classes INSIDE the deep nest, which in turn sits
// inside a newline-sensitive context (an item of a multi-line object constructor followed by
// further items on later lines; the result attribute of a function block followed by further
// attributes; a template line followed by more lines).

import (
	"fmt"
	"strings"
)

// ScalePool: threshold-adjacent counts.
var ScalePool = []int{63, 64, 65, 127, 128, 129, 255, 256, 257, 511, 512, 513, 999, 1000, 1001,
	1023, 1024, 1025, 2047, 2048, 2049, 4095, 4096, 4097, 8191, 8192, 8193}

// DepthPool: nesting depths.  HEAD parses and evaluates 10000 nested wrappers of every kind
// without trouble (0.2-0.6 s); the cut at 1000 keeps one case below ~0.1 s and the JSON form
// of the case (up to 5 levels per wrapper) below encoding/json's nesting limit of 10000.
var DepthPool = []int{63, 64, 65, 127, 128, 129, 255, 256, 257, 1000}

// ScaleBucket names the label bucket of a count.
func ScaleBucket(n int) string {
	switch {
	case n < 63:
		return "<63"
	case n <= 129:
		return "64-129"
	case n <= 513:
		return "255-513"
	case n <= 1025:
		return "999-1025"
	case n <= 4097:
		return "2047-4097"
	}
	return "8191+"
}

func (g *G) poolDraw(pool []int, max int, l string) int {
	hi := 0
	for i, v := range pool {
		if v <= max {
			hi = i
		}
	}
	return pool[g.int(0, hi, l)]
}

// Scale describes what a scale case consists of (labels).
type Scale struct {
	What string `json:"what"`          // depth tuple object for args tmplparts strlen nvars
	N    int    `json:"n"`             // the count
	Ctx  string `json:"ctx,omitempty"` // depth: where the nest sits
	Mix  string `json:"mix,omitempty"` // depth: wrapper kinds, variant of the other classes
	Pos  string `json:"pos,omitempty"` // where the small sub-expression sits relative to the bulk
}

// ---------------------------------------------------------------- slots with context

type ctxSlot struct {
	pp         **Node
	underTmpl  int  // number of template nodes above (a quoted template is a single line)
	objNonLast bool // value of an object constructor item that is followed by another item
}

func slotsCtx(root **Node) []ctxSlot {
	var out []ctxSlot
	var rec func(pp **Node, ut int, onl bool)
	var recParts func(ps []*Part, ut int)
	rec = func(pp **Node, ut int, onl bool) {
		n := *pp
		if n == nil || n.K == KIt {
			return
		}
		out = append(out, ctxSlot{pp, ut, onl})
		if n.K == KTmpl {
			ut++
		}
		if n.A != nil {
			rec(&n.A, ut, false)
		}
		if n.B2 != nil {
			rec(&n.B2, ut, false)
		}
		if n.C != nil {
			rec(&n.C, ut, false)
		}
		if n.Key != nil {
			rec(&n.Key, ut, false)
		}
		for i := range n.Kids {
			rec(&n.Kids[i], ut, false)
		}
		for i := range n.Items {
			if n.Items[i].KS == "expr" && n.Items[i].KeyE != nil {
				rec(&n.Items[i].KeyE, ut, false)
			}
			rec(&n.Items[i].Val, ut, i < len(n.Items)-1)
		}
		recParts(n.Parts, ut)
	}
	recParts = func(ps []*Part, ut int) {
		for _, p := range ps {
			if p.E != nil {
				rec(&p.E, ut, false)
			}
			recParts(p.Then, ut)
			recParts(p.Else, ut)
		}
	}
	rec(root, 0, false)
	return out
}

// ---------------------------------------------------------------- depth

var wrapKinds = []string{"paren", "tupidx", "interp", "for", "obj", "call"}

// wrap1 puts one value-preserving wrapper around e.
func wrap1(kind string, e *Node, i int) *Node {
	switch kind {
	case "tupidx":
		// [e][0]: a tuple bracket and an index bracket
		return &Node{K: KIndex, A: tup(e), B2: numLit("0")}
	case "interp":
		// "${e}": a template that is exactly one interpolation passes the value through
		return &Node{K: KTmpl, Parts: []*Part{{K: PInterp, E: e}}}
	case "for":
		// [for v in [e] : v][0]  (e is evaluated outside the loop's scope)
		v := []string{"v", "w", "x"}[i%3]
		return &Node{K: KIndex, A: &Node{K: KFor, ValVar: v, A: tup(e), B2: &Node{K: KVar, Name: v}}, B2: numLit("0")}
	case "obj":
		// {w = e}.w: an object constructor
		return &Node{K: KAttr, A: &Node{K: KObj, Items: []Item{{KS: "ident", Name: "w", Val: e}}}, Name: "w"}
	case "call":
		// try(e): call parentheses.  (The fork evaluates the argument of try twice - once for
		// the result type, once for the value - so try is never nested deeply: see DeepWrap.)
		return &Node{K: KCall, Name: "try", Kids: []*Node{e}}
	}
	return &Node{K: KParen, A: e}
}

// DeepWrap puts n wrappers around e, their kinds cycling through a drawn pattern.  At most
// two of them are try() calls (cost 2^k on HEAD for k nested try calls).
func (g *G) DeepWrap(e *Node, n int) (*Node, string) {
	pl := g.int(1, 3, "wrappatlen")
	var pat []string
	for i := 0; i < pl; i++ {
		pat = append(pat, wrapKinds[g.w("wrapkind", 6, 4, 2, 2, 2)])
	}
	calls := map[int]bool{}
	if g.pct(30, "wrapcall") {
		calls[[]int{0, n / 2, n - 1}[g.int(0, 2, "wrapcallpos")]] = true
		if g.bool("wrapcall2") {
			calls[[]int{0, n / 2, n - 1}[g.int(0, 2, "wrapcallpos2")]] = true
		}
	}
	for i := 0; i < n; i++ {
		k := pat[i%len(pat)]
		if calls[i] {
			k = "call"
		}
		e = wrap1(k, e, i)
	}
	mix := strings.Join(pat, "+")
	if len(calls) > 0 {
		mix += "+call"
	}
	return e, mix
}

func (g *G) smallLeaf() *Node {
	switch g.int(0, 3, "smallleaf") {
	case 0:
		return strLit(pickS(g, strPool, "smallstr"))
	case 1:
		return &Node{K: KBool, B: g.bool("smallbool")}
	case 2:
		return &Node{K: KBin, Op: "+", A: g.numLiteral(), B2: g.numLiteral()}
	}
	return g.numLiteral()
}

// nlContext: {p = small, q = e, r = small}.q - e is the value of an object constructor item
// that is followed by another item (on the next line, when the printer writes one item per line).
func (g *G) nlContext(e *Node) *Node {
	o := &Node{K: KObj}
	if g.bool("nlctxbefore") {
		o.Items = append(o.Items, Item{KS: "ident", Name: "p", Val: g.smallLeaf()})
	}
	o.Items = append(o.Items, Item{KS: "ident", Name: "q", Val: e})
	o.Items = append(o.Items, Item{KS: "ident", Name: "r", Val: g.smallLeaf()})
	if g.bool("nlctxindex") {
		return &Node{K: KIndex, A: o, B2: strLit("q")}
	}
	return &Node{K: KAttr, A: o, Name: "q"}
}

// scaleDepth wraps one sub-expression of the root (or of a function body) n levels deep.
// tmplRoot: the root is a template whose interpolations are not quoted in standalone form.
func (g *G) scaleDepth(root *Node, tmplRoot bool, funcs []FuncDef, max int) (*Node, *Scale) {
	n := g.poolDraw(DepthPool, max, "depthn")
	sc := &Scale{What: "depth", N: n}
	if len(funcs) > 0 && g.pct(30, "depthfunc") {
		// inside the result attribute of a function block
		f := &funcs[g.int(0, len(funcs)-1, "depthfn")]
		ss := slotsCtx(&f.Body)
		s := ss[g.int(0, len(ss)-1, "depthfslot")]
		var w *Node
		w, sc.Mix = g.DeepWrap(*s.pp, n)
		sc.Ctx = "function-result-attribute"
		if g.bool("depthfctx") {
			w = g.nlContext(w)
			sc.Ctx = "function-result-attribute+object-item"
		}
		*s.pp = w
		return root, sc
	}
	r := root
	ss := slotsCtx(&r)
	lim := 0
	if tmplRoot {
		lim = 1
	}
	var natural, free []ctxSlot
	for _, s := range ss {
		if s.underTmpl <= lim {
			free = append(free, s)
			if s.objNonLast {
				natural = append(natural, s)
			}
		}
	}
	var s ctxSlot
	own := true
	switch {
	case len(natural) > 0 && g.pct(50, "depthnatural"):
		s = natural[g.int(0, len(natural)-1, "depthslotn")]
		own = g.pct(20, "depthown")
		sc.Ctx = "existing-object-item"
	case len(free) > 0:
		s = free[g.int(0, len(free)-1, "depthslotf")]
		sc.Ctx = "own-object-item"
	default:
		s = ss[g.int(0, len(ss)-1, "depthslot")]
		sc.Ctx = "own-object-item(under-template)"
	}
	var w *Node
	w, sc.Mix = g.DeepWrap(*s.pp, n)
	if own {
		w = g.nlContext(w)
		if sc.Ctx == "existing-object-item" {
			sc.Ctx = "existing+own-object-item"
		}
	}
	*s.pp = w
	return r, sc
}

// ---------------------------------------------------------------- element counts

func bulkElem(i int) *Node {
	switch i % 5 {
	case 0:
		return numLit(fmt.Sprint(i % 13))
	case 1:
		return strLit([]string{"a", "bc", "é", "12"}[(i/5)%4])
	case 2:
		return &Node{K: KBool, B: i%2 == 0}
	case 3:
		return numLit([]string{"1/2", "3/4", "1000", "7"}[(i/5)%4])
	}
	return numLit(fmt.Sprint(i))
}

// position of the small sub-expression inside a bulk of n elements
func (g *G) bulkPos(n int) (int, string) {
	switch g.w("bulkpos", 2, 3, 3, 2) {
	case 0:
		return 0, "before"
	case 1:
		return n / 2, "middle"
	case 2:
		return n - 1, "after"
	}
	// right at a threshold
	for _, t := range []int{64, 128, 256, 512, 1000, 1024, 2048, 4096, 8192} {
		if t < n && t >= n/2 {
			return t, "at-threshold"
		}
	}
	return n - 1, "after"
}

// scaleElems replaces one sub-expression s of the root by a container of n elements that holds
// s at a drawn position and selects it again, so that the value of the root is unchanged.
func (g *G) scaleElems(root *Node, what string, max int, funcs *[]FuncDef) (*Node, *Scale) {
	n := g.poolDraw(ScalePool, max, "elemsn")
	j, pos := g.bulkPos(n)
	sc := &Scale{What: what, N: n, Pos: pos}
	r := root
	ss := slots(&r)
	pp := ss[g.int(0, len(ss)-1, "elemslot")]
	s := *pp
	elems := make([]*Node, n)
	for i := range elems {
		elems[i] = bulkElem(i)
	}
	elems[j] = s
	// two more small generated expressions next to the ends
	if n > 4 {
		elems[(j+1)%n] = g.smallLeaf()
		elems[(j+n-1)%n] = g.smallLeaf()
	}
	idx := numLit(fmt.Sprint(j))
	var out *Node
	switch what {
	case "tuple":
		sc.Mix = "tuple[i]"
		out = &Node{K: KIndex, A: tup(elems...), B2: idx}
	case "object":
		o := &Node{K: KObj}
		for i, e := range elems {
			o.Items = append(o.Items, Item{KS: "ident", Name: fmt.Sprintf("e%d", i), Val: e})
		}
		if g.bool("objaccess") {
			sc.Mix = "object.attr"
			out = &Node{K: KAttr, A: o, Name: fmt.Sprintf("e%d", j)}
		} else {
			sc.Mix = "object[key]"
			out = &Node{K: KIndex, A: o, B2: strLit(fmt.Sprintf("e%d", j))}
		}
	case "for":
		kv, vv := pickS(g, loopNames, "bulkkey"), pickS(g, loopNames, "bulkval")
		if kv == vv {
			kv = "idx"
		}
		coll := tup(elems...)
		kref, vref := &Node{K: KVar, Name: kv}, &Node{K: KVar, Name: vv}
		switch g.int(0, 3, "forvariant") {
		case 0:
			sc.Mix = "[for k,v in bulk : v][i]"
			out = &Node{K: KIndex, A: &Node{K: KFor, KeyVar: kv, ValVar: vv, A: coll, B2: vref}, B2: idx}
		case 1:
			sc.Mix = "[for k,v in bulk : v if k >= i][0]"
			out = &Node{K: KIndex, A: &Node{K: KFor, KeyVar: kv, ValVar: vv, A: coll, B2: vref,
				C: &Node{K: KBin, Op: ">=", A: kref, B2: idx}}, B2: numLit("0")}
		case 2:
			sc.Mix = "{for k,v in bulk : \"e${k}\" => v}[key]"
			key := &Node{K: KTmpl, Parts: []*Part{{K: PLit, S: "e"}, {K: PInterp, E: kref}}}
			out = &Node{K: KIndex, A: &Node{K: KFor, KeyVar: kv, ValVar: vv, A: coll, Key: key, B2: vref}, B2: strLit(fmt.Sprintf("e%d", j))}
		default:
			sc.Mix = "{for k,v in bulk : \"g\" => v...}.g[i]"
			out = &Node{K: KIndex, A: &Node{K: KAttr, A: &Node{K: KFor, KeyVar: kv, ValVar: vv, A: coll, Key: strLit("g"), B2: vref, Group: true}, Name: "g"}, B2: idx}
		}
	default: // args
		switch g.int(0, 2, "argsvariant") {
		case 0:
			// try(bad, bad, ..., s): every argument before the last one fails
			sc.Mix = "try(failing x (n-1), e)"
			sc.Pos = "after"
			kids := make([]*Node, n)
			for i := range kids {
				if i%2 == 0 {
					kids[i] = &Node{K: KVar, Name: "nope"}
				} else {
					kids[i] = &Node{K: KIndex, A: tup(), B2: numLit("0")}
				}
			}
			kids[n-1] = s
			out = &Node{K: KCall, Name: "try", Kids: kids}
		default:
			name := "fargs"
			have := false
			for _, f := range *funcs {
				if f.Name == name {
					have = true
				}
			}
			if !have {
				*funcs = append(*funcs, FuncDef{Name: name, Params: []string{}, VarParam: "rest", Body: &Node{K: KVar, Name: "rest"}})
			}
			if g.bool("argsexpand") {
				sc.Mix = "f([bulk]...)[i]"
				out = &Node{K: KIndex, A: &Node{K: KCall, Name: name, Kids: []*Node{tup(elems...)}, Expand: true}, B2: idx}
			} else {
				sc.Mix = "f(bulk)[i]"
				out = &Node{K: KIndex, A: &Node{K: KCall, Name: name, Kids: elems}, B2: idx}
			}
		}
	}
	*pp = out
	return r, sc
}

// ---------------------------------------------------------------- template parts, strings, variables

var longUnits = []string{"abcdefghij", "0123456789", "é", "日本", "x y", "\"", "\\", "-", "${", "%{", "Z"}

func longString(n int) string {
	var sb strings.Builder
	sb.WriteString("L")
	c := 1
	for i := 0; c < n-1; i++ {
		u := longUnits[(i*7+i/11)%len(longUnits)]
		k := len([]rune(u))
		if c+k > n-1 {
			u, k = "q", 1
		}
		sb.WriteString(u)
		c += k
	}
	sb.WriteString("E")
	return sb.String()
}

// bulkParts: n template parts (literals that begin and end in a non-blank, interpolations of
// small expressions, now and then an if directive); when nl is set the literals end lines.
func bulkParts(n int, nl bool) []*Part {
	ps := make([]*Part, 0, n)
	for i := 0; len(ps) < n; i++ {
		switch {
		case i%2 == 0:
			s := []string{"a", "b-", "é", "#", "x1"}[(i/2)%5]
			if nl && i%6 == 0 {
				s = "l" + fmt.Sprint(i) + "\nm"
			}
			ps = append(ps, &Part{K: PLit, S: s})
		case i%31 == 15:
			ps = append(ps, &Part{K: PIf, E: &Node{K: KBool, B: i%62 == 15}, Then: []*Part{{K: PLit, S: "t"}}, HasElse: true, Else: []*Part{{K: PLit, S: "f"}}})
		default:
			ps = append(ps, &Part{K: PInterp, E: bulkElem(i)})
		}
	}
	return ps
}

// observe adds extra expressions to the root so that their values are part of the result:
// an expression root becomes [root, extras...]; a template root gets them as interpolations.
func observe(root *Node, template bool, pos string, extras ...*Node) *Node {
	if !template {
		kids := []*Node{root}
		if pos == "before" {
			kids = append(append([]*Node{}, extras...), root)
		} else {
			kids = append(kids, extras...)
		}
		return tup(kids...)
	}
	var ps []*Part
	for _, e := range extras {
		ps = append(ps, &Part{K: PLit, S: "|"}, &Part{K: PInterp, E: e})
	}
	ps = append(ps, &Part{K: PLit, S: "|"})
	return spliceParts(root, ps, pos)
}

// spliceParts puts extra parts before, in the middle of or after the parts of a template root.
func spliceParts(root *Node, extra []*Part, pos string) *Node {
	old := root.Parts
	var ps []*Part
	switch pos {
	case "before":
		ps = append(append(ps, extra...), old...)
	case "middle":
		h := len(old) / 2
		ps = append(append(append(ps, old[:h]...), extra...), old[h:]...)
	default:
		ps = append(append(ps, old...), extra...)
	}
	n := &Node{K: KTmpl, Parts: ps}
	FixStrips(n)
	return n
}

func (g *G) scaleOther(root *Node, what string, template bool, vars *[]Var) (*Node, *Scale) {
	n := g.poolDraw(ScalePool, 8193, what+"n")
	pos := []string{"before", "middle", "after"}[g.int(0, 2, "otherpos")]
	sc := &Scale{What: what, N: n, Pos: pos}
	switch what {
	case "tmplparts":
		nl := g.bool("partsnl")
		ps := bulkParts(n, nl)
		if template {
			return spliceParts(root, ps, pos), sc
		}
		return observe(root, false, pos, &Node{K: KTmpl, Parts: ps}), sc
	case "strlen":
		s := longString(n)
		if template {
			return spliceParts(root, []*Part{{K: PLit, S: s}}, pos), sc
		}
		lit := strLit(s)
		if g.bool("strlencmp") {
			sc.Mix = "literal == literal"
			return observe(root, false, pos, &Node{K: KBin, Op: "==", A: lit, B2: strLit(s)}, lit), sc
		}
		return observe(root, false, pos, lit), sc
	}
	// nvars: n more variables in the environment; the first, the middle one and the last are read
	used := map[string]bool{}
	for _, v := range *vars {
		used[v.Name] = true
	}
	var names []string
	for i := 0; len(names) < n; i++ {
		nm := fmt.Sprintf("sv%d", i)
		if used[nm] {
			continue
		}
		names = append(names, nm)
		var v Val
		switch i % 4 {
		case 0, 1:
			v = Val{T: "num", N: fmt.Sprint(i % 1000)}
		case 2:
			v = Val{T: "str", S: fmt.Sprintf("s%d", i)}
		default:
			v = Val{T: "bool", B: i%8 == 3}
		}
		*vars = append(*vars, Var{Name: nm, V: v})
	}
	ref := func(i int) *Node { return &Node{K: KVar, Name: names[i]} }
	return observe(root, template, pos, ref(0), ref(n/2), ref(n-1)), sc
}

// ScaleCase turns a finished case into a scale case of a drawn class.
func (g *G) ScaleCase(root *Node, template bool, funcs *[]FuncDef, vars *[]Var) (*Node, *Scale) {
	switch g.w("scalewhat", 7, 2, 2, 2, 2, 2, 1, 2) {
	case 0:
		return g.scaleDepth(root, template, *funcs, 1000)
	case 1:
		return g.scaleElems(root, "tuple", 8193, funcs)
	case 2:
		return g.scaleElems(root, "object", 8193, funcs)
	case 3:
		return g.scaleElems(root, "for", 8193, funcs)
	case 4:
		return g.scaleElems(root, "args", 8193, funcs)
	case 5:
		return g.scaleOther(root, "tmplparts", template, vars)
	case 6:
		return g.scaleOther(root, "strlen", template, vars)
	}
	return g.scaleOther(root, "nvars", template, vars)
}

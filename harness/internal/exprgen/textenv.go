package exprgen

// Text environment: the properties of the TEXT a tree is printed into that the grammar
// leaves open and that do not belong to one node - line ends, a byte order mark, the end
// of the text, blanks at line ends, what indentation is made of, blank lines.  It is a
// part of every Style, the canonical one included (Style{Text: ...} with Seed 0 is the
// minimal spelling written into a non-default text environment), and has its own random
// stream (TextEnv.Seed) so that it is independent of the spelling choices.
//
// Facts about HEAD (hclsyntax/scan_tokens.rl, token.go, parser_template.go; verified by
// experiment):
//   - a line end is LF or CR LF (Newline = '\r'? '\n') wherever a newline token may stand; a
//     lone CR is an invalid character outside comments and templates, is ordinary comment text
//     inside '#', '//' and '/* */' comments, is refused inside quoted and heredoc templates,
//     and in a STANDALONE template makes the scanner give up: the rest of the text becomes one
//     literal, interpolations included, without a diagnostic (never written raw by the
//     printer: a CR that is not followed by LF is spelled ${"\r"} outside quoted templates)
//   - one UTF-8 byte order mark at the very start of an expression, template or body is skipped
//   - blanks and tabs before a line end, blank and blank-only lines and any text after the
//     last token (line ends, blanks) are insignificant wherever a newline is; an expression that
//     ends in a heredoc needs the line end after the closing marker
//   - a heredoc introducer is '<<' '-'? Ident Newline: nothing may stand between the marker and
//     the line end, the CR of a CR LF does not belong to the marker; the closing marker is a line
//     that equals the marker after trimming white space on both sides (so it may be indented
//     and followed by blanks, for << and <<-), ended by LF or CR LF
//   - every byte of a heredoc body line is CONTENT, the CR of a CR LF line end included:
//     <<E LF a CR LF E LF is "a\r\n".  The LF text and the CR LF text of one heredoc differ
//     exactly by the CRs of the content lines
//   - flush heredocs (<<-): a line begins after a literal line end; the indentation of a line
//     is the number of leading unicode.IsSpace runes (blank, tab, VT, FF, CR, NBSP, U+2003 ...)
//     of its first literal token (0 when the line begins with an interpolation / directive); a
//     line that holds nothing but white space up to and including its LF - also when that
//     white space ends in CR - is a blank line: it does not take part in the minimum and is kept
//     verbatim, however short or long it is; the minimum over the other lines is removed from
//     each of them, counted in runes
type TextEnv struct {
	EOL    int    `json:"eol,omitempty"`    // line ends of the text outside template content: 0 LF, 1 CR LF, 2 mixed per line
	Final  int    `json:"final,omitempty"`  // end of the text: 0 as is, 1 a line end (function file: none), 2 a line end and blank / blank-only lines, 3 blanks and tabs without a line end
	BOM    bool   `json:"bom,omitempty"`    // UTF-8 byte order mark at the start
	Trail  int    `json:"trail,omitempty"`  // before insignificant line ends: 0 nothing, 1 blanks, 2 tabs, 3 mixed
	Indent int    `json:"indent,omitempty"` // indentation (after insignificant line ends, of flush heredoc lines and closing markers): 0 as the style says (blanks), 1 tabs, 2 blanks, 3 mixed (now and then NBSP, VT, FF, EM SPACE in flush heredocs)
	Blank  int    `json:"blank,omitempty"`  // blank and blank-only lines wherever the grammar allows a newline: 0 none, 1 some, 2 many
	CmtCR  bool   `json:"cmtcr,omitempty"`  // a lone CR inside comments
	Seed   uint64 `json:"seed,omitempty"`
}

// IsDefault: LF, nothing added.
func (e TextEnv) IsDefault() bool {
	return e.EOL == 0 && e.Final == 0 && !e.BOM && e.Trail == 0 && e.Indent == 0 && e.Blank == 0 && !e.CmtCR
}

// Labels names the non-default choices (evidence labels text:<what>=<class>).
func (e TextEnv) Labels() []string {
	if e.IsDefault() {
		return []string{"text:default"}
	}
	var ls []string
	switch e.EOL {
	case 1:
		ls = append(ls, "text:eol=crlf")
	case 2:
		ls = append(ls, "text:eol=mixed")
	default:
		ls = append(ls, "text:eol=lf")
	}
	switch e.Final {
	case 1:
		ls = append(ls, "text:final=newline-toggled")
	case 2:
		ls = append(ls, "text:final=newline+blank-lines")
	case 3:
		ls = append(ls, "text:final=blanks-no-newline")
	}
	if e.BOM {
		ls = append(ls, "text:bom")
	}
	switch e.Trail {
	case 1:
		ls = append(ls, "text:trail=blanks")
	case 2:
		ls = append(ls, "text:trail=tabs")
	case 3:
		ls = append(ls, "text:trail=mixed")
	}
	switch e.Indent {
	case 1:
		ls = append(ls, "text:indent=tabs")
	case 2:
		ls = append(ls, "text:indent=blanks")
	case 3:
		ls = append(ls, "text:indent=mixed")
	}
	switch e.Blank {
	case 1:
		ls = append(ls, "text:blank-lines=some")
	case 2:
		ls = append(ls, "text:blank-lines=many")
	}
	if e.CmtCR {
		ls = append(ls, "text:cr-in-comment")
	}
	return ls
}

const utf8BOM = "\xef\xbb\xbf"

func (p *printer) trnd() uint64 {
	p.ts += 0x9e3779b97f4a7c15
	z := p.ts
	z = (z ^ (z >> 30)) * 0xbf58476d1ce4e5b9
	z = (z ^ (z >> 27)) * 0x94d049bb133111eb
	return z ^ (z >> 31)
}

func (p *printer) tchance(num, den uint64) bool {
	if p.st.Text.Seed == 0 {
		return false
	}
	return p.trnd()%den < num
}

func (p *printer) tpick(n int) int {
	if n <= 1 || p.st.Text.Seed == 0 {
		return 0
	}
	return int(p.trnd() % uint64(n))
}

func (p *printer) fact(s string) {
	if p.facts != nil {
		p.facts[s] = true
	}
}

// eol: one line end of the text environment.
func (p *printer) eol() string {
	switch p.st.Text.EOL {
	case 1:
		return "\r\n"
	case 2:
		if p.tpick(2) == 1 {
			return "\r\n"
		}
	}
	return "\n"
}

func (p *printer) blanks(kind, max int) string {
	n := 1 + p.tpick(max)
	b := make([]byte, n)
	for i := range b {
		switch kind {
		case 2:
			b[i] = '\t'
		case 3:
			if p.tpick(2) == 1 {
				b[i] = '\t'
			} else {
				b[i] = ' '
			}
		default:
			b[i] = ' '
		}
	}
	return string(b)
}

// lineEnd: an INSIGNIFICANT line end (or one that merely ends an item / attribute): blanks
// and tabs before it, and blank / blank-only lines after it.
func (p *printer) lineEnd(trail bool) string {
	s := ""
	if trail && p.st.Text.Trail > 0 && p.tchance(2, 3) {
		s = p.blanks(p.st.Text.Trail, 3)
	}
	s += p.eol()
	if p.st.Text.Blank > 0 && p.tchance(uint64(p.st.Text.Blank), 4) {
		for k := 1 + p.tpick(3); k > 0; k-- {
			if p.tchance(1, 2) {
				s += p.blanks(3, 6)
			}
			s += p.eol()
		}
		p.fact("text:blank-lines-written")
	}
	return s
}

// indentStr: n columns of indentation made of what the text environment says.
func (p *printer) indentStr(n int) string {
	if n <= 0 {
		return ""
	}
	b := make([]byte, n)
	for i := range b {
		switch p.st.Text.Indent {
		case 1:
			b[i] = '\t'
		case 3:
			if p.tpick(2) == 1 {
				b[i] = '\t'
			} else {
				b[i] = ' '
			}
		default:
			b[i] = ' '
		}
	}
	return string(b)
}

// afterNL: indentation of the text that follows an insignificant line end.
func (p *printer) afterNL(n int) string {
	if p.st.Text.Indent > 0 && n == 0 && p.tchance(1, 2) {
		n = 1 + p.tpick(4)
	}
	return p.indentStr(n)
}

// comment text of a line comment / inline comment
func (p *printer) cmtText(s string) string {
	if p.st.Text.CmtCR && p.tchance(1, 2) {
		p.fact("text:cr-in-comment-written")
		return s + "\rd"
	}
	return s
}

var exoticSpaces = []string{"\u00a0", "\v", "\f", "\u2003"}

// flushIndent: n white space RUNES in front of a flush heredoc line (HEAD counts
// unicode.IsSpace runes).
func (p *printer) flushIndent(n int) string {
	if n <= 0 {
		return ""
	}
	s := ""
	for i := 0; i < n; i++ {
		switch p.st.Text.Indent {
		case 1:
			s += "\t"
		case 3:
			switch {
			case p.tchance(1, 16):
				s += exoticSpaces[p.tpick(len(exoticSpaces))]
				p.fact("heredoc:flush-indent-exotic-space")
			case p.tpick(2) == 1:
				s += "\t"
			default:
				s += " "
			}
		default:
			s += " "
		}
	}
	return s
}

// finish: the start (byte order mark) and the end of the text.
func (p *printer) finish(src string, template bool) string {
	e := p.st.Text
	if !template {
		switch e.Final {
		case 1:
			src += p.lineEnd(true)
		case 2:
			src += p.lineEnd(true)
			for k := 1 + p.tpick(3); k > 0; k-- {
				if p.tchance(1, 2) {
					src += p.blanks(3, 5)
				}
				src += p.eol()
			}
		case 3:
			src += p.blanks(3, 4)
		}
	}
	if e.BOM {
		src = utf8BOM + src
	}
	return src
}

package exprgen

// Printer: turns one tree into source text.  Every spelling decision that the
// grammar leaves open is taken independently per node from a deterministic stream
// seeded by Style.Seed and gated by the Style flags; Style{} (all zero) is the
// canonical minimal spelling.
//
// Facts about the concrete syntax used here (hclsyntax/parser.go, parser_template.go,
// scan_tokens.rl of the fork, and the HCL native syntax specification):
//   * precedence, lowest first: ?: < || < && < ==,!= < <,>,<=,>= < +,- < *,/,% < unary -,! < postfix
//     binary operators are left-associative; the operand of a unary operator is a term with its postfix operators
//   * newlines are insignificant inside ( ), [ ], for-expressions, call arguments, ${ } / %{ } sequences and at
//     the top level of a standalone expression; inside an object constructor they separate items
//   * a quoted template is a single line; a heredoc template processes no backslash escapes
//   * identifiers may contain '-', so a binary minus after a name needs a space
//   * x.0 is the legacy spelling of x[0] (not chainable: x.0.1 is a fractional number)
//   * x.*.a.b is the attribute-only splat, equivalent to x[*].a.b; after it, [i] applies to the result
//   * in an object constructor a bare name key is a literal string; (expr) forces evaluation

import (
	"fmt"
	"math/big"
	"strings"
	"unicode"
	"unicode/utf8"
)

type Style struct {
	Parens   int    `json:"parens,omitempty"`   // 0 minimal, 1 some redundant, 2 many redundant
	Space    int    `json:"space,omitempty"`    // 0 tight, 1 one space around operators, 2 random
	NL       bool   `json:"nl,omitempty"`       // newlines and line comments where insignificant
	Cmt      bool   `json:"cmt,omitempty"`      // inline /* */ comments
	Heredoc  int    `json:"heredoc,omitempty"`  // 0 never, 1 <<, 2 also <<- with extra indentation
	Legacy   bool   `json:"legacy,omitempty"`   // x.0 for x[0], .* for [*] where equivalent
	Esc      bool   `json:"esc,omitempty"`      // \xHH spellings (the fork's byte escape) in quoted literals
	NumSpell bool   `json:"numspell,omitempty"` // 1e3, 2.50, 5e-1
	Alt      bool   `json:"alt,omitempty"`      // ':' in object items, trailing commas, newline item separators
	ItemNL   bool   `json:"itemnl,omitempty"`   // one object-constructor item per line (wherever a raw newline may be written); user-function attributes in another order
	Seed     uint64 `json:"seed,omitempty"`
	// Text: the text environment (textenv.go): line ends, byte order mark, end of the text, blanks at
	// line ends, indentation characters, blank lines.  Independent of Seed: Style{Text: ...} is the
	// minimal spelling in a non-default text environment.
	Text TextEnv `json:"text"`
}

// Modes is a short description used in fingerprints / signatures.
func (s Style) Modes() string {
	var m []string
	if s.Parens > 0 {
		m = append(m, "parens")
	}
	if s.Space > 0 || s.NL || s.Cmt {
		m = append(m, "space")
	}
	if s.Heredoc > 0 {
		m = append(m, "heredoc")
	}
	if s.Legacy || s.Esc || s.NumSpell || s.Alt || s.ItemNL {
		m = append(m, "alt")
	}
	if !s.Text.IsDefault() {
		m = append(m, "text")
	}
	if len(m) == 0 {
		return "min"
	}
	return strings.Join(m, "+")
}

type printer struct {
	st          Style
	rs          uint64
	sb          strings.Builder
	last        byte
	nlOK        []bool
	quoted      int // >0: inside a quoted template (no raw newlines at all)
	tmpl        int // >0: inside any template
	noNL        int // >0: inside a flush heredoc body
	legacyEnd   bool
	usedHeredoc bool
	ts          uint64          // random stream of the text environment
	facts       map[string]bool // what was actually written (evidence labels); shared with sub-printers
}

func (p *printer) rnd() uint64 {
	p.rs += 0x9e3779b97f4a7c15
	z := p.rs
	z = (z ^ (z >> 30)) * 0xbf58476d1ce4e5b9
	z = (z ^ (z >> 27)) * 0x94d049bb133111eb
	return z ^ (z >> 31)
}

func (p *printer) chance(num, den uint64) bool {
	if p.st.Seed == 0 {
		return false
	}
	return p.rnd()%den < num
}

func (p *printer) pick(n int) int {
	if n <= 1 || p.st.Seed == 0 {
		return 0
	}
	return int(p.rnd() % uint64(n))
}

func (p *printer) canNL() bool {
	return p.quoted == 0 && p.noNL == 0 && len(p.nlOK) > 0 && p.nlOK[len(p.nlOK)-1]
}

func (p *printer) push(b bool) { p.nlOK = append(p.nlOK, b) }
func (p *printer) pop()        { p.nlOK = p.nlOK[:len(p.nlOK)-1] }

func wordy(c byte) bool {
	return c == '_' || c == '-' || (c >= '0' && c <= '9') || (c >= 'a' && c <= 'z') || (c >= 'A' && c <= 'Z') || c >= 0x80
}

func needSep(a, b byte) bool {
	if a == 0 {
		return false
	}
	switch {
	case wordy(a) && wordy(b):
		return true
	case a >= '0' && a <= '9' && b == '.':
		return true
	case a == '<' && (b == '<' || b == '='):
		return true
	case a == '>' && b == '=':
		return true
	case a == '*' && b == '/', a == '/' && (b == '*' || b == '/'):
		return true
	case (a == '%' || a == '$') && b == '{':
		return true
	case a == '-' && b == '-':
		return true
	case a == '!' && b == '=', a == '=' && (b == '=' || b == '>'):
		return true
	case a == '.' && b == '.':
		return true
	case a == '{' && b == '{', a == '}' && b == '}', a == '~' || b == '~':
		return true
	case a == '&' && b == '&', a == '|' && b == '|':
		return true
	}
	return false
}

func (p *printer) write(s string) {
	if s == "" {
		return
	}
	p.sb.WriteString(s)
	p.last = s[len(s)-1]
}

// gap emits optional insignificant whitespace / comments before a token.
func (p *printer) gap(want int) {
	// want: 0 nothing by default, 1 a space by default in Space>=1
	s := ""
	switch p.st.Space {
	case 0:
	case 1:
		if want == 1 {
			s = " "
		}
	default:
		switch p.pick(6) {
		case 0:
		case 1, 2:
			s = " "
		case 3:
			s = "  "
		case 4:
			s = "\t"
		case 5:
			s = " \t "
		}
	}
	if p.st.NL && p.canNL() && p.chance(1, 6) {
		switch p.pick(4) {
		case 0:
			s += p.lineEnd(true) + p.afterNL(0)
		case 1:
			s += p.lineEnd(true) + p.afterNL(4)
		case 2:
			s += " # " + p.cmtText("c") + p.lineEnd(true) + p.afterNL(0)
		case 3:
			s += " // " + p.cmtText("c d") + p.lineEnd(true) + p.afterNL(2)
		}
	}
	// the text environment puts line ends (and with them blank-only lines, blanks before the
	// line end, indentation) wherever the grammar allows a newline, whatever the style
	if p.st.Text.Blank > 0 && p.canNL() && p.tchance(uint64(p.st.Text.Blank), 12) {
		s += p.lineEnd(true) + p.afterNL(0)
		p.fact("text:newline-inserted")
	}
	if p.st.Cmt && p.quoted == 0 && p.chance(1, 10) {
		s += "/* " + p.cmtText("c") + " */"
	}
	if s != "" && needSep(p.last, s[0]) {
		p.write(" ")
	}
	p.write(s)
}

func (p *printer) tokw(s string, want int) {
	p.gap(want)
	if needSep(p.last, s[0]) {
		p.write(" ")
	}
	p.write(s)
	p.legacyEnd = false
}

func (p *printer) tok(s string) { p.tokw(s, 0) }

// tight: token that must directly follow the previous one
func (p *printer) tight(s string) {
	p.write(s)
	p.legacyEnd = false
}

// ---------------------------------------------------------------- precedence

func prec(n *Node) int {
	switch n.K {
	case KCond:
		return 0
	case KBin:
		return binPrec(n.Op)
	case KUn:
		return 7
	case KIndex, KAttr, KSplat:
		return 8
	}
	return 9
}

func binPrec(op string) int {
	switch op {
	case "||":
		return 1
	case "&&":
		return 2
	case "==", "!=":
		return 3
	case "<", ">", "<=", ">=":
		return 4
	case "+", "-":
		return 5
	case "*", "/", "%":
		return 6
	}
	return 6
}

// NeedsNoParens reports whether child c may be written without parentheses in a
// position that requires at least precedence min.
func NeedsNoParens(c *Node, min int) bool { return prec(c) >= min }

// MixedPrecedence: the tree contains an operator whose operand is an operator of a
// different precedence level that the minimal spelling writes without parentheses.
func MixedPrecedence(root *Node) bool {
	found := false
	chk := func(parent int, c *Node, min int) {
		if c == nil {
			return
		}
		pc := prec(c)
		if pc <= 7 && pc != parent && pc >= min {
			found = true
		}
	}
	Walk(root, func(n *Node) {
		switch n.K {
		case KBin:
			pp := binPrec(n.Op)
			chk(pp, n.A, pp)
			chk(pp, n.B2, pp+1)
		case KUn:
			chk(7, n.A, 7)
		case KCond:
			chk(0, n.A, 1)
			// the branches of a conditional are full expressions: any operator there counts
			chk(0, n.B2, 0)
			chk(0, n.C, 0)
		}
	})
	return found
}

// ---------------------------------------------------------------- expressions

func (p *printer) expr(n *Node, min int, target bool) {
	need := prec(n) < min
	if target {
		switch n.K {
		case KNum, KSplat:
			need = true
		}
	}
	extra := 0
	if p.st.Parens > 0 {
		den := uint64(6)
		if p.st.Parens > 1 {
			den = 2
		}
		if p.chance(1, den) {
			extra = 1 + p.pick(2)
		}
	}
	if need && extra == 0 {
		extra = 1
	}
	if extra > 0 {
		for i := 0; i < extra; i++ {
			p.tok("(")
			p.push(true)
		}
		p.bare(n, true)
		for i := 0; i < extra; i++ {
			p.tok(")")
			p.pop()
		}
		return
	}
	p.bare(n, p.canNL())
}

func (p *printer) bare(n *Node, heredocOK bool) {
	switch n.K {
	case KNum:
		p.tok(p.numSpelling(n.N))
	case KBool:
		if n.B {
			p.tok("true")
		} else {
			p.tok("false")
		}
	case KNull:
		p.tok("null")
	case KVar:
		p.tok(n.Name)
	case KIt:
		panic("exprgen: anonymous symbol outside a splat traversal")
	case KUn:
		p.tok(n.Op)
		p.expr(n.A, 7, false)
	case KBin:
		pp := binPrec(n.Op)
		p.expr(n.A, pp, false)
		if n.Op == "-" {
			// a name may contain '-'
			if p.last != ' ' && p.last != '\t' && p.last != '\n' {
				p.write(" ")
			}
			p.tokw(n.Op, 0)
			p.write(" ")
		} else {
			p.tokw(n.Op, 1)
			if p.st.Space == 1 {
				p.write(" ")
			}
		}
		p.expr(n.B2, pp+1, false)
	case KCond:
		p.expr(n.A, 1, false)
		p.tokw("?", 1)
		if p.st.Space == 1 {
			p.write(" ")
		}
		p.expr(n.B2, 0, false)
		p.tokw(":", 1)
		if p.st.Space == 1 {
			p.write(" ")
		}
		p.expr(n.C, 0, false)
	case KTuple:
		p.tok("[")
		p.push(true)
		for i, k := range n.Kids {
			if i > 0 {
				p.tok(",")
				if p.st.Space == 1 {
					p.write(" ")
				}
			}
			p.expr(k, 0, false)
		}
		if len(n.Kids) > 0 && p.st.Alt && p.chance(1, 3) {
			p.tok(",")
		}
		p.tok("]")
		p.pop()
	case KObj:
		p.obj(n)
	case KIndex:
		p.expr(n.A, 8, true)
		p.indexSuffix(n.B2, true)
	case KAttr:
		p.expr(n.A, 8, true)
		p.tok("." + n.Name)
	case KSplat:
		p.expr(n.A, 8, true)
		p.splatSuffix(n)
	case KFor:
		p.forExpr(n)
	case KCall:
		p.tok(n.Name)
		p.tight("(")
		p.push(true)
		for i, k := range n.Kids {
			if i > 0 {
				p.tok(",")
				if p.st.Space == 1 {
					p.write(" ")
				}
			}
			p.expr(k, 0, false)
		}
		if n.Expand && len(n.Kids) > 0 {
			p.tok("...")
		} else if len(n.Kids) > 0 && p.st.Alt && p.chance(1, 3) {
			p.tok(",")
		}
		p.tok(")")
		p.pop()
	case KTmpl:
		p.template(n, heredocOK)
	case KParen:
		p.tok("(")
		p.push(true)
		p.expr(n.A, 0, false)
		p.tok(")")
		p.pop()
	default:
		panic("exprgen: unknown node kind " + n.K)
	}
}

func intLiteral(n *Node) (string, bool) {
	if n == nil || n.K != KNum {
		return "", false
	}
	r, ok := ParseRat(n.N)
	if !ok || !r.IsInt() || r.Sign() < 0 {
		return "", false
	}
	return r.Num().String(), true
}

// indexSuffix writes [key] or, when allowed and chosen, the legacy .N spelling.
func (p *printer) indexSuffix(key *Node, mayLegacy bool) {
	if s, ok := intLiteral(key); ok && mayLegacy && p.st.Legacy && !p.legacyEnd && p.chance(1, 2) {
		p.tok("." + s)
		p.legacyEnd = true
		return
	}
	p.tok("[")
	p.push(true)
	p.expr(key, 0, false)
	p.tok("]")
	p.pop()
}

// attrOnlyChain: the traversal can be written after the attribute-only splat marker
func attrOnlyChain(n *Node) bool {
	prevIdx := false
	ok := true
	var rec func(n *Node)
	rec = func(n *Node) {
		switch n.K {
		case KIt:
		case KAttr:
			rec(n.A)
			prevIdx = false
		case KIndex:
			rec(n.A)
			if _, lit := intLiteral(n.B2); !lit || prevIdx {
				ok = false
			}
			prevIdx = true
		default:
			ok = false
		}
	}
	rec(n)
	return ok
}

func (p *printer) splatSuffix(n *Node) {
	attrOnly := attrOnlyChain(n.Each)
	useAttr := attrOnly && !n.Full
	if attrOnly && p.st.Legacy && p.st.Seed != 0 {
		useAttr = p.chance(1, 2)
	}
	if useAttr {
		p.tok(".*")
		p.chain(n.Each, true)
		return
	}
	p.tok("[")
	p.tok("*")
	p.tok("]")
	p.chain(n.Each, false)
}

func (p *printer) chain(n *Node, attrOnly bool) {
	switch n.K {
	case KIt:
	case KAttr:
		p.chain(n.A, attrOnly)
		p.tok("." + n.Name)
	case KIndex:
		p.chain(n.A, attrOnly)
		if attrOnly {
			s, _ := intLiteral(n.B2)
			p.tok("." + s)
			p.legacyEnd = true
		} else {
			p.indexSuffix(n.B2, true)
		}
	case KSplat:
		p.chain(n.A, attrOnly)
		p.splatSuffix(n)
	default:
		panic("exprgen: bad node in splat traversal: " + n.K)
	}
}

func (p *printer) obj(n *Node) {
	p.tok("{")
	p.push(false)
	newlineSep := (p.st.Alt || p.st.ItemNL) && p.quoted == 0 && p.noNL == 0
	itemNL := newlineSep && p.st.ItemNL
	if newlineSep && len(n.Items) > 0 && (itemNL || p.chance(1, 3)) {
		p.write(p.lineEnd(true) + p.afterNL(0))
	}
	for i, it := range n.Items {
		if i > 0 {
			if itemNL {
				// the next item always starts on a new line
				if p.chance(1, 4) {
					p.tok(",")
				}
				p.write(p.lineEnd(true) + p.afterNL(0))
			} else if newlineSep && p.chance(1, 2) {
				p.write(p.lineEnd(true) + p.afterNL(0))
			} else {
				p.tok(",")
				if newlineSep && p.chance(1, 4) {
					p.write(p.lineEnd(true) + p.afterNL(0))
				}
			}
			if p.st.Space == 1 {
				p.write(" ")
			}
		}
		switch {
		case it.KS == "ident" && !(i == 0 && it.Name == "for"):
			p.tok(it.Name)
		case it.KS == "ident":
			// `{for` introduces a for-expression: the literal name "for" is quoted when it comes first
			p.template(&Node{K: KTmpl, Parts: []*Part{{K: PLit, S: it.Name}}}, false)
		case (it.KS == "raw" || it.KS == "quoted") && rawKeyOK(it.KeyE) && !(p.st.Parens > 0 && p.chance(1, 4)):
			// (p.expr may still add redundant parentheses of its own, and inside them a heredoc)
			p.expr(it.KeyE, 0, false)
		default:
			p.tok("(")
			p.push(true)
			p.expr(it.KeyE, 0, false)
			p.tok(")")
			p.pop()
		}
		if p.st.Alt && p.chance(1, 3) {
			p.tokw(":", 1)
		} else {
			p.tokw("=", 1)
		}
		if p.st.Space == 1 {
			p.write(" ")
		}
		p.expr(it.Val, 0, false)
	}
	if len(n.Items) > 0 && itemNL {
		p.write(p.lineEnd(true) + p.afterNL(0))
	} else if len(n.Items) > 0 && p.st.Alt && p.chance(1, 4) {
		if newlineSep && p.chance(1, 2) {
			p.write(p.lineEnd(true) + p.afterNL(0))
		} else {
			p.tok(",")
		}
	}
	p.tok("}")
	p.pop()
}

// rawKeyOK: the key expression can be written without parentheses and still be an
// expression (not a bare name, which would be a literal key, and not a traversal, which
// the fork rejects as an ambiguous key).
func rawKeyOK(n *Node) bool {
	if n == nil {
		return false
	}
	switch n.K {
	case KNum, KTmpl, KBin, KUn, KCall:
		return true
	}
	return false
}

func (p *printer) forExpr(n *Node) {
	open, close := "[", "]"
	if n.Key != nil {
		open, close = "{", "}"
	}
	p.tok(open)
	p.push(true)
	p.tok("for")
	p.write(" ")
	if n.KeyVar != "" {
		p.tok(n.KeyVar)
		p.tok(",")
		if p.st.Space == 1 {
			p.write(" ")
		}
	}
	p.tok(n.ValVar)
	p.write(" ")
	p.tok("in")
	p.write(" ")
	p.expr(n.A, 0, false)
	p.tokw(":", 1)
	if p.st.Space == 1 {
		p.write(" ")
	}
	if n.Key != nil {
		p.expr(n.Key, 0, false)
		p.tokw("=>", 1)
		if p.st.Space == 1 {
			p.write(" ")
		}
	}
	p.expr(n.B2, 0, false)
	if n.Group {
		p.tok("...")
	}
	if n.C != nil {
		p.write(" ")
		p.tok("if")
		p.write(" ")
		p.expr(n.C, 0, false)
	}
	p.tok(close)
	p.pop()
}

// ---------------------------------------------------------------- numbers

func (p *printer) numSpelling(s string) string {
	r, ok := ParseRat(s)
	if !ok {
		return s
	}
	canon := RatString(r)
	if !p.st.NumSpell || p.st.Seed == 0 {
		return canon
	}
	switch p.pick(5) {
	case 0:
		return canon
	case 1:
		if r.IsInt() {
			return canon + ".0"
		}
		return canon + "0"
	case 2:
		if r.IsInt() {
			return canon + ".000"
		}
		return canon + "00"
	case 3:
		// exponent form moving the decimal point right: d.ddd -> dddd e-k
		if !r.IsInt() {
			i := strings.IndexByte(canon, '.')
			frac := canon[i+1:]
			digits := strings.TrimLeft(canon[:i]+frac, "0")
			if digits == "" {
				digits = "0"
			}
			e := "e"
			if p.pick(2) == 1 {
				e = "E"
			}
			return digits + e + "-" + fmt.Sprint(len(frac))
		}
		// integer divisible by ten
		z := 0
		for len(canon)-z > 1 && canon[len(canon)-1-z] == '0' {
			z++
		}
		if z > 0 {
			e := []string{"e", "E", "e+", "E+"}[p.pick(4)]
			return canon[:len(canon)-z] + e + fmt.Sprint(z)
		}
		return canon
	default:
		if r.IsInt() {
			// 12 -> 1.2e1
			if len(canon) >= 2 {
				return canon[:1] + "." + canon[1:] + "e" + fmt.Sprint(len(canon)-1)
			}
			return canon + "e0"
		}
		return canon
	}
}

var _ = big.NewInt

// ---------------------------------------------------------------- templates

func hasStrip(ps []*Part) bool {
	f := false
	WalkParts(ps, nil, func(q *Part) {
		if q.L0 || q.R0 || q.L1 || q.R1 || q.L2 || q.R2 {
			f = true
		}
	})
	return f
}

func litText(ps []*Part, sb *strings.Builder) {
	for _, q := range ps {
		if q.K == PLit {
			sb.WriteString(q.S)
		}
		litText(q.Then, sb)
		litText(q.Else, sb)
	}
}

func endsWithNewlineLit(ps []*Part) bool {
	for i := len(ps) - 1; i >= 0; i-- {
		if ps[i].K == PLit && ps[i].S == "" {
			continue
		}
		return ps[i].K == PLit && strings.HasSuffix(ps[i].S, "\n")
	}
	return false
}

func (p *printer) template(n *Node, heredocOK bool) {
	if heredocOK && p.st.Heredoc > 0 && p.tmpl == 0 && p.quoted == 0 && p.noNL == 0 && p.canNL() &&
		endsWithNewlineLit(n.Parts) && p.chance(3, 4) {
		if p.heredoc(n) {
			return
		}
	}
	p.gap(0)
	if needSep(p.last, '"') {
		p.write(" ")
	}
	p.tight("\"")
	p.quoted++
	p.tmpl++
	p.parts(n.Parts, true)
	p.tmpl--
	p.quoted--
	p.tight("\"")
}

// heredocMarkers: closing markers of several shapes (Ident = (ID_Start | '_') (ID_Continue | '-')*)
var heredocMarkers = []string{"EOT", "END", "E_1", "MARK9", "_", "e", "EOT-2", "\u00e91", "T-", "A_Rather_Long_Heredoc_Marker_Name_0123456789", "eot", "\u65e5\u672c"}

func markerShape(m string) string {
	switch {
	case len(m) == 1:
		return "one-char"
	case len(m) > 20:
		return "long"
	case strings.ContainsAny(m, "-"):
		return "with-dash"
	case m[0] >= 0x80:
		return "non-ascii"
	case strings.ContainsAny(m, "_0123456789"):
		return "underscore-or-digit"
	case strings.ToUpper(m) == m:
		return "upper"
	}
	return "lower"
}

func firstRuneSpace(s string) bool {
	r, _ := utf8.DecodeRuneInString(s)
	return unicode.IsSpace(r)
}

// heredoc writes the template as <<MARKER or <<-MARKER.  The body lines are CONTENT, byte for
// byte: a CR LF in a literal of the tree is written as CR LF (a CR that is not followed by LF is
// spelled ${"\r"}, see lit), whatever the line ends of the text environment are; the introducer
// line and the closing marker line belong to the text environment.  Flush form: every line
// that is not blank gets the same NUMBER of white space runes in front of it - made of what the
// text environment says, per line - and blank lines (white space only, up to and including the
// line end, a CR before the LF included) are written verbatim, however long they are; it is
// used only when some non-blank line of the tree's text has no indentation of its own, so that
// the common prefix is exactly what was added.
func (p *printer) heredoc(n *Node) bool {
	flush := p.st.Heredoc > 1 && !hasStrip(n.Parts) && p.chance(2, 3)
	// body is printed by a sub-printer so that it can be post-processed line by line
	sub := &printer{st: p.st, rs: p.rnd() | 1, ts: p.trnd() | 1, nlOK: []bool{false}, facts: p.facts}
	sub.tmpl = 1
	if flush {
		sub.noNL = 1
	}
	sub.parts(n.Parts, false)
	body := sub.sb.String()
	lines := strings.SplitAfter(body, "\n")
	if k := len(lines); k > 0 && lines[k-1] == "" {
		lines = lines[:k-1]
	}
	// a closing marker that no line of the body equals after trimming
	marker := ""
	off := p.pick(len(heredocMarkers))
	if p.st.Seed != 0 && p.chance(1, 2) {
		off = p.pick(4) // the common ones half of the time
	}
	for i := range heredocMarkers {
		m := heredocMarkers[(off+i)%len(heredocMarkers)]
		ok := true
		for _, ln := range lines {
			if strings.TrimSpace(ln) == m {
				ok = false
				break
			}
		}
		if ok {
			marker = m
			break
		}
	}
	if marker == "" {
		return false
	}
	p.usedHeredoc = true
	// what the body holds (evidence labels)
	var crlf, lf, empty, blankOnly, crlfBlank, interpLine, dirLine int
	depths := map[int]bool{}
	zero := false
	var blankLens []int
	for _, ln := range lines {
		t := strings.TrimSuffix(ln, "\n")
		isCRLF := strings.HasSuffix(t, "\r")
		if isCRLF {
			crlf++
			t = strings.TrimSuffix(t, "\r")
		} else {
			lf++
		}
		if strings.TrimSpace(ln) == "" {
			if t == "" {
				empty++
			} else {
				blankOnly++
			}
			blankLens = append(blankLens, utf8.RuneCountInString(t))
			if isCRLF {
				crlfBlank++
			}
			continue
		}
		rest := strings.TrimLeftFunc(t, unicode.IsSpace)
		depths[utf8.RuneCountInString(t[:len(t)-len(rest)])] = true
		if !firstRuneSpace(ln) {
			zero = true
		}
		tr := strings.TrimSpace(t)
		if strings.HasPrefix(tr, "${") && strings.HasSuffix(tr, "}") && strings.Count(tr, "${") == 1 {
			interpLine++
		}
		if strings.HasPrefix(tr, "%{") && strings.HasSuffix(tr, "}") {
			dirLine++
		}
	}
	indent := 0
	if flush && !zero {
		flush = false
	}
	if flush {
		indent = p.pick(9)
		var nb strings.Builder
		for _, ln := range lines {
			if strings.TrimSpace(ln) != "" {
				nb.WriteString(p.flushIndent(indent))
			}
			nb.WriteString(ln)
		}
		body = nb.String()
	}
	p.gap(0)
	if needSep(p.last, '<') {
		p.write(" ")
	}
	// nothing may stand between the marker and the line end of the introducer
	if flush {
		p.write("<<-" + marker + p.eol())
	} else {
		p.write("<<" + marker + p.eol())
	}
	p.write(body)
	ci := p.pick(4)
	if p.st.Text.Indent > 0 {
		ci = p.tpick(7)
	}
	closing := p.indentStr(ci) + marker
	// the line end after the closing marker is an ordinary one (canNL holds here)
	p.write(closing + p.lineEnd(true))
	p.legacyEnd = false

	form := "heredoc:plain"
	if flush {
		form = "heredoc:flush"
		if indent > 0 {
			p.fact("heredoc:flush-indented")
		}
	}
	p.fact(form)
	p.fact("heredoc:marker=" + markerShape(marker))
	if ci > 0 {
		p.fact("heredoc:closing-marker-indented")
	}
	content := "lf"
	switch {
	case crlf > 0 && lf > 0:
		content = "mixed"
	case crlf > 0:
		content = "crlf"
	}
	p.fact("heredoc:content-eol=" + content)
	if len(lines) >= 3 {
		p.fact("heredoc:lines>=3")
	}
	if empty > 0 {
		p.fact("heredoc:empty-line")
	}
	if blankOnly > 0 {
		p.fact("heredoc:blank-only-line")
	}
	if len(depths) >= 2 {
		p.fact("heredoc:indentation-depths>=2")
	}
	if interpLine > 0 {
		p.fact("heredoc:line-of-one-interpolation")
	}
	if dirLine > 0 {
		p.fact("heredoc:line-of-one-directive")
	}
	if flush && indent > 0 {
		for _, k := range blankLens {
			switch {
			case k == 0:
			case k < indent:
				p.fact("heredoc:flush+blank-only-line-shorter-than-prefix")
			case k > indent:
				p.fact("heredoc:flush+blank-only-line-longer-than-prefix")
			default:
				p.fact("heredoc:flush+blank-only-line-as-long-as-prefix")
			}
		}
	}
	// conjunctions
	textEOL := []string{"lf", "crlf", "mixed"}[p.st.Text.EOL%3]
	p.fact("text:" + textEOL + "+" + form[len("heredoc:"):] + "-heredoc")
	if flush && indent > 0 && empty+blankOnly > 0 {
		p.fact("heredoc:flush-indented+blank-line")
		if crlfBlank > 0 {
			p.fact("heredoc:flush-indented+crlf-blank-line")
		}
		if content == "crlf" && p.st.Text.EOL == 1 {
			// the whole text is a CR LF text
			p.fact("text:crlf+flush-heredoc+blank-line")
		}
		if content == "lf" && p.st.Text.EOL == 0 {
			p.fact("text:lf+flush-heredoc+blank-line")
		}
	}
	if content == "crlf" && p.st.Text.EOL == 1 {
		p.fact("text:crlf+heredoc-content-crlf")
	}
	return true
}

// Bare prints a template in standalone (ParseTemplate) form.
func (p *printer) bareTemplate(n *Node) {
	p.tmpl++
	p.parts(n.Parts, false)
	p.tmpl--
}

func (p *printer) lit(s string, quoted bool) {
	var sb strings.Builder
	rs := []rune(s)
	for i := 0; i < len(rs); i++ {
		r := rs[i]
		if (r == '$' || r == '%') && i+1 < len(rs) && rs[i+1] == '{' {
			sb.WriteRune(r)
			sb.WriteRune(r)
			sb.WriteRune('{')
			i++
			continue
		}
		if !quoted {
			if r == '\r' && !(i+1 < len(rs) && rs[i+1] == '\n') {
				// a CR that is not part of a CR LF cannot be written raw in a heredoc (refused) or
				// in a standalone template (the scanner gives up there): spelled as an interpolation
				sb.WriteString(`${"\r"}`)
				p.fact("str:lone-cr-as-interpolation")
				continue
			}
			if r == '\r' {
				p.fact("str:raw-crlf-in-template-text")
			}
			sb.WriteRune(r)
			continue
		}
		switch r {
		case '"':
			sb.WriteString(`\"`)
		case '\\':
			sb.WriteString(`\\`)
		case '\n':
			sb.WriteString(`\n`)
		case '\r':
			sb.WriteString(`\r`)
			p.fact("str:cr-escape-in-quoted")
		case '\t':
			if p.chance(1, 2) {
				sb.WriteString(`\t`)
			} else {
				sb.WriteRune(r)
			}
		default:
			// \xHH (one raw byte; the fork's own escape): spell the rune as one \xHH per
			// UTF-8 byte.  The fork's scanner lets up to four hexadecimal digits follow \x,
			// so the spelling is used only when the next character is not such a digit.
			nextHex := i+1 < len(rs) && isHexDigit(rs[i+1])
			if p.st.Esc && r != '$' && r != '%' && !nextHex && p.chance(1, 6) {
				var buf [4]byte
				n := utf8.EncodeRune(buf[:], r)
				for _, b := range buf[:n] {
					if p.pick(2) == 0 {
						fmt.Fprintf(&sb, `\x%02x`, b)
					} else {
						fmt.Fprintf(&sb, `\x%02X`, b)
					}
				}
			} else {
				sb.WriteRune(r)
			}
		}
	}
	out := sb.String()
	p.sb.WriteString(out)
	if out != "" {
		p.last = out[len(out)-1]
	}
}

func isHexDigit(r rune) bool {
	return (r >= '0' && r <= '9') || (r >= 'a' && r <= 'f') || (r >= 'A' && r <= 'F')
}

func (p *printer) seqOpen(intro string, strip bool) {
	p.tight(intro) // "${" or "%{"
	if strip {
		p.tight("~")
	}
	p.last = 0
	p.push(true)
	if p.st.Space >= 1 {
		p.write(" ")
	}
}

func (p *printer) seqClose(strip bool) {
	if p.st.Space >= 1 {
		p.write(" ")
	}
	if strip {
		if p.last == '~' {
			p.write(" ")
		}
		p.tight("~}")
	} else {
		if p.last == '}' || p.last == '~' {
			p.write(" ")
		}
		p.tight("}")
	}
	p.pop()
	p.last = 0
}

func (p *printer) parts(ps []*Part, quoted bool) {
	for _, q := range ps {
		switch q.K {
		case PLit:
			p.lit(q.S, quoted)
		case PInterp:
			p.seqOpen("${", q.L0)
			p.exprStart(q.E)
			p.seqClose(q.R0)
		case PIf:
			p.seqOpen("%{", q.L0)
			p.tok("if")
			p.write(" ")
			p.expr(q.E, 0, false)
			p.seqClose(q.R0)
			p.parts(q.Then, quoted)
			if q.HasElse {
				p.seqOpen("%{", q.L1)
				p.tok("else")
				p.seqClose(q.R1)
				p.parts(q.Else, quoted)
			}
			p.seqOpen("%{", q.L2)
			p.tok("endif")
			p.seqClose(q.R2)
		case PFor:
			p.seqOpen("%{", q.L0)
			p.tok("for")
			p.write(" ")
			if q.KeyVar != "" {
				p.tok(q.KeyVar)
				p.tok(",")
			}
			p.tok(q.ValVar)
			p.write(" ")
			p.tok("in")
			p.write(" ")
			p.expr(q.E, 0, false)
			p.seqClose(q.R0)
			p.parts(q.Then, quoted)
			p.seqOpen("%{", q.L2)
			p.tok("endfor")
			p.seqClose(q.R2)
		}
	}
}

// exprStart: first token of an interpolation; "${{" would be fine for the scanner
// but we keep one space for readability of replays.
func (p *printer) exprStart(n *Node) {
	if n.K == KObj || n.K == KFor {
		p.write(" ")
	}
	p.expr(n, 0, false)
}

// ---------------------------------------------------------------- entry points

// PrintExpr spells the tree as a standalone expression (top level: newlines insignificant).
func PrintExpr(n *Node, st Style) (src string, usedHeredoc bool) {
	src, usedHeredoc, _ = PrintExprF(n, st)
	return
}

// PrintExprF is PrintExpr and also reports what was actually written (evidence labels).
func PrintExprF(n *Node, st Style) (src string, usedHeredoc bool, facts map[string]bool) {
	p := &printer{st: st, rs: st.Seed, ts: st.Text.Seed, nlOK: []bool{true}, facts: map[string]bool{}}
	p.expr(n, 0, false)
	return p.finish(p.sb.String(), false), p.usedHeredoc, p.facts
}

// PrintAttrExpr spells the tree as the right-hand side of a body attribute
// (newlines end the attribute).
func PrintAttrExpr(n *Node, st Style) string {
	p := &printer{st: st, rs: st.Seed, ts: st.Text.Seed, nlOK: []bool{false}}
	p.expr(n, 0, false)
	return p.sb.String()
}

// PrintTemplate spells a template node in standalone template form.
func PrintTemplate(n *Node, st Style) string {
	src, _ := PrintTemplateF(n, st)
	return src
}

// PrintTemplateF is PrintTemplate and also reports what was actually written.
func PrintTemplateF(n *Node, st Style) (string, map[string]bool) {
	p := &printer{st: st, rs: st.Seed, ts: st.Text.Seed, nlOK: []bool{false}, facts: map[string]bool{}}
	p.bareTemplate(n)
	// every byte after the last sequence is content: only the start of the text is the environment's
	return p.finish(p.sb.String(), true), p.facts
}

// PrintFuncs renders function definitions as ext/userfunc blocks.  The line structure of
// the file belongs to the text environment: line ends, blanks before them, blank and
// comment lines between attributes and blocks, indentation, byte order mark, the last line end.
func PrintFuncs(fs []FuncDef, st Style) string {
	if len(fs) == 0 {
		return ""
	}
	tp := &printer{st: st, ts: st.Text.Seed ^ 0x5bd1e995}
	var sb strings.Builder
	ind := func() string {
		if st.Text.Indent == 0 {
			return "  "
		}
		return tp.indentStr(1 + tp.tpick(4))
	}
	nl := func() string {
		s := tp.lineEnd(true)
		if st.Text.Blank > 0 && tp.tchance(1, 6) {
			s += ind() + "# " + tp.cmtText("note") + tp.eol()
		}
		return s
	}
	for i, f := range fs {
		s := st
		if s.Seed != 0 {
			s.Seed += uint64(i+1) * 7919
		}
		if s.Text.Seed != 0 {
			s.Text.Seed += uint64(i+1) * 104729
		}
		s.Heredoc = 0
		sb.WriteString("function \"" + f.Name + "\" {" + nl())
		if st.ItemNL {
			// the order of the attributes of a body is insignificant: the result first,
			// followed by further attributes on the next lines
			sb.WriteString(ind() + "result = " + PrintAttrExpr(f.Body, s) + nl())
		}
		sb.WriteString(ind() + "params = [" + strings.Join(f.Params, ", ") + "]" + nl())
		if f.VarParam != "" {
			sb.WriteString(ind() + "variadic_param = " + f.VarParam + nl())
		}
		if !st.ItemNL {
			sb.WriteString(ind() + "result = " + PrintAttrExpr(f.Body, s) + nl())
		}
		sb.WriteString("}")
		if i < len(fs)-1 {
			sb.WriteString(nl())
		}
	}
	// the end of the file: a line end by default
	switch st.Text.Final {
	case 1:
	case 2:
		sb.WriteString(tp.lineEnd(true) + tp.blanks(3, 4) + tp.eol() + tp.eol())
	case 3:
		sb.WriteString(tp.blanks(3, 4))
	default:
		sb.WriteString(tp.eol())
	}
	src := sb.String()
	if st.Text.BOM {
		src = utf8BOM + src
	}
	return src
}

var _ = utf8.RuneLen

package cfggen

import (
	"fmt"
	"strings"
	"unicode/utf8"

	"pgregory.net/rapid"
)

// JSON-syntax renderer, written from json/spec.md:
//   - a body is a JSON object or an array of objects, properties visited in order;
//   - an attribute is the property of that name, its value an expression:
//     object -> object, array -> tuple, number, bool, null; a string is a literal
//     in literal-only mode and a *template* in full expression mode;
//   - a block type is a property whose value nests one object (or array of
//     objects) level per label and then an object or array of objects for the
//     bodies; property names may repeat, order is preserved;
//   - "//" properties of body objects are comments.
//
// Template: strings are spelled for full expression mode (a non-nil EvalContext).

type JSON struct {
	T        *rapid.T
	Noise    bool
	Template bool
	Stats    map[string]int
	// Sparse (optional, for very large bodies): with Sparse > 1 only every
	// Sparse-th layout decision is drawn, all others take the plain layout.
	Sparse int
	sites  int
}

func (j *JSON) bump(k string) {
	if j.Stats != nil {
		j.Stats[k]++
	}
}

func (j *JSON) pick(label string, k int) int {
	if !j.Noise || k <= 1 {
		return 0
	}
	if j.Sparse > 1 {
		j.sites++
		if j.sites%j.Sparse != 0 {
			return 0
		}
	}
	return rapid.IntRange(0, k-1).Draw(j.T, label)
}

// jn is an ordered JSON tree that permits repeated property names.
type jn struct {
	kind byte // o a s n b z
	keys []string
	vals []*jn
	s    string
	b    bool
}

func jobj() *jn                   { return &jn{kind: 'o'} }
func jarr(v ...*jn) *jn           { return &jn{kind: 'a', vals: v} }
func jstr(s string) *jn           { return &jn{kind: 's', s: s} }
func (o *jn) put(k string, v *jn) { o.keys = append(o.keys, k); o.vals = append(o.vals, v) }

func (j *JSON) str(s string) *jn {
	if j.Template {
		return jstr(EscapeTemplate(s))
	}
	return jstr(s)
}

func (j *JSON) lit(v Val) *jn {
	switch v.K {
	case "null":
		return &jn{kind: 'z'}
	case "b":
		return &jn{kind: 'b', b: v.B}
	case "n":
		return &jn{kind: 'n', s: v.S}
	case "s":
		return j.str(v.S)
	case "l":
		a := jarr()
		for _, e := range v.L {
			a.vals = append(a.vals, j.lit(e))
		}
		return a
	case "m":
		o := jobj()
		for _, kv := range v.M {
			k := kv.K
			if j.Template {
				k = EscapeTemplate(k)
			}
			o.put(k, j.lit(kv.V))
		}
		return o
	}
	panic("cfggen: bad val " + v.K)
}

func (j *JSON) expr(e RExpr) *jn {
	if e.Lit != nil {
		return j.lit(*e.Lit)
	}
	var b strings.Builder
	b.WriteString(e.Ref)
	for _, p := range e.Path {
		if validIdent(p) && j.pick("refstyle", 3) != 2 {
			b.WriteString("." + p)
		} else {
			b.WriteString("[" + QuoteNative(p) + "]")
		}
	}
	return jstr("${" + b.String() + "}")
}

// seq item: a static block or a dynamic block of one ordering class
type jitem struct {
	blk *RBlock
	dyn *RDyn
}

// Body renders a body.  free: the body is read in "dynamic attributes" mode
// (JustAttributes), where only a single object is allowed.
func (j *JSON) Body(b RBody, free bool) *jn { return j.body(b, free, false) }

// body: root = the file's root body, the only place where this renderer writes a
// body as an array of objects (for a block, an array already means "several
// blocks", json/spec.md "Blocks").
func (j *JSON) body(b RBody, free, root bool) *jn {
	type prop struct {
		k string
		v *jn
	}
	var props []prop
	consumed := make([]bool, len(b.Items))
	for i, it := range b.Items {
		if consumed[i] {
			continue
		}
		if it.Attr != nil {
			props = append(props, prop{it.Attr.Name, j.expr(it.Attr.E)})
			continue
		}
		// a run: this item and following items of the same class and the same
		// property name (static type / "dynamic"), not crossing an item of the
		// same class with the other property name
		cls := it.class()
		isDyn := it.Dyn != nil
		run := []int{i}
		for k := i + 1; k < len(b.Items); k++ {
			o := b.Items[k]
			if o.class() != cls || consumed[k] {
				continue
			}
			if (o.Dyn != nil) != isDyn {
				break
			}
			if j.pick("extend-run", 3) == 2 {
				break
			}
			run = append(run, k)
		}
		for _, k := range run {
			consumed[k] = true
		}
		if isDyn {
			var dyns []*RDyn
			for _, k := range run {
				dyns = append(dyns, b.Items[k].Dyn)
			}
			props = append(props, prop{"dynamic", j.dynValue(dyns)})
		} else {
			var blks []*RBlock
			for _, k := range run {
				blks = append(blks, b.Items[k].Block)
			}
			props = append(props, prop{cls, j.blockValue(blks, 0)})
		}
	}
	mk := func(ps []prop) *jn {
		o := jobj()
		for _, p := range ps {
			if !free && j.pick("slashslash", 8) == 1 {
				j.bump("json://-comment")
				o.put("//", jstr("a ${comment} property"))
			}
			o.put(p.k, p.v)
		}
		return o
	}
	if root && !free && len(props) > 0 && j.pick("body-array", 5) == 1 {
		// the body as an array of objects
		j.bump("json:body-as-array")
		a := jarr()
		for s := 0; s < len(props); {
			n := 1 + j.pick("chunk", len(props)-s)
			a.vals = append(a.vals, mk(props[s:s+n]))
			s += n
		}
		if j.pick("empty-chunk", 4) == 1 {
			a.vals = append(a.vals, jobj())
		}
		return a
	}
	return mk(props)
}

// blockValue renders the value for a run of blocks of one type at label depth d.
func (j *JSON) blockValue(bl []*RBlock, d int) *jn {
	nl := len(bl[0].Labels)
	for _, b := range bl {
		if len(b.Labels) != nl {
			// (only in single-fault instances) differing label counts cannot share
			// one nesting structure; fall back to separate leaves under an array
			return j.mixedLabels(bl, d)
		}
	}
	if d >= nl {
		free := bl[0].Free
		if len(bl) == 1 && j.pick("single-array", 3) != 1 {
			return j.Body(bl[0].Body, free)
		}
		if len(bl) > 1 {
			j.bump("json:bodies-array")
		}
		a := jarr()
		for _, b := range bl {
			a.vals = append(a.vals, j.Body(b.Body, free))
		}
		return a
	}
	// cut the run into groups; each group becomes one object whose properties are
	// label values (consecutive equal labels may share a property)
	var groups []*jn
	for s := 0; s < len(bl); {
		n := 1 + j.pick("group", len(bl)-s)
		if !j.Noise {
			n = len(bl) - s
		}
		g := jobj()
		grp := bl[s : s+n]
		for a := 0; a < len(grp); {
			e := a + 1
			for e < len(grp) && grp[e].Labels[d] == grp[a].Labels[d] && j.pick("merge-label", 3) != 2 {
				e++
			}
			if e-a > 1 {
				j.bump("json:shared-label-property")
			}
			g.put(grp[a].Labels[d], j.blockValue(grp[a:e], d+1))
			a = e
		}
		groups = append(groups, g)
		s += n
	}
	if len(groups) == 1 && j.pick("label-array", 3) != 1 {
		return groups[0]
	}
	if len(groups) > 1 {
		j.bump("json:label-objects-array")
	}
	return jarr(groups...)
}

func (j *JSON) mixedLabels(bl []*RBlock, d int) *jn {
	a := jarr()
	for _, b := range bl {
		var v *jn = j.Body(b.Body, false)
		for k := len(b.Labels) - 1; k >= d; k-- {
			o := jobj()
			o.put(b.Labels[k], v)
			v = o
		}
		a.vals = append(a.vals, v)
	}
	return a
}

// dynValue renders the value of a "dynamic" property for a run of dynamic blocks
// of one target type: one label level (the type), then the bodies.
func (j *JSON) dynValue(dyns []*RDyn) *jn {
	bodies := jarr()
	for _, d := range dyns {
		o := jobj()
		type part struct {
			k string
			v *jn
		}
		parts := []part{{"for_each", j.expr(d.ForEach)}}
		if d.Iterator != "" {
			parts = append(parts, part{"iterator", jstr(d.Iterator)})
		}
		if d.HasLabels {
			a := jarr()
			for _, l := range d.Labels {
				a.vals = append(a.vals, j.expr(l))
			}
			parts = append(parts, part{"labels", a})
		}
		content := j.Body(d.Content, d.Free)
		if j.pick("content-array", 4) == 1 {
			content = jarr(content)
		}
		parts = append(parts, part{"content", content})
		if j.Noise {
			parts = rapid.Permutation(parts).Draw(j.T, "dynparts")
		}
		for _, p := range parts {
			o.put(p.k, p.v)
		}
		bodies.vals = append(bodies.vals, o)
	}
	var v *jn = bodies
	if len(dyns) == 1 && j.pick("single-array", 3) != 1 {
		v = bodies.vals[0]
	}
	o := jobj()
	o.put(dyns[0].Type, v)
	if j.pick("label-array", 4) == 1 {
		return jarr(o)
	}
	return o
}

// ---------------------------------------------------------------- text

func (j *JSON) ws() string {
	switch j.pick("ws", 6) {
	case 1:
		return " "
	case 2:
		return "\n"
	case 3:
		return "\t"
	case 4:
		return "\r\n  "
	}
	return ""
}

func (j *JSON) quote(s string) string {
	var b strings.Builder
	b.WriteByte('"')
	for i := 0; i < len(s); {
		r, w := utf8.DecodeRuneInString(s[i:])
		switch {
		case r == '"':
			b.WriteString(`\"`)
		case r == '\\':
			b.WriteString(`\\`)
		case r == '\n':
			b.WriteString(`\n`)
		case r == '\r':
			b.WriteString(`\r`)
		case r == '\t':
			b.WriteString(`\t`)
		case r < 0x20:
			fmt.Fprintf(&b, `\u%04x`, r)
		case r == '/' && j.pick("esc-slash", 4) == 1:
			b.WriteString(`\/`)
		case r < 0x10000 && r != utf8.RuneError && j.pick("esc-unicode", 6) == 1:
			j.bump("json:\\u-escape")
			fmt.Fprintf(&b, `\u%04x`, r)
		default:
			b.WriteString(s[i : i+w])
		}
		i += w
	}
	b.WriteByte('"')
	return b.String()
}

func (j *JSON) Text(n *jn) string {
	var b strings.Builder
	j.write(&b, n)
	return b.String()
}

func (j *JSON) write(b *strings.Builder, n *jn) {
	switch n.kind {
	case 'z':
		b.WriteString("null")
	case 'b':
		if n.b {
			b.WriteString("true")
		} else {
			b.WriteString("false")
		}
	case 'n':
		b.WriteString(n.s)
	case 's':
		b.WriteString(j.quote(n.s))
	case 'a':
		b.WriteString("[" + j.ws())
		for i, v := range n.vals {
			if i > 0 {
				b.WriteString(j.ws() + "," + j.ws())
			}
			j.write(b, v)
		}
		b.WriteString(j.ws() + "]")
	case 'o':
		b.WriteString("{" + j.ws())
		for i, v := range n.vals {
			if i > 0 {
				b.WriteString(j.ws() + "," + j.ws())
			}
			b.WriteString(j.quote(n.keys[i]) + j.ws() + ":" + j.ws())
			j.write(b, v)
		}
		b.WriteString(j.ws() + "}")
	}
}

// File renders a whole file body.
func (j *JSON) File(b RBody) string {
	return j.ws() + j.Text(j.body(b, false, true)) + j.ws()
}

// Package cfggen holds the generators shared by the C19 and C20 checks:
// schemas (hcldec specs / gohcl struct types), conforming and single-fault
// configuration instances, and renderers for the native syntax, the JSON syntax,
// k-way splits and `dynamic` block rewrites.
//
// Everything here is plain data + pure functions; all randomness comes in through
// rapid draws made by the Gen* functions.
package cfggen

import (
	"fmt"
	"math"
	"math/big"
	"sort"
	"strconv"
	"strings"

	"Havoc/pkg/profile/yaotl/hcldec"

	"github.com/zclconf/go-cty/cty"
)

// ---------------------------------------------------------------- schema

// Type is a type constraint of an attribute.
// K: string number bool any list set map object tuple.
type Type struct {
	K    string  `json:"k"`
	E    *Type   `json:"e,omitempty"`    // element type of list/set/map
	F    []Field `json:"f,omitempty"`    // object attributes / tuple elements (N empty)
	Int  bool    `json:"int,omitempty"`  // number: only int64 integers are generated (Go side: int64)
	Uint bool    `json:"uint,omitempty"` // number: only uint64 integers are generated (Go side: uint64); neither: any number (Go side: float64)
}

type Field struct {
	N string `json:"n,omitempty"`
	T Type   `json:"t"`
}

type AttrS struct {
	Name string `json:"name"`
	T    Type   `json:"t"`
	Req  bool   `json:"req,omitempty"`
	Ptr  bool   `json:"ptr,omitempty"` // Go side of an optional attribute: *T (nil when absent) instead of T `optional`
}

// BlockS describes one nested block type.
// Kind: single list set map tuple objmap attrs
//
//	single/list/set/tuple : hcldec Block*Spec, labels (0-2) through BlockLabelSpec in the nested spec
//	map/objmap            : BlockMapSpec/BlockObjectSpec with 1-2 LabelNames
//	attrs                 : BlockAttrsSpec (free-form attributes of one element type), no labels
type BlockS struct {
	Name    string `json:"name"`
	Kind    string `json:"kind"`
	NLabels int    `json:"nlabels,omitempty"`
	Req     bool   `json:"req,omitempty"` // single/attrs
	Min     int    `json:"min,omitempty"` // list/set/tuple
	Max     int    `json:"max,omitempty"`
	Ptr     bool   `json:"ptr,omitempty"` // Go side: []*T instead of []T
	Body    *BodyS `json:"body,omitempty"`
	Elem    *Type  `json:"elem,omitempty"` // attrs kind
}

type BodyS struct {
	Attrs  []AttrS  `json:"attrs,omitempty"`
	Blocks []BlockS `json:"blocks,omitempty"`
}

func (b *BodyS) Attr(name string) *AttrS {
	for i := range b.Attrs {
		if b.Attrs[i].Name == name {
			return &b.Attrs[i]
		}
	}
	return nil
}

func (b *BodyS) Block(name string) *BlockS {
	for i := range b.Blocks {
		if b.Blocks[i].Name == name {
			return &b.Blocks[i]
		}
	}
	return nil
}

// LabelKey is the object key under which label i of a single/list/set/tuple block
// is returned by the spec-driven decoder.
func LabelKey(i int) string { return fmt.Sprintf("lbl_%d", i) }

// ---------------------------------------------------------------- instance

// Val is a literal value. K: null s n b l m   (n: S holds the decimal text).
type Val struct {
	K string `json:"k"`
	S string `json:"s,omitempty"`
	B bool   `json:"b,omitempty"`
	L []Val  `json:"l,omitempty"`
	M []KV   `json:"m,omitempty"`
}

type KV struct {
	K string `json:"k"`
	V Val    `json:"v"`
}

func Null() Val            { return Val{K: "null"} }
func Str(s string) Val     { return Val{K: "s", S: s} }
func Num(s string) Val     { return Val{K: "n", S: s} }
func Bool(b bool) Val      { return Val{K: "b", B: b} }
func List(l ...Val) Val    { return Val{K: "l", L: l} }
func Obj(m ...KV) Val      { return Val{K: "m", M: m} }
func (v Val) IsNull() bool { return v.K == "null" }

func (v Val) Get(k string) (Val, bool) {
	for _, kv := range v.M {
		if kv.K == k {
			return kv.V, true
		}
	}
	return Val{}, false
}

func (v Val) Equal(o Val) bool {
	if v.K != o.K || v.S != o.S || v.B != o.B || len(v.L) != len(o.L) || len(v.M) != len(o.M) {
		return false
	}
	for i := range v.L {
		if !v.L[i].Equal(o.L[i]) {
			return false
		}
	}
	for i := range v.M {
		if v.M[i].K != o.M[i].K || !v.M[i].V.Equal(o.M[i].V) {
			return false
		}
	}
	return true
}

type AttrI struct {
	Name string `json:"name"`
	V    Val    `json:"v"`
}

type BlockI struct {
	Type   string   `json:"type"`
	Labels []string `json:"labels,omitempty"`
	Body   BodyI    `json:"body"`
}

type BodyI struct {
	Attrs  []AttrI  `json:"attrs,omitempty"`
	Blocks []BlockI `json:"blocks,omitempty"`
}

func (b *BodyI) Attr(name string) *AttrI {
	for i := range b.Attrs {
		if b.Attrs[i].Name == name {
			return &b.Attrs[i]
		}
	}
	return nil
}

func (b *BodyI) BlocksOf(t string) []*BlockI {
	var out []*BlockI
	for i := range b.Blocks {
		if b.Blocks[i].Type == t {
			out = append(out, &b.Blocks[i])
		}
	}
	return out
}

// ---------------------------------------------------------------- cty side

// CtyType is the cty type constraint for a schema type.
func CtyType(t Type) cty.Type {
	switch t.K {
	case "string":
		return cty.String
	case "number":
		return cty.Number
	case "bool":
		return cty.Bool
	case "any":
		return cty.DynamicPseudoType
	case "list":
		return cty.List(CtyType(*t.E))
	case "set":
		return cty.Set(CtyType(*t.E))
	case "map":
		return cty.Map(CtyType(*t.E))
	case "object":
		m := map[string]cty.Type{}
		for _, f := range t.F {
			m[f.N] = CtyType(f.T)
		}
		return cty.Object(m)
	case "tuple":
		var l []cty.Type
		for _, f := range t.F {
			l = append(l, CtyType(f.T))
		}
		return cty.Tuple(l)
	}
	panic("cfggen: bad type " + t.K)
}

// Natural is the value a literal has before any conversion: tuples and objects.
func Natural(v Val) cty.Value {
	switch v.K {
	case "null":
		return cty.NullVal(cty.DynamicPseudoType)
	case "s":
		return cty.StringVal(v.S)
	case "n":
		return NumberOf(v.S)
	case "b":
		return cty.BoolVal(v.B)
	case "l":
		if len(v.L) == 0 {
			return cty.EmptyTupleVal
		}
		l := make([]cty.Value, len(v.L))
		for i, e := range v.L {
			l[i] = Natural(e)
		}
		return cty.TupleVal(l)
	case "m":
		if len(v.M) == 0 {
			return cty.EmptyObjectVal
		}
		m := map[string]cty.Value{}
		for _, kv := range v.M {
			m[kv.K] = Natural(kv.V)
		}
		return cty.ObjectVal(m)
	}
	panic("cfggen: bad val " + v.K)
}

// Typed builds the value of type t that the literal v denotes (v generated for t).
func Typed(v Val, t Type) cty.Value {
	if v.K == "null" {
		return cty.NullVal(CtyType(t))
	}
	switch t.K {
	case "string", "number", "bool", "any":
		return Natural(v)
	case "list":
		if len(v.L) == 0 {
			return cty.ListValEmpty(CtyType(*t.E))
		}
		l := make([]cty.Value, len(v.L))
		for i, e := range v.L {
			l[i] = Typed(e, *t.E)
		}
		return cty.ListVal(l)
	case "set":
		if len(v.L) == 0 {
			return cty.SetValEmpty(CtyType(*t.E))
		}
		l := make([]cty.Value, len(v.L))
		for i, e := range v.L {
			l[i] = Typed(e, *t.E)
		}
		return cty.SetVal(l)
	case "map":
		if len(v.M) == 0 {
			return cty.MapValEmpty(CtyType(*t.E))
		}
		m := map[string]cty.Value{}
		for _, kv := range v.M {
			m[kv.K] = Typed(kv.V, *t.E)
		}
		return cty.MapVal(m)
	case "object":
		m := map[string]cty.Value{}
		for _, f := range t.F {
			fv, _ := v.Get(f.N)
			m[f.N] = Typed(fv, f.T)
		}
		if len(m) == 0 {
			return cty.EmptyObjectVal
		}
		return cty.ObjectVal(m)
	case "tuple":
		if len(t.F) == 0 {
			return cty.EmptyTupleVal
		}
		l := make([]cty.Value, len(t.F))
		for i, f := range t.F {
			l[i] = Typed(v.L[i], f.T)
		}
		return cty.TupleVal(l)
	}
	panic("cfggen: bad type " + t.K)
}

// ---------------------------------------------------------------- hcldec spec

func labelNames(n int) []string {
	var out []string
	for i := 0; i < n; i++ {
		out = append(out, fmt.Sprintf("label%d", i))
	}
	return out
}

// Spec builds the hcldec specification for a body schema; nlabels>0 adds
// BlockLabelSpecs (for single/list/set/tuple blocks).
func Spec(b *BodyS, nlabels int) hcldec.Spec {
	o := hcldec.ObjectSpec{}
	for i := 0; i < nlabels; i++ {
		o[LabelKey(i)] = &hcldec.BlockLabelSpec{Index: i, Name: fmt.Sprintf("label%d", i)}
	}
	for _, a := range b.Attrs {
		o[a.Name] = &hcldec.AttrSpec{Name: a.Name, Type: CtyType(a.T), Required: a.Req}
	}
	for i := range b.Blocks {
		bs := &b.Blocks[i]
		switch bs.Kind {
		case "single":
			o[bs.Name] = &hcldec.BlockSpec{TypeName: bs.Name, Nested: Spec(bs.Body, bs.NLabels), Required: bs.Req}
		case "list":
			o[bs.Name] = &hcldec.BlockListSpec{TypeName: bs.Name, Nested: Spec(bs.Body, bs.NLabels), MinItems: bs.Min, MaxItems: bs.Max}
		case "set":
			o[bs.Name] = &hcldec.BlockSetSpec{TypeName: bs.Name, Nested: Spec(bs.Body, bs.NLabels), MinItems: bs.Min, MaxItems: bs.Max}
		case "tuple":
			o[bs.Name] = &hcldec.BlockTupleSpec{TypeName: bs.Name, Nested: Spec(bs.Body, bs.NLabels), MinItems: bs.Min, MaxItems: bs.Max}
		case "map":
			o[bs.Name] = &hcldec.BlockMapSpec{TypeName: bs.Name, LabelNames: labelNames(bs.NLabels), Nested: Spec(bs.Body, 0)}
		case "objmap":
			o[bs.Name] = &hcldec.BlockObjectSpec{TypeName: bs.Name, LabelNames: labelNames(bs.NLabels), Nested: Spec(bs.Body, 0)}
		case "attrs":
			o[bs.Name] = &hcldec.BlockAttrsSpec{TypeName: bs.Name, ElementType: CtyType(*bs.Elem), Required: bs.Req}
		default:
			panic("cfggen: bad block kind " + bs.Kind)
		}
	}
	return o
}

// impliedType mirrors what hcldec documents as the implied type of each spec
// (needed for null / empty results).
func impliedType(b *BodyS, nlabels int) cty.Type {
	m := map[string]cty.Type{}
	for i := 0; i < nlabels; i++ {
		m[LabelKey(i)] = cty.String
	}
	for _, a := range b.Attrs {
		m[a.Name] = CtyType(a.T)
	}
	for i := range b.Blocks {
		m[b.Blocks[i].Name] = blockImpliedType(&b.Blocks[i])
	}
	if len(m) == 0 {
		return cty.EmptyObject
	}
	return cty.Object(m)
}

func blockImpliedType(bs *BlockS) cty.Type {
	switch bs.Kind {
	case "single":
		return impliedType(bs.Body, bs.NLabels)
	case "list":
		return cty.List(impliedType(bs.Body, bs.NLabels))
	case "set":
		return cty.Set(impliedType(bs.Body, bs.NLabels))
	case "tuple", "objmap":
		return cty.DynamicPseudoType
	case "map":
		t := impliedType(bs.Body, 0)
		for i := 0; i < bs.NLabels; i++ {
			t = cty.Map(t)
		}
		return t
	case "attrs":
		return cty.Map(CtyType(*bs.Elem))
	}
	panic("cfggen: bad block kind " + bs.Kind)
}

// Expected is the value hcldec.Decode is documented to return for a conforming
// instance: one object attribute per spec key.
func Expected(s *BodyS, in *BodyI, labels []string) cty.Value {
	m := map[string]cty.Value{}
	for i, l := range labels {
		m[LabelKey(i)] = cty.StringVal(l)
	}
	for _, a := range s.Attrs {
		ai := in.Attr(a.Name)
		if ai == nil {
			m[a.Name] = cty.NullVal(CtyType(a.T))
		} else {
			m[a.Name] = Typed(ai.V, a.T)
		}
	}
	for i := range s.Blocks {
		bs := &s.Blocks[i]
		m[bs.Name] = expectedBlocks(bs, in.BlocksOf(bs.Name))
	}
	if len(m) == 0 {
		return cty.EmptyObjectVal
	}
	return cty.ObjectVal(m)
}

func expectedBlocks(bs *BlockS, bl []*BlockI) cty.Value {
	switch bs.Kind {
	case "single":
		if len(bl) == 0 {
			return cty.NullVal(impliedType(bs.Body, bs.NLabels))
		}
		return Expected(bs.Body, &bl[0].Body, bl[0].Labels)
	case "list", "set", "tuple":
		var elems []cty.Value
		for _, b := range bl {
			elems = append(elems, Expected(bs.Body, &b.Body, b.Labels))
		}
		ety := impliedType(bs.Body, bs.NLabels)
		switch bs.Kind {
		case "list":
			if len(elems) == 0 {
				return cty.ListValEmpty(ety)
			}
			return cty.ListVal(elems)
		case "set":
			if len(elems) == 0 {
				return cty.SetValEmpty(ety)
			}
			return cty.SetVal(elems)
		default:
			if len(elems) == 0 {
				return cty.EmptyTupleVal
			}
			return cty.TupleVal(elems)
		}
	case "map", "objmap":
		if len(bl) == 0 {
			if bs.Kind == "map" {
				// the decoder returns an empty map of the *nested* type whatever the
				// number of label levels; emptiness is what is asserted (see EqualValue)
				return cty.MapValEmpty(impliedType(bs.Body, 0))
			}
			return cty.EmptyObjectVal
		}
		type node struct {
			leaf cty.Value
			kids map[string]*node
		}
		root := &node{kids: map[string]*node{}}
		for _, b := range bl {
			cur := root
			for d := 0; d < bs.NLabels; d++ {
				nx := cur.kids[b.Labels[d]]
				if nx == nil {
					nx = &node{kids: map[string]*node{}}
					cur.kids[b.Labels[d]] = nx
				}
				cur = nx
			}
			cur.leaf = Expected(bs.Body, &b.Body, nil)
		}
		var build func(n *node, depth int) cty.Value
		build = func(n *node, depth int) cty.Value {
			if depth == 0 {
				return n.leaf
			}
			vals := map[string]cty.Value{}
			for k, c := range n.kids {
				vals[k] = build(c, depth-1)
			}
			if bs.Kind == "map" {
				return cty.MapVal(vals)
			}
			return cty.ObjectVal(vals)
		}
		return build(root, bs.NLabels)
	case "attrs":
		if len(bl) == 0 {
			return cty.NullVal(cty.Map(CtyType(*bs.Elem)))
		}
		if len(bl[0].Body.Attrs) == 0 {
			return cty.MapValEmpty(CtyType(*bs.Elem))
		}
		vals := map[string]cty.Value{}
		for _, a := range bl[0].Body.Attrs {
			vals[a.Name] = Typed(a.V, *bs.Elem)
		}
		return cty.MapVal(vals)
	}
	panic("cfggen: bad block kind " + bs.Kind)
}

// EqualValue is RawEquals, except that two empty collections of the same kind
// are equal whatever their element type (the decoder's element type for an empty
// multi-level block map is not pinned down by its documentation).
func EqualValue(a, b cty.Value) bool {
	if a.RawEquals(b) {
		return true
	}
	if a.IsNull() || b.IsNull() || !a.IsKnown() || !b.IsKnown() {
		return false
	}
	at, bt := a.Type(), b.Type()
	switch {
	case at.IsObjectType() && bt.IsObjectType():
		am, bm := a.AsValueMap(), b.AsValueMap()
		if len(am) != len(bm) {
			return false
		}
		for k, av := range am {
			bv, ok := bm[k]
			if !ok || !EqualValue(av, bv) {
				return false
			}
		}
		return true
	case at.IsTupleType() && bt.IsTupleType():
		as, bs := a.AsValueSlice(), b.AsValueSlice()
		if len(as) != len(bs) {
			return false
		}
		for i := range as {
			if !EqualValue(as[i], bs[i]) {
				return false
			}
		}
		return true
	case at.IsMapType() && bt.IsMapType():
		if a.LengthInt() != b.LengthInt() {
			return false
		}
		bm := b.AsValueMap()
		for k, av := range a.AsValueMap() {
			bv, ok := bm[k]
			if !ok || !EqualValue(av, bv) {
				return false
			}
		}
		return true
	case at.IsListType() && bt.IsListType():
		if a.LengthInt() != b.LengthInt() {
			return false
		}
		as, bs := a.AsValueSlice(), b.AsValueSlice()
		for i := range as {
			if !EqualValue(as[i], bs[i]) {
				return false
			}
		}
		return true
	case at.IsSetType() && bt.IsSetType():
		if a.LengthInt() != b.LengthInt() {
			return false
		}
		bs := b.AsValueSlice()
		used := make([]bool, len(bs))
	outer:
		for _, av := range a.AsValueSlice() {
			for j, bv := range bs {
				if !used[j] && EqualValue(av, bv) {
					used[j] = true
					continue outer
				}
			}
			return false
		}
		return true
	}
	return false
}

// SortedKeys returns the keys of an object literal in cty's iteration order.
func SortedKeys(m []KV) []string {
	ks := make([]string, len(m))
	for i, kv := range m {
		ks[i] = kv.K
	}
	sort.Strings(ks)
	return ks
}

// NumberOf builds the number a literal text denotes: decimal text, "a/b" for the
// quotient of two integers at cty's precision (a value with no short decimal
// spelling), or "f64:<text>" for a number made from a Go float64 (only texts whose
// float64 is exactly the decimal value are used).  The last two forms are only
// used where values are handed over as cty values, never rendered by this
// package's own renderers.
func NumberOf(s string) cty.Value {
	if strings.HasPrefix(s, "f64:") {
		// a number that comes from a Go float64 (53-bit mantissa), as gocty produces
		f, err := strconv.ParseFloat(s[4:], 64)
		if err != nil {
			panic("cfggen: bad float64 literal " + s)
		}
		return cty.NumberFloatVal(f)
	}
	if i := strings.Index(s, "/"); i > 0 {
		return cty.MustParseNumberVal(s[:i]).Divide(cty.MustParseNumberVal(s[i+1:]))
	}
	return cty.MustParseNumberVal(s)
}

var (
	bigMaxInt64  = new(big.Float).SetInt64(math.MaxInt64)
	bigMinInt64  = new(big.Float).SetInt64(math.MinInt64)
	bigMaxUint64 = new(big.Float).SetUint64(math.MaxUint64)
)

// NumClass names the class of a number literal for the label histogram.
func NumClass(s string) string {
	if strings.HasPrefix(s, "f64:") {
		return "float64-precision-" + NumClass(s[4:])
	}
	if s == "-0" {
		return "negative-zero"
	}
	bf := NumberOf(s).AsBigFloat()
	abs := new(big.Float).Abs(bf)
	switch {
	case !bf.IsInt():
		if strings.Contains(s, "/") {
			return "fraction-without-finite-decimal"
		}
		if abs.Cmp(big.NewFloat(1e-3)) < 0 {
			return "tiny-fraction"
		}
		return "fraction"
	case bf.Cmp(bigMaxInt64) == 0 || bf.Cmp(bigMinInt64) == 0:
		return "int64-boundary"
	case new(big.Float).Sub(bigMaxInt64, bf).Cmp(big.NewFloat(1)) == 0 || new(big.Float).Sub(bf, bigMinInt64).Cmp(big.NewFloat(1)) == 0:
		return "int64-boundary-inside"
	case bf.Cmp(bigMaxInt64) > 0 && bf.Cmp(bigMaxUint64) <= 0:
		return "uint64-above-int64"
	case bf.Cmp(bigMaxUint64) > 0 && abs.Cmp(big.NewFloat(1e40)) > 0:
		return "huge-whole"
	case bf.Cmp(bigMaxUint64) > 0:
		return "whole-above-uint64"
	case bf.Cmp(bigMinInt64) < 0:
		return "whole-below-int64"
	}
	return "int64-range"
}

// NumClasses collects "num:<class>" (and "num-nested:<class>" for numbers inside
// lists/objects) for every number leaf of v.
func NumClasses(v Val, nested bool, out map[string]bool) {
	switch v.K {
	case "n":
		if nested {
			out["num-nested:"+NumClass(v.S)] = true
		} else {
			out["num:"+NumClass(v.S)] = true
		}
	case "l":
		for _, e := range v.L {
			NumClasses(e, true, out)
		}
	case "m":
		for _, kv := range v.M {
			NumClasses(kv.V, true, out)
		}
	}
}

// ShortestDecimalQuirk reports whether v holds a float64-precision number for
// which math/big's shortest decimal formatting does not read back as the same
// float64 (a property of the Go library: some exact powers of two, e.g. 2^64).
func ShortestDecimalQuirk(v Val) bool {
	switch v.K {
	case "n":
		if strings.HasPrefix(v.S, "f64:") {
			f, _ := strconv.ParseFloat(v.S[4:], 64)
			return Float64Quirk(f)
		}
	case "l":
		for _, e := range v.L {
			if ShortestDecimalQuirk(e) {
				return true
			}
		}
	case "m":
		for _, kv := range v.M {
			if ShortestDecimalQuirk(kv.V) {
				return true
			}
		}
	}
	return false
}

func Float64Quirk(f float64) bool {
	back, err := strconv.ParseFloat(big.NewFloat(f).Text('f', -1), 64)
	return err != nil || back != f
}

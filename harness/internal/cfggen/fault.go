package cfggen

import (
	"pgregory.net/rapid"
)

// A fault turns a conforming instance into one that at least one decoder must
// reject, by a single local change.  The property only says that all equivalent
// renderings agree on validity, so the exact diagnostics do not matter.

type faultSite struct {
	kind  string
	apply func()
}

func deepCopyBody(b BodyI) BodyI {
	var o BodyI
	o.Attrs = append([]AttrI(nil), b.Attrs...)
	for _, bl := range b.Blocks {
		o.Blocks = append(o.Blocks, BlockI{Type: bl.Type, Labels: append([]string(nil), bl.Labels...), Body: deepCopyBody(bl.Body)})
	}
	return o
}

func badValueFor(t Type) (Val, bool) {
	switch t.K {
	case "number", "bool":
		return Str("abc"), true
	case "string":
		return List(Num("1")), true
	case "list", "set", "tuple":
		return Str("abc"), true
	case "map", "object":
		return Str("abc"), true
	}
	return Val{}, false
}

func collectFaults(s *BodyS, in *BodyI, free bool, out *[]faultSite) {
	if free {
		return
	}
	// attributes
	for i := range in.Attrs {
		i := i
		a := s.Attr(in.Attrs[i].Name)
		if a == nil {
			continue
		}
		if a.Req {
			*out = append(*out, faultSite{"missing-required-attr", func() {
				in.Attrs = append(in.Attrs[:i:i], in.Attrs[i+1:]...)
			}})
		}
		if bad, ok := badValueFor(a.T); ok && !in.Attrs[i].V.IsNull() {
			*out = append(*out, faultSite{"wrong-type", func() { in.Attrs[i].V = bad }})
		}
		*out = append(*out, faultSite{"dup-attr", func() {
			in.Attrs = append(in.Attrs, in.Attrs[i])
		}})
	}
	*out = append(*out, faultSite{"unknown-attr", func() {
		in.Attrs = append(in.Attrs, AttrI{Name: "zz_unknown_attr", V: Num("1")})
	}})
	*out = append(*out, faultSite{"unknown-block", func() {
		in.Blocks = append(in.Blocks, BlockI{Type: "zz_unknown_block"})
	}})
	// blocks
	for bi := range s.Blocks {
		bs := &s.Blocks[bi]
		idx := []int{}
		for j := range in.Blocks {
			if in.Blocks[j].Type == bs.Name {
				idx = append(idx, j)
			}
		}
		removeAt := func(j int) { in.Blocks = append(in.Blocks[:j:j], in.Blocks[j+1:]...) }
		dupAt := func(j int) {
			cp := BlockI{Type: in.Blocks[j].Type, Labels: append([]string(nil), in.Blocks[j].Labels...), Body: deepCopyBody(in.Blocks[j].Body)}
			nb := append([]BlockI{}, in.Blocks[:j+1]...)
			nb = append(nb, cp)
			nb = append(nb, in.Blocks[j+1:]...)
			in.Blocks = nb
		}
		switch bs.Kind {
		case "single", "attrs":
			if len(idx) == 1 {
				j := idx[0]
				*out = append(*out, faultSite{"dup-single", func() { dupAt(j) }})
				if bs.Req {
					*out = append(*out, faultSite{"missing-required-block", func() { removeAt(j) }})
				}
			}
		case "list", "set", "tuple":
			if bs.Min > 0 && len(idx) == bs.Min {
				j := idx[0]
				*out = append(*out, faultSite{"too-few-blocks", func() { removeAt(j) }})
			}
			if bs.Max > 0 && len(idx) == bs.Max {
				j := idx[len(idx)-1]
				*out = append(*out, faultSite{"too-many-blocks", func() { dupAt(j) }})
			}
		case "map", "objmap":
			if len(idx) > 0 {
				j := idx[0]
				*out = append(*out, faultSite{"dup-map-labels", func() { dupAt(j) }})
			}
		}
		if bs.Kind != "attrs" {
			for _, j := range idx {
				j := j
				*out = append(*out, faultSite{"extra-label", func() {
					in.Blocks[j].Labels = append(in.Blocks[j].Labels, "Lextra")
				}})
				if len(in.Blocks[j].Labels) > 0 {
					*out = append(*out, faultSite{"missing-label", func() {
						in.Blocks[j].Labels = in.Blocks[j].Labels[:len(in.Blocks[j].Labels)-1]
					}})
				}
			}
		}
		if bs.Kind != "attrs" {
			for _, j := range idx {
				collectFaults(bs.Body, &in.Blocks[j].Body, false, out)
			}
		}
	}
}

// InjectFault returns a copy of the instance with exactly one fault, and its kind.
func InjectFault(t *rapid.T, s *BodyS, in BodyI) (BodyI, string) {
	cp := deepCopyBody(in)
	var sites []faultSite
	collectFaults(s, &cp, false, &sites)
	// the sites hold closures over cp; applying one invalidates indices used by the
	// others, so exactly one is applied
	k := rapid.IntRange(0, len(sites)-1).Draw(t, "faultsite")
	// prefer variety over the ubiquitous unknown-attr/unknown-block sites
	kinds := map[string][]int{}
	var order []string
	for i, st := range sites {
		if _, ok := kinds[st.kind]; !ok {
			order = append(order, st.kind)
		}
		kinds[st.kind] = append(kinds[st.kind], i)
	}
	kind := order[k%len(order)]
	cands := kinds[kind]
	site := sites[cands[(k/len(order))%len(cands)]]
	site.apply()
	return cp, site.kind
}

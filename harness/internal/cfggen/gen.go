package cfggen

import (
	"fmt"
	"strconv"
	"strings"

	"pgregory.net/rapid"
)

// ---------------------------------------------------------------- names

type namer struct{ n int }

var attrBases = []string{"name", "port", "max-len", "opt_x", "é", "k8s", "_u", "Host"}
var blockBases = []string{"rule", "listener", "sub-net", "grp_", "ü", "Svc"}

func (nm *namer) next(t *rapid.T, bases []string) string {
	nm.n++
	return rapid.SampledFrom(bases).Draw(t, "namebase") + strconv.Itoa(nm.n)
}

// Labels are arbitrary strings, so they are drawn from representation classes
// rather than from identifiers: what a label looks like must not matter to any
// syntax.  (The single-fault generator's extra label "Lextra" is the only label
// that relies on not being a schema name.)
type textClass struct {
	name string
	vals []string
}

var labelClasses = []textClass{
	{"plain", []string{"L", "La", "Lb", "L_1", "L-d"}},
	{"starts-with-slashes", []string{"//fileserver/public", "// note", "//2", "///"}},
	{"equals-slashes", []string{"//"}},
	{"starts-with-hash", []string{"#tag", "# x"}},
	{"starts-with-block-comment", []string{"/*c*/", "/* open"}},
	{"quote", []string{"L\"q", "\"", "'s"}},
	{"backslash", []string{"L\\b", "\\", "\\n", "C:\\dir\\"}},
	{"newline", []string{"two\nlines", "\n", "ends\n"}},
	{"tab", []string{"a\tb", "\t"}},
	{"interpolation", []string{"${x}", "a${", "$${y}", "$"}},
	{"directive", []string{"%{if}", "100%{", "%"}},
	{"dot", []string{"L.e", "a.b.c", ".", "x.0"}},
	{"bracket", []string{"a[0]", "[", "{}", "}", "(x)"}},
	{"space", []string{"L c", " lead", "trail ", " "}},
	{"empty", []string{""}},
	{"long", []string{strings.Repeat("long-label-", 40)}},
	// (all NFC: cty normalises every string value to NFC, so a label computed by a
	// dynamic block comes out normalised while a static label is kept as written)
	{"non-ascii", []string{"Lé", "日本語", "ü", "✓", "Ünï-Ködé"}},
	{"json-word", []string{"null", "true", "false", "dynamic", "content", "for_each", "labels"}},
	{"numeric", []string{"0", "42", "-1", "1e3", "0.5", "007", "0x1f"}},
	{"case-variant", []string{"web", "Web", "WEB", "wEB"}},
	{"separator", []string{",", ":", "=", "a=b", "k:v"}},
}

// LabelPool returns every pool label (for the printers' self-test).
func LabelPool() []string {
	var out []string
	for _, c := range labelClasses {
		out = append(out, c.vals...)
	}
	return out
}

// KeyPool returns every pool map key.
func KeyPool() []string { return append([]string{}, keyPool...) }

// genLabel draws a label; names are the schema names in scope (a label may equal
// an attribute name or a block type name).
func genLabel(t *rapid.T, names []string) string {
	c := rapid.IntRange(0, len(labelClasses)+3).Draw(t, "labelclass")
	switch {
	case c < len(labelClasses):
		return rapid.SampledFrom(labelClasses[c].vals).Draw(t, "label")
	case c == len(labelClasses) && len(names) > 0:
		return rapid.SampledFrom(names).Draw(t, "label-schema-name")
	}
	return rapid.SampledFrom(labelClasses[0].vals).Draw(t, "label")
}

var jsonWords = map[string]bool{"null": true, "true": true, "false": true, "dynamic": true, "content": true, "for_each": true, "labels": true, "iterator": true}

// TextClasses names the representation classes a label / key falls into.
func TextClasses(s string) []string {
	var out []string
	add := func(c string) { out = append(out, c) }
	switch {
	case s == "":
		add("empty")
	case s == "//":
		add("equals-slashes")
	case strings.HasPrefix(s, "//"):
		add("starts-with-slashes")
	case strings.HasPrefix(s, "#"):
		add("starts-with-hash")
	case strings.HasPrefix(s, "/*"):
		add("starts-with-block-comment")
	}
	if strings.Contains(s, "\"") {
		add("quote")
	}
	if strings.Contains(s, "\\") {
		add("backslash")
	}
	if strings.Contains(s, "\n") {
		add("newline")
	}
	if strings.Contains(s, "\t") {
		add("tab")
	}
	if strings.Contains(s, "${") {
		add("interpolation")
	}
	if strings.Contains(s, "%{") {
		add("directive")
	}
	if strings.Contains(s, ".") {
		add("dot")
	}
	if strings.ContainsAny(s, "[]{}()") {
		add("bracket")
	}
	if strings.Contains(s, " ") {
		add("space")
	}
	if strings.ContainsAny(s, ",:=") {
		add("separator")
	}
	if len(s) > 100 {
		add("long")
	}
	for _, r := range s {
		if r > 0x7f {
			add("non-ascii")
			break
		}
	}
	if jsonWords[s] {
		add("json-word")
	}
	if _, err := strconv.ParseFloat(s, 64); err == nil {
		add("numeric")
	}
	if strings.EqualFold(s, "web") {
		add("case-variant")
	}
	if len(out) == 0 {
		add("plain")
	}
	return out
}

// ---------------------------------------------------------------- types

var primKinds = []string{"string", "number", "bool"}

func genPrim(t *rapid.T) Type {
	k := rapid.SampledFrom(primKinds).Draw(t, "prim")
	ty := Type{K: k}
	if k == "number" {
		switch rapid.IntRange(0, 3).Draw(t, "numkind") {
		case 0, 1:
			ty.Int = true
		case 2:
			ty.Uint = true
		}
	}
	return ty
}

// genElemType: element types never contain any/tuple (the Go side cannot express them
// as elements) .
func genElemType(t *rapid.T, depth int) Type {
	c := rapid.IntRange(0, 9).Draw(t, "elemkind")
	if depth <= 0 || c < 6 {
		return genPrim(t)
	}
	switch c {
	case 6:
		e := genElemType(t, depth-1)
		return Type{K: "list", E: &e}
	case 7:
		e := genElemType(t, depth-1)
		return Type{K: "map", E: &e}
	case 8:
		e := genPrim(t)
		return Type{K: "set", E: &e}
	default:
		return genObjectType(t, depth-1)
	}
}

func genObjectType(t *rapid.T, depth int) Type {
	n := rapid.IntRange(1, 3).Draw(t, "nfields")
	ty := Type{K: "object"}
	for i := 0; i < n; i++ {
		ty.F = append(ty.F, Field{N: fmt.Sprintf("%s%d", rapid.SampledFrom([]string{"f", "key-", "ö"}).Draw(t, "fname"), i), T: genElemType(t, depth)})
	}
	return ty
}

// genAttrType: allowDyn=false excludes any/tuple (inside list/set/map blocks the
// decoder requires all elements to have one type).
func genAttrType(t *rapid.T, allowDyn bool) Type {
	c := rapid.IntRange(0, 11).Draw(t, "attrkind")
	switch {
	case c < 4:
		return genPrim(t)
	case c == 4 || c == 5:
		e := genElemType(t, 1)
		return Type{K: "list", E: &e}
	case c == 6:
		e := genPrim(t)
		return Type{K: "set", E: &e}
	case c == 7:
		e := genElemType(t, 1)
		return Type{K: "map", E: &e}
	case c == 8:
		return genObjectType(t, 1)
	case c == 9 && allowDyn:
		n := rapid.IntRange(1, 3).Draw(t, "ntuple")
		ty := Type{K: "tuple"}
		for i := 0; i < n; i++ {
			ty.F = append(ty.F, Field{T: genElemType(t, 1)})
		}
		return ty
	case c == 10 && allowDyn:
		return Type{K: "any"}
	}
	return genPrim(t)
}

// ---------------------------------------------------------------- schema

// labelCounts: number of labels of a block type, 0-8 (the first three entries are
// the unlabelled ones; block maps take theirs from the rest).
var labelCounts = []int{0, 0, 0, 1, 1, 2, 2, 3, 4, 4, 5, 6, 7, 8}

var blockKinds = []string{"single", "single", "list", "list", "set", "map", "map", "tuple", "objmap", "attrs"}

// GenSchema draws a body schema with nesting <= depth.
// allowDyn: any/tuple attributes and tuple/objmap blocks permitted here;
// allowMap2: two-level block maps permitted here.
func GenSchema(t *rapid.T, depth int) BodyS {
	nm := &namer{}
	return genBody(t, nm, depth, true, true, "")
}

// GenSchemaPlain draws a schema without any/tuple attributes, tuple/object block
// collections and free-attribute blocks: the subset that the struct encoder
// (gohcl.EncodeIntoBody) documents as supported.
func GenSchemaPlain(t *rapid.T, depth int) BodyS {
	nm := &namer{}
	b := genBody(t, nm, depth, false, true, "")
	var fix func(b *BodyS)
	fix = func(b *BodyS) {
		for i := range b.Blocks {
			bs := &b.Blocks[i]
			if bs.Kind == "attrs" {
				bs.Kind = "single"
				bs.Elem = nil
				bs.Body = &BodyS{Attrs: []AttrS{{Name: bs.Name + "_v", T: Type{K: "string"}, Req: true}}}
			}
			fix(bs.Body)
		}
	}
	fix(&b)
	return b
}

// self: the type name of the block whose body this is; a nested block type may
// carry the same name (a block type nesting inside itself, e.g. group { group {} }).
func genBody(t *rapid.T, nm *namer, depth int, allowDyn bool, top bool, self string) BodyS {
	var b BodyS
	na := rapid.IntRange(0, 4).Draw(t, "nattrs")
	if top && na == 0 {
		na = 1
	}
	for i := 0; i < na; i++ {
		a := AttrS{Name: nm.next(t, attrBases), T: genAttrType(t, allowDyn)}
		a.Req = rapid.IntRange(0, 2).Draw(t, "req") == 0
		if !a.Req {
			switch a.T.K {
			case "string", "number", "bool", "object":
				a.Ptr = rapid.Bool().Draw(t, "ptr")
			}
		}
		b.Attrs = append(b.Attrs, a)
	}
	if depth <= 0 {
		return b
	}
	nb := rapid.IntRange(0, 3).Draw(t, "nblocks")
	if top && nb == 0 {
		nb = 1
	}
	selfNest := self != "" && rapid.IntRange(0, 2).Draw(t, "self-nest") == 2
	if selfNest && nb == 0 {
		nb = 1
	}
	for i := 0; i < nb; i++ {
		bs := BlockS{Name: nm.next(t, blockBases)}
		if selfNest && i == 0 {
			bs.Name = self
		}
		bs.Kind = rapid.SampledFrom(blockKinds).Draw(t, "bkind")
		if !allowDyn && (bs.Kind == "tuple" || bs.Kind == "objmap") {
			bs.Kind = "list"
		}
		switch bs.Kind {
		case "single":
			bs.NLabels = rapid.SampledFrom(labelCounts).Draw(t, "nlabels")
			bs.Req = rapid.IntRange(0, 3).Draw(t, "breq") == 0
		case "list", "set", "tuple":
			bs.NLabels = rapid.SampledFrom(labelCounts).Draw(t, "nlabels")
			bs.Min = rapid.SampledFrom([]int{0, 0, 0, 1, 2}).Draw(t, "min")
			bs.Max = rapid.SampledFrom([]int{0, 0, 3}).Draw(t, "max")
			bs.Ptr = rapid.Bool().Draw(t, "bptr")
		case "map", "objmap":
			bs.NLabels = rapid.SampledFrom(labelCounts[3:]).Draw(t, "nlabels")
			if bs.Kind == "map" && !allowDyn {
				// an empty two-level block map has a different element type from a
				// non-empty one, which the enclosing list/set/map cannot hold
				bs.NLabels = 1
			}
			bs.Ptr = rapid.Bool().Draw(t, "bptr")
		case "attrs":
			e := genPrim(t)
			if rapid.IntRange(0, 3).Draw(t, "attrs-list") == 0 {
				el := genPrim(t)
				e = Type{K: "list", E: &el}
			}
			bs.Elem = &e
			bs.Req = rapid.IntRange(0, 3).Draw(t, "breq") == 0
		}
		if bs.Kind != "attrs" {
			childDyn := allowDyn && (bs.Kind == "single" || bs.Kind == "tuple" || bs.Kind == "objmap")
			body := genBody(t, nm, depth-1, childDyn, false, bs.Name)
			bs.Body = &body
		}
		b.Blocks = append(b.Blocks, bs)
	}
	return b
}

// ---------------------------------------------------------------- values

var strPool = []string{
	"", "a", "hello world", "x\ny\n", "tab\there", "quo\"te", "back\\slash", "${not.interp}", "%{not a directive}",
	"50% off", "cost: $5", "$", "%", "ünï-ködé ✓", "multi\nline\ntext\n", "  padded  ", "#not-a-comment", "/*x*/", "//y",
	"a${", "end$", "{}", "$${lit}", "%%{lit}", "$$${x}", "$$", "%%", "[1,2]", "null", "true", "12", "EOT", "it.value", "\r\n", "\x7f",
}

func genStr(t *rapid.T) string {
	if rapid.IntRange(0, 3).Draw(t, "strsrc") > 0 {
		return rapid.SampledFrom(strPool).Draw(t, "str")
	}
	rs := rapid.SliceOfN(rapid.SampledFrom([]rune{'a', 'B', '0', ' ', '$', '%', '{', '}', '"', '\\', '\n', '\t', 'é', '✓', '#', '/', '*', '=', ',', '~'}), 0, 8).Draw(t, "runes")
	return string(rs)
}

var intPool = []string{"0", "1", "-1", "42", "8080", "65535", "-2147483648", "9007199254740993", "9223372036854775807", "-9223372036854775808", "9223372036854775806", "-9223372036854775807", "100"}
var uintPool = []string{"0", "1", "65535", "4294967296", "9223372036854775807", "9223372036854775808", "9223372036854775809", "18446744073709551614", "18446744073709551615", "12345678901234567890"}

// anyNumPool: unconstrained numbers: fractions, exponents, whole numbers at and
// beyond the int64 / uint64 boundaries, huge and tiny magnitudes, negative zero.
var anyNumPool = []string{
	"0.5", "-0.25", "1.5", "3.14159", "0.1", "1e3", "2.5e-3", "123456789.125", "-0.0625", "7", "0", "1", "-1", "42", "8080", "-2147483648", "9007199254740993",
	"9223372036854775807", "9223372036854775808", "-9223372036854775808", "-9223372036854775809", "9223372036854775806",
	"18446744073709551615", "18446744073709551616", "340282366920938463463374607431768211456", "-1180591620717411303424",
	"1e20", "1e308", "-1e20", "1e-7", "123456789012345678901234567890", "-0",
}

// wideNumPool adds values that have no short decimal spelling (see NumberOf);
// they are only handed over as cty values.
var wideNumPool = []string{"1/3", "-2/7", "1/1024", "10000000000000000000000/3",
	"f64:1e20", "f64:-1e20", "f64:18446744073709551616", "f64:9223372036854775808", "f64:9007199254740992", "f64:4294967296.5", "f64:0.5", "f64:1267650600228229401496703205376", "f64:0.000000059604644775390625"}

func genNum(t *rapid.T, ty Type) string {
	switch {
	case ty.Int:
		if rapid.Bool().Draw(t, "intpool") {
			return rapid.SampledFrom(intPool).Draw(t, "int")
		}
		return strconv.FormatInt(rapid.Int64Range(-1000000, 1000000).Draw(t, "intv"), 10)
	case ty.Uint:
		if rapid.Bool().Draw(t, "uintpool") {
			return rapid.SampledFrom(uintPool).Draw(t, "uint")
		}
		return strconv.FormatUint(rapid.Uint64().Draw(t, "uintv"), 10)
	}
	return rapid.SampledFrom(anyNumPool).Draw(t, "num")
}

// WidenNumbers replaces some number leaves of a value of type ty (plain "number"
// positions only, not inside sets) by numbers without a short decimal spelling or
// of float64 precision.  For values that are handed to the code under test as cty
// values (never for text rendered by this package).
func WidenNumbers(t *rapid.T, v Val, ty Type) Val {
	switch ty.K {
	case "number":
		if v.K == "n" && !ty.Int && !ty.Uint && rapid.IntRange(0, 3).Draw(t, "widen") == 3 {
			return Num(rapid.SampledFrom(wideNumPool).Draw(t, "widenum"))
		}
	case "any":
		switch v.K {
		case "n":
			if rapid.IntRange(0, 3).Draw(t, "widen") == 3 {
				return Num(rapid.SampledFrom(wideNumPool).Draw(t, "widenum"))
			}
		case "l":
			out := Val{K: "l"}
			for _, e := range v.L {
				out.L = append(out.L, WidenNumbers(t, e, ty))
			}
			return out
		case "m":
			out := Val{K: "m"}
			for _, kv := range v.M {
				out.M = append(out.M, KV{K: kv.K, V: WidenNumbers(t, kv.V, ty)})
			}
			return out
		}
	case "list":
		if v.K == "l" {
			out := Val{K: "l"}
			for _, e := range v.L {
				out.L = append(out.L, WidenNumbers(t, e, *ty.E))
			}
			return out
		}
	case "map":
		if v.K == "m" {
			out := Val{K: "m"}
			for _, kv := range v.M {
				out.M = append(out.M, KV{K: kv.K, V: WidenNumbers(t, kv.V, *ty.E)})
			}
			return out
		}
	case "object":
		if v.K == "m" {
			out := Val{K: "m"}
			for _, f := range ty.F {
				fv, _ := v.Get(f.N)
				out.M = append(out.M, KV{K: f.N, V: WidenNumbers(t, fv, f.T)})
			}
			return out
		}
	case "tuple":
		if v.K == "l" {
			out := Val{K: "l"}
			for i, f := range ty.F {
				out.L = append(out.L, WidenNumbers(t, v.L[i], f.T))
			}
			return out
		}
	}
	return v
}

var keyPool = []string{"k", "key-1", "a b", "ö", "x_y", "0", "K.dot", "q\"", "${k}",
	"//", "// c", "//2", "#k", "/*k*/", "a.b", "a[0]", "", "null", "true", "1e3", "Key", "key", "KEY", "new\nline", "tab\t", "%{k}", "back\\slash", "k=v", "k:v", "日本", strings.Repeat("long-key-", 30)}

func GenVal(t *rapid.T, ty Type) Val {
	switch ty.K {
	case "string":
		return Str(genStr(t))
	case "number":
		return Num(genNum(t, ty))
	case "bool":
		return Bool(rapid.Bool().Draw(t, "bool"))
	case "list", "set":
		n := rapid.IntRange(0, 3).Draw(t, "nelem")
		v := Val{K: "l"}
		for i := 0; i < n; i++ {
			v.L = append(v.L, GenVal(t, *ty.E))
		}
		return v
	case "map":
		n := rapid.IntRange(0, 3).Draw(t, "nkeys")
		v := Val{K: "m"}
		seen := map[string]bool{}
		for i := 0; i < n; i++ {
			k := rapid.SampledFrom(keyPool).Draw(t, "key")
			if seen[k] {
				continue
			}
			seen[k] = true
			v.M = append(v.M, KV{K: k, V: GenVal(t, *ty.E)})
		}
		return v
	case "object":
		v := Val{K: "m"}
		for _, f := range ty.F {
			v.M = append(v.M, KV{K: f.N, V: GenVal(t, f.T)})
		}
		return v
	case "tuple":
		v := Val{K: "l"}
		for _, f := range ty.F {
			v.L = append(v.L, GenVal(t, f.T))
		}
		return v
	case "any":
		return genAny(t, 2)
	}
	panic("cfggen: bad type " + ty.K)
}

func genAny(t *rapid.T, depth int) Val {
	c := rapid.IntRange(0, 5).Draw(t, "anykind")
	if depth <= 0 && c > 2 {
		c = 0
	}
	switch c {
	case 0:
		return Str(genStr(t))
	case 1:
		return Num(genNum(t, Type{K: "number", Int: rapid.IntRange(0, 2).Draw(t, "int") == 0}))
	case 2:
		return Bool(rapid.Bool().Draw(t, "bool"))
	case 3, 4:
		n := rapid.IntRange(0, 3).Draw(t, "nelem")
		v := Val{K: "l"}
		for i := 0; i < n; i++ {
			v.L = append(v.L, genAny(t, depth-1))
		}
		return v
	default:
		n := rapid.IntRange(0, 3).Draw(t, "nkeys")
		v := Val{K: "m"}
		seen := map[string]bool{}
		for i := 0; i < n; i++ {
			k := rapid.SampledFrom(keyPool).Draw(t, "key")
			if seen[k] {
				continue
			}
			seen[k] = true
			v.M = append(v.M, KV{K: k, V: genAny(t, depth-1)})
		}
		return v
	}
}

// nullable: an explicit null is a conforming value for this optional attribute on
// both decoders (Go side: pointer, slice or map target).
func nullable(a *AttrS) bool {
	if a.Req {
		return false
	}
	switch a.T.K {
	case "list", "set", "map":
		return true
	case "any", "tuple":
		return false
	}
	return a.Ptr
}

// ---------------------------------------------------------------- instance

// GenInstance draws a conforming instance of the schema.
func GenInstance(t *rapid.T, s *BodyS) BodyI {
	var in BodyI
	for i := range s.Attrs {
		a := &s.Attrs[i]
		c := rapid.IntRange(0, 9).Draw(t, "present")
		switch {
		case a.Req || c < 6:
			in.Attrs = append(in.Attrs, AttrI{Name: a.Name, V: GenVal(t, a.T)})
		case c == 6 && nullable(a):
			in.Attrs = append(in.Attrs, AttrI{Name: a.Name, V: Null()})
		}
	}
	for i := range s.Blocks {
		bs := &s.Blocks[i]
		in.Blocks = append(in.Blocks, genBlocks(t, bs)...)
	}
	return in
}

func genLabels(t *rapid.T, n int, names []string) []string {
	var l []string
	for i := 0; i < n; i++ {
		l = append(l, genLabel(t, names))
	}
	return l
}

// namesInScope: the block's own type name and the names its body declares.
func namesInScope(bs *BlockS) []string {
	out := []string{bs.Name}
	if bs.Body != nil {
		for _, a := range bs.Body.Attrs {
			out = append(out, a.Name)
		}
		for _, b := range bs.Body.Blocks {
			out = append(out, b.Name)
		}
	}
	return out
}

// siblingLabels draws the label lists of n sibling blocks with k labels each:
// often the siblings share a label prefix of some length (frequently all but the
// last label) and differ in the rest.
func siblingLabels(t *rapid.T, n, k int, names []string) [][]string {
	out := make([][]string, n)
	if k == 0 {
		return out
	}
	share := 0
	switch rapid.IntRange(0, 4).Draw(t, "label-sharing") {
	case 1, 2:
		share = k - 1
	case 3:
		share = rapid.IntRange(0, k-1).Draw(t, "shared-prefix")
	case 4:
		share = k // identical label lists (valid for lists/sets; dropped as duplicates for maps)
	}
	prefix := genLabels(t, share, names)
	for i := range out {
		out[i] = append(append([]string{}, prefix...), genLabels(t, k-share, names)...)
	}
	return out
}

func genBlocks(t *rapid.T, bs *BlockS) []BlockI {
	var out []BlockI
	switch bs.Kind {
	case "single":
		if bs.Req || rapid.IntRange(0, 9).Draw(t, "bpresent") < 6 {
			out = append(out, BlockI{Type: bs.Name, Labels: genLabels(t, bs.NLabels, namesInScope(bs)), Body: GenInstance(t, bs.Body)})
		}
	case "attrs":
		if bs.Req || rapid.IntRange(0, 9).Draw(t, "bpresent") < 6 {
			b := BlockI{Type: bs.Name}
			n := rapid.IntRange(0, 3).Draw(t, "nfree")
			for i := 0; i < n; i++ {
				b.Body.Attrs = append(b.Body.Attrs, AttrI{Name: fmt.Sprintf("%s%d", rapid.SampledFrom([]string{"free", "x-", "ñ"}).Draw(t, "free"), i), V: GenVal(t, *bs.Elem)})
			}
			out = append(out, b)
		}
	case "list", "set", "tuple":
		max := 3
		if bs.NLabels > 0 {
			max = 4
		}
		if bs.Max > 0 {
			max = bs.Max
		}
		n := rapid.IntRange(bs.Min, max).Draw(t, "nrep")
		uniform := rapid.IntRange(0, 9).Draw(t, "uniform") < 7
		labels := siblingLabels(t, n, bs.NLabels, namesInScope(bs))
		for i := 0; i < n; i++ {
			b := BlockI{Type: bs.Name, Labels: labels[i], Body: GenInstance(t, bs.Body)}
			if uniform && i > 0 {
				b.Body = sameShape(t, bs.Body, &out[0].Body)
			}
			out = append(out, b)
		}
	case "map", "objmap":
		n := rapid.IntRange(0, 4).Draw(t, "nrep")
		uniform := rapid.IntRange(0, 9).Draw(t, "uniform") < 7
		seen := map[string]bool{}
		labels := siblingLabels(t, n, bs.NLabels, namesInScope(bs))
		for i := 0; i < n; i++ {
			l := labels[i]
			k := fmt.Sprintf("%q", l)
			if seen[k] {
				continue
			}
			seen[k] = true
			b := BlockI{Type: bs.Name, Labels: l, Body: GenInstance(t, bs.Body)}
			if uniform && len(out) > 0 {
				b.Body = sameShape(t, bs.Body, &out[0].Body)
			}
			out = append(out, b)
		}
	}
	return out
}

// sameShape draws a body with the same attributes present as in model (so that a
// run of blocks can be folded into one dynamic block), children drawn freely.
func sameShape(t *rapid.T, s *BodyS, model *BodyI) BodyI {
	var in BodyI
	for _, ma := range model.Attrs {
		a := s.Attr(ma.Name)
		if a == nil {
			continue
		}
		if ma.V.IsNull() {
			in.Attrs = append(in.Attrs, AttrI{Name: a.Name, V: Null()})
			continue
		}
		if rapid.IntRange(0, 3).Draw(t, "samevalue") == 0 {
			in.Attrs = append(in.Attrs, AttrI{Name: a.Name, V: ma.V})
		} else {
			in.Attrs = append(in.Attrs, AttrI{Name: a.Name, V: GenVal(t, a.T)})
		}
	}
	for i := range s.Blocks {
		bs := &s.Blocks[i]
		if rapid.IntRange(0, 2).Draw(t, "samekids") == 0 {
			for _, mb := range model.BlocksOf(bs.Name) {
				in.Blocks = append(in.Blocks, *mb)
			}
			continue
		}
		in.Blocks = append(in.Blocks, genBlocks(t, bs)...)
	}
	return in
}

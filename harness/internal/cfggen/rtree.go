package cfggen

import (
	"fmt"
	"sort"

	"pgregory.net/rapid"
)

// Render tree: what is actually written to a file.  It differs from the instance
// by (a) item order, (b) `dynamic` blocks standing for runs of blocks.

type RExpr struct {
	Lit    *Val   // literal value, or
	Ref    string // root variable of a reference ...
	Path   []string
	Interp bool // reference spelled as the template "${ref}" (always so in JSON)
}

type RAttr struct {
	Name string
	E    RExpr
}

type RBlock struct {
	Type   string
	Labels []string
	Body   RBody
	Free   bool // body is read in free-attributes mode (BlockAttrsSpec / remain map)
}

type RDyn struct {
	Type      string
	ForEach   RExpr
	Iterator  string // "" = default (the block type name)
	HasLabels bool
	Labels    []RExpr
	Content   RBody
	Free      bool
}

type RItem struct {
	Attr  *RAttr
	Block *RBlock
	Dyn   *RDyn
}

type RBody struct{ Items []RItem }

func lit(v Val) RExpr { return RExpr{Lit: &v} }

// class returns the ordering class of a block-ish item (the block type it yields).
func (it RItem) class() string {
	if it.Block != nil {
		return it.Block.Type
	}
	if it.Dyn != nil {
		return it.Dyn.Type
	}
	return ""
}

// ---------------------------------------------------------------- plain tree

func PlainBody(s *BodyS, in *BodyI) RBody {
	var b RBody
	for _, a := range in.Attrs {
		b.Items = append(b.Items, RItem{Attr: &RAttr{Name: a.Name, E: lit(a.V)}})
	}
	for i := range in.Blocks {
		bl := &in.Blocks[i]
		var bs *BlockS
		var cs *BodyS
		if s != nil {
			if bs = s.Block(bl.Type); bs != nil {
				cs = bs.Body
			}
		}
		b.Items = append(b.Items, RItem{Block: &RBlock{Type: bl.Type, Labels: bl.Labels, Body: PlainBody(cs, &bl.Body), Free: bs != nil && bs.Kind == "attrs"}})
	}
	return b
}

// ---------------------------------------------------------------- dynamic rewrite

// DynState carries the context variables created for for_each expressions and a
// counter for iterator names; Stats counts what the rewrite produced.
type DynState struct {
	Vars  []KV
	n     int
	Stats map[string]int
}

func (d *DynState) bump(k string) {
	if d.Stats == nil {
		d.Stats = map[string]int{}
	}
	d.Stats[k]++
}

func hasDupAttrs(b *BodyI) bool {
	seen := map[string]bool{}
	for _, a := range b.Attrs {
		if seen[a.Name] {
			return true
		}
		seen[a.Name] = true
	}
	return false
}

func attrNames(b *BodyI) []string {
	var n []string
	for _, a := range b.Attrs {
		n = append(n, a.Name)
	}
	sort.Strings(n)
	return n
}

func sameStrings(a, b []string) bool {
	if len(a) != len(b) {
		return false
	}
	for i := range a {
		if a[i] != b[i] {
			return false
		}
	}
	return true
}

func equalBodies(a, b *BodyI) bool {
	if len(a.Attrs) != len(b.Attrs) || len(a.Blocks) != len(b.Blocks) {
		return false
	}
	for i := range a.Attrs {
		if a.Attrs[i].Name != b.Attrs[i].Name || !a.Attrs[i].V.Equal(b.Attrs[i].V) {
			return false
		}
	}
	for i := range a.Blocks {
		if a.Blocks[i].Type != b.Blocks[i].Type || !sameStrings(a.Blocks[i].Labels, b.Blocks[i].Labels) || !equalBodies(&a.Blocks[i].Body, &b.Blocks[i].Body) {
			return false
		}
	}
	return true
}

func childTypes(bl []*BlockI) []string {
	var out []string
	seen := map[string]bool{}
	for _, b := range bl {
		for _, c := range b.Body.Blocks {
			if !seen[c.Type] {
				seen[c.Type] = true
				out = append(out, c.Type)
			}
		}
	}
	return out
}

// canGroup: the blocks (all of one type) can be produced by one dynamic block:
// same number of labels, same attributes present, and recursively the union of
// their children of each type can be produced by one nested dynamic block.
// Bodies of free-attribute blocks (kind attrs) are not visible to the iterator
// (the documented JustAttributes pass-through), so such blocks must be identical.
func canGroup(bs *BlockS, bl []*BlockI) bool {
	if len(bl) == 0 {
		return true
	}
	first := bl[0]
	names := attrNames(&first.Body)
	for _, b := range bl {
		if len(b.Labels) != len(first.Labels) || hasDupAttrs(&b.Body) || !sameStrings(attrNames(&b.Body), names) {
			return false
		}
		if bs != nil && bs.Kind == "attrs" && !equalBodies(&b.Body, &first.Body) {
			return false
		}
	}
	for _, ct := range childTypes(bl) {
		var kids []*BlockI
		for _, b := range bl {
			kids = append(kids, b.Body.BlocksOf(ct)...)
		}
		var cs *BlockS
		if bs != nil && bs.Body != nil {
			cs = bs.Body.Block(ct)
		}
		if !canGroup(cs, kids) {
			return false
		}
	}
	return true
}

func validIdent(s string) bool {
	if s == "" {
		return false
	}
	for i, r := range s {
		switch {
		case r == '_' || r >= 'a' && r <= 'z' || r >= 'A' && r <= 'Z' || r > 0x7f && isLetter(r):
		case i > 0 && (r >= '0' && r <= '9' || r == '-'):
		default:
			return false
		}
	}
	return true
}

func isLetter(r rune) bool {
	switch r {
	case 'é', 'ü', 'ö', 'ñ', 'ï':
		return true
	}
	return false
}

func labelsSortedUnique(bl []*BlockI) bool {
	for i := 1; i < len(bl); i++ {
		if !(bl[i-1].Labels[0] < bl[i].Labels[0]) {
			return false
		}
	}
	return true
}

// iterPool: explicit iterator names come from a tiny pool, so that a nested
// dynamic block often re-uses (shadows) the name of an enclosing one.
var iterPool = []string{"it", "each", "x"}

// IterName is the iterator name in force for a dynamic block.
func (d *RDyn) IterName() string {
	if d.Iterator != "" {
		return d.Iterator
	}
	return d.Type
}

// dynRun builds the dynamic block for a run of blocks of one type.
// parent: reference to the tuple that holds this run's data when nested
// (nil at the outermost level, where for_each is a literal or a context variable);
// outer: iterator names of the enclosing dynamic blocks, innermost last.
func (d *DynState) dynRun(t *rapid.T, bs *BlockS, bl []*BlockI, parent *RExpr, outer []string) (*RDyn, []Val) {
	typ := bl[0].Type
	dyn := &RDyn{Type: typ, Free: bs != nil && bs.Kind == "attrs"}
	iter := typ
	switch c := rapid.IntRange(0, 3).Draw(t, "custom-iterator"); {
	case c == 3 && len(outer) > 0:
		// deliberately the name of an enclosing iterator
		iter = rapid.SampledFrom(outer).Draw(t, "outer-iterator")
		if iter != typ {
			dyn.Iterator = iter
		}
		d.bump("dyn:custom-iterator")
	case c >= 2:
		iter = rapid.SampledFrom(iterPool).Draw(t, "iterator")
		dyn.Iterator = iter
		d.bump("dyn:custom-iterator")
	default:
		d.bump("dyn:default-iterator")
	}
	for _, o := range outer {
		if o == iter {
			d.bump("dyn:iterator-shadows-enclosing")
			break
		}
	}
	ref := func(path ...string) RExpr {
		return RExpr{Ref: iter, Path: append([]string{"value"}, path...), Interp: rapid.IntRange(0, 3).Draw(t, "interp") == 0}
	}
	data := make([]Val, len(bl))
	for i := range data {
		data[i] = Val{K: "m"}
	}
	literalOnly := bs != nil && bs.Kind == "attrs"

	// labels
	nl := len(bl[0].Labels)
	mapForm := false
	if nl > 0 {
		dyn.HasLabels = true
		if parent == nil && labelsSortedUnique(bl) && rapid.IntRange(0, 2).Draw(t, "mapform") == 0 {
			mapForm = true
		}
		for li := 0; li < nl; li++ {
			same := true
			for _, b := range bl {
				if b.Labels[li] != bl[0].Labels[li] {
					same = false
				}
			}
			switch {
			case li == 0 && mapForm:
				dyn.Labels = append(dyn.Labels, RExpr{Ref: iter, Path: []string{"key"}, Interp: rapid.Bool().Draw(t, "interp")})
				d.bump("dyn:label-from-key")
			case same && rapid.Bool().Draw(t, "label-literal"):
				dyn.Labels = append(dyn.Labels, lit(Str(bl[0].Labels[li])))
			default:
				k := fmt.Sprintf("lbl_%d", li)
				for i, b := range bl {
					data[i].M = append(data[i].M, KV{K: k, V: Str(b.Labels[li])})
				}
				dyn.Labels = append(dyn.Labels, ref(k))
			}
		}
	}

	// attributes
	for _, name := range attrNames(&bl[0].Body) {
		same := true
		v0 := bl[0].Body.Attr(name).V
		for _, b := range bl {
			if !b.Body.Attr(name).V.Equal(v0) {
				same = false
			}
		}
		if literalOnly || (same && rapid.Bool().Draw(t, "attr-literal")) {
			dyn.Content.Items = append(dyn.Content.Items, RItem{Attr: &RAttr{Name: name, E: lit(v0)}})
			continue
		}
		for i, b := range bl {
			data[i].M = append(data[i].M, KV{K: name, V: b.Body.Attr(name).V})
		}
		dyn.Content.Items = append(dyn.Content.Items, RItem{Attr: &RAttr{Name: name, E: ref(name)}})
	}

	// children
	for _, ct := range childTypes(bl) {
		var cs *BlockS
		if bs != nil && bs.Body != nil {
			cs = bs.Body.Block(ct)
		}
		allSame := true
		for _, b := range bl {
			k0, k := bl[0].Body.BlocksOf(ct), b.Body.BlocksOf(ct)
			if len(k0) != len(k) {
				allSame = false
				break
			}
			for j := range k {
				if !sameStrings(k0[j].Labels, k[j].Labels) || !equalBodies(&k0[j].Body, &k[j].Body) {
					allSame = false
				}
			}
		}
		if allSame && rapid.Bool().Draw(t, "static-kids") {
			// identical children in every generated block: written once, statically
			// (possibly again folded into dynamic blocks of their own)
			sub := BodyI{}
			for _, k := range bl[0].Body.BlocksOf(ct) {
				sub.Blocks = append(sub.Blocks, *k)
			}
			var ps *BodyS
			if bs != nil {
				ps = bs.Body
			}
			rb := d.buildBody(t, ps, &sub, 40, append(append([]string{}, outer...), iter))
			dyn.Content.Items = append(dyn.Content.Items, rb.Items...)
			d.bump("dyn:static-children")
			continue
		}
		var kids []*BlockI
		owner := []int{}
		for i, b := range bl {
			for _, k := range b.Body.BlocksOf(ct) {
				kids = append(kids, k)
				owner = append(owner, i)
			}
		}
		key := "kids_" + ct
		pref := RExpr{Ref: iter, Path: []string{"value", key}}
		kdyn, kdata := d.dynRun(t, cs, kids, &pref, append(append([]string{}, outer...), iter))
		// hoisting: an attribute that has one value per parent is stored once in the
		// parent's data and read through the inherited (outer) iterator
		for ci := range kdyn.Content.Items {
			ca := kdyn.Content.Items[ci].Attr
			if ca == nil || ca.E.Lit != nil || len(ca.E.Path) != 2 {
				continue
			}
			an := ca.E.Path[1]
			perParent := map[int]Val{}
			ok := true
			for j := range kids {
				v, _ := kdata[j].Get(an)
				if pv, seen := perParent[owner[j]]; seen {
					if !pv.Equal(v) {
						ok = false
					}
				} else {
					perParent[owner[j]] = v
				}
			}
			if kdyn.IterName() == iter {
				// the child's iterator shadows this one: the outer value is out of reach
				continue
			}
			if !ok || len(kids) == 0 || !rapid.Bool().Draw(t, "hoist") {
				continue
			}
			hk := "hoist_" + ct + "_" + an
			for p, v := range perParent {
				data[p].M = append(data[p].M, KV{K: hk, V: v})
			}
			for j := range kdata {
				kdata[j] = dropKey(kdata[j], an)
			}
			ca.E = RExpr{Ref: iter, Path: []string{"value", hk}, Interp: ca.E.Interp}
			d.bump("dyn:inherited-iterator-ref")
		}
		for i := range bl {
			kd := Val{K: "l"}
			for j := range kids {
				if owner[j] == i {
					kd.L = append(kd.L, kdata[j])
				}
			}
			data[i].M = append(data[i].M, KV{K: key, V: kd})
		}
		dyn.Content.Items = append(dyn.Content.Items, RItem{Dyn: kdyn})
		d.bump("dyn:nested")
	}

	// for_each
	if parent != nil {
		dyn.ForEach = *parent
		return dyn, data
	}
	var fe Val
	if mapForm {
		fe = Val{K: "m"}
		for i, b := range bl {
			fe.M = append(fe.M, KV{K: b.Labels[0], V: data[i]})
		}
		d.bump("dyn:for_each-object")
	} else {
		fe = Val{K: "l", L: data}
		d.bump("dyn:for_each-tuple")
	}
	if rapid.IntRange(0, 2).Draw(t, "foreach-var") == 0 {
		name := fmt.Sprintf("src%d", len(d.Vars))
		d.Vars = append(d.Vars, KV{K: name, V: fe})
		dyn.ForEach = RExpr{Ref: name}
		d.bump("dyn:for_each-variable")
	} else {
		dyn.ForEach = lit(fe)
	}
	return dyn, data
}

func dropKey(v Val, k string) Val {
	out := Val{K: "m"}
	for _, kv := range v.M {
		if kv.K != k {
			out.M = append(out.M, kv)
		}
	}
	return out
}

// BuildBody renders an instance body into a render tree, folding runs of blocks
// of one type into dynamic blocks with probability pct/100 per run.
func (d *DynState) BuildBody(t *rapid.T, s *BodyS, in *BodyI, pct int) RBody {
	return d.buildBody(t, s, in, pct, nil)
}

func (d *DynState) buildBody(t *rapid.T, s *BodyS, in *BodyI, pct int, outer []string) RBody {
	var b RBody
	for _, a := range in.Attrs {
		b.Items = append(b.Items, RItem{Attr: &RAttr{Name: a.Name, E: lit(a.V)}})
	}
	// per-type sequences, in order of first appearance
	var types []string
	seq := map[string][]*BlockI{}
	for i := range in.Blocks {
		bl := &in.Blocks[i]
		if _, ok := seq[bl.Type]; !ok {
			types = append(types, bl.Type)
		}
		seq[bl.Type] = append(seq[bl.Type], bl)
	}
	for _, ty := range types {
		var bs *BlockS
		if s != nil {
			bs = s.Block(ty)
		}
		bl := seq[ty]
		for i := 0; i < len(bl); {
			// longest groupable run starting at i, then a random prefix of it
			j := i + 1
			for j < len(bl) && canGroup(bs, bl[i:j+1]) {
				j++
			}
			if canGroup(bs, bl[i:i+1]) && rapid.IntRange(0, 99).Draw(t, "dynamize") < pct {
				n := rapid.IntRange(1, j-i).Draw(t, "runlen")
				if rapid.Bool().Draw(t, "maxrun") {
					n = j - i
				}
				dyn, _ := d.dynRun(t, bs, bl[i:i+n], nil, outer)
				b.Items = append(b.Items, RItem{Dyn: dyn})
				d.bump(fmt.Sprintf("dyn:run=%d", min(n, 3)))
				i += n
				continue
			}
			var cs *BodyS
			if bs != nil {
				cs = bs.Body
			}
			b.Items = append(b.Items, RItem{Block: &RBlock{Type: ty, Labels: bl[i].Labels, Body: d.buildBody(t, cs, &bl[i].Body, pct, outer), Free: bs != nil && bs.Kind == "attrs"}})
			i++
		}
	}
	return b
}

func min(a, b int) int {
	if a < b {
		return a
	}
	return b
}

// HasDyn reports whether the tree contains a dynamic block.
func (b RBody) HasDyn() bool {
	for _, it := range b.Items {
		if it.Dyn != nil {
			return true
		}
		if it.Block != nil && it.Block.Body.HasDyn() {
			return true
		}
	}
	return false
}

// ---------------------------------------------------------------- shuffle

// Shuffle permutes the items of every body: attributes anywhere, block-ish items
// keeping their relative order within each block type.
func Shuffle(t *rapid.T, b RBody) RBody {
	n := len(b.Items)
	out := RBody{Items: make([]RItem, n)}
	perm := rapid.Permutation(indices(n)).Draw(t, "perm")
	// perm[i] = source index placed at i; restore per-class order afterwards
	for i, p := range perm {
		out.Items[i] = b.Items[p]
	}
	// positions of each class, refilled in original order
	pos := map[string][]int{}
	for i, it := range out.Items {
		if c := it.class(); c != "" {
			pos[c] = append(pos[c], i)
		}
	}
	next := map[string]int{}
	for _, it := range b.Items {
		if c := it.class(); c != "" {
			out.Items[pos[c][next[c]]] = it
			next[c]++
		}
	}
	for i := range out.Items {
		switch {
		case out.Items[i].Block != nil:
			nb := *out.Items[i].Block
			nb.Body = Shuffle(t, nb.Body)
			out.Items[i].Block = &nb
		case out.Items[i].Dyn != nil:
			nd := *out.Items[i].Dyn
			nd.Content = Shuffle(t, nd.Content)
			out.Items[i].Dyn = &nd
		}
	}
	return out
}

func indices(n int) []int {
	l := make([]int, n)
	for i := range l {
		l[i] = i
	}
	return l
}

// ---------------------------------------------------------------- split

// Split distributes the top-level items over k files: each attribute goes to
// exactly one file (a merged body reports an attribute defined in two files as
// a duplicate), and the blocks of one type keep their relative order (a merged
// body returns the blocks of the first file, then those of the second, ...).
func Split(t *rapid.T, b RBody, k int) []RBody {
	out := make([]RBody, k)
	cnt := map[string]int{}
	for _, it := range b.Items {
		if c := it.class(); c != "" {
			cnt[c]++
		}
	}
	assign := map[string][]int{}
	var classes []string
	for _, it := range b.Items {
		c := it.class()
		if c == "" {
			continue
		}
		if _, ok := assign[c]; !ok {
			classes = append(classes, c)
			fs := make([]int, cnt[c])
			for i := range fs {
				fs[i] = rapid.IntRange(0, k-1).Draw(t, "file")
			}
			sort.Ints(fs)
			assign[c] = fs
		}
	}
	next := map[string]int{}
	for _, it := range b.Items {
		c := it.class()
		f := 0
		if c == "" {
			f = rapid.IntRange(0, k-1).Draw(t, "file")
		} else {
			f = assign[c][next[c]]
			next[c]++
		}
		out[f].Items = append(out[f].Items, it)
	}
	return out
}

package cfggen

import (
	"fmt"
	"reflect"
	"strconv"

	"github.com/zclconf/go-cty/cty"
)

// Go side of a schema: struct types with `yaotl:"..."` tags built with
// reflect.StructOf, for the tag-driven decoder (gohcl).
//
//	attribute  required            T        `yaotl:"name"`
//	           optional, Ptr       *T       `yaotl:"name"`          (nil when absent or null)
//	           optional, !Ptr      T        `yaotl:"name,optional"` (zero value when absent)
//	block      single   Req / !Req struct / *struct                 `yaotl:"name,block"`
//	           list set tuple map objmap    []struct or []*struct (source order, labels in label fields)
//	           attrs               struct{ M map[string]T `yaotl:",remain"` }
//	label i                        string   `yaotl:"label<i>,label"`
//
// Types: string->string, number->int64|uint64|float64, bool->bool, list/set->[]E, map->map[string]E,
// object->struct with cty tags, any/tuple->cty.Value.

var ctyValueType = reflect.TypeOf(cty.Value{})

func GoType(t Type) reflect.Type {
	switch t.K {
	case "string":
		return reflect.TypeOf("")
	case "number":
		if t.Int {
			return reflect.TypeOf(int64(0))
		}
		if t.Uint {
			return reflect.TypeOf(uint64(0))
		}
		return reflect.TypeOf(float64(0))
	case "bool":
		return reflect.TypeOf(false)
	case "any", "tuple":
		return ctyValueType
	case "list", "set":
		return reflect.SliceOf(GoType(*t.E))
	case "map":
		return reflect.MapOf(reflect.TypeOf(""), GoType(*t.E))
	case "object":
		var fs []reflect.StructField
		for i, f := range t.F {
			fs = append(fs, reflect.StructField{
				Name: fmt.Sprintf("O%d", i),
				Type: GoType(f.T),
				Tag:  reflect.StructTag(fmt.Sprintf(`cty:%q`, f.N)),
			})
		}
		return reflect.StructOf(fs)
	}
	panic("cfggen: bad type " + t.K)
}

func attrGoType(a *AttrS) reflect.Type {
	t := GoType(a.T)
	if !a.Req && a.Ptr {
		return reflect.PtrTo(t)
	}
	return t
}

func attrsBlockType(bs *BlockS) reflect.Type {
	return reflect.StructOf([]reflect.StructField{{
		Name: "M",
		Type: reflect.MapOf(reflect.TypeOf(""), GoType(*bs.Elem)),
		Tag:  `yaotl:",remain"`,
	}})
}

func blockElemType(bs *BlockS) reflect.Type {
	if bs.Kind == "attrs" {
		return attrsBlockType(bs)
	}
	return StructType(bs.Body, bs.NLabels)
}

func blockGoType(bs *BlockS) reflect.Type {
	et := blockElemType(bs)
	switch bs.Kind {
	case "single", "attrs":
		if bs.Req {
			return et
		}
		return reflect.PtrTo(et)
	default:
		if bs.Ptr {
			return reflect.SliceOf(reflect.PtrTo(et))
		}
		return reflect.SliceOf(et)
	}
}

// StructType builds the Go struct type for a body schema.
func StructType(b *BodyS, nlabels int) reflect.Type {
	var fs []reflect.StructField
	for i := 0; i < nlabels; i++ {
		fs = append(fs, reflect.StructField{
			Name: fmt.Sprintf("L%d", i),
			Type: reflect.TypeOf(""),
			Tag:  reflect.StructTag(fmt.Sprintf(`yaotl:"label%d,label"`, i)),
		})
	}
	for i := range b.Attrs {
		a := &b.Attrs[i]
		tag := fmt.Sprintf(`yaotl:"%s"`, a.Name)
		if !a.Req && !a.Ptr {
			tag = fmt.Sprintf(`yaotl:"%s,optional"`, a.Name)
		}
		fs = append(fs, reflect.StructField{Name: fmt.Sprintf("A%d", i), Type: attrGoType(a), Tag: reflect.StructTag(tag)})
	}
	for i := range b.Blocks {
		bs := &b.Blocks[i]
		fs = append(fs, reflect.StructField{
			Name: fmt.Sprintf("B%d", i),
			Type: blockGoType(bs),
			Tag:  reflect.StructTag(fmt.Sprintf(`yaotl:"%s,block"`, bs.Name)),
		})
	}
	return reflect.StructOf(fs)
}

// GoValue builds the Go value of GoType(t) that literal v denotes.
func GoValue(v Val, t Type) reflect.Value {
	gt := GoType(t)
	out := reflect.New(gt).Elem()
	switch t.K {
	case "string":
		out.SetString(v.S)
	case "number":
		if t.Int {
			n, err := strconv.ParseInt(v.S, 10, 64)
			if err != nil {
				panic("cfggen: non-integer literal for int attribute: " + v.S)
			}
			out.SetInt(n)
		} else if t.Uint {
			n, err := strconv.ParseUint(v.S, 10, 64)
			if err != nil {
				panic("cfggen: literal for uint attribute out of range: " + v.S)
			}
			out.SetUint(n)
		} else {
			f, _ := cty.MustParseNumberVal(v.S).AsBigFloat().Float64()
			out.SetFloat(f)
		}
	case "bool":
		out.SetBool(v.B)
	case "any", "tuple":
		out.Set(reflect.ValueOf(Natural(v)))
	case "list", "set":
		if v.K == "null" {
			return out
		}
		s := reflect.MakeSlice(gt, len(v.L), len(v.L))
		for i, e := range v.L {
			s.Index(i).Set(GoValue(e, *t.E))
		}
		out.Set(s)
	case "map":
		if v.K == "null" {
			return out
		}
		m := reflect.MakeMap(gt)
		for _, kv := range v.M {
			m.SetMapIndex(reflect.ValueOf(kv.K), GoValue(kv.V, *t.E))
		}
		out.Set(m)
	case "object":
		for i, f := range t.F {
			fv, _ := v.Get(f.N)
			out.Field(i).Set(GoValue(fv, f.T))
		}
	}
	return out
}

// ExpectedStruct builds the struct value gohcl.DecodeBody is documented to
// produce for a conforming instance.
func ExpectedStruct(b *BodyS, in *BodyI, labels []string) reflect.Value {
	return expectedStruct(b, in, labels, map[typeKey]reflect.Type{})
}

// typeKey: the struct types built during one ExpectedStruct call are kept (one
// reflect.StructOf per body schema instead of one per block instance).
type typeKey struct {
	b *BodyS
	n int
}

func expectedStruct(b *BodyS, in *BodyI, labels []string, memo map[typeKey]reflect.Type) reflect.Value {
	st, ok := memo[typeKey{b, len(labels)}]
	if !ok {
		st = StructType(b, len(labels))
		memo[typeKey{b, len(labels)}] = st
	}
	out := reflect.New(st).Elem()
	fi := 0
	for _, l := range labels {
		out.Field(fi).SetString(l)
		fi++
	}
	for i := range b.Attrs {
		a := &b.Attrs[i]
		f := out.Field(fi)
		fi++
		ai := in.Attr(a.Name)
		if ai == nil {
			continue // nil pointer / zero value
		}
		if !a.Req && a.Ptr {
			if ai.V.IsNull() {
				continue
			}
			p := reflect.New(GoType(a.T))
			p.Elem().Set(GoValue(ai.V, a.T))
			f.Set(p)
		} else {
			f.Set(GoValue(ai.V, a.T))
		}
	}
	for i := range b.Blocks {
		bs := &b.Blocks[i]
		f := out.Field(fi)
		fi++
		bl := in.BlocksOf(bs.Name)
		et := f.Type()
		for et.Kind() == reflect.Ptr || et.Kind() == reflect.Slice {
			et = et.Elem()
		}
		one := func(bi *BlockI) reflect.Value {
			if bs.Kind == "attrs" {
				v := reflect.New(et).Elem()
				m := reflect.MakeMap(et.Field(0).Type)
				for _, a := range bi.Body.Attrs {
					m.SetMapIndex(reflect.ValueOf(a.Name), GoValue(a.V, *bs.Elem))
				}
				v.Field(0).Set(m)
				return v
			}
			if len(bi.Labels) == bs.NLabels {
				memo[typeKey{bs.Body, bs.NLabels}] = et
			}
			return expectedStruct(bs.Body, &bi.Body, bi.Labels, memo)
		}
		switch bs.Kind {
		case "single", "attrs":
			if len(bl) == 0 {
				continue
			}
			v := one(bl[0])
			if bs.Req {
				f.Set(v)
			} else {
				p := reflect.New(et)
				p.Elem().Set(v)
				f.Set(p)
			}
		default:
			if len(bl) == 0 {
				continue
			}
			s := reflect.MakeSlice(f.Type(), len(bl), len(bl))
			for j, bi := range bl {
				v := one(bi)
				if bs.Ptr {
					p := reflect.New(et)
					p.Elem().Set(v)
					s.Index(j).Set(p)
				} else {
					s.Index(j).Set(v)
				}
			}
			f.Set(s)
		}
	}
	return out
}

// EqualGo compares two decoded structs: like reflect.DeepEqual, but nil and empty
// slices/maps are the same and cty values are compared with RawEquals.
// The second result names the first differing path.
func EqualGo(a, b reflect.Value) (bool, string) {
	return eqGo(a, b, "")
}

func eqGo(a, b reflect.Value, path string) (bool, string) {
	if a.Type() != b.Type() {
		return false, path + ": types differ"
	}
	if a.Type() == ctyValueType {
		av, bv := a.Interface().(cty.Value), b.Interface().(cty.Value)
		if av == cty.NilVal || bv == cty.NilVal {
			if av == cty.NilVal && bv == cty.NilVal {
				return true, ""
			}
			return false, path + ": unset vs set cty.Value"
		}
		if !av.RawEquals(bv) {
			return false, fmt.Sprintf("%s: %#v vs %#v", path, av, bv)
		}
		return true, ""
	}
	switch a.Kind() {
	case reflect.Ptr:
		if a.IsNil() || b.IsNil() {
			if a.IsNil() && b.IsNil() {
				return true, ""
			}
			return false, path + ": nil vs non-nil"
		}
		return eqGo(a.Elem(), b.Elem(), path)
	case reflect.Slice:
		if a.Len() != b.Len() {
			return false, fmt.Sprintf("%s: len %d vs %d", path, a.Len(), b.Len())
		}
		for i := 0; i < a.Len(); i++ {
			if ok, p := eqGo(a.Index(i), b.Index(i), fmt.Sprintf("%s[%d]", path, i)); !ok {
				return false, p
			}
		}
		return true, ""
	case reflect.Map:
		if a.Len() != b.Len() {
			return false, fmt.Sprintf("%s: map len %d vs %d", path, a.Len(), b.Len())
		}
		for _, k := range a.MapKeys() {
			bv := b.MapIndex(k)
			if !bv.IsValid() {
				return false, fmt.Sprintf("%s: key %q missing", path, k.String())
			}
			if ok, p := eqGo(a.MapIndex(k), bv, fmt.Sprintf("%s[%q]", path, k.String())); !ok {
				return false, p
			}
		}
		return true, ""
	case reflect.Struct:
		for i := 0; i < a.NumField(); i++ {
			if ok, p := eqGo(a.Field(i), b.Field(i), path+"."+a.Type().Field(i).Name+"("+string(a.Type().Field(i).Tag)+")"); !ok {
				return false, p
			}
		}
		return true, ""
	default:
		if a.Interface() != b.Interface() {
			return false, fmt.Sprintf("%s: %#v vs %#v", path, a.Interface(), b.Interface())
		}
		return true, ""
	}
}

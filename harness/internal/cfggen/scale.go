package cfggen

import (
	"fmt"
	"strconv"
	"strings"

	"pgregory.net/rapid"
)

// SCALE dimension (optional; used by the C19 check, nothing else in this package
// depends on it).
//
// GenScale takes a generated schema and instance and inflates ONE of the counts a
// configuration has to a threshold-adjacent value: the number of repeated blocks
// of one type, of attributes in one body (declared or free), of elements of one
// collection value, of fields of an object type, of labels of a block, the
// nesting depth of blocks or of a collection value, the length of one string, and
// (for the caller's rewrites) the number of files, of dynamic blocks and of
// for_each elements.  The bulk is made the cheap way: a few generated templates
// are repeated N times with values that vary with the index; what the ordinary
// generator produced stays BEFORE and AFTER the bulk, and one ordinary item is put
// in the MIDDLE of it.

// ScalePool: the threshold-adjacent counts.  rapid draws the first entries of a
// list (and the last one) far more often than the middle ones, so the order is by
// how common the threshold is in code and by what a case of that size costs: the
// thousand and the 1024 first, then the small powers of two, then the neighbours,
// the large ones last.  (Shrinking therefore moves towards 1000.)
var ScalePool = []int{1000, 1024, 64, 128, 256, 512, 999, 1001, 1023, 1025, 63, 65, 127, 129, 255, 257, 511, 513,
	2048, 4096, 8192, 2047, 2049, 4095, 4097, 8191, 8193}

// ScaleBucket names the bucket of a count for the label histogram ("" below 63).
func ScaleBucket(n int) string {
	switch {
	case n < 63:
		return ""
	case n < 255:
		return "64-129"
	case n < 999:
		return "255-513"
	case n < 2047:
		return "999-1025"
	case n < 8191:
		return "2047-4097"
	}
	return "8191+"
}

// ScaleS records what was inflated.
type ScaleS struct {
	Dim string `json:"dim"`
	N   int    `json:"n"`
	Var string `json:"var,omitempty"` // variant inside the dimension
	// for the caller's rewrites
	Files  int    `json:"files,omitempty"`   // split forms use this many files
	Dyn    string `json:"dyn,omitempty"`     // "one": the bulk under as few dynamic blocks as possible; "many": at most RunCap blocks each
	RunCap int    `json:"run_cap,omitempty"` // DynState.RunCap for "many"
	Type   string `json:"type,omitempty"`    // the block type / attribute that carries the bulk
}

// ScaleOpt: what one case may cost.  Items is the budget of body items (attributes
// + blocks, at any depth) of the whole bulk; the per-dimension caps cut ScalePool.
type ScaleOpt struct {
	Items      int
	MaxBlocks  int // repeated blocks of one type
	MaxAttrs   int // declared attributes of one body, fields of one object type
	MaxFree    int // free attributes of one block
	MaxElems   int // elements of one collection value
	MaxLabels  int // labels of one block
	MaxFiles   int // files one configuration is split over
	MaxDepth   int // nesting depth of blocks
	MaxVDepth  int // nesting depth of an untyped (any) collection value
	MaxTDepth  int // nesting depth of a typed list(list(...)) value
	MaxDyn     int // dynamic blocks in one body
	MaxForEach int // elements of one for_each collection
	MaxStrUnit int // a long string has N * unit bytes, unit <= MaxStrUnit
}

// ScaleQuick / ScaleThorough: the cuts of the two tiers.
var ScaleQuick = ScaleOpt{Items: 5000, MaxBlocks: 2049, MaxAttrs: 1025, MaxFree: 2049, MaxElems: 1025, MaxLabels: 1025,
	MaxFiles: 1025, MaxDepth: 129, MaxVDepth: 1025, MaxTDepth: 129, MaxDyn: 513, MaxForEach: 1025, MaxStrUnit: 16}
var ScaleThorough = ScaleOpt{Items: 6500, MaxBlocks: 4097, MaxAttrs: 2049, MaxFree: 4097, MaxElems: 2049, MaxLabels: 2049,
	MaxFiles: 2049, MaxDepth: 257, MaxVDepth: 2049, MaxTDepth: 257, MaxDyn: 1025, MaxForEach: 2049, MaxStrUnit: 64}

func drawScaleN(t *rapid.T, label string, max int) int {
	var pool []int
	for _, n := range ScalePool {
		if n <= max {
			pool = append(pool, n)
		}
	}
	if len(pool) == 0 {
		pool = []int{63}
	}
	return rapid.SampledFrom(pool).Draw(t, label)
}

// scaleDims: the dimensions, weighted.
var scaleDims = []string{
	// (position matters, see ScalePool: about 12% each for the first two entries,
	// 6% for the next two, 4% for the next four, 2-3% for the others, 5% for the last)
	"collections", "blocks", "elems", "string-bytes",
	"attrs", "value-depth", "files", "labels",
	"for_each-elems", "dynamic-blocks", "block-depth", "free-attrs", "object-fields", "collections", "blocks", "elems",
	"for_each-elems", "dynamic-blocks", "block-depth", "value-depth", "files", "attrs", "blocks", "collections", "labels", "free-attrs",
	"blocks",
}

// ScaleDims lists the dimensions (for tests that force one).
func ScaleDims() []string {
	var out []string
	seen := map[string]bool{}
	for _, d := range scaleDims {
		if !seen[d] {
			seen[d] = true
			out = append(out, d)
		}
	}
	return out
}

type bodyAt struct {
	s   *BodyS
	in  *BodyI
	dyn bool // any/tuple attributes and tuple/objmap blocks are permitted here
}

// presentBodies: the root body and the bodies of the block instances present (two
// levels down at most).
func presentBodies(s *BodyS, in *BodyI, dyn bool, depth int, out *[]bodyAt) {
	*out = append(*out, bodyAt{s, in, dyn})
	if depth <= 0 || len(*out) > 24 {
		return
	}
	for i := range in.Blocks {
		bl := &in.Blocks[i]
		bs := s.Block(bl.Type)
		if bs == nil || bs.Body == nil {
			continue
		}
		presentBodies(bs.Body, &bl.Body, dyn && (bs.Kind == "single" || bs.Kind == "tuple" || bs.Kind == "objmap"), depth-1, out)
	}
}

type scaler struct {
	t   *rapid.T
	s   *BodyS
	in  *BodyI
	opt ScaleOpt
	out ScaleS
}

// GenScale inflates one count of the configuration (dim "" = drawn).
func GenScale(t *rapid.T, s *BodyS, in *BodyI, opt ScaleOpt, dim string) ScaleS {
	g := &scaler{t: t, s: s, in: in, opt: opt}
	if dim == "" {
		dim = rapid.SampledFrom(scaleDims).Draw(t, "scale-dim")
	}
	g.out.Dim = dim
	switch dim {
	case "blocks":
		g.blocks(opt.MaxBlocks, rapid.Bool().Draw(t, "scale-collection-attr"), rapid.IntRange(0, 9).Draw(t, "scale-uniform") < 7)
	case "collections":
		// the number of collection-valued attributes: N blocks with one each, or N
		// attributes of one body
		if rapid.Bool().Draw(t, "scale-collections-in-blocks") {
			g.out.Var = "one-per-block"
			g.blocks(opt.MaxBlocks, true, rapid.IntRange(0, 9).Draw(t, "scale-uniform") < 7)
		} else {
			g.out.Var = "attributes-of-one-body"
			g.attrs(true)
		}
	case "attrs":
		g.attrs(false)
	case "free-attrs":
		g.freeAttrs()
	case "elems":
		g.elems()
	case "object-fields":
		g.objectFields()
	case "labels":
		g.labels()
	case "files":
		g.out.Files = drawScaleN(t, "scale-files", opt.MaxFiles)
		g.blocks(257, rapid.Bool().Draw(t, "scale-collection-attr"), true)
		g.out.N = g.out.Files
	case "block-depth":
		g.blockDepth()
	case "value-depth":
		g.valueDepth()
	case "for_each-elems":
		g.out.Dyn = "one"
		g.blocks(opt.MaxForEach, rapid.Bool().Draw(t, "scale-collection-attr"), true)
	case "dynamic-blocks":
		g.out.Dyn = "many"
		g.out.RunCap = rapid.IntRange(1, 3).Draw(t, "scale-runcap")
		g.blocks(opt.MaxDyn*g.out.RunCap, rapid.Bool().Draw(t, "scale-collection-attr"), true)
	case "string-bytes":
		g.longString()
	default:
		panic("cfggen: bad scale dimension " + dim)
	}
	return g.out
}

func (g *scaler) bodies() []bodyAt {
	var out []bodyAt
	presentBodies(g.s, g.in, true, 2, &out)
	return out
}

// pickBody: the root body half of the time, else any present body.
func (g *scaler) pickBody() bodyAt {
	bs := g.bodies()
	if len(bs) == 1 || rapid.Bool().Draw(g.t, "scale-at-root") {
		return bs[0]
	}
	return bs[rapid.IntRange(0, len(bs)-1).Draw(g.t, "scale-body")]
}

func freshName(s *BodyS, base string) string {
	name := base
	for s.Attr(name) != nil || s.Block(name) != nil {
		name += "x"
	}
	return name
}

func repeatable(kind string) bool {
	switch kind {
	case "list", "set", "tuple", "map", "objmap":
		return true
	}
	return false
}

func bodyItems(b *BodyI) int {
	n := len(b.Attrs)
	for i := range b.Blocks {
		n += 1 + bodyItems(&b.Blocks[i].Body)
	}
	return n
}

var collKinds = []string{"list", "list", "set", "map"}

func genCollType(t *rapid.T) Type {
	switch rapid.SampledFrom(collKinds).Draw(t, "scale-collkind") {
	case "set":
		e := genPrim(t)
		return Type{K: "set", E: &e}
	case "map":
		e := genElemType(t, 1)
		return Type{K: "map", E: &e}
	}
	e := genElemType(t, 1)
	return Type{K: "list", E: &e}
}

// varied: the value for index i of a primitive string / integer attribute.
func varied(ty Type, i int) (Val, bool) {
	switch {
	case ty.K == "string":
		return Str("v" + strconv.Itoa(i)), true
	case ty.K == "number" && (ty.Int || ty.Uint):
		return Num(strconv.Itoa(i)), true
	case ty.K == "number":
		return Num(strconv.Itoa(i) + ".5"), true
	}
	return Val{}, false
}

// insertAt: position among the existing items where the bulk goes (existing
// items stay before and after it).
func (g *scaler) insertAt(n int) int {
	return rapid.IntRange(0, n).Draw(g.t, "scale-insert-at")
}

// ---------------------------------------------------------------- repeated blocks

// blocks: N blocks of one repeatable type in one body.  collAttr: the type's body
// carries a collection-valued attribute present in every bulk block; uniform: all
// bulk blocks have the same attributes present (one dynamic block can produce
// them).
func (g *scaler) blocks(max int, collAttr, uniform bool) {
	t := g.t
	type cand struct {
		at bodyAt
		bi int
	}
	var cands []cand
	bodies := g.bodies()
	for _, b := range bodies {
		for bi := range b.s.Blocks {
			if repeatable(b.s.Blocks[bi].Kind) {
				cands = append(cands, cand{b, bi})
			}
		}
	}
	var at bodyAt
	var bs *BlockS
	if len(cands) > 0 && rapid.IntRange(0, 2).Draw(t, "scale-existing-type") > 0 {
		c := cands[rapid.IntRange(0, len(cands)-1).Draw(t, "scale-type")]
		at, bs = c.at, &c.at.s.Blocks[c.bi]
		g.out.Var += "+existing-type"
	} else {
		at = bodies[0]
		nb := BlockS{Name: freshName(at.s, rapid.SampledFrom(blockBases).Draw(t, "namebase")+"99")}
		nb.Kind = rapid.SampledFrom([]string{"list", "list", "set", "tuple", "map", "objmap"}).Draw(t, "bkind")
		switch nb.Kind {
		case "map", "objmap":
			nb.NLabels = rapid.SampledFrom([]int{1, 1, 2, 3}).Draw(t, "nlabels")
		default:
			nb.NLabels = rapid.SampledFrom([]int{0, 0, 0, 1, 2}).Draw(t, "nlabels")
		}
		nb.Ptr = rapid.Bool().Draw(t, "bptr")
		childDyn := nb.Kind == "tuple" || nb.Kind == "objmap"
		depth := 0
		if rapid.IntRange(0, 3).Draw(t, "scale-nested-children") == 0 {
			depth = 1
		}
		body := genBody(t, &namer{n: 100}, depth, childDyn, false, nb.Name)
		nb.Body = &body
		at.s.Blocks = append(at.s.Blocks, nb)
		bs = &at.s.Blocks[len(at.s.Blocks)-1]
		g.out.Var += "+new-type"
	}
	g.out.Type = bs.Name
	collName := ""
	if collAttr {
		for _, a := range bs.Body.Attrs {
			switch a.T.K {
			case "list", "set", "map", "tuple":
				collName = a.Name
			}
			if collName != "" {
				break
			}
		}
		if collName == "" {
			collName = freshName(bs.Body, rapid.SampledFrom(attrBases).Draw(t, "namebase")+"98")
			bs.Body.Attrs = append(bs.Body.Attrs, AttrS{Name: collName, T: genCollType(t)})
		}
	}

	// templates
	k := rapid.IntRange(1, 3).Draw(t, "scale-templates")
	tm := make([]BodyI, k)
	for j := range tm {
		if j == 0 || !uniform {
			tm[j] = GenInstance(t, bs.Body)
		} else {
			tm[j] = sameShape(t, bs.Body, &tm[0])
		}
		if collName != "" {
			var attrs []AttrI
			for _, a := range tm[j].Attrs {
				if a.Name != collName {
					attrs = append(attrs, a)
				}
			}
			tm[j].Attrs = append(attrs, AttrI{Name: collName, V: GenVal(t, bs.Body.Attr(collName).T)})
		}
	}
	size := 1
	for j := range tm {
		if s := 1 + bodyItems(&tm[j]); s > size {
			size = s
		}
	}
	if afford := g.opt.Items / size; afford < max {
		max = afford
	}
	n := drawScaleN(t, "scale-n", max)
	g.out.N = n

	// the attribute whose value varies with the index
	vary := ""
	if rapid.IntRange(0, 3).Draw(t, "scale-vary") > 0 {
		for _, a := range bs.Body.Attrs {
			if _, ok := varied(a.T, 0); ok && tm[0].Attr(a.Name) != nil && !tm[0].Attr(a.Name).V.IsNull() {
				vary = a.Name
				break
			}
		}
	}
	// labels
	nl := bs.NLabels
	names := namesInScope(bs)
	uniqueLabels := bs.Kind == "map" || bs.Kind == "objmap" || (nl > 0 && rapid.Bool().Draw(t, "scale-unique-labels"))
	var lbase [][]string
	if nl > 0 {
		lbase = siblingLabels(t, k, nl, names)
	}
	seen := map[string]bool{}
	for _, b := range at.in.BlocksOf(bs.Name) {
		seen[fmt.Sprintf("%q", b.Labels)] = true
	}
	mkLabels := func(i int) []string {
		if nl == 0 {
			return nil
		}
		l := append([]string{}, lbase[i%k]...)
		if uniqueLabels {
			l[nl-1] += strconv.Itoa(i)
			for seen[fmt.Sprintf("%q", l)] {
				l[nl-1] += "_"
			}
			seen[fmt.Sprintf("%q", l)] = true
		}
		return l
	}
	bulk := make([]BlockI, 0, n+1)
	for i := 0; i < n; i++ {
		body := tm[i%k]
		if vary != "" {
			attrs := append([]AttrI{}, body.Attrs...)
			for ai := range attrs {
				if attrs[ai].Name == vary {
					attrs[ai].V, _ = varied(bs.Body.Attr(vary).T, i)
				}
			}
			body = BodyI{Attrs: attrs, Blocks: body.Blocks}
		}
		bulk = append(bulk, BlockI{Type: bs.Name, Labels: mkLabels(i), Body: body})
		if i == n/2 {
			// one ordinary block in the middle of the bulk
			ob := BlockI{Type: bs.Name, Labels: genLabels(t, nl, names), Body: GenInstance(t, bs.Body)}
			key := fmt.Sprintf("%q", ob.Labels)
			if !(bs.Kind == "map" || bs.Kind == "objmap") || !seen[key] {
				seen[key] = true
				bulk = append(bulk, ob)
			}
		}
	}
	// existing blocks of the type stay before and after the bulk
	var pos []int
	for i := range at.in.Blocks {
		if at.in.Blocks[i].Type == bs.Name {
			pos = append(pos, i)
		}
	}
	ins := len(at.in.Blocks)
	if p := g.insertAt(len(pos)); p < len(pos) {
		ins = pos[p]
	}
	nbl := make([]BlockI, 0, len(at.in.Blocks)+len(bulk))
	nbl = append(nbl, at.in.Blocks[:ins]...)
	nbl = append(nbl, bulk...)
	nbl = append(nbl, at.in.Blocks[ins:]...)
	at.in.Blocks = nbl
	total := len(pos) + len(bulk)
	switch bs.Kind {
	case "list", "set", "tuple":
		bs.Max = rapid.SampledFrom([]int{0, 0, total}).Draw(t, "scale-max")
		// (a nested body's schema is shared by all blocks of its type: only at the
		// root is "as many as there are" a lower bound every body meets)
		if at.s == g.s && rapid.IntRange(0, 2).Draw(t, "scale-min") == 0 {
			bs.Min = total
		}
	}
}

// ---------------------------------------------------------------- attributes of one body

// attrs: N declared attributes in one body (coll: the first template type is a
// collection, so the body holds >= N/k collection values).
func (g *scaler) attrs(coll bool) {
	t := g.t
	at := g.pickBody()
	k := rapid.IntRange(1, 3).Draw(t, "scale-templates")
	if coll {
		k = rapid.IntRange(1, 2).Draw(t, "scale-templates")
	}
	types := make([]Type, k)
	req := make([]bool, k)
	ptr := make([]bool, k)
	present := make([]bool, k)
	vals := make([]Val, k)
	for j := range types {
		if coll {
			types[j] = genCollType(t)
		} else {
			types[j] = genAttrType(t, at.dyn)
		}
		// (a nested body's schema is shared by all blocks of its type: only the root
		// body can take new required attributes)
		req[j] = at.s == g.s && rapid.IntRange(0, 2).Draw(t, "req") == 0
		if !req[j] {
			switch types[j].K {
			case "string", "number", "bool", "object":
				ptr[j] = rapid.Bool().Draw(t, "ptr")
			}
		}
		present[j] = req[j] || j == 0 || rapid.IntRange(0, 3).Draw(t, "present") > 0
		vals[j] = GenVal(t, types[j])
	}
	n := drawScaleN(t, "scale-n", g.opt.MaxAttrs)
	g.out.N = n
	base := rapid.SampledFrom(attrBases).Draw(t, "namebase")
	g.out.Type = base
	var bulk []AttrI
	for i := 0; i < n; i++ {
		j := i % k
		name := freshName(at.s, base+strconv.Itoa(1000+i))
		at.s.Attrs = append(at.s.Attrs, AttrS{Name: name, T: types[j], Req: req[j], Ptr: ptr[j]})
		if !present[j] {
			continue
		}
		v := vals[j]
		if vv, ok := varied(types[j], i); ok {
			v = vv
		}
		bulk = append(bulk, AttrI{Name: name, V: v})
	}
	ins := g.insertAt(len(at.in.Attrs))
	na := append([]AttrI{}, at.in.Attrs[:ins]...)
	na = append(na, bulk...)
	na = append(na, at.in.Attrs[ins:]...)
	at.in.Attrs = na
}

// freeAttrs: N free attributes in one block of kind attrs.
func (g *scaler) freeAttrs() {
	t := g.t
	type cand struct {
		at bodyAt
		bi int
	}
	var cands []cand
	bodies := g.bodies()
	for _, b := range bodies {
		for bi := range b.s.Blocks {
			if b.s.Blocks[bi].Kind == "attrs" {
				cands = append(cands, cand{b, bi})
			}
		}
	}
	var at bodyAt
	var bs *BlockS
	if len(cands) > 0 && rapid.IntRange(0, 2).Draw(t, "scale-existing-type") > 0 {
		c := cands[rapid.IntRange(0, len(cands)-1).Draw(t, "scale-type")]
		at, bs = c.at, &c.at.s.Blocks[c.bi]
	} else {
		at = bodies[0]
		nb := BlockS{Name: freshName(at.s, rapid.SampledFrom(blockBases).Draw(t, "namebase")+"97"), Kind: "attrs"}
		e := genPrim(t)
		if rapid.IntRange(0, 2).Draw(t, "attrs-list") == 0 {
			el := genPrim(t)
			e = Type{K: "list", E: &el}
		}
		nb.Elem = &e
		at.s.Blocks = append(at.s.Blocks, nb)
		bs = &at.s.Blocks[len(at.s.Blocks)-1]
	}
	g.out.Type = bs.Name
	var blk *BlockI
	if l := at.in.BlocksOf(bs.Name); len(l) > 0 {
		blk = l[0]
	} else {
		at.in.Blocks = append(at.in.Blocks, BlockI{Type: bs.Name})
		blk = &at.in.Blocks[len(at.in.Blocks)-1]
	}
	n := drawScaleN(t, "scale-n", g.opt.MaxFree)
	g.out.N = n
	k := rapid.IntRange(1, 3).Draw(t, "scale-templates")
	vals := make([]Val, k)
	pre := make([]string, k)
	for j := range vals {
		vals[j] = GenVal(t, *bs.Elem)
		pre[j] = rapid.SampledFrom([]string{"free", "x-", "ñ"}).Draw(t, "free")
	}
	taken := map[string]bool{}
	for _, a := range blk.Body.Attrs {
		taken[a.Name] = true
	}
	var bulk []AttrI
	for i := 0; i < n; i++ {
		name := pre[i%k] + strconv.Itoa(100+i)
		if taken[name] {
			continue
		}
		v := vals[i%k]
		if vv, ok := varied(*bs.Elem, i); ok && i%2 == 0 {
			v = vv
		}
		bulk = append(bulk, AttrI{Name: name, V: v})
	}
	ins := g.insertAt(len(blk.Body.Attrs))
	na := append([]AttrI{}, blk.Body.Attrs[:ins]...)
	na = append(na, bulk...)
	na = append(na, blk.Body.Attrs[ins:]...)
	blk.Body.Attrs = na
}

// ---------------------------------------------------------------- elements of one value

func setAttr(in *BodyI, name string, v Val, pos int) {
	var attrs []AttrI
	for _, a := range in.Attrs {
		if a.Name != name {
			attrs = append(attrs, a)
		}
	}
	if pos > len(attrs) {
		pos = len(attrs)
	}
	na := append([]AttrI{}, attrs[:pos]...)
	na = append(na, AttrI{Name: name, V: v})
	in.Attrs = append(na, attrs[pos:]...)
}

// elems: one list / set / map / untyped value with N elements.
func (g *scaler) elems() {
	t := g.t
	at := g.pickBody()
	var a *AttrS
	var cands []int
	for i := range at.s.Attrs {
		switch at.s.Attrs[i].T.K {
		case "list", "set", "map", "any":
			cands = append(cands, i)
		}
	}
	if len(cands) > 0 && rapid.IntRange(0, 2).Draw(t, "scale-existing-attr") > 0 {
		a = &at.s.Attrs[cands[rapid.IntRange(0, len(cands)-1).Draw(t, "scale-attr")]]
	} else {
		ty := genCollType(t)
		if at.dyn && rapid.IntRange(0, 4).Draw(t, "scale-any") == 0 {
			ty = Type{K: "any"}
		}
		at.s.Attrs = append(at.s.Attrs, AttrS{Name: freshName(at.s, rapid.SampledFrom(attrBases).Draw(t, "namebase")+"96"), T: ty, Req: at.s == g.s && rapid.Bool().Draw(t, "req")})
		a = &at.s.Attrs[len(at.s.Attrs)-1]
	}
	g.out.Type, g.out.Var = a.Name, a.T.K
	n := drawScaleN(t, "scale-n", g.opt.MaxElems)
	g.out.N = n
	k := rapid.IntRange(1, 3).Draw(t, "scale-templates")
	var v Val
	switch a.T.K {
	case "list", "set":
		tv := make([]Val, k)
		for j := range tv {
			tv[j] = GenVal(t, *a.T.E)
		}
		v = Val{K: "l", L: make([]Val, n)}
		distinct := a.T.K == "set" || rapid.Bool().Draw(t, "scale-vary")
		for i := range v.L {
			v.L[i] = tv[i%k]
			if vv, ok := varied(*a.T.E, i); ok && distinct {
				v.L[i] = vv
			}
		}
	case "map":
		tv := make([]Val, k)
		keys := make([]string, k)
		for j := range tv {
			tv[j] = GenVal(t, *a.T.E)
			keys[j] = rapid.SampledFrom(keyPool).Draw(t, "key")
		}
		v = Val{K: "m", M: uniqueKeys(keys, tv, n)}
	default: // any: a tuple or an object of N untyped values
		tv := make([]Val, k)
		keys := make([]string, k)
		for j := range tv {
			tv[j] = genAny(t, 1)
			keys[j] = rapid.SampledFrom(keyPool).Draw(t, "key")
		}
		if rapid.Bool().Draw(t, "scale-any-object") {
			v = Val{K: "m", M: uniqueKeys(keys, tv, n)}
			g.out.Var = "any-object"
		} else {
			v = Val{K: "l", L: make([]Val, n)}
			for i := range v.L {
				v.L[i] = tv[i%k]
			}
			g.out.Var = "any-tuple"
		}
	}
	setAttr(at.in, a.Name, v, g.insertAt(len(at.in.Attrs)))
}

// uniqueKeys: n entries, key = pool key + index (made distinct if two collide).
func uniqueKeys(keys []string, tv []Val, n int) []KV {
	out := make([]KV, n)
	seen := make(map[string]bool, n)
	k := len(keys)
	for i := range out {
		key := keys[i%k] + strconv.Itoa(i)
		for seen[key] {
			key += "_"
		}
		seen[key] = true
		out[i] = KV{K: key, V: tv[i%k]}
	}
	return out
}

// objectFields: an object-typed attribute with N fields.
func (g *scaler) objectFields() {
	t := g.t
	at := g.pickBody()
	n := drawScaleN(t, "scale-n", g.opt.MaxAttrs)
	g.out.N = n
	k := rapid.IntRange(1, 3).Draw(t, "scale-templates")
	types := make([]Type, k)
	vals := make([]Val, k)
	pre := make([]string, k)
	for j := range types {
		types[j] = genElemType(t, 1)
		vals[j] = GenVal(t, types[j])
		pre[j] = rapid.SampledFrom([]string{"f", "key-", "ö"}).Draw(t, "fname")
	}
	ty := Type{K: "object"}
	v := Val{K: "m"}
	for i := 0; i < n; i++ {
		name := pre[i%k] + strconv.Itoa(i)
		ty.F = append(ty.F, Field{N: name, T: types[i%k]})
		fv := vals[i%k]
		if vv, ok := varied(types[i%k], i); ok {
			fv = vv
		}
		v.M = append(v.M, KV{K: name, V: fv})
	}
	a := AttrS{Name: freshName(at.s, rapid.SampledFrom(attrBases).Draw(t, "namebase")+"95"), T: ty, Req: at.s == g.s && rapid.Bool().Draw(t, "req")}
	if !a.Req {
		a.Ptr = rapid.Bool().Draw(t, "ptr")
	}
	at.s.Attrs = append(at.s.Attrs, a)
	g.out.Type = a.Name
	setAttr(at.in, a.Name, v, g.insertAt(len(at.in.Attrs)))
}

// ---------------------------------------------------------------- labels

// labels: a block type with N labels (1-3 instances).
func (g *scaler) labels() {
	t := g.t
	at := g.bodies()[0]
	n := drawScaleN(t, "scale-n", g.opt.MaxLabels)
	g.out.N = n
	nb := BlockS{Name: freshName(at.s, rapid.SampledFrom(blockBases).Draw(t, "namebase")+"94"), NLabels: n}
	nb.Kind = rapid.SampledFrom([]string{"single", "list", "set", "tuple", "map", "objmap"}).Draw(t, "bkind")
	nb.Ptr = rapid.Bool().Draw(t, "bptr")
	body := genBody(t, &namer{n: 100}, 0, nb.Kind == "single" || nb.Kind == "tuple" || nb.Kind == "objmap", false, nb.Name)
	nb.Body = &body
	at.s.Blocks = append(at.s.Blocks, nb)
	bs := &at.s.Blocks[len(at.s.Blocks)-1]
	g.out.Type, g.out.Var = bs.Name, bs.Kind
	k := rapid.IntRange(1, 4).Draw(t, "scale-templates")
	pool := genLabels(t, k, namesInScope(bs))
	cnt := 1
	if bs.Kind != "single" {
		cnt = rapid.IntRange(1, 3).Draw(t, "nrep")
	}
	ins := g.insertAt(len(at.in.Blocks))
	var bulk []BlockI
	for c := 0; c < cnt; c++ {
		l := make([]string, n)
		for i := range l {
			l[i] = pool[i%k]
		}
		// instances differ in one label somewhere (the last one, or one in the middle)
		if c > 0 {
			p := n - 1
			if rapid.Bool().Draw(t, "scale-differ-in-the-middle") {
				p = n / 2
			}
			l[p] += strconv.Itoa(c)
		}
		bulk = append(bulk, BlockI{Type: bs.Name, Labels: l, Body: GenInstance(t, bs.Body)})
	}
	nbl := append([]BlockI{}, at.in.Blocks[:ins]...)
	nbl = append(nbl, bulk...)
	at.in.Blocks = append(nbl, at.in.Blocks[ins:]...)
}

// ---------------------------------------------------------------- nesting depth

// blockDepth: a chain of block types nested D deep below the root, one block per
// level (two at one level in the middle).
func (g *scaler) blockDepth() {
	t := g.t
	at := g.bodies()[0]
	d := drawScaleN(t, "scale-n", g.opt.MaxDepth)
	g.out.N = d
	k := rapid.IntRange(1, 3).Draw(t, "scale-templates")
	type level struct {
		name  string
		kind  string
		nl    int
		attrs []AttrS
		ptr   bool
	}
	lv := make([]level, k)
	for j := range lv {
		lv[j].name = freshName(at.s, rapid.SampledFrom(blockBases).Draw(t, "namebase")+"93")
		lv[j].kind = rapid.SampledFrom([]string{"single", "single", "list", "map"}).Draw(t, "bkind")
		lv[j].nl = rapid.SampledFrom([]int{0, 0, 1}).Draw(t, "nlabels")
		if lv[j].kind == "map" {
			lv[j].nl = 1
		}
		lv[j].ptr = rapid.Bool().Draw(t, "bptr")
		lv[j].attrs = genBody(t, &namer{n: 100 + 10*j}, 0, false, false, "").Attrs
		if len(lv[j].attrs) > 2 {
			lv[j].attrs = lv[j].attrs[:2]
		}
	}
	g.out.Type = lv[0].name
	// (at most one level of the chain is a set of blocks: go-cty hashes and orders
	// the elements of a set every time it is walked, which for sets nested in sets
	// D deep is beyond what a case can afford)
	setLevel := -1
	if rapid.IntRange(0, 2).Draw(t, "scale-set-level") == 0 {
		setLevel = rapid.IntRange(0, d-1).Draw(t, "scale-set-at")
	}
	// schema and instance, inside out
	var cs *BlockS
	var ci []BlockI
	for i := d - 1; i >= 0; i-- {
		l := lv[i%k]
		if i == setLevel {
			l.kind, l.nl = "set", rapid.SampledFrom([]int{0, 0, 1}).Draw(t, "nlabels")
		}
		body := &BodyS{Attrs: append([]AttrS{}, l.attrs...)}
		if cs != nil {
			body.Blocks = []BlockS{*cs}
		}
		bs := &BlockS{Name: l.name, Kind: l.kind, NLabels: l.nl, Ptr: l.ptr, Body: body}
		inst := GenInstance(t, &BodyS{Attrs: body.Attrs})
		inst.Blocks = ci
		names := namesInScope(bs)
		blks := []BlockI{{Type: l.name, Labels: genLabels(t, l.nl, names), Body: inst}}
		if i == d/2 && l.kind != "single" {
			// a sibling without children in the middle of the chain
			sib := BlockI{Type: l.name, Labels: genLabels(t, l.nl, names), Body: GenInstance(t, &BodyS{Attrs: body.Attrs})}
			if l.kind != "map" || fmt.Sprintf("%q", sib.Labels) != fmt.Sprintf("%q", blks[0].Labels) {
				if rapid.Bool().Draw(t, "scale-sibling-first") {
					blks = []BlockI{sib, blks[0]}
				} else {
					blks = append(blks, sib)
				}
			}
		}
		cs, ci = bs, blks
	}
	at.s.Blocks = append(at.s.Blocks, *cs)
	ins := g.insertAt(len(at.in.Blocks))
	nbl := append([]BlockI{}, at.in.Blocks[:ins]...)
	nbl = append(nbl, ci...)
	at.in.Blocks = append(nbl, at.in.Blocks[ins:]...)
}

// valueDepth: one collection value nested D deep: untyped (tuples and objects in a
// drawn pattern) or typed list(list(...)).
func (g *scaler) valueDepth() {
	t := g.t
	at := g.bodies()[0]
	typed := rapid.IntRange(0, 2).Draw(t, "scale-typed") == 0
	max := g.opt.MaxVDepth
	if typed {
		max = g.opt.MaxTDepth
	}
	d := drawScaleN(t, "scale-n", max)
	g.out.N = d
	var ty Type
	var v Val
	if typed {
		g.out.Var = "typed-list"
		ty = genPrim(t)
		v = GenVal(t, ty)
		for i := 0; i < d; i++ {
			e := ty
			ty = Type{K: "list", E: &e}
			v = List(v)
		}
	} else {
		g.out.Var = "any"
		ty = Type{K: "any"}
		k := rapid.IntRange(1, 3).Draw(t, "scale-templates")
		pat := make([]int, k)
		keys := make([]string, k)
		side := make([]Val, k)
		for j := range pat {
			pat[j] = rapid.IntRange(0, 3).Draw(t, "scale-level-kind")
			keys[j] = rapid.SampledFrom(keyPool).Draw(t, "key")
			side[j] = genAny(t, 0)
		}
		v = genAny(t, 0)
		for i := d - 1; i >= 0; i-- {
			j := i % k
			switch pat[j] {
			case 0:
				v = List(v)
			case 1:
				v = List(side[j], v)
			case 2:
				v = Obj(KV{K: keys[j], V: v})
			default:
				v = List(v, side[j])
			}
		}
	}
	a := AttrS{Name: freshName(at.s, rapid.SampledFrom(attrBases).Draw(t, "namebase")+"92"), T: ty, Req: rapid.Bool().Draw(t, "req")}
	at.s.Attrs = append(at.s.Attrs, a)
	g.out.Type = a.Name
	setAttr(at.in, a.Name, v, g.insertAt(len(at.in.Attrs)))
}

// ---------------------------------------------------------------- long string

// longString: one string of N*unit bytes (ASCII and multi-byte pieces of the
// ordinary string pool repeated), as an attribute value, a map key or a label.
func (g *scaler) longString() {
	t := g.t
	n := drawScaleN(t, "scale-n", 8193)
	unit := rapid.SampledFrom([]int{1, 1, 4, 16, 64, 128}).Draw(t, "scale-unit")
	for unit > g.opt.MaxStrUnit {
		unit /= 2
	}
	g.out.N = n * unit
	piece := ""
	for len(piece) == 0 {
		piece = rapid.SampledFrom(strPool).Draw(t, "str")
	}
	var b strings.Builder
	for b.Len() < n*unit {
		b.WriteString(piece)
	}
	s := b.String()
	// cut at a rune boundary (the pool is valid UTF-8)
	cut := n * unit
	for cut > 0 && cut < len(s) && s[cut]&0xC0 == 0x80 {
		cut--
	}
	s = s[:cut]
	if rapid.IntRange(0, 3).Draw(t, "scale-heredoc-able") == 0 {
		s = strings.ReplaceAll(s, "\r", " ") + "\n"
	}
	at := g.pickBody()
	switch rapid.IntRange(0, 3).Draw(t, "scale-string-place") {
	case 0:
		g.out.Var = "map-key"
		e := genPrim(t)
		a := AttrS{Name: freshName(at.s, rapid.SampledFrom(attrBases).Draw(t, "namebase")+"91"), T: Type{K: "map", E: &e}, Req: at.s == g.s && rapid.Bool().Draw(t, "req")}
		at.s.Attrs = append(at.s.Attrs, a)
		g.out.Type = a.Name
		v := Obj(KV{K: "k", V: GenVal(t, e)}, KV{K: s, V: GenVal(t, e)})
		setAttr(at.in, a.Name, v, g.insertAt(len(at.in.Attrs)))
	case 1:
		g.out.Var = "label"
		at = g.bodies()[0]
		nb := BlockS{Name: freshName(at.s, rapid.SampledFrom(blockBases).Draw(t, "namebase")+"90"), NLabels: 1}
		nb.Kind = rapid.SampledFrom([]string{"single", "list", "map"}).Draw(t, "bkind")
		body := genBody(t, &namer{n: 100}, 0, nb.Kind == "single", false, nb.Name)
		nb.Body = &body
		at.s.Blocks = append(at.s.Blocks, nb)
		g.out.Type = nb.Name
		at.in.Blocks = append(at.in.Blocks, BlockI{Type: nb.Name, Labels: []string{s}, Body: GenInstance(t, nb.Body)})
	default:
		g.out.Var = "attribute-value"
		a := AttrS{Name: freshName(at.s, rapid.SampledFrom(attrBases).Draw(t, "namebase")+"91"), T: Type{K: "string"}, Req: at.s == g.s && rapid.Bool().Draw(t, "req")}
		at.s.Attrs = append(at.s.Attrs, a)
		g.out.Type = a.Name
		setAttr(at.in, a.Name, Str(s), g.insertAt(len(at.in.Attrs)))
	}
}

// ---------------------------------------------------------------- measuring

// ScaleCounts measures the counts of an instance: the largest number of blocks of
// one type in one body, of attributes in one body, of elements of one collection
// value, of labels of one block, the number of collection values, the nesting
// depth of blocks and of values, the longest string.
type ScaleCounts struct {
	Blocks, Attrs, Elems, Labels, Collections, BlockDepth, ValueDepth, StringBytes int
}

func (c *ScaleCounts) val(v Val, depth int) {
	switch v.K {
	case "s":
		if len(v.S) > c.StringBytes {
			c.StringBytes = len(v.S)
		}
	case "l", "m":
		c.Collections++
		if depth+1 > c.ValueDepth {
			c.ValueDepth = depth + 1
		}
		if n := len(v.L) + len(v.M); n > c.Elems {
			c.Elems = n
		}
		for _, e := range v.L {
			c.val(e, depth+1)
		}
		for _, kv := range v.M {
			if len(kv.K) > c.StringBytes {
				c.StringBytes = len(kv.K)
			}
			c.val(kv.V, depth+1)
		}
	}
}

func (c *ScaleCounts) body(b *BodyI, depth int) {
	if depth > c.BlockDepth {
		c.BlockDepth = depth
	}
	if len(b.Attrs) > c.Attrs {
		c.Attrs = len(b.Attrs)
	}
	for _, a := range b.Attrs {
		c.val(a.V, 0)
	}
	per := map[string]int{}
	for i := range b.Blocks {
		bl := &b.Blocks[i]
		per[bl.Type]++
		if per[bl.Type] > c.Blocks {
			c.Blocks = per[bl.Type]
		}
		if len(bl.Labels) > c.Labels {
			c.Labels = len(bl.Labels)
		}
		for _, l := range bl.Labels {
			if len(l) > c.StringBytes {
				c.StringBytes = len(l)
			}
		}
		c.body(&bl.Body, depth+1)
	}
}

// CountScale measures an instance.
func CountScale(in *BodyI) ScaleCounts {
	var c ScaleCounts
	c.body(in, 0)
	return c
}

// DynCounts: the number of dynamic blocks of a render tree and the largest number
// of elements of one literal or variable for_each collection at the outermost level.
func DynCounts(b RBody, vars []KV) (dyns, forEach int) {
	for _, it := range b.Items {
		switch {
		case it.Dyn != nil:
			dyns++
			fe := it.Dyn.ForEach
			if fe.Lit != nil {
				if n := len(fe.Lit.L) + len(fe.Lit.M); n > forEach {
					forEach = n
				}
			} else if len(fe.Path) == 0 {
				for _, kv := range vars {
					if kv.K == fe.Ref {
						if n := len(kv.V.L) + len(kv.V.M); n > forEach {
							forEach = n
						}
					}
				}
			}
			d2, f2 := DynCounts(it.Dyn.Content, vars)
			dyns += d2
			if f2 > forEach {
				forEach = f2
			}
		case it.Block != nil:
			d2, f2 := DynCounts(it.Block.Body, vars)
			dyns += d2
			if f2 > forEach {
				forEach = f2
			}
		}
	}
	return dyns, forEach
}

// Items counts the items of a render tree (attributes, blocks, dynamic blocks) at
// any depth.
func (b RBody) ItemCount() int {
	n := 0
	for _, it := range b.Items {
		n++
		switch {
		case it.Block != nil:
			n += it.Block.Body.ItemCount()
		case it.Dyn != nil:
			n += it.Dyn.Content.ItemCount()
		}
	}
	return n
}

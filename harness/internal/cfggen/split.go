package cfggen

import (
	"fmt"
	"reflect"

	hcl "Havoc/pkg/profile/yaotl"
	"Havoc/pkg/profile/yaotl/hcldec"

	"pgregory.net/rapid"
)

// Two-stage ("partial, then the remainder") decoding plans.
//
// A consumer of a body need not ask for everything the body may hold in one go:
// it may ask for a subset first (hcl.Body.PartialContent, hcldec.PartialDecode, a
// gohcl struct with a `yaotl:",remain"` field) and for the rest from the remaining
// body afterwards.  A SplitP says, for one body schema and recursively for the
// bodies of its block types, which names belong to the first stage.
//
// (Optional addition used by the C19 check; nothing else in this package depends
// on it.)

type SplitP struct {
	A   []string `json:"a,omitempty"`   // attribute names and block type names asked for in the first stage
	Sub []SplitP `json:"sub,omitempty"` // index-aligned with BodyS.Blocks (zero value for free-attribute blocks)
	// P2: the second stage is partial too, and a third, empty request on what then
	// remains checks that nothing is left over.
	P2 bool `json:"p2,omitempty"`
	// Just: (bodies without block types only) the second stage reads the remainder
	// in free-attributes mode (hcl.Body.JustAttributes).
	Just bool `json:"just,omitempty"`
}

// First reports whether name belongs to the first stage.  A nil plan is the
// one-stage plan: everything is asked for at once.
func (p *SplitP) First(name string) bool {
	if p == nil {
		return true
	}
	for _, n := range p.A {
		if n == name {
			return true
		}
	}
	return false
}

// SubOf is the plan for the body of s.Blocks[i] (nil for a nil plan).
func (p *SplitP) SubOf(i int) *SplitP {
	if p == nil || i >= len(p.Sub) {
		return nil
	}
	return &p.Sub[i]
}

// GenSplit draws a plan for the schema.
func GenSplit(t *rapid.T, s *BodyS) SplitP {
	var p SplitP
	// 0: mostly first stage, 1: even, 2: mostly remainder, 3: everything in the remainder
	bias := rapid.IntRange(0, 3).Draw(t, "split-bias")
	first := func() bool {
		c := rapid.IntRange(0, 3).Draw(t, "first-stage")
		switch bias {
		case 0:
			return c > 0
		case 1:
			return c > 1
		case 2:
			return c > 2
		}
		return false
	}
	for _, a := range s.Attrs {
		if first() {
			p.A = append(p.A, a.Name)
		}
	}
	for i := range s.Blocks {
		if first() {
			p.A = append(p.A, s.Blocks[i].Name)
		}
	}
	p.P2 = rapid.IntRange(0, 2).Draw(t, "second-stage-partial") == 0
	if len(s.Blocks) == 0 {
		p.Just = rapid.IntRange(0, 2).Draw(t, "remainder-just-attributes") == 0
	}
	for i := range s.Blocks {
		if s.Blocks[i].Body != nil {
			p.Sub = append(p.Sub, GenSplit(t, s.Blocks[i].Body))
		} else {
			p.Sub = append(p.Sub, SplitP{})
		}
	}
	return p
}

// HCLSchema is the low-level schema for the names of s that pick accepts
// (nil: all of them).
func HCLSchema(s *BodyS, pick func(name string) bool) *hcl.BodySchema {
	out := &hcl.BodySchema{}
	for _, a := range s.Attrs {
		if pick == nil || pick(a.Name) {
			out.Attributes = append(out.Attributes, hcl.AttributeSchema{Name: a.Name, Required: a.Req})
		}
	}
	for i := range s.Blocks {
		bs := &s.Blocks[i]
		if pick == nil || pick(bs.Name) {
			h := hcl.BlockHeaderSchema{Type: bs.Name}
			if bs.Kind != "attrs" {
				h.LabelNames = labelNames(bs.NLabels)
			}
			out.Blocks = append(out.Blocks, h)
		}
	}
	return out
}

// SplitSpec cuts the object spec of a body schema (no label specs) in two by the plan.
func SplitSpec(s *BodyS, p *SplitP) (first, rest hcldec.ObjectSpec) {
	first, rest = hcldec.ObjectSpec{}, hcldec.ObjectSpec{}
	for k, sp := range Spec(s, 0).(hcldec.ObjectSpec) {
		if p.First(k) {
			first[k] = sp
		} else {
			rest[k] = sp
		}
	}
	return first, rest
}

var bodyIfaceType = reflect.TypeOf((*hcl.Body)(nil)).Elem()

// SplitStructType is StructType with every body cut in two by the plan: the
// first-stage fields stay where they are, the others move into a nested struct R
// that receives the remainder:
//
//	later=false   R struct{...} `yaotl:",remain"`          decoded by the same DecodeBody call
//	later=true    Rest hcl.Body `yaotl:",remain"` + R      R is decoded from Rest by a second DecodeBody call
//
// Field names (L<i>, A<i>, B<i>) are those of StructType.
func SplitStructType(b *BodyS, nlabels int, p *SplitP, later bool) reflect.Type {
	var fs, rs []reflect.StructField
	for i := 0; i < nlabels; i++ {
		fs = append(fs, reflect.StructField{
			Name: fmt.Sprintf("L%d", i),
			Type: reflect.TypeOf(""),
			Tag:  reflect.StructTag(fmt.Sprintf(`yaotl:"label%d,label"`, i)),
		})
	}
	for i := range b.Attrs {
		a := &b.Attrs[i]
		tag := fmt.Sprintf(`yaotl:"%s"`, a.Name)
		if !a.Req && !a.Ptr {
			tag = fmt.Sprintf(`yaotl:"%s,optional"`, a.Name)
		}
		f := reflect.StructField{Name: fmt.Sprintf("A%d", i), Type: attrGoType(a), Tag: reflect.StructTag(tag)}
		if p.First(a.Name) {
			fs = append(fs, f)
		} else {
			rs = append(rs, f)
		}
	}
	for i := range b.Blocks {
		bs := &b.Blocks[i]
		f := reflect.StructField{
			Name: fmt.Sprintf("B%d", i),
			Type: splitBlockGoType(bs, p.SubOf(i), later),
			Tag:  reflect.StructTag(fmt.Sprintf(`yaotl:"%s,block"`, bs.Name)),
		}
		if p.First(bs.Name) {
			fs = append(fs, f)
		} else {
			rs = append(rs, f)
		}
	}
	rt := reflect.StructOf(rs)
	if later {
		fs = append(fs, reflect.StructField{Name: "Rest", Type: bodyIfaceType, Tag: `yaotl:",remain"`})
		fs = append(fs, reflect.StructField{Name: "R", Type: rt})
	} else {
		fs = append(fs, reflect.StructField{Name: "R", Type: rt, Tag: `yaotl:",remain"`})
	}
	return reflect.StructOf(fs)
}

func splitBlockGoType(bs *BlockS, p *SplitP, later bool) reflect.Type {
	var et reflect.Type
	if bs.Kind == "attrs" {
		et = attrsBlockType(bs)
	} else {
		et = SplitStructType(bs.Body, bs.NLabels, p, later)
	}
	switch bs.Kind {
	case "single", "attrs":
		if bs.Req {
			return et
		}
		return reflect.PtrTo(et)
	default:
		if bs.Ptr {
			return reflect.SliceOf(reflect.PtrTo(et))
		}
		return reflect.SliceOf(et)
	}
}

// Joiner converts values of SplitStructType back into values of StructType; it
// keeps the plain struct types it has built (reflect.StructOf is not cheap).
type Joiner struct {
	types map[*BodyS]reflect.Type
}

func (j *Joiner) plain(b *BodyS, nlabels int) reflect.Type {
	if j.types == nil {
		j.types = map[*BodyS]reflect.Type{}
	}
	// (a body schema belongs to exactly one block type, so nlabels is a function of b)
	if t, ok := j.types[b]; ok {
		return t
	}
	t := StructType(b, nlabels)
	j.types[b] = t
	return t
}

// JoinSplit converts a value of SplitStructType(b, nlabels, p, _) into the value of
// StructType(b, nlabels) with the same content.
func JoinSplit(b *BodyS, nlabels int, p *SplitP, v reflect.Value) reflect.Value {
	return (&Joiner{}).Join(b, nlabels, p, v)
}

func (j *Joiner) Join(b *BodyS, nlabels int, p *SplitP, v reflect.Value) reflect.Value {
	out := reflect.New(j.plain(b, nlabels)).Elem()
	r := v.FieldByName("R")
	get := func(name string, first bool) reflect.Value {
		if first {
			return v.FieldByName(name)
		}
		return r.FieldByName(name)
	}
	fi := 0
	for i := 0; i < nlabels; i++ {
		out.Field(fi).Set(v.FieldByName(fmt.Sprintf("L%d", i)))
		fi++
	}
	for i := range b.Attrs {
		out.Field(fi).Set(get(fmt.Sprintf("A%d", i), p.First(b.Attrs[i].Name)))
		fi++
	}
	for i := range b.Blocks {
		bs := &b.Blocks[i]
		src := get(fmt.Sprintf("B%d", i), p.First(bs.Name))
		out.Field(fi).Set(j.joinBlock(bs, p.SubOf(i), src, out.Field(fi).Type()))
		fi++
	}
	return out
}

func (j *Joiner) joinBlock(bs *BlockS, p *SplitP, src reflect.Value, dst reflect.Type) reflect.Value {
	switch src.Kind() {
	case reflect.Ptr:
		if src.IsNil() {
			return reflect.Zero(dst)
		}
		np := reflect.New(dst.Elem())
		np.Elem().Set(j.joinBlock(bs, p, src.Elem(), dst.Elem()))
		return np
	case reflect.Slice:
		if src.IsNil() {
			return reflect.Zero(dst)
		}
		s := reflect.MakeSlice(dst, src.Len(), src.Len())
		for i := 0; i < src.Len(); i++ {
			s.Index(i).Set(j.joinBlock(bs, p, src.Index(i), dst.Elem()))
		}
		return s
	}
	if bs.Kind == "attrs" {
		return src
	}
	return j.Join(bs.Body, bs.NLabels, p, src)
}

// RemainderRefs counts, over the render tree, the items inside GENERATED blocks
// (the content body of a dynamic block, and the static blocks nested in it, at any
// depth) that refer to an iterator - an attribute whose expression is a reference,
// a nested dynamic block, or a nested static block that holds one of these - and
// fall into the remainder of the plan for the body they are in.
func RemainderRefs(s *BodyS, p *SplitP, b RBody) int {
	return remainderRefs(s, p, b, false)
}

func remainderRefs(s *BodyS, p *SplitP, b RBody, gen bool) int {
	n := 0
	if gen {
		for _, c := range b.Items {
			switch {
			case c.Attr != nil && c.Attr.E.Ref != "" && !p.First(c.Attr.Name):
				n++
			case c.Dyn != nil && !p.First(c.Dyn.Type):
				n++
			case c.Block != nil && !p.First(c.Block.Type) && hasRef(c.Block.Body):
				n++
			}
		}
	}
	if s == nil {
		return n
	}
	for _, it := range b.Items {
		var typ string
		var body *RBody
		switch {
		case it.Block != nil:
			typ, body = it.Block.Type, &it.Block.Body
		case it.Dyn != nil:
			typ, body = it.Dyn.Type, &it.Dyn.Content
		default:
			continue
		}
		for i := range s.Blocks {
			bs := &s.Blocks[i]
			if bs.Name == typ && bs.Body != nil {
				n += remainderRefs(bs.Body, p.SubOf(i), *body, gen || it.Dyn != nil)
				break
			}
		}
	}
	return n
}

func hasRef(b RBody) bool {
	for _, it := range b.Items {
		switch {
		case it.Attr != nil && it.Attr.E.Ref != "":
			return true
		case it.Dyn != nil:
			return true
		case it.Block != nil && hasRef(it.Block.Body):
			return true
		}
	}
	return false
}

// FreeRefs counts the free attributes (bodies read in free-attributes mode) of
// GENERATED blocks whose expression refers to an iterator.
func FreeRefs(b RBody) int {
	n := 0
	for _, it := range b.Items {
		switch {
		case it.Dyn != nil:
			if it.Dyn.Free {
				for _, c := range it.Dyn.Content.Items {
					if c.Attr != nil && c.Attr.E.Ref != "" {
						n++
					}
				}
			}
			n += FreeRefs(it.Dyn.Content)
		case it.Block != nil:
			n += FreeRefs(it.Block.Body)
		}
	}
	return n
}

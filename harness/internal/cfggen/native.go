package cfggen

import (
	"strings"
	"unicode/utf8"

	"pgregory.net/rapid"
)

// Native-syntax renderer.  With Noise off the output is the plain canonical
// layout; with Noise on every separator, comment position and optional newline
// is drawn from rapid.

type Native struct {
	T     *rapid.T
	Noise bool
	CRLF  bool // line endings (between tokens only; heredoc bodies keep LF)
	Stats map[string]int
	// Sparse (optional, for very large bodies): with Sparse > 1 only every
	// Sparse-th layout decision is drawn, all others take the plain layout, so the
	// noise is spread over the whole text at a bounded number of draws.
	Sparse int
	sites  int
}

func (n *Native) bump(k string) {
	if n.Stats != nil {
		n.Stats[k]++
	}
}

func (n *Native) pick(label string, k int) int {
	if !n.Noise || k <= 1 {
		return 0
	}
	if n.Sparse > 1 {
		n.sites++
		if n.sites%n.Sparse != 0 {
			return 0
		}
	}
	return rapid.IntRange(0, k-1).Draw(n.T, label)
}

func (n *Native) nl() string {
	if n.CRLF {
		return "\r\n"
	}
	return "\n"
}

// sp: optional space between tokens where none is required.
func (n *Native) sp() string {
	switch n.pick("sp", 8) {
	case 0, 1, 2:
		return " "
	case 3:
		return ""
	case 4:
		return "  "
	case 5:
		n.bump("noise:tab")
		return "\t"
	case 6:
		return " " + n.inlineComment() + " "
	default:
		return "   "
	}
}

// sp1: at least one separator is required here (between two words).
func (n *Native) sp1() string {
	s := n.sp()
	if s == "" {
		return " "
	}
	return s
}

var commentTexts = []string{"c", "note: x = 1", "{", "}", "\"", "${x}", "*", "EOT", "é", "= [", "/* nested-looking"}

func (n *Native) inlineComment() string {
	k := 1
	if rapid.IntRange(0, 3).Draw(n.T, "comment-run") == 3 {
		k = 2
		n.bump("noise:inline-comment-run")
	}
	var b strings.Builder
	for i := 0; i < k; i++ {
		n.bump("noise:inline-comment")
		txt := rapid.SampledFrom(commentTexts).Draw(n.T, "comment")
		txt = strings.ReplaceAll(txt, "*/", "* /")
		if i > 0 {
			b.WriteString(" ")
		}
		b.WriteString("/* " + txt + " */")
	}
	return b.String()
}

// lineComment returns a comment that ends the line (includes the newline).
func (n *Native) lineComment() string {
	txt := rapid.SampledFrom(commentTexts).Draw(n.T, "comment")
	switch rapid.IntRange(0, 2).Draw(n.T, "cstyle") {
	case 0:
		n.bump("noise:hash-comment")
		return "# " + txt + n.nl()
	case 1:
		n.bump("noise:slash-comment")
		return "//" + txt + n.nl()
	default:
		n.bump("noise:block-comment")
		return "/* " + strings.ReplaceAll(txt, "*/", "* /") + "\n   spans lines */" + n.nl()
	}
}

// eol ends a body item: optional trailing comment, then newline(s).
func (n *Native) eol() string {
	switch n.pick("eol", 6) {
	case 0, 1, 2:
		return n.nl()
	case 3:
		if rapid.IntRange(0, 2).Draw(n.T, "inline-before-line-comment") == 2 {
			n.bump("noise:inline-then-line-comment")
			return n.sp() + n.inlineComment() + " " + n.lineComment()
		}
		return n.sp() + n.lineComment()
	case 4:
		return n.nl() + n.nl()
	default:
		return " " + n.nl()
	}
}

// lead: what may precede a body item on its own lines.
func (n *Native) lead(ind string) string {
	switch n.pick("lead", 6) {
	case 0, 1, 2, 3:
		return ""
	case 4:
		return ind + n.lineComment()
	default:
		return n.nl()
	}
}

// deep: (very large bodies only) the indentation stops growing 24 levels down, so
// that a value nested a thousand levels deep is not a text of megabytes of spaces.
func (n *Native) deep(level int) int {
	if n.Sparse > 0 && level > 24 {
		return 24 + level%8
	}
	return level
}

func (n *Native) indent(level int) string {
	level = n.deep(level)
	switch n.pick("indent", 4) {
	case 0, 1:
		return strings.Repeat("  ", level)
	case 2:
		return strings.Repeat("\t", level)
	default:
		return ""
	}
}

// ---------------------------------------------------------------- strings

// QuoteNative spells s as a quoted template literal.
func QuoteNative(s string) string {
	var b strings.Builder
	b.WriteByte('"')
	for i := 0; i < len(s); {
		r, w := utf8.DecodeRuneInString(s[i:])
		switch {
		case r == '"':
			b.WriteString(`\"`)
		case r == '\\':
			b.WriteString(`\\`)
		case r == '\n':
			b.WriteString(`\n`)
		case r == '\r':
			b.WriteString(`\r`)
		case r == '\t':
			b.WriteString(`\t`)
		case (r == '$' || r == '%') && i+1 < len(s) && s[i+1] == '{':
			b.WriteRune(r)
			b.WriteRune(r)
		default:
			b.WriteString(s[i : i+w])
		}
		i += w
	}
	b.WriteByte('"')
	return b.String()
}

// EscapeTemplate spells literal text inside a bare template (heredoc body, JSON
// string in full expression mode): only the two introducers need doubling.
func EscapeTemplate(s string) string {
	s = strings.ReplaceAll(s, "${", "$${")
	s = strings.ReplaceAll(s, "%{", "%%{")
	return s
}

func heredocOK(s string) bool {
	if !strings.HasSuffix(s, "\n") || strings.Contains(s, "\r") {
		return false
	}
	for _, ln := range strings.Split(s, "\n") {
		if strings.TrimSpace(ln) == "EOT" {
			return false
		}
	}
	return true
}

// ---------------------------------------------------------------- expressions

func (n *Native) refSrc(e RExpr) string {
	var b strings.Builder
	b.WriteString(e.Ref)
	for _, p := range e.Path {
		if validIdent(p) && n.pick("refstyle", 3) != 2 {
			b.WriteString("." + p)
		} else {
			b.WriteString("[" + QuoteNative(p) + "]")
		}
	}
	if e.Interp {
		n.bump("native:ref-as-template")
		return `"${` + n.tsp() + b.String() + n.tsp() + `}"`
	}
	return b.String()
}

func (n *Native) tsp() string {
	if n.pick("tsp", 3) == 1 {
		return " "
	}
	return ""
}

// expr renders an expression; top: directly the value of an attribute (heredocs allowed).
func (n *Native) expr(e RExpr, top bool, level int) string {
	if e.Lit == nil {
		return n.refSrc(e)
	}
	return n.lit(*e.Lit, top, level)
}

func (n *Native) lit(v Val, top bool, level int) string {
	switch v.K {
	case "null":
		return "null"
	case "b":
		if v.B {
			return "true"
		}
		return "false"
	case "n":
		if strings.HasPrefix(v.S, "-") && n.pick("negsp", 4) == 1 {
			return "- " + v.S[1:]
		}
		return v.S
	case "s":
		if top && heredocOK(v.S) && n.pick("heredoc", 3) == 1 {
			n.bump("native:heredoc")
			return "<<EOT\n" + EscapeTemplate(v.S) + "EOT"
		}
		return QuoteNative(v.S)
	case "l":
		if len(v.L) == 0 {
			return "[" + n.brsp() + "]"
		}
		multi := n.pick("multiline", 3) == 1
		var b strings.Builder
		b.WriteString("[")
		for i, e := range v.L {
			if multi {
				b.WriteString(n.brnl(level + 1))
			} else if i > 0 {
				b.WriteString(n.sp())
			} else {
				b.WriteString(n.brsp())
			}
			b.WriteString(n.lit(e, false, level+1))
			if i < len(v.L)-1 {
				b.WriteString(n.brsp() + ",")
			} else if n.pick("trailing-comma", 4) == 1 {
				b.WriteString(",")
			}
		}
		if multi {
			b.WriteString(n.brnl(level))
		} else {
			b.WriteString(n.brsp())
		}
		b.WriteString("]")
		return b.String()
	case "m":
		if len(v.M) == 0 {
			return "{" + n.brsp() + "}"
		}
		multi := !n.Noise || n.pick("multiline", 3) != 1
		var b strings.Builder
		b.WriteString("{")
		for i, kv := range v.M {
			if multi {
				b.WriteString(n.brnl(level + 1))
			} else {
				b.WriteString(n.sp())
			}
			if validIdent(kv.K) && !isKeyword(kv.K) && n.pick("barekey", 3) != 1 {
				b.WriteString(kv.K)
			} else {
				b.WriteString(QuoteNative(kv.K))
			}
			if n.pick("colon", 4) == 1 {
				b.WriteString(n.sp() + ":" + n.sp())
			} else {
				b.WriteString(n.sp() + "=" + n.sp())
			}
			b.WriteString(n.lit(kv.V, false, level+1))
			if !multi && i < len(v.M)-1 {
				b.WriteString(n.brsp() + ",")
			} else if multi && n.pick("objcomma", 4) == 1 {
				b.WriteString(",")
			}
		}
		if multi {
			b.WriteString(n.brnl(level))
		} else {
			b.WriteString(n.sp())
		}
		b.WriteString("}")
		return b.String()
	}
	panic("cfggen: bad val " + v.K)
}

func isKeyword(s string) bool {
	switch s {
	case "for", "in", "if", "else", "endif", "endfor", "null", "true", "false":
		return true
	}
	return false
}

// brsp: optional space inside brackets.
func (n *Native) brsp() string {
	switch n.pick("brsp", 5) {
	case 1:
		return " "
	case 2:
		return n.inlineComment()
	}
	return ""
}

// brnl: newline inside brackets (newlines are insignificant there), possibly with a comment line.
func (n *Native) brnl(level int) string {
	ind := strings.Repeat("  ", n.deep(level))
	switch n.pick("brnl", 5) {
	case 1:
		return " " + n.lineCommentNoBlock() + ind
	case 2:
		return n.nl() + n.nl() + ind
	case 3:
		return n.nl() + "\t"
	}
	return n.nl() + ind
}

func (n *Native) lineCommentNoBlock() string {
	txt := rapid.SampledFrom(commentTexts).Draw(n.T, "comment")
	if rapid.Bool().Draw(n.T, "cstyle") {
		n.bump("noise:hash-comment")
		return "# " + txt + n.nl()
	}
	n.bump("noise:slash-comment")
	return "// " + txt + n.nl()
}

// ---------------------------------------------------------------- bodies

func (n *Native) label(l string) string {
	if validIdent(l) && n.pick("barelabel", 3) == 1 {
		n.bump("native:bare-label")
		return l
	}
	return QuoteNative(l)
}

// Body renders the items of a body at the given nesting level.
func (n *Native) Body(b RBody, level int) string {
	var out strings.Builder
	for _, it := range b.Items {
		ind := n.indent(level)
		out.WriteString(n.lead(ind))
		out.WriteString(ind)
		switch {
		case it.Attr != nil:
			src := n.expr(it.Attr.E, true, level)
			out.WriteString(it.Attr.Name + n.sp() + "=" + n.sp() + src)
			if strings.HasPrefix(src, "<<") {
				// a heredoc's closing marker must be followed directly by the newline
				out.WriteString("\n")
			} else {
				out.WriteString(n.eol())
			}
		case it.Block != nil:
			out.WriteString(it.Block.Type)
			for _, l := range it.Block.Labels {
				out.WriteString(n.sp1() + n.label(l))
			}
			out.WriteString(n.sp() + n.blockBody(it.Block.Body, level))
		case it.Dyn != nil:
			d := it.Dyn
			out.WriteString("dynamic" + n.sp1() + QuoteNative(d.Type) + n.sp() + "{" + n.eol())
			in1 := n.indent(level + 1)
			// the four parts of a dynamic block, in random order
			parts := []string{in1 + "for_each" + n.sp() + "=" + n.sp() + n.expr(d.ForEach, false, level+1) + n.eol()}
			if d.Iterator != "" {
				parts = append(parts, in1+"iterator"+n.sp()+"="+n.sp()+d.Iterator+n.eol())
			}
			if d.HasLabels {
				var ls []string
				for _, l := range d.Labels {
					ls = append(ls, n.expr(l, false, level+1))
				}
				parts = append(parts, in1+"labels"+n.sp()+"="+n.sp()+"["+strings.Join(ls, ","+n.sp())+"]"+n.eol())
			}
			parts = append(parts, in1+"content"+n.sp()+n.blockBody(d.Content, level+1))
			if n.Noise {
				parts = rapid.Permutation(parts).Draw(n.T, "dynparts")
			}
			out.WriteString(strings.Join(parts, ""))
			out.WriteString(n.indent(level) + "}" + n.eol())
		}
	}
	return out.String()
}

// blockBody renders "{ ... }" plus the end of line.
func (n *Native) blockBody(b RBody, level int) string {
	if len(b.Items) == 0 {
		switch n.pick("emptyblock", 3) {
		case 1:
			return "{ }" + n.eol()
		case 2:
			return "{" + n.nl() + n.indent(level) + "}" + n.eol()
		}
		return "{}" + n.eol()
	}
	if len(b.Items) == 1 && b.Items[0].Attr != nil && n.pick("oneline", 4) == 1 {
		a := b.Items[0].Attr
		src := n.expr(a.E, false, level+1)
		if !strings.Contains(src, "\n") {
			n.bump("native:one-line-block")
			return "{" + n.sp() + a.Name + n.sp() + "=" + n.sp() + src + n.sp() + "}" + n.eol()
		}
	}
	return "{" + n.eol() + n.Body(b, level+1) + n.indent(level) + "}" + n.eol()
}
